(* C02.v — "The text reader decodes every valid spelling of a value to exactly that value."

   Theorems about the executable reader model (Text/Tokenizer.v, Skipper.v, TextReader.v, TextNum.v),
   for ALL spellings (unbounded, by induction over inductive spelling relations written from the
   Ion 1.0 text grammar).  Statements only; the proofs are in Text/Spell*.v.

   Vocabulary (Text/SpellBase.v): [norm] = newline normalisation (CR LF | CR -> LF);
   [stream t] = the characters tokenizer state t will still deliver; [zs] = bytes as characters;
   [shead]/[stail] = first character (-1 at the end) / the rest of a stream.
   The model has no position counter (t.pos only feeds error messages): "consumes exactly w" is stated
   as "the characters still to be delivered are exactly those of the rest".

   Not covered (see the comments at the theorems named ..._partial):
   at the stream level: operator symbols that begin with a slash, and an operator directly followed by a comment,
   long strings as field names, local symbol tables and the version marker inside a stream, a `//` comment
   that runs to the end of the input after the last value (covered at tokenizer level only),
   strconv.ParseFloat (floats are carried as their literal text). *)
From Coq Require Import String List NArith ZArith Bool.
From IonV Require Import Base.Wire Base.Utf8 Data.Ion Bin.BitStream Bin.BinReader Text.Tokenizer Text.Skipper
  Text.TextReader Text.TextNum Text.SpecText
  Text.SpellBase Text.SpellWs Text.SpellNum Text.SpellIdent Text.SpellSym Text.SpellEsc Text.SpellStr Text.SpellLong
  Text.SpellBlob Text.SpellTs Text.SpellTok Text.SpellRead Text.SpellVal Text.SpellSymVal Text.SpellOp Text.SpellStream
  Text.SpellCont Text.SpellTree Text.SpellTreeEx.
Import ListNotations.
Open Scope Z_scope.

(* ======== 1. whitespace and comments ============================================================== *)
(* any run of SP HT LF CR VT FF, `//...` up to LF or CR, `/*...*/`, in front of something that cannot continue
   it: skipWhitespace consumes exactly the run and answers the next character *)
Theorem c02_skip_whitespace : forall w rest t,
  ws_run w -> ws_stop (zs (norm rest)) = true ->
  t_ioerr t = false -> t_buf t = [] -> t_in t = w ++ rest ->
  exists t', t_skip_whitespace t = Ok ((shead (zs (norm rest)), nonempty w), t') /\
             stream t' = after_stop (zs (norm rest)) /\ t_ioerr t' = false /\
             t_token t' = t_token t /\ t_unfinished t' = t_unfinished t.
Proof. exact skip_whitespace_spelling. Qed.
Print Assumptions c02_skip_whitespace.
Example c02_skip_whitespace_ex : ws_run ws_example.
Proof. exact ws_example_ok. Qed.

(* inside {{ }}: plain whitespace only, a slash is not a comment *)
Theorem c02_skip_lob_whitespace : forall w rest t,
  ws_plain w -> is_whitespace (shead (zs (norm rest))) = false ->
  t_ioerr t = false -> t_buf t = [] -> t_in t = w ++ rest ->
  exists t', t_skip_lob_whitespace t = Ok ((shead (zs (norm rest)), nonempty w), t') /\
             stream t' = stail (zs (norm rest)) /\ t_ioerr t' = false /\
             t_token t' = t_token t /\ t_unfinished t' = t_unfinished t.
Proof. exact skip_lob_whitespace_spelling. Qed.
Print Assumptions c02_skip_lob_whitespace.
Example c02_skip_lob_whitespace_ex : ws_plain [32; 9; 10; 13; 11; 12]%N.
Proof. repeat (apply wsp_ch; [reflexivity|]). apply wsp_nil. Qed.

(* a `//` comment may also run to the end of the input *)
Theorem c02_skip_whitespace_eof_comment : forall w body t,
  ws_run w -> Forall not_nl body ->
  t_ioerr t = false -> t_buf t = [] -> t_in t = w ++ (47 :: 47 :: body)%N ->
  exists t', t_skip_whitespace t = Ok ((-1, true), t') /\
             stream t' = [] /\ t_ioerr t' = false /\
             t_token t' = t_token t /\ t_unfinished t' = t_unfinished t.
Proof. exact skip_whitespace_spelling_eof_comment. Qed.
Print Assumptions c02_skip_whitespace_eof_comment.
Example c02_skip_whitespace_eof_comment_ex : ws_run ws_example /\ Forall not_nl (s " the end */").
Proof. split; [exact ws_example_ok|]. repeat constructor; discriminate. Qed.

(* ======== 2./3. numbers =============================================================================== *)
(* every decimal-radix literal (optional '-', integer part with single underscores between digits and no leading
   zeros, optional '.' and fraction with underscores, optional e/E/d/D exponent with sign and plain digits)
   followed by a terminator (stop character, end of input, or the start of a comment: [terminated]):
   ReadNumber returns the underscore-free text and the kind, and pushes the terminator back *)
Theorem c02_read_number : forall n rest t,
  num_wf n -> terminated (zs (norm rest)) = true ->
  t_ioerr t = false -> t_buf t = [] -> t_in t = num_text n ++ rest ->
  exists t', t_read_number t = Ok ((num_plain n, num_kind n), t') /\
             stream t' = unterm (zs (norm rest)) /\ t_ioerr t' = false /\
             t_token t' = t_token t /\ t_unfinished t' = t_unfinished t.
Proof. exact read_number_spelling. Qed.
Print Assumptions c02_read_number.
Example c02_read_number_ex : num_wf num_example /\ num_text num_example = s "-1_234.5_0e-07".
Proof. split; [exact num_example_wf|reflexivity]. Qed.

(* 0x / 0X / 0b / 0B integers with underscores, optional '-' *)
Theorem c02_read_radix : forall (hex : bool) neg m w p rest t,
  (if hex then (m = 120 \/ m = 88)%N /\ us_digits is_hex_b w p else (m = 98 \/ m = 66)%N /\ us_digits is_bin_b w p) ->
  terminated (zs (norm rest)) = true ->
  t_ioerr t = false -> t_buf t = [] -> t_in t = (sign_bytes neg ++ 48%N :: m :: w) ++ rest ->
  exists t', (if hex then read_hex else read_binary) t = Ok (sign_bytes neg ++ 48%N :: m :: p, t') /\
             stream t' = unterm (zs (norm rest)) /\ t_ioerr t' = false /\
             t_token t' = t_token t /\ t_unfinished t' = t_unfinished t.
Proof. exact read_radix_spelling. Qed.
Print Assumptions c02_read_radix.
Example c02_read_radix_ex :
  exists t', read_hex (t_init (s "-0xdead_BEEF]") false) = Ok (s "-0xdeadBEEF", t') /\
             parse_int (s "-0xdeadBEEF") 16 = Ok (I64 (-3735928559)).
Proof. exact radix_example_read. Qed.

(* parseInt on the underscore-free text gives exactly +-n *)
Theorem c02_parse_int_dec : forall neg w p,
  us_digits is_dec_b w p -> parse_int (sign_bytes neg ++ p) 10 = Ok (mk_int (sgn neg (digits_value 10 p))).
Proof. exact parse_int_dec. Qed.
Print Assumptions c02_parse_int_dec.
Theorem c02_parse_int_hex : forall neg m w p,
  us_digits is_hex_b w p -> parse_int (sign_bytes neg ++ 48%N :: m :: p) 16 = Ok (mk_int (sgn neg (digits_value 16 p))).
Proof. exact parse_int_hex. Qed.
Print Assumptions c02_parse_int_hex.
Theorem c02_parse_int_bin : forall neg m w p,
  us_digits is_bin_b w p -> parse_int (sign_bytes neg ++ 48%N :: m :: p) 2 = Ok (mk_int (sgn neg (digits_value 2 p))).
Proof. exact parse_int_bin. Qed.
Print Assumptions c02_parse_int_bin.
Example c02_parse_int_ex : us_digits is_dec_b (s "1_234") (s "1234") /\ digits_value 10 (s "1234") = 1234%N.
Proof. destruct num_example_wf as (H & _). split; [exact H|reflexivity]. Qed.

(* ParseDecimal (as transcribed in TextNum.v) gives coefficient, exponent and negative zero as the grammar denotes,
   whenever the exponent of the VALUE (written exponent minus the number of fraction digits) fits int32; the written
   exponent itself only has to be readable by strconv.ParseInt(_, 10, 64) *)
Theorem c02_parse_decimal : forall n,
  num_wf n -> num_kind n = NKDecimal ->
  -2147483648 <= d_exp (dec_denotes n) <= 2147483647 ->
  written_exp_int64 n = true ->
  parse_decimal_text (num_plain n) = Ok (dec_denotes n).
Proof. exact parse_decimal_spelling. Qed.
Print Assumptions c02_parse_decimal.
(* outside that range the literal is refused with an error: no panic, no wrapped exponent (a Go string is shorter
   than 2^62 bytes) *)
Theorem c02_parse_decimal_out_of_range : forall n,
  num_wf n -> num_kind n = NKDecimal ->
  Z.of_nat (length (n_fp n)) < 4611686018427387904 ->
  in_int32 (d_exp (dec_denotes n)) = false \/ written_exp_int64 n = false ->
  parse_decimal_text (num_plain n) = Err.
Proof. exact parse_decimal_spelling_out_of_range. Qed.
Print Assumptions c02_parse_decimal_out_of_range.
(* 0.5d2147483648: the written exponent is beyond int32, the value 5d2147483647 is not *)
Example c02_parse_decimal_written_over_int32 :
  num_wf dexp_witness /\ num_kind dexp_witness = NKDecimal /\ num_plain dexp_witness = s "0.5d2147483648" /\
  in_int32 (exp_value (n_exp dexp_witness)) = false /\ written_exp_int64 dexp_witness = true /\
  dec_denotes dexp_witness = {| d_coef := 5; d_exp := 2147483647; d_negzero := false |} /\
  parse_decimal_text (s "0.5d2147483648") = Ok {| d_coef := 5; d_exp := 2147483647; d_negzero := false |}.
Proof. split; [exact dexp_witness_wf|]. repeat split; reflexivity. Qed.
(* both ends of the range are read, one step beyond either is an error; so is a written exponent beyond int64 *)
Example c02_parse_decimal_range_ends :
  parse_decimal_text (s "1.5d-2147483647") = Ok {| d_coef := 15; d_exp := -2147483648; d_negzero := false |} /\
  parse_decimal_text (s "1d-2147483648") = Ok {| d_coef := 1; d_exp := -2147483648; d_negzero := false |} /\
  parse_decimal_text (s "12.345d2147483650") = Ok {| d_coef := 12345; d_exp := 2147483647; d_negzero := false |} /\
  parse_decimal_text (s "1d2147483647") = Ok {| d_coef := 1; d_exp := 2147483647; d_negzero := false |} /\
  parse_decimal_text (s "1.5d-2147483648") = Err /\ parse_decimal_text (s "1d-2147483649") = Err /\
  parse_decimal_text (s "12.345d2147483651") = Err /\ parse_decimal_text (s "1d2147483648") = Err /\
  parse_decimal_text (s "0.5d9223372036854775808") = Err /\ parse_decimal_text (s "0.5d-9223372036854775809") = Err.
Proof. vm_compute. repeat split. Qed.
Example c02_parse_decimal_ex :
  parse_decimal_text (s "-0.00d-5") = Ok {| d_coef := 0; d_exp := -7; d_negzero := true |}.
Proof. reflexivity. Qed.

(* floats: the text handed to strconv.ParseFloat is the underscore-free spelling and passes the model's syntax
   check; strconv.ParseFloat itself is not modelled and not re-proved *)
Theorem c02_float_text : forall n,
  num_wf n -> num_kind n = NKFloat -> float_syntax_ok (num_plain n) = true.
Proof. exact float_syntax_spelling. Qed.
Print Assumptions c02_float_text.
Example c02_float_text_ex : num_kind num_example = NKFloat /\ num_plain num_example = s "-1234.50e-07".
Proof. split; reflexivity. Qed.

(* ======== 4. strings ==================================================================================== *)
(* every escape: the model's reader and the specification's p_escape give the denoted code point *)
Theorem c02_escape : forall e cp s0, esc_spells e cp -> run (read_escaped_char false) (zs e ++ s0) cp s0.
Proof. exact run_read_escaped_char. Qed.
Print Assumptions c02_escape.
Theorem c02_escape_spec : forall (lob : bool) e cp r,
  (if lob then esc_spells_clob e cp else esc_spells e cp) ->
  SpecText.p_escape lob (e ++ r) = Some (SpecText.EChar (Z.to_N cp), r).
Proof. exact p_escape_spells. Qed.
Print Assumptions c02_escape_spec.
Example c02_escape_ex : esc_spells (s "uD83d\uDe00") 128512.
Proof. exact esc_ex_pair. Qed.

(* short strings: raw characters, every escape, line continuations (\ LF, \ CR, \ CR LF) *)
Theorem c02_read_string : forall w text rest t,
  qbody 34 w text -> utf8_valid text = true ->
  t_ioerr t = false -> t_buf t = [] -> t_in t = w ++ 34%N :: rest ->
  exists t', read_string t = Ok (text, t') /\
             stream t' = zs (norm rest) /\ t_ioerr t' = false /\
             t_token t' = t_token t /\ t_unfinished t' = t_unfinished t.
Proof. exact read_string_spelling. Qed.
Print Assumptions c02_read_string.
Example c02_read_string_ex : qbody 34 str_ex_w str_ex_t /\ utf8_valid str_ex_t = true.
Proof. split; [exact str_ex_ok|exact str_ex_utf8]. Qed.

(* long strings: segments '''...''' concatenated across whitespace and comments; raw LF / CR / CR LF are LF *)
Theorem c02_read_long_string : forall w ts ws rest t,
  lsegs w ts -> valid_segs ts -> ws_run ws ->
  ws_stop (zs (norm rest)) = true -> starts3 (zs (norm rest)) = false ->
  t_ioerr t = false -> t_buf t = [] -> t_in t = w ++ ws ++ rest ->
  exists t', read_long_string t = Ok (concat ts, t') /\
             stream t' = long_end (zs (norm rest)) /\ t_ioerr t' = false /\
             t_token t' = t_token t /\ t_unfinished t' = t_unfinished t.
Proof. exact read_long_string_spelling. Qed.
Print Assumptions c02_read_long_string.
Example c02_read_long_string_ex : lsegs long_ex_w [long_ex_t1; long_ex_t2] /\ valid_segs [long_ex_t1; long_ex_t2].
Proof. split; [exact long_ex_ok|exact long_ex_valid]. Qed.

(* ======== 5. symbols ==================================================================================== *)
Theorem c02_read_symbol : forall pre w' w rest t,
  ident_chars w -> w = pre ++ w' -> is_identifier_part (shead (zs (norm rest))) = false ->
  t_ioerr t = false -> t_buf t = zs pre -> t_in t = w' ++ rest ->
  exists t', read_symbol t = Ok (w, t') /\
             stream t' = spush (zs (norm rest)) /\ t_ioerr t' = false /\
             t_token t' = t_token t /\ t_unfinished t' = t_unfinished t.
Proof. exact read_symbol_spelling. Qed.
Print Assumptions c02_read_symbol.
Example c02_read_symbol_ex : ident_chars (s "$ion_Symbol_table_9Z").
Proof. exact ident_example_ok. Qed.

Theorem c02_read_quoted_symbol : forall w text rest t,
  qbody 39 w text -> utf8_valid text = true ->
  t_ioerr t = false -> t_buf t = [] -> t_in t = w ++ 39%N :: rest ->
  exists t', read_quoted_symbol t = Ok (text, t') /\
             stream t' = zs (norm rest) /\ t_ioerr t' = false /\
             t_token t' = t_token t /\ t_unfinished t' = t_unfinished t.
Proof. exact read_quoted_symbol_spelling. Qed.
Print Assumptions c02_read_quoted_symbol.
Example c02_read_quoted_symbol_ex : qbody 39 sym_ex_w sym_ex_t.
Proof. exact sym_ex_ok. Qed.

(* operator symbols (inside s-expressions): a non-empty run of operator characters that does not run into a
   comment opener (the grammar ends an operator in front of `//` and `/*`).  FINDING, repaired with
   fix_operator_comment.diff and in the model: ion-go's readOperator used to swallow the comment opener,
   `(+//` LF `)` read the symbol `+//` and `(+/**/)` the symbol `+/**/` ([operator_comment_agreement]). *)
Theorem c02_read_operator : forall pre w' w rest t,
  op_chars w -> no_comment_start w = true -> w = pre ++ w' ->
  is_operator_char (shead (zs (norm rest))) = false ->
  t_ioerr t = false -> t_buf t = zs pre -> t_in t = w' ++ rest ->
  exists t', read_operator t = Ok (w, t') /\
             stream t' = spush (zs (norm rest)) /\ t_ioerr t' = false /\
             t_token t' = t_token t /\ t_unfinished t' = t_unfinished t.
Proof. exact read_operator_spelling. Qed.
Print Assumptions c02_read_operator.
Example c02_read_operator_ex : op_chars (s "<=>") /\ no_comment_start (s "<=>") = true.
Proof. split; [|reflexivity]. constructor; [|repeat constructor]; unfold op_char; cbn; tauto. Qed.

(* $n and plain identifiers *)
Theorem c02_symbol_sid : forall l w n,
  sid_spells w n -> (n <= 9223372036854775807)%N ->
  new_symbol_token l w = match tok_by_sid l n with Some k => Ok k | None => Err end.
Proof. exact new_symbol_token_sid. Qed.
Print Assumptions c02_symbol_sid.
(* beyond 2^63-1 no table defines the ID: the reader rejects the token (it is not read as text) *)
Theorem c02_symbol_sid_out_of_range : forall l w n,
  sid_spells w n -> (9223372036854775807 < n)%N -> new_symbol_token l w = Err.
Proof. exact new_symbol_token_sid_out_of_range. Qed.
Print Assumptions c02_symbol_sid_out_of_range.
Theorem c02_symbol_text : forall l w,
  ident_chars w -> not_sid_form w -> new_symbol_token l w = Ok (name_symbol_token l w).
Proof. exact new_symbol_token_text. Qed.
Print Assumptions c02_symbol_text.
Example c02_symbol_sid_ex : sid_spells (s "$007") 7.
Proof. exact sid_example. Qed.
Example c02_symbol_sid_out_of_range_ex : sid_spells (s "$9223372036854775808") 9223372036854775808.
Proof. exact sid_example_big. Qed.

(* ======== 6. lobs ========================================================================================= *)
Theorem c02_read_blob : forall w chars bytes rest t,
  interleaved w chars -> b64_text chars bytes ->
  t_ioerr t = false -> t_buf t = [] -> t_in t = w ++ 125%N :: 125%N :: rest ->
  exists t', t_read_blob t = Ok (chars, t') /\
             stream t' = zs (norm rest) /\ t_ioerr t' = false /\
             t_token t' = t_token t /\ t_unfinished t' = false /\
             b64_decode chars = Some bytes.
Proof. exact read_blob_spelling. Qed.
Print Assumptions c02_read_blob.
Theorem c02_blob_spec : forall w chars bytes rest,
  interleaved w chars -> b64_text chars bytes ->
  SpecText.p_blob (w ++ 125 :: 125 :: rest)%N = Some (VBlob bytes, rest).
Proof. exact spec_blob_spelling. Qed.
Print Assumptions c02_blob_spec.
Example c02_read_blob_ex : blob_spelling blob_example (s "hello").
Proof. exact blob_example_ok. Qed.

Theorem c02_read_clob : forall w bytes rest t,
  cbody w bytes ->
  t_ioerr t = false -> t_buf t = [] -> t_in t = w ++ 34%N :: rest ->
  exists t', read_clob t = Ok (bytes, t') /\
             stream t' = zs (norm rest) /\ t_ioerr t' = false /\
             t_token t' = t_token t /\ t_unfinished t' = t_unfinished t.
Proof. exact read_clob_spelling. Qed.
Print Assumptions c02_read_clob.
Example c02_read_clob_ex : cbody clob_ex_w clob_ex_t.
Proof. exact clob_ex_ok. Qed.
Theorem c02_read_long_clob : forall w ts ws rest t,
  lcsegs w ts -> ws_plain ws ->
  lob_stop (zs (norm rest)) = true -> starts3 (zs (norm rest)) = false ->
  t_ioerr t = false -> t_buf t = [] -> t_in t = w ++ ws ++ rest ->
  exists t', read_long_clob t = Ok (concat ts, t') /\
             stream t' = long_end_lob (zs (norm rest)) /\ t_ioerr t' = false /\
             t_token t' = t_token t /\ t_unfinished t' = t_unfinished t.
Proof. exact read_long_clob_spelling. Qed.
Print Assumptions c02_read_long_clob.
Example c02_read_long_clob_ex : lcsegs lclob_ex_w [lclob_ex_t1; lclob_ex_t2].
Proof. exact lclob_ex_ok. Qed.

(* ======== 7. timestamps ================================================================================== *)
(* every precision (year .. fraction with any number of digits) and offset form (Z, +hh:mm, -hh:mm, -00:00):
   readTimestamp returns the literal, the model's parser gives the denoted fields, and the specification
   decoder takes the same literal *)
Theorem c02_timestamp : forall sh rest t,
  ts_ok sh = true -> SpecText.num_end rest = true ->
  t_ioerr t = false -> t_buf t = [] -> t_in t = ts_text sh ++ rest ->
  (exists t', read_timestamp t = Ok (ts_text sh, t') /\
              stream t' = ts_after (zs (norm rest)) /\ t_ioerr t' = false /\
              t_token t' = t_token t /\ t_unfinished t' = t_unfinished t) /\
  parse_ts_text (ts_text sh) = Ok (show_tuple (ts_fields sh)) /\
  SpecText.looks_like_timestamp (t_in t) = true /\
  SpecText.p_timestamp (t_in t) = Some (spec_value sh, rest).
Proof. exact timestamp_spelling. Qed.
Print Assumptions c02_timestamp.
Example c02_timestamp_ex :
  forallb (fun '(sh, l) => ts_ok sh && list_eqb (ts_text sh) (s l)) ts_examples = true.
Proof. exact ts_examples_text. Qed.

(* ======== 8. values and streams ========================================================================== *)
(* PARTIAL: top-level streams of scalar values.  For every text  w0 v1 w1 v2 w2 ... vn wn  where the wi are
   whitespace runs (both comment forms) and every vi is any number of annotations `a ::` / `'a' ::` (whitespace
   runs around the `::`) in front of a literal of any class of sections 2-7 (decimal-radix numbers, 0x/0b integers,
   timestamps, +inf/-inf, short and long strings, blobs, short and long clobs, identifiers, $n, quoted symbols,
   true/false/nan, null, null.<type>), each followed by what the grammar requires ([f_term], [f_ident], ...),
   the reader model's full traversal (Next / FieldName / Annotations / Type / IsNull / accessor, then F e0 F e0 F e0)
   is exactly the trace of the denoted values.
   OMITTED spellings: lists, s-expressions and structs (hence operator symbols and field names), local symbol
   tables and version markers between the values, a `//` comment without newline at the very end of the input. *)
Theorem c02_traverse_scalar_stream_partial : forall inp w0 text vs,
  norm inp = w0 ++ text -> ws_run w0 -> vals_spell parse_decimal_text parse_ts_text LSys text vs ->
  x_traverse parse_decimal_text parse_ts_text inp false = strace vs.
Proof. exact traverse_scalar_stream_text. Qed.
Print Assumptions c02_traverse_scalar_stream_partial.
Example c02_traverse_scalar_stream_ex :
  (exists w0 text, norm stream_example = w0 ++ text /\ ws_run w0 /\
                   vals_spell parse_decimal_text parse_ts_text LSys text stream_example_values) /\
  join_sp (strace stream_example_values) =
  s "T nil a[] y3 n0 I12 T nil a[k61.-1;k62.-1;] y8 n0 Sx780a T nil a[] y3 n1 T nil a[] y7 n0 k6e616d65.4 T nil a[] y3 n0 I-31 F e0 F e0 F e0".
Proof. split; [exact stream_example_spells|exact stream_example_strace]. Qed.

(* one value, in any container context: Next on a whitespace run, annotations and a literal *)
Theorem c02_next_value : forall pd pt api lst ctx ann text fol anns ty v,
  aval_spells pd pt lst ctx ann text fol anns ty v ->
  forall wn rest S2,
  no_cr text -> ws_run wn -> no_cr wn -> fol wn rest ->
  ends S2 rest -> ws_stop S2 = true -> dcolon S2 = false ->
  exists S' k' u', settled S' k' u' rest /\
    forall w k0 fld ty0 v0 kk fuel, (length text <= kk)%nat -> ws_run w -> no_cr w ->
    rrun (x_next_loop pd pt api (S kk) fuel)
         (mkax (zs w ++ zs text ++ zs wn ++ S2) k0 false trsBeforeTypeAnnotations ctx false false lst fld ann ty0 v0) true
         (mkax S' k' u' (after_value_state ctx) ctx false false lst fld anns ty v).
Proof. exact aval_next. Qed.
Print Assumptions c02_next_value.

(* PARTIAL (the strongest lift proved): top-level streams of VALUE TREES.  A value is any number of annotations in
   front of a scalar literal (as above) or of a container:
     list    [ ws (value ws (, ws value ws)* (, ws)?)? ]          one trailing comma allowed
     sexp    ( ws (value ws)* )
     struct  { ws (name ws : ws value ws (, ws name ws : ws value ws)* (, ws)?)? }
   with whitespace runs (both comment forms) between all tokens, containers nested to any depth, annotations on
   containers, field names spelled as identifiers, $n, quoted symbols or short strings (every escape).
   The reader model's full traversal (Next / FieldName / Annotations / Type / IsNull / accessor or StepIn ... StepOut,
   then F e0 F e0 F e0) is exactly the trace of the tree.
   Operator symbols (directly inside an s-expression) are covered when they contain no comment opener and do not
   begin with a slash.
   OMITTED spellings: operator symbols beginning with a slash; an operator directly followed (no whitespace) by a
   comment; long strings as field names; a struct annotated
   $ion_symbol_table at top level (a local symbol table) and the bare version marker $ion_1_0 between values;
   a // comment without newline at the very end of the input. *)
Theorem c02_traverse_stream_partial : forall inp w0 text tvs,
  norm inp = w0 ++ text -> ws_run w0 -> tops_spell parse_decimal_text parse_ts_text LSys text tvs ->
  x_traverse parse_decimal_text parse_ts_text inp false = ttrace tvs.
Proof. exact traverse_stream_text. Qed.
Print Assumptions c02_traverse_stream_partial.
Example c02_traverse_stream_ex :
  (exists w0 text, norm tree_example = w0 ++ text /\ ws_run w0 /\
                   tops_spell parse_decimal_text parse_ts_text LSys text tree_example_values) /\
  join_sp (ttrace tree_example_values) =
  s "T nil a[] y11 n0 ok T nil a[] y3 n0 I1 T nil a[] y12 n0 ok T nil a[] y7 n0 k61.-1 T nil a[] y7 n0 k3c3d3e.-1 T nil a[] y8 n0 Sx62 F ok F ok T nil a[] y13 n0 ok T k78.-1 a[] y3 n0 I2 T k79.-1 a[] y11 n0 ok F ok F ok F e0 F e0 F e0" /\
  option_map (fun v => show_str (show_values v)) (SpecText.tdecode tree_example)
  = Some "[ I1 ( Yt61 Yt3c3d3e Sx62 ) ] { ft78 I2 ft79 [ ] }"%string.
Proof. split; [exact tree_example_spells|split; [exact tree_example_ttrace|exact tree_example_spec]]. Qed.

(* the same inside any container, with any separator in front: one member (value tree) is traversed and the reader is
   left in front of the next separator; and a whole member sequence up to the closing bracket, with StepOut *)
Theorem c02_traverse_tree : forall pd pt lst,
  (forall ctx text fol tv, tspell pd pt lst ctx text fol tv -> P_val pd pt lst ctx text fol tv) /\
  (forall ctx st text items, cseq pd pt lst ctx st text items -> P_seq pd pt lst ctx st text items).
Proof. exact traverse_tree. Qed.
Print Assumptions c02_traverse_tree.
