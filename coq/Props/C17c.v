(* C17c — C17 part (2a), FAITHFUL-OR-ERROR on the universe rty2 (Go/MarshalSpec2.v): whenever Unmarshal into a
   zero value of type t answers Ok g, the Go value g represents the Ion value under the documented mapping
   ([represents], Go/DecodeSpec2.v, written independently of the decoder model); hence an Ion value that has
   no representative (integer out of range, float32 overflow, symbol without text, wrong Ion class — at the
   top or inside a slice, array, map, pointer or matched struct field) is never decoded successfully.
   Statements only; every proof is [exact <lemma>].
   Written down in [represents] as the code behaves: Ion elements beyond the length of an array target are
   dropped silently; a struct field matched by two Ion fields is left unconstrained. *)
From Coq Require Import String List NArith ZArith Bool.
From IonV Require Import Base.Wire Data.Ion Num.Float Go.GoTypes Go.Fields Go.Decode Go.MarshalSpec
  Go.MarshalSpec2 Go.DecodeSpec2 Go.DecodeFaithful2P.
Import ListNotations.
Open Scope N_scope.

(* T17c.1 — soundness of decodeTo, any adequate fuel *)
Theorem C17c_decode_represents : forall t, rty2 t = true ->
  forall f v g, (ty_depth t < f)%nat -> wfv v = true ->
    decto f t (zero t) false v = Ok g -> represents t g v.
Proof. exact decode_represents. Qed.

(* T17c.2 — Unmarshal(data, &x), x a zero value *)
Theorem C17c_decode_to_represents : forall t v g, rty2 t = true -> wfv v = true ->
  decode_to t v = Ok g -> represents t g v.
Proof. exact decode_to_represents. Qed.

Example C17c_ex_decode : decode_to c17c_T c17c_V = Ok c17c_G.
Proof. vm_compute. reflexivity. Qed.
Example C17c_ex_represents : represents c17c_T c17c_G c17c_V.
Proof. exact (C17c_decode_to_represents c17c_T c17c_V c17c_G eq_refl eq_refl C17c_ex_decode). Qed.
Example C17c_ex_represents_fuel : represents c17c_T c17c_G c17c_V.
Proof. apply (C17c_decode_represents c17c_T eq_refl 5%nat); [repeat constructor|reflexivity|vm_compute; reflexivity]. Qed.

(* T17c.3 — the error clause: no representative, no success *)
Theorem C17c_no_representative_not_ok : forall t v, rty2 t = true -> wfv v = true ->
  (forall g, ~ represents t g v) -> forall g, decode_to t v <> Ok g.
Proof. exact no_representative_not_ok. Qed.

(* T17c.4 — values without a representative *)
Theorem C17c_norep_int_range : forall k z g, (z < ik_min k \/ ik_max k < z)%Z -> ~ represents (TyInt k) g (VInt z).
Proof. exact norep_int_range. Qed.
Theorem C17c_norep_f32_overflow : forall b g, overflow_f32 b = true -> ~ represents TyF32 g (VFloat b).
Proof. exact norep_f32_overflow. Qed.
Theorem C17c_norep_symbol_no_text : forall n g, ~ represents TyString g (VSymbol (SymSid n)).
Proof. exact norep_symbol_no_text. Qed.
Theorem C17c_norep_class : forall t v g, is_null v = false -> class_match t (body_of v) = false -> ~ represents t g v.
Proof. exact norep_class. Qed.
Theorem C17c_norep_unstorable : forall t x, unstorable t x -> forall g, ~ represents t g x.
Proof. exact norep_unstorable. Qed.

Example C17c_ex_norep_int : forall g, ~ represents (TyInt U16) g (VInt 65536).
Proof. intro g. apply C17c_norep_int_range. right. reflexivity. Qed.
Example C17c_ex_norep_f32 : forall g, ~ represents TyF32 g (VFloat 5183643170566569985).
Proof. intro g. apply C17c_norep_f32_overflow. reflexivity. Qed.
Example C17c_ex_norep_sid : forall g, ~ represents TyString g (VSymbol (SymSid 10)).
Proof. intro g. apply C17c_norep_symbol_no_text. Qed.
Example C17c_ex_norep_class : forall g, ~ represents (TyPtr TyBool) g (VAnn [SymText (s "a"%string)] (VList [])).
Proof. intro g. apply C17c_norep_class; reflexivity. Qed.
Example C17c_ex_unstorable : unstorable (TyInt I8) (VInt 128).
Proof. left. exists I8, 128%Z. repeat split. right. reflexivity. Qed.
Example C17c_ex_norep_unstorable : forall g, ~ represents (TyInt I8) g (VInt 128).
Proof. exact (C17c_norep_unstorable _ _ C17c_ex_unstorable). Qed.

(* ... propagate through every container *)
Theorem C17c_norep_slice_elem : forall e v l x, body_of v = VList l \/ body_of v = VSexp l -> In x l ->
  (forall g, ~ represents e g x) -> forall g, ~ represents (TySlice e) g v.
Proof. exact norep_slice_elem. Qed.
Theorem C17c_norep_array_elem : forall n e v l i x, body_of v = VList l \/ body_of v = VSexp l ->
  nth_error l i = Some x -> (i < N.to_nat n)%nat ->
  (forall g, ~ represents e g x) -> forall g, ~ represents (TyArray n e) g v.
Proof. exact norep_array_elem. Qed.
Theorem C17c_norep_map_value : forall e v fl k x, body_of v = VStruct fl -> In (SymText k, x) fl ->
  (forall g, ~ represents e g x) -> forall g, ~ represents (TyMap e) g v.
Proof. exact norep_map_value. Qed.
Theorem C17c_norep_ptr : forall e v, is_null v = false ->
  (forall g, ~ represents e g v) -> forall g, ~ represents (TyPtr e) g v.
Proof. exact norep_ptr. Qed.
Theorem C17c_norep_struct_field : forall fs v fl i ex tag ty x, body_of v = VStruct fl ->
  field_decl fs i = Some (ex, tag, ty) -> skipped ex tag = false ->
  ion_for (fields2 fs 0) i fl = [x] ->
  (forall g, ~ represents ty g x) -> forall g, ~ represents (TyStruct fs) g v.
Proof. exact norep_struct_field. Qed.

(* a nested witness: the out-of-range int8 sits in a slice in a map in a pointer *)
Example C17c_ex_norep_nested : forall g,
  ~ represents (TyPtr (TyMap (TySlice (TyInt I8)))) g
      (VStruct [(SymText (s "k"%string), VSexp [VInt 1; VInt 128])]).
Proof.
  apply C17c_norep_ptr; [reflexivity|].
  apply (C17c_norep_map_value _ (VStruct [(SymText (s "k"%string), VSexp [VInt 1; VInt 128])]) _
           (s "k"%string) (VSexp [VInt 1; VInt 128]) eq_refl (or_introl eq_refl)).
  apply (C17c_norep_slice_elem _ (VSexp [VInt 1; VInt 128]) [VInt 1; VInt 128] (VInt 128)
           (or_intror eq_refl) (or_intror (or_introl eq_refl))).
  exact C17c_ex_norep_unstorable.
Qed.
Example C17c_ex_norep_array : forall g, ~ represents (TyArray 2 (TyInt U16)) g (VList [VInt 1; VInt 65536]).
Proof.
  apply (C17c_norep_array_elem 2 _ (VList [VInt 1; VInt 65536]) [VInt 1; VInt 65536] 1%nat (VInt 65536) (or_introl eq_refl) eq_refl).
  - repeat constructor.
  - exact C17c_ex_norep_int.
Qed.
Example C17c_ex_norep_struct : forall g,
  ~ represents c17c_T g (VStruct [(SymText (s "arr"%string), VList [VInt 1; VInt 65536])]).
Proof.
  apply (C17c_norep_struct_field c17c_fs (VStruct [(SymText (s "arr"%string), VList [VInt 1; VInt 65536])]) _ 3%nat true [] (TyArray 2 (TyInt U16)) (VList [VInt 1; VInt 65536])
           eq_refl eq_refl eq_refl eq_refl).
  exact C17c_ex_norep_array.
Qed.

(* T17c.5 — hence Unmarshal does not succeed on them *)
Theorem C17c_decode_unstorable : forall t v g, rty2 t = true -> wfv v = true -> unstorable t v -> decode_to t v <> Ok g.
Proof. exact decode_unstorable. Qed.
Theorem C17c_decode_class_mismatch : forall t v g, rty2 t = true -> wfv v = true ->
  is_null v = false -> class_match t (body_of v) = false -> decode_to t v <> Ok g.
Proof. exact decode_class_mismatch. Qed.
Theorem C17c_decode_slice_int_range : forall k l z g, forallb wfv l = true -> In (VInt z) l ->
  (z < ik_min k \/ ik_max k < z)%Z -> decode_to (TySlice (TyInt k)) (VList l) <> Ok g.
Proof. exact decode_slice_int_range. Qed.
Theorem C17c_decode_slice_elem_unstorable : forall e v l x g, rty2 e = true -> wfv v = true ->
  body_of v = VList l \/ body_of v = VSexp l -> In x l -> unstorable e x -> decode_to (TySlice e) v <> Ok g.
Proof. exact decode_slice_elem_unstorable. Qed.
Theorem C17c_decode_array_elem_unstorable : forall n e v l i x g, rty2 e = true -> wfv v = true ->
  body_of v = VList l \/ body_of v = VSexp l -> nth_error l i = Some x -> (i < N.to_nat n)%nat ->
  unstorable e x -> decode_to (TyArray n e) v <> Ok g.
Proof. exact decode_array_elem_unstorable. Qed.
Theorem C17c_decode_map_value_unstorable : forall e v fl k x g, rty2 e = true -> wfv v = true ->
  body_of v = VStruct fl -> In (SymText k, x) fl -> unstorable e x -> decode_to (TyMap e) v <> Ok g.
Proof. exact decode_map_value_unstorable. Qed.
Theorem C17c_decode_ptr_target_unstorable : forall e v g, rty2 (TyPtr e) = true -> wfv v = true ->
  is_null v = false -> unstorable e v -> decode_to (TyPtr e) v <> Ok g.
Proof. exact decode_ptr_target_unstorable. Qed.
Theorem C17c_decode_struct_field_unstorable : forall fs v fl i ex tag ty x g, rty2 (TyStruct fs) = true -> wfv v = true ->
  body_of v = VStruct fl -> field_decl fs i = Some (ex, tag, ty) -> skipped ex tag = false ->
  ion_for (fields2 fs 0) i fl = [x] -> unstorable ty x -> decode_to (TyStruct fs) v <> Ok g.
Proof. exact decode_struct_field_unstorable. Qed.

(* the model agrees: these are errors (not panics) *)
Example C17c_ex_slice_err : decode_to (TySlice (TyInt I8)) (VList [VInt 1; VInt 128]) = Err.
Proof. vm_compute. reflexivity. Qed.
Example C17c_ex_slice_not_ok : forall g, decode_to (TySlice (TyInt I8)) (VList [VInt 1; VInt 128]) <> Ok g.
Proof. intro g. apply (C17c_decode_slice_int_range I8 _ 128%Z); [reflexivity|right; left; reflexivity|right; reflexivity]. Qed.
Example C17c_ex_slice_not_ok' : forall g, decode_to (TySlice (TyInt I8)) (VAnn [SymSid 4] (VSexp [VInt 1; VInt 128])) <> Ok g.
Proof.
  intro g. apply (C17c_decode_slice_elem_unstorable (TyInt I8) _ [VInt 1; VInt 128] (VInt 128));
    [reflexivity|reflexivity|right; reflexivity|right; left; reflexivity|exact C17c_ex_unstorable].
Qed.
Example C17c_ex_top_not_ok : forall g, decode_to (TyInt I8) (VInt 128) <> Ok g.
Proof. intro g. apply C17c_decode_unstorable; [reflexivity|reflexivity|exact C17c_ex_unstorable]. Qed.
Example C17c_ex_class_not_ok : forall g, decode_to TyBool (VList []) <> Ok g.
Proof. intro g. apply C17c_decode_class_mismatch; reflexivity. Qed.
Example C17c_ex_class_err : decode_to TyBool (VList []) = Err /\ decode_to TyString (VBool true) = Err /\
  decode_to (TyInt I64) (VString (s "1"%string)) = Err /\ decode_to c17c_T (VInt 1) = Err.
Proof. vm_compute. repeat split. Qed.
Example C17c_ex_array_not_ok : forall g, decode_to (TyArray 2 TyF32) (VList [VFloat 0; VFloat 5183643170566569985]) <> Ok g.
Proof.
  intro g. apply (C17c_decode_array_elem_unstorable 2 TyF32 _ [VFloat 0; VFloat 5183643170566569985] 1%nat
                    (VFloat 5183643170566569985)); [reflexivity|reflexivity|left; reflexivity|reflexivity|repeat constructor|].
  right. left. split; [reflexivity|]. eexists. split; reflexivity.
Qed.
Example C17c_ex_map_err :
  decode_to (TyMap (TyPtr TyF32)) (VStruct [(SymText (s "k"%string), VFloat 5183643170566569985)]) = Err.
Proof. vm_compute. reflexivity. Qed.
Example C17c_ex_map_not_ok : forall g,
  decode_to (TyMap TyString) (VStruct [(SymText (s "k"%string), VSymbol (SymSid 10))]) <> Ok g.
Proof.
  intro g. apply (C17c_decode_map_value_unstorable TyString _ [(SymText (s "k"%string), VSymbol (SymSid 10))] (s "k"%string) (VSymbol (SymSid 10)));
    [reflexivity|reflexivity|reflexivity|left; reflexivity|].
  right. right. left. split; [reflexivity|]. eexists. reflexivity.
Qed.
Example C17c_ex_ptr_not_ok : forall g, decode_to (TyPtr TyString) (VSymbol (SymSid 10)) <> Ok g.
Proof.
  intro g. apply C17c_decode_ptr_target_unstorable; [reflexivity|reflexivity|reflexivity|].
  right. right. left. split; [reflexivity|]. eexists. reflexivity.
Qed.
Example C17c_ex_struct_not_ok : forall g,
  decode_to c17c_T (VStruct [(SymText (s "a"%string), VInt 3)]) <> Ok g.
Proof.
  intro g. apply (C17c_decode_struct_field_unstorable c17c_fs _ [(SymText (s "a"%string), VInt 3)] 0%nat true (s "a"%string) (TySlice (TyInt I8)) (VInt 3));
    try reflexivity.
  right. right. right. split; reflexivity.
Qed.
Example C17c_ex_struct_err : decode_to c17c_T (VStruct [(SymText (s "a"%string), VInt 3)]) = Err /\
  decode_to c17c_T (VStruct [(SymText (s "arr"%string), VList [VInt 1; VInt 65536])]) = Err.
Proof. vm_compute. split; reflexivity. Qed.

(* the truncation that [represents] writes down: elements beyond the array length vanish without an error *)
Example C17c_ex_array_truncates :
  decode_to (TyArray 2 (TyInt U16)) (VList [VInt 1; VInt 2; VInt 65536]) = Ok (GArr [GInt 1; GInt 2]).
Proof. vm_compute. reflexivity. Qed.

(* T17c.6 — combined with totality (decode_to <> Panic, <> OutOfFuel: proved separately for all types) the outcome is
   a faithful value or an error *)
Theorem C17c_faithful_or_error : forall t v, rty2 t = true -> wfv v = true ->
  decode_to t v <> Panic -> decode_to t v <> OutOfFuel -> faithful_out t v (decode_to t v).
Proof. exact faithful_or_error. Qed.
Example C17c_ex_faithful_or_error : faithful_out c17c_T c17c_V (decode_to c17c_T c17c_V).
Proof.
  assert (H1 : decode_to c17c_T c17c_V <> Panic) by (rewrite C17c_ex_decode; discriminate).
  assert (H2 : decode_to c17c_T c17c_V <> OutOfFuel) by (rewrite C17c_ex_decode; discriminate).
  exact (C17c_faithful_or_error c17c_T c17c_V eq_refl eq_refl H1 H2).
Qed.

(* T17c.7 — [represents] is not loose: on struct-free types it determines the Go value, so the decoded value is THE
   representative (partial: structs excluded, a field matched by two Ion fields is unconstrained) *)
Theorem C17c_represents_functional_partial : forall t, nostruct t = true ->
  forall v g g', represents t g v -> represents t g' v -> g = g'.
Proof. exact represents_functional_partial. Qed.
Theorem C17c_decode_to_unique_partial : forall t v g g', rty2 t = true -> nostruct t = true -> wfv v = true ->
  decode_to t v = Ok g -> represents t g' v -> g = g'.
Proof. exact decode_to_unique_partial. Qed.
(* ... and a representative is well typed (partial: struct- and interface-free types) *)
Theorem C17c_represents_has_type_partial : forall t, nostruct t = true -> pty t = true ->
  forall v g, wfv v = true -> represents t g v -> has_type g t = true.
Proof. exact represents_has_type_partial. Qed.

Example C17c_ex_map_decode :
  decode_to (TyMap (TyArray 3 (TyInt I16)))
    (VStruct [(SymText (s "b"%string), VList [VInt 1]); (SymText (s "a"%string), VNull TList);
              (SymText (s "b"%string), VSexp [VInt (-32768); VInt 2; VInt 3; VInt 4])])
  = Ok (GMap (Some [(s "a"%string, GArr [GInt 0; GInt 0; GInt 0]); (s "b"%string, GArr [GInt (-32768); GInt 2; GInt 3])])).
Proof. vm_compute. reflexivity. Qed.
Example C17c_ex_unique : forall g',
  represents (TyMap (TyArray 3 (TyInt I16)))  g'
    (VStruct [(SymText (s "b"%string), VList [VInt 1]); (SymText (s "a"%string), VNull TList);
              (SymText (s "b"%string), VSexp [VInt (-32768); VInt 2; VInt 3; VInt 4])]) ->
  GMap (Some [(s "a"%string, GArr [GInt 0; GInt 0; GInt 0]); (s "b"%string, GArr [GInt (-32768); GInt 2; GInt 3])]) = g'.
Proof. intro g'. apply C17c_decode_to_unique_partial; reflexivity. Qed.
Example C17c_ex_functional : forall g g', represents (TySlice TyIface) g (VList [VInt 1; VString (s "x"%string)]) ->
  represents (TySlice TyIface) g' (VList [VInt 1; VString (s "x"%string)]) -> g = g'.
Proof. intros g g'. apply C17c_represents_functional_partial. reflexivity. Qed.
Example C17c_ex_has_type : forall g,
  represents (TyMap (TyArray 3 (TyInt I16))) g (VStruct [(SymText (s "b"%string), VList [VInt 1])]) ->
  has_type g (TyMap (TyArray 3 (TyInt I16))) = true.
Proof. intro g. apply C17c_represents_has_type_partial; reflexivity. Qed.
