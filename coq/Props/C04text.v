(* C04text.v — C04, TEXT half: "every text Writer output parses under the Ion text grammar, and an independent
   spec-derived decoder recovers exactly the values written" — as a theorem about the text Writer MODEL
   (Text/TextWriter.v, compact mode) and the SPECIFICATION decoder [SpecText.tdecode] (written from the grammar, shares
   no code with the reader model) for EVERY well-formed forest: any nesting, annotations and field names (bare,
   `$n`, quoted, `'$7'`, `'null'`, `''`), unbounded integers, arbitrary valid-UTF-8 strings and symbols with every
   escape the Writer emits, clobs with every byte, blobs of every length, typed nulls, nan / +inf / -inf / zeros.
   Where Text/TextRoundtripP.v had a finite universe by vm_compute, this is by induction (Text/SpecAgreeText*.v).

   Statements only.  Vocabulary: [wt_stream], [wf_top] (Text/WriteSpell.v, C01text); [canonical], [spec_fmt],
   [plain_value] (Text/SpecAgreeText.v).
   Hypotheses: [wf_top] exactly as in C01text (valid UTF-8 texts, $0..$9, type codes 1..13, the [formats] oracle emits
   literals of the grammar, no top-level struct whose first annotation is $ion_symbol_table: tdecode reads that as a
   local symbol table, correctly) and [spec_fmt], the two things the SPECIFICATION needs of the oracle beyond that:
   - finite non-zero floats: the correctly rounded binary64 of the decimal the text spells is the value written
     ([float_spec_ok]; strconv.FormatFloat / ParseFloat are not modelled);
   - decimals: the text is shorter than 2^62 bytes ([dec_len_ok]; it is a Go string).  That the text denotes the decimal
     written is DERIVED from C01text's hypothesis "ParseDecimal maps it back" ([pd_ok_denotes], via SpellNum's
     [parse_decimal_spelling_gen]); timestamps need nothing new ([ts_fmt_ok] already speaks about the specification).
   [canonical vs] = vs up to presentation: `$n` (1..9) is the system symbol's text, every NaN is the text format's one NaN,
   nested annotation wrappers are one list; on [plain_value] forests [show_values] cannot tell the difference
   ([C04text_recovered]).

   The agreement "spelling relation => tdecode" is proved in general (all spellings, not only the Writer's) for
   decimal-radix numbers with underscores ([C04text_number_spelling]), quoted text with every escape and line
   continuations ([C04text_quoted_spelling], [C04text_clob_spelling]); with [c02_blob_spec], [spec_timestamp_spelling],
   identifiers and operators (Props/C02.v) every scalar relation of Text/Spell*.v is covered except hex/binary
   integers and long strings.  NOT proved: the general tree / stream level ([tops_spell] with arbitrary whitespace and
   comments between tokens => tdecode); the stream-level theorem here is for the image of the Writer. *)
From Coq Require Import String List NArith ZArith Bool Lia.
From IonV Require Import Base.Wire Base.Utf8 Data.Ion Num.Float Num.Decimal Bin.BinWriter Bin.SpecBin
  Text.TextOut Text.TextWriter Text.TextRoundtrip Text.Tokenizer Text.TextReader Text.TextNum Text.SpecText
  Text.SpellBase Text.SpellNum Text.SpellEsc Text.SpellStr Text.SpellTs Text.SpellStream
  Text.WriteSpell Text.WriteSpellOut Text.WriteSpellScalar Text.WriteSpellStream
  Text.SpecAgreeTextNum Text.SpecAgreeTextStr Text.SpecAgreeText Text.SpecAgreeTextP Props.C01text.
Import ListNotations.
Open Scope N_scope.

(* 1. one value in any context: p_val consumes exactly the value's text and answers its canonical form *)
Theorem C04text_value : forall F v, wf_value F v -> spec_fmt F v -> forall pa, Forall wf_sym pa ->
  forall fuel sx anns rest, wfollow rest -> (length (wt F pa v) < fuel)%nat ->
  p_val fuel system_ctx sx anns (wt F pa v ++ rest) = Some (canon_a (anns ++ map csym pa) v, rest).
Proof. exact value_spec. Qed.
Print Assumptions C04text_value.

(* 2. the whole output *)
Theorem C04text_stream : forall F quiet vs, Forall (wf_top F) vs -> Forall (spec_fmt F) vs ->
  tdecode (wt_stream F quiet vs) = Some (canonical vs).
Proof. exact tdecode_stream. Qed.
Print Assumptions C04text_stream.

(* 3. HEADLINE: the driven Writer model accepts every call and the specification decoder reads the bytes of its sink
   back as the forest *)
Theorem C04text : forall F quiet vs, Forall (wf_top F) vs -> Forall (spec_fmt F) vs ->
  exists w oks, tw_drive F (new_text_writer None false quiet) (calls_of_stream vs) = Ok (w, oks) /\
                forallb (fun b => b) oks = true /\
                sink_bytes (tw_out w) = wt_stream F quiet vs /\
                tdecode (sink_bytes (tw_out w)) = Some (canonical vs).
Proof. exact writer_output_decodes. Qed.
Print Assumptions C04text.

(* 4. "recovers exactly the values written": on forests without symbols-by-ID other than $0 and with canonical NaN the
   canonical observation text of what was decoded is that of what was written *)
Theorem C04text_recovered : forall F quiet vs, Forall (wf_top F) vs -> Forall (spec_fmt F) vs -> Forall plain_value vs ->
  exists w oks vs', tw_drive F (new_text_writer None false quiet) (calls_of_stream vs) = Ok (w, oks) /\
                forallb (fun b => b) oks = true /\
                tdecode (sink_bytes (tw_out w)) = Some vs' /\ show_values vs' = show_values vs.
Proof. exact writer_output_recovered. Qed.
Print Assumptions C04text_recovered.
Theorem C04text_canonical_plain : forall vs, Forall plain_value vs -> show_values (canonical vs) = show_values vs.
Proof. exact show_canonical. Qed.
Print Assumptions C04text_canonical_plain.

(* 5. general agreement of the scalar spelling relations with the specification (any spelling, not only the Writer's) *)
Theorem C04text_number_spelling : forall n rest, num_wf n -> num_end rest = true ->
  p_number (num_text n ++ rest) = Some (spec_num n, rest).
Proof. exact p_number_spelling. Qed.
Print Assumptions C04text_number_spelling.
Theorem C04text_quoted_spelling : forall q w t, ubody q w t -> q < 128 -> q <> 92 -> q <> 10 -> forall k acc rest,
  (length w < k)%nat -> p_quoted k q false (w ++ q :: rest) acc = Some (rev acc ++ t, rest).
Proof. exact p_quoted_ubody. Qed.
Print Assumptions C04text_quoted_spelling.
Theorem C04text_clob_spelling : forall w t, cbody w t -> forall k acc rest, (length w < k)%nat ->
  p_quoted k 34 true (w ++ 34 :: rest) acc = Some (rev acc ++ t, rest).
Proof. exact p_quoted_cbody. Qed.
Print Assumptions C04text_clob_spelling.
(* ParseDecimal's answer pins the decimal the grammar denotes *)
Theorem C04text_decimal_denotes : forall n d, num_wf n -> num_kind n = NKDecimal ->
  (Z.of_nat (length (n_fp n)) < 4611686018427387904)%Z -> parse_decimal_text (num_plain n) = Ok d -> d = dec_denotes n.
Proof. exact pd_ok_denotes. Qed.
Print Assumptions C04text_decimal_denotes.
(* the zeros need no hypothesis on the oracle *)
Theorem C04text_float_zero : forall F, float_spec_ok F 0 /\ float_spec_ok F (2 ^ 63).
Proof. exact float_zero_spec. Qed.
Print Assumptions C04text_float_zero.

(* ---- the hypotheses are satisfiable by a non-trivial object: the forest and oracle of Props/C01text.v ------------------ *)
Ltac sf := repeat match goal with |- _ /\ _ => split | |- True => exact I end.
Example C04text_ex_fmt : Forall (spec_fmt ex_formats) ex_forest.
Proof.
  repeat (apply Forall_cons || apply Forall_nil); cbn [spec_fmt]; sf.
  - right; right.
    exists {| n_neg := false; n_iw := [49]; n_ip := [49]; n_dot := false; n_fw := []; n_fp := []; n_exp := Some (101, [43], [48]) |}.
    split; [|split; [reflexivity|split; [reflexivity|vm_compute; reflexivity]]]. split; [|split; reflexivity]. unfold num_wf; cbn.
    split; [apply usd; [reflexivity|constructor]|]. split; [right; discriminate|]. split; [split; reflexivity|].
    split; [now left|]. split; [right; now left|]. split; [discriminate|repeat constructor].
  - left. vm_compute. reflexivity.
  - right; left. vm_compute. reflexivity.
  - right; left. vm_compute. reflexivity.
  - right; right. exact (proj2 (float_zero_spec ex_formats)).
  - unfold dec_len_ok. vm_compute. reflexivity.
  - unfold dec_len_ok. vm_compute. reflexivity.
Qed.
Example C04text_ex : tdecode (wt_stream ex_formats false ex_forest) = Some (canonical ex_forest).
Proof. exact (tdecode_stream ex_formats false ex_forest C01text_ex_wf C04text_ex_fmt). Qed.
(* the same, computed: the exact bytes (C01text_ex_bytes) decode to exactly these values; $4 / $3 have become
   name / $ion_symbol_table, the NaN payload 0x7FF8000000000001 has become 0x7FF8000000000000 *)
Example C04text_ex_values :
  option_map (fun v => SpellStream.show_str (show_values v)) (tdecode (wt_stream ex_formats false ex_forest)) =
  Some (SpellStream.show_str (show_values (canonical ex_forest))) /\
  SpellStream.show_str (show_values (canonical ex_forest)) =
  "at612062 at6e616d65 { ft782079 Sx6122625c630a09c3a927 ft2437 I123456789012345678901234567890 ft6e756c6c I-9223372036854775809 ft6b [ Yt2437 Yt6e616e Yt6e616d65 Yt24696f6e5f315f30 Bx01020304 Cx00ff22 ( ) { } ] } ( F4607182418800017408 F9221120237041090560 F9218868437227405312 F18442240474082181120 F9223372036854775808 D-12345e-3z0 D0e-3z1 T02ca0fe8829d929d at24696f6e5f73796d626f6c5f7461626c65 n13 b1 Yt2b ) at24696f6e5f73796d626f6c5f7461626c65 [ at24696f6e5f73796d626f6c5f7461626c65 { } ] Yt24696f6e5f315f30"%string.
Proof. split; vm_compute; reflexivity. Qed.
(* a second forest: the tricky symbols and texts, every clob byte, blobs of each length mod 3, big integers, nesting *)
Definition ex2_forest : list value :=
  [ VSymbol (sy "$7"); VSymbol (sy "null"); VSymbol (sy ""); VSymbol (sy "+"); VSymbol (sy "$ion_1_0"); VSymbol (SymSid 0);
    VAnn [sy "$7"; sy "null"; sy ""; sy "$ion_1_0"; SymSid 0] (VSymbol (sy "a b"));
    VString ([0; 1; 7; 8; 9; 10; 11; 12; 13; 27; 31; 32; 34; 39; 92; 47; 63; 127] ++ [195; 169; 226; 130; 172; 240; 159; 152; 128]);
    VSymbol (SymText ([0; 10; 13; 34; 39; 92; 127] ++ [195; 169; 240; 159; 152; 128]));
    VClob (map N.of_nat (seq 0 256)); VBlob []; VBlob [1]; VBlob [1; 2]; VBlob [1; 2; 3]; VBlob [255; 254; 253; 252];
    VInt 0; VInt (-1); VInt 123456789012345678901234567890123456789; VInt (-9223372036854775809);
    VList [VList []; VSexp [VSexp []; VStruct []]; VStruct [(sy "a", VStruct []); (SymSid 0, VSymbol (SymSid 0)); (sy "", VNull 13)]];
    VAnn [sy "a"] (VList [VAnn [sy "b"] (VSexp [VAnn [sy "c"] (VStruct [(sy "true", VAnn [sy "d"] (VNull 1))])])]);
    VSexp [VInt (-1); VSymbol (sy "-"); VFloat 18442240474082181120; VSymbol (sy "inf"); VBool false] ].
Ltac wfs :=
  repeat match goal with
  | |- _ /\ _ => split
  | |- True => exact I
  | |- bytes_ok _ => apply bytes_ok_b; vm_compute; reflexivity
  | |- utf8_valid _ = true => vm_compute; reflexivity
  | |- wf_sym ?y => let y' := eval hnf in y in change (wf_sym y'); cbn [wf_sym]
  | |- plain_sym ?y => let y' := eval hnf in y in change (plain_sym y'); cbn [plain_sym]
  | |- Forall wf_sym _ => first [apply Forall_nil | apply Forall_cons; [cbn [wf_sym]|]]
  | |- Forall plain_sym _ => first [apply Forall_nil | apply Forall_cons; [cbn [plain_sym]|]]
  | |- (_ <= _)%N => lia
  | |- (_ < _)%N => vm_compute; reflexivity
  | |- f64_is_nan _ = true -> _ => let H := fresh in intros H; vm_compute in H; discriminate H
  | |- _ \/ _ => first [left; vm_compute; reflexivity | right; left; vm_compute; reflexivity]
  | |- _ = _ => reflexivity
  end.
Example C04text_ex2_wf : Forall (wf_top no_formats) ex2_forest /\ Forall (spec_fmt no_formats) ex2_forest /\ Forall plain_value ex2_forest.
Proof.
  split; [|split].
  - repeat (apply Forall_cons || apply Forall_nil); (split; [|cbn; try exact I; reflexivity]); cbn [wf_value wf_scalar wf_sym]; wfs.
  - repeat (apply Forall_cons || apply Forall_nil); cbn [spec_fmt]; wfs.
  - repeat (apply Forall_cons || apply Forall_nil); cbn [plain_value plain_sym]; wfs.
Qed.
Example C04text_ex2 :
  exists w oks vs', tw_drive no_formats (new_text_writer None false false) (calls_of_stream ex2_forest) = Ok (w, oks) /\
                forallb (fun b => b) oks = true /\
                tdecode (sink_bytes (tw_out w)) = Some vs' /\ show_values vs' = show_values ex2_forest.
Proof.
  destruct C04text_ex2_wf as (A & B & C). exact (writer_output_recovered no_formats false ex2_forest A B C).
Qed.
(* computed: the specification decoder's reading of the exact bytes is the forest (a plain one: nothing to canonicalise) *)
Example C04text_ex2_values :
  option_map (fun v => SpellStream.show_str (show_values v)) (tdecode (wt_stream no_formats false ex2_forest)) =
  Some (SpellStream.show_str (show_values ex2_forest)).
Proof. vm_compute. reflexivity. Qed.
