(* C12 — any Writer call sequence ends in a correct stream or an error: binary Writer, second part.
   The fixed-table writer (NewBinaryWriterLST) never panics, and a Finish that returns nil leaves
   nothing pending.  Statements only; proofs in Bin/BinWriterP2.v. *)
From Coq Require Import List NArith ZArith Bool.
From IonV Require Import Base.Wire Data.Ion Bin.BinWriter Bin.BinWriterP Bin.BinWriterP2.
Import ListNotations.

(* NewBinaryWriterLST(out, lst): no call panics (and the model's nested run that writes the table
   through the writer never runs out of fuel), whatever the sequence, table and io.Writer budget *)
Theorem C12_binary_lst_no_panic : forall cs budget locals,
  exists w' oks, drive_results (new_writer_lst budget locals) cs = Ok (w', oks) /\ length oks = length cs.
Proof. exact bw_no_panic_lst. Qed.

(* with the invariant that is kept: the buffer stack mirrors the context stack and every buffered
   length is exact, in every state the fixed-table writer reaches *)
Theorem C12_binary_lst_total : forall l cs w, lst_mode l false w -> Inv w -> NZ w ->
  exists w' oks, drive_results w cs = Ok (w', oks) /\ Inv w' /\ lst_mode l false w' /\ NZ w' /\
                 length oks = length cs.
Proof. exact bw_total_lst. Qed.

(* Finish returned nil => no error recorded, top level, no pending field name or annotations, and a
   fresh empty datagram buffer (growing-table writer, any reachable state) *)
Theorem C12_binary_finish_clean : forall budget cs w rs w',
  drive_results (new_writer budget) cs = Ok (w, rs) -> wstep w CFinish = Ok (w', true) ->
  w_err w' = false /\ w_ctx w' = [] /\ w_field w' = None /\ w_annots w' = [] /\ w_bufs w' = [new_seq None].
Proof. exact bw_finish_clean_new. Qed.

(* the same from the invariant alone *)
Theorem C12_binary_finish_clean_inv : forall w w', builder w -> Inv w -> NZ w ->
  wstep w CFinish = Ok (w', true) ->
  w_err w' = false /\ w_ctx w' = [] /\ w_field w' = None /\ w_annots w' = [] /\
  (w_bufs w <> [] -> w_bufs w' = [new_seq None]).
Proof. exact bw_finish_clean. Qed.

(* fixed-table writer *)
Theorem C12_binary_finish_clean_lst : forall budget locals cs w rs w',
  drive_results (new_writer_lst budget locals) cs = Ok (w, rs) -> wstep w CFinish = Ok (w', true) ->
  w_err w' = false /\ w_ctx w' = [] /\ w_field w' = None /\ w_annots w' = [].
Proof. exact bw_finish_clean_lst. Qed.

(* non-vacuity: the fixed-table writer writes marker + table at the first value; an unknown symbol is
   an error that sticks *)
Example C12bin2_ex_lst : exists w,
  drive_results (new_writer_lst None [[97]; [98]]) [CSymbolFromString [98]; CFinish] = Ok (w, [true; true]) /\
  sink_bytes (w_out w) = [224; 1; 0; 234; 233; 129; 131; 214; 135; 180; 129; 97; 129; 98; 113; 11]%N.
Proof. eexists. split; vm_compute; reflexivity. Qed.

Example C12bin2_ex_lst_err : exists w,
  drive_results (new_writer_lst None [[97]]) [CBeginStruct; CFieldName (tok_text [122]); CInt 1; CEndStruct; CFinish]
    = Ok (w, [true; true; false; false; false]).
Proof. eexists. vm_compute. reflexivity. Qed.

(* a Finish that returns nil after pending annotations were consumed by a value *)
Example C12bin2_ex_finish : exists w w',
  drive_results (new_writer None) [CAnnotation (tok_text [97]); CBeginList; CInt 1; CEndList] = Ok (w, [true; true; true; true]) /\
  wstep w CFinish = Ok (w', true) /\ w_bufs w' = [new_seq None] /\ w_annots w' = [].
Proof. eexists _, _. split; [vm_compute; reflexivity|]. split; [vm_compute; reflexivity|]. split; reflexivity. Qed.
