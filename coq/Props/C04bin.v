(* C04 / C01, binary format — what the binary Writer emits decodes, under the independent
   specification decoder of Bin/SpecBin.v, to exactly the values that were written: every value
   forest, any nesting depth, local symbol table included.  Statements only. *)
From Coq Require Import String List NArith ZArith Bool.
From IonV Require Import Base.Wire Base.Utf8 Bin.Bits Data.Ion Num.Float Bin.BinWriter Bin.BinWriterP
  Bin.SpecBin Bin.RoundTripBin Bin.RoundTripBinS Bin.RoundTripBinW Bin.RoundTripBinP.
Import ListNotations.
Open Scope N_scope.

(* The flagship.  Drive a fresh NewBinaryWriter with the canonical calls for the forest [vs] and
   Finish: no call fails, and the bytes handed to the io.Writer — version marker, local symbol
   table (when a non-system symbol text occurs), values — are [enc_forest vs]; provided the output
   fits a Go slice (shorter than 2^63 bytes), the specification decoder returns exactly [vs]. *)
Theorem C04_binary : forall vs, wf_values vs ->
  exists w' oks out, drive_results (new_writer None) (calls_of_forest vs) = Ok (w', oks) /\
    Forall (eq true) oks /\ sink_bytes (w_out w') = out /\ out = enc_forest vs /\
    (N.of_nat (length out) < two63 -> sdecode out = Some vs).
Proof. exact roundtrip_binary. Qed.

(* the two halves, separately usable *)
(* writer side: the model emits [enc_forest vs] (no size hypothesis, texts need not be UTF-8) *)
Theorem C04_binary_writer : forall vs, Forall wf_value vs ->
  exists w' oks, drive_results (new_writer None) (calls_of_forest vs) = Ok (w', oks) /\
    Forall (eq true) oks /\ sink_bytes (w_out w') = enc_forest vs.
Proof. exact forest_run. Qed.

(* specification side: a stream made of the version marker, the table for the local symbols L and
   the encodings under L decodes to the values, for ANY local list L that knows their texts *)
Theorem C04_binary_spec : forall L vs, wf_values vs -> Forall utf8_ok L ->
  Forall (known L) (flat_map (texts []) vs) ->
  N.of_nat (length (bvm ++ enc_lst L ++ flat_map (enc L) vs)) < two63 ->
  sdecode (bvm ++ enc_lst L ++ flat_map (enc L) vs) = Some vs.
Proof. exact sdecode_enc. Qed.

(* one value, any state: running the calls of a value on a healthy writer appends exactly its encoding
   (field-name prefix and annotation wrapper included) to the buffer on top of the stack, leaves the
   rest of the state alone and only grows the local symbol list *)
Theorem C04_binary_value : forall v, wf_value v -> run_spec v.
Proof. exact value_run. Qed.

(* ---- the stages -------------------------------------------------------------------------------------- *)
(* S1: scalars without symbols; S2: + lists and s-expressions at any depth; S3: + symbols, structs and
   annotations whose texts are system symbols.  In all three no symbol table is emitted. *)
Theorem C04_binary_S1 : forall vs, wf_S1 vs ->
  exists w' oks out, drive_results (new_writer None) (calls_of_forest vs) = Ok (w', oks) /\
    Forall (eq true) oks /\ sink_bytes (w_out w') = out /\ out = bvm ++ flat_map (enc []) vs /\
    (N.of_nat (length out) < two63 -> sdecode out = Some vs).
Proof. exact roundtrip_binary_S1. Qed.
Theorem C04_binary_S2 : forall vs, wf_S2 vs ->
  exists w' oks out, drive_results (new_writer None) (calls_of_forest vs) = Ok (w', oks) /\
    Forall (eq true) oks /\ sink_bytes (w_out w') = out /\ out = bvm ++ flat_map (enc []) vs /\
    (N.of_nat (length out) < two63 -> sdecode out = Some vs).
Proof. exact roundtrip_binary_S2. Qed.
Theorem C04_binary_S3 : forall vs, wf_S3 vs ->
  exists w' oks out, drive_results (new_writer None) (calls_of_forest vs) = Ok (w', oks) /\
    Forall (eq true) oks /\ sink_bytes (w_out w') = out /\ out = bvm ++ flat_map (enc []) vs /\
    (N.of_nat (length out) < two63 -> sdecode out = Some vs).
Proof. exact roundtrip_binary_S3. Qed.

(* ---- examples: the hypotheses are satisfiable by non-trivial forests ---------------------------------- *)
Definition ex_foo : text := [102; 111; 111].
Definition ex_forest : list value :=
  [ VAnn [SymText ex_foo] (VStruct [(SymText [97], VInt (-300)); (SymText (s "name"), VSymbol (SymText []))]);
    VList [VSexp [VString [104; 105]; VNull 4]; VFloat 4607182418800017408; VFloat canonical_nan64;
           VDecimal {| d_coef := 0; d_exp := -3; d_negzero := true |}; VTimestamp [128; 15; 208]];
    VAnn [SymText (s "$ion_symbol_table")] (VList [VBlob [1; 2; 3]]) ].

Example C04_binary_ex_wf : wf_values ex_forest.
Proof.
  assert (Hs : forall t, utf8_valid t = true -> wf_sym (SymText t)) by (intros t H; exists t; auto).
  repeat constructor; try discriminate; try (apply Hs; reflexivity); try reflexivity; try exact I;
    try (vm_compute; intuition discriminate).
Qed.

Example C04_binary_ex_run :
  match drive_results (new_writer None) (calls_of_forest ex_forest) with
  | Ok (w, oks) => forallb (fun b => b) oks = true /\ sdecode (sink_bytes (w_out w)) = Some ex_forest /\
                   w_lstb w = [ex_foo; [97]; []]
  | _ => False
  end.
Proof. vm_compute. repeat split. Qed.

(* what is NOT a value: a top-level struct annotated first with $ion_symbol_table is consumed as a table *)
Example C04_binary_lst_is_not_a_value :
  let v := VAnn [SymText (s "$ion_symbol_table")] (VStruct []) in
  wf_value v /\ sdecode (enc_forest [v]) = Some [].
Proof.
  split; [|vm_compute; reflexivity].
  constructor; [discriminate| |exact I|constructor; constructor].
  constructor; [|constructor]. eexists; split; [reflexivity|vm_compute; reflexivity].
Qed.

(* S1-S3 are inhabited *)
Example C04_binary_ex_S1 : wf_S1 [VInt 7; VString [104; 105]; VBool true].
Proof. repeat constructor. Qed.
Example C04_binary_ex_S2 : wf_S2 [VList [VInt 7; VSexp [VString [104; 105]]]].
Proof.
  constructor; [|constructor]. split.
  - repeat constructor.
  - apply sn_list. constructor; [constructor; exact I|]. constructor; [|constructor].
    apply sn_sexp. constructor; [constructor; exact I|constructor].
Qed.
Example C04_binary_ex_S3 : wf_S3 [VStruct [(SymText (s "name"), VAnn [SymText (s "symbols")] (VSymbol (SymText (s "$ion"))))]].
Proof.
  assert (Hs : forall t, utf8_valid t = true -> wf_sym (SymText t)) by (intros t H; exists t; auto).
  split.
  - constructor; [|constructor]. split; [|reflexivity].
    repeat constructor; try discriminate; try (apply Hs; reflexivity); try exact I.
  - vm_compute. repeat constructor; tauto.
Qed.

(* NaN: the writer canonicalises.  A forest containing a non-canonical NaN is written exactly as the
   forest with the canonical quiet NaN in its place, and the canonical NaN is what comes back. *)
Theorem C04_binary_nan : forall b, f64_is_nan b = true ->
  (forall run w, step run w (CFloat b) = step run w (CFloat canonical_nan64)) /\
  (forall L, enc L (VFloat b) = enc L (VFloat canonical_nan64)) /\
  sdecode (enc_forest [VFloat b]) = Some [VFloat canonical_nan64].
Proof. exact nan_written_canonical. Qed.
Example C04_binary_ex_nan : f64_is_nan 9221120237041090561 = true.
Proof. reflexivity. Qed.

(* WriteInt and WriteBigInt emit the same bytes for every |z| < 2^64, so the theorem also holds when
   the ints that fit an int64 are written with WriteInt *)
Theorem C04_binary_int_calls_agree : forall run w z, (Z.abs z < Z.of_N two64)%Z ->
  step run w (CInt z) = step run w (CBigInt (Some z)).
Proof. exact int_call_agree. Qed.
Theorem C04_binary_int64 : forall vs, wf_values vs ->
  exists w' oks out, drive_results (new_writer None) (calls_of_forest64 vs) = Ok (w', oks) /\
    Forall (eq true) oks /\ sink_bytes (w_out w') = out /\ out = enc_forest vs /\
    (N.of_nat (length out) < two63 -> sdecode out = Some vs).
Proof. exact roundtrip_binary64. Qed.
Example C04_binary_ex_int64 : calls_of_forest64 [VInt (-300); VInt 18446744073709551616]
  = [CInt (-300); CBigInt (Some 18446744073709551616%Z); CFinish].
Proof. reflexivity. Qed.

(* the UTF-8 hypothesis on symbol texts cannot be dropped: the Writer accepts a symbol whose text is not
   valid UTF-8, every call succeeds, and the stream it emits is rejected by the decoder (the local symbol
   table carries the text as an Ion string) — a finding about ion-go, reproduced on the real code:
   WriteSymbolFromString("\xff"); Finish()  =>  ion.NewReaderBytes(out).Next() fails *)
Example C04_binary_utf8_needed :
  match drive_results (new_writer None) (calls_of_forest [VSymbol (SymText [255])]) with
  | Ok (w, oks) => forallb (fun b => b) oks = true /\ sdecode (sink_bytes (w_out w)) = None
  | _ => False
  end.
Proof. vm_compute. split; reflexivity. Qed.
