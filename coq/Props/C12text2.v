(* C12 — any Writer call sequence ends in a correct stream or an error: TEXT Writer, ANY call sequence.
   The text analogue of C12_binary_denote (Props/C12bin3.v).  For EVERY sequence of API calls on
   NewTextWriterOpts(out, opts) in compact mode (with or without TextWriterQuietFinish; an io.Writer that never
   fails), legal or not — End without Begin, FieldName outside a struct, a value in a struct without a field name,
   Finish inside a container, Finish several times, a field name or annotations still pending at an End or at a
   Finish — if the final Finish returns nil then
   * the successful calls denote a forest ([denote] of Bin/DenoteCalls.v, the SAME specification machine as for the
     binary Writer: it predicts the text Writer as it stands, no [denote_text] was needed), every denoted value was
     flushed by a Finish, and every call other than a Finish inside a container returned nil;
   * the bytes handed to the io.Writer are exactly [wt_stream F quiet vs], the canonical compact text of the denoted
     forest (Text/WriteSpell.v) — ONE text for the whole sequence, also when Finish was called part-way through:
     without QuietFinish every non-empty batch ends in a newline and the next starts without a separator; with
     QuietFinish Finish writes nothing and leaves needsSeparator set, so the next batch's first value is preceded by
     the newline; both give value LF value LF ... ;
   * hence (C01text) the bytes are a spelling of the denoted forest and the text reader model's full traversal of
     them is the forest's trace, for forests in [wf_top].
   The untyped null has two spellings: WriteNull() and WriteNullType(NoType) write `null`, WriteNullType(NullType)
   writes `null.null` (the canonical text of VNull NullType), so the bytes are not a function of the denoted forest
   ([C12_text_bytes_all_calls_refuted]; not a defect).  [C12_text_denote_bytes] covers ALL calls: the bytes are the
   canonical text of the MARKED forest (Text/DenoteCallsText.v: an untyped null written `null` carries type code 0,
   [nz] erases the marks and gives the denoted forest); [C12_text_denote_bytes_plain] is the case without the two
   calls ([plain_call]), where the marked forest is the forest.
   PARTIAL ([C12_text_denote_reads_back_partial]): the composition with C01text (spelling, read back by the reader
   model) is stated for sequences without WriteNull() / WriteNullType(NoType) only; missing: a [tspell] lemma for
   the bare `null` inside [wt]'s induction (WriteSpellScalar.v / WriteSpellTree.v prove [tspell] for [wt] on
   forests with type codes 1..13 only).
   Statements only; proofs in Text/DenoteCallsTextP.v, Text/DenoteCallsTextReadP.v, Text/DenoteCallsTextNullP.v. *)
From Coq Require Import String List NArith ZArith Bool.
From IonV Require Import Base.Wire Base.Utf8 Data.Ion Num.Float Bin.BinWriter Bin.BitStream Bin.BinReader Bin.DenoteCalls
  Text.TextOut Text.TextWriter Text.TextRoundtrip Text.Tokenizer Text.Skipper Text.TextReader Text.TextNum
  Text.SpellBase Text.SpellStream Text.SpellTree Text.WriteSpell Text.WriteSpellOut
  Text.DenoteCallsTextP Text.DenoteCallsTextReadP Text.DenoteCallsText Text.DenoteCallsTextNullP.
Import ListNotations.
Open Scope N_scope.

(* every call sequence: the successful calls denote a forest, all of it flushed *)
Theorem C12_text_denote : forall F quiet cs w oks, Forall call_ok cs ->
  tw_drive F (new_text_writer None false quiet) cs = Ok (w, oks) -> final_finish_ok cs oks ->
  exists vs, denote cs oks = Some vs /\ denote_flushed cs oks = Some vs.
Proof. exact denote_text_defined. Qed.

(* ALL calls: the bytes are the canonical text of the marked forest; erasing the marks gives the denoted forest *)
Theorem C12_text_denote_bytes : forall F quiet cs w oks, Forall call_ok cs ->
  tw_drive F (new_text_writer None false quiet) cs = Ok (w, oks) -> final_finish_ok cs oks ->
  exists vs0, denote0 cs oks = Some vs0 /\ denote cs oks = Some (map nz vs0) /\
              sink_bytes (tw_out w) = wt_stream F quiet vs0.
Proof. exact denote_text_sound_all. Qed.

(* without WriteNull() / WriteNullType(NoType): the bytes are the canonical text of the denoted forest *)
Theorem C12_text_denote_bytes_plain : forall F quiet cs w oks, Forall call_ok cs -> Forall plain_call cs ->
  tw_drive F (new_text_writer None false quiet) cs = Ok (w, oks) -> final_finish_ok cs oks ->
  exists vs, denote cs oks = Some vs /\ sink_bytes (tw_out w) = wt_stream F quiet vs.
Proof. exact denote_text_sound. Qed.

(* ... hence a spelling of the denoted forest that the text reader model reads back as the forest *)
Theorem C12_text_denote_reads_back_partial : forall F quiet cs w oks, Forall call_ok cs -> Forall plain_call cs ->
  tw_drive F (new_text_writer None false quiet) cs = Ok (w, oks) -> final_finish_ok cs oks ->
  exists vs, denote cs oks = Some vs /\ sink_bytes (tw_out w) = wt_stream F quiet vs /\
    (Forall (wf_top F) vs ->
     tops_spell PD PT LSys (sink_bytes (tw_out w)) (tvs F vs) /\
     x_traverse PD PT (sink_bytes (tw_out w)) false = ttrace (tvs F vs)).
Proof. exact denote_text_reads_back. Qed.

(* "checking only the final Finish is enough": if the writer ends without a recorded error, every call other than
   Finish returned nil (a Finish inside a container returns an error without recording it) *)
Theorem C12_text_final_finish_enough : forall F cs w w' oks,
  tw_drive F w cs = Ok (w', oks) -> tw_err w' = false ->
  Forall2 (fun c ok => c <> CFinish -> ok = true) cs oks.
Proof. exact text_final_finish_enough. Qed.

(* the invariant itself, for any state reached from a fresh writer without a recorded error; with [strict] = true
   it includes: the bytes written so far are [stack_text] — the text of the finished top-level values, then for each
   open container its separator, field name, annotations, opening bracket and finished members *)
Theorem C12_text_lockstep : forall F strict quiet cs w oks, Forall call_ok cs -> (strict = true -> Forall plain_call cs) ->
  tw_drive F (new_text_writer None false quiet) cs = Ok (w, oks) -> tw_err w = false ->
  exists ds, denote_from d_init cs oks = Some ds /\ Inv F strict quiet w ds.
Proof. exact text_lockstep. Qed.

(* the byte-level statement for ALL calls is false, because of the two spellings of the untyped null *)
Definition C12_text_bytes_all_calls : Prop := forall F quiet cs w oks, Forall call_ok cs ->
  tw_drive F (new_text_writer None false quiet) cs = Ok (w, oks) -> final_finish_ok cs oks ->
  exists vs, denote cs oks = Some vs /\ sink_bytes (tw_out w) = wt_stream F quiet vs.

(* ---- examples ------------------------------------------------------------------------------------------------- *)
Definition F0 : formats :=
  {| fmt_float := fun _ => s "1.5e+00"; fmt_dec := fun _ => s "1.5"; fmt_ts := fun _ b => b |}.
Definition ta : tok := tok_text [97].   Definition tb : tok := tok_text [98].
(* results, the text written, the denoted forest, and whether the text is the canonical text of the denoted forest *)
Definition run_ex (quiet : bool) (cs : list wcall) : option (list bool * string * option (list value) * bool) :=
  match tw_drive F0 (new_text_writer None false quiet) cs with
  | Ok (w, oks) =>
    Some (oks, SpellStream.show_str (sink_bytes (tw_out w)), denote cs oks,
          match denote cs oks with Some vs => list_eqb (sink_bytes (tw_out w)) (wt_stream F0 quiet vs) | None => false end)
  | _ => None
  end.
Definition LF : string := String (Ascii.ascii_of_N 10) "".

Theorem C12_text_bytes_all_calls_refuted : ~ C12_text_bytes_all_calls.
Proof.
  intros H.
  destruct (H F0 false [CNull; CFinish]) with (w := match tw_drive F0 (new_text_writer None false false) [CNull; CFinish] with Ok (w, _) => w | _ => new_text_writer None false false end)
    (oks := [true; true]) as (vs & Ed & Eb).
  - repeat constructor.
  - vm_compute. reflexivity.
  - exact I.
  - vm_compute in Ed. injection Ed as <-. vm_compute in Eb. discriminate Eb.
Qed.
Example C12_text_ex_bare_null_marked :
  denote0 [CAnnotation ta; CNull; CNullType 1; CBeginList; CNullType 0; CEndList; CFinish] [true; true; true; true; true; true; true]
  = Some [VAnn [SymText [97]] (VNull 0); VNull 1; VList [VNull 0]] /\
  option_map (fun '(_, t, _, _) => t) (run_ex false [CAnnotation ta; CNull; CNullType 1; CBeginList; CNullType 0; CEndList; CFinish])
  = Some ("a::null" ++ LF ++ "null.null" ++ LF ++ "[null]" ++ LF)%string /\
  SpellStream.show_str (wt_stream F0 false [VAnn [SymText [97]] (VNull 0); VNull 1; VList [VNull 0]])
  = ("a::null" ++ LF ++ "null.null" ++ LF ++ "[null]" ++ LF)%string.
Proof. vm_compute. repeat split; reflexivity. Qed.
Example C12_text_ex_bare_null :
  run_ex false [CNull; CNullType 1; CFinish] =
  Some ([true; true; true], ("null" ++ LF ++ "null.null" ++ LF)%string, Some [VNull 1; VNull 1], false).
Proof. vm_compute. reflexivity. Qed.

Lemma tok_ok_text x : utf8_valid x = true -> tok_ok (tok_text x).
Proof. intros H. exists x. split; [reflexivity|exact H]. Qed.

(* Begin, a pending FieldName (and an annotation), End: the pending field name and annotation are dropped *)
Definition ex_pending_end : list wcall := [CBeginStruct; CFieldName ta; CAnnotation tb; CEndStruct; CFinish].
Example C12_text_ex_pending_end_ok : Forall call_ok ex_pending_end /\ Forall plain_call ex_pending_end.
Proof. split; [repeat constructor; apply tok_ok_text; reflexivity|repeat constructor; discriminate]. Qed.
Example C12_text_ex_pending_end :
  run_ex false ex_pending_end = Some ([true; true; true; true; true], ("{}" ++ LF)%string, Some [VStruct []], true).
Proof. vm_compute. reflexivity. Qed.

(* Finish inside a list fails and changes nothing; more values, End, Finish *)
Definition ex_finish_inside : list wcall :=
  [CBeginList; CInt 1; CFinish; CSymbolFromString [120; 121]; CEndList; CFinish].
Example C12_text_ex_finish_inside_ok : Forall call_ok ex_finish_inside /\ Forall plain_call ex_finish_inside.
Proof. split; [repeat constructor; try reflexivity; discriminate|repeat constructor; discriminate]. Qed.
Example C12_text_ex_finish_inside :
  run_ex false ex_finish_inside =
  Some ([true; true; false; true; true; true], ("[1,xy]" ++ LF)%string, Some [VList [VInt 1; VSymbol (SymText [120; 121])]], true).
Proof. vm_compute. reflexivity. Qed.

(* two batches on one Writer (and an empty third one), with and without QuietFinish: one canonical text *)
Definition ex_two_batches : list wcall :=
  [CSymbol ta; CFinish; CAnnotation tb; CBeginSexp; CSymbol ta; CString [104; 105]; CEndSexp; CFinish; CFinish].
Example C12_text_ex_two_batches_ok : Forall call_ok ex_two_batches /\ Forall plain_call ex_two_batches.
Proof. split; [repeat constructor; try (apply tok_ok_text; reflexivity); reflexivity|repeat constructor; discriminate]. Qed.
Example C12_text_ex_two_batches :
  run_ex false ex_two_batches =
    Some ([true; true; true; true; true; true; true; true; true], ("a" ++ LF ++ "b::(a ""hi"")" ++ LF)%string,
          Some [VSymbol (SymText [97]); VAnn [SymText [98]] (VSexp [VSymbol (SymText [97]); VString [104; 105]])], true).
Proof. vm_compute. reflexivity. Qed.
Example C12_text_ex_two_batches_quiet :
  run_ex true ex_two_batches =
    Some ([true; true; true; true; true; true; true; true; true], ("a" ++ LF ++ "b::(a ""hi"")")%string,
          Some [VSymbol (SymText [97]); VAnn [SymText [98]] (VSexp [VSymbol (SymText [97]); VString [104; 105]])], true).
Proof. vm_compute. reflexivity. Qed.

(* an annotation pending at a Finish is dropped: it does not attach to the first value of the next batch *)
Definition ex_pending_finish : list wcall := [CInt 1; CAnnotation ta; CFinish; CInt 2; CFinish].
Example C12_text_ex_pending_finish_ok : Forall call_ok ex_pending_finish /\ Forall plain_call ex_pending_finish.
Proof. split; [repeat constructor; try (apply tok_ok_text; reflexivity); discriminate|repeat constructor; discriminate]. Qed.
Example C12_text_ex_pending_finish :
  run_ex false ex_pending_finish = Some ([true; true; true; true; true], ("1" ++ LF ++ "2" ++ LF)%string, Some [VInt 1; VInt 2], true).
Proof. vm_compute. reflexivity. Qed.

(* a field name overwritten, annotations accumulated over two calls, a container's own field name and annotations
   kept although others were pending inside it at its End *)
Definition ex_nested : list wcall :=
  [CBeginStruct; CFieldName ta; CAnnotation tb; CBeginList; CAnnotation ta; CEndList;
   CFieldName tb; CFieldName ta; CAnnotation ta; CAnnotations [tb; ta]; CNullType 1; CEndStruct; CFinish].
Example C12_text_ex_nested_ok : Forall call_ok ex_nested /\ Forall plain_call ex_nested.
Proof. split; [repeat constructor; apply tok_ok_text; reflexivity|repeat constructor; discriminate]. Qed.
Example C12_text_ex_nested :
  run_ex false ex_nested =
    Some ([true; true; true; true; true; true; true; true; true; true; true; true; true],
          ("{a:b::[],a:a::b::a::null.null}" ++ LF)%string,
          Some [VStruct [(SymText [97], VAnn [SymText [98]] (VList []));
                         (SymText [97], VAnn [SymText [97]; SymText [98]; SymText [97]] (VNull 1))]], true).
Proof. vm_compute. reflexivity. Qed.

(* misuse that poisons the writer: the final Finish fails, the premise is false and nothing is claimed *)
Example C12_text_ex_poisoned :
  run_ex false [CBeginStruct; CInt 1; CEndStruct; CFinish] = Some ([true; false; false; false], "{"%string, None, false)
  /\ run_ex false [CInt 1; CEndList; CFinish] = Some ([true; false; false], "1"%string, Some [VInt 1], false)
  /\ run_ex false [CFieldName ta; CInt 1; CFinish] = Some ([false; false; false], ""%string, Some [], true).
Proof. vm_compute. repeat split; reflexivity. Qed.

(* the premise [final_finish_ok] on an example *)
Example C12_text_ex_nested_premise :
  match tw_drive F0 (new_text_writer None false false) ex_nested with
  | Ok (_, oks) => final_finish_ok ex_nested oks
  | _ => False
  end.
Proof. vm_compute. exact I. Qed.

Print Assumptions C12_text_denote.
Print Assumptions C12_text_denote_bytes.
Print Assumptions C12_text_denote_bytes_plain.
Print Assumptions C12_text_denote_reads_back_partial.
Print Assumptions C12_text_final_finish_enough.
Print Assumptions C12_text_lockstep.
Print Assumptions C12_text_bytes_all_calls_refuted.
