(* C06 — no input can crash, hang or exhaust memory.  Binary reader: Props/C06bin.v; text reader:
   Props/C07text.v (tr_no_panic, progress lemmas); Unmarshal targets: Props/C17.v (C17_plain_safe).
   Statements re-exported. *)
From IonV Require Export Props.C06bin Props.C07text Props.C17.
