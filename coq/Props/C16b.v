(* C16b — Marshal then Unmarshal returns an equal Go value, on the wider sub-universe rty2 (Go/MarshalSpec2.v):
   rty plus float32, time.Time, interface{} holding scalars, the field options omitempty / symbol / clob / sexp,
   unexported and "-" fields.  Statements only; every proof is [exact <lemma>]. *)
From Coq Require Import String List NArith ZArith.
From IonV Require Import Base.Wire Data.Ion Num.Float Bin.BinWriter
  Go.GoTypes Go.Fields Go.Encode Go.Decode Go.MarshalSpec Go.MarshalP Go.DecodeSafeP Go.RoundtripP
  Go.MarshalSpec2 Go.Roundtrip2P Go.Roundtrip2EP Go.Roundtrip2XP Go.DeterminismP.
From Coq Require Import Permutation.
Import ListNotations.
Open Scope N_scope.

(* T16b.1 — the round trip on rty2.  has_type2 g t = has_type g t && ok2 t TNoType g; ok2 asks exactly:
   a float32 is not a signalling NaN; a skipped field (unexported, or tagged "-") holds its zero value; an omitted
   field (omitempty and emptyValue) holds its zero value (nil, not empty; +0.0, not -0.0); a string that reaches
   WriteSymbolFromString is not $<digits>; an interface{} holds bool / int within int32 / int64 beyond int32 / float64 /
   string (not symbol-hinted) / non-nil []byte (not clob-hinted) / Decimal / Timestamp. *)
Theorem C16_roundtrip_rty2 : forall t g, rty2 t = true -> has_type2 g t = true -> roundtrip t g = Ok g.
Proof. exact roundtrip_rty2. Qed.
(* MarshalText (sm = true: sorted map keys) and MarshalBinary (sm = false) alike *)
Theorem C16_roundtrip_rty2_both_modes : forall sm t g, rty2 t = true -> has_type2 g t = true -> roundtrip_sm sm t g = Ok g.
Proof. exact roundtrip_sm_rty2. Qed.
(* the two halves, for every hint and both map modes *)
Theorem C16_marshal_denotes_ion2 : forall t, rty2 t = true -> RTe2 t.
Proof. exact encode_ion2. Qed.
Theorem C16_unmarshal_inverts_ion2 : forall t, rty2 t = true ->
  forall h g f, has_type g t = true -> ok2 t h g = true -> (ty_depth t < f)%nat -> decto f t (zero t) false (ion2 t h g) = Ok g.
Proof. exact decode_ion2. Qed.

(* T16b.2 — rty2 extends rty, with no side condition there *)
Theorem C16_rty_in_rty2 : forall t, rty t = true -> rty2 t = true.
Proof. exact rty_rty2. Qed.
Theorem C16_rty_no_side_condition : forall t g, rty t = true -> has_type g t = true -> has_type2 g t = true.
Proof. exact has_type2_rty. Qed.
(* what the side condition rests on: a skipped or omitted field comes back as reflect.Zero *)
Theorem C16_is_zero_is_zero : forall t g, has_type g t = true -> is_zero t g = true -> g = zero t.
Proof. exact is_zero_eq. Qed.
Theorem C16_omitted_is_zero : forall t g, has_type g t = true -> empty_value t g = true -> omit_zero g = true -> g = zero t.
Proof. exact omit_zero_eq. Qed.
Theorem C16_float32_never_overflows : forall b, b < 2 ^ 32 -> overflow_f32 (widen b) = false.
Proof. exact widen_no_overflow. Qed.

(* T16b.3 — non-vacuity: a struct mixing the new features (see Go/Roundtrip2XP.v for the Go declaration) *)
Example C16b_ex_type : rty2 ex2_type = true /\ rty ex2_type = false.
Proof. exact ex2_rty2. Qed.
Example C16b_ex_value : has_type2 ex2_val ex2_type = true.
Proof. exact ex2_val_ok. Qed.
Example C16b_ex_roundtrip : forall g, has_type2 g ex2_type = true -> roundtrip ex2_type g = Ok g.
Proof. intros g H. exact (roundtrip_rty2 ex2_type g (proj1 ex2_rty2) H). Qed.

(* T16b.4 — what stays outside, each with the value that comes back *)
(* without ok2 the statement is false on rty2 *)
Theorem C16_roundtrip_rty2_all_values_refuted : ~ C16_roundtrip_rty2_all_values_stmt.
Proof. exact roundtrip_rty2_all_values_refuted. Qed.
(* documented normalisations (the oracle's doc_norm / iface_norm) *)
Theorem C16_omitempty_empty_slice_comes_back_nil :
  rty2 (st1 "a,omitempty" (TySlice (TyInt IInt))) = true /\
  roundtrip (st1 "a,omitempty" (TySlice (TyInt IInt))) (GStruct [GSlice (Some [])]) = Ok (GStruct [GSlice None]) /\
  roundtrip (st1 "a,omitempty" (TySlice (TyInt U8))) (GStruct [GBytes (Some [])]) = Ok (GStruct [GBytes None]) /\
  roundtrip (st1 "a,omitempty" (TyMap (TyInt IInt))) (GStruct [GMap (Some [])]) = Ok (GStruct [GMap None]).
Proof. exact omitempty_empty_slice_comes_back_nil. Qed.
Theorem C16_omitempty_negzero_comes_back_poszero :
  roundtrip (st1 "a,omitempty" TyF64) (GStruct [GFloat (2 ^ 63)]) = Ok (GStruct [GFloat 0]).
Proof. exact omitempty_negzero_comes_back_poszero. Qed.
Theorem C16_hidden_fields_come_back_zero :
  rty2 st_hidden = true /\ roundtrip st_hidden (GStruct [GInt 5; GInt 6; GInt 7]) = Ok (GStruct [GInt 0; GInt 0; GInt 7]).
Proof. exact hidden_fields_come_back_zero. Qed.
Theorem C16_f32_signalling_nan_quieted : roundtrip TyF32 (GFloat 2139095041) = Ok (GFloat 2143289345).
Proof. exact f32_signalling_nan_quieted. Qed.
Theorem C16_iface_dynamic_type_is_decoders_choice :
  roundtrip TyIface (GIface (Some (TyInt I8, GInt 5))) = Ok (GIface (Some (TyInt IInt, GInt 5))) /\
  roundtrip TyIface (GIface (Some (TyInt I64, GInt 5))) = Ok (GIface (Some (TyInt IInt, GInt 5))) /\
  roundtrip TyIface (GIface (Some (TyInt U64, GInt 4294967296))) = Ok (GIface (Some (TyInt I64, GInt 4294967296))) /\
  roundtrip TyIface (GIface (Some (TyBigInt, GBigInt 5))) = Ok (GIface (Some (TyInt IInt, GInt 5))) /\
  roundtrip TyIface (GIface (Some (TyF32, GFloat 1065353216))) = Ok (GIface (Some (TyF64, GFloat 4607182418800017408))).
Proof. exact iface_int8_comes_back_int. Qed.
(* known findings (KNOWN_FINDINGS.txt) *)
Theorem C16_symbol_hint_dollar_digits_refuted :
  rty2 (st1 ",symbol" TyString) = true /\ roundtrip (st1 ",symbol" TyString) (GStruct [GString (s "$7")]) = Err.
Proof. exact symbol_hint_dollar_digits_refuted. Qed.
Theorem C16_iface_symbol_hint_refuted :
  roundtrip (st1 ",symbol" TyIface) (GStruct [GIface (Some (TyString, GString (s "a")))]) =
  Ok (GStruct [GIface (Some (TyPtr TySymTok, GPtr (Some (GSymTok (tok_text (s "a"))))))]).
Proof. exact iface_symbol_hint_refuted. Qed.
Theorem C16_iface_container_refuted :
  roundtrip TyIface (GIface (Some (TySlice TyString, GSlice (Some [GString (s "a")])))) =
  Ok (GIface (Some (TySlice TyIface, GSlice (Some [GIface (Some (TyPtr TyString, GPtr (Some (GString (s "a")))))])))).
Proof. exact iface_container_refuted. Qed.
Theorem C16_ptr_to_nil_refuted :
  roundtrip (TyPtr (TySlice (TyInt U8))) (GPtr (Some (GBytes None))) = Ok (GPtr None) /\
  roundtrip TyIface (GIface (Some (TySlice (TyInt U8), GBytes None))) = Ok (GIface None).
Proof. exact ptr_to_nil_refuted. Qed.

(* T16b.5 — embedded structs are NOT in rty2 (open): two examples that do round-trip and the known finding *)
Example C16b_embedded_examples :
  roundtrip emb_out (GStruct [GStruct [GInt 3; GString (s "v")]; GPtr None; GBool true]) =
    Ok (GStruct [GStruct [GInt 3; GString (s "v")]; GPtr None; GBool true]) /\
  roundtrip emb_out (GStruct [GStruct [GInt 3; GString (s "v")]; GPtr (Some (GStruct [GInt 9])); GBool true]) =
    Ok (GStruct [GStruct [GInt 3; GString (s "v")]; GPtr (Some (GStruct [GInt 9])); GBool true]).
Proof. exact embedded_examples. Qed.
Theorem C16_embedded_ptr_fieldless_refuted :
  roundtrip emb_out (GStruct [GStruct [GInt 3; GString (s "v")]; GPtr (Some (GStruct [GInt 0])); GBool true]) =
    Ok (GStruct [GStruct [GInt 3; GString (s "v")]; GPtr None; GBool true]).
Proof. exact embedded_ptr_fieldless_refuted. Qed.

(* T16b.6 — determinism of MarshalText: sort.Slice on the distinct keys gives the same list whatever order the Go map
   delivered them in, so encodeMap (the only place where a map's order enters the output) issues the same calls — for
   any recursive encoder, element type and hint, hence for a map at any depth of any value *)
Theorem C16_sort_keys_order_independent : forall (l l' : list (text * gval)),
  Permutation l l' -> NoDup (map fst l) -> sort_keys l = sort_keys l'.
Proof. exact (@sort_keys_perm gval). Qed.
Theorem C16_enc_map_order_independent : forall rec e m m' h,
  Permutation m m' -> NoDup (map fst m) -> enc_map rec true e m h = enc_map rec true e m' h.
Proof. exact enc_map_order_independent. Qed.
Theorem C16_marshal_text_map_order_independent : forall f e m m' a h,
  Permutation m m' -> NoDup (map fst m) ->
  encode_f f true (TyMap e) (GMap (Some m)) a h = encode_f f true (TyMap e) (GMap (Some m')) a h.
Proof. exact encode_map_order_independent. Qed.
Example C16b_order_ex :
  encode true (TyMap (TyMap (TyInt IInt)))
    (GMap (Some [(s "b"%string, GMap (Some [(s "y"%string, GInt 1); (s "x"%string, GInt 2)])); (s "a"%string, GMap None)])) TNoType =
  encode true (TyMap (TyMap (TyInt IInt)))
    (GMap (Some [(s "a"%string, GMap None); (s "b"%string, GMap (Some [(s "x"%string, GInt 2); (s "y"%string, GInt 1)]))])) TNoType.
Proof. vm_compute. reflexivity. Qed.
