(* C04 — writer output is valid, self-contained Ion (binary part: declared lengths).
   Statements only. *)
From Coq Require Import List NArith ZArith.
From IonV Require Import Base.Wire Bin.Bits Data.Ion Bin.BinWriter Bin.BinWriterP.
From IonV Require Export Props.C04bin Props.C12text.
Import ListNotations.
Open Scope N_scope.

(* the tag written for a container declares exactly the number of bytes buffered under it, and
   Len() is the size of tag + content *)
Theorem C04_declared_length : forall q, wf_seq q -> wf_node (node_of_seq q).
Proof. exact wf_node_of_seq. Qed.

(* every state reachable by any call sequence keeps every open buffer well-formed (or has failed) and
   keeps the buffer stack aligned with the container stack *)
Theorem C04_reachable_wf : forall cs budget,
  exists w' oks, drive_results (new_writer budget) cs = Ok (w', oks) /\ Inv w'.
Proof.
  intros cs budget. destruct (new_writer_inv budget) as (B & I & N).
  destruct (bw_total cs _ B I N) as (w' & oks & E & I' & _). eauto.
Qed.

Example C04_ex : sink_bytes (w_out (fst (match drive_results (new_writer None)
    [CBeginList; CInt 1; CString [104; 105]; CEndList; CFinish] with Ok x => x | _ => (new_writer None, []) end)))
  = [224; 1; 0; 234; 181; 33; 1; 130; 104; 105].
Proof. vm_compute. reflexivity. Qed.
