(* C03 — the binary reader decodes every valid encoding.  Headline: Props/C03bin.v, [C03bin]: for every byte string the
   specification decoder SpecBin.sdecode accepts and that lies within the reader's stated limits ([within_limits]: the
   guards G1-G8 listed in that file), the reader model's full traversal yields exactly the values the specification
   denotes — all representation freedoms (pads, non-minimal VarUInts, ordered structs, several symbol tables, version
   markers, ...).  Also re-exported: for every input and program the reader model never panics, always returns, keeps
   its invariant (Props/C06bin.v); skipping equals reading and StepOut lands on the container end (Props/C08bin.v). *)
From IonV Require Export Props.C06bin Props.C08bin Props.C03bin.
