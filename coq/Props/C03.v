(* C03 — the binary reader decodes every valid encoding.  Proved so far about the reader model, for
   every input and program: it never panics, always returns, keeps its invariant (Props/C06bin.v),
   skipping equals reading and StepOut lands on the container end (Props/C08bin.v).  The headline
   (every encoding of every forest) is decided by the oracle; statements re-exported. *)
From IonV Require Export Props.C06bin Props.C08bin.
