(* C03, binary format — "the binary reader decodes every valid encoding of a value to exactly that value,
   for every representation the format allows", on the models: the reader model (Bin/BitStream.v,
   Bin/BinReader.v) agrees with the independent specification decoder (Bin/SpecBin.v) on every byte string
   the specification accepts, not only on the Writer's output (that is C01bin).

   THEOREM (C03bin below):
     forall ts bytes vs, (ts total) -> sdecode bytes = Some vs -> within_limits ts bytes ->
       Forall (fun c => c < 256) bytes -> N.of_nat (length bytes) < two63 ->
       map proj_tok (fst (traverse ts bytes false)) = trace_of_spec vs
   [proj_tok] drops the symbol ID from the reader's tokens whose text is known (the specification's values carry
   the text only).  [within_limits ts bytes := sdecode_lim ts bytes <> None]: the specification decoder restricted
   by one guard per implementation limit / known divergence (Bin/SpecLim.v) does not give up; it decodes to the
   same values as [sdecode] wherever it answers ([C03bin_limits_sound]).  The guards:
     G1 a VarUInt field (length, field name, annotation) has at most 10 octets and fits uint64     (limit, F5)
     G2 a decimal exponent has at most 10 octets and fits int32                                    (limit, F2)
     G3 the timestamp bodies are accepted by [ts]                              (SpecBin treats them as opaque)
     G5 a symbol value's UInt has at most 8 octets                                                 (limit, F4)
     G6 the field name of a NOP pad inside a struct is a defined symbol ID         (divergence F3, not repaired)
     G7 no top-level $ion_symbol_table::null.struct                                              (known corner)
     G8 local symbol tables ([lst_ok]; Bin/SpecBin.v itself rejects a repeated symbols / imports field, an import
        without usable max_id, max_id:null.int), one conjunct per reader deviation or limit:
        - every field name of the table struct and of an import struct has known text
                                                                   (known finding C10/field-unknown-text-error)
        - the entries of a symbols list are strings                (known finding C10/symbols-nonstring-empty-text)
        - an import struct has at most one field named name, one named version, one named max_id
                                   (of repeated fields the reader takes the last, the specification the first)
        - an int version of an import lies within int32, an int max_id within int64             (reader limits)
        - the resulting table has fewer than 2^63 symbols              (limit; covers C10/maxid-overflow)
   (G4, an explicit positive-zero decimal coefficient read as -0, was repaired in ion-go 2deb55e.)
   Everything else is covered: NOP padding at top level, in lists / s-expressions and under any defined field
   name, non-minimal VarUInt / VarInt, length-14 forms of short values, ordered structs (D1), oversized int
   magnitudes, float lengths 0/4/8, several annotations, typed nulls, empty containers, unknown-text symbols,
   several symbol tables (replacing and appending, imports absent / of any shape including import declarations
   with placeholder slots, ignored imports, null / missing / ill-typed fields / the $ion_symbol_table marker by
   SID 3 or by text, open content of any shape, padded and ordered table structs),
   version markers in mid-stream.
   Statements only; every proof is [exact <lemma>]. *)
From Coq Require Import String List NArith ZArith Bool Lia.
From IonV Require Import Base.Wire Base.Utf8 Bin.Bits Data.Ion Num.Float Bin.BitStream Bin.BinReader Bin.SpecBin
  Bin.ReaderTraceP Bin.SpecLim Bin.SpecLimP Bin.SpecAgreeP Bin.SpecAgreeStreamP Bin.BinReaderTs Bin.BinReaderTsP.
Import ListNotations.
Open Scope N_scope.

(* the restriction only removes streams: what it accepts, the specification accepts with the same values *)
Theorem C03bin_limits_sound : forall ts l vs, sdecode_lim ts l = Some vs -> sdecode l = Some vs.
Proof. exact sdecode_lim_sp. Qed.

(* Stage A: top-level scalars and typed nulls in ANY representation the specification allows (inline or
   VarUInt lengths, padded VarUInts/VarInts, leading zero octets, 0/4/8-octet floats, symbols with unknown
   text), NOP pads of any size and mid-stream version markers, under the system symbol table *)
Theorem C03bin_stageA : forall ts bytes vs,
  (forall bs, ts bs <> Panic /\ ts bs <> OutOfFuel) -> sdecode_lim ts bytes = Some vs -> Forall is_scalar vs ->
  Forall (fun c => c < 256) bytes -> N.of_nat (length bytes) < two63 ->
  map proj_tok (fst (traverse ts bytes false)) = trace_of_spec vs.
Proof. exact agree_stageA. Qed.

(* an exotic stream the Writer never produces: pads (00, 0E 80, 03 x x x), an int whose length is the padded
   VarUInt 00 81, an int with leading zero octets, floats of 0 and 4 octets, a decimal whose exponent is the
   padded VarInt 00 80, a version marker in the middle, $0, a known symbol through a 3-octet UInt, a string with
   a VarUInt length, null.blob, true *)
Definition c03_exotic : list N :=
  [224; 1; 0; 234;  0;  14; 128;  3; 9; 9; 9;  46; 0; 129; 7;  35; 0; 0; 5;  64;  68; 63; 128; 0; 0;  82; 0; 128;
   224; 1; 0; 234;  112;  115; 0; 0; 4;  142; 130; 104; 105;  175;  17].
Example C03bin_stageA_ex :
  sdecode_lim ts_ok_default c03_exotic =
    Some [VInt 7; VInt 5; VFloat 0; VFloat 4607182418800017408;
          VDecimal {| d_coef := 0; d_exp := 0; d_negzero := false |};
          VSymbol (SymSid 0); VSymbol (SymText (s "name")); VString [104; 105]; VNull 10; VBool true] /\
  map proj_tok (fst (traverse ts_ok_default c03_exotic false)) =
    trace_of_spec [VInt 7; VInt 5; VFloat 0; VFloat 4607182418800017408;
          VDecimal {| d_coef := 0; d_exp := 0; d_negzero := false |};
          VSymbol (SymSid 0); VSymbol (SymText (s "name")); VString [104; 105]; VNull 10; VBool true].
Proof. split; vm_compute; reflexivity. Qed.

(* Stages B and C: every value the restricted decoder accepts — containers of any depth in any representation
   (inline / VarUInt lengths, ordered structs D1, padded field names, NOP pads between elements and under field
   names), annotation wrappers (padded annotation length and symbol IDs, several annotations, inline or VarUInt
   wrapper length, any representation of the annotated value) — under the system symbol table, with pads and
   version markers in between.  (Subsumes stage A.  The statement is that of the full theorem with
   [sdecode_lim] in place of [sdecode]; see C03bin below.) *)
Theorem C03bin_stageC : forall ts bytes vs,
  (forall bs, ts bs <> Panic /\ ts bs <> OutOfFuel) -> sdecode_lim ts bytes = Some vs ->
  Forall (fun c => c < 256) bytes -> N.of_nat (length bytes) < two63 ->
  map proj_tok (fst (traverse ts bytes false)) = trace_of_spec vs.
Proof. exact agree_full. Qed.

(* a list with a VarUInt length holding pads of two kinds and an empty list; an ordered struct (D1) with a padded
   field name, a pad under a field name and an empty s-expression; DE 80; an annotation wrapper whose annotation
   length and second symbol ID are padded VarUInts; a wrapper with a VarUInt length around an ordered struct;
   $0::null; name::null.struct; a list inside an s-expression *)
Definition c03_exotic2 : list N :=
  [224; 1; 0; 234;
   190; 134; 0; 33; 1; 1; 255; 176;
   209; 138; 132; 33; 2; 0; 133; 15; 132; 0; 135; 192;
   222; 128;
   231; 0; 131; 132; 0; 133; 33; 3;
   238; 135; 129; 137; 209; 131; 132; 113; 4;
   227; 129; 128; 15;
   227; 129; 132; 223;
   195; 178; 17; 16].
Definition c03_exotic2_values : list value :=
  [VList [VInt 1; VList []];
   VStruct [(SymText (s "name"), VInt 2); (SymText (s "version"), VNull 1); (SymText (s "symbols"), VSexp [])];
   VStruct [];
   VAnn [SymText (s "name"); SymText (s "version")] (VInt 3);
   VAnn [SymText (s "$ion_shared_symbol_table")] (VStruct [(SymText (s "name"), VSymbol (SymText (s "name")))]);
   VAnn [SymSid 0] (VNull 1);
   VAnn [SymText (s "name")] (VNull 13);
   VSexp [VList [VBool true; VBool false]]].
Example C03bin_stageC_ex :
  sdecode c03_exotic2 = Some c03_exotic2_values /\
  sdecode_lim ts_ok_default c03_exotic2 = Some c03_exotic2_values /\
  map proj_tok (fst (traverse ts_ok_default c03_exotic2 false)) = trace_of_spec c03_exotic2_values.
Proof. split; [|split]; vm_compute; reflexivity. Qed.

(* Stages D and E, the full theorem: local symbol tables (any number, replacing or appending) and version markers
   anywhere in the stream *)
Theorem C03bin : forall ts bytes vs,
  (forall bs, ts bs <> Panic /\ ts bs <> OutOfFuel) -> sdecode bytes = Some vs -> within_limits ts bytes ->
  Forall (fun c => c < 256) bytes -> N.of_nat (length bytes) < two63 ->
  map proj_tok (fst (traverse ts bytes false)) = trace_of_spec vs.
Proof. exact agree_C03. Qed.

(* five symbol tables and a version marker: (1) two annotations, open content name:{name:1}, the field name
   symbols as the padded VarUInt 00 87, the list annotated and holding a pad, a pad under the field name version;
   (2) an append by imports:$3 given before symbols; (3) imports:[] with symbols:null.list; (4) a table declaring
   the text "$ion_symbol_table" itself, with imports a list of non-structs (1, "q", null.struct); (5) an append
   through that local symbol ($10); then a version marker and a system symbol *)
Definition c03_exotic3 : list N :=
  [224; 1; 0; 234; 238; 153; 130; 131; 132; 222; 148; 132; 211; 132; 33; 1; 0; 135; 233; 129; 133; 182; 129; 97;
   0; 130; 98; 98; 133; 1; 255; 113; 10; 113; 11; 211; 138; 33; 7; 234; 129; 131; 215; 134; 113; 3; 135; 178;
   129; 99; 113; 10; 113; 12; 228; 129; 140; 113; 11; 231; 129; 131; 212; 134; 176; 135; 191; 113; 9; 238; 163;
   129; 131; 222; 159; 135; 190; 149; 142; 145; 36; 105; 111; 110; 95; 115; 121; 109; 98; 111; 108; 95; 116; 97;
   98; 108; 101; 129; 120; 134; 181; 33; 1; 129; 113; 223; 234; 129; 131; 215; 134; 113; 10; 135; 178; 129; 121;
   113; 11; 113; 12; 113; 10; 224; 1; 0; 234; 113; 4].
Definition c03_exotic3_values : list value :=
  [VSymbol (SymText (s "a")); VSymbol (SymText (s "bb")); VStruct [(SymText (s "a"), VInt 7)];
   VSymbol (SymText (s "a")); VSymbol (SymText (s "c")); VAnn [SymText (s "c")] (VSymbol (SymText (s "bb")));
   VSymbol (SymText (s "$ion_shared_symbol_table"));
   VSymbol (SymText (s "x")); VSymbol (SymText (s "y")); VSymbol (SymText (s "$ion_symbol_table"));
   VSymbol (SymText (s "name"))].
Example C03bin_ex :
  sdecode c03_exotic3 = Some c03_exotic3_values /\
  sdecode_lim ts_ok_default c03_exotic3 = Some c03_exotic3_values /\
  map proj_tok (fst (traverse ts_ok_default c03_exotic3 false)) = trace_of_spec c03_exotic3_values.
Proof. split; [|split]; vm_compute; reflexivity. Qed.

(* a table with import declarations and no catalog: {name:"a", version:null.int, max_id:2} (two placeholder slots),
   a pad, the int 7 (not a declaration), {max_id:1, name:"b", version:0} (one slot; fields in any order),
   {name:"", max_id:-5} (ignored), then symbols:["x"]: $10 and $12 have unknown text, $13 is x *)
Definition c03_exotic4 : list N :=
  [224; 1; 0; 234; 238; 166; 129; 131; 222; 162; 134; 190; 155; 216; 132; 129; 97; 133; 47; 136; 33; 2; 0; 33; 7; 216; 136; 33; 1; 132; 129; 98; 133; 32; 213; 132; 128; 136; 49; 5; 135; 178; 129; 120; 113; 10; 113; 12; 113; 13].
Example C03bin_imports_ex :
  sdecode c03_exotic4 = Some [VSymbol (SymSid 10); VSymbol (SymSid 12); VSymbol (SymText (s "x"))] /\
  within_limits ts_ok_default c03_exotic4 /\
  map proj_tok (fst (traverse ts_ok_default c03_exotic4 false)) =
    trace_of_spec [VSymbol (SymSid 10); VSymbol (SymSid 12); VSymbol (SymText (s "x"))].
Proof. split; [|split]; [vm_compute; reflexivity|vm_compute; discriminate|vm_compute; reflexivity]. Qed.

Print Assumptions C03bin_limits_sound.
Print Assumptions C03bin_stageA.
Print Assumptions C03bin_stageC.
Print Assumptions C03bin.
