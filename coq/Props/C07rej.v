(* C07, binary format, the rejection half — "a stream that violates the Ion grammar is traversed to a non-nil error,
   never to a clean end" — on the models, PARTIAL.  (Permanence of the error is Props/C07bin.v.)

   Setting.  [sdecode] (Bin/SpecBin.v) is the specification decoder, [sdecode_lim ts] (Bin/SpecLim.v) the same decoder
   restricted by the reader's known limits (the reader is STRICTER there; [C03bin_limits_sound]: what it accepts,
   [sdecode] accepts).  [traverse ts bytes false] is the full traversal of the reader model (the one C01bin / C03bin use:
   it steps into every container); its trace ends with the answer of the final Err() call, [e1] = an error is set
   ([ends_in_error]), [e0] = clean ([ends_clean]).  The timestamp body parser [ts] is a parameter as in C03bin / C06bin
   ([_default]: the parser the checks run).

   The judge.  [sjudge ts cov bytes] (Bin/Reject.v) runs the restricted decoder over the top-level items and answers
     VAcc vs : accepted with values vs                         (exactly [sdecode_lim ts bytes = Some vs], [C07rej_judge])
     VRej    : the items before the first rejected one are accepted — values of ANY shape (containers of any depth,
               wrappers, every representation freedom of C03), NOP pads, version markers, local symbol tables within
               C03's limits — and the first rejected item lies in the covered class [cov]
     VOut    : otherwise (in particular every known deviation: a value the reader takes for a local symbol table that
               is malformed or outside C03's limits, $ion_symbol_table::null.struct, an input without version marker).

   THEOREMS
     C07rej_stream_partial : for every class [cov] whose items stop the traversal ([COVOK], per class), VRej => the
                             traversal ends in error.  This is the stream-level induction (all of C03's agreement lemmas
                             are reused to move the reader over the accepted prefix).
     C07rej_partial        : the class proved so far, S2 = [cov_deep]:
                               - an illegal tag octet (high nibble 15, 0x3F, 0xEF, a bool with low nibble 2..14),
                               - a scalar whose length field and body are present and that the decoder rejects: negative
                                 zero int, float of length other than 0/4/8, timestamp body rejected by [ts], symbol value of
                                 more than 8 octets, symbol value with an undefined symbol ID, string that is not UTF-8,
                               - a list or s-expression (inline or VarUInt length, present in full) whose first rejected
                                 element — after elements of any shape — is again in S2 (any depth).
     C07rej_system_lists_partial : the same in terms of [sdecode]: sdecode bytes = None, not VOut => ends in error.
     C07rej_all_partial / C07rej_system_partial (HEADLINE) : class S3 = [cov_all], see below: all depths of lists,
                             s-expressions and structs, every failure point of the decoder except exclusions 1, 2 and 3.
   MISSING for the full statement = the named exclusions of [cov_code] (Bin/Reject.v): (1) a top-level container or wrapper
   longer than the input, (3) an annotation wrapper whose annotated value is itself rejected, (2) malformed local symbol
   tables (known finding C07).
   On every single-octet edit, truncation and deletion of three documents (33 540 edited strings, 23 169 of them rejected by the
   restricted decoder: 18 940 judged VRej under S3, the others under exclusions 1 (1 704) and 3 (2 524) and G7 (1);
   Bin/RejTest.v — not part of the build — also checks that VRej/VOut and the exclusion codes agree) the full statement "sdecode_lim rejects => the model's traversal ends in error" has no counterexample
   except $ion_symbol_table::null.struct (guard G7 of C03, accepted by [sdecode]).
   REFUTED unrestricted statements (the named exclusions): see the end of the file.
   Statements only; every proof is [exact <lemma>] or [vm_compute]. *)
From Coq Require Import String List NArith ZArith Bool Lia.
From IonV Require Import Base.Wire Base.Utf8 Bin.Bits Data.Ion Num.Float Bin.BitStream Bin.BinReader Bin.SpecBin
  Bin.ReaderTraceP Bin.SpecLim Bin.SpecLimP Bin.SpecAgreeContP Bin.BinReaderTs Bin.BinReaderTsP Bin.Reject Bin.RejectP Bin.RejectContP Bin.RejectAllP Bin.RejectTruncP.
Import ListNotations.
Open Scope N_scope.

(* the judge is the restricted decoder *)
Theorem C07rej_judge : forall ts cov l,
  match sjudge ts cov l with VAcc vs => sdecode_lim ts l = Some vs | _ => sdecode_lim ts l = None end.
Proof. exact sjudge_lim. Qed.

(* stream level, for any covered class *)
Theorem C07rej_stream_partial : forall ts cov bytes,
  (forall bs, ts bs <> Panic /\ ts bs <> OutOfFuel) -> (forall tot, tot < two63 -> COVOK ts tot cov) ->
  sjudge ts cov bytes = VRej ->
  Forall (fun c => c < 256) bytes -> N.of_nat (length bytes) < two63 ->
  ends_in_error (fst (traverse ts bytes false)).
Proof. exact reject_stream. Qed.

(* class S1 alone: illegal tags and malformed scalars at top level *)
Theorem C07rej_scalars_partial : forall ts bytes,
  (forall bs, ts bs <> Panic /\ ts bs <> OutOfFuel) -> sjudge ts cov_scalar bytes = VRej ->
  Forall (fun c => c < 256) bytes -> N.of_nat (length bytes) < two63 ->
  ends_in_error (fst (traverse ts bytes false)).
Proof. exact reject_scalars. Qed.

(* class S2: the same inside lists and s-expressions of any depth *)
Theorem C07rej_partial : forall ts bytes,
  (forall bs, ts bs <> Panic /\ ts bs <> OutOfFuel) -> sjudge ts (cov_deep ts) bytes = VRej ->
  Forall (fun c => c < 256) bytes -> N.of_nat (length bytes) < two63 ->
  ends_in_error (fst (traverse ts bytes false)).
Proof. exact reject_deep. Qed.

Theorem C07rej_system_lists_partial : forall ts bytes,
  (forall bs, ts bs <> Panic /\ ts bs <> OutOfFuel) ->
  sdecode bytes = None -> sjudge ts (cov_deep ts) bytes <> VOut ->
  Forall (fun c => c < 256) bytes -> N.of_nat (length bytes) < two63 ->
  ends_in_error (fst (traverse ts bytes false)).
Proof. exact reject_sdecode_deep. Qed.

Theorem C07rej_system_lists_partial_default : forall bytes,
  sdecode bytes = None -> sjudge ts_ok_default (cov_deep ts_ok_default) bytes <> VOut ->
  Forall (fun c => c < 256) bytes -> N.of_nat (length bytes) < two63 ->
  ends_in_error (fst (traverse ts_ok_default bytes false)).
Proof. exact (fun bytes => reject_sdecode_deep ts_ok_default bytes ts_ok_default_total). Qed.

(* ---- class S3 = [cov_all] (Bin/Reject.v, [cov_code] = 0): EVERY point at which the restricted decoder gives up on an item,
   at any depth of lists, s-expressions and structs, except the named exclusions 1, 2 and 3 of [cov_code]:
     covered: illegal tag octets; malformed VarUInt length fields (no stop bit, more than 10 octets, 2^64 or more) of any
     item; an ordered struct of length 0; a length that overruns the enclosing container (any item, any depth); a top-level
     scalar or NOP pad longer than the input; every scalar body the decoder rejects, decimals included (malformed or
     out-of-int32 exponent VarInt); tag 0xE0 inside a container or, at top level, not starting a version marker; lists / s-expressions / structs (inline, VarUInt and ordered headers) whose first rejected element or
     field is again covered; in a struct: a malformed field-name VarUInt, an undefined field ID, a field name that is not
     followed by a value.
     annotation wrappers (inline or VarUInt length, body present, any depth): length < 3, an empty wrapper, a malformed / zero
     / overrunning annot_length, a malformed or undefined annotation ID, no annotated value, a wrapper around a wrapper
     (tag E0..EE) or around a NOP pad, an annotated value that does not fill the wrapper.
     excluded (named): 1 top-level container / wrapper longer than the input; 2 a top-level $ion_symbol_table:: wrapper
     around a struct that the decoder rejects at or after the struct's header (malformed local symbol table, known
     finding C07); 3 a wrapper whose annotations are fine and whose annotated value is itself rejected (incl. 0xEF). *)
Theorem C07rej_all_partial : forall ts bytes,
  (forall bs, ts bs <> Panic /\ ts bs <> OutOfFuel) -> sjudge ts (cov_all ts) bytes = VRej ->
  Forall (fun c => c < 256) bytes -> N.of_nat (length bytes) < two63 ->
  ends_in_error (fst (traverse ts bytes false)).
Proof. exact reject_all. Qed.

Theorem C07rej_system_partial : forall ts bytes,
  (forall bs, ts bs <> Panic /\ ts bs <> OutOfFuel) ->
  sdecode bytes = None -> sjudge ts (cov_all ts) bytes <> VOut ->
  Forall (fun c => c < 256) bytes -> N.of_nat (length bytes) < two63 ->
  ends_in_error (fst (traverse ts bytes false)).
Proof. exact reject_sdecode_all. Qed.

Theorem C07rej_system_partial_default : forall bytes,
  sdecode bytes = None -> sjudge ts_ok_default (cov_all ts_ok_default) bytes <> VOut ->
  Forall (fun c => c < 256) bytes -> N.of_nat (length bytes) < two63 ->
  ends_in_error (fst (traverse ts_ok_default bytes false)).
Proof. exact (fun bytes => reject_sdecode_all ts_ok_default bytes ts_ok_default_total). Qed.

(* VRej under S3: a struct field whose VarUInt never stops; an undefined field ID; a field name without value (inside a
   list); a string longer than its list; a VarUInt length of 11 octets; an ordered struct of length 0; an int longer than
   the input; a struct inside a struct inside an s-expression holding -0 *)
Example C07rej_ex4 :
  map (sjudge ts_ok_default (cov_all ts_ok_default))
    [ [224; 1; 0; 234; 210; 4; 5]; [224; 1; 0; 234; 210; 138; 17]; [224; 1; 0; 234; 178; 209; 132];
      [224; 1; 0; 234; 178; 131; 97]; [224; 1; 0; 234; 46; 0; 0; 0; 0; 0; 0; 0; 0; 0; 0; 128]; [224; 1; 0; 234; 209; 128];
      [224; 1; 0; 234; 34; 7]; [224; 1; 0; 234; 198; 213; 132; 211; 133; 49; 0] ]
  = [VRej; VRej; VRej; VRej; VRej; VRej; VRej; VRej].
Proof. vm_compute; reflexivity. Qed.
(* annotation wrappers, VRej: annot_length 0; annot_length overrunning; an undefined annotation ID ($10); a wrapper around a
   wrapper; around a NOP pad; a value that does not fill the wrapper; a wrapper of length 2; an empty wrapper (EE 80);
   a wrapper of length 3 inside a list whose annot_length VarUInt never stops *)
Example C07rej_ex6 :
  map (sjudge ts_ok_default (cov_all ts_ok_default))
    [ [224; 1; 0; 234; 227; 128; 132; 17]; [224; 1; 0; 234; 227; 133; 132; 17]; [224; 1; 0; 234; 227; 129; 138; 17];
      [224; 1; 0; 234; 228; 129; 132; 225; 17]; [224; 1; 0; 234; 227; 129; 132; 0]; [224; 1; 0; 234; 228; 129; 132; 17; 17];
      [224; 1; 0; 234; 226; 129; 132]; [224; 1; 0; 234; 238; 128]; [224; 1; 0; 234; 180; 227; 1; 2; 3] ]
  = [VRej; VRej; VRej; VRej; VRej; VRej; VRej; VRej; VRej].
Proof. vm_compute; reflexivity. Qed.
(* the named exclusions are VOut: a top-level list longer than the input (1); a wrapper whose annotated value is itself
   rejected: -0, and the illegal tag 0xEF (3) *)
Example C07rej_ex5 :
  map (sjudge ts_ok_default (cov_all ts_ok_default))
    [ [224; 1; 0; 234; 179; 17]; [224; 1; 0; 234; 228; 129; 132; 49; 0]; [224; 1; 0; 234; 227; 129; 132; 239] ]
  = [VOut; VOut; VOut].
Proof. vm_compute; reflexivity. Qed.

(* the hypotheses are satisfiable by non-trivial streams: a local symbol table declaring "a", the symbol $10, a struct, a
   wrapper, a pad and a version marker, then  [1, (2, -0)]  — a negative zero two levels down *)
Definition c07rej_doc1 : list N :=
  [224; 1; 0; 234;  231; 129; 131; 212; 135; 178; 129; 97;  113; 10;  211; 132; 33; 7;  227; 129; 132; 17;  0;
   224; 1; 0; 234;  183; 33; 1; 196; 33; 2; 49; 0].
Example C07rej_ex1 :
  sjudge ts_ok_default (cov_deep ts_ok_default) c07rej_doc1 = VRej /\ sdecode c07rej_doc1 = None /\
  ends_in_error (fst (traverse ts_ok_default c07rej_doc1 false)).
Proof. split; [|split]; vm_compute; reflexivity. Qed.
(* an undefined symbol ID inside an s-expression; a string that is not UTF-8; tag 0xF0 inside a list inside a list;
   a float of length 3 *)
Example C07rej_ex2 :
  map (sjudge ts_ok_default (cov_deep ts_ok_default))
    [ [224; 1; 0; 234; 17; 194; 113; 10]; [224; 1; 0; 234; 130; 104; 255]; [224; 1; 0; 234; 178; 177; 240];
      [224; 1; 0; 234; 67; 0; 0; 0] ] = [VRej; VRej; VRej; VRej].
Proof. vm_compute; reflexivity. Qed.
(* ... and a valid stream is VAcc, a stream whose first bad item is outside the class is VOut (truncated int) *)
Example C07rej_ex3 :
  sjudge ts_ok_default (cov_deep ts_ok_default) [224; 1; 0; 234; 33; 7] = VAcc [VInt 7] /\
  sjudge ts_ok_default (cov_deep ts_ok_default) [224; 1; 0; 234; 34; 7] = VOut.
Proof. split; vm_compute; reflexivity. Qed.

(* ---- the unrestricted statement and its named exclusions ------------------------------------------------------------------------ *)
Definition C07rej_unrestricted : Prop := forall bytes,
  Forall (fun c => c < 256) bytes -> sdecode bytes = None -> ends_in_error (fst (traverse ts_ok_default bytes false)).

(* known finding C07/lst-skipped-by-length: an unknown field (name) of a local symbol table holding a list with the
   illegal octet 0xFF is skipped by its length *)
Definition c07rej_lst_unknown_field : list N := [224; 1; 0; 234; 230; 129; 131; 211; 132; 177; 255].
(* the same for a non-string entry of symbols: symbols:[[0xFF]] *)
Definition c07rej_lst_symbols_entry : list N := [224; 1; 0; 234; 231; 129; 131; 212; 135; 178; 177; 255].
Theorem C07rej_lst_skipped_refuted :
  (sdecode c07rej_lst_unknown_field = None /\ ends_clean (fst (traverse ts_ok_default c07rej_lst_unknown_field false))) /\
  (sdecode c07rej_lst_symbols_entry = None /\ ends_clean (fst (traverse ts_ok_default c07rej_lst_symbols_entry false))) /\
  sjudge ts_ok_default (cov_deep ts_ok_default) c07rej_lst_unknown_field = VOut /\
  sjudge ts_ok_default (cov_deep ts_ok_default) c07rej_lst_symbols_entry = VOut.
Proof. repeat split; vm_compute; reflexivity. Qed.
Theorem C07rej_unrestricted_refuted : ~ C07rej_unrestricted.
Proof. exact rej_unrestricted_refuted. Qed.

(* an input without version marker never reaches the binary reader (NewReader dispatches on the marker); the MODEL, run
   on the empty input, ends cleanly *)
Theorem C07rej_no_bvm_refuted : sdecode [] = None /\ ends_clean (fst (traverse ts_ok_default [] false)).
Proof. split; vm_compute; reflexivity. Qed.

(* with the restricted decoder in place of [sdecode] there is one more exclusion, guard G7 of C03:
   $ion_symbol_table::null.struct resets the reader's table and is not surfaced; [sdecode] accepts it as a value *)
Theorem C07rej_lim_g7_refuted :
  sdecode_lim ts_ok_default [224; 1; 0; 234; 227; 129; 131; 223] = None /\
  sdecode [224; 1; 0; 234; 227; 129; 131; 223] <> None /\
  ends_clean (fst (traverse ts_ok_default [224; 1; 0; 234; 227; 129; 131; 223] false)).
Proof. split; [|split]; vm_compute; [reflexivity|discriminate|reflexivity]. Qed.

(* timestamp bodies are opaque in [sdecode]: the reader is stricter (month 13), which is harmless in this direction *)
Example C07rej_ts_stricter :
  sdecode [224; 1; 0; 234; 100; 128; 15; 208; 141] <> None /\
  ends_in_error (fst (traverse ts_ok_default [224; 1; 0; 234; 100; 128; 15; 208; 141] false)).
Proof. split; vm_compute; [discriminate|reflexivity]. Qed.

Print Assumptions C07rej_judge.
Print Assumptions C07rej_stream_partial.
Print Assumptions C07rej_scalars_partial.
Print Assumptions C07rej_partial.
Print Assumptions C07rej_system_lists_partial.
Print Assumptions C07rej_system_lists_partial_default.
Print Assumptions C07rej_all_partial.
Print Assumptions C07rej_system_partial.
Print Assumptions C07rej_system_partial_default.
Print Assumptions C07rej_lst_skipped_refuted.
Print Assumptions C07rej_unrestricted_refuted.
Print Assumptions C07rej_no_bvm_refuted.
Print Assumptions C07rej_lim_g7_refuted.
