(* C17b — Unmarshal / Decoder.DecodeTo never panic, for EVERY target type of the universe gty (Go/GoTypes.v):
   structs with any tags, embedded structs and embedded pointers (exported or not), unexported fields,
   interface{}, maps, pointers to anything, arrays, ion.SymbolToken, time.Time, annotation wrappers.
   Statements only; every proof is [exact <lemma>] (Go/DecodeSafe2P.v). *)
From Coq Require Import String List NArith ZArith.
From IonV Require Import Base.Wire Data.Ion Num.Float Go.GoTypes Go.Fields Go.Decode Go.MarshalSpec
  Go.MarshalP Go.DecodeSafeP Go.DecodeSafe2P Go.DecodeSafe3P.
Import ListNotations.
Open Scope N_scope.

(* T17b.1 — Unmarshal(data, &x), x the zero value of ANY type t, data holding ANY well-formed Ion value v, with the
   fuel decode_to computes itself: the outcome is Ok g with g of type t, or Err; never Panic, never OutOfFuel.
   safe_out (Go/MarshalSpec.v): Ok g => has_type g t = true | Err => True | Panic => False | OutOfFuel => False. *)
Theorem C17_unmarshal_safe_all_types : forall t v, wfv v = true -> safe_out t (decode_to t v).
Proof. exact decode_to_safe_all. Qed.
Theorem C17_unmarshal_never_panics : forall t v, wfv v = true -> decode_to t v <> Panic /\ decode_to t v <> OutOfFuel.
Proof. exact decode_to_never_panics. Qed.

(* T17b.2 — decodeTo itself, at any location: any type, any well-typed current content in which an interface{} that
   holds a pointer holds a pointer to a scalar ([sh]: what Decoder.decode allocates; every zero value is such),
   reflect's flagRO set (a location reached through an unexported embedded struct) or not, any fuel above the
   depth of the type ([dep]: nesting depth, interface{} counting 1) *)
Theorem C17_decodeTo_safe_all_types : forall t fuel cur ro v,
  (dep t < fuel)%nat -> has_type cur t = true -> sh cur = true -> wfv v = true ->
  safe_out t (decto fuel t cur ro v).
Proof. exact decode_safe_all. Qed.
(* what is stored is again well typed and shallow: a second Unmarshal into the same variable is covered as well *)
Theorem C17_decodeTo_result_invariant : forall t fuel cur ro v g,
  (dep t < fuel)%nat -> has_type cur t = true -> sh cur = true -> wfv v = true ->
  decto fuel t cur ro v = Ok g -> has_type g t = true /\ sh g = true.
Proof. exact decode_result_shallow. Qed.
Theorem C17_unmarshal_into_safe_all_types : forall t cur v,
  has_type cur t = true -> sh cur = true -> wfv v = true -> safe_out t (decode_into t cur v).
Proof. exact decode_into_safe_all. Qed.

(* T17b.2' — the same for ANY well-typed current content of the target (Unmarshal into a pre-populated variable, e.g. an
   interface{} holding a pointer to a struct that itself holds interface{} values ...): no shallowness condition; the
   fuel must exceed dep t and [lvl cur] (Go/DecodeSafe3P.v: the number of recursion levels needed to follow the pointers
   held by the interface{} values inside cur).  Hence: for every type, every well-typed content, both values of flagRO
   and every well-formed Ion value there is a fuel from which on decodeTo answers a well-typed value or an error. *)
Theorem C17_decodeTo_safe_any_content : forall t fuel cur ro v,
  (dep t < fuel)%nat -> (lvl cur <= fuel)%nat -> has_type cur t = true -> wfv v = true ->
  safe_out t (decto fuel t cur ro v).
Proof. exact decode_safe_well_typed_cur. Qed.
Theorem C17_decodeTo_never_panics_any_content : forall t cur ro v,
  has_type cur t = true -> wfv v = true ->
  exists fuel0, forall fuel, (fuel0 <= fuel)%nat -> safe_out t (decto fuel t cur ro v).
Proof. exact decode_never_panics_well_typed_cur. Qed.

(* T17b.3 — why no reflect.Set on a read-only value is reached: every index path that fieldsFor returns is valid in the
   type and ends in an exported field or in an embedded struct (or runs into an embedded SymbolToken, where the model
   answers Err) *)
Theorem C17_fields_paths_valid : forall t,
  match fields_for t with
  | Ok l => Forall (fun f => f_path f <> [] /\
                             match walk t false (f_path f) with
                             | WBad => False
                             | WErr => True
                             | WEnd ft fro => fro = true -> is_struct_kind (deref1 ft) = true
                             end) l
  | Err => True
  | Panic => False
  | OutOfFuel => False
  end.
Proof. exact fields_for_ok. Qed.
(* ... and flagRO on anything but a plain struct is an error (fix 51d6c80), never a panic *)
Theorem C17_read_only_non_struct_is_error : forall rec t cur v,
  is_struct_kind t = false \/ is_scalar_struct t = true -> at_break rec t cur true v = Err.
Proof. exact at_break_ro. Qed.

(* T17b.4 — Decoder.Decode (the interface{} tree) is well typed for every well-formed value *)
Theorem C17_decode_any_well_typed : forall v, wfv v = true -> has_type (decode_any v) TyIface = true /\ sh (decode_any v) = true.
Proof. exact decode_any_typed_sh. Qed.

(* non-vacuity: a type far outside the plain universe.
   type inner struct{ X int; y string }
   type T struct {
     *inner                                  // unexported embedded pointer
     Base struct{ Id int64 `ion:"id"` }      // (embedded) exported embedded struct
     hidden string
     Any interface{} `ion:"any"`
     M map[string]*[2]int8 `ion:"m,omitempty"`
     Tok ion.SymbolToken
     When time.Time
     Anns []string `ion:",annotations"` } *)
Definition ex_inner : gty :=
  TyStruct (FCons (s "X") true false [] (TyInt IInt) (FCons (s "y") false false [] TyString FNil)).
Definition ex_all : gty := TyStruct
  (FCons (s "inner") false true [] (TyPtr ex_inner)
  (FCons (s "Base") true true [] (TyStruct (FCons (s "Id") true false (s "id") (TyInt I64) FNil))
  (FCons (s "hidden") false false [] TyString
  (FCons (s "Any") true false (s "any") TyIface
  (FCons (s "M") true false (s "m,omitempty") (TyMap (TyPtr (TyArray 2 (TyInt I8))))
  (FCons (s "Tok") true false [] TySymTok
  (FCons (s "When") true false [] TyTime
  (FCons (s "Anns") true false (s ",annotations") (TySlice TyString) FNil)))))))).
(* tag::{ <x>, id:7, any:[1,"a"], m:{k:[1,-2,300]}, Tok:$10, When:<ts>, any:5, hidden:"no" } *)
Definition ex_val (x : list (symv * value)) : value :=
  VAnn [SymText (s "tag")] (VStruct (x ++
    [(SymText (s "id"), VInt 7); (SymText (s "any"), VList [VInt 1; VString (s "a")]);
     (SymText (s "m"), VStruct [(SymText (s "k"), VList [VInt 1; VInt (-2); VInt 300])]);
     (SymText (s "Tok"), VSymbol (SymSid 10)); (SymText (s "When"), VTimestamp [128; 15; 225]);
     (SymText (s "any"), VInt 5); (SymText (s "hidden"), VString (s "no"))])).

Example C17b_ex_outside_plain : pty ex_all = false /\ wfv (ex_val [(SymText (s "X"), VInt 1)]) = true.
Proof. split; reflexivity. Qed.
(* the repeated field "any" decodes into the interface{} that already holds a []interface{}; the third element of the Ion
   list lies beyond the [2]int8 and is skipped; the unexported field is not touched *)
Example C17b_ex_ok : decode_to ex_all (ex_val []) =
  Ok (GStruct [GPtr None; GStruct [GInt 7]; GString []; GIface (Some (TyInt IInt, GInt 5));
               GMap (Some [(s "k", GPtr (Some (GArr [GInt 1; GInt (-2)])))]);
               GSymTok {| tk_text := None; tk_sid := 10 |}; GTime [128; 15; 225];
               GSlice (Some [GString (s "tag")])]).
Proof. vm_compute. reflexivity. Qed.
(* a field promoted from the nil unexported embedded pointer cannot be allocated: an error (fix 51d6c80), not the
   reflect.Set panic *)
Example C17b_ex_ro_err : decode_to ex_all (ex_val [(SymText (s "X"), VInt 1)]) = Err.
Proof. vm_compute. reflexivity. Qed.
Example C17b_ex_safe : forall x, wfv (ex_val x) = true -> safe_out ex_all (decode_to ex_all (ex_val x)).
Proof. intros x H. exact (decode_to_safe_all ex_all (ex_val x) H). Qed.
Example C17b_ex_paths : exists l, fields_for ex_all = Ok l /\ map f_path l =
  [[0; 0]; [1; 0]; [3]; [4]; [5]; [6]; [7]]%nat.
Proof. eexists. split; vm_compute; reflexivity. Qed.

(* a pre-populated target outside [sh]: var x interface{} = &T{...} *)
Example C17b_ex_prepopulated :
  let cur := GIface (Some (TyPtr ex_all, GPtr (Some (zero ex_all)))) in
  has_type cur TyIface = true /\ sh cur = false /\ lvl cur = 6%nat /\
  decto 7 TyIface cur false (ex_val []) =
    Ok (GIface (Some (TyPtr ex_all, GPtr (Some (GStruct
      [GPtr None; GStruct [GInt 7]; GString []; GIface (Some (TyInt IInt, GInt 5));
       GMap (Some [(s "k", GPtr (Some (GArr [GInt 1; GInt (-2)])))]);
       GSymTok {| tk_text := None; tk_sid := 10 |}; GTime [128; 15; 225];
       GSlice (Some [GString (s "tag")])]))))).
Proof. vm_compute. repeat split; reflexivity. Qed.
