(* C01 — write-then-read round trip.  The writer half for the binary format is Props/C04bin.v
   (what the Writer emits decodes under the specification decoder to exactly the forest written);
   the reader half (reader model over the writer's encodings) is Props/C01bin.v when present;
   the text Writer's finite-universe round trip is in Props/C12text.v.  Statements are re-exported. *)
From IonV Require Export Props.C04bin Props.C01bin Props.C12text.
