(* C12 / C19 — the binary Writer's headline over a FAILING io.Writer, and for the FIXED-TABLE writer.
   (1) NewBinaryWriter(out) where out accepts a given number of Write calls and then refuses every write:
       for EVERY budget, if the final Finish returns nil then no write was refused (the run IS the fault-free
       run) and the bytes decode to the values the successful calls denote (the conclusion of
       C12_binary_denote, unchanged).  If the runs over the failing and over the never-failing io.Writer
       differ at all, there is a first call at which they part: that call returns an error, the error is
       recorded (hence every later call fails: C12_binary_sticky), the sink is exhausted, and what it accepted
       is a prefix of the fault-free output.
   (2) NewBinaryWriterLST(out, lst): the same headline.  The version marker and the GIVEN table are written in
       front of the first value of each batch; every batch in the output carries that table; a call naming text
       outside the table fails and the error is recorded, so the final Finish cannot return nil.  When no value
       was written at all the fixed-table writer writes nothing (not even a version marker).
   Statements only; proofs in Bin/DenoteCalls2P.v and Bin/DenoteCallsLstP.v. *)
From Coq Require Import String List NArith ZArith Bool.
From IonV Require Import Base.Wire Base.Utf8 Bin.Bits Data.Ion Num.Float Bin.BinWriter Bin.BinWriterP Bin.BinWriterP2
  Bin.SpecBin Bin.RoundTripBin Bin.RoundTripBinS Bin.DenoteCalls Bin.DenoteCallsP Bin.DenoteCalls2P Bin.DenoteCalls3P Bin.DenoteCallsLstP.
Import ListNotations.
Open Scope N_scope.

(* ---- (1) growing-table writer, any io.Writer budget ---------------------------------------------------------- *)
(* the headline for every budget ([None] = never fails, [Some n] = accepts n writes) *)
Theorem C12_binary_denote_budget : forall budget cs w oks, Forall call_ok cs ->
  drive_results (new_writer budget) cs = Ok (w, oks) -> final_finish_ok cs oks ->
  exists vs, denote cs oks = Some vs /\ Forall wf_value vs /\
    (Forall (fun v => is_lst v = None) vs -> N.of_nat (length (sink_bytes (w_out w))) < two63 ->
     sdecode (sink_bytes (w_out w)) = Some vs).
Proof. exact denote_sound_budget_vals. Qed.

(* ... because a final Finish that returns nil means that no write was refused: the run over the never-failing
   io.Writer gives the same results and the same state up to the remaining budget *)
Theorem C12_binary_final_finish_no_refusal : forall budget cs w oks, Forall call_ok cs ->
  drive_results (new_writer budget) cs = Ok (w, oks) -> final_finish_ok cs oks ->
  drive_results (new_writer None) cs = Ok (unl w, oks).
Proof. exact denote_sound_budget_sync. Qed.

(* the failing io.Writer, from any state: the two runs are identical, or [fault_at]: a first call at which they part,
   which returns an error and records it, with the budget exhausted, after which every call fails, and the writes
   accepted are a prefix (chunk by chunk) of the fault-free ones *)
Theorem C19_binary_fault_split_from : forall cs w1 w1' r1 w2' r2,
  drive_results w1 cs = Ok (w1', r1) -> drive_results (unl w1) cs = Ok (w2', r2) ->
  (w2' = unl w1' /\ r2 = r1) \/ fault_at w1 cs w1' r1 w2' r2.
Proof. exact drive_sim_split. Qed.

Theorem C19_binary_fault_split : forall budget cs w1 r1 w2 r2,
  drive_results (new_writer budget) cs = Ok (w1, r1) -> drive_results (new_writer None) cs = Ok (w2, r2) ->
  (w2 = unl w1 /\ r2 = r1) \/ fault_at (new_writer budget) cs w1 r1 w2 r2.
Proof. exact bw_fault_split. Qed.

(* the same in observable terms: same bytes and same results, or: error recorded, exactly k writes accepted, the
   results are those of the fault-free run up to a call that fails, all later calls fail, bytes are a prefix *)
Theorem C19_binary_fault_split_bytes : forall (k : nat) cs w1 r1 w2 r2,
  drive_results (new_writer (Some k)) cs = Ok (w1, r1) -> drive_results (new_writer None) cs = Ok (w2, r2) ->
  (sink_bytes (w_out w1) = sink_bytes (w_out w2) /\ r1 = r2) \/
  (w_err w1 = true /\ length (sk_writes (w_out w1)) = k /\
   (exists r0 n, r1 = r0 ++ false :: repeat false n /\ firstn (length r0) r2 = r0) /\
   exists tl, sink_bytes (w_out w2) = sink_bytes (w_out w1) ++ tl).
Proof. exact bw_fault_split_bytes. Qed.

(* WHERE the failure shows (growing-table writer: everything is buffered between two Finish): the per-call results of
   the run over the failing io.Writer and of the fault-free run are the same, or the first call whose result differs
   is a Finish — nil in the fault-free run, an error over the failing io.Writer — that records the error with the
   budget exhausted, after which every call fails *)
Theorem C19_binary_fault_is_finish : forall budget cs w1 r1 w2 r2, Forall call_ok cs ->
  drive_results (new_writer budget) cs = Ok (w1, r1) -> drive_results (new_writer None) cs = Ok (w2, r2) ->
  r1 = r2 \/ first_diff_finish cs r1 r2 w1.
Proof. exact bw_fault_is_finish. Qed.

(* the trichotomy: identical runs (same results, same state up to the remaining budget, hence the same bytes); or a
   call other than Finish failed in both runs (misuse: both writers poisoned, same results); or the first difference
   is a Finish cut by the io.Writer *)
Theorem C19_binary_fault_trichotomy : forall budget cs w1 r1 w2 r2, Forall call_ok cs ->
  drive_results (new_writer budget) cs = Ok (w1, r1) -> drive_results (new_writer None) cs = Ok (w2, r2) ->
  (w2 = unl w1 /\ r2 = r1) \/ both_poisoned r1 r2 w1 w2 \/ first_diff_finish cs r1 r2 w1.
Proof. exact bw_fault_trichotomy. Qed.

(* behind it: a call other than Finish that succeeds from a healthy state succeeds whatever the io.Writer *)
Theorem C19_binary_buffered_calls_ignore_sink : forall w st c wb out, Rel w st -> call_ok c -> c <> CFinish ->
  wstep w c = Ok (wb, true) -> exists wa, wstep (set_out w out) c = Ok (wa, true).
Proof. exact rel_step_any_out. Qed.

(* both runs always exist *)
Theorem C19_binary_budget_total : forall budget cs, exists w1 r1 w2 r2,
  drive_results (new_writer budget) cs = Ok (w1, r1) /\ drive_results (new_writer None) cs = Ok (w2, r2).
Proof. exact bw_budget_total. Qed.

(* ---- (2) fixed-table writer ------------------------------------------------------------------------------------- *)
(* the headline, every budget.  [locals]: the local symbols of the given table, valid UTF-8.  The decoder is the
   specification decoder on the bytes alone: every batch in them carries the given table, so the symbol context
   in which the values are read IS the given table (see C12_binary_lst_denote_writer).  When the denoted forest is
   empty and nothing was written the output is the empty byte sequence *)
Theorem C12_binary_lst_denote : forall budget locals cs w oks, Forall utf8_ok locals -> Forall call_ok cs ->
  drive_results (new_writer_lst budget locals) cs = Ok (w, oks) -> final_finish_ok cs oks ->
  exists vs, denote cs oks = Some vs /\ Forall wf_value vs /\
    (Forall (fun v => is_lst v = None) vs -> N.of_nat (length (sink_bytes (w_out w))) < two63 ->
     (vs = [] /\ sink_bytes (w_out w) = []) \/ sdecode (sink_bytes (w_out w)) = Some vs).
Proof. exact denote_sound_lst_budget_vals. Qed.

Theorem C12_binary_lst_final_finish_no_refusal : forall budget locals cs w oks, Forall utf8_ok locals -> Forall call_ok cs ->
  drive_results (new_writer_lst budget locals) cs = Ok (w, oks) -> final_finish_ok cs oks ->
  drive_results (new_writer_lst None locals) cs = Ok (unl w, oks).
Proof. exact denote_sound_lst_budget_sync. Qed.

(* the writer side alone: one (version marker, the GIVEN table, values) batch per Finish that closed a non-empty
   batch; the batches' values are the denoted values, all of them flushed *)
Theorem C12_binary_lst_denote_writer : forall locals cs w oks, Forall utf8_ok locals -> Forall call_ok cs ->
  drive_results (new_writer_lst None locals) cs = Ok (w, oks) -> final_finish_ok cs oks ->
  exists vs bs, denote cs oks = Some vs /\ denote_flushed cs oks = Some vs /\
    sink_bytes (w_out w) = flat_map batch_enc bs /\ vs = flat_map snd bs /\ Forall batch_ok bs /\
    Forall (fun b => fst b = locals) bs.
Proof. exact denote_writer_lst. Qed.

(* the invariant, for any state reached without a recorded error: the fixed-table writer is mirrored by a
   growing-table writer, pre-seeded with the table, that satisfies the lock-step invariant of C12_binary_lockstep *)
Theorem C12_binary_lst_lockstep : forall locals cs w oks, Forall utf8_ok locals -> Forall call_ok cs ->
  drive_results (new_writer_lst None locals) cs = Ok (w, oks) -> w_err w = false ->
  exists st, denote_from d_init cs oks = Some st /\ RelL locals w st.
Proof. exact relL_lockstep. Qed.

(* text outside the table: WriteSymbol / WriteSymbolFromString fail, the error is recorded, nothing is written *)
Theorem C12_binary_lst_unknown_symbol : forall locals w x, w_lst w = Some locals -> find_by_name locals true x = None ->
  w_err w = false ->
  exists w', wstep w (CSymbol (tok_text x)) = Ok (w', false) /\ w_err w' = true /\ w_out w' = w_out w /\
             (symbol_identifier x = None -> wstep w (CSymbolFromString x) = Ok (w', false)).
Proof. exact lst_unknown_symbol_fails. Qed.

(* the failing io.Writer under the fixed-table writer *)
Theorem C19_binary_lst_fault_split : forall budget locals cs w1 r1 w2 r2,
  drive_results (new_writer_lst budget locals) cs = Ok (w1, r1) ->
  drive_results (new_writer_lst None locals) cs = Ok (w2, r2) ->
  (w2 = unl w1 /\ r2 = r1) \/ fault_at (new_writer_lst budget locals) cs w1 r1 w2 r2.
Proof. exact bw_fault_split_lst. Qed.

(* ---- examples ------------------------------------------------------------------------------------------------------ *)
Definition ta4 : tok := tok_text [97].   Definition tb4 : tok := tok_text [98].   Definition tz4 : tok := tok_text [122].
Definition run_b (b : option nat) (cs : list wcall) :=
  match drive_results (new_writer b) cs with
  | Ok (w, oks) => Some (oks, sink_bytes (w_out w), w_err w, sdecode (sink_bytes (w_out w)), denote cs oks)
  | _ => None
  end.
Definition run_l (b : option nat) (l : list text) (cs : list wcall) :=
  match drive_results (new_writer_lst b l) cs with
  | Ok (w, oks) => Some (oks, sink_bytes (w_out w), w_err w, sdecode (sink_bytes (w_out w)), denote cs oks)
  | _ => None
  end.
Definition premise_b (b : option nat) (cs : list wcall) : Prop :=
  match drive_results (new_writer b) cs with Ok (_, oks) => final_finish_ok cs oks | _ => False end.
Definition premise_l (b : option nat) (l : list text) (cs : list wcall) : Prop :=
  match drive_results (new_writer_lst b l) cs with Ok (_, oks) => final_finish_ok cs oks | _ => False end.

(* a budget that cuts Finish right after the version marker: that Finish fails, the error is recorded, every later
   call fails, the 4 bytes accepted are a prefix of the fault-free output *)
Example C12bin4_ex_cut :
  run_b (Some 1%nat) [CInt 1; CFinish; CInt 2; CFinish]
    = Some ([true; false; false; false], [224; 1; 0; 234], true, Some [], Some [VInt 1]) /\
  run_b None [CInt 1; CFinish; CInt 2; CFinish]
    = Some ([true; true; true; true], [224; 1; 0; 234; 33; 1; 224; 1; 0; 234; 33; 2], false,
            Some [VInt 1; VInt 2], Some [VInt 1; VInt 2]).
Proof. split; vm_compute; reflexivity. Qed.

(* in that example the first differing result is the Finish at index 1 *)
Example C12bin4_ex_cut_first_diff : exists w1,
  drive_results (new_writer (Some 1%nat)) [CInt 1; CFinish; CInt 2; CFinish] = Ok (w1, [true; false; false; false]) /\
  first_diff_finish [CInt 1; CFinish; CInt 2; CFinish] [true; false; false; false] [true; true; true; true] w1.
Proof.
  eexists. split; [vm_compute; reflexivity|]. exists [CInt 1], [CInt 2; CFinish], [true], [true; true].
  repeat split.
Qed.

(* a budget that is exactly enough: the premise holds with a finite budget, the conclusion is checked *)
Example C12bin4_ex_enough_ok : Forall call_ok [CInt 1; CFinish; CFinish].
Proof. repeat constructor; discriminate. Qed.
Example C12bin4_ex_enough_premise : premise_b (Some 3%nat) [CInt 1; CFinish; CFinish].
Proof. vm_compute. exact I. Qed.
Example C12bin4_ex_enough :
  run_b (Some 3%nat) [CInt 1; CFinish; CFinish]
    = Some ([true; true; true], [224; 1; 0; 234; 33; 1; 224; 1; 0; 234], false, Some [VInt 1], Some [VInt 1]).
Proof. vm_compute. reflexivity. Qed.

(* a fixed table with two symbols, two batches, a Finish inside a list that fails and changes nothing *)
Definition ex_lst_two : list wcall :=
  [CAnnotation ta4; CFinish; CInt 1; CFinish; CFinish; CAnnotation tb4; CBeginList; CFinish; CSymbol ta4; CEndList; CFinish].
Example C12bin4_ex_lst_ok : Forall call_ok ex_lst_two.
Proof. repeat constructor; try (eexists; split; reflexivity); discriminate. Qed.
Example C12bin4_ex_lst_table : Forall utf8_ok [[97]; [98]].
Proof. repeat constructor. Qed.
Example C12bin4_ex_lst_premise : premise_l None [[97]; [98]] ex_lst_two.
Proof. vm_compute. exact I. Qed.
Example C12bin4_ex_lst :
  run_l None [[97]; [98]] ex_lst_two
    = Some ([true; true; true; true; true; true; true; false; true; true; true],
            [224; 1; 0; 234; 233; 129; 131; 214; 135; 180; 129; 97; 129; 98; 33; 1;
             224; 1; 0; 234; 233; 129; 131; 214; 135; 180; 129; 97; 129; 98; 229; 129; 139; 178; 113; 10], false,
            Some [VInt 1; VAnn [SymText [98]] (VList [VSymbol (SymText [97])])],
            Some [VInt 1; VAnn [SymText [98]] (VList [VSymbol (SymText [97])])]).
Proof. vm_compute. reflexivity. Qed.

(* one call naming a text the table does not hold: it fails, the writer is poisoned, the final Finish fails *)
Example C12bin4_ex_lst_unknown :
  run_l None [[97]; [98]] [CSymbol tb4; CSymbol tz4; CFinish]
    = Some ([true; false; false], [224; 1; 0; 234; 233; 129; 131; 214; 135; 180; 129; 97; 129; 98; 113; 11], true,
            Some [VSymbol (SymText [98])], Some [VSymbol (SymText [98])]).
Proof. vm_compute. reflexivity. Qed.
(* an unknown field name is an error at the value that carries it *)
Example C12bin4_ex_lst_unknown_field :
  run_l None [[97]; [98]] [CBeginStruct; CFieldName tz4; CInt 1; CEndStruct; CFinish]
    = Some ([true; true; false; false; false],
            [224; 1; 0; 234; 233; 129; 131; 214; 135; 180; 129; 97; 129; 98], true, Some [], None).
Proof. vm_compute. reflexivity. Qed.
(* no value at all: nothing is written *)
Example C12bin4_ex_lst_empty : run_l None [[97]; [98]] [CFinish; CFinish] = Some ([true; true], [], false, None, Some []).
Proof. vm_compute. reflexivity. Qed.
(* the fixed-table writer over an io.Writer that accepts one write: the table is refused, the value call fails *)
Example C12bin4_ex_lst_cut :
  run_l (Some 1%nat) [[97]; [98]] [CSymbol tb4; CFinish] = Some ([false; false], [224; 1; 0; 234], true, Some [], Some []).
Proof. vm_compute. reflexivity. Qed.

(* OPEN (not covered by the theorems above, whose [call_ok] asks for tokens with text): a token that carries only a
   symbol ID.  The writer emits the ID unchecked; the decoder gives the text of a system symbol ID (1-9) back, so the
   statement for such tokens must identify SymSid n with the system symbol's text; $0 stays $0 *)
Example C12bin4_ex_sid_tokens_open :
  run_b None [CSymbol (tok_sid 4); CAnnotation (tok_sid 0); CBeginStruct; CFieldName (tok_sid 7); CSymbol (tok_sid 0);
              CEndStruct; CFinish]
    = Some ([true; true; true; true; true; true; true],
            [224; 1; 0; 234; 113; 4; 230; 129; 128; 211; 135; 113; 0], false,
            Some [VSymbol (SymText [110; 97; 109; 101]);
                  VAnn [SymSid 0] (VStruct [(SymText [115; 121; 109; 98; 111; 108; 115], VSymbol (SymSid 0))])],
            Some [VSymbol (SymSid 4); VAnn [SymSid 0] (VStruct [(SymSid 7, VSymbol (SymSid 0))])]).
Proof. vm_compute. reflexivity. Qed.
