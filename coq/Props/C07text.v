(* C07text.v — text-reader side of C07 (an error is permanent) and C06 (no panic, no
   loop without progress) over the model Text/TextReader.v, for ALL inputs and
   ALL navigation programs.  Statements only; proofs are in Text/TextReaderP.v,
   Text/TextReaderNP.v, Text/TokenizerNP.v and Text/TokenizerP.v. *)
From Coq Require Import String List NArith ZArith Bool.
From IonV Require Import Base.Wire Base.Utf8 Data.Ion Bin.BinReader Text.Tokenizer Text.Skipper Text.TextReader
  Text.TextReaderP Text.TokenizerP Text.TextReaderNP Text.TokenizerNP Text.TextNum.
Import ListNotations.
Open Scope N_scope.

Section Any.
(* any decimal / timestamp parser *)
Variable pd : list N -> res dec.
Variable pt : list N -> res (list N).

(* every state a navigation program can reach keeps "err set => state trsDone" *)
Theorem tr_sticky_reach : forall inp ioerr p,
  sticky_inv (fst (x_run pd pt (x_init inp ioerr) p [])).
Proof. intros; apply run_inv, init_inv. Qed.

(* the statement shared with the binary reader: once err is set, every call keeps it set and
   Next answers F; here moreover no call changes the reader at all and Err answers e1 *)
Theorem tr_sticky : forall x, sticky_inv x -> x_err x = true -> forall o,
  fst (x_op_res pd pt x o) = x /\
  (o = ONext -> snd (x_op_res pd pt x o) = Ok [70]) /\
  (o = OErr -> snd (x_op_res pd pt x o) = Ok [101; 49]).
Proof. intros x H E o; exact (op_after_error pd pt x o H E). Qed.

(* by induction over the program: after any program that ends with err set, any further call
   leaves err set and a further Next answers F *)
Theorem tr_sticky_run : forall inp ioerr p o,
  let x := fst (x_run pd pt (x_init inp ioerr) p []) in
  x_err x = true ->
  x_err (fst (x_op_res pd pt x o)) = true /\
  (o = ONext -> snd (x_op_res pd pt x o) = Ok [70]).
Proof. intros inp ioerr p o; exact (sticky_after_run pd pt inp ioerr p o). Qed.

(* ---- no panic ----------------------------------------------------------------------------------------- *)
(* the external parsers do not panic (ion.ParseDecimal / ion.ParseTimestamp return errors) *)
Hypothesis pd_np : forall l, pd l <> Panic.
Hypothesis pt_np : forall l, pt l <> Panic.

(* one call on a well-formed reader does not panic and leaves a well-formed reader; the initial
   reader is well-formed.  [WF]: exploded (state trsDone, err set), or: state trsBeforeContainer
   only on an unfinished container token with a container type, state trsAfterValue only inside a
   list or struct, an unfinished token is one skipValue accepts (or EOF at top level with eof set) *)
Theorem tr_no_panic_step : forall x o, WF x ->
  match x_op_res pd pt x o with
  | (x', Ok _) => WF x'
  | (_, Panic) => False
  | _ => True
  end.
Proof. intros x o H; exact (op_ok pd pt pd_np pt_np x o H). Qed.
Theorem tr_wf_init : forall inp ioerr, WF (x_init inp ioerr).
Proof. exact init_WF. Qed.

(* the full-strength statement: for no input and no program does the trace contain "panic",
   i.e. no call of Next / StepIn / StepOut / any accessor panics *)
Theorem tr_no_panic : forall inp ioerr p,
  ~ In (s "panic") (snd (x_run pd pt (x_init inp ioerr) p [])).
Proof. intros inp ioerr p; exact (run_ok pd pt pd_np pt_np p _ [] (init_WF inp ioerr) (fun K => K)). Qed.

(* readLocalSymbolTable through a Next that behaves (NextOK): no panic, and on success the reader is
   back after the struct with the context stack as before *)
Theorem tr_read_lst_ok : forall api_next, NextOK api_next -> forall fuel x, WF x ->
  match read_local_symbol_table api_next fuel x with
  | (x', Ok _) => L x' /\ x_ctx x' = x_ctx x
  | (_, Panic) => False
  | _ => True
  end.
Proof. exact read_lst_ok. Qed.
End Any.

(* the model as the driver instantiates it: Text/TextNum.v's parsers *)
Theorem tr_no_panic_text : forall inp ioerr p,
  ~ In (s "panic") (snd (x_run parse_decimal_text parse_ts_text (x_init inp ioerr) p [])).
Proof. exact no_panic_run. Qed.

(* the layers below, for all inputs: the bare tokenizer + skipper, driven by their protocol (Next, not
   called again after EOF; ReadValue / ReadNumber on the current token), never panic *)
Theorem tr_tokenizer_no_panic : forall inp ioerr ops, tk_run ops (t_init inp ioerr) <> Panic.
Proof. exact tk_no_panic. Qed.
(* SkipContainerContents (StepOut) never panics and leaves token / unfinished alone, from any state *)
Theorem tr_skip_container_frame : forall c, tframe (t_skip_container_contents c).
Proof. exact tframe_skip_container_contents. Qed.
(* Next: if an unfinished token is one skipValue accepts, Next does not panic; afterwards the unfinished
   flag is determined by the token and a 0b / 0x token has its look-ahead in the push-back buffer *)
Theorem tr_next_spec : forall t,
  (t_unfinished t = true -> skb (t_token t) = true) ->
  match t_next t with
  | Ok (_, t') => tokpost t'
  | Panic => False
  | _ => True
  end.
Proof. exact next_spec. Qed.
(* readRadix after such a Next yields (-)0b.. / (-)0x.., on which parseInt's index expressions are safe *)
Theorem tr_read_radix_shape : forall mk valid t, radix_ready t ->
  match read_radix mk valid t with Ok (v, _) => radix_shape v | _ => True end.
Proof. exact read_radix_shape. Qed.
Theorem tr_parse_int_no_panic : forall v radix, radix = 10 \/ radix_shape v -> parse_int v radix <> Panic.
Proof. exact parse_int_np. Qed.

(* ---- UTF-8 ------------------------------------------------------------------------------------------------------ *)
(* ReadValue on a symbol or string token returns valid UTF-8 (identifiers and operators are ASCII; strings,
   quoted symbols and every segment of a long string are checked; escapes encode scalar values) *)
Theorem tr_utf8_read_value : forall k, textual k = true ->
  forall t, match t_read_value k t with Ok (v, _) => utf8_valid v = true | _ => True end.
Proof. exact valid_read_value. Qed.
Theorem tr_utf8_app : forall a b, utf8_valid a = true -> utf8_valid b = true -> utf8_valid (a ++ b) = true.
Proof. exact utf8_app. Qed.
(* for every input and every navigation program: every text the reader holds (the string or symbol value,
   the field name, the annotations, every text of the symbol table in force) is valid UTF-8, so every
   string / symbol text an accessor returns is *)
Theorem tr_utf8 : forall pd pt inp ioerr p, V (fst (x_run pd pt (x_init inp ioerr) p [])).
Proof. intros pd pt inp ioerr p. apply run_V, init_V. Qed.
Theorem tr_utf8_step : forall pd pt x o, V x -> V (fst (x_op_res pd pt x o)).
Proof. exact op_V. Qed.

(* ---- progress: the fuelled loops do not run out of fuel ------------------------------------------------- *)
(* whitespace and comments, with any comment handler, from any tokenizer state *)
Theorem tr_progress_whitespace : forall h t, t_skip_whitespace_h h t <> OutOfFuel.
Proof. exact skip_whitespace_h_progress. Qed.
(* digit runs of the number readers (with underscores) and of the skipper *)
Theorem tr_progress_digits : forall c w t, read_digits c w t <> OutOfFuel.
Proof. exact read_digits_progress. Qed.
Theorem tr_progress_radix_digits : forall fuel valid w t,
  valid (-1)%Z = false -> (t_rem t < fuel)%nat -> read_radix_digits fuel valid w t <> OutOfFuel.
Proof. exact radix_digits_progress. Qed.
Theorem tr_progress_skip_digits : forall c t, skip_digits c t <> OutOfFuel.
Proof. exact skip_digits_progress. Qed.
(* the digits of exponents and fractional seconds (no '_' separators) *)
Theorem tr_progress_plain_digits : forall c w t, read_plain_digits c w t <> OutOfFuel.
Proof. exact read_plain_digits_progress. Qed.
(* the string, symbol and clob readers (escapes, line continuations, concatenated ''' segments with comments) *)
Theorem tr_progress_strings : forall t,
  read_string t <> OutOfFuel /\ read_long_string t <> OutOfFuel /\ read_quoted_symbol t <> OutOfFuel /\
  read_clob t <> OutOfFuel /\ read_long_clob t <> OutOfFuel.
Proof.
  intros t. repeat split;
    [apply read_string_progress | apply read_long_string_progress | apply read_quoted_symbol_progress
    | apply (read_clob_progress t) | apply (read_clob_progress t)].
Qed.
(* skipContainerHelper (skipped containers, StepOut): whatever is nested inside (containers, strings, long
   strings, quoted symbols, lobs, comments), the loop with fuel above the characters left never runs out of
   fuel and hands no character back; SkipContainerContents as called by StepOut never runs out of fuel *)
Theorem tr_progress_skip_container_loop : forall fuel term t,
  (t_rem t < fuel)%nat -> ni (skip_container_helper fuel term) t.
Proof. exact skip_container_progress. Qed.
Theorem tr_progress_skip_container : forall c t, t_skip_container_contents c t <> OutOfFuel.
Proof. exact skip_container_contents_progress. Qed.
(* the fuel is linear in what is left of the input: |unread bytes| + |pushed-back characters| + 2 *)
Theorem tr_fuel_linear : forall t, (t_fuel t <= length (t_in t) + length (t_buf t) + 2)%nat.
Proof. exact fuel_linear. Qed.

(* ---- the hypotheses are satisfiable by non-trivial objects -------------------------------------------------- *)
(* a truncated list: the error is reached, and the state satisfies both invariants *)
Example sticky_witness :
  let x := fst (x_run parse_decimal_text parse_ts_text
                      (x_init (s "[1, ") false) [ONext; OStepIn; ONext; ONext] []) in
  x_err x = true /\ sticky_inv x /\ WF x.
Proof. vm_compute. split; [reflexivity|split; [right; reflexivity|left; split; reflexivity]]. Qed.
Example sticky_trace :
  join_sp (snd (x_run parse_decimal_text parse_ts_text
                      (x_init (s "[1, ") false) [ONext; OStepIn; ONext; ONext; OErr; ONext; OErr] []))
  = s "T ok T F e1 F e1".
Proof. vm_compute. reflexivity. Qed.
(* the former panics (D02, D03) now answer: IntValue on null.int is nil, typed nulls in a symbol table are ignored *)
Example null_int_intvalue :
  join_sp (snd (x_run parse_decimal_text parse_ts_text (x_init (s "null.int") false) [ONext; OInt; OErr] []))
  = s "T nil e0".
Proof. vm_compute. reflexivity. Qed.
Example lst_typed_null :
  join_sp (snd (x_run parse_decimal_text parse_ts_text
     (x_init (s "$ion_symbol_table::{imports:[{name:""x"",version:null.int,max_id:2}],symbols:[""a""]} $12") false)
     [ONext; OSymbol; OErr] []))
  = s "T k61.12 e0".
Proof. vm_compute. reflexivity. Qed.
Example tokenizer_run :
  match tk_run [KNext; KRead; KNext; KNext; KRead; KNext; KRead; KNext] (t_init (s "abc::[1, 2] 'q'") false) with
  | Ok t => t_token t = tokenEOF
  | _ => False
  end.
Proof. vm_compute. reflexivity. Qed.

(* the repaired escapes: a surrogate pair is one character, a lone surrogate is an error *)
Example surrogate_pair :
  join_sp (snd (x_run parse_decimal_text parse_ts_text
     (x_init (s "'\uD83D\uDE00' ""\uD800""") false) [ONext; OSymbol; ONext; OErr] []))
  = s "T kf09f9880.-1 F e1".
Proof. vm_compute. reflexivity. Qed.
