(* C07text.v — text-reader side of C07 (an error is permanent), C06 (no panic, no
   loop without progress) over the model Text/TextReader.v, for ALL inputs and
   ALL navigation programs.  Statements only; proofs are in Text/TextReaderP.v,
   Text/TextReaderNP.v and Text/TokenizerP.v. *)
From Coq Require Import String List NArith ZArith Bool.
From IonV Require Import Base.Wire Data.Ion Bin.BinReader Text.Tokenizer Text.Skipper Text.TextReader
  Text.TextReaderP Text.TokenizerP Text.TextReaderNP Text.TokenizerNP Text.TextNum.
Import ListNotations.
Open Scope N_scope.

Section Any.
(* any decimal / timestamp parser, any answer of the known nil-dereference sites *)
Variable pd : list N -> res dec.
Variable pt : list N -> res (list N).
Variable kp : forall A : Type, res A.

(* every state a navigation program can reach keeps "err set => state trsDone" *)
Theorem tr_sticky_reach : forall inp ioerr p,
  sticky_inv (fst (x_run pd pt kp (x_init inp ioerr) p [])).
Proof. intros; apply run_inv, init_inv. Qed.

(* the statement shared with the binary reader: once err is set, every call keeps it set and
   Next answers F; here moreover no call changes the reader at all and Err answers e1 *)
Theorem tr_sticky : forall x, sticky_inv x -> x_err x = true -> forall o,
  fst (x_op_res pd pt kp x o) = x /\
  (o = ONext -> snd (x_op_res pd pt kp x o) = Ok [70]) /\
  (o = OErr -> snd (x_op_res pd pt kp x o) = Ok [101; 49]).
Proof. intros x H E o; exact (op_after_error pd pt kp x o H E). Qed.

(* by induction over the program: after any program that ends with err set, any further call
   leaves err set and a further Next answers F *)
Theorem tr_sticky_run : forall inp ioerr p o,
  let x := fst (x_run pd pt kp (x_init inp ioerr) p []) in
  x_err x = true ->
  x_err (fst (x_op_res pd pt kp x o)) = true /\
  (o = ONext -> snd (x_op_res pd pt kp x o) = Ok [70]).
Proof. intros inp ioerr p o; exact (sticky_after_run pd pt kp inp ioerr p o). Qed.
End Any.

(* ---- no panic --------------------------------------------------------------------------------------- *)
(* the full-strength statement: no input and no program make a call panic *)
Definition tr_no_panic (kp : forall A : Type, res A) : Prop :=
  forall inp ioerr p,
    ~ In (s "panic") (snd (x_run parse_decimal_text parse_ts_text kp (x_init inp ioerr) p [])).

(* it is false of the code that exists: IntValue on null.int (D02), typed nulls in a local symbol table (D03) *)
Theorem tr_no_panic_refuted : ~ tr_no_panic (fun A => Panic).
Proof. exact no_panic_refuted. Qed.
Theorem tr_no_panic_refuted_lst : exists inp,
  In (s "panic") (x_traverse parse_decimal_text parse_ts_text (fun A => Panic) inp false).
Proof. exact no_panic_refuted_lst. Qed.

(* what holds of the code that exists, for all inputs: the bare tokenizer + skipper, driven by their
   protocol (Next, not called again after EOF; ReadValue / ReadNumber on the current token), never
   panic: the panics of ReadValue, skipValue and scanForNumericType are unreachable *)
Theorem tr_tokenizer_no_panic : forall inp ioerr ops, tk_run ops (t_init inp ioerr) <> Panic.
Proof. exact tk_no_panic. Qed.
(* SkipContainerContents (StepOut) never panics and leaves token / unfinished alone, from any state *)
Theorem tr_skip_container_frame : forall c, tframe (t_skip_container_contents c).
Proof. exact tframe_skip_container_contents. Qed.
(* Next: if an unfinished token is one skipValue accepts, Next does not panic and afterwards the
   unfinished flag is determined by the token *)
Theorem tr_next_spec : forall t,
  (t_unfinished t = true -> skb (t_token t) = true) ->
  match t_next t with
  | Ok (_, t') => t_unfinished t' = unf_of (t_token t')
  | Panic => False
  | _ => True
  end.
Proof. exact next_spec. Qed.

(* ---- progress: the fuelled loops do not run out of fuel ------------------------------------------------- *)
(* whitespace and comments, with any comment handler, from any tokenizer state *)
Theorem tr_progress_whitespace : forall h t, t_skip_whitespace_h h t <> OutOfFuel.
Proof. exact skip_whitespace_h_progress. Qed.
(* digit runs of the number readers (with underscores) and of the skipper *)
Theorem tr_progress_digits : forall c w t, read_digits c w t <> OutOfFuel.
Proof. exact read_digits_progress. Qed.
Theorem tr_progress_radix_digits : forall fuel valid w t,
  valid (-1)%Z = false -> (t_rem t < fuel)%nat -> read_radix_digits fuel valid w t <> OutOfFuel.
Proof. exact radix_digits_progress. Qed.
Theorem tr_progress_skip_digits : forall c t, skip_digits c t <> OutOfFuel.
Proof. exact skip_digits_progress. Qed.
(* the fuel is linear in what is left of the input: |unread bytes| + |pushed-back characters| + 2 *)
Theorem tr_fuel_linear : forall t, (t_fuel t <= length (t_in t) + length (t_buf t) + 2)%nat.
Proof. exact fuel_linear. Qed.

(* ---- the hypotheses are satisfiable by non-trivial objects -------------------------------------------------- *)
(* a truncated list: the error is reached, and the state satisfies the invariant *)
Example sticky_witness :
  let x := fst (x_run parse_decimal_text parse_ts_text (fun A => Panic)
                      (x_init (s "[1, ") false) [ONext; OStepIn; ONext; ONext] []) in
  x_err x = true /\ sticky_inv x.
Proof. vm_compute. split; [reflexivity|right; reflexivity]. Qed.
Example tokenizer_run :
  match tk_run [KNext; KRead; KNext; KNext; KRead; KNext; KRead; KNext] (t_init (s "abc::[1, 2] 'q'") false) with
  | Ok t => t_token t = tokenEOF
  | _ => False
  end.
Proof. vm_compute. reflexivity. Qed.
Example sticky_trace :
  join_sp (snd (x_run parse_decimal_text parse_ts_text (fun A => Panic)
                      (x_init (s "[1, ") false) [ONext; OStepIn; ONext; ONext; OErr; ONext; OErr] []))
  = s "T ok T F e1 F e1".
Proof. vm_compute. reflexivity. Qed.
