(* C19 — I/O failures are reported (write side).  Statements only; the text Writer's prefix
   theorems come from Text/TextWriterP.v, the binary Writer's stickiness from Bin/BinWriterP.v. *)
From Coq Require Import String List NArith ZArith Bool.
From IonV Require Import Base.Wire Data.Ion Bin.BinWriter Bin.BinWriterP Text.TextOut Text.TextWriter Text.TextWriterP.
From IonV Require Import Props.C12text.
From IonV Require Export Props.C19bin.
Import ListNotations.

(* text Writer, every call sequence, every write budget k, compact and pretty: the bytes accepted
   before the io.Writer fails are a prefix of the fault-free output *)
Theorem C19_text_prefix : forall (F : formats) (pretty quiet : bool) (k : option nat) (cs : list wcall)
    (w1 w2 : twstate) (rs1 rs2 : list bool),
  tw_drive F (new_text_writer k pretty quiet) cs = Ok (w1, rs1) ->
  tw_drive F (new_text_writer None pretty quiet) cs = Ok (w2, rs2) ->
  prefix (sink_bytes (tw_out w1)) (sink_bytes (tw_out w2)).
Proof. exact tw_prefix. Qed.

(* no refused write goes unreported *)
Theorem C19_text_fault_reported : forall (F : formats) (pretty quiet : bool) (k : option nat) (cs : list wcall)
    (w1 w2 : twstate) (rs1 rs2 : list bool),
  tw_drive F (new_text_writer k pretty quiet) cs = Ok (w1, rs1) ->
  tw_drive F (new_text_writer None pretty quiet) cs = Ok (w2, rs2) ->
  forallb (fun b => b) rs1 = true ->
  sink_bytes (tw_out w1) = sink_bytes (tw_out w2) /\ writes w1 = writes w2 /\ rs1 = rs2.
Proof. exact tw_fault_reported. Qed.

(* binary Writer: after a failed write is reported by a call other than Finish, every later call fails *)
Theorem C19_binary_failure_permanent : forall cs w c w1 w' oks,
  wstep w c = Ok (w1, false) -> c <> CFinish ->
  drive_results w1 cs = Ok (w', oks) -> Forall (fun b => b = false) oks.
Proof. exact bw_first_failure. Qed.
