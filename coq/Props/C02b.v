(* C02b.v — "The text reader decodes every valid spelling of a value to exactly that value": the stream-level theorem of
   C02.v ([c02_traverse_stream_partial]) extended to spellings it omitted.

   [tops_spell2] (Text/SpellTree2.v) is [tops_spell] plus
     1. operator symbols, directly inside an s-expression, that begin with a slash (`(a /b)`, `(/ /= 1)`) or are
        directly followed by a comment (`(+/**/1)`, `(+ // c` LF `1)`): SpellStream2.it2_slash, it2_opc;
     2. long strings ('''...''' with any number of continuation segments, whitespace and both comment forms between the
        segments) as struct field names: SpellTree2.fn2_long;
     4. a `//` comment without a terminating newline at the very end of the input, behind the last value or alone:
        SpellTree2.tp2_comment;
     3b. (half of item 3) the bare version marker $ion_1_0 at the top level between / in front of / behind the values
        (consumed, denotes nothing, resets the symbol context to the system table): SpellTree2.tp2_ivm.
   STILL OMITTED at stream level (hence ..._partial): a struct annotated $ion_symbol_table at the top level (a local
   symbol table, after which $n resolves against the new table; the theorem is about streams whose symbol context is the
   system table throughout), and a version marker that is directly followed by the final unterminated `//` comment.
   Statements only; the proofs are in Text/SpellEofc.v, SpellOp2.v, SpellIvm.v, SpellStream2.v, SpellTree2.v. *)
From Coq Require Import String List NArith ZArith Bool.
From IonV Require Import Base.Wire Base.Utf8 Data.Ion Bin.BitStream Bin.BinReader Text.Tokenizer Text.Skipper
  Text.TextReader Text.TextNum Text.SpecText
  Text.SpellBase Text.SpellWs Text.SpellNum Text.SpellIdent Text.SpellSym Text.SpellEsc Text.SpellStr Text.SpellLong
  Text.SpellBlob Text.SpellTs Text.SpellTok Text.SpellRead Text.SpellVal Text.SpellSymVal Text.SpellOp Text.SpellStream
  Text.SpellCont Text.SpellTree Text.SpellTreeEx
  Text.SpellEofc Text.SpellOp2 Text.SpellStream2 Text.SpellIvm Text.SpellTree2 Text.SpellTreeEx2.
Import ListNotations.
Open Scope Z_scope.

(* ======== operator symbols in front of a comment ========================================================== *)
(* readOperator on a run of operator characters without comment opener inside, not ending in a slash, directly
   followed by `//` or `/*`: it returns the run and leaves the comment in the stream *)
Theorem c02b_read_operator_before_comment : forall w s0,
  op_chars w -> no_comment_start w = true -> last w 0%N <> 47%N -> comment_opener s0 = true ->
  run read_operator (zs w ++ s0) w s0.
Proof. exact run_read_operator_c. Qed.
Print Assumptions c02b_read_operator_before_comment.
Example c02b_read_operator_before_comment_ex :
  op_chars (s "<=>") /\ no_comment_start (s "<=>") = true /\ last (s "<=>") 0%N <> 47%N /\
  comment_opener (zs (s "/**/1)")) = true /\
  exists t', read_operator (t_init (s "<=>/**/1)") false) = Ok (s "<=>", t') /\ stream t' = zs (s "/**/1)").
Proof.
  split; [constructor; [|repeat constructor]; unfold op_char; cbn; tauto|].
  split; [reflexivity|]. split; [discriminate|]. split; [reflexivity|].
  eexists. split; reflexivity.
Qed.

(* ======== a `//` comment that ends the input ================================================================= *)
(* behind the last value the reader's Next meets the end of the input: the tokenizer's Next on  whitespace, `//`,
   a body without newline, and nothing more, gives the EOF token *)
Theorem c02b_next_eof_comment : forall wc e k,
  eofc wc -> all_eof e -> runK t_next (zs wc ++ e, k, false) tt (stail (stail e), tokenEOF, true).
Proof. exact runK_t_next_eofc. Qed.
Print Assumptions c02b_next_eof_comment.
Example c02b_next_eof_comment_ex : eofc (s " /*x*/ " ++ 47 :: 47 :: s " the end */")%N.
Proof.
  constructor.
  - apply ws_ch; [reflexivity|]. apply (ws_block (s "x")); [reflexivity|]. apply ws_ch; [reflexivity|constructor].
  - repeat constructor; discriminate.
  - repeat constructor; discriminate.
Qed.

(* ======== the version marker ================================================================================== *)
(* one round of the loop of Next, at the top level with no annotation pending, on `$ion_1_0` followed by a whitespace
   run and something that is neither an identifier character nor `::`: the marker is consumed, the symbol context
   becomes the system table, and the loop goes on in front of what follows *)
Theorem c02b_version_marker : forall pd pt api w wn S2 k0 lst fld ty0 v0 kk fuel b X',
  ws_run w -> no_cr w -> ws_run wn -> no_cr wn -> ws_stop S2 = true -> dcolon S2 = false ->
  is_identifier_part (shead (zs wn ++ S2)) = false ->
  rrun (x_next_loop pd pt api kk fuel)
       (mkax (sym_rest wn S2) tokenSymbol false trsBeforeTypeAnnotations [] false false LSys fld [] ty0 v0) b X' ->
  rrun (x_next_loop pd pt api (S kk) fuel)
       (mkax (zs w ++ zs ivm_text ++ zs wn ++ S2) k0 false trsBeforeTypeAnnotations [] false false lst fld [] ty0 v0) b X'.
Proof. exact ivm_step. Qed.
Print Assumptions c02b_version_marker.
Example c02b_version_marker_ex :
  ivm_text = s "$ion_1_0" /\
  show_str (join_sp (x_traverse parse_decimal_text parse_ts_text (s "$ion_1_0 1 $ion_1_0 $ion_1_0 $4 $ion_1_0") false))
  = "T nil a[] y3 n0 I1 T nil a[] y7 n0 k6e616d65.4 F e0 F e0 F e0"%string.
Proof. split; [reflexivity|vm_compute; reflexivity]. Qed.

(* ======== values and streams =================================================================================== *)
(* PARTIAL (local symbol tables are still omitted): top-level streams of value trees as in
   [c02_traverse_stream_partial], where in addition
     - an operator symbol inside an s-expression may begin with a slash and may be directly followed by a comment,
     - a struct field name may be a long string with continuation segments,
     - the input may end in a `//` comment without newline (behind the last value, or as the whole input),
     - the bare version marker $ion_1_0 may stand in front of, between and behind the values.
   The reader model's full traversal is exactly the trace of the denoted trees.
   OMITTED spellings: a struct annotated $ion_symbol_table at top level (a local symbol table); a version marker
   directly followed by the final unterminated comment. *)
Theorem c02b_traverse_stream_partial : forall inp w0 text tvs,
  norm inp = w0 ++ text -> ws_run w0 -> tops_spell2 parse_decimal_text parse_ts_text LSys text tvs ->
  x_traverse parse_decimal_text parse_ts_text inp false = ttrace tvs.
Proof. exact traverse_stream2_text. Qed.
Print Assumptions c02b_traverse_stream_partial.
Example c02b_traverse_stream_ex :
  tree2_example = s " (/ +/**/1 /=) {'''a''' /*c*/ '''b''':2} x $ion_1_0 $4 // the end" /\
  (exists w0 text, norm tree2_example = w0 ++ text /\ ws_run w0 /\
                   tops_spell2 parse_decimal_text parse_ts_text LSys text tree2_example_values) /\
  join_sp (ttrace tree2_example_values) =
  s "T nil a[] y12 n0 ok T nil a[] y7 n0 k2f.-1 T nil a[] y7 n0 k2b.-1 T nil a[] y3 n0 I1 T nil a[] y7 n0 k2f3d.-1 F ok T nil a[] y13 n0 ok T k6162.-1 a[] y3 n0 I2 F ok T nil a[] y7 n0 k78.-1 T nil a[] y7 n0 k6e616d65.4 F e0 F e0 F e0" /\
  join_sp (x_traverse parse_decimal_text parse_ts_text tree2_example false) = join_sp (ttrace tree2_example_values) /\
  option_map (fun v => show_str (show_values v)) (SpecText.tdecode tree2_example)
  = Some "( Yt2f Yt2b I1 Yt2f3d ) { ft6162 I2 } Yt78 Yt6e616d65"%string.
Proof.
  split; [reflexivity|]. split; [exact tree2_example_spells|]. split; [exact tree2_example_ttrace|].
  split; [exact tree2_example_model|exact tree2_example_spec].
Qed.

(* the wider relation contains the one of C02.v: [c02_traverse_stream_partial] is an instance *)
Theorem c02b_includes_c02 : forall pd pt lst text tvs,
  tops_spell pd pt lst text tvs -> tops_spell2 pd pt lst text tvs.
Proof. exact tops_spell_incl. Qed.
Print Assumptions c02b_includes_c02.
Theorem c02b_includes_c02_trees : forall pd pt lst,
  (forall ctx text fol tv, tspell pd pt lst ctx text fol tv -> tspell2 pd pt lst ctx text fol tv) /\
  (forall ctx st text items, cseq pd pt lst ctx st text items -> cseq2 pd pt lst ctx st text items).
Proof. exact tspell_incl. Qed.
Print Assumptions c02b_includes_c02_trees.
Example c02b_includes_c02_ex :
  exists w0 text, norm tree_example = w0 ++ text /\ ws_run w0 /\
                  tops_spell2 parse_decimal_text parse_ts_text LSys text tree_example_values.
Proof.
  destruct tree_example_spells as (w0 & text & Hn & Hw & Hv). exists w0, text. split; [exact Hn|]. split; [exact Hw|].
  now apply tops_spell_incl.
Qed.

(* the same inside any container, with any separator in front: one member (value tree) is traversed, from any reader
   state whose Next runs its loop in front of the member ([nextable]), and the reader is left in front of the next
   separator (or, at the top level, possibly behind the final comment: [settled_w]); and a whole member sequence up to
   the closing bracket, with StepOut *)
Theorem c02b_traverse_tree : forall pd pt lst,
  (forall ctx text fol tv, tspell2 pd pt lst ctx text fol tv -> P_val2 pd pt lst ctx text fol tv) /\
  (forall ctx st text items, cseq2 pd pt lst ctx st text items -> P_seq2 pd pt lst ctx st text items).
Proof. exact traverse_tree2. Qed.
Print Assumptions c02b_traverse_tree.

(* one value, in any container context, with the wider set of literals and what may follow them *)
Theorem c02b_next_value : forall pd pt api lst ctx ann text fol anns ty v,
  aval_spells2 pd pt lst ctx ann text fol anns ty v ->
  forall wn rest S2,
  no_cr text -> ws_run wn -> no_cr wn -> fol wn rest -> ends S2 rest -> rest_ok ctx rest ->
  exists S' k' u', settled_w S' k' u' rest /\
    forall w k0 fld ty0 v0 kk fuel, (length text <= kk)%nat -> ws_run w -> no_cr w ->
    rrun (x_next_loop pd pt api (S kk) fuel)
         (mkax (zs w ++ zs text ++ zs wn ++ S2) k0 false trsBeforeTypeAnnotations ctx false false lst fld ann ty0 v0) true
         (mkax S' k' u' (after_value_state ctx) ctx false false lst fld anns ty v).
Proof. exact aval_next2. Qed.
Print Assumptions c02b_next_value.
