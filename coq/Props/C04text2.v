(* C04text2.v — C04, TEXT half, PRETTY mode (TextWriterPretty): "every text Writer output parses under the Ion text
   grammar, and an independent spec-derived decoder recovers exactly the values written" for the pretty output of the
   text Writer MODEL ([new_text_writer None true quiet]; bytes [wtp_stream], Text/WriteSpellPretty.v: LF and tab
   indentation between members, `: ` after a field name, `[]` `()` `{}` for empty containers) and the SPECIFICATION
   decoder [SpecText.tdecode], for EVERY well-formed forest — the same quantifier and the same two hypotheses
   ([wf_top], [spec_fmt]) as Props/C04text.v, which has the compact mode.  Nothing is excluded: lists, s-expressions
   and structs at any nesting depth and indentation, annotations, every scalar.

   Statements only; proofs in Text/SpecAgreeTextPrettyP.v (container and stream lemmas over whitespace runs; scalars,
   symbols and annotations are the lemmas of Text/SpecAgreeTextP.v, a scalar's pretty text being its compact text).
   [C01text_writer_output_pretty] (Props/C01text2.v) is the fact that the driven Writer model emits [wtp_stream]. *)
From Coq Require Import String List NArith ZArith Bool Lia.
From IonV Require Import Base.Wire Base.Utf8 Data.Ion Num.Float Num.Decimal Bin.BinWriter Bin.SpecBin
  Text.TextOut Text.TextWriter Text.TextRoundtrip Text.SpecText
  Text.SpellBase Text.SpellNum Text.SpellStream
  Text.WriteSpell Text.WriteSpellPretty Text.WriteSpellStd
  Text.SpecAgreeText Text.SpecAgreeTextP Text.SpecAgreeTextPrettyP Props.C01text2.
Import ListNotations.
Open Scope N_scope.

(* 1. one value at any indentation, in any context: p_val consumes exactly the value's pretty text and answers its
   canonical form *)
Theorem C04text_value_pretty : forall F v, wf_value F v -> spec_fmt F v -> forall i pa, Forall wf_sym pa ->
  forall fuel sx anns rest, wfollow rest -> (length (wtp F i pa v) < fuel)%nat ->
  p_val fuel system_ctx sx anns (wtp F i pa v ++ rest) = Some (canon_a (anns ++ map csym pa) v, rest).
Proof. exact value_specP. Qed.
Print Assumptions C04text_value_pretty.

(* 2. the whole pretty output *)
Theorem C04text_stream_pretty : forall F quiet vs, Forall (wf_top F) vs -> Forall (spec_fmt F) vs ->
  tdecode (wtp_stream F quiet vs) = Some (canonical vs).
Proof. exact tdecode_stream_pretty. Qed.
Print Assumptions C04text_stream_pretty.

(* 3. HEADLINE: the Writer model driven in pretty mode accepts every call and the specification decoder reads the bytes
   of its sink back as the forest *)
Theorem C04text_pretty : forall F quiet vs, Forall (wf_top F) vs -> Forall (spec_fmt F) vs ->
  exists w oks, tw_drive F (new_text_writer None true quiet) (calls_of_stream vs) = Ok (w, oks) /\
                forallb (fun b => b) oks = true /\
                sink_bytes (tw_out w) = wtp_stream F quiet vs /\
                tdecode (sink_bytes (tw_out w)) = Some (canonical vs).
Proof. exact writer_output_decodes_pretty. Qed.
Print Assumptions C04text_pretty.

(* 4. on plain forests (no symbols-by-ID other than $0, canonical NaN) the observation text of what was decoded is that
   of what was written *)
Theorem C04text_recovered_pretty : forall F quiet vs, Forall (wf_top F) vs -> Forall (spec_fmt F) vs -> Forall plain_value vs ->
  exists w oks vs', tw_drive F (new_text_writer None true quiet) (calls_of_stream vs) = Ok (w, oks) /\
                forallb (fun b => b) oks = true /\
                tdecode (sink_bytes (tw_out w)) = Some vs' /\ show_values vs' = show_values vs.
Proof. exact writer_output_recovered_pretty. Qed.
Print Assumptions C04text_recovered_pretty.

(* ---- the hypotheses are satisfiable by a non-trivial object: the forest and oracle of Props/C01text2.v ------------------ *)
Ltac sf := repeat match goal with |- _ /\ _ => split | |- True => exact I end.
Example C04text2_ex_fmt : Forall (spec_fmt (std_fmt ex2_ff)) ex2_forest.
Proof.
  repeat (apply Forall_cons || apply Forall_nil); cbn [spec_fmt]; sf;
    try (match goal with |- dec_len_ok _ _ => unfold dec_len_ok; vm_compute; reflexivity end).
  - right; right.
    exists {| n_neg := false; n_iw := [49]; n_ip := [49]; n_dot := false; n_fw := []; n_fp := []; n_exp := Some (101, [43], [48]) |}.
    split; [|split; [reflexivity|split; [vm_compute; reflexivity|vm_compute; reflexivity]]]. split; [|split; reflexivity]. unfold num_wf; cbn.
    split; [apply usd; [reflexivity|constructor]|]. split; [right; discriminate|]. split; [split; reflexivity|].
    split; [now left|]. split; [right; now left|]. split; [discriminate|repeat constructor].
  - left. vm_compute. reflexivity.
  - right; right. exact (proj2 (float_zero_spec (std_fmt ex2_ff))).
Qed.
Example C04text2_ex : tdecode (wtp_stream (std_fmt ex2_ff) false ex2_forest) = Some (canonical ex2_forest).
Proof. exact (tdecode_stream_pretty (std_fmt ex2_ff) false ex2_forest (wf_top_of_std ex2_ff ex2_forest C01text2_ex_wf) C04text2_ex_fmt). Qed.
Example C04text2_ex_writer :
  exists w oks, tw_drive (std_fmt ex2_ff) (new_text_writer None true false) (calls_of_stream ex2_forest) = Ok (w, oks) /\
                forallb (fun b => b) oks = true /\
                sink_bytes (tw_out w) = wtp_stream (std_fmt ex2_ff) false ex2_forest /\
                tdecode (sink_bytes (tw_out w)) = Some (canonical ex2_forest).
Proof. exact (writer_output_decodes_pretty (std_fmt ex2_ff) false ex2_forest (wf_top_of_std ex2_ff ex2_forest C01text2_ex_wf) C04text2_ex_fmt). Qed.
(* the same, computed: the exact pretty bytes (C01text2_ex_bytes_pretty) decode to exactly these values; $4 has become
   name, the NaN payload 0x7FF8000000000001 has become 0x7FF8000000000000, the timestamps are their binary bodies *)
Example C04text2_ex_values :
  option_map (fun v => SpellStream.show_str (show_values v)) (tdecode (wtp_stream (std_fmt ex2_ff) false ex2_forest)) =
  Some (SpellStream.show_str (show_values (canonical ex2_forest))) /\
  SpellStream.show_str (show_values (canonical ex2_forest)) =
  "at612062 at6e616d65 { ft782079 [ T02ca0fd0829d929dbbc378 D0e-3z1 ( ) { } at65 [ ] ] ft2437 at6e616d65 ( D123456789012345678901234567890e2000000000z0 D-123456789012345678901234567890e-2000000000z0 Yt2b { ft6b at74 at6e756c6c T4b9f4e90818197babbc93b9ac9f6 } ) } [ ] ( D-12345e-3z0 D12e-2147483648z0 D1e2147483647z0 D0e0z1 F4607182418800017408 F9221120237041090560 F9223372036854775808 ) Tc00fd083818080 at24696f6e5f73796d626f6c5f7461626c65 [ at24696f6e5f73796d626f6c5f7461626c65 { ft73796d626f6c73 [ Sx61 ] } ]"%string.
Proof. split; vm_compute; reflexivity. Qed.
