(* C12 — any Writer call sequence ends in a correct stream or an error: binary Writer, the HEADLINE.
   For EVERY sequence of API calls on NewBinaryWriter(out) (growing symbol table, an io.Writer that
   never fails), legal or not — End without Begin, FieldName outside a struct, values in a struct
   without a field name, Finish inside a container, Finish several times, a field name or annotations
   still pending at an End or at a Finish — if the final Finish returns nil then the bytes handed to
   the io.Writer decode, under the specification decoder Bin/SpecBin.v, to exactly the values that the
   successful calls denote (Bin/DenoteCalls.v: a stack machine over the calls that returned nil,
   written from the property text; the same machine as lib/iongen.py `forest_of_calls`), batch after
   batch.  Statements only; proofs in Bin/DenoteCallsP.v. *)
From Coq Require Import String List NArith ZArith Bool.
From IonV Require Import Base.Wire Base.Utf8 Bin.Bits Data.Ion Num.Float Bin.BinWriter Bin.BinWriterP
  Bin.SpecBin Bin.RoundTripBin Bin.DenoteCalls Bin.DenoteCallsP.
Import ListNotations.
Open Scope N_scope.

(* The headline.  [call_ok]: what C04_binary asks of a forest, asked of the calls (symbol tokens with
   valid UTF-8 text, integers within their Go type, a timestamp passed with the length of its body,
   WriteSymbolFromString not given "$<digits>").  Side conditions of the decoding, as in C04_binary: no
   denoted top-level value is a struct annotated first with $ion_symbol_table (that IS a symbol table),
   the output is shorter than 2^63 bytes.  The conclusion also says that the successful calls DO denote
   values ([denote] is not None) and that these are well formed. *)
Theorem C12_binary_denote : forall cs w oks, Forall call_ok cs ->
  drive_results (new_writer None) cs = Ok (w, oks) -> final_finish_ok cs oks ->
  exists vs, denote cs oks = Some vs /\ Forall wf_value vs /\
    (Forall (fun v => is_lst v = None) vs -> N.of_nat (length (sink_bytes (w_out w))) < two63 ->
     sdecode (sink_bytes (w_out w)) = Some vs).
Proof. exact denote_sound. Qed.

(* in the vocabulary of the checks: the canonical observation text of what the decoder returns is that of
   the denoted values *)
Theorem C12_binary_denote_show : forall cs w oks, Forall call_ok cs ->
  drive_results (new_writer None) cs = Ok (w, oks) -> final_finish_ok cs oks ->
  exists vs vs', denote cs oks = Some vs /\
    (Forall (fun v => is_lst v = None) vs -> N.of_nat (length (sink_bytes (w_out w))) < two63 ->
     sdecode (sink_bytes (w_out w)) = Some vs' /\ show_values vs' = show_values vs).
Proof. exact denote_sound_show. Qed.

(* the writer side alone (no size or symbol-table side condition): the sink holds one batch — version
   marker, local symbol table of all symbols interned so far, the values — per successful Finish, and
   the batches' values are the denoted values; every denoted value was flushed *)
Theorem C12_binary_denote_writer : forall cs w oks, Forall call_ok cs ->
  drive_results (new_writer None) cs = Ok (w, oks) -> final_finish_ok cs oks ->
  exists vs bs, denote cs oks = Some vs /\ denote_flushed cs oks = Some vs /\
    sink_bytes (w_out w) = flat_map batch_enc bs /\ vs = flat_map snd bs /\ Forall batch_ok bs /\ bs <> [].
Proof. exact denote_writer. Qed.

(* the specification side alone: a sequence of such batches decodes to the concatenation of their values
   (the symbol context is reset by every version marker) *)
Theorem C12_binary_batches_decode : forall bs, bs <> [] -> Forall batch_ok bs -> Forall batch_top bs ->
  N.of_nat (length (flat_map batch_enc bs)) < two63 ->
  sdecode (flat_map batch_enc bs) = Some (flat_map snd bs).
Proof. exact sdecode_batches. Qed.

(* "checking only the final Finish is enough": if the writer ends without a recorded error, every call
   other than Finish returned nil *)
Theorem C12_binary_final_finish_enough : forall cs w w' oks,
  drive_results w cs = Ok (w', oks) -> w_err w' = false ->
  Forall2 (fun c ok => c <> CFinish -> ok = true) cs oks.
Proof. exact final_finish_all_ok. Qed.

(* the invariant itself, for any state reached from a fresh writer without a recorded error: the buffer
   stack mirrors the denotation machine's stack of open containers *)
Theorem C12_binary_lockstep : forall cs w oks, Forall call_ok cs ->
  drive_results (new_writer None) cs = Ok (w, oks) -> w_err w = false ->
  exists st, denote_from d_init cs oks = Some st /\ Rel w st.
Proof. intros cs w oks H1 H2 H3. exact (rel_run cs _ _ _ _ rel_init H1 H2 H3). Qed.

(* ---- examples: misuse sequences (the hypotheses are satisfiable, the conclusion is checked by computation) ---- *)
Definition ta : tok := tok_text [97].   Definition tb : tok := tok_text [98].
Definition run_ex (cs : list wcall) : option (list bool * option (list value) * option (list value)) :=
  match drive_results (new_writer None) cs with
  | Ok (w, oks) => Some (oks, sdecode (sink_bytes (w_out w)), denote cs oks)
  | _ => None
  end.

Lemma tok_ok_text x : utf8_valid x = true -> tok_ok (tok_text x).
Proof. intros H. exists x. split; [reflexivity|exact H]. Qed.

(* Begin, a pending FieldName (and an annotation), End: the pending field name and annotation are dropped *)
Definition ex_pending_end : list wcall := [CBeginStruct; CFieldName ta; CAnnotation tb; CEndStruct; CFinish].
Example C12_ex_pending_end_ok : Forall call_ok ex_pending_end.
Proof. repeat constructor; apply tok_ok_text; reflexivity. Qed.
Example C12_ex_pending_end :
  run_ex ex_pending_end = Some ([true; true; true; true; true], Some [VStruct []], Some [VStruct []]).
Proof. vm_compute. reflexivity. Qed.

(* Finish inside a list fails and changes nothing; more values, End, Finish *)
Definition ex_finish_inside : list wcall :=
  [CBeginList; CInt 1; CFinish; CSymbolFromString [120; 121]; CEndList; CFinish].
Example C12_ex_finish_inside_ok : Forall call_ok ex_finish_inside.
Proof. repeat constructor; try reflexivity; discriminate. Qed.
Example C12_ex_finish_inside :
  run_ex ex_finish_inside = Some ([true; true; false; true; true; true],
                                  Some [VList [VInt 1; VSymbol (SymText [120; 121])]],
                                  Some [VList [VInt 1; VSymbol (SymText [120; 121])]]).
Proof. vm_compute. reflexivity. Qed.

(* two batches on one Writer: the second batch repeats the version marker and the (grown) symbol table *)
Definition ex_two_batches : list wcall :=
  [CSymbol ta; CFinish; CAnnotation tb; CBeginSexp; CSymbol ta; CString [104; 105]; CEndSexp; CFinish; CFinish].
Example C12_ex_two_batches_ok : Forall call_ok ex_two_batches.
Proof. repeat constructor; try (apply tok_ok_text; reflexivity); reflexivity. Qed.
Example C12_ex_two_batches :
  run_ex ex_two_batches =
    Some ([true; true; true; true; true; true; true; true; true],
          Some [VSymbol (SymText [97]); VAnn [SymText [98]] (VSexp [VSymbol (SymText [97]); VString [104; 105]])],
          Some [VSymbol (SymText [97]); VAnn [SymText [98]] (VSexp [VSymbol (SymText [97]); VString [104; 105]])]).
Proof. vm_compute. reflexivity. Qed.

(* an annotation pending at a Finish is dropped: it does not attach to the first value of the next batch *)
Definition ex_pending_finish : list wcall := [CInt 1; CAnnotation ta; CFinish; CInt 2; CFinish].
Example C12_ex_pending_finish_ok : Forall call_ok ex_pending_finish.
Proof. repeat constructor; try (apply tok_ok_text; reflexivity); discriminate. Qed.
Example C12_ex_pending_finish :
  run_ex ex_pending_finish = Some ([true; true; true; true; true], Some [VInt 1; VInt 2], Some [VInt 1; VInt 2]).
Proof. vm_compute. reflexivity. Qed.

(* a field name overwritten, annotations accumulated over two calls, a container's own field name and
   annotations restored at its End although others were pending inside it *)
Definition ex_nested : list wcall :=
  [CBeginStruct; CFieldName ta; CAnnotation tb; CBeginList; CAnnotation ta; CEndList;
   CFieldName tb; CFieldName ta; CAnnotation ta; CAnnotations [tb; ta]; CNull; CEndStruct; CFinish].
Example C12_ex_nested_ok : Forall call_ok ex_nested.
Proof. repeat constructor; apply tok_ok_text; reflexivity. Qed.
Example C12_ex_nested :
  run_ex ex_nested =
    Some ([true; true; true; true; true; true; true; true; true; true; true; true; true],
          Some [VStruct [(SymText [97], VAnn [SymText [98]] (VList []));
                         (SymText [97], VAnn [SymText [97]; SymText [98]; SymText [97]] (VNull 1))]],
          Some [VStruct [(SymText [97], VAnn [SymText [98]] (VList []));
                         (SymText [97], VAnn [SymText [97]; SymText [98]; SymText [97]] (VNull 1))]]).
Proof. vm_compute. reflexivity. Qed.

(* a misuse that poisons the writer: a value in a struct without a field name; the final Finish fails, the
   theorem's premise is false and nothing is claimed (the successful calls alone leave a struct open) *)
Example C12_ex_poisoned :
  run_ex [CBeginStruct; CInt 1; CEndStruct; CFinish] = Some ([true; false; false; false], None, None).
Proof. vm_compute. reflexivity. Qed.

(* the premise [final_finish_ok] on an example *)
Example C12_ex_nested_premise :
  match drive_results (new_writer None) ex_nested with
  | Ok (_, oks) => final_finish_ok ex_nested oks
  | _ => False
  end.
Proof. vm_compute. exact I. Qed.
