(* C07 (binary reader) — an error is permanent and a failing Next has recorded it.
   Statements only; every proof is [exact <lemma>]. *)
From Coq Require Import String List NArith ZArith Bool.
From IonV Require Import Base.Wire Bin.Bits Data.Ion Bin.BitStream Bin.BinReader Bin.BinReaderP.
Import ListNotations.
Open Scope N_scope.

(* once Err() is set, every API call leaves the reader state untouched ... *)
Theorem C07bin_state_untouched : forall ts r o, r_err r = true -> fst (r_op ts r o) = r.
Proof. exact r_op_err_state. Qed.
(* ... Next answers false ... *)
Theorem C07bin_next_false : forall ts r, r_err r = true -> snd (r_op ts r ONext) = Some [70].
Proof. exact r_op_err_next. Qed.
(* ... and Err() keeps answering the error *)
Theorem C07bin_err_stays : forall ts r, r_err r = true -> snd (r_op ts r OErr) = Some [101; 49].
Proof. exact r_op_err_err. Qed.
(* every call from such a state: unchanged state, and an answer that depends on that state only *)
Theorem C07bin_every_call : forall ts r o, r_err r = true -> r_op ts r o = (r, Some (sticky_tok ts r o)).
Proof. exact r_op_err. Qed.

(* lifted over programs: once the error is set at some point of a run (p1 ran without panic and
   ended in a state with Err() set), whatever follows (p2) finds the same state; in particular every
   later Next answers F and every later Err answers e1 *)
Theorem C07bin_permanent : forall ts p1 p2 r r1 tr1,
  r_run_ok ts r p1 = Some (r1, tr1) -> r_err r1 = true ->
  r_run ts r (p1 ++ p2) [] = (r1, tr1 ++ map (sticky_tok ts r1) p2).
Proof. exact r_run_err_after. Qed.
Theorem C07bin_sticky_next : forall ts r, sticky_tok ts r ONext = [70].
Proof. exact (fun _ _ => eq_refl). Qed.
Theorem C07bin_sticky_err : forall ts r, sticky_tok ts r OErr = [101; 49].
Proof. exact (fun _ _ => eq_refl). Qed.

(* Next returning false means: end of the current container / stream, or an error that Err() reports *)
Theorem C07bin_false_is_recorded : forall ts r r',
  r_next ts r = (r', Ok false) -> r_eof r' = true \/ r_err r' = true.
Proof. exact r_next_false_recorded. Qed.

(* the hypotheses are satisfiable: a negative zero (0x30) after the version marker is an error;
   a list whose declared length exceeds the input fails in StepOut, which records the error *)
Example C07bin_witness :
  let ts := fun _ : list N => Ok tt in
  r_err (fst (r_run ts (r_init [224; 1; 0; 234; 48] false) [ONext] [])) = true /\
  join_sp (snd (r_run ts (r_init [224; 1; 0; 234; 179] false)
                  [ONext; OStepIn; OStepOut; OErr; OStepOut; ONext; OErr] []))
  = s "T ok err e1 err F e1".
Proof. vm_compute. split; reflexivity. Qed.
