(* C01text2.v — C01, TEXT half, continued (Props/C01text.v has the compact-mode theorems for an arbitrary [formats]
   oracle).  Two limitations of C01text.v are removed here:

   1. The oracle is instantiated where a model exists.  [std_fmt ff] (Text/WriteSpellStd.v) prints decimals with the model
      of NewDecimal + Decimal.String ([fmt_dec_go], Num/Decimal.v) and timestamps with the model of Timestamp.String on the
      timestamp the binary reader model finds in the body ([fmt_ts_std], Num/Timestamp.v); only strconv.FormatFloat
      remains an input ([ff]).  The hypotheses [dec_fmt_ok] / [ts_fmt_ok] of C01text.v become THEOREMS:
      - [C01text_dec_fmt_ok]: for every decimal an ion.Decimal can hold ([dec_std_ok]: int32 exponent, negative-zero flag
        only on coefficient 0) the text is a plain decimal literal of the grammar that ParseDecimal maps back to the decimal;
      - [C01text_ts_fmt_ok]: for the binary body [ts_body t] of every well-formed timestamp ([wf_ts], the quantifier of C15)
        the text is a timestamp literal of the grammar whose value, BY THE SPECIFICATION DECODER's own calendar and field
        encoders, is that body ([C01text_ts_body]), and the body is what the binary Writer model emits after the type
        descriptor; the reader presents the timestamp's own eleven fields ([C01text_std_reads_timestamp]).
      Hence [C01text_write_then_read_std]: hypotheses on the VALUES only, plus [float_text_ok] for finite non-zero floats.
   2. Pretty mode (TextWriterPretty): [C01text_write_then_read_pretty] (any oracle) and [..._pretty_std]; the bytes are
      [wtp_stream] of Text/WriteSpellPretty.v (LF + tabs between members, `: ` after a field name, `[]` `()` `{}` for empty
      containers, nothing after `::`), which is a spelling of the same value tree with whitespace runs in the slots of
      Text/SpellTree.v.

   Statements only; proofs in Text/WriteSpellTs.v, Text/WriteSpellDec.v, Text/WriteSpellStd.v,
   Text/WriteSpellPrettyOut.v, Text/WriteSpellPrettyTree.v.  The example forest at the end exercises every theorem; its
   compact and pretty texts below were also compared byte for byte with the real Writer (harness command tw, opts 0 / 2). *)
From Coq Require Import String List NArith ZArith Bool Lia.
From IonV Require Import Base.Wire Base.Utf8 Data.Ion Num.Float Num.Decimal Num.Calendar Num.Timestamp Num.TimestampR Num.TimestampT
  Bin.Bits Bin.BinWriter Bin.BitStream Bin.BinReader
  Text.TextOut Text.TextWriter Text.TextRoundtrip Text.Tokenizer Text.Skipper Text.TextReader Text.TextNum Text.SpecText
  Text.SpellBase Text.SpellWs Text.SpellNum Text.SpellTs Text.SpellStream Text.SpellTree Text.SpellTreeEx
  Text.WriteSpell Text.WriteSpellOut Text.WriteSpellScalar Text.WriteSpellTree Text.WriteSpellStream
  Text.WriteSpellTsDef Text.WriteSpellTs Text.WriteSpellDec
  Text.WriteSpellPretty Text.WriteSpellPrettyOut Text.WriteSpellPrettyTree Text.WriteSpellStd.
Import ListNotations.
Open Scope N_scope.

(* ---- 1a. timestamps ------------------------------------------------------------------------------------------------------ *)
(* the body of a well-formed timestamp: what the specification decoder answers on the literal Timestamp.String prints
   ([shape_of t] is the spelling of C15_text_valid_literal), and what binaryWriter.WriteTimestamp emits after the tag *)
Theorem C01text_ts_body : forall t, wf_ts t ->
  SpellTs.spec_value (shape_of t) = VTimestamp (ts_body t) /\
  ts_write_bin t = append_tag [] 96 (N.of_nat (length (ts_body t))) ++ ts_body t.
Proof. exact ts_body_spec. Qed.
Print Assumptions C01text_ts_body.
(* ReadTimestamp (patched tree) on the body, with the length the text Writer model is given *)
Theorem C01text_ts_read_body : forall t, wf_ts t ->
  read_ts_body patched (N.of_nat (length (ts_body t))) (ts_body t) = Ok t.
Proof. exact read_body_std. Qed.
Print Assumptions C01text_ts_read_body.
(* the hypothesis of C01text.v, discharged *)
Theorem C01text_ts_fmt_ok : forall F t, fmt_ts F = fmt_ts_std -> wf_ts t -> ts_fmt_ok F (ts_body t).
Proof. exact ts_fmt_ok_std. Qed.
Print Assumptions C01text_ts_fmt_ok.

(* ---- 1b. decimals --------------------------------------------------------------------------------------------------------- *)
(* with the real conversion NewDecimal(coef, int32 exp, negZero) *)
Theorem C01text_dec_fmt_ok : forall F d, fmt_dec F = fmt_dec_go -> dec_std_ok d -> dec_fmt_ok F d.
Proof. exact dec_format_go_fmt_ok. Qed.
Print Assumptions C01text_dec_fmt_ok.
(* with the record conversion [cv] of C01text.v (scale := - exp without int32 wrap: the text differs from Go's only at
   exponent -2147483648, e.g. 1.2d-2147483647 for Go's 12d-2147483648; both are read back as the same decimal) *)
Theorem C01text_dec_fmt_ok_cv : forall F d, fmt_dec F = fmt_dec_std -> dec_std_ok d -> dec_fmt_ok F d.
Proof. exact dec_format_fmt_ok. Qed.
Print Assumptions C01text_dec_fmt_ok_cv.
(* no hypothesis on the flag: NewDecimal drops a negative-zero flag on a non-zero coefficient *)
Theorem C01text_dec_go_literal : forall d, (-2147483648 <= d_exp d <= 2147483647)%Z ->
  (exists n, plain_num n /\ num_kind n = NKDecimal /\ fmt_dec_go d = num_text n) /\
  PD (fmt_dec_go d) = Ok {| d_coef := d_coef d; d_exp := d_exp d; Ion.d_negzero := Ion.d_negzero d && (d_coef d =? 0)%Z |}.
Proof. exact dec_format_go_literal. Qed.
Print Assumptions C01text_dec_go_literal.

(* ---- 1c. the headline with the instantiated oracle, compact mode ------------------------------------------------------- *)
Theorem C01text_wf_std : forall ff vs, Forall (wf_top_std ff) vs -> Forall (wf_top (std_fmt ff)) vs.
Proof. exact wf_top_of_std. Qed.
Print Assumptions C01text_wf_std.
Theorem C01text_write_then_read_std : forall ff quiet vs, Forall (wf_top_std ff) vs ->
  exists w oks, tw_drive (std_fmt ff) (new_text_writer None false quiet) (calls_of_stream vs) = Ok (w, oks) /\
                forallb (fun b => b) oks = true /\
                sink_bytes (tw_out w) = wt_stream (std_fmt ff) quiet vs /\
                tops_spell PD PT LSys (sink_bytes (tw_out w)) (tvs (std_fmt ff) vs) /\
                x_traverse PD PT (sink_bytes (tw_out w)) false = ttrace (tvs (std_fmt ff) vs).
Proof. exact write_then_read_std. Qed.
Print Assumptions C01text_write_then_read_std.
(* what the trace says about the two instantiated kinds: the decimal itself; the text Timestamp.String and the
   timestamp's own fields (year .. second, nanoseconds, offset minutes, offset kind, precision, fraction digits) *)
Theorem C01text_std_reads_decimal : forall ff d, scalar_xv (std_fmt ff) (VDecimal d) = XDecimal d.
Proof. exact std_reads_decimal. Qed.
Print Assumptions C01text_std_reads_decimal.
Theorem C01text_std_reads_timestamp : forall ff t, wf_ts t ->
  scalar_bytes (std_fmt ff) (VTimestamp (ts_body t)) = ts_format t /\
  scalar_xv (std_fmt ff) (VTimestamp (ts_body t)) = XTimestamp (show_tuple (Timestamp.ts_fields t)).
Proof. exact std_reads_timestamp. Qed.
Print Assumptions C01text_std_reads_timestamp.

(* ---- 2. pretty mode ------------------------------------------------------------------------------------------------------------ *)
Theorem C01text_writer_output_pretty : forall F quiet vs, Forall (wf_value F) vs ->
  exists w oks, tw_drive F (new_text_writer None true quiet) (calls_of_stream vs) = Ok (w, oks) /\
                forallb (fun b => b) oks = true /\ sink_bytes (tw_out w) = wtp_stream F quiet vs.
Proof. exact forest_written_pretty. Qed.
Print Assumptions C01text_writer_output_pretty.
Theorem C01text_value_spells_pretty : forall F v, wf_value F v -> forall i pa, Forall wf_sym pa ->
  no_cr (wtp F i pa v) /\
  forall ctx, (ctx = [] -> top_ok_ann pa v) ->
  exists fol, fol_ok fol /\ tspell PD PT LSys ctx (wtp F i pa v) fol (tv F pa v).
Proof. exact value_spells_pretty. Qed.
Print Assumptions C01text_value_spells_pretty.
Theorem C01text_stream_spells_pretty : forall F quiet vs, Forall (wf_top F) vs ->
  tops_spell PD PT LSys (wtp_stream F quiet vs) (tvs F vs) /\ no_cr (wtp_stream F quiet vs).
Proof. exact stream_spells_pretty. Qed.
Print Assumptions C01text_stream_spells_pretty.
Theorem C01text_write_then_read_pretty : forall F quiet vs, Forall (wf_top F) vs ->
  exists w oks, tw_drive F (new_text_writer None true quiet) (calls_of_stream vs) = Ok (w, oks) /\
                forallb (fun b => b) oks = true /\
                sink_bytes (tw_out w) = wtp_stream F quiet vs /\
                tops_spell PD PT LSys (sink_bytes (tw_out w)) (tvs F vs) /\
                x_traverse PD PT (sink_bytes (tw_out w)) false = ttrace (tvs F vs).
Proof. exact write_then_read_pretty. Qed.
Print Assumptions C01text_write_then_read_pretty.
Theorem C01text_write_then_read_pretty_std : forall ff quiet vs, Forall (wf_top_std ff) vs ->
  exists w oks, tw_drive (std_fmt ff) (new_text_writer None true quiet) (calls_of_stream vs) = Ok (w, oks) /\
                forallb (fun b => b) oks = true /\
                sink_bytes (tw_out w) = wtp_stream (std_fmt ff) quiet vs /\
                tops_spell PD PT LSys (sink_bytes (tw_out w)) (tvs (std_fmt ff) vs) /\
                x_traverse PD PT (sink_bytes (tw_out w)) false = ttrace (tvs (std_fmt ff) vs).
Proof. exact write_then_read_pretty_std. Qed.
Print Assumptions C01text_write_then_read_pretty_std.

(* ---- the hypotheses are satisfiable by a non-trivial object ------------------------------------------------------------------- *)
(* the float oracle: strconv.FormatFloat of 1.0.  Timestamps: ex_ts1 = 2000-02-29T23:59:59.120+05:30 (offset and three
   fraction digits), ex_ts4 = 9999-12-31T23:59:59.999999990-23:59 (UTC instant in year 10000), ex_ts5 =
   2000-03-01T00:00-00:00 (unknown offset).  Decimals: negative zero with and without exponent, a 30-digit coefficient with
   exponents +-2*10^9, the ends of the int32 range. *)
Definition ex2_ff : N -> list N := fun bits => if bits =? 4607182418800017408 then s "1e+00" else s "?".
Definition sy (x : string) : symv := SymText (s x).
Definition big30 : Z := 123456789012345678901234567890.
Definition ex2_forest : list value :=
  [ VAnn [sy "a b"; sy "name"]
      (VStruct [ (sy "x y", VList [VTimestamp (ts_body ex_ts1); VDecimal (mkd 0 (-3) true); VSexp []; VStruct []; VAnn [sy "e"] (VList [])]);
                 (sy "$7", VAnn [SymSid 4]
                    (VSexp [VDecimal (mkd big30 2000000000 false); VDecimal (mkd (- big30) (-2000000000) false); VSymbol (sy "+");
                            VStruct [(sy "k", VAnn [sy "t"; sy "null"] (VTimestamp (ts_body ex_ts4)))]])) ]);
    VList [];
    VSexp [VDecimal (mkd (-12345) (-3) false); VDecimal (mkd 12 (-2147483648) false); VDecimal (mkd 1 2147483647 false);
           VDecimal (mkd 0 0 true); VFloat 4607182418800017408; VFloat 9221120237041090561; VFloat (2 ^ 63)];
    VTimestamp (ts_body ex_ts5);
    VAnn [sy "$ion_symbol_table"] (VList [VAnn [sy "$ion_symbol_table"] (VStruct [(sy "symbols", VList [VString (s "a")])])]) ].

Ltac sym_ok := cbn [wf_sym]; first [split; [repeat constructor|reflexivity] | lia].
Ltac dec_ok := split; [cbn; first [discriminate | reflexivity | intros _; reflexivity]|cbn; lia].
Example C01text2_ex_wf : Forall (wf_top_std ex2_ff) ex2_forest.
Proof.
  repeat (apply Forall_cons || apply Forall_nil); (split; [|cbn; try exact I; reflexivity]); cbn [wf_value_std wf_scalar_std].
  - split; [repeat (constructor; [sym_ok|]); constructor|].
    split; [sym_ok|]. split.
    { split; [exists ex_ts1; split; [exact ex_ts1_wf|reflexivity]|]. split; [dec_ok|]. split; [exact I|]. split; [exact I|].
      split; [|exact I]. split; [repeat (constructor; [sym_ok|]); constructor|exact I]. }
    split; [sym_ok|]. split; [|exact I].
    split; [repeat (constructor; [sym_ok|]); constructor|].
    split; [dec_ok|]. split; [dec_ok|]. split; [sym_ok|]. split; [|exact I].
    split; [sym_ok|]. split; [|exact I]. split; [repeat (constructor; [sym_ok|]); constructor|].
    exists ex_ts4. split; [exact ex_ts4_wf|reflexivity].
  - exact I.
  - split; [dec_ok|]. split; [dec_ok|]. split; [dec_ok|]. split; [dec_ok|].
    split.
    { right; right.
      exists {| n_neg := false; n_iw := [49]; n_ip := [49]; n_dot := false; n_fw := []; n_fp := []; n_exp := Some (101, [43], [48]) |}.
      split; [|split; reflexivity]. split; [|split; reflexivity]. unfold num_wf; cbn.
      split; [apply usd; [reflexivity|constructor]|]. split; [right; discriminate|]. split; [split; reflexivity|].
      split; [now left|]. split; [right; now left|]. split; [discriminate|repeat constructor]. }
    split; [left; reflexivity|]. split; [|exact I].
    right; right. exact (proj2 (float_zero_ok (std_fmt ex2_ff))).
  - exists ex_ts5. split; [exact ex_ts5_wf|reflexivity].
  - split; [repeat (constructor; [sym_ok|]); constructor|]. split; [|exact I].
    split; [repeat (constructor; [sym_ok|]); constructor|]. split; [sym_ok|]. split; [|exact I].
    split; [|exact I]. split; [repeat constructor|reflexivity].
Qed.

(* the binary bodies of the three timestamps, as the binary Writer model emits them *)
Example C01text2_ex_bodies :
  map (fun t => SpellStream.show_str (xhex (ts_body t))) [ex_ts1; ex_ts4; ex_ts5] =
  ["x02ca0fd0829d929dbbc378"; "x4b9f4e90818197babbc93b9ac9f6"; "xc00fd083818080"]%string.
Proof. vm_compute. reflexivity. Qed.
(* the hypotheses discharged on these objects: Examples of C01text_ts_fmt_ok / C01text_ts_body / C01text_ts_read_body /
   C01text_dec_fmt_ok / C01text_dec_go_literal / C01text_std_reads_* *)
Example C01text2_ex_ts : ts_fmt_ok (std_fmt ex2_ff) (ts_body ex_ts1) /\ ts_fmt_ok (std_fmt ex2_ff) (ts_body ex_ts4) /\
  SpellTs.spec_value (shape_of ex_ts4) = VTimestamp (ts_body ex_ts4) /\
  read_ts_body patched 14 (ts_body ex_ts4) = Ok ex_ts4 /\
  scalar_bytes (std_fmt ex2_ff) (VTimestamp (ts_body ex_ts1)) = s "2000-02-29T23:59:59.120+05:30" /\
  scalar_xv (std_fmt ex2_ff) (VTimestamp (ts_body ex_ts1)) = XTimestamp (s "2000,2,29,23,59,59,120000000,330,2,6,3").
Proof.
  split; [exact (ts_fmt_ok_std (std_fmt ex2_ff) ex_ts1 eq_refl ex_ts1_wf)|]. split; [exact (ts_fmt_ok_std (std_fmt ex2_ff) ex_ts4 eq_refl ex_ts4_wf)|].
  split; [exact (proj1 (ts_body_spec ex_ts4 ex_ts4_wf))|]. split; [exact (read_body_std ex_ts4 ex_ts4_wf)|].
  destruct (std_reads_timestamp ex2_ff ex_ts1 ex_ts1_wf) as [E1 E2]. rewrite E1, E2. split; vm_compute; reflexivity.
Qed.
Example C01text2_ex_dec :
  dec_fmt_ok (std_fmt ex2_ff) (mkd (- big30) (-2000000000) false) /\ dec_fmt_ok (std_fmt ex2_ff) (mkd 0 (-3) true) /\
  dec_fmt_ok (std_fmt ex2_ff) (mkd 12 (-2147483648) false) /\
  map (fun d => SpellStream.show_str (fmt_dec_go d))
      [mkd (- big30) (-2000000000) false; mkd 0 (-3) true; mkd 0 0 true; mkd 12 (-2147483648) false; mkd 5 0 true] =
  ["-1.23456789012345678901234567890d-1999999971"; "-0d-3"; "-0."; "12d-2147483648"; "5."]%string /\
  PD (fmt_dec_go (mkd 5 0 true)) = Ok (mkd 5 0 false).
Proof.
  split; [apply dec_format_go_fmt_ok; [reflexivity|dec_ok]|]. split; [apply dec_format_go_fmt_ok; [reflexivity|dec_ok]|].
  split; [apply dec_format_go_fmt_ok; [reflexivity|dec_ok]|]. split; [vm_compute; reflexivity|].
  exact (proj2 (dec_format_go_literal (mkd 5 0 true) ltac:(cbn; lia))).
Qed.

(* the exact text written: compact ... *)
Local Open Scope string_scope.
Definition nl : string := String (Ascii.ascii_of_N 10) "".
Definition tab : string := String (Ascii.ascii_of_N 9) "".
Example C01text2_ex_bytes_compact :
  SpellStream.show_str (wt_stream (std_fmt ex2_ff) false ex2_forest) =
  "'a b'::name::{'x y':[2000-02-29T23:59:59.120+05:30,-0d-3,(),{},e::[]],'$7':$4::(123456789012345678901234567890d2000000000 -1.23456789012345678901234567890d-1999999971 '+' {k:t::'null'::9999-12-31T23:59:59.999999990-23:59})}" ++ nl ++
  "[]" ++ nl ++
  "(-12.345 12d-2147483648 1d2147483647 -0. 1e+0 nan -0e+0)" ++ nl ++
  "2000-03-01T00:00-00:00" ++ nl ++
  "$ion_symbol_table::[$ion_symbol_table::{symbols:[""a""]}]" ++ nl.
Proof. vm_compute. reflexivity. Qed.
(* ... and pretty *)
Example C01text2_ex_bytes_pretty :
  SpellStream.show_str (wtp_stream (std_fmt ex2_ff) false ex2_forest) =
  "'a b'::name::{" ++ nl ++
  tab ++ "'x y': [" ++ nl ++
  tab ++ tab ++ "2000-02-29T23:59:59.120+05:30," ++ nl ++
  tab ++ tab ++ "-0d-3," ++ nl ++
  tab ++ tab ++ "()," ++ nl ++
  tab ++ tab ++ "{}," ++ nl ++
  tab ++ tab ++ "e::[]" ++ nl ++
  tab ++ "]," ++ nl ++
  tab ++ "'$7': $4::(" ++ nl ++
  tab ++ tab ++ "123456789012345678901234567890d2000000000" ++ nl ++
  tab ++ tab ++ "-1.23456789012345678901234567890d-1999999971" ++ nl ++
  tab ++ tab ++ "'+'" ++ nl ++
  tab ++ tab ++ "{" ++ nl ++
  tab ++ tab ++ tab ++ "k: t::'null'::9999-12-31T23:59:59.999999990-23:59" ++ nl ++
  tab ++ tab ++ "}" ++ nl ++
  tab ++ ")" ++ nl ++
  "}" ++ nl ++
  "[]" ++ nl ++
  "(" ++ nl ++
  tab ++ "-12.345" ++ nl ++
  tab ++ "12d-2147483648" ++ nl ++
  tab ++ "1d2147483647" ++ nl ++
  tab ++ "-0." ++ nl ++
  tab ++ "1e+0" ++ nl ++
  tab ++ "nan" ++ nl ++
  tab ++ "-0e+0" ++ nl ++
  ")" ++ nl ++
  "2000-03-01T00:00-00:00" ++ nl ++
  "$ion_symbol_table::[" ++ nl ++
  tab ++ "$ion_symbol_table::{" ++ nl ++
  tab ++ tab ++ "symbols: [" ++ nl ++
  tab ++ tab ++ tab ++ """a""" ++ nl ++
  tab ++ tab ++ "]" ++ nl ++
  tab ++ "}" ++ nl ++
  "]" ++ nl.
Proof. vm_compute. reflexivity. Qed.

(* the theorems applied to the example: both modes, and the (mode-independent) trace *)
Example C01text2_ex_roundtrip_compact :
  exists w oks, tw_drive (std_fmt ex2_ff) (new_text_writer None false false) (calls_of_stream ex2_forest) = Ok (w, oks) /\
                forallb (fun b => b) oks = true /\
                sink_bytes (tw_out w) = wt_stream (std_fmt ex2_ff) false ex2_forest /\
                x_traverse PD PT (sink_bytes (tw_out w)) false = ttrace (tvs (std_fmt ex2_ff) ex2_forest).
Proof.
  destruct (write_then_read_std ex2_ff false ex2_forest C01text2_ex_wf) as (w & oks & E & Hok & Hb & _ & Ht).
  exists w, oks. repeat split; assumption.
Qed.
Example C01text2_ex_roundtrip_pretty :
  exists w oks, tw_drive (std_fmt ex2_ff) (new_text_writer None true false) (calls_of_stream ex2_forest) = Ok (w, oks) /\
                forallb (fun b => b) oks = true /\
                sink_bytes (tw_out w) = wtp_stream (std_fmt ex2_ff) false ex2_forest /\
                tops_spell PD PT LSys (sink_bytes (tw_out w)) (tvs (std_fmt ex2_ff) ex2_forest) /\
                x_traverse PD PT (sink_bytes (tw_out w)) false = ttrace (tvs (std_fmt ex2_ff) ex2_forest).
Proof. exact (write_then_read_pretty_std ex2_ff false ex2_forest C01text2_ex_wf). Qed.
(* the intermediate pretty-mode theorems on the same forest *)
Example C01text2_ex_pretty_steps :
  (exists w oks, tw_drive (std_fmt ex2_ff) (new_text_writer None true true) (calls_of_stream ex2_forest) = Ok (w, oks) /\
                 forallb (fun b => b) oks = true /\ sink_bytes (tw_out w) = wtp_stream (std_fmt ex2_ff) true ex2_forest) /\
  (tops_spell PD PT LSys (wtp_stream (std_fmt ex2_ff) true ex2_forest) (tvs (std_fmt ex2_ff) ex2_forest) /\
   no_cr (wtp_stream (std_fmt ex2_ff) true ex2_forest)) /\
  Forall (fun v => exists fol, fol_ok fol /\ tspell PD PT LSys [CList] (wtp (std_fmt ex2_ff) 3 [sy "q"] v) fol (tv (std_fmt ex2_ff) [sy "q"] v)) ex2_forest.
Proof.
  pose proof (wf_top_of_std ex2_ff ex2_forest C01text2_ex_wf) as H.
  assert (Hv : Forall (wf_value (std_fmt ex2_ff)) ex2_forest) by (eapply Forall_impl; [|exact H]; intros v [Hv _]; exact Hv).
  split; [exact (forest_written_pretty (std_fmt ex2_ff) true ex2_forest Hv)|].
  split; [exact (stream_spells_pretty (std_fmt ex2_ff) true ex2_forest H)|].
  eapply Forall_impl; [|exact Hv]. intros v Hw.
  assert (Hq : Forall wf_sym [sy "q"]) by (constructor; [split; [repeat constructor|reflexivity]|constructor]).
  apply (proj2 (value_spells_pretty (std_fmt ex2_ff) v Hw 3%nat [sy "q"] Hq)). discriminate.
Qed.
Example C01text2_ex_trace :
  SpellStream.show_str (join_sp (ttrace (tvs (std_fmt ex2_ff) ex2_forest))) =
  "T nil a[k612062.-1;k6e616d65.4;] y13 n0 ok T k782079.-1 a[] y11 n0 ok T nil a[] y6 n0 T2000,2,29,23,59,59,120000000,330,2,6,3 T nil a[] y5 n0 D0e-3z1 T nil a[] y12 n0 ok F ok T nil a[] y13 n0 ok F ok T nil a[k65.-1;] y11 n0 ok F ok F ok T k2437.-1 a[k6e616d65.4;] y12 n0 ok T nil a[] y5 n0 D123456789012345678901234567890e2000000000z0 T nil a[] y5 n0 D-123456789012345678901234567890e-2000000000z0 T nil a[] y7 n0 k2b.-1 T nil a[] y13 n0 ok T k6b.-1 a[k74.-1;k6e756c6c.-1;] y6 n0 T9999,12,31,23,59,59,999999990,-1439,2,6,9 F ok F ok F ok T nil a[] y11 n0 ok F ok T nil a[] y12 n0 ok T nil a[] y5 n0 D-12345e-3z0 T nil a[] y5 n0 D12e-2147483648z0 T nil a[] y5 n0 D1e2147483647z0 T nil a[] y5 n0 D0e0z1 T nil a[] y4 n0 Ftext31652b30 T nil a[] y4 n0 F9221120237041090560 T nil a[] y4 n0 Ftext2d30652b30 F ok T nil a[] y6 n0 T2000,3,1,0,0,0,0,0,0,4,0 T nil a[k24696f6e5f73796d626f6c5f7461626c65.3;] y11 n0 ok T nil a[k24696f6e5f73796d626f6c5f7461626c65.3;] y13 n0 ok T k73796d626f6c73.7 a[] y11 n0 ok T nil a[] y8 n0 Sx61 F ok F ok F ok F e0 F e0 F e0".
Proof. vm_compute. reflexivity. Qed.
(* cross-check with the independent specification decoder on the PRETTY text: the same forest, the timestamps as the
   binary bodies of C01text2_ex_bodies *)
Example C01text2_ex_spec :
  option_map (fun v => SpellStream.show_str (show_values v)) (tdecode (wtp_stream (std_fmt ex2_ff) false ex2_forest)) =
  Some "at612062 at6e616d65 { ft782079 [ T02ca0fd0829d929dbbc378 D0e-3z1 ( ) { } at65 [ ] ] ft2437 at6e616d65 ( D123456789012345678901234567890e2000000000z0 D-123456789012345678901234567890e-2000000000z0 Yt2b { ft6b at74 at6e756c6c T4b9f4e90818197babbc93b9ac9f6 } ) } [ ] ( D-12345e-3z0 D12e-2147483648z0 D1e2147483647z0 D0e0z1 F4607182418800017408 F9221120237041090560 F9223372036854775808 ) Tc00fd083818080 at24696f6e5f73796d626f6c5f7461626c65 [ at24696f6e5f73796d626f6c5f7461626c65 { ft73796d626f6c73 [ Sx61 ] } ]".
Proof. vm_compute. reflexivity. Qed.
