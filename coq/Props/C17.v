(* C17 — Unmarshal either fills the target faithfully or returns an error.
   Statements only; every proof is [exact <lemma>]. *)
From Coq Require Import String List NArith ZArith.
From IonV Require Import Base.Wire Data.Ion Num.Float Go.GoTypes Go.Fields Go.Decode Go.MarshalSpec Go.MarshalP Go.DecodeSafeP Go.RoundtripP.
Import ListNotations.
Open Scope N_scope.

(* T17.1 — an Ion int into any of the 11 integer kinds: stored exactly when it is in the range
   of the kind, an error otherwise; no third outcome *)
Theorem C17_int_exact : forall k z,
  decode_to (TyInt k) (VInt z) = if in_range k z then Ok (GInt z) else Err.
Proof. exact decode_int_exact. Qed.
Theorem C17_int_no_wrap : forall k z,
  (z < ik_min k \/ ik_max k < z)%Z -> decode_to (TyInt k) (VInt z) = Err.
Proof. exact decode_int_no_wrap. Qed.
Theorem C17_uint_exact : forall k z g,
  decode_to (TyInt k) (VInt z) = Ok g -> g = GInt z /\ (ik_min k <= z <= ik_max k)%Z.
Proof. exact decode_int_ok. Qed.
Theorem C17_bigint_exact : forall z, decode_to TyBigInt (VInt z) = Ok (GBigInt z).
Proof. exact decode_bigint_exact. Qed.

(* T17.2 — floats: float32 gets the IEEE narrowing unless MaxFloat32 < |x| <= MaxFloat64 (error) *)
Theorem C17_float32_exact : forall b,
  decode_to TyF32 (VFloat b) = if overflow_f32 b then Err else Ok (GFloat (narrow b)).
Proof. exact decode_f32_exact. Qed.
Theorem C17_float64_exact : forall b, decode_to TyF64 (VFloat b) = Ok (GFloat b).
Proof. exact decode_f64_exact. Qed.

(* T17.3 — strings, symbols with text, lobs, bools *)
Theorem C17_string_exact : forall x,
  decode_to TyString (VString x) = Ok (GString x) /\ decode_to TyString (VSymbol (SymText x)) = Ok (GString x).
Proof. intro x. exact (conj (decode_string_exact x) (decode_symbol_text x)). Qed.
Theorem C17_bytes_exact : forall b,
  decode_to (TySlice (TyInt U8)) (VBlob b) = Ok (GBytes (Some b)) /\
  decode_to (TySlice (TyInt U8)) (VClob b) = Ok (GBytes (Some b)).
Proof. exact decode_bytes_exact. Qed.
Theorem C17_bool_exact : forall b, decode_to TyBool (VBool b) = Ok (GBool b).
Proof. exact decode_bool_exact. Qed.

(* T17.4 — any type mismatch between a scalar value and a scalar target is an error *)
Theorem C17_scalar_mismatch_is_error : forall t v,
  scalar_ty t = true -> scalar_val v = true -> same_class t v = false -> decode_to t v = Err.
Proof. exact scalar_mismatch_is_error. Qed.
Theorem C17_scalar_null_zero : forall t c, scalar_ty t = true -> decode_to t (VNull c) = Ok (zero t).
Proof. exact decode_scalar_null. Qed.

(* T17.5 — the property on the scalar matrix, in full: for every scalar target and every scalar value the
   outcome is Ok g with g representing v (the zero value for a null), or Err; never Panic (the symbol-without-
   text exclusion of the first version is gone with fix 362cf8a) *)
Theorem C17_scalar_faithful : forall t v,
  scalar_ty t = true -> scalar_val v = true -> scalar_outcome_ok t v.
Proof. exact scalar_faithful. Qed.
Theorem C17_symbol_without_text_is_error : forall n, decode_to TyString (VSymbol (SymSid n)) = Err.
Proof. exact decode_symbol_no_text_is_error. Qed.

(* T17.6 — SymbolToken targets and the documented annotation wrapper *)
Theorem C17_symtok_target : forall y, decode_to TySymTok (VSymbol y) = Ok (GSymTok (tok_of_symv y)).
Proof. exact symtok_target_exact. Qed.
Theorem C17_doc_annotations :
  (decode_to doc_ann_struct (VAnn [SymText (s "age"%string)] (VInt 10)) =
   Ok (GStruct [GInt 10; GSlice (Some [GString (s "age"%string)])])) /\
  (decode_to doc_ann_struct (VAnn [SymSid 0] (VInt 10)) = Err).
Proof. exact (conj doc_annotations_ok doc_annotations_no_text_is_error). Qed.

(* T17.8 — the whole plain universe (Go/MarshalSpec.v pty: every kind but interface{}, nested to any depth;
   struct fields exported and not embedded, any tags): for every plain type t, every well-typed current
   content of the target, every well-formed Ion value and every fuel above the nesting depth of t, decodeTo
   returns a value of type t or an error: it never panics and never runs out of fuel *)
Theorem C17_plain_safe : forall t, pty t = true ->
  forall fuel cur v, (ty_depth t < fuel)%nat -> has_type cur t = true -> wfv v = true ->
  safe_out t (decto fuel t cur false v).
Proof. exact decode_safe. Qed.
(* ... in particular Unmarshal into a zero value, with the fuel decode_to computes (fuel adequacy) *)
Theorem C17_plain_unmarshal_safe : forall t v, pty t = true -> wfv v = true -> safe_out t (decode_to t v).
Proof. exact decode_to_safe. Qed.

(* T17.9 — faithfulness on containers: decoding the documented Ion image [ion_of t g] of ANY value g of a type of
   the round-trip universe (slices, arrays, maps, pointers, structs of the flat kinds, nested to any depth)
   stores exactly g *)
Theorem C17_decode_image_faithful : forall t, rty t = true ->
  forall g f, has_type g t = true -> (ty_depth t < f)%nat -> decto f t (zero t) false (ion_of t g) = Ok g.
Proof. exact decode_ion_of. Qed.

(* T17.7 — Decoder.Decode over a stream: one value per call, in order *)
Theorem C17_decode_any_total : forall v, exists g, decode_any v = g.
Proof. intro v. exists (decode_any v). reflexivity. Qed.
Theorem C17_decoder_stream_order : forall vs,
  length (decoder_stream vs) = length vs /\
  forall i, nth_error (decoder_stream vs) i = option_map decode_any (nth_error vs i).
Proof. exact decoder_stream_order. Qed.

(* non-vacuity *)
Example C17_ex1 : decode_to (TyInt I8) (VInt 128) = Err /\ decode_to (TyInt I8) (VInt (-128)) = Ok (GInt (-128)).
Proof. split; reflexivity. Qed.
Example C17_ex2 : decode_to (TyInt U64) (VInt 18446744073709551616) = Err.
Proof. reflexivity. Qed.
Example C17_ex3 : decode_to TyF32 (VFloat 5183643170566569985) = Err.      (* MaxFloat32 + 1ulp(float64) *)
Proof. vm_compute. reflexivity. Qed.
Example C17_ex5 : pty (TyMap (TySlice (TyStruct (FCons (s "A"%string) true false (s "a,omitempty"%string) (TyPtr (TyInt I8)) FNil)))) = true.
Proof. reflexivity. Qed.
Example C17_ex4 : decode_to tok_ann_struct (VAnn [SymText (s "age"%string)] (VInt 10)) =
  Ok (GStruct [GInt 10; GSlice (Some [GSymTok (tok_text (s "age"%string))])]).
Proof. exact tok_annotations_ok. Qed.
