(* C17 — Unmarshal either fills the target faithfully or returns an error.
   Statements only; every proof is [exact <lemma>]. *)
From Coq Require Import String List NArith ZArith.
From IonV Require Import Base.Wire Data.Ion Num.Float Go.GoTypes Go.Fields Go.Decode Go.MarshalSpec Go.MarshalP.
Import ListNotations.
Open Scope N_scope.

(* T17.1 — an Ion int into any of the 11 integer kinds: stored exactly when it is in the range
   of the kind, an error otherwise; no third outcome *)
Theorem C17_int_exact : forall k z,
  decode_to (TyInt k) (VInt z) = if in_range k z then Ok (GInt z) else Err.
Proof. exact decode_int_exact. Qed.
Theorem C17_int_no_wrap : forall k z,
  (z < ik_min k \/ ik_max k < z)%Z -> decode_to (TyInt k) (VInt z) = Err.
Proof. exact decode_int_no_wrap. Qed.
Theorem C17_uint_exact : forall k z g,
  decode_to (TyInt k) (VInt z) = Ok g -> g = GInt z /\ (ik_min k <= z <= ik_max k)%Z.
Proof. exact decode_int_ok. Qed.
Theorem C17_bigint_exact : forall z, decode_to TyBigInt (VInt z) = Ok (GBigInt z).
Proof. exact decode_bigint_exact. Qed.

(* T17.2 — floats: float32 gets the IEEE narrowing unless MaxFloat32 < |x| <= MaxFloat64 (error) *)
Theorem C17_float32_exact : forall b,
  decode_to TyF32 (VFloat b) = if overflow_f32 b then Err else Ok (GFloat (narrow_go b)).
Proof. exact decode_f32_exact. Qed.
Theorem C17_float64_exact : forall b, decode_to TyF64 (VFloat b) = Ok (GFloat b).
Proof. exact decode_f64_exact. Qed.

(* T17.3 — strings, symbols with text, lobs, bools *)
Theorem C17_string_exact : forall x,
  decode_to TyString (VString x) = Ok (GString x) /\ decode_to TyString (VSymbol (SymText x)) = Ok (GString x).
Proof. intro x. exact (conj (decode_string_exact x) (decode_symbol_text x)). Qed.
Theorem C17_bytes_exact : forall b,
  decode_to (TySlice (TyInt U8)) (VBlob b) = Ok (GBytes (Some b)) /\
  decode_to (TySlice (TyInt U8)) (VClob b) = Ok (GBytes (Some b)).
Proof. exact decode_bytes_exact. Qed.
Theorem C17_bool_exact : forall b, decode_to TyBool (VBool b) = Ok (GBool b).
Proof. exact decode_bool_exact. Qed.

(* T17.4 — any type mismatch between a scalar value and a scalar target is an error *)
Theorem C17_scalar_mismatch_is_error : forall t v,
  scalar_ty t = true -> scalar_val v = true -> same_class t v = false -> decode_to t v = Err.
Proof. exact scalar_mismatch_is_error. Qed.
Theorem C17_scalar_null_zero : forall t c, scalar_ty t = true -> decode_to t (VNull c) = Ok (zero t).
Proof. exact decode_scalar_null. Qed.

(* T17.5 — the property on the scalar matrix.  Full statement: C17_scalar_faithful_stmt (Go/MarshalP.v):
   forall scalar t and scalar v, the outcome is Ok g with g representing v (or the zero value for a
   null), or Err; never Panic.  It is FALSE of the faithful model: *)
Theorem C17_scalar_faithful_refuted : ~ C17_scalar_faithful_stmt.
Proof. exact scalar_faithful_refuted. Qed.
(* ... and true as soon as the one defect class is excluded: a symbol without text *)
Theorem C17_scalar_faithful_except_known : forall t v,
  scalar_ty t = true -> scalar_val v = true -> (forall n, v <> VSymbol (SymSid n)) -> scalar_outcome_ok t v.
Proof. exact scalar_faithful_except_known. Qed.

(* T17.6 — two more panics of the faithful model (not scalar targets) *)
Theorem C17_symtok_target_refuted : forall y, decode_to TySymTok (VSymbol y) = Panic.
Proof. exact symtok_target_panics. Qed.
Theorem C17_doc_annotations_refuted :
  decode_to doc_ann_struct (VAnn [SymText (s "age"%string)] (VInt 10)) = Panic.
Proof. exact doc_annotations_panics. Qed.

(* T17.7 — Decoder.Decode over a stream: one value per call, in order *)
Theorem C17_decode_any_total : forall v, exists g, decode_any v = g.
Proof. intro v. exists (decode_any v). reflexivity. Qed.
Theorem C17_decoder_stream_order : forall vs,
  length (decoder_stream vs) = length vs /\
  forall i, nth_error (decoder_stream vs) i = option_map decode_any (nth_error vs i).
Proof. exact decoder_stream_order. Qed.

(* non-vacuity *)
Example C17_ex1 : decode_to (TyInt I8) (VInt 128) = Err /\ decode_to (TyInt I8) (VInt (-128)) = Ok (GInt (-128)).
Proof. split; reflexivity. Qed.
Example C17_ex2 : decode_to (TyInt U64) (VInt 18446744073709551616) = Err.
Proof. reflexivity. Qed.
Example C17_ex3 : decode_to TyF32 (VFloat 5183643170566569985) = Err.      (* MaxFloat32 + 1ulp(float64) *)
Proof. vm_compute. reflexivity. Qed.
Example C17_ex4 : decode_to tok_ann_struct (VAnn [SymText (s "age"%string)] (VInt 10)) =
  Ok (GStruct [GInt 10; GSlice (Some [GSymTok (tok_text (s "age"%string))])]).
Proof. exact tok_annotations_ok. Qed.
