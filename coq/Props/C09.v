(* C09 — symbol tables assign and resolve symbol IDs as the Ion rules prescribe.
   Statements only; every proof is [exact <lemma>].

   Vocabulary (Sym/SymTab.v, Sym/SymTabP.v):
     lst_new imports locals          NewLocalSymbolTable
     builder_new imports             NewSymbolTableBuilder;  adds_state b xs = state after Add x1 .. Add xn
     effective_imports imports       the import list with the system table in front (processImports)
     offset_of imps k                sum of the max_ids of the imports before import k
     sum_max imps                    sum of all max_ids
     sh_wf                           len(symbols) <= maxID, the invariant of sst (every constructor keeps it)
     lst_wf t                        t's imports/offsets are what processImports computes, its imports
                                     are sh_wf, and sum_max + len(locals) < 2^64 (no uint64 wrap)
   Text "" is ion-go's representation of undefined text in Symbols(); lookups by
   name are stated for non-empty text, and what happens for "" is characterised
   (C09_find_empty, C09_builder_find_empty, the two _empty_refuted). *)
From Coq Require Import List NArith ZArith String.
From IonV Require Import Base.Wire Sym.SymTab Sym.SymTabP.
Import ListNotations.
Open Scope N_scope.

(* ---- the hypotheses are what the constructors establish ---------------------------------- *)
Theorem C09_wf_new : forall imports locals, Forall sh_wf imports ->
  sum_max (effective_imports imports) + lenN locals < two64 -> lst_wf (lst_new imports locals).
Proof. exact lst_wf_new. Qed.
Theorem C09_new_fields : forall imports locals, sum_max (effective_imports imports) < two64 ->
  l_imports (lst_new imports locals) = effective_imports imports /\ l_syms (lst_new imports locals) = locals.
Proof. exact lst_new_fields. Qed.
Theorem C09_wf_builder : forall imports xs, Forall sh_wf imports ->
  sum_max (effective_imports imports) + lenN xs < two64 -> lst_wf (adds_state (builder_new imports) xs).
Proof. exact lst_wf_adds. Qed.
Theorem C09_builder_fields : forall imports xs, sum_max (effective_imports imports) < two64 ->
  l_imports (adds_state (builder_new imports) xs) = effective_imports imports /\
  l_idx_empty (adds_state (builder_new imports) xs) = true.
Proof. exact adds_fields. Qed.
Theorem C09_effective_imports : forall imports, user_ion imports = false ->
  effective_imports imports = system_table :: imports.
Proof. exact effective_imports_system. Qed.
Theorem C09_wf_shared_new : forall name ver syms, sst_wf (sst_new name ver syms).
Proof. exact sst_wf_new. Qed.

(* ---- system symbols occupy ids 1..9 --------------------------------------------------------- *)
Theorem C09_system_symbols : forall t rest i, lst_wf t -> l_imports t = system_table :: rest ->
  1 <= i <= 9 -> lst_find_by_id t i = nth_N system_symbols (i - 1).
Proof. exact system_symbols_at. Qed.

(* ---- Adjust: exactly max_id slots, truncated or padded with undefined text ---------------- *)
Theorem C09_adjust : forall x m id, sh_wf x ->
  sh_find_by_id (sh_adjust x m) id = if id <=? m then sh_find_by_id x id else None.
Proof. exact sh_adjust_find_by_id. Qed.
Theorem C09_adjust_max : forall x m, sh_wf x -> sh_max (sh_adjust x m) = m.
Proof. exact sh_adjust_max. Qed.
Theorem C09_adjust_wf : forall x m, sh_wf x -> sh_wf (sh_adjust x m).
Proof. exact sh_wf_adjust. Qed.
Theorem C09_text_inside_slots : forall x id t, sh_wf x -> sh_find_by_id x id = Some t -> 1 <= id <= sh_max x.
Proof. exact sh_find_by_id_in_slot. Qed.

(* ---- slots: import k occupies (offset_k, offset_k + max_id_k], locals follow --------------- *)
Theorem C09_slots_import : forall t k imp j, lst_wf t ->
  nth_error (l_imports t) k = Some imp -> 1 <= j <= sh_max imp ->
  lst_find_by_id t (offset_of (l_imports t) k + j) = sh_find_by_id imp j.
Proof. exact find_by_id_import. Qed.
Theorem C09_slots_cover : forall imps id, 1 <= id <= sum_max imps ->
  exists k imp j, nth_error imps k = Some imp /\ 1 <= j <= sh_max imp /\ id = offset_of imps k + j.
Proof. exact slot_decompose. Qed.
Theorem C09_slots_order : forall imps k k' imp imp', (k < k')%nat ->
  nth_error imps k = Some imp -> nth_error imps k' = Some imp' ->
  offset_of imps k + sh_max imp <= offset_of imps k'.
Proof. exact offset_of_mono. Qed.
Theorem C09_slots_local : forall t j, lst_wf t -> j < lenN (l_syms t) ->
  lst_find_by_id t (sum_max (l_imports t) + 1 + j) = nth_N (l_syms t) j.
Proof. exact find_by_id_local. Qed.
Theorem C09_slots_above : forall t id, lst_wf t -> lst_max_id t < id -> lst_find_by_id t id = None.
Proof. exact find_by_id_above. Qed.
Theorem C09_max_id : forall t, lst_wf t -> lst_max_id t = sum_max (l_imports t) + lenN (l_syms t).
Proof. exact lst_max_id_spec. Qed.

(* ---- lookup by name: the lowest id carrying the text, inverted by lookup by id ------------- *)
Theorem C09_find_lowest : forall t x id, lst_wf t -> x <> [] -> lst_find_by_name t x = Some id ->
  1 <= id <= lst_max_id t /\ lst_find_by_id t id = Some x /\
  forall id', id' < id -> lst_find_by_id t id' <> Some x.
Proof. exact find_lowest. Qed.
Theorem C09_find_complete : forall t x, lst_wf t -> x <> [] -> lst_find_by_name t x = None ->
  forall id, lst_find_by_id t id <> Some x.
Proof. exact find_complete. Qed.
Theorem C09_find_empty : forall imports locals, lst_find_by_name (lst_new imports locals) [] = None.
Proof. exact find_empty_lst. Qed.
Theorem C09_builder_find_empty : forall b, l_idx_empty b = true ->
  (lst_find_by_name b [] = None <-> ~ In [] (l_syms b)).
Proof. exact find_empty_builder. Qed.

(* ---- ids above the maximum are rejected -------------------------------------------------------- *)
Theorem C09_reject : forall t sid, (sid < 0 \/ Z.of_N (lst_max_id t) < sid)%Z -> new_token_by_sid t sid = Err.
Proof. exact token_reject. Qed.
Theorem C09_token_by_sid : forall t sid, (0 <= sid <= Z.of_N (lst_max_id t))%Z ->
  new_token_by_sid t sid = Ok (mkTok (lst_find_by_id t (Z.to_N sid)) sid).
Proof. exact token_by_sid_ok. Qed.
Theorem C09_token_by_text : forall t x,
  new_token t x = Ok (mkTok (Some x) (match lst_find_by_name t x with
                                      | Some id => to_i64 id | None => sid_unknown end)).
Proof. exact new_token_spec. Qed.

(* ---- symbolIdentifier / newSymbolToken: what text is a symbol ID reference ------------------------ *)
(* sid_form x ds: x = "$" ++ ds, ds non-empty, every byte of ds a decimal digit;
   sid_digits_value ds: the decimal value of ds.  No sign, no other character. *)
Theorem C09_symbol_identifier : forall x n,
  symbol_identifier x = (n, true) <->
  exists ds, sid_form x ds /\ n = Z.of_N (sid_digits_value ds) /\ (n <= 9223372036854775807)%Z.
Proof. exact symbol_identifier_spec. Qed.
Theorem C09_symbol_identifier_other : forall x, (forall ds, ~ sid_form x ds) ->
  symbol_identifier x = (sid_unknown, false).
Proof. exact symbol_identifier_other. Qed.
Theorem C09_symbol_identifier_beyond : forall x ds, sid_form x ds -> two63 <= sid_digits_value ds ->
  symbol_identifier x = (sid_unknown, false).
Proof. exact symbol_identifier_beyond. Qed.
Theorem C09_auto_token_sid : forall t x ds, sid_form x ds -> sid_digits_value ds < two63 ->
  new_symbol_token_auto t x = new_token_by_sid t (Z.of_N (sid_digits_value ds)).
Proof. exact new_symbol_token_auto_sid. Qed.
(* an unquoted $n whose n does not fit an int64 is an undefined symbol ID, not text *)
Theorem C09_auto_token_out_of_range : forall t x ds, sid_form x ds -> two63 <= sid_digits_value ds ->
  new_symbol_token_auto t x = Err.
Proof. exact new_symbol_token_auto_out_of_range. Qed.
Theorem C09_auto_token_text : forall t x, (forall ds, ~ sid_form x ds) ->
  new_symbol_token_auto t x = new_token t x.
Proof. exact new_symbol_token_auto_text. Qed.

(* ---- builder: for every history of Add calls ---------------------------------------------------- *)
Theorem C09_builder_existing : forall b x id, lst_find_by_name b x = Some id ->
  builder_add b x = (b, id, false).
Proof. exact builder_add_existing. Qed.
Theorem C09_builder_new : forall b x, lst_wf b -> lst_find_by_name b x = None ->
  sum_max (l_imports b) + lenN (l_syms b) + 1 < two64 ->
  snd (fst (builder_add b x)) = lst_max_id b + 1 /\ snd (builder_add b x) = true /\
  l_syms (add_state b x) = l_syms b ++ [x] /\
  lst_max_id (add_state b x) = lst_max_id b + 1 /\
  lst_find_by_id (add_state b x) (lst_max_id b + 1) = Some x.
Proof. exact builder_add_new_spec. Qed.
(* no overflow hypothesis is needed for stability *)
Theorem C09_builder_stable : forall b xs id, id <= lst_max_id b ->
  lst_find_by_id (adds_state b xs) id = lst_find_by_id b id.
Proof. exact builder_stable. Qed.
Theorem C09_builder_stable_names : forall b xs x id, lst_find_by_name b x = Some id ->
  lst_find_by_name (adds_state b xs) x = Some id.
Proof. exact builder_stable_names. Qed.
Theorem C09_builder_locals : forall xs b,
  l_syms (adds_state b xs) = l_syms b ++ added_texts xs (snd (builder_adds b xs)).
Proof. exact builder_adds_syms. Qed.
Theorem C09_builder_history_split : forall b xs ys,
  builder_adds b (xs ++ ys) =
  (adds_state (adds_state b xs) ys, snd (builder_adds b xs) ++ snd (builder_adds (adds_state b xs) ys)).
Proof. exact builder_adds_app. Qed.

(* ---- full-strength statements that are false of the code, with witnesses ------------------------ *)
Theorem C09_max_id_overflow_refuted : ~ max_id_any_size.
Proof. exact max_id_overflow_refuted. Qed.
Theorem C09_find_lowest_overflow_refuted : ~ find_lowest_any_size.
Proof. exact find_lowest_overflow_refuted. Qed.
Theorem C09_find_lowest_empty_refuted : ~ builder_find_lowest_any_text.
Proof. exact find_lowest_empty_refuted. Qed.
Theorem C09_find_complete_empty_refuted : ~ find_complete_any_text.
Proof. exact find_complete_empty_refuted. Qed.

(* ---- non-vacuity: a table with a truncated, a missing and a padded import -------------------- *)
Definition ex_imports : list shared :=
  [ Sst (sst_adjust (sst_new [120] 1 [[97]; [98]; [99]]) 2);       (* x: a b c, max_id 2 *)
    Bogus [109] 1 3;                                               (* m: missing, max_id 3 *)
    Sst (sst_adjust (sst_new [121] 2 [[98]; []; [98]]) 5) ].       (* y: b "" b, max_id 5 *)
Definition ex_locals : list text := [[97]; []; [100]; [100]; [110; 97; 109; 101]].
Definition ex_t : lst := lst_new ex_imports ex_locals.

Example C09_ex_wf : Forall sh_wf ex_imports /\ user_ion ex_imports = false /\
  sum_max (effective_imports ex_imports) + lenN ex_locals = 24 /\ lst_wf ex_t.
Proof.
  assert (F : Forall sh_wf ex_imports)
    by (repeat constructor; apply sst_wf_adjust, sst_wf_new).
  split; [exact F|]. split; [reflexivity|]. split; [reflexivity|].
  apply lst_wf_new; [exact F | vm_compute; reflexivity].
Qed.
Example C09_ex_ids :
  map (lst_find_by_id ex_t) [0; 4; 9; 10; 11; 12; 14; 15; 16; 17; 18; 19; 20; 21; 22; 24; 25]
  = [None; Some [110; 97; 109; 101]; nth_N system_symbols 8; Some [97]; Some [98]; None; None;
     Some [98]; Some []; Some [98]; None; None; Some [97]; Some []; Some [100]; Some [110; 97; 109; 101]; None]
  /\ lst_max_id ex_t = 24.
Proof. vm_compute. split; reflexivity. Qed.
Example C09_ex_names :
  map (lst_find_by_name ex_t) [[97]; [98]; [99]; [100]; [110; 97; 109; 101]; []]
  = [Some 10; Some 11; None; Some 22; Some 4; None].
Proof. vm_compute. reflexivity. Qed.
Example C09_ex_builder :
  builder_adds (builder_new ex_imports) [[100]; [98]; []; [100]; []]
  = (adds_state (builder_new ex_imports) [[100]; []], [(20, true); (11, false); (21, true); (20, false); (21, false)])
  /\ lst_wf (adds_state (builder_new ex_imports) [[100]; [98]; []; [100]; []]).
Proof.
  split; [vm_compute; reflexivity|].
  apply lst_wf_adds; [apply C09_ex_wf | vm_compute; reflexivity].
Qed.
Example C09_ex_tokens :
  new_token_by_sid ex_t 25 = Err /\ new_token_by_sid ex_t (-1) = Err /\
  new_token_by_sid ex_t 12 = Ok (mkTok None 12) /\ new_token_by_sid ex_t 24 = Ok (mkTok (Some [110; 97; 109; 101]) 24) /\
  symbol_identifier [36; 43; 55] = ((-1)%Z, false) /\ symbol_identifier [36; 45; 49] = ((-1)%Z, false) /\
  symbol_identifier [36; 48; 55] = (7%Z, true) /\ symbol_identifier [36] = ((-1)%Z, false) /\
  new_symbol_token_auto ex_t [36; 43; 55] = Ok (mkTok (Some [36; 43; 55]) (-1)) /\
  new_symbol_token_auto ex_t [36; 50; 52] = Ok (mkTok (Some [110; 97; 109; 101]) 24).
Proof. vm_compute. repeat split; reflexivity. Qed.
(* "$9223372036854775807" is the largest symbol identifier; "$9223372036854775808" is none, and an error as a token *)
Example C09_ex_sid_form :
  sid_form (s "$9223372036854775808"%string) (s "9223372036854775808"%string) /\
  sid_digits_value (s "9223372036854775808"%string) = two63 /\
  symbol_identifier (s "$9223372036854775807"%string) = (9223372036854775807%Z, true) /\
  symbol_identifier (s "$9223372036854775808"%string) = ((-1)%Z, false) /\
  new_symbol_token_auto ex_t (s "$9223372036854775808"%string) = Err.
Proof.
  split; [|vm_compute; repeat split; reflexivity].
  split; [reflexivity|]. split; [discriminate|]. vm_compute. repeat constructor; discriminate.
Qed.
