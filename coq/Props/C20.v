(* C20 — the ion-go process command is a faithful transcoder.
   Statements only; every proof is [exact <lemma>] or a closed computation on a witness.

   [process_fixed] / [events_fixed] are cmd/ion-go after fix_cli_nulls.diff and
   fix_cli_events_map.diff; [process_pinned] / [events_pinned] are the tree as found.
   A forest is what the Reader reports for the input (Cli/Process.v); [forest_ok] = it is a
   complete, well-formed report (valid input), [snd (calls_upto_forest vs) = true] = the Reader
   fails somewhere in it (invalid input). *)
From Coq Require Import String List NArith ZArith Bool.
From IonV Require Import Base.Wire Data.Ion Bin.BitStream Bin.BinWriter Cli.Process Cli.Events Cli.ProcessP.
Import ListNotations.
Open Scope N_scope.

(* ---- it never panics -------------------------------------------------------------------------- *)
(* against any Writer whose methods return (nil or an error) rather than panic, for every forest:
   valid, invalid, ill-formed, any depth *)
Theorem C20_no_panic : forall (W : Type) (wstep : W -> wcall -> res (W * bool)) (Inv : W -> Prop),
  (forall w c, Inv w -> exists w' ok, wstep w c = Ok (w', ok) /\ Inv w') ->
  forall w vs, Inv w -> exists o, process_fixed wstep w vs = Ok o.
Proof. exact process_fixed_no_panic. Qed.

(* -f events, every forest *)
Theorem C20_no_panic_events : forall vs, exists r, events_fixed vs = Ok r.
Proof. exact events_fixed_no_panic. Qed.

(* the same statements about the tree as found are false *)
Definition C20_no_panic_pinned : Prop :=
  (forall vs, exists o, process_pinned nop_step tt vs = Ok o) /\
  (forall vs, exists r, events_pinned vs = Ok r).

Definition null_of (t : N) : list oval := [OScalar None [] (SNull t)].

(* witnesses: null.bool, null.int, null.float, null.timestamp (each also under annotations, as a
   field, in a list), and for events the empty struct *)
Theorem C20_no_panic_pinned_refuted : ~ C20_no_panic_pinned.
Proof. intros [H _]. destruct (H (null_of TInt)) as [o E]. vm_compute in E. discriminate. Qed.
Example C20_pinned_null_bool : process_pinned nop_step tt (null_of TBool) = Panic.
Proof. vm_compute. reflexivity. Qed.
Example C20_pinned_null_int : process_pinned nop_step tt (null_of TInt) = Panic.
Proof. vm_compute. reflexivity. Qed.
Example C20_pinned_null_float : process_pinned nop_step tt (null_of TFloat) = Panic.
Proof. vm_compute. reflexivity. Qed.
Example C20_pinned_null_timestamp : process_pinned nop_step tt (null_of TTimestamp) = Panic.
Proof. vm_compute. reflexivity. Qed.
Example C20_pinned_null_nested :
  process_pinned nop_step tt
    [OCont None [] KStruct [OScalar (Some (tok_text (s "f"%string))) [tok_text (s "a"%string)] (SNull TBool)]] = Panic.
Proof. vm_compute. reflexivity. Qed.
Example C20_pinned_events_struct : events_pinned [OCont None [] KStruct []] = Panic.
Proof. vm_compute. reflexivity. Qed.
Example C20_pinned_events_refuted : ~ (forall vs, exists r, events_pinned vs = Ok r).
Proof. intro H. destruct (H [OCont None [] KStruct []]) as [r E]. vm_compute in E. discriminate. Qed.

(* the strongest true variant: the pinned loop survives every forest without a typed null of the four
   dereferencing classes, and the pinned event writer additionally needs the forest to be struct-free *)
Theorem C20_no_panic_pinned_except_known :
  (forall (W : Type) (wstep : W -> wcall -> res (W * bool)) (Inv : W -> Prop),
     (forall w c, Inv w -> exists w' ok, wstep w c = Ok (w', ok) /\ Inv w') ->
     forall w vs, Inv w -> forallb panic_free vs = true -> exists o, process_pinned wstep w vs = Ok o) /\
  (forall vs, forallb panic_free vs = true -> forallb struct_free vs = true -> exists r, events_pinned vs = Ok r).
Proof. exact pinned_no_panic_except_known. Qed.

(* ---- faithful transcoding ----------------------------------------------------------------------- *)
(* For valid input the run makes exactly the calls [calls_upto_forest vs] and Finish, reports nothing,
   and those calls denote the input values (typed nulls, annotations, field names, nesting; symbols by
   text when the source knows it).  The call sequence does not depend on the output format: text,
   pretty, binary, events and none differ only in the Writer the calls are made on. *)
Theorem C20_transcode : forall vs, forest_ok vs = true ->
  exists o, process_fixed nop_step tt vs = Ok o /\ oc_reports o = [] /\
            values_of_calls (oc_calls o) = Some (map value_of vs).
Proof. exact transcode_nop. Qed.

(* the same against any Writer that accepts those calls *)
Theorem C20_transcode_any_writer :
  forall (W : Type) (wstep : W -> wcall -> res (W * bool)) (w w2 : W) vs,
  forest_ok vs = true ->
  drive wstep w (fst (calls_upto_forest vs) ++ [CFinish]) = Ok (w2, true) ->
  process_fixed wstep w vs =
    Ok {| oc_w := w2; oc_calls := fst (calls_upto_forest vs) ++ [CFinish]; oc_reports := [] |} /\
  values_of_calls (fst (calls_upto_forest vs) ++ [CFinish]) = Some (map value_of vs).
Proof. exact transcode_any_writer. Qed.

(* with the optional fix_cli_sids.diff ([process_fixed_sids]): the same, and every token handed to the
   Writer whose text is known carries no symbol ID, so that the Writer can only resolve it by text
   (the source's IDs mean nothing under the table the binary Writer builds) *)
Theorem C20_transcode_sids : forall vs, forest_ok vs = true ->
  exists o, process_fixed_sids nop_step tt vs = Ok o /\ oc_reports o = [] /\
            values_of_calls (oc_calls o) = Some (map value_of vs) /\
            Forall (fun c => call_normal c = true) (oc_calls o).
Proof. exact transcode_sids. Qed.
Theorem C20_no_panic_sids : forall (W : Type) (wstep : W -> wcall -> res (W * bool)) (Inv : W -> Prop),
  (forall w c, Inv w -> exists w' ok, wstep w c = Ok (w', ok) /\ Inv w') ->
  forall w vs, Inv w -> exists o, process_fixed_sids wstep w vs = Ok o.
Proof. exact process_fixed_sids_no_panic. Qed.
(* without it the source's IDs reach the Writer: the D13 witness foo::{bar:$10} read under the table
   ["foo","bar"] *)
Example C20_fixed_passes_source_sids :
  option_map oc_calls (match process_fixed nop_step tt
     [OCont None [{| tk_text := Some (s "foo"%string); tk_sid := 10 |}] KStruct
        [OScalar (Some {| tk_text := Some (s "bar"%string); tk_sid := 11 |}) []
                 (SSymbol {| tk_text := Some (s "foo"%string); tk_sid := 10 |})]] with Ok o => Some o | _ => None end)
  = Some [CAnnotations [{| tk_text := Some (s "foo"%string); tk_sid := 10 |}]; CBeginStruct;
          CFieldName {| tk_text := Some (s "bar"%string); tk_sid := 11 |};
          CSymbol {| tk_text := Some (s "foo"%string); tk_sid := 10 |}; CEndStruct; CFinish].
Proof. vm_compute. reflexivity. Qed.

(* the tree as found does not transcode typed nulls *)
Definition C20_transcode_pinned : Prop := forall vs, forest_ok vs = true ->
  exists o, process_pinned nop_step tt vs = Ok o /\ oc_reports o = [] /\
            values_of_calls (oc_calls o) = Some (map value_of vs).
Theorem C20_transcode_pinned_refuted : ~ C20_transcode_pinned.
Proof.
  intro H. destruct (H (null_of TSymbol) eq_refl) as (o & E & _ & V).
  vm_compute in E. inversion E; subst. vm_compute in V. discriminate.
Qed.
(* null.symbol / null.string are dropped (and their annotations land on the next value), null.clob /
   null.blob become empty lobs, null.decimal reaches WriteDecimal(nil), null.list / null.sexp /
   null.struct make a READ entry out of valid input *)
Example C20_pinned_null_symbol_dropped :
  option_map oc_calls (match process_pinned nop_step tt
     [OScalar None [tok_text (s "x"%string)] (SNull TSymbol); OScalar None [] (SInt (I64 1))] with Ok o => Some o | _ => None end)
  = Some [CAnnotations [tok_text (s "x"%string)]; CInt 1; CFinish].
Proof. vm_compute. reflexivity. Qed.
Example C20_pinned_null_clob_emptied :
  option_map oc_calls (match process_pinned nop_step tt (null_of TClob) with Ok o => Some o | _ => None end)
  = Some [CClob []; CFinish].
Proof. vm_compute. reflexivity. Qed.
Example C20_pinned_null_decimal_nil :
  option_map oc_calls (match process_pinned nop_step tt (null_of TDecimal) with Ok o => Some o | _ => None end)
  = Some [CDecimal None; CFinish].
Proof. vm_compute. reflexivity. Qed.
Example C20_pinned_null_list_read_error :
  option_map oc_reports (match process_pinned nop_step tt (null_of TList) with Ok o => Some o | _ => None end)
  = Some [{| rp_type := ERead; rp_in_input := true; rp_idx := 1 |}].
Proof. vm_compute. reflexivity. Qed.

(* ---- events ---------------------------------------------------------------------------------------- *)
(* valid input: exactly the events owed — one per scalar, a start and an end per container, the
   stream end — and no report entry *)
Theorem C20_events : forall vs, forest_ok vs = true -> events_fixed vs = Ok (events_of_forest vs, []).
Proof. exact events_fixed_valid. Qed.

Theorem C20_events_count : forall vs, length (events_of_forest vs) = count_forest vs.
Proof. exact events_count. Qed.

(* every event is well-formed, and the sequence is well-bracketed: depth = number of open containers,
   each end closes the innermost start, field names exactly inside structs, stream end last at depth 0 *)
Theorem C20_events_wf : forall vs, forest_ok vs = true ->
  Forall (fun e => event_wf e = true) (events_of_forest vs) /\ bracketed (events_of_forest vs) [] = true.
Proof. exact events_wf_bracketed. Qed.

(* ---- invalid input ---------------------------------------------------------------------------------- *)
(* the Reader failing anywhere (any depth) leaves at least one entry in the report and no panic,
   whatever the Writer answers *)
Theorem C20_invalid : forall (W : Type) (wstep : W -> wcall -> res (W * bool)) (Inv : W -> Prop),
  (forall w c, Inv w -> exists w' ok, wstep w c = Ok (w', ok) /\ Inv w') ->
  forall w vs, Inv w -> snd (calls_upto_forest vs) = true ->
  exists o, process_fixed wstep w vs = Ok o /\ oc_reports o <> [].
Proof. exact process_fixed_invalid. Qed.

(* which values were already written: exactly the calls for what the Reader delivered before failing
   (containers cut short are begun and not ended), then Finish; the entry is a READ entry located in
   the input with event_index = values delivered + containers completed *)
Theorem C20_invalid_prefix : forall vs,
  process_fixed nop_step tt vs =
  Ok {| oc_w := tt; oc_calls := fst (calls_upto_forest vs) ++ [CFinish];
        oc_reports := if snd (calls_upto_forest vs)
                      then [read_report (fst (ticks_upto_forest vs))] else [] |}.
Proof. exact process_fixed_nop. Qed.

(* ---- non-vacuity -------------------------------------------------------------------------------------- *)
Definition ex_forest : list oval :=
  [OCont None [tok_text (s "a"%string)] KStruct
     [OScalar (Some {| tk_text := Some (s "b"%string); tk_sid := 11 |}) [] (SNull TInt);
      OCont (Some (tok_sid 0)) [tok_text (s "c"%string); tok_sid 0] KList
        [OScalar None [] (SSymbol {| tk_text := Some (s "foo"%string); tk_sid := 10 |}); OScalar None [] (SNull TList);
         OCont None [] KSexp []]];
   OScalar None [] (SInt (IBig 18446744073709551616))].
Example C20_ex_ok : forest_ok ex_forest = true.
Proof. reflexivity. Qed.
Example C20_ex_calls :
  fst (calls_upto_forest ex_forest) =
  [CAnnotations [tok_text (s "a"%string)]; CBeginStruct;
   CFieldName {| tk_text := Some (s "b"%string); tk_sid := 11 |}; CNullType TInt;
   CFieldName (tok_sid 0); CAnnotations [tok_text (s "c"%string); tok_sid 0]; CBeginList;
   CSymbol {| tk_text := Some (s "foo"%string); tk_sid := 10 |}; CNullType TList; CBeginSexp; CEndSexp; CEndList;
   CEndStruct; CBigInt (Some 18446744073709551616%Z)].
Proof. vm_compute. reflexivity. Qed.
Example C20_ex_events : option_map (fun r => length (fst r)) (match events_fixed ex_forest with Ok r => Some r | _ => None end) = Some 11%nat.
Proof. vm_compute. reflexivity. Qed.
Example C20_ex_invalid :
  match process_fixed nop_step tt [OCont None [] KList [OScalar None [] (SInt (I64 1)); OFail]; OScalar None [] (SBool true)] with
  | Ok o => (oc_calls o, oc_reports o)
  | _ => ([], [])
  end = ([CBeginList; CInt 1; CFinish], [{| rp_type := ERead; rp_in_input := true; rp_idx := 2 |}]).
Proof. vm_compute. reflexivity. Qed.
