(* C15 (text, second half) and C07 (timestamps) — what ParseTimestamp accepts is a valid Ion timestamp literal;
   strings that name impossible dates or times, truncated or over-long literals and literals with an
   underscore are rejected.  Statements only; every proof is [exact <lemma>] (lemmas in Num/TimestampJ.v).

   [ts_parse patched] is the model of ion.ParseTimestamp with the fix patches applied, fix_ts_sign included
   (found here: strconv.ParseInt accepted a sign in the year, month and day fields: "+200T", "2000-+2T",
   "2000-02-+9"; see [C15_text_sign_defect]).

   "Valid literal" is the independent relation of Text/SpellTs.v: a shape [sh] inside the ranges of the grammar
   and the calendar ([SpellTs.ts_ok]: year 1..9999, month 1..12, day 1..length of the month with leap years,
   hour < 24, minute < 60, second < 60, offset hours < 24 and minutes < 60, at least one fraction digit),
   whose text [SpellTs.ts_text sh] is the string.  [SpellTs.ts_fields sh] are the eleven numbers the literal
   denotes (a fraction beyond nine digits rounded half up to nanoseconds, the carry spelled out).

   What ParseTimestamp normalises, exactly: a final lower-case 't' of the three date-only forms (yyyyt,
   yyyy-mmt, yyyy-mm-ddt) is read as 'T' ([lit_of]).  Nothing else: a lower-case 't' before a time of day,
   a lower-case 'z', a comma as decimal separator, a one-digit hour are rejected ([C15_text_ex_case_and_sign]).
   So the statement with [ts_text sh = s] is false ([C15_text_accepts_only_spellings_refuted], witness "2000t"),
   and true for strings without a 't' ([C15_text_accepts_only_valid_strict]).

   Proved for EVERY string: what is accepted is a valid literal ([C15_text_accepts_only_literals]) and the
   contrapositives.  That the timestamp carries the fields the literal denotes is proved for literals with at
   most eight fraction digits ([C15_text_accepts_only_valid_partial]; [frac_digits s] = the digit characters
   from the twenty-first character on); for nine digits or more (roundFractionalSeconds) see Props/C15reject2.v, which proves it for every accepted string. *)
From Coq Require Import List NArith ZArith String.
From IonV Require Import Base.Wire Num.Calendar Num.Timestamp Num.TimestampJ.
From IonV Require Text.SpellTs.
Import ListNotations.
Open Scope Z_scope.

(* T15.9 — every string ParseTimestamp accepts is a valid literal *)
Theorem C15_text_accepts_only_literals : forall s t, ts_parse patched s = Ok t ->
  exists sh, SpellTs.ts_ok sh = true /\ lit_of s sh.
Proof. exact accepts_only_literals. Qed.

(* T15.10 — ... and the timestamp carries exactly the fields the literal denotes (at most eight fraction digits) *)
Theorem C15_text_accepts_only_valid_partial : forall s t, frac_digits s <= 8 -> ts_parse patched s = Ok t ->
  exists sh, SpellTs.ts_ok sh = true /\ lit_of s sh /\ SpellTs.ts_fields sh = ts_fields t.
Proof. exact accepts_only_valid_partial. Qed.

(* the strict form, for strings without a lower-case t *)
Theorem C15_text_accepts_only_valid_strict : forall s t, frac_digits s <= 8 -> Forall (fun c => c <> c_t) s ->
  ts_parse patched s = Ok t ->
  exists sh, SpellTs.ts_ok sh = true /\ SpellTs.ts_text sh = s /\ SpellTs.ts_fields sh = ts_fields t.
Proof. exact accepts_only_valid_strict. Qed.

(* the unrestricted statement is false: "2000t" is accepted and is no spelling *)
Theorem C15_text_accepts_only_spellings_refuted : ~ text_accepts_only_spellings patched.
Proof. exact text_accepts_only_spellings_refuted. Qed.

(* the defect repaired by fix_ts_sign *)
Theorem C15_text_sign_defect :
  (exists t, ts_parse pinned [43; 50; 48; 48; 84]%N = Ok t) /\                               (* +200T *)
  (exists t, ts_parse pinned [50; 48; 48; 48; 45; 43; 50; 84]%N = Ok t) /\                   (* 2000-+2T *)
  (exists t, ts_parse pinned [50; 48; 48; 48; 45; 48; 50; 45; 43; 57]%N = Ok t) /\           (* 2000-02-+9 *)
  ts_parse patched [43; 50; 48; 48; 84]%N = Err /\
  ts_parse patched [50; 48; 48; 48; 45; 43; 50; 84]%N = Err /\
  ts_parse patched [50; 48; 48; 48; 45; 48; 50; 45; 43; 57]%N = Err.
Proof. exact text_accepts_sign_pinned. Qed.

(* T15.11 — contrapositives, for every string *)
Theorem C15_text_rejects_invalid : forall s, ~ valid_literal s -> forall t, ts_parse patched s <> Ok t.
Proof. exact rejects_invalid. Qed.
(* C07: an underscore anywhere, or any other character outside digits - T : . + Z (and t) *)
Theorem C15_text_rejects_underscore : forall s, In 95%N s -> forall t, ts_parse patched s <> Ok t.
Proof. exact rejects_underscore. Qed.
Theorem C15_text_rejects_bad_char : forall s c, In c s -> lit_char c = false -> c <> c_t ->
  forall t, ts_parse patched s <> Ok t.
Proof. exact rejects_bad_char. Qed.

(* the impossible dates and times of the property text, on concrete strings
   ([rej x]: ts_parse patched x = Err; [acc x]: accepted) *)
Example C15_text_ex_month_13 : rej "2000-13T" /\ rej "2000-13-01" /\ rej "2000-13-01T00:00Z" /\ rej "2000-00T" /\ acc "2000-12T".
Proof. exact ex_month_13. Qed.
Example C15_text_ex_day_0 : rej "2000-01-00" /\ rej "2000-01-00T" /\ rej "2000-01-00T00:00Z" /\ rej "2000-01-32" /\ acc "2000-01-31".
Proof. exact ex_day_0. Qed.
Example C15_text_ex_february :
  rej "2000-02-30" /\ rej "2000-02-30T00:00Z" /\ rej "1900-02-29" /\ rej "2100-02-29T" /\ rej "2100-02-29T12:00:00Z" /\
  rej "2001-02-29" /\ acc "2000-02-29" /\ acc "2000-02-29T12:00:00Z" /\ acc "2004-02-29T" /\ acc "1900-02-28".
Proof. exact ex_february. Qed.
Example C15_text_ex_hour_24 : rej "2000-01-01T24:00Z" /\ rej "2000-01-01T24:00:00Z" /\ rej "2000-01-01T24:00:00.0Z" /\ acc "2000-01-01T23:59Z".
Proof. exact ex_hour_24. Qed.
Example C15_text_ex_minute_60 : rej "2000-01-01T00:60Z" /\ rej "2000-01-01T00:60:00Z" /\ rej "2000-01-01T23:60:00.000-00:00".
Proof. exact ex_minute_60. Qed.
Example C15_text_ex_second_60 :
  rej "2000-01-01T00:00:60Z" /\ rej "2000-01-01T23:59:60Z" /\ rej "2000-01-01T00:00:60.5Z" /\
  rej "2000-01-01T00:00:60.0000000001Z" /\ acc "2000-01-01T23:59:59.9999999995Z".
Proof. exact ex_second_60. Qed.
Example C15_text_ex_offset_day :
  rej "2000-01-01T00:00+24:00" /\ rej "2000-01-01T00:00-24:00" /\ rej "2000-01-01T00:00-23:60" /\ rej "2000-01-01T00:00:00+23:60" /\
  rej "2000-01-01T00:00:00.5+24:00" /\ rej "2000-01-01T00:00:00.1234567891-23:60" /\ acc "2000-01-01T00:00+23:59" /\
  acc "2000-01-01T00:00:00.5-23:59".
Proof. exact ex_offset_day. Qed.
Example C15_text_ex_year_0 :
  rej "0000T" /\ rej "0000-01T" /\ rej "0000-01-01" /\ rej "0000-01-01T00:00Z" /\ rej "0000-01-01T00:00:00.5Z" /\ acc "0001T" /\ acc "9999T".
Proof. exact ex_year_0. Qed.
Example C15_text_ex_truncated :
  rej "" /\ rej "2000" /\ rej "2000-" /\ rej "2000-01" /\ rej "2000-01-" /\ rej "2000-01-0" /\ rej "2000-01-01T0" /\ rej "2000-01-01T00" /\
  rej "2000-01-01T00:" /\ rej "2000-01-01T00:00" /\ rej "2000-01-01T00:00:" /\ rej "2000-01-01T00:00:00" /\
  rej "2000-01-01T00:00:00." /\ rej "2000-01-01T00:00:00.5" /\ rej "2000-01-01T00:00:00.Z" /\ rej "2000-01-01T00:00+" /\
  rej "2000-01-01T00:00+01" /\ rej "2000-01-01T00:00+01:" /\ rej "2000-01-01T00:00+01:0" /\ rej "2000-01-01T00:00:00.1234567891".
Proof. exact ex_truncated. Qed.
Example C15_text_ex_trailing :
  rej "2000T " /\ rej "2000TT" /\ rej "2000-01T0" /\ rej "2000-01-01x" /\ rej "2000-01-01T " /\ rej "2000-01-01T00:00ZZ" /\
  rej "2000-01-01T00:00Z " /\ rej "2000-01-01T00:00+01:000" /\ rej "2000-01-01T00:00:00Z0" /\ rej "2000-01-01T00:00:00.5Z5" /\
  rej "2000-01-01T00:00:00.1234567891Z1" /\ rej "2000-01-01T00:00:00.5-00:00:00".
Proof. exact ex_trailing. Qed.
Example C15_text_ex_underscore :
  rej "2_00T" /\ rej "20_0-01T" /\ rej "2000-0_-01" /\ rej "2000-01-0_T" /\ rej "2000-01-01T0_:00Z" /\ rej "2000-01-01T00:0_Z" /\
  rej "2000-01-01T00:00:0_Z" /\ rej "2000-01-01T00:00:00.1_0Z" /\ rej "2000-01-01T00:00:00.123456789_1Z" /\
  rej "2000-01-01T00:00+0_:00" /\ rej "2000-01-01T00:00:00.5+00:0_" /\ rej "2000_01-01" /\ rej "2000-01-01T00_00Z" /\ rej "_000T".
Proof. exact ex_underscore. Qed.
Example C15_text_ex_case_and_sign :
  acc "2000t" /\ acc "2000-01t" /\ acc "2000-01-01t" /\ rej "2000-01-01t00:00Z" /\ rej "2000-01-01T00:00z" /\
  rej "2000-01-01T00:00:00z" /\ rej "+200T" /\ rej "2000-+1T" /\ rej "2000-01-+1" /\ rej "2000-01-01T+1:00Z" /\ rej "2000-01-01T00:00:00,5Z".
Proof. exact ex_case_and_sign. Qed.
(* non-vacuity of T15.9/T15.10 *)
Example C15_text_ex_accepted :
  acc "2024-02-29T23:59:59.123456789+23:59" /\ acc "0001-01-01T00:00-00:00" /\ acc "9999-12-31" /\
  frac_digits (bytes_of_string "2024-02-29T23:59:59.12345678+23:59") = 8 /\
  SpellTs.ts_ok (SpellTs.TsFrac 2024 2 29 23 59 59 [1; 2; 3; 4; 5; 6; 7; 8]%N (SpellTs.OffPlus 23 59)) = true /\
  SpellTs.ts_text (SpellTs.TsFrac 2024 2 29 23 59 59 [1; 2; 3; 4; 5; 6; 7; 8]%N (SpellTs.OffPlus 23 59)) =
    bytes_of_string "2024-02-29T23:59:59.12345678+23:59".
Proof. exact ex_accepted. Qed.

Print Assumptions C15_text_accepts_only_literals.
Print Assumptions C15_text_accepts_only_valid_partial.
Print Assumptions C15_text_accepts_only_valid_strict.
Print Assumptions C15_text_accepts_only_spellings_refuted.
Print Assumptions C15_text_sign_defect.
Print Assumptions C15_text_rejects_invalid.
Print Assumptions C15_text_rejects_underscore.
Print Assumptions C15_text_rejects_bad_char.
