From IonV Require Import Props.C01.
From IonV Require Import Props.C01text.
Goal True. idtac "@@BEGIN C04_binary". exact I. Qed.
Print Assumptions C04_binary.
Goal True. idtac "@@BEGIN C04_binary_writer". exact I. Qed.
Print Assumptions C04_binary_writer.
Goal True. idtac "@@BEGIN C04_binary_spec". exact I. Qed.
Print Assumptions C04_binary_spec.
Goal True. idtac "@@BEGIN C04_binary_nan". exact I. Qed.
Print Assumptions C04_binary_nan.
Goal True. idtac "@@BEGIN C04_binary_int64". exact I. Qed.
Print Assumptions C04_binary_int64.
Goal True. idtac "@@BEGIN tw_tdecode_universe". exact I. Qed.
Print Assumptions tw_tdecode_universe.
Goal True. idtac "@@BEGIN tw_tdecode_batches". exact I. Qed.
Print Assumptions tw_tdecode_batches.
Goal True. idtac "@@BEGIN C01bin". exact I. Qed.
Print Assumptions C01bin.
Goal True. idtac "@@BEGIN C01bin_default". exact I. Qed.
Print Assumptions C01bin_default.
Goal True. idtac "@@BEGIN C01bin_local_table". exact I. Qed.
Print Assumptions C01bin_local_table.
Goal True. idtac "@@BEGIN C01bin_reads_table". exact I. Qed.
Print Assumptions C01bin_reads_table.
Goal True. idtac "@@BEGIN C01bin_ex_local". exact I. Qed.
Print Assumptions C01bin_ex_local.
Goal True. idtac "@@BEGIN C01bin_S3". exact I. Qed.
Print Assumptions C01bin_S3.
Goal True. idtac "@@BEGIN C01bin_S2". exact I. Qed.
Print Assumptions C01bin_S2.
Goal True. idtac "@@BEGIN C01bin_S1". exact I. Qed.
Print Assumptions C01bin_S1.
Goal True. idtac "@@BEGIN C01bin_system_stream". exact I. Qed.
Print Assumptions C01bin_system_stream.
Goal True. idtac "@@BEGIN C01bin_value". exact I. Qed.
Print Assumptions C01bin_value.
Goal True. idtac "@@BEGIN C01bin_system_table". exact I. Qed.
Print Assumptions C01bin_system_table.
Goal True. idtac "@@BEGIN C01bin_ex_run". exact I. Qed.
Print Assumptions C01bin_ex_run.
Goal True. idtac "@@BEGIN C01text_write_then_read". exact I. Qed.
Print Assumptions C01text_write_then_read.
Goal True. idtac "@@BEGIN C01text_writer_output". exact I. Qed.
Print Assumptions C01text_writer_output.
Goal True. idtac "@@BEGIN C01text_stream_spells". exact I. Qed.
Print Assumptions C01text_stream_spells.
Goal True. idtac "@@BEGIN C01text_value_spells". exact I. Qed.
Print Assumptions C01text_value_spells.
Goal True. idtac "@@BEGIN C01text_float_zero". exact I. Qed.
Print Assumptions C01text_float_zero.
Goal True. idtac "@@BEGIN C01text_ex_wf". exact I. Qed.
Print Assumptions C01text_ex_wf.
Goal True. idtac "@@BEGIN C01text_ex_roundtrip". exact I. Qed.
Print Assumptions C01text_ex_roundtrip.
Goal True. idtac "@@END". exact I. Qed.
