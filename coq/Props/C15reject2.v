(* C15 (text, second half, continued) — the fields of an accepted literal with nine fraction digits or more
   (roundFractionalSeconds).  Statements only; every proof is [exact <lemma>] (lemmas in Num/TimestampK.v).

   Props/C15reject.v proves "the timestamp carries the fields the literal denotes" for at most eight fraction
   digits.  Here it is proved for EVERY accepted string ([C15_text_accepts_only_valid]): [SpellTs.ts_fields sh]
   are the fields of the answer whatever the number of fraction digits.

   What [SpellTs.ts_fields] says for nine fraction digits and more, stated and proved on its own
   ([C15_text_frac_fields_denote]): the eleven numbers are a real date and time of day whose instant is the
   literal's instant (civil fields, seconds and ALL the fraction digits) rounded half up to the nanosecond;
   the nanosecond field is below 10^9; offset, offset kind and precision are as written; nine fraction digits
   are reported.  Case by case: exactly nine digits, nothing is rounded ([C15_text_fields_nine]); ten or more,
   the fraction is the first nine digits plus one when the tenth digit is 5 or more ([C15_text_fields_no_carry]);
   when that is a whole second the civil fields are those one second later, through the minute, hour, day,
   month and year ([C15_text_fields_carry], [C15_text_next_second_spec]).

   The carry can leave the range of Ion timestamps: 9999-12-31T23:59:59.9999999995Z is accepted with local
   year 10000 ([C15_text_accepts_year_in_range_refuted]); that is the only way
   ([C15_text_accepts_year_except_carry]). *)
From Coq Require Import List NArith ZArith.
From IonV Require Import Base.Wire Num.Calendar Num.Timestamp Num.TimestampP Num.TimestampJ Num.TimestampK.
From IonV Require Text.SpellTs.
Import ListNotations.
Open Scope Z_scope.

(* T15.12 — every string: a valid literal, and the timestamp carries exactly the fields the literal denotes *)
Theorem C15_text_accepts_only_valid : forall s t, ts_parse patched s = Ok t ->
  exists sh, SpellTs.ts_ok sh = true /\ lit_of s sh /\ SpellTs.ts_fields sh = ts_fields t.
Proof. exact accepts_only_valid. Qed.

(* the strict form, for strings without a lower-case t *)
Theorem C15_text_accepts_only_valid_strict_all : forall s t, Forall (fun c => c <> c_t) s -> ts_parse patched s = Ok t ->
  exists sh, SpellTs.ts_ok sh = true /\ SpellTs.ts_text sh = s /\ SpellTs.ts_fields sh = ts_fields t.
Proof. exact accepts_only_valid_strict_all. Qed.

(* T15.13 — what the fields of a literal with nine fraction digits or more are: the instant rounded half up to
   the nanosecond ([local_ns]: nanoseconds of the civil fields on the absolute scale; [round_half_up p q] =
   floor ((2p + q) / 2q)), a real date and time, offset/kind/precision as written, nine digits reported *)
Theorem C15_text_frac_fields_denote : forall y mo d h mi sec fd o,
  SpellTs.ts_ok (SpellTs.TsFrac y mo d h mi sec fd o) = true -> (9 <= length fd)%nat ->
  let fs := SpellTs.ts_fields (SpellTs.TsFrac y mo d h mi sec fd o) in
  let nd := Z.of_nat (length fd) in
  local_ns fs =
    round_half_up ((abs_of (Z.of_N y) (Z.of_N mo) (Z.of_N d) (Z.of_N h) (Z.of_N mi) (Z.of_N sec) * 10 ^ nd + SpellTs.dval fd)
                   * 1000000000) (10 ^ nd) /\
  fields_ok fs /\ 0 <= nth 6 fs 0 < 1000000000 /\
  nth 7 fs 0 = fst (SpellTs.off_fields o) /\ nth 8 fs 0 = snd (SpellTs.off_fields o) /\ nth 9 fs 0 = 6 /\ nth 10 fs 0 = 9.
Proof. exact frac_fields_denote. Qed.

(* exactly nine digits *)
Theorem C15_text_fields_nine : forall y mo d h mi sec fd o, SpellTs.frac_ok fd = true -> length fd = 9%nat ->
  SpellTs.ts_fields (SpellTs.TsFrac y mo d h mi sec fd o) =
  [Z.of_N y; Z.of_N mo; Z.of_N d; Z.of_N h; Z.of_N mi; Z.of_N sec; SpellTs.dval fd;
   fst (SpellTs.off_fields o); snd (SpellTs.off_fields o); 6; 9].
Proof. exact fields_nine. Qed.

(* ten digits or more, no carry *)
Theorem C15_text_fields_no_carry : forall y mo d h mi sec fd o, (9 <= length fd)%nat -> SpellTs.frac_ns fd <> 1000000000 ->
  SpellTs.ts_fields (SpellTs.TsFrac y mo d h mi sec fd o) =
  [Z.of_N y; Z.of_N mo; Z.of_N d; Z.of_N h; Z.of_N mi; Z.of_N sec;
   SpellTs.dval (firstn 9 fd) + (if (5 <=? nth 9 fd 0)%N then 1 else 0);
   fst (SpellTs.off_fields o); snd (SpellTs.off_fields o); 6; 9].
Proof. exact fields_no_carry. Qed.

(* the carry *)
Theorem C15_text_fields_carry : forall y mo d h mi sec fd o, (9 <= length fd)%nat -> SpellTs.frac_ns fd = 1000000000 ->
  SpellTs.ts_fields (SpellTs.TsFrac y mo d h mi sec fd o) =
  let '(y2, mo2, d2, h2, mi2, s2) :=
    SpellTs.next_second (Z.of_N y) (Z.of_N mo) (Z.of_N d) (Z.of_N h) (Z.of_N mi) (Z.of_N sec) in
  [y2; mo2; d2; h2; mi2; s2; 0; fst (SpellTs.off_fields o); snd (SpellTs.off_fields o); 6; 9].
Proof. exact fields_carry. Qed.

(* the calendar lemma of the carry: one second later is a real date and time, one more on the absolute scale *)
Theorem C15_text_next_second_spec : forall y mo d h mi s, valid_date y mo d = true -> tod_ok h mi s ->
  let '(y2, mo2, d2, h2, mi2, s2) := SpellTs.next_second y mo d h mi s in
  valid_date y2 mo2 d2 = true /\ tod_ok h2 mi2 s2 /\ abs_of y2 mo2 d2 h2 mi2 s2 = abs_of y mo d h mi s + 1.
Proof. exact next_second_spec. Qed.

(* the rounding of roundFractionalSeconds (with fix_ts_textround) is the half-up rounding of SpellTs.frac_ns *)
Theorem C15_text_round_is_frac_ns : forall fd u, forallb (fun d => d <=? 9)%N fd = true -> (9 <= length fd)%nat -> 0 <= u ->
  text_round patched (u * 10 ^ Z.of_nat (length fd) + SpellTs.dval fd) (Z.of_nat (length fd)) =
  u * 1000000000 + SpellTs.frac_ns fd.
Proof. exact round_is_frac_ns. Qed.

(* the year 10000: "the local year of an accepted timestamp is 1..9999" is false of ParseTimestamp *)
Theorem C15_text_accepts_year_in_range_refuted : ~ text_accepts_year_in_range patched.
Proof. exact text_accepts_year_in_range_refuted. Qed.
(* the witness: 9999-12-31T23:59:59.9999999995Z is accepted, with these fields *)
Example C15_text_ex_carry_10000 :
  exists t, ts_parse patched s_carry_10000 = Ok t /\ ts_fields t = [10000; 1; 1; 0; 0; 0; 0; 0; 1; 6; 9].
Proof. exact carry_10000_fields. Qed.
(* ... and the exclusion is exactly that class: the last second of 9999 with a fraction that rounds to a whole second *)
Theorem C15_text_accepts_year_except_carry : forall s t, ts_parse patched s = Ok t ->
  1 <= year_of t <= 9999 \/
  (exists fd o, SpellTs.ts_text (SpellTs.TsFrac 9999 12 31 23 59 59 fd o) = s /\ (10 <= length fd)%nat /\
                SpellTs.frac_ns fd = 1000000000 /\
                ts_fields t = [10000; 1; 1; 0; 0; 0; 0; fst (SpellTs.off_fields o); snd (SpellTs.off_fields o); 6; 9]).
Proof. exact text_accepts_year_except_carry. Qed.

(* non-vacuity: accepted literals with nine, ten (no carry), ten (carry into the seconds) and twelve digits
   (carry through the minute), with the fields of the answers *)
Example C15_text_ex_round_fields : ex_round_fields_stmt.
Proof. exact ex_round_fields. Qed.

Print Assumptions C15_text_accepts_only_valid.
Print Assumptions C15_text_accepts_only_valid_strict_all.
Print Assumptions C15_text_frac_fields_denote.
Print Assumptions C15_text_fields_nine.
Print Assumptions C15_text_fields_no_carry.
Print Assumptions C15_text_fields_carry.
Print Assumptions C15_text_next_second_spec.
Print Assumptions C15_text_round_is_frac_ns.
Print Assumptions C15_text_accepts_year_in_range_refuted.
Print Assumptions C15_text_ex_carry_10000.
Print Assumptions C15_text_accepts_year_except_carry.
Print Assumptions C15_text_ex_round_fields.
