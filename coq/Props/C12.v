(* C12 — any Writer call sequence ends in a correct stream or an error.
   Binary Writer (growing symbol table) here; the text Writer's statements are in Props/C12text.v
   and re-exported.  Statements only. *)
From Coq Require Import List NArith ZArith.
From IonV Require Import Base.Wire Data.Ion Bin.BinWriter Bin.BinWriterP.
From IonV Require Export Props.C12text Props.C12bin2.
Import ListNotations.

(* no call panics, whatever the sequence (NewBinaryWriter(out), any io.Writer failure budget) *)
Theorem C12_binary_no_panic : forall cs budget,
  exists w' oks, drive_results (new_writer budget) cs = Ok (w', oks) /\ length oks = length cs.
Proof. exact bw_no_panic. Qed.

(* once an error is recorded, every call (Finish included) fails and changes nothing *)
Theorem C12_binary_sticky : forall run w c, w_err w = true -> step run w c = Ok (w, false).
Proof. exact bw_sticky. Qed.

(* a call other than Finish that returns an error has recorded it *)
Theorem C12_binary_error_recorded : forall run w c w',
  step run w c = Ok (w', false) -> c <> CFinish -> w_err w' = true.
Proof. exact bw_error_recorded. Qed.

(* hence: after the first failing call other than Finish, every later call fails *)
Theorem C12_binary_first_failure : forall cs w c w1 w' oks,
  wstep w c = Ok (w1, false) -> c <> CFinish ->
  drive_results w1 cs = Ok (w', oks) -> Forall (fun b => b = false) oks.
Proof. exact bw_first_failure. Qed.

(* non-vacuity: a misuse sequence runs, fails at EndList and stays failed *)
Example C12_ex : exists w, drive_results (new_writer None) [CEndList; CSymbolFromString [97]; CFinish] = Ok (w, [false; false; false]).
Proof. eexists. vm_compute. reflexivity. Qed.
