(* C12text.v — the text-Writer part of C12 (any Writer call sequence ends in a correct
   stream or an error) and the write side of C19, about the model Text/TextWriter.v.
   Every statement is for ALL call sequences, ALL writer states / both option bits
   (compact, pretty, quiet Finish) and EVERY formatting of floats, decimals and
   timestamps ([formats]).  Determinism is definitional: tw_step and tw_drive are
   functions.  Statements only; proofs are in Text/TextWriterP.v. *)
From Coq Require Import String List NArith ZArith Bool.
From IonV Require Import Base.Wire Data.Ion Bin.BinWriter Text.TextOut Text.TextWriter Text.TextWriterP.
From IonV Require Import Text.SpecText Text.TextRoundtrip Text.TextRoundtripP.
Import ListNotations.
Open Scope N_scope.

(* no call panics, whatever the state and the arguments (nil *big.Int, nil *Decimal,
   out-of-range Type, empty symbol tokens, End* of the wrong container, ...) *)
Theorem tw_no_panic_step : forall (F : formats) (w : twstate) (c : wcall),
  exists r, tw_step F w c = Ok r.
Proof. exact tw_step_ok. Qed.

Theorem tw_no_panic : forall (F : formats) (cs : list wcall) (w : twstate),
  exists w' rs, tw_drive F w cs = Ok (w', rs) /\ length rs = length cs.
Proof. exact tw_drive_ok. Qed.

(* once w.err is set, every call (Finish included) returns an error and changes nothing:
   not the io.Writer, not any field *)
Theorem tw_sticky : forall (F : formats) (w : twstate) (c : wcall),
  tw_err w = true -> tw_step F w c = Ok (w, false).
Proof. exact tw_sticky_step. Qed.

(* a call other than Finish that returns an error has recorded it in w.err *)
Theorem tw_error_recorded : forall (F : formats) (w w' : twstate) (c : wcall),
  c <> CFinish -> tw_step F w c = Ok (w', false) -> tw_err w' = true.
Proof. exact tw_records_error. Qed.

(* hence, along any call sequence: after call i (not Finish) has failed, every later call fails *)
Theorem tw_sticky_seq : forall (F : formats) (w w' : twstate) (cs : list wcall) (rs : list bool),
  tw_drive F w cs = Ok (w', rs) ->
  forall i j c, nth_error cs i = Some c -> c <> CFinish -> nth i rs true = false ->
                (i < j)%nat -> (j < length rs)%nat -> nth j rs true = false.
Proof. exact tw_sticky_seq_l. Qed.

(* a step never takes back or rewrites what the io.Writer has accepted *)
Theorem tw_appends : forall (F : formats) (c : wcall) (w w' : twstate) (ok : bool),
  tw_step F w c = Ok (w', ok) -> prefix (writes w) (writes w').
Proof. exact tw_step_appends. Qed.

(* C19, write side: whatever the number k of writes the io.Writer accepts before failing
   for good, the bytes it accepted are a prefix of the fault-free output *)
Theorem tw_prefix : forall (F : formats) (pretty quiet : bool) (k : option nat) (cs : list wcall)
    (w1 w2 : twstate) (rs1 rs2 : list bool),
  tw_drive F (new_text_writer k pretty quiet) cs = Ok (w1, rs1) ->
  tw_drive F (new_text_writer None pretty quiet) cs = Ok (w2, rs2) ->
  prefix (sink_bytes (tw_out w1)) (sink_bytes (tw_out w2)).
Proof. exact tw_prefix_l. Qed.

(* no failed write goes unreported: if every call returned nil then nothing is missing *)
Theorem tw_fault_reported : forall (F : formats) (pretty quiet : bool) (k : option nat) (cs : list wcall)
    (w1 w2 : twstate) (rs1 rs2 : list bool),
  tw_drive F (new_text_writer k pretty quiet) cs = Ok (w1, rs1) ->
  tw_drive F (new_text_writer None pretty quiet) cs = Ok (w2, rs2) ->
  forallb (fun b => b) rs1 = true ->
  sink_bytes (tw_out w1) = sink_bytes (tw_out w2) /\ writes w1 = writes w2 /\ rs1 = rs2.
Proof. exact tw_fault_reported_l. Qed.

(* a failing io.Writer never turns a failing call into a successful one *)
Theorem tw_fault_results : forall (F : formats) (pretty quiet : bool) (k : option nat) (cs : list wcall)
    (w1 w2 : twstate) (rs1 rs2 : list bool),
  tw_drive F (new_text_writer k pretty quiet) cs = Ok (w1, rs1) ->
  tw_drive F (new_text_writer None pretty quiet) cs = Ok (w2, rs2) ->
  forall i, nth i rs1 false = true -> nth i rs2 false = true.
Proof. exact tw_fault_results_l. Qed.

Theorem tw_deterministic : forall (F : formats) (w : twstate) (cs : list wcall) r1 r2,
  tw_drive F w cs = r1 -> tw_drive F w cs = r2 -> r1 = r2.
Proof. intros F w cs r1 r2 <- <-. reflexivity. Qed.

(* ---- C04 / C01 (text), token level: what the writer spells reads back, under the escape rules
   of the Ion text specification ([unescape] in Text/TextOut.v), as exactly the bytes given --------- *)
Theorem tx_string_reads_back : forall x : text,
  Forall (fun c => c < 256) x -> unescape false 34 (concat (escaped_string x)) = Some x.
Proof. exact escaped_string_reads_back. Qed.

Theorem tx_symbol_reads_back : forall x : text,
  Forall (fun c => c < 256) x -> unescape false 39 (concat (escaped_symbol x)) = Some x.
Proof. exact escaped_symbol_reads_back. Qed.

Theorem tx_clob_reads_back : forall x : list N,
  Forall (fun c => c < 256) x -> unescape true 34 (concat (escaped_clob x)) = Some x.
Proof. exact escaped_clob_reads_back. Qed.

(* a symbol is written either bare, and then it is an identifier that is not a keyword, ... *)
Theorem tx_bare_symbol : forall x : text,
  symbol_needs_quoting x = false ->
  write_symbol_from_string x = [x] /\
  existsb (list_eqb x) keywords = false /\
  exists c r, x = c :: r /\ is_identifier_start c = true /\ forallb is_identifier_part r = true.
Proof.
  intros x H. split; [exact (write_symbol_from_string_unquoted x H) | exact (bare_symbol_is_identifier x H)].
Qed.

(* ... or between single quotes with its escaped text *)
Theorem tx_quoted_symbol : forall x : text,
  symbol_needs_quoting x = true ->
  concat (write_symbol_from_string x) = [39] ++ concat (escaped_symbol x) ++ [39].
Proof. exact write_symbol_from_string_quoted. Qed.

(* ---- C04 / C12 (text), whole streams, on a finite universe: the bytes the writer model produces for the
   calls that write a value are read back by the SPECIFICATION decoder (Text/SpecText.tdecode) as exactly that
   value.  [universe] (Text/TextRoundtrip.v, 3067 values): every typed null, bools, the integers -1100..1100 and
   64-bit / big edges, nan +inf -inf 0e+0 -0e+0, every one-character string and symbol over U+0000..U+007F,
   keywords, $n texts, operators, UTF-8, every one-byte clob, blobs up to 770 bytes, lists / sexps / structs of
   those two levels deep with field names and annotations that need quoting.  All four option settings.
   Proved by kernel computation, not by induction: it is a statement about these values only. --------------- *)
Theorem tw_tdecode_universe : forall (pretty quiet : bool) (v : value),
  In v universe ->
  exists w rs got,
    tw_drive no_formats (new_text_writer None pretty quiet) (calls_of_stream [v]) = Ok (w, rs) /\
    forallb (fun b => b) rs = true /\
    tdecode (sink_bytes (tw_out w)) = Some got /\
    show_values got = show_values [v].
Proof. exact rt_universe_spec. Qed.

(* the whole universe written as ONE stream with a Finish after every 50 values (compact and pretty):
   separators between top-level values and batches do not disturb the reading *)
Theorem tw_tdecode_batches : forall pretty : bool,
  exists w rs got,
    tw_drive no_formats (new_text_writer None pretty false)
             (flat_map calls_of_stream (chunks50 (length universe) universe)) = Ok (w, rs) /\
    forallb (fun b => b) rs = true /\
    tdecode (sink_bytes (tw_out w)) = Some got /\
    show_values got = show_values universe.
Proof. exact rt_batches_spec. Qed.

Example universe_size : length universe = 3067%nat.
Proof. vm_compute. reflexivity. Qed.
Example universe_member :
  existsb (fun v => list_eqb (show_values [v]) (show_values
    [VAnn [SymText (s "x")] (VList [VAnn [SymText (s "y")] (VSexp [VAnn [SymText (s "z")]
        (VStruct [(SymText (s "w"), VAnn [SymText (s "v")] (VList []))])])])])) universe = true.
Proof. vm_compute. reflexivity. Qed.

(* ---- the statements are about non-trivial runs ------------------------------------------------ *)
Definition F0 : formats :=
  {| fmt_float := fun _ => s "1.5e+00"; fmt_dec := fun _ => s "1.5"; fmt_ts := fun _ b => b |}.
Definition calls0 : list wcall :=
  [ CBeginStruct; CFieldName (tok_text (s "null")); CAnnotation (tok_text (s "$7"));
    CBeginSexp; CSymbolFromString (s "+"); CFloat 4609434218613702656; CString (s "a""b"); CEndSexp;
    CEndStruct; CFinish ].
Definition bytes_of (r : res (twstate * list bool)) : list N :=
  match r with Ok (w, _) => sink_bytes (tw_out w) | _ => [] end.
Definition results_of (r : res (twstate * list bool)) : list bool :=
  match r with Ok (_, rs) => rs | _ => [] end.

(* a struct with a quoted field name, a quoted annotation, an sexp with a quoted operator,
   a float and an escaped string; then a newline *)
Example run_compact :
  bytes_of (tw_drive F0 (new_text_writer None false false) calls0)
  = s "{'null':'$7'::('+' 1.5e+0 ""a\""b"")}" ++ [10]
  /\ results_of (tw_drive F0 (new_text_writer None false false) calls0)
     = [true; true; true; true; true; true; true; true; true; true].
Proof. vm_compute. split; reflexivity. Qed.

(* the same calls against an io.Writer that fails from its 12th write on: the accepted bytes
   stop inside the sexp, the call being made fails and so does every later one *)
Example run_faulty :
  bytes_of (tw_drive F0 (new_text_writer (Some 11%nat) false false) calls0) = s "{'null':'$7'::("
  /\ results_of (tw_drive F0 (new_text_writer (Some 11%nat) false false) calls0)
     = [true; true; true; true; false; false; false; false; false; false].
Proof. vm_compute. split; reflexivity. Qed.

(* misuse: a value in a struct without a field name; End of the wrong container; Finish inside
   a container returns an error WITHOUT recording it (the next call succeeds) *)
Example reads_back_example :
  unescape false 34 (concat (escaped_string (s "a""b\" ++ [10; 1; 127; 195; 169]))) = Some (s "a""b\" ++ [10; 1; 127; 195; 169])
  /\ concat (escaped_clob [0; 34; 128; 255]) = s "\0\""\x80\xFF".
Proof. vm_compute. split; reflexivity. Qed.

Example run_misuse :
  results_of (tw_drive F0 (new_text_writer None true false) [CBeginList; CFinish; CInt 1; CEndSexp; CEndList; CFinish])
  = [true; false; true; false; false; false].
Proof. vm_compute. reflexivity. Qed.
