(* C08 (text reader) — "What a Reader returns does not depend on how the caller navigated": skipping a container is
   the same as stepping in, reading every member and stepping out; StepOut after any number of members lands in the
   same place; every navigation program of the family {skip | step in, navigate k members, step out} observes exactly
   the projection of the plain full traversal; refused calls leave the state alone.  For EVERY spelling of the stream
   ([tops_spell2] / [tspell2] / [cseq2] of C02b: all whitespace / comment / number / string / symbol / lob / timestamp
   freedom, annotations, any nesting).

   The text reader has two grammars: the value readers of tokenizer.go, and skipper.go, which is used for containers
   the caller does not enter and by StepOut.  The text reader reads every scalar at once, so the scalar skippers
   (skipNumber, skipTimestamp, ...) only ever run BEHIND a literal that has been read already, where they look at its
   terminator; that FinishValue then leaves the reader in front of what follows is part of C02b ([c02b_next_value]:
   [settled_w] behind every kind of literal) and is reused here.  The only token over whose whole text the second
   grammar runs is an opening bracket: skipContainerHelper with its helpers for strings, quoted symbols, long strings
   and lobs.  The theorems below say that it consumes exactly what the first grammar does.

   Statements only; the proofs are in Text/SkipSpell.v (the skipper's helpers and its loop over the literal spellings),
   Text/SkipSpellTree.v (the loop over value trees; FinishValue on a container), Text/SkipSpellNav.v (Next, StepOut),
   Text/SkipNav.v + SkipNavP.v (navigation plans), Text/SkipSpellEx.v (the example).
   Same limits as C02b: no local symbol table at the top level; the symbol context is the system table. *)
From Coq Require Import String List NArith ZArith Bool Lia.
From IonV Require Import Base.Wire Base.Utf8 Data.Ion Bin.BitStream Bin.BinReader Text.Tokenizer Text.Skipper
  Text.TextReader Text.TextNum Text.SpecText
  Text.SpellBase Text.SpellWs Text.SpellNum Text.SpellIdent Text.SpellSym Text.SpellEsc Text.SpellStr Text.SpellLong
  Text.SpellBlob Text.SpellTs Text.SpellTok Text.SpellRead Text.SpellVal Text.SpellSymVal Text.SpellOp Text.SpellStream
  Text.SpellCont Text.SpellTree Text.SpellTreeEx
  Text.SpellEofc Text.SpellOp2 Text.SpellStream2 Text.SpellIvm Text.SpellTree2
  Text.SkipSpell Text.SkipSpellTree Text.SkipSpellNav Text.SkipNav Text.SkipNavP Text.SkipSpellEx.
Import ListNotations.
Open Scope Z_scope.

(* ======== the skipper's helpers consume exactly the literal spellings =========================================== *)
(* skipStringHelper behind the opening quote of any short string (every escape, line continuations) *)
Theorem c08t_skip_string : forall body text s0,
  qbody 34 body text -> no_cr body -> run skip_string_helper (zs body ++ 34 :: s0) tt s0.
Proof. exact skip_string_spelling. Qed.
Print Assumptions c08t_skip_string.
Theorem c08t_skip_symbol_quoted : forall body text s0,
  qbody 39 body text -> no_cr body -> run skip_symbol_quoted_helper (zs body ++ 39 :: s0) tt s0.
Proof. exact skip_symbol_quoted_spelling. Qed.
Print Assumptions c08t_skip_symbol_quoted.
(* skipLongStringHelper behind the opening ''' of any long string: all segments, the whitespace and comments between
   them, and (as the value reader does) the whitespace behind the last segment *)
Theorem c08t_skip_long_string : forall body ts ws s0,
  lsegs body ts -> no_cr body -> ws_run ws -> no_cr ws -> ws_stop s0 = true -> starts3 s0 = false ->
  run (skip_long_string_helper HSkipComments) (zs body ++ zs ws ++ s0) tt (long_end s0).
Proof. exact skip_long_string_spelling. Qed.
Print Assumptions c08t_skip_long_string.
(* skipBlobHelper behind {{ : blobs (base64 with whitespace inside), clobs with short and with long text; the text of
   a clob is crossed by the string helpers, so a closing brace or a quote inside it ends nothing *)
Theorem c08t_skip_blob : forall bw chars bytes s0,
  interleaved bw chars -> b64_text chars bytes -> run skip_blob_helper (zs bw ++ 125 :: 125 :: s0) tt s0.
Proof. exact skip_blob_spelling. Qed.
Print Assumptions c08t_skip_blob.
Theorem c08t_skip_clob : forall ws0 body bytes ws1 s0,
  ws_plain ws0 -> cbody body bytes -> no_cr body -> ws_plain ws1 ->
  run skip_blob_helper (zs ws0 ++ 34 :: zs body ++ 34 :: zs ws1 ++ 125 :: 125 :: s0) tt s0.
Proof. exact skip_clob_spelling. Qed.
Print Assumptions c08t_skip_clob.
Theorem c08t_skip_long_clob : forall ws0 body ts ws1 s0,
  ws_plain ws0 -> lcsegs body ts -> no_cr body -> ws_plain ws1 -> no_cr ws1 ->
  run skip_blob_helper (zs ws0 ++ 39 :: 39 :: 39 :: zs body ++ zs ws1 ++ 125 :: 125 :: s0) tt s0.
Proof. exact skip_long_clob_spelling. Qed.
Print Assumptions c08t_skip_long_clob.
Example c08t_skip_clob_ex :
  cbody [125; 92; 34]%N [125; 34]%N /\
  exists t', skip_blob_helper (t_init (s " ""}\"""" }} 1") false) = Ok (tt, t') /\ stream t' = zs (s " 1").
Proof.
  split.
  - apply cb_raw; [unfold clob_raw, str_ws; lia|]. apply (cb_esc [34]%N 34 [] []); [|constructor].
    apply esc_one. unfold esc_table. cbn [In]. tauto.
  - eexists. split; reflexivity.
Qed.

(* ======== the skipper's loop over value trees =================================================================== *)
(* [K f top terms T Tout]: from any stream spelling a whitespace run and T, skipContainerHelper's loop with fuel f,
   closer top and pending closers terms ends in front of Tout.  Every value tree is consumed with closer and stack
   unchanged ([PV]: n rounds for the text and the whitespace behind it), every rest of a container from a member
   boundary is consumed up to and including its closing bracket, and the loop pops ([PS]). *)
Theorem c08t_skipper_tree : forall pd pt lst,
  (forall ctx text fol tv, tspell2 pd pt lst ctx text fol tv -> PV ctx text fol tv) /\
  (forall ctx st text items, cseq2 pd pt lst ctx st text items -> PS ctx st text items).
Proof. exact skip_tree. Qed.
Print Assumptions c08t_skipper_tree.
(* skipContainerHelper from any member boundary (in front of the first member, or behind any member): it succeeds
   and leaves exactly what follows the closing bracket *)
Theorem c08t_skip_container_helper : forall pd pt lst ctx c st body items w0 outer S0,
  cseq2 pd pt lst (c :: ctx) st body items -> ws_run w0 -> no_cr (w0 ++ body) -> ends S0 (w0 ++ body ++ outer) ->
  exists S', run (t_skip_container_helper (term_of c)) S0 tt S' /\ ends S' outer.
Proof. exact run_skip_container_helper. Qed.
Print Assumptions c08t_skip_container_helper.

(* ======== (1) skipping a container = stepping in, reading every member, stepping out ============================== *)
(* the tokenizer stands behind the opening bracket [tok] of a container (un-entered, token unfinished): FinishValue
   leaves it in front of what follows the container — the state is [settled_w] in front of [rest], the notion by
   which C02b describes where the full traversal leaves the reader *)
Theorem c08t_skip_value : forall pd pt lst ctx otext anns tok w0 body items,
  aopen_spells lst ctx [] otext anns tok -> ws_run w0 ->
  cseq2 pd pt lst (open_ctype tok :: ctx) (first_state tok) body items ->
  forall r wn rest, ws_run wn -> no_cr (w0 ++ body ++ wn) -> ends r (w0 ++ body ++ wn ++ rest) -> rest_ok ctx rest ->
  settled_w r tok true rest.
Proof. exact skip_value. Qed.
Print Assumptions c08t_skip_value.
(* in front of any spelled container, in any context, behind any separator: Next delivers it un-entered; that state
   is settled in front of [rest]; and StepIn + full traversal of the members + StepOut (the traversal loop over
   [cost] rounds, answering the value's trace) ends in a state settled in front of the same [rest], with the same
   context, no error, no end-of-container flag and the same symbol table *)
Theorem c08t_skip_equals_read : forall pd pt lst ctx otext anns tok w0 body items,
  aopen_spells lst ctx [] otext anns tok -> ws_run w0 ->
  (tok = tokenOpenBrace -> hd 0%N (w0 ++ body) <> 123%N) ->
  cseq2 pd pt lst (open_ctype tok :: ctx) (first_state tok) body items ->
  forall pre st fld n wb, sep_spells2 lst ctx st pre fld n -> ws_run wb -> (pre = [] -> wb = []) ->
  forall x wn rest,
  nextable pd pt lst x st ctx (pre ++ wb ++ (otext ++ w0 ++ body) ++ wn ++ rest) ->
  no_cr (pre ++ wb ++ (otext ++ w0 ++ body) ++ wn) -> ws_run wn -> rest_ok ctx rest ->
  (exists x1 r, x_next pd pt x = (x1, Ok true) /\ xok x1 /\
     xabs x1 = mkax r tok true trsBeforeContainer ctx false false lst fld anns (open_type tok) XContainer /\
     settled_w r tok true rest) /\
  (forall depth f acc, exists x' S' k' u' fld' ann' ty' v',
     x_traverse_loop pd pt (cost (TCont anns (open_type tok) items) + f) x depth acc =
       x_traverse_loop pd pt f x' depth (rev (tr_tval fld (TCont anns (open_type tok) items)) ++ acc) /\
     xok x' /\ xabs x' = mkax S' k' u' (after_value_state ctx) ctx false false lst fld' ann' ty' v' /\
     settled_w S' k' u' rest).
Proof. exact skip_equals_read. Qed.
Print Assumptions c08t_skip_equals_read.
(* what "settled in front of T" means for the caller: the next Next runs the loop of Next in front of a whitespace
   run and T, whatever the reader's state word says while the token is unfinished — so the two states above answer
   every later call alike *)
Theorem c08t_settled_next : forall pd pt lst x S0 k u st ctx fld ann ty v T,
  xok x -> xabs x = mkax S0 k u st ctx false false lst fld ann ty v -> st <> trsDone ->
  settled S0 k u T -> nextable pd pt lst x (loop_state u st ctx) ctx T.
Proof. exact nextable_at_rest. Qed.
Print Assumptions c08t_settled_next.

(* ======== (2) StepOut after any number of members ================================================================ *)
(* the reader is inside a container, settled in front of the rest [text] of its member sequence (k members read or
   skipped, 0 <= k <= n; [text] spells the remaining n-k members and the closing bracket): StepOut succeeds and leaves
   the state that [c02b_traverse_tree] (P_seq2) gives for reading the remaining members and stepping out at the end *)
Theorem c08t_step_out_early : forall pd pt lst c ctx' st text items,
  cseq2 pd pt lst (c :: ctx') st text items ->
  forall x S0 k u st0 fld ann ty v outer,
  xok x -> xabs x = mkax S0 k u st0 (c :: ctx') false false lst fld ann ty v ->
  settled S0 k u (text ++ outer) -> no_cr text ->
  exists x' S' k', x_step_out x = (x', Ok true) /\ xok x' /\
    xabs x' = mkax S' k' false (after_value_state ctx') ctx' false false lst None [] 0%N XNil /\ ends S' outer.
Proof. exact step_out_early. Qed.
Print Assumptions c08t_step_out_early.

(* ======== (3) navigation plans ===================================================================================== *)
(* [plan] (Text/SkipNav.v): at each container independently, PSkip = do not enter it, PEnter ps fin = StepIn, navigate
   the first [length ps] members by the plans ps, (fin: one more Next, which reports the end,) StepOut.  [prog] is the
   program of API calls, [etr] the projection of the full traversal's trace [tr_tval] onto those calls.  In any
   context: the program answers the projection and leaves the reader settled in front of what follows *)
Theorem c08t_nav_tree : forall pd pt lst,
  (forall ctx text fol tv, tspell2 pd pt lst ctx text fol tv -> Q_val pd pt lst ctx text fol tv) /\
  (forall ctx st text items, cseq2 pd pt lst ctx st text items -> Q_seq pd pt lst ctx st text items).
Proof. exact nav_tree. Qed.
Print Assumptions c08t_nav_tree.
(* for every spelling of a top-level stream and every plan for its first values: the observations are exactly the
   projected trace *)
Theorem c08t_nav_stream : forall inp w0 text tvs qs,
  norm inp = w0 ++ text -> ws_run w0 -> tops_spell2 parse_decimal_text parse_ts_text LSys text tvs -> top_ok tvs qs ->
  snd (x_run parse_decimal_text parse_ts_text (x_init inp false) (top_prog tvs qs) []) = top_etr tvs qs.
Proof. exact nav_stream_text. Qed.
Print Assumptions c08t_nav_stream.
(* with a plan for every top-level value, one more Next reports the end of the stream *)
Theorem c08t_nav_stream_end : forall inp w0 text tvs qs,
  norm inp = w0 ++ text -> ws_run w0 -> tops_spell2 parse_decimal_text parse_ts_text LSys text tvs -> top_ok tvs qs ->
  length qs = length tvs ->
  snd (x_run parse_decimal_text parse_ts_text (x_init inp false) (top_prog tvs qs ++ [ONext]) []) = top_etr tvs qs ++ [[70%N]].
Proof. exact nav_stream_end_text. Qed.
Print Assumptions c08t_nav_stream_end.
(* the plan that enters everything projects nothing away: its expected trace is the full traversal's trace *)
Theorem c08t_full_plan : forall tv fld, plan_ok tv (full_plan tv) /\ etr fld tv (full_plan tv) = tr_tval fld tv.
Proof. exact (fun tv fld => conj (plan_ok_full tv) (etr_full tv fld)). Qed.
Print Assumptions c08t_full_plan.

(* ======== (4) refused calls ========================================================================================= *)
(* StepIn when the reader is not on a container (a scalar, a null of any type, before the first Next, at the end of a
   container): an error is returned and the state is unchanged *)
Theorem c08t_step_in_refused : forall x, x_state x <> trsBeforeContainer -> x_step_in x = (x, Ok false).
Proof. exact step_in_refused. Qed.
Print Assumptions c08t_step_in_refused.
(* StepOut at the top level *)
Theorem c08t_step_out_refused : forall x, x_ctx x = [] -> x_step_out x = (x, Ok false).
Proof. exact step_out_refused. Qed.
Print Assumptions c08t_step_out_refused.
(* every accessor, of the right type or not, leaves the state as it is *)
Theorem c08t_accessor_keeps_state : forall pd pt x o,
  o <> ONext -> o <> OStepIn -> o <> OStepOut -> fst (x_op_res pd pt x o) = x.
Proof. exact accessor_keeps_state. Qed.
Print Assumptions c08t_accessor_keeps_state.

(* ======== the example ================================================================================================ *)
(* nested containers, a clob containing a closing brace and an escaped double quote, a long string with a continuation
   behind a comment, comments containing brackets, operators in an s-expression, a list inside a struct *)
Example c08t_example :
  skip_example = s "[ {{""}\""""}} , '''a]''' /*]*/ '''b''', (+ /*)*/ -), {f:[1]} ] 7" /\
  (exists w0 text, norm skip_example = w0 ++ text /\ ws_run w0 /\
                   tops_spell2 parse_decimal_text parse_ts_text LSys text skip_example_values).
Proof. split; [reflexivity|exact skip_example_spells]. Qed.
(* the theorem applies to every plan that fits *)
Example c08t_example_plans_ok :
  Forall (top_ok skip_example_values)
         [plan_skip_all; plan_early 0; plan_early 1; plan_early 2; plan_early 3; plan_early 4; plan_mixed; plan_full].
Proof. repeat (apply Forall_cons; [cbn; tauto|]). apply Forall_nil. Qed.
Example c08t_example_by_theorem :
  Forall (fun qs => run_plan qs = top_etr skip_example_values qs)
         [plan_skip_all; plan_early 0; plan_early 1; plan_early 2; plan_early 3; plan_early 4; plan_mixed; plan_full].
Proof.
  destruct skip_example_spells as (w0 & text & Hn & Hw & Hv).
  eapply Forall_impl; [|exact c08t_example_plans_ok].
  intros qs Hok. exact (c08t_nav_stream skip_example w0 text skip_example_values qs Hn Hw Hv Hok).
Qed.
(* the model, run by vm_compute (independently of the theorem): skipping everything, leaving the list at once,
   leaving it behind the long string, a mixed plan, and the full traversal *)
Example c08t_example_model :
  map (fun qs => show_str (join_sp (run_plan qs))) [plan_skip_all; plan_early 0; plan_early 2; plan_mixed; plan_full] =
  [ "T nil a[] y11 n0 T nil a[] y3 n0 I7";
    "T nil a[] y11 n0 ok ok T nil a[] y3 n0 I7";
    "T nil a[] y11 n0 ok T nil a[] y9 n0 Bx7d22 T nil a[] y8 n0 Sx615d62 ok T nil a[] y3 n0 I7";
    "T nil a[] y11 n0 ok T nil a[] y9 n0 Bx7d22 T nil a[] y8 n0 Sx615d62 T nil a[] y12 n0 ok T nil a[] y7 n0 k2b.-1 ok T nil a[] y13 n0 ok T k66.-1 a[] y11 n0 ok ok F ok F ok T nil a[] y3 n0 I7";
    "T nil a[] y11 n0 ok T nil a[] y9 n0 Bx7d22 T nil a[] y8 n0 Sx615d62 T nil a[] y12 n0 ok T nil a[] y7 n0 k2b.-1 T nil a[] y7 n0 k2d.-1 F ok T nil a[] y13 n0 ok T k66.-1 a[] y11 n0 ok T nil a[] y3 n0 I1 F ok F ok F ok T nil a[] y3 n0 I7"
  ]%string /\
  Forall (fun qs => run_plan qs = top_etr skip_example_values qs)
         [plan_skip_all; plan_early 0; plan_early 1; plan_early 2; plan_early 3; plan_early 4; plan_mixed; plan_full] /\
  run_plan plan_full = flat_map (tr_tval None) skip_example_values.
Proof.
  split; [vm_compute; reflexivity|]. split; [|vm_compute; reflexivity].
  repeat (apply Forall_cons; [vm_compute; reflexivity|]). apply Forall_nil.
Qed.
(* refused calls in the middle of a navigation: StepIn on the clob, a wrong accessor, StepOut at the top level — the
   later answers are those of the program without them *)
Example c08t_example_refused :
  show_str (join_sp (snd (x_run parse_decimal_text parse_ts_text (x_init skip_example false)
     [OStepOut; ONext; OStepIn; ONext; OStepIn; OBigInt; OBytes; OStepOut; OStepOut; ONext; OBigInt] []))) =
  "err T ok T err err Bx7d22 ok err T I7"%string /\
  show_str (join_sp (snd (x_run parse_decimal_text parse_ts_text (x_init skip_example false)
     [ONext; OStepIn; ONext; OBytes; OStepOut; ONext; OBigInt] []))) =
  "T ok T Bx7d22 ok T I7"%string.
Proof. split; vm_compute; reflexivity. Qed.
