(* C18 — independent readers, writers and marshal calls can run concurrently.
   Statements only; every proof is [exact <lemma>].

   Reading: a goroutine's workload is a sequence of atomic steps over its private state
   (its Reader/Writer/Encoder/Decoder and buffers) and the shared environment (shared
   symbol tables, the catalog, the system symbol table, package-level variables).  The
   premise "no step writes the shared environment" is tied to the Go source through
   [shared_writes], the list regenerated from the source on every check. *)
From Coq Require Import List NArith String.
From IonV Require Import Conc.Interleave Conc.InterleaveP Conc.SharedWrites Conc.SharedWritesOk.
Import ListNotations.

(* T18.1 — the interleaving theorem: for every number of threads, every step functions that
   do not write the shared environment, every schedule and every thread, the thread's outputs
   are those of its own steps run alone (same count, same order). *)
Theorem C18_interleave : forall (shared priv out : Type) (steps : list (step_t shared priv out)),
  Forall no_shared_write steps ->
  forall s0 pvs sched i f p, nth_error steps i = Some f -> nth_error pvs i = Some p ->
    outputs_of_thread i (run steps (init s0 pvs) sched) = alone f s0 p (turns i sched).
Proof. exact interleave. Qed.

(* T18.2 — the shared environment is untouched and every private state ends as when alone *)
Theorem C18_final_state : forall (shared priv out : Type) (steps : list (step_t shared priv out)),
  Forall no_shared_write steps ->
  forall s0 pvs sched,
    st_shared (run steps (init s0 pvs) sched) = s0 /\
    forall i f p, nth_error steps i = Some f -> nth_error pvs i = Some p ->
      nth_error (st_priv (run steps (init s0 pvs) sched)) i = Some (alone_priv f s0 p (turns i sched)).
Proof. exact interleave_final. Qed.

(* T18.3 — no schedule is distinguishable from another by any thread *)
Theorem C18_schedule_independent : forall (shared priv out : Type) (steps : list (step_t shared priv out)),
  Forall no_shared_write steps ->
  forall s0 pvs sched1 sched2 i f p, nth_error steps i = Some f -> nth_error pvs i = Some p ->
    turns i sched1 = turns i sched2 ->
    outputs_of_thread i (run steps (init s0 pvs) sched1) = outputs_of_thread i (run steps (init s0 pvs) sched2).
Proof. exact schedule_independent. Qed.

(* T18.4 — the read-only step shape [shared -> priv -> priv * out] needs no premise *)
Theorem C18_readonly : forall (shared priv out : Type) (gs : list (ro_step_t shared priv out)) s0 pvs sched i,
  thread_unaffected (map lift_ro gs) s0 pvs sched i.
Proof. exact interleave_ro. Qed.

(* T18.5 — the link to the source, general form: code given with its write sites, a list
   [all] that misses none of them, and [all = []] *)
Theorem C18_link : forall (shared priv out : Type) (all : list site) (prog : list (code shared priv out)),
  Forall sites_sound prog -> Forall (sites_listed all) prog -> all = [] ->
  forall s0 pvs sched i, thread_unaffected (map c_run prog) s0 pvs sched i.
Proof. exact interleave_sites. Qed.

(* T18.6 — C18: with the list extracted from the Go source as [all].  The hypothesis
   [shared_writes = []] is the premise the translator decides; [shared_writes_nil] (below)
   discharges it on the current source tree, and fails to compile otherwise. *)
Theorem C18 : shared_writes = [] ->
  forall (shared priv out : Type) (prog : list (code shared priv out)),
  Forall sites_sound prog -> Forall (sites_listed shared_writes) prog ->
  forall s0 pvs sched i f p, nth_error (map c_run prog) i = Some f -> nth_error pvs i = Some p ->
    outputs_of_thread i (run (map c_run prog) (init s0 pvs) sched) = alone f s0 p (turns i sched).
Proof. exact (fun H shared priv out prog Hs Hl => interleave_sites shared priv out shared_writes prog Hs Hl H). Qed.

Theorem C18_on_this_tree :
  forall (shared priv out : Type) (prog : list (code shared priv out)),
  Forall sites_sound prog -> Forall (sites_listed shared_writes) prog ->
  forall s0 pvs sched i f p, nth_error (map c_run prog) i = Some f -> nth_error pvs i = Some p ->
    outputs_of_thread i (run (map c_run prog) (init s0 pvs) sched) = alone f s0 p (turns i sched).
Proof. exact (C18 shared_writes_nil). Qed.

(* the statement without the premise is false: one step writing a shared cache suffices *)
Theorem C18_unconditional_refuted : ~ C18_unconditional.
Proof. exact InterleaveP.C18_unconditional_refuted. Qed.

(* non-vacuity: a concrete two-reader system over a shared table meets the hypotheses, and
   the two sides of the conclusion compute to the same non-empty outputs *)
Open Scope N_scope.
Definition ex_table : list (N * N) := [(1, 10); (2, 20); (3, 30); (4, 40)].
Definition ex_prog : list (code (list (N * N)) N N) := [mkCode lookup_step []; mkCode lookup_step []].

Example C18_ex_hyps : Forall sites_sound ex_prog /\ Forall (sites_listed shared_writes) ex_prog.
Proof.
  split; repeat constructor; try (intros _; exact (lift_ro_no_shared_write _ _ _ lookup_ro));
    intros x Hx; destruct Hx.
Qed.

Example C18_ex_run :
  outputs_of_thread 1 (run (map c_run ex_prog) (init ex_table [1; 3]) [0%nat; 1%nat; 1%nat; 0%nat; 1%nat]) = [30; 40; 0] /\
  alone lookup_step ex_table 3 (turns 1 [0%nat; 1%nat; 1%nat; 0%nat; 1%nat]) = [30; 40; 0].
Proof. split; vm_compute; reflexivity. Qed.

(* the refuting system, computed: thread 1 sees a cache hit only because thread 0 ran first *)
Example C18_ex_cache :
  outputs_of_thread 1 (run [cache_step; cache_step] (init [] [7; 7]) [0%nat; 1%nat]) = [true] /\
  alone cache_step [] 7 (turns 1 [0%nat; 1%nat]) = [false].
Proof. split; vm_compute; reflexivity. Qed.
