(* C08 — navigation independence.  Binary: Props/C08bin.v; text reader: skipper frame and progress
   lemmas of Props/C07text.v.  Statements re-exported. *)
From IonV Require Export Props.C08bin Props.C07text.
