(* C08 — navigation independence.  Text reader statements used by this property are in
   Props/C07text.v (skipper frame and progress lemmas); re-exported.  Statements only. *)
From IonV Require Export Props.C07text.
