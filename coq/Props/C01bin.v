(* C01 / C03, binary format, reader side — the binary reader model decodes what the binary Writer
   model emits: the plain full traversal ([traverse] of Bin/BinReader.v) of the writer's output returns
   exactly the token trace of the values written ([trace_of] of Bin/ReaderTrace.v).
   Proved here for forests whose symbol texts are system symbols (stages S1-S3: no local symbol table
   is emitted), and per value for ANY symbol table that resolves the IDs the writer used; what is
   missing for forests with local symbols (S4) is stated at the end.  Statements only. *)
From Coq Require Import String List NArith ZArith Bool Lia.
From IonV Require Import Base.Wire Base.Utf8 Bin.Bits Data.Ion Num.Float Bin.BinWriter Bin.BitStream Bin.BinReader
  Bin.SpecBin Bin.RoundTripBin Bin.BitEvalP Bin.ReaderTrace Bin.BinReaderInvP Bin.ReaderTraceP Bin.ReaderTopP
  Bin.ReaderLstP Bin.ReaderForestP Bin.BinReaderTs Bin.BinReaderTsP.
Import ListNotations.
Open Scope N_scope.

(* S3 (the strongest): any nesting of lists, s-expressions, structs, annotations and symbols whose texts
   are system symbols.  [ts] is the timestamp acceptance test: total, and accepting the bodies in vs. *)
Theorem C01bin_S3 : forall ts vs,
  (forall bs, ts bs <> Panic /\ ts bs <> OutOfFuel) -> wf_S3 vs -> Forall not_lst_null vs ->
  (forall body, In body (flat_map ts_bodies vs) -> ts body = Ok tt) ->
  N.of_nat (length (enc_forest vs)) < two63 ->
  fst (traverse ts (enc_forest vs) false) = trace_of vs.
Proof. exact traverse_S3. Qed.
Theorem C01bin_S2 : forall ts vs,
  (forall bs, ts bs <> Panic /\ ts bs <> OutOfFuel) -> wf_S2 vs ->
  (forall body, In body (flat_map ts_bodies vs) -> ts body = Ok tt) ->
  N.of_nat (length (enc_forest vs)) < two63 ->
  fst (traverse ts (enc_forest vs) false) = trace_of vs.
Proof. exact traverse_S2. Qed.
Theorem C01bin_S1 : forall ts vs,
  (forall bs, ts bs <> Panic /\ ts bs <> OutOfFuel) -> wf_S1 vs ->
  (forall body, In body (flat_map ts_bodies vs) -> ts body = Ok tt) ->
  N.of_nat (length (enc_forest vs)) < two63 ->
  fst (traverse ts (enc_forest vs) false) = trace_of vs.
Proof. exact traverse_S1. Qed.

(* the same without reference to the writer: version marker + encodings under the system table *)
Theorem C01bin_system_stream : forall ts vs,
  (forall bs, ts bs <> Panic /\ ts bs <> OutOfFuel) ->
  Forall wf_value vs -> Forall (known []) (flat_map (texts []) vs) ->
  (forall body, In body (flat_map ts_bodies vs) -> ts body = Ok tt) ->
  Forall top_ok_value vs ->
  N.of_nat (length (bvm ++ flat_map (enc []) vs)) < two63 ->
  fst (traverse ts (bvm ++ flat_map (enc []) vs) false) = trace_under [] vs.
Proof. exact traverse_system. Qed.

(* the compositional core, for ANY symbol table [tab] in force and local list L such that [tab] resolves
   every ID the writer assigns under L: wherever the reader stands before the encoding of a value (top
   level or inside containers; after a field name position inside a struct), the traversal spends
   [cost v] iterations, appends exactly [tr_value L fld [] v] to the trace and stands before what follows *)
Theorem C01bin_value : forall ts tot, tot < two63 -> forall tab L,
  (forall t, known L t -> sid L t < two63 /\ sid_ok tab (sid L t) = true /\ lst_find_by_id tab (sid L t) = Some t) ->
  (forall bs, ts bs <> Panic /\ ts bs <> OutOfFuel) ->
  forall v, wf_value v -> QV ts tot tab L v.
Proof. exact value_traversed. Qed.
Theorem C01bin_system_table : forall t, known [] t ->
  sid [] t < two63 /\ sid_ok LSys (sid [] t) = true /\ lst_find_by_id LSys (sid [] t) = Some t.
Proof. exact sys_tab_ok. Qed.

(* the hypothesis [not_lst_null] cannot be dropped: at top level the reader takes
   $ion_symbol_table::null.struct for a symbol table reset and does not surface it (binaryreader.go next(),
   same on the real code: btrav of E0 01 00 EA E3 81 83 DF returns no value), although it is a well-formed
   value for the specification decoder (is_lst = None) *)
Example C01bin_lst_null_is_swallowed :
  let v := VAnn [SymText (s "$ion_symbol_table")] (VNull 13) in
  let ts := fun _ : list N => Ok tt in
  wf_top v /\ fst (traverse ts (enc_forest [v]) false) = tr_tail /\ trace_of [v] <> tr_tail.
Proof.
  split; [|split; [vm_compute; reflexivity|vm_compute; discriminate]].
  split; [|reflexivity]. constructor; [discriminate| |exact I|constructor; lia].
  constructor; [|constructor]. eexists; split; [reflexivity|vm_compute; reflexivity].
Qed.

(* the hypotheses are satisfiable by a non-trivial forest; the instance the checks run accepts its timestamp *)
Definition c01_forest : list value :=
  [ VAnn [SymText (s "name")] (VStruct [(SymText (s "version"), VInt (-300)); (SymText (s "symbols"), VSymbol (SymText (s "$ion")))]);
    VList [VSexp [VString [104; 105]; VNull 4]; VFloat 4607182418800017408; VFloat canonical_nan64;
           VDecimal {| d_coef := 0; d_exp := -3; d_negzero := true |}; VTimestamp [128; 15; 208]; VBool true];
    VAnn [SymText (s "$ion_symbol_table")] (VList [VBlob [1; 2; 3]; VClob []]) ].
Example C01bin_ex_run :
  fst (traverse ts_ok_default (enc_forest c01_forest) false) = trace_of c01_forest /\
  ts_ok_default [128; 15; 208] = Ok tt /\ Forall not_lst_null c01_forest.
Proof. split; [vm_compute; reflexivity|]. split; [vm_compute; reflexivity|repeat constructor]. Qed.

(* ---- S4, hence every stage: ANY well-formed forest, local symbol table included --------------------------------------- *)
(* The flagship.  Write vs with a fresh binary Writer (C04_binary_writer: the bytes are [enc_forest vs]: version
   marker, the local symbol table when a non-system symbol text occurs, the values) and traverse the bytes with
   the binary reader: the trace is exactly [trace_of vs] — every value with its type, field name, annotations and
   content, symbols with the text AND the ID the writer assigned under the table the reader built from the stream.
   [ts]: the timestamp acceptance test, total and accepting the timestamp bodies in vs (the data model carries a
   timestamp as its raw body, so "the body is a legal timestamp" is a hypothesis on vs, not on the reader).
   [not_lst_null]: the one known corner, $ion_symbol_table::null.struct at top level (C01bin_lst_null_is_swallowed). *)
Theorem C01bin : forall ts vs,
  (forall bs, ts bs <> Panic /\ ts bs <> OutOfFuel) -> wf_values vs -> Forall not_lst_null vs ->
  (forall body, In body (flat_map ts_bodies vs) -> ts body = Ok tt) ->
  N.of_nat (length (enc_forest vs)) < two63 ->
  fst (traverse ts (enc_forest vs) false) = trace_of vs.
Proof. exact traverse_forest. Qed.

(* the instance the checks run: the timestamp reader of Num/Timestamp.v (repaired tree); its totality is proved
   (C06bin_default_ts_total), what remains a hypothesis is that it accepts the bodies that occur in vs *)
Theorem C01bin_default : forall vs, wf_values vs -> Forall not_lst_null vs ->
  (forall body, In body (flat_map ts_bodies vs) -> ts_ok_default body = Ok tt) ->
  N.of_nat (length (enc_forest vs)) < two63 ->
  fst (traverse ts_ok_default (enc_forest vs) false) = trace_of vs.
Proof. exact (fun vs => traverse_forest ts_ok_default vs ts_ok_default_total). Qed.

(* the pieces *)
(* the table the reader builds from  $ion_symbol_table::{symbols:[L]}  resolves every ID the writer assigned under L *)
Theorem C01bin_local_table : forall L, 9 + N.of_nat (length L) < two63 -> forall t, known L t ->
  sid L t < two63 /\ sid_ok (lst_tab L) (sid L t) = true /\ lst_find_by_id (lst_tab L) (sid L t) = Some t.
Proof. exact lst_tab_ok. Qed.
(* the raw item that is the table struct: readLocalSymbolTable through the reader's own Next returns "not a value"
   with exactly that table installed-to-be, standing before what follows *)
Theorem C01bin_reads_table : forall ts tot, tot < two63 -> forall strs fuel r rest an,
  Forall (fun t => utf8_valid t = true) strs -> (length strs + 2 <= fuel)%nat ->
  MID tot LSys r (enc [] (lst_struct strs) ++ rest) [] [] None an -> is_ion_symbol_table an = true ->
  exists r7, r_next_raw ts (r_next_inner ts) fuel r = (rs_lst r7 (Some (lst_tab strs)), Ok false) /\
             RS tot LSys r7 rest [] [] /\ r_field r7 = None /\ r_annots r7 = [].
Proof. exact raw_lst. Qed.

(* a forest with several local symbols, used as symbol value, annotation and field name (and a repeated one) *)
Definition c01_local_forest : list value :=
  [ VAnn [SymText [102; 111; 111]; SymText (s "name")]
      (VStruct [(SymText [97], VInt (-300)); (SymText (s "symbols"), VSymbol (SymText [98; 97; 114]));
                (SymText [102; 111; 111], VList [VSymbol (SymText [97]); VNull 7; VSexp []])]);
    VSymbol (SymText []);
    VList [VAnn [SymText [98; 97; 114]] (VTimestamp [128; 15; 208]); VString [104; 105]; VFloat canonical_nan64];
    VAnn [SymText (s "$ion_symbol_table")] (VList [VBlob [1; 2; 3]]) ].
Example C01bin_ex_local :
  locals_of c01_local_forest = [[102; 111; 111]; [97]; [98; 97; 114]; []] /\
  fst (traverse ts_ok_default (enc_forest c01_local_forest) false) = trace_of c01_local_forest /\
  Forall not_lst_null c01_local_forest /\
  (forall body, In body (flat_map ts_bodies c01_local_forest) -> ts_ok_default body = Ok tt).
Proof.
  split; [vm_compute; reflexivity|]. split; [vm_compute; reflexivity|]. split; [repeat constructor|].
  intros body [<-|[]]. vm_compute. reflexivity.
Qed.
Example C01bin_ex_local_wf : wf_values c01_local_forest.
Proof.
  assert (Hs : forall t, utf8_valid t = true -> wf_sym (SymText t)) by (intros t H; exists t; auto).
  repeat constructor; try discriminate; try (apply Hs; reflexivity); try reflexivity; try exact I;
    try (vm_compute; intuition discriminate).
Qed.

Print Assumptions C01bin.
Print Assumptions C01bin_default.
Print Assumptions C01bin_local_table.
Print Assumptions C01bin_reads_table.
Print Assumptions C01bin_ex_local.
