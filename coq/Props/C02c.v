(* C02c.v — "The text reader decodes every valid spelling of a value to exactly that value": the stream-level theorem of
   C02b.v ([c02b_traverse_stream_partial]) extended to streams whose symbol context CHANGES.

   [tops_spell3 pd pt lst text tvs] (Text/SpellTree3.v) is indexed by the current symbol context lst (the reader's table
   representation [rlst]; [rslots lst] is the context of Sym/LstSpec.v it denotes).  Beside the value trees, the final `//`
   comment and the version marker of [tops_spell2] it has
     1. SpellTree3.tp3_lst: a local symbol table at the top level: annotations (the first with the text
        $ion_symbol_table, spelled as identifier, $3 or quoted; more may follow), `{`, the fields, `}`, with whitespace and
        both comment forms between all tokens (SpellLst.lopen_spells, lstbody, symlist).  Fields: `symbols` with a list of
        annotated scalars of every class (any separators, one trailing comma) or with any scalar (null.list included: empty);
        `imports` with any scalar (the symbol $ion_symbol_table: append to the current context; anything else: none);
        fields of other names with scalar values; field names spelled as identifiers, $n, quoted symbols, short and long
        strings.  The values behind the table are spelled against [install lst oi os], which is the context the
        SPECIFICATION prescribes: [c02c_install_spec] (LstSpec.spec_step, for every catalog, as no import is declared);
     2. SpellTree3.tp3_ivm: the version marker $ion_1_0, now also directly (or after whitespace) in front of the final
        unterminated `//` comment, and from any context.
   STILL OUTSIDE (hence ..._partial):
     a. in a table struct, a field value that is a container other than the list of `symbols` — in particular
        `imports:[{name:..,version:..,max_id:..}]` (import declarations, with or without a catalog; the reader model
        of this theorem has no catalog) and structs / lists / s-expressions as values of ignored fields or as entries of
        `symbols` (the reader skips them: Skipper, not followed here);
     b. a second `imports` or `symbols` field, a field name without text (both are errors of the reader and of the rules);
     c. [gap_free]: a `symbols` list with an entry that is not a string: KNOWN DEFECT D16 (KNOWN_FINDINGS
        class symbols-nonstring-empty-text): the reader gives the slot the text "", the rules leave it without text;
        witness [c02c_d16_witness].  The reading lemmas themselves (SpellLst.read_lst_loop_ok, lst_step) cover such lists.
   Statements only; the proofs are in Text/SpellLst.v, SpellTree3.v, SpellTreeEx3.v. *)
From Coq Require Import String List NArith ZArith Bool.
From IonV Require Sym.LstSpec.
From IonV Require Import Base.Wire Base.Utf8 Data.Ion Bin.BitStream Bin.BinReader Text.Tokenizer Text.Skipper
  Text.TextReader Text.TextNum Text.SpecText
  Text.SpellBase Text.SpellWs Text.SpellNum Text.SpellIdent Text.SpellSym Text.SpellEsc Text.SpellStr Text.SpellLong
  Text.SpellBlob Text.SpellTs Text.SpellTok Text.SpellRead Text.SpellVal Text.SpellSymVal Text.SpellOp Text.SpellStream
  Text.SpellCont Text.SpellTree Text.SpellTreeEx
  Text.SpellEofc Text.SpellOp2 Text.SpellStream2 Text.SpellIvm Text.SpellTree2 Text.SpellTreeEx2
  Text.SpellLst Text.SpellTree3 Text.SpellTreeEx3.
Import ListNotations.
Open Scope Z_scope.

(* ======== inside a container ===================================================================================== *)
(* the Next that readLocalSymbolTable calls (it cannot itself read a symbol table) is the reader's Next *)
Theorem c02c_next_inner : forall pd pt x, x_ctx x <> [] -> x_next_inner pd pt x = x_next pd pt x.
Proof. exact next_inner_eq. Qed.
Print Assumptions c02c_next_inner.

(* ======== the `symbols` list and the fields of the table struct ==================================================== *)
(* readSymbols' loop over the spelled members up to the closing bracket: the texts of the entries ("" for what is not a
   string), the reader left at the end of the list *)
Theorem c02c_read_symbols : forall pd pt lst st t syms, symlist pd pt lst st t syms ->
  forall x S0 k u fld0 ann0 ty0 v0 outer acc fuel,
  xok x -> xabs x = mkax S0 k u st [CList; CStruct] false false lst fld0 ann0 ty0 v0 -> (u = true -> st = trsAfterValue) ->
  settled S0 k u (t ++ outer) -> no_cr t -> (length t <= fuel)%nat ->
  exists x1 S2 tok st', read_symbols_loop (x_next_inner pd pt) fuel x acc = (x1, Ok (acc ++ map entry_text syms)) /\ xok x1 /\
    xabs x1 = mkax S2 tok false st' [CList; CStruct] true false lst None [] 0%N XNil /\ ends S2 outer.
Proof. exact read_symbols_loop_ok. Qed.
Print Assumptions c02c_read_symbols.

(* readLocalSymbolTable's loop over the spelled fields up to the closing brace: the imports and symbols it collects *)
Theorem c02c_read_fields : forall pd pt lst st t oi os, lstbody pd pt lst st t oi os ->
  forall x S0 k u fld0 ann0 ty0 v0 outer imps0 syms0 fi fs fuel,
  xok x -> xabs x = mkax S0 k u st [CStruct] false false lst fld0 ann0 ty0 v0 -> (u = true -> st = trsAfterValue) ->
  settled S0 k u (t ++ outer) -> no_cr t -> (length t <= fuel)%nat ->
  (fi = true -> oi = None) -> (fs = true -> os = None) ->
  exists x1 S2 tok st',
    read_lst_loop (x_next_inner pd pt) fuel x imps0 syms0 fi fs =
      (x1, Ok (match oi with Some b => imps_of lst b | None => imps0 end,
               match os with Some sy => map entry_text sy | None => syms0 end)) /\ xok x1 /\
    xabs x1 = mkax S2 tok false st' [CStruct] true false lst None [] 0%N XNil /\ ends S2 outer.
Proof. exact read_lst_loop_ok. Qed.
Print Assumptions c02c_read_fields.

(* ======== the whole table: one stretch of the loop of Next ========================================================= *)
(* at the top level, on annotations + `{` + fields + `}`: nothing is delivered, the reader's table becomes
   [install lst oi os], and the loop goes on behind the closing brace ([rrunP]: the state there is known up to [ends]) *)
Theorem c02c_table_step : forall pd pt lst ann otext, lopen_spells lst ann otext ->
  forall w r w0 body oi os outer k0 fld ty0 v0 kk fuel b Post,
  ws_run w -> no_cr w -> no_cr otext -> ws_run w0 -> no_cr w0 ->
  lstbody pd pt lst trsBeforeFieldName body oi os -> no_cr body -> hd 0%N (w0 ++ body) <> 123%N ->
  ends r (w0 ++ body ++ outer) -> (length body <= fuel)%nat -> (length otext <= S kk)%nat ->
  (forall kk' S3 tok, (S kk <= kk' + length otext)%nat -> ends S3 outer ->
     rrunP (x_next_loop pd pt (x_next_inner pd pt) kk' fuel)
           (mkax S3 tok false trsBeforeTypeAnnotations [] false false (install lst oi os) None [] 0%N XNil) b Post) ->
  rrunP (x_next_loop pd pt (x_next_inner pd pt) (S kk) fuel)
        (mkax (zs w ++ zs otext ++ r) k0 false trsBeforeTypeAnnotations [] false false lst fld ann ty0 v0) b Post.
Proof. exact lst_step. Qed.
Print Assumptions c02c_table_step.

(* the table that is installed denotes the context the specification of symbol contexts prescribes for the item the
   fields denote (append: the current context and the symbols; otherwise the system context and the symbols) *)
Theorem c02c_install_spec : forall cat lst oi os, lst_ok lst -> gap_free os ->
  LstSpec.spec_step cat (rslots lst) (spec_item oi os) = Ok (rslots (install lst oi os)) /\ lst_ok (install lst oi os).
Proof. exact install_spec. Qed.
Print Assumptions c02c_install_spec.

(* ======== streams ================================================================================================= *)
(* PARTIAL (see the header for what is outside): top-level streams of value trees, final comment and version markers as
   in [c02b_traverse_stream_partial], where in addition local symbol tables may stand between the values — every value,
   field name and annotation behind a table is spelled against the context that table installs — and the version
   marker may be directly followed by the final unterminated comment.  The reader model's full traversal is exactly the
   trace of the denoted trees. *)
Theorem c02c_traverse_stream_partial : forall inp w0 text tvs,
  norm inp = w0 ++ text -> ws_run w0 -> tops_spell3 parse_decimal_text parse_ts_text LSys text tvs ->
  x_traverse parse_decimal_text parse_ts_text inp false = ttrace tvs.
Proof. exact traverse_stream3_text. Qed.
Print Assumptions c02c_traverse_stream_partial.

(* the wider relation contains the one of C02b.v: [c02b_traverse_stream_partial] is an instance *)
Theorem c02c_includes_c02b : forall pd pt text tvs, tops_spell2 pd pt LSys text tvs -> tops_spell3 pd pt LSys text tvs.
Proof. exact tops_spell2_incl. Qed.
Print Assumptions c02c_includes_c02b.

(* the version marker directly in front of the final comment, within one call of Next *)
Theorem c02c_version_marker_eof_comment : forall pd pt lst x wn body,
  ws_run wn -> no_cr wn -> Forall not_nl body ->
  nextable3 pd pt lst x (ivm_text ++ wn ++ 47 :: 47 :: body)%N -> nextable3 pd pt LSys x [].
Proof. exact nextable3_ivm_eofc. Qed.
Print Assumptions c02c_version_marker_eof_comment.

(* ======== examples ================================================================================================= *)
(* two tables (replace, then append), a comment inside the table struct, $10 / $12 as values, $11 as a field name, $10 as
   an annotation, the version marker directly in front of the final comment *)
Example c02c_traverse_stream_ex :
  tree3_example = s "$ion_symbol_table::{/*t*/symbols:[""a"",""b""]} $10 {$11:$10::1} $ion_symbol_table::{imports:$ion_symbol_table,symbols:[""c""]} $12 $ion_1_0// end" /\
  (exists w0 text, norm tree3_example = w0 ++ text /\ ws_run w0 /\
                   tops_spell3 parse_decimal_text parse_ts_text LSys text tree3_example_values) /\
  join_sp (ttrace tree3_example_values) =
  s "T nil a[] y7 n0 k61.10 T nil a[] y13 n0 ok T k62.11 a[k61.10;] y3 n0 I1 F ok T nil a[] y7 n0 k63.12 F e0 F e0 F e0" /\
  join_sp (x_traverse parse_decimal_text parse_ts_text tree3_example false) = join_sp (ttrace tree3_example_values) /\
  option_map (fun v => show_str (show_values v)) (SpecText.tdecode tree3_example)
  = Some "Yt61 { ft62 at61 I1 } Yt63"%string.
Proof.
  split; [reflexivity|]. split; [exact tree3_example_spells|]. split; [exact tree3_example_ttrace|].
  split; [exact tree3_example_model|exact tree3_example_spec].
Qed.
(* its two contexts are the specification's, and symbol IDs resolve in the reader's tables as in those contexts *)
Example c02c_contexts_ex :
  LstSpec.spec_step [] (rslots LSys) (spec_item None (Some [Some (s "a"); Some (s "b")])) = Ok (rslots ex3_L1) /\
  LstSpec.spec_step [] (rslots ex3_L1) (spec_item (Some true) (Some [Some (s "c")])) = Ok (rslots ex3_L2) /\
  rslots ex3_L2 = (LstSpec.system_ctx ++ [Some (s "a"); Some (s "b"); Some (s "c")])%list /\
  map (fun n => match tok_by_sid ex3_L2 n with Some k => Ok (tk_text k) | None => Err end) [0; 3; 10; 11; 12; 13]%N
  = map (LstSpec.resolve (rslots ex3_L2)) [0; 3; 10; 11; 12; 13]%N.
Proof. exact tree3_example_contexts. Qed.
Example c02c_install_spec_ex : lst_ok ex3_L1 /\ gap_free (Some [Some (s "c")]).
Proof. split; [exists []; reflexivity|repeat constructor; discriminate]. Qed.
(* the excluded class c. is the known defect D16 *)
Example c02c_d16_witness :
  show_str (join_sp (x_traverse parse_decimal_text parse_ts_text (s "$ion_symbol_table::{symbols:[5]} $10") false))
    = "T nil a[] y7 n0 k.10 F e0 F e0 F e0"%string /\
  option_map (fun v => show_str (show_values v)) (SpecText.tdecode (s "$ion_symbol_table::{symbols:[5]} $10")) = Some "Yi10"%string.
Proof. exact tree3_d16_witness. Qed.
