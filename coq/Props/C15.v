(* C15 — timestamps keep instant, offset, precision and fraction digits in both formats.
   Statements only; every proof is [exact <lemma>].

   [pinned] is the model of the tree as found, [patched] of the tree with
   fix_ts_fields / fix_ts_exponent / fix_ts_round / fix_ts_textround /
   fix_ts_parse_bounds applied; theorems quantified over [c : cfg] hold of both.

   Proved here: calendar inverse on all integers, binary write/read round trip for
   every well-formed timestamp, binary rejection, rounding.  NOT proved (covered only
   by the correspondence K9 and its oracle, and by the [Example]s below): the text
   round trip [ts_parse (ts_format t) = Ok t], [is_ts_literal (ts_format t)] and the
   rejection of impossible fields by [ts_parse] for ALL inputs. *)
From Coq Require Import List NArith ZArith String.
From IonV Require Import Base.Wire Bin.Bits Num.Calendar Num.CalendarP Num.Timestamp Num.TimestampP Num.TimestampR.
Import ListNotations.
Open Scope Z_scope.

(* T15.1 — proleptic Gregorian day numbers and civil dates are inverse on ALL integers *)
Theorem C15_days_civil_inverse : forall z,
  let '(y, m, d) := civil_from_days z in days_from_civil y m d = z.
Proof. exact days_of_civil_of_days. Qed.
Theorem C15_civil_days_inverse : forall y m d,
  valid_date y m d = true -> civil_from_days (days_from_civil y m d) = (y, m, d).
Proof. exact civil_of_days_of_civil. Qed.
Theorem C15_civil_valid : forall z,
  let '(y, m, d) := civil_from_days z in valid_date y m d = true.
Proof. exact civil_from_days_valid. Qed.

(* T15.2 — time.Date on in-range fields and the field accessors are inverse (no hidden normalisation) *)
Theorem C15_date_fields : forall y mo d h mi s ns,
  valid_date y mo d = true -> tod_ok h mi s -> 0 <= abs_of y mo d h mi s < two64z ->
  go_fields (mkTime (abs_of y mo d h mi s) ns 0) = (y, mo, d, h, mi, s).
Proof. exact go_fields_of_abs. Qed.
Theorem C15_wf_year : forall y mo d h mi s,
  valid_date y mo d = true -> tod_ok h mi s ->
  (abs_lo <= abs_of y mo d h mi s < abs_hi <-> 1 <= y <= 9999).
Proof. exact abs_of_year_bounds. Qed.

(* T15.3 — binary: every well-formed timestamp is read back unchanged (pinned and patched code) *)
Theorem C15_binary_roundtrip : forall c t, wf_ts t -> ts_read_bin c (ts_write_bin t) = Ok t.
Proof. exact bin_roundtrip. Qed.

(* T15.4 — binary: impossible calendar fields are rejected.
   Full strength: any field list that does not name a real date and time is an error. *)
Definition C15_binary_reject (c : cfg) : Prop := bin_reject_stmt c.
Theorem C15_binary_reject_patched : C15_binary_reject patched.
Proof. exact bin_reject_stmt_patched. Qed.
(* false of the pinned code: minute 60 is accepted (67 80 0F D0 81 81 8A BC reads as 2000-01-01T11:00Z) *)
Theorem C15_binary_reject_refuted : ~ C15_binary_reject pinned.
Proof. exact bin_reject_stmt_pinned_refuted. Qed.
Theorem C15_binary_minute60_witness :
  option_map ts_fields (match ts_read_bin pinned [103; 128; 15; 208; 129; 129; 138; 188]%N with Ok t => Some t | _ => None end)
  = Some [2000; 1; 1; 11; 0; 0; 0; 0; 1; 4; 0].
Proof. exact read_pinned_minute60. Qed.
(* what does hold of both versions: month 13, day 0, February 30, February 29 of a common year ... *)
Theorem C15_binary_reject_except_known : forall c fs nsecs ov off neg p fp,
  valid_date (nth 0 fs 0) (nth 1 fs 0) (nth 2 fs 0) = false ->
  try_create c fs nsecs ov off neg p fp = Err.
Proof. exact try_create_bad_date. Qed.
(* ... and hour 24 (it rolls the date, which the year/month/day re-check notices) *)
Theorem C15_binary_hour24 : forall c y mo d h mi s nsecs ov off neg p fp,
  valid_date y mo d = true -> 24 <= h < 2147483648 -> 0 <= mi < 60 -> 0 <= s < 60 ->
  0 <= nsecs < 1000000000 -> -2147483648 < y < 2147483648 ->
  try_create c [y; mo; d; h; mi; s] nsecs ov off neg p fp = Err.
Proof. exact try_create_hour_carry. Qed.
(* an hour field without a minute field is rejected (byte level, both versions) *)
Theorem C15_binary_hour_without_minute : forall c off y mo d h,
  - Z.of_N two63 < off < Z.of_N two63 -> (y < two64)%N -> (mo < two64)%N -> (d < two64)%N -> (h < two64)%N ->
  let len := (varint_len off + varuint_len y + varuint_len mo + varuint_len d + varuint_len h)%N in
  ts_read_bin c (append_tag [] 96 len ++ vi off ++ vu y ++ vu mo ++ vu d ++ vu h) = Err.
Proof. exact bin_hour_without_minute. Qed.
(* patched: whatever is accepted has a year 0001..9999 in its own offset *)
Theorem C15_binary_year_patched : forall c fs nsecs ov off neg p fp t,
  fx_fields c = true -> try_create c fs nsecs ov off neg p fp = Ok t -> 1 <= go_year (t_time t) <= 9999.
Proof. exact try_create_year_patched. Qed.

(* T15.5 — fractions finer than nanoseconds: |result - exact| <= 1/2 ns *)
Definition C15_binary_rounding (c : cfg) : Prop := bin_rounding_stmt c.
Theorem C15_binary_rounding_patched : C15_binary_rounding patched.
Proof. exact bin_rounding_stmt_patched. Qed.
(* false of the pinned code: 0.500000000000000000001 s (21 digits) rounds to 1937910 ns *)
Theorem C15_binary_rounding_refuted : ~ C15_binary_rounding pinned.
Proof. exact bin_rounding_stmt_pinned_refuted. Qed.
Definition C15_text_rounding (c : cfg) : Prop := text_rounding_stmt c.
Theorem C15_text_rounding_patched : C15_text_rounding patched.
Proof. exact text_rounding_stmt_patched. Qed.
(* false of the pinned code: 0.49999999999999999999 ns (x.00000000049999999999999999999) rounds to 1 ns *)
Theorem C15_text_rounding_refuted : ~ C15_text_rounding pinned.
Proof. exact text_rounding_stmt_pinned_refuted. Qed.

(* T15.6 — the fraction exponent near 2^31: ShiftL panics in the pinned code, an error after the patch *)
Theorem C15_exponent_panic_pinned :
  ts_read_bin pinned [110; 142; 128; 15; 208; 129; 129; 128; 128; 128; 7; 127; 127; 127; 255; 1]%N = Panic.
Proof. exact read_pinned_exponent_panic. Qed.
Theorem C15_exponent_patched :
  ts_read_bin patched [110; 142; 128; 15; 208; 129; 129; 128; 128; 128; 7; 127; 127; 127; 255; 1]%N = Err.
Proof. exact read_patched_exponent_err. Qed.

(* non-vacuity: concrete well-formed timestamps (nanosecond precision with trailing zero and +05:30;
   0001-01-01T00:00+23:59 whose UTC year is 0; a month-precision date), and what the text
   functions do on them (examples only: the general text theorems are not proved) *)
Example C15_ex_wf1 : wf_ts ex_ts1. Proof. exact ex_ts1_wf. Qed.
Example C15_ex_wf2 : wf_ts ex_ts2. Proof. exact ex_ts2_wf. Qed.
Example C15_ex_wf3 : wf_ts ex_ts3. Proof. exact ex_ts3_wf. Qed.
Example C15_ex_text :
  ts_parse pinned (ts_format ex_ts1) = Ok ex_ts1 /\ ts_parse pinned (ts_format ex_ts2) = Ok ex_ts2 /\
  ts_parse pinned (ts_format ex_ts3) = Ok ex_ts3 /\
  is_ts_literal (ts_format ex_ts1) = true /\ is_ts_literal (ts_format ex_ts2) = true /\
  is_ts_literal (ts_format ex_ts3) = true.
Proof. exact ex_text_roundtrip. Qed.
Example C15_ex_text_reject :
  map (fun s => is_ok (ts_parse pinned (bytes_of_string s)))
      ["2000-13-01T"; "2001-02-29T"; "2000-02-30T00:00Z"; "2000-01-01T24:00Z"; "2000-01-01T23:60Z";
       "2000-01-01T23:59:60Z"; "2000-01-01T00:00+24:00"; "2000-01-01T00:00-23:60"]%string
  = [false; false; false; false; false; false; false; false].
Proof. exact ex_text_reject. Qed.
