(* C13acc — the accessor clauses and the float32 clause of C13, over both reader models
   and the binary Writer model.  Statements only; every proof is [exact <lemma>]
   (Examples: [vm_compute]).
   Tokens: an accessor's answer is the trace token of BinReader.r_op / TextReader.x_op_res:
   "z<k>" IntSize (0 NullInt, 1 Int32, 2 Int64, 3 BigInt), "I<decimal>" a value, "nil" (nil, nil),
   "err" a returned error. *)
From Coq Require Import String List NArith ZArith Bool.
From IonV Require Import Base.Wire Bin.Bits Data.Ion Num.Float Num.FloatP Bin.BitStream Bin.BinReader Bin.BinReaderTs
  Bin.BinWriter Bin.AccessorsP Bin.FloatWidthP Text.TextReader Text.TextNum Text.AccessorsTP Text.SpellNum.
Import ListNotations.
Open Scope N_scope.

(* ================= binary reader ================= *)
(* the invariant behind the integer clause: on an input made of bytes every state any program of
   API calls reaches has unread input made of bytes and stores an int64 only for a number that
   fits one (ReadInt: at most 8 magnitude bytes with the top bit clear) *)
Theorem C13acc_bin_reachable : forall ts inp ioerr p, BY inp -> AI (fst (r_run ts (r_init inp ioerr) p [])).
Proof. exact AccessorsP.reachable_int_ok. Qed.
Theorem C13acc_bin_step : forall ts r o, AI r -> AI (fst (r_op ts r o)).
Proof. exact AccessorsP.AI_op. Qed.

(* integers, on the stored representation [RInt i] (show_int i is the Ion integer) *)
Theorem C13acc_bin_int_size : forall ts r i, r_type r = TInt -> r_value r = RInt i -> iv_ok i ->
  exists sz, r_op ts r OIntSize = (r, Some (122 :: dec_of_N sz)) /\
    (sz = 1 \/ sz = 2 \/ sz = 3) /\
    (sz = 1 -> fits32 (show_int i) = true) /\
    (sz = 2 -> fits64 (show_int i) = true /\ fits32 (show_int i) = false) /\
    (sz = 3 -> exists z, i = IBig z).
Proof. exact AccessorsP.int_size_sound. Qed.
(* never too small; exactly the smallest width whenever ReadInt produced an int64 *)
Theorem C13acc_bin_int_size_never_small : forall i, iv_ok i -> AccessorsP.min_size (show_int i) <= AccessorsP.size_code i.
Proof. exact AccessorsP.size_code_sound. Qed.
Theorem C13acc_bin_int_size_exact_i64 : forall z, fits64 z = true -> AccessorsP.size_code (I64 z) = AccessorsP.min_size z.
Proof. exact AccessorsP.size_code_exact_i64. Qed.
Theorem C13acc_bin_int_value : forall ts r i, r_type r = TInt -> r_value r = RInt i ->
  r_op ts r OInt = (r, Some (if fits32 (show_int i) then 73 :: dec_of_Z (show_int i) else t_err)).
Proof. exact AccessorsP.int_value_answer. Qed.
Theorem C13acc_bin_int64_value : forall ts r i, r_type r = TInt -> r_value r = RInt i ->
  r_op ts r OInt64 = (r, Some (if fits64 (show_int i) then 73 :: dec_of_Z (show_int i) else t_err)).
Proof. exact AccessorsP.int64_value_answer. Qed.
Theorem C13acc_bin_bigint_value : forall ts r i, r_type r = TInt -> r_value r = RInt i ->
  r_op ts r OBigInt = (r, Some (73 :: dec_of_Z (show_int i))).
Proof. exact AccessorsP.bigint_value_answer. Qed.
(* all four, for every reachable state positioned on an integer *)
Theorem C13acc_bin_integers : forall ts inp ioerr p r i, BY inp -> r = fst (r_run ts (r_init inp ioerr) p []) ->
  r_type r = TInt -> r_value r = RInt i ->
  (exists sz, r_op ts r OIntSize = (r, Some (122 :: dec_of_N sz)) /\ AccessorsP.min_size (show_int i) <= sz <= 3) /\
  r_op ts r OInt = (r, Some (if fits32 (show_int i) then 73 :: dec_of_Z (show_int i) else t_err)) /\
  r_op ts r OInt64 = (r, Some (if fits64 (show_int i) then 73 :: dec_of_Z (show_int i) else t_err)) /\
  r_op ts r OBigInt = (r, Some (73 :: dec_of_Z (show_int i))).
Proof. exact AccessorsP.reachable_int_accessors. Qed.

(* typed nulls and wrong types *)
Theorem C13acc_bin_typed_null : forall ts r o tys, AccessorsP.acc_types o = Some tys -> In (r_type r) tys ->
  r_value r = RNil -> r_err r = false -> r_op ts r o = (r, Some (AccessorsP.nil_tok o)).
Proof. exact AccessorsP.typed_null_answer. Qed.
Theorem C13acc_bin_typed_null_any_err : forall ts r o tys, AccessorsP.acc_types o = Some tys -> o <> OString -> o <> OSymbol ->
  In (r_type r) tys -> r_value r = RNil -> r_op ts r o = (r, Some (AccessorsP.nil_tok o)).
Proof. exact AccessorsP.typed_null_answer_noerr. Qed.
Theorem C13acc_bin_typed_null_is_null : forall ts r, r_type r <> 0 -> r_value r = RNil ->
  r_op ts r OIsNull = (r, Some [110; 49]).
Proof. exact AccessorsP.typed_null_is_null. Qed.
Theorem C13acc_bin_wrong_type : forall ts r o tys, AccessorsP.acc_types o = Some tys -> ~ In (r_type r) tys ->
  r_op ts r o = (r, Some t_err).
Proof. exact AccessorsP.wrong_type_answer. Qed.
Theorem C13acc_bin_accessor_state : forall ts r o, o <> ONext -> o <> OStepIn -> o <> OStepOut -> fst (r_op ts r o) = r.
Proof. exact AccessorsP.accessor_state. Qed.

(* ================= text reader ================= *)
(* parseInt keeps an int64 exactly when the number fits one, in every reachable state, on every input *)
Theorem C13acc_text_reachable : forall pd pt inp ioerr p, W (fst (x_run pd pt (x_init inp ioerr) p [])).
Proof. exact AccessorsTP.reachable_int_exact. Qed.
Theorem C13acc_text_step : forall pd pt x o, W x -> W (fst (x_op_res pd pt x o)).
Proof. exact AccessorsTP.op_W. Qed.
Theorem C13acc_text_parse_int : forall v radix i, parse_int v radix = Ok i -> iv_exact i.
Proof. exact AccessorsTP.parse_int_exact. Qed.
Theorem C13acc_text_int_size : forall pd pt x i, x_type x = TInt -> x_value x = XInt i -> iv_exact i ->
  x_op_res pd pt x OIntSize = (x, Ok (122 :: dec_of_N (AccessorsTP.min_size (show_int i)))).
Proof. exact AccessorsTP.int_size_exact. Qed.
Theorem C13acc_text_int_value : forall pd pt x i, x_type x = TInt -> x_value x = XInt i ->
  x_op_res pd pt x OInt = (x, Ok (if in_int32 (show_int i) then 73 :: dec_of_Z (show_int i) else t_err)).
Proof. exact AccessorsTP.int_value_answer. Qed.
Theorem C13acc_text_int64_value : forall pd pt x i, x_type x = TInt -> x_value x = XInt i ->
  x_op_res pd pt x OInt64 = (x, Ok (if in_int64 (show_int i) then 73 :: dec_of_Z (show_int i) else t_err)).
Proof. exact AccessorsTP.int64_value_answer. Qed.
Theorem C13acc_text_bigint_value : forall pd pt x i, x_type x = TInt -> x_value x = XInt i ->
  x_op_res pd pt x OBigInt = (x, Ok (73 :: dec_of_Z (show_int i))).
Proof. exact AccessorsTP.bigint_value_answer. Qed.
Theorem C13acc_text_integers : forall pd pt inp ioerr p x i, x = fst (x_run pd pt (x_init inp ioerr) p []) ->
  x_type x = TInt -> x_value x = XInt i ->
  x_op_res pd pt x OIntSize = (x, Ok (122 :: dec_of_N (AccessorsTP.min_size (show_int i)))) /\
  x_op_res pd pt x OInt = (x, Ok (if in_int32 (show_int i) then 73 :: dec_of_Z (show_int i) else t_err)) /\
  x_op_res pd pt x OInt64 = (x, Ok (if in_int64 (show_int i) then 73 :: dec_of_Z (show_int i) else t_err)) /\
  x_op_res pd pt x OBigInt = (x, Ok (73 :: dec_of_Z (show_int i))).
Proof. exact AccessorsTP.reachable_int_accessors. Qed.
(* connection to spelling: for every spelling of the Ion integer z, Props/C02 (c02_parse_int_dec / _hex / _bin)
   proves parse_int returns [mk_int z]; on that stored value the accessors answer in terms of z itself *)
Theorem C13acc_text_spelled_integer : forall pd pt x z, x_type x = TInt -> x_value x = XInt (AccessorsTP.mk_int z) ->
  x_op_res pd pt x OIntSize = (x, Ok (122 :: dec_of_N (AccessorsTP.min_size z))) /\
  x_op_res pd pt x OInt = (x, Ok (if in_int32 z then 73 :: dec_of_Z z else t_err)) /\
  x_op_res pd pt x OInt64 = (x, Ok (if in_int64 z then 73 :: dec_of_Z z else t_err)) /\
  x_op_res pd pt x OBigInt = (x, Ok (73 :: dec_of_Z z)).
Proof. exact AccessorsTP.spelled_int_accessors. Qed.
Example C13acc_text_mk_int_is_spellnum : forall z, AccessorsTP.mk_int z = Text.SpellNum.mk_int z.
Proof. reflexivity. Qed.
Theorem C13acc_text_typed_null : forall pd pt x o tys, AccessorsTP.acc_types o = Some tys -> In (x_type x) tys ->
  x_value x = XNil -> x_err x = false -> x_op_res pd pt x o = (x, Ok (AccessorsTP.nil_tok o)).
Proof. exact AccessorsTP.typed_null_answer. Qed.
Theorem C13acc_text_typed_null_is_null : forall pd pt x, x_type x <> 0 -> x_value x = XNil ->
  x_op_res pd pt x OIsNull = (x, Ok [110; 49]).
Proof. exact AccessorsTP.typed_null_is_null. Qed.
Theorem C13acc_text_wrong_type : forall pd pt x o tys, AccessorsTP.acc_types o = Some tys -> ~ In (x_type x) tys ->
  x_op_res pd pt x o = (x, Ok t_err).
Proof. exact AccessorsTP.wrong_type_answer. Qed.
Theorem C13acc_text_accessor_state : forall pd pt x o, o <> ONext -> o <> OStepIn -> o <> OStepOut ->
  fst (x_op_res pd pt x o) = x.
Proof. exact AccessorsTP.accessor_state. Qed.

(* ================= float32 ================= *)
(* float32(float64(f)) = f bit for bit, for every float32 that is not a NaN *)
Theorem C13acc_narrow_widen : forall f, f < 2 ^ 32 -> f32_is_nan f = false -> narrow (widen f) = f.
Proof. exact FloatP.narrow_widen. Qed.
(* the writer's test "val == float64(float32(val))" holds exactly for the widenings of float32 values *)
Theorem C13acc_uses_f32_iff : forall b, b < 2 ^ 64 -> f64_is_nan b = false ->
  (uses_f32 b = true <-> representable32 b).
Proof. exact FloatP.uses_f32_iff. Qed.
Theorem C13acc_float_four_bytes : forall run w b, b < 2 ^ 64 -> f64_is_nan b = false -> b <> 0 -> representable32 b ->
  BinWriter.step run w (CFloat b) = write_value run w (68 :: be_fixed 4 (narrow b)).
Proof. exact FloatWidthP.step_float_four. Qed.
Theorem C13acc_float_eight_bytes : forall run w b, b < 2 ^ 64 -> f64_is_nan b = false -> b <> 0 -> ~ representable32 b ->
  BinWriter.step run w (CFloat b) = write_value run w (72 :: be_fixed 8 b).
Proof. exact FloatWidthP.step_float_eight. Qed.
(* the four bytes read back (ReadFloat: widen (from_be bs)) to the float64 that was written *)
Theorem C13acc_float_read_back : forall b, b < 2 ^ 64 -> f64_is_nan b = false -> representable32 b ->
  length (be_fixed 4 (narrow b)) = 4%nat /\ widen (from_be (be_fixed 4 (narrow b))) = b.
Proof. exact FloatWidthP.float_four_read_back. Qed.
Theorem C13acc_read_float_four : forall b bs, b_code b = bcFloat -> length bs = 4%nat ->
  forall b', b_readN b (b_len b) = (b', Ok bs) -> b_read_float b = (done_value b', Ok (widen (from_be bs))).
Proof. exact FloatWidthP.read_float_four. Qed.

(* ================= boundary examples (the models, by computation) ================= *)
Definition bvm : list N := [224; 1; 0; 234].
Definition iops : list rop := [ONext; OIntSize; OInt; OInt64; OBigInt].
Definition brun (bs : list N) : list (list N) := snd (r_run ts_ok_default (r_init (bvm ++ bs) false) iops []).
Definition trun (t : string) : list (list N) :=
  snd (x_run parse_decimal_text parse_ts_text (x_init (s t) false) iops []).
Definition toks (l : list string) : list (list N) := map s l.

(* binary: magnitude bytes after the tag 0x2L / 0x3L *)
Example C13acc_bin_ex_max32 : brun [36; 127; 255; 255; 255] = toks ["T"; "z1"; "I2147483647"; "I2147483647"; "I2147483647"]%string.
Proof. vm_compute. reflexivity. Qed.
Example C13acc_bin_ex_2p31 : brun [36; 128; 0; 0; 0] = toks ["T"; "z2"; "err"; "I2147483648"; "I2147483648"]%string.
Proof. vm_compute. reflexivity. Qed.
Example C13acc_bin_ex_min32 : brun [52; 128; 0; 0; 0] = toks ["T"; "z1"; "I-2147483648"; "I-2147483648"; "I-2147483648"]%string.
Proof. vm_compute. reflexivity. Qed.
Example C13acc_bin_ex_min32m1 : brun [52; 128; 0; 0; 1] = toks ["T"; "z2"; "err"; "I-2147483649"; "I-2147483649"]%string.
Proof. vm_compute. reflexivity. Qed.
Example C13acc_bin_ex_max64 : brun [40; 127; 255; 255; 255; 255; 255; 255; 255] =
  toks ["T"; "z2"; "err"; "I9223372036854775807"; "I9223372036854775807"]%string.
Proof. vm_compute. reflexivity. Qed.
Example C13acc_bin_ex_2p63 : brun [40; 128; 0; 0; 0; 0; 0; 0; 0] = toks ["T"; "z3"; "err"; "err"; "I9223372036854775808"]%string.
Proof. vm_compute. reflexivity. Qed.
(* -2^63 has eight magnitude bytes with the top bit set: stored as a big.Int, so IntSize answers BigInt
   (a larger width than needed, never a smaller one) and Int64Value still returns it (IsInt64) *)
Example C13acc_bin_ex_min64 : brun [56; 128; 0; 0; 0; 0; 0; 0; 0] =
  toks ["T"; "z3"; "err"; "I-9223372036854775808"; "I-9223372036854775808"]%string.
Proof. vm_compute. reflexivity. Qed.
Example C13acc_bin_ex_min64m1 : brun [56; 128; 0; 0; 0; 0; 0; 0; 1] = toks ["T"; "z3"; "err"; "err"; "I-9223372036854775809"]%string.
Proof. vm_compute. reflexivity. Qed.
Example C13acc_bin_ex_2p64 : brun [41; 1; 0; 0; 0; 0; 0; 0; 0; 0] = toks ["T"; "z3"; "err"; "err"; "I18446744073709551616"]%string.
Proof. vm_compute. reflexivity. Qed.
(* zero and five with leading zero bytes: two bytes stay an int64, nine bytes become a big.Int *)
Example C13acc_bin_ex_zero_padded : brun [34; 0; 0] = toks ["T"; "z1"; "I0"; "I0"; "I0"]%string.
Proof. vm_compute. reflexivity. Qed.
Example C13acc_bin_ex_zero_nine : brun [41; 0; 0; 0; 0; 0; 0; 0; 0; 0] = toks ["T"; "z3"; "I0"; "I0"; "I0"]%string.
Proof. vm_compute. reflexivity. Qed.
Example C13acc_bin_ex_five_nine : brun [41; 0; 0; 0; 0; 0; 0; 0; 0; 5] = toks ["T"; "z3"; "I5"; "I5"; "I5"]%string.
Proof. vm_compute. reflexivity. Qed.
(* the thirteen typed nulls 0x0F .. 0xDF: Next, IsNull, then every value accessor *)
Definition aops : list rop :=
  [ONext; OType; OIsNull; OBool; OIntSize; OInt; OInt64; OBigInt; OFloat; ODecimal; OTimestamp; OSymbol; OString; OBytes].
Definition bnull (tag : N) : list (list N) := snd (r_run ts_ok_default (r_init (bvm ++ [tag]) false) aops []).
Example C13acc_bin_ex_nulls :
  map bnull [15; 31; 47; 79; 95; 111; 127; 143; 159; 175; 191; 207; 223] = map toks
  [ ["T"; "y1"; "n1"; "err"; "err"; "err"; "err"; "err"; "err"; "err"; "err"; "err"; "err"; "err"];
    ["T"; "y2"; "n1"; "nil"; "err"; "err"; "err"; "err"; "err"; "err"; "err"; "err"; "err"; "err"];
    ["T"; "y3"; "n1"; "err"; "z0"; "nil"; "nil"; "nil"; "err"; "err"; "err"; "err"; "err"; "err"];
    ["T"; "y4"; "n1"; "err"; "err"; "err"; "err"; "err"; "nil"; "err"; "err"; "err"; "err"; "err"];
    ["T"; "y5"; "n1"; "err"; "err"; "err"; "err"; "err"; "err"; "nil"; "err"; "err"; "err"; "err"];
    ["T"; "y6"; "n1"; "err"; "err"; "err"; "err"; "err"; "err"; "err"; "nil"; "err"; "err"; "err"];
    ["T"; "y7"; "n1"; "err"; "err"; "err"; "err"; "err"; "err"; "err"; "err"; "nil"; "err"; "err"];
    ["T"; "y8"; "n1"; "err"; "err"; "err"; "err"; "err"; "err"; "err"; "err"; "err"; "nil"; "err"];
    ["T"; "y9"; "n1"; "err"; "err"; "err"; "err"; "err"; "err"; "err"; "err"; "err"; "err"; "nil"];
    ["T"; "y10"; "n1"; "err"; "err"; "err"; "err"; "err"; "err"; "err"; "err"; "err"; "err"; "nil"];
    ["T"; "y11"; "n1"; "err"; "err"; "err"; "err"; "err"; "err"; "err"; "err"; "err"; "err"; "err"];
    ["T"; "y12"; "n1"; "err"; "err"; "err"; "err"; "err"; "err"; "err"; "err"; "err"; "err"; "err"];
    ["T"; "y13"; "n1"; "err"; "err"; "err"; "err"; "err"; "err"; "err"; "err"; "err"; "err"; "err"] ]%string.
Proof. vm_compute. reflexivity. Qed.

(* text *)
Example C13acc_text_ex_max32 : trun "2147483647" = toks ["T"; "z1"; "I2147483647"; "I2147483647"; "I2147483647"]%string.
Proof. vm_compute. reflexivity. Qed.
Example C13acc_text_ex_2p31 : trun "2147483648" = toks ["T"; "z2"; "err"; "I2147483648"; "I2147483648"]%string.
Proof. vm_compute. reflexivity. Qed.
Example C13acc_text_ex_min32 : trun "-2147483648" = toks ["T"; "z1"; "I-2147483648"; "I-2147483648"; "I-2147483648"]%string.
Proof. vm_compute. reflexivity. Qed.
Example C13acc_text_ex_min32m1 : trun "-2147483649" = toks ["T"; "z2"; "err"; "I-2147483649"; "I-2147483649"]%string.
Proof. vm_compute. reflexivity. Qed.
Example C13acc_text_ex_max64 : trun "9223372036854775807" = toks ["T"; "z2"; "err"; "I9223372036854775807"; "I9223372036854775807"]%string.
Proof. vm_compute. reflexivity. Qed.
Example C13acc_text_ex_2p63 : trun "9223372036854775808" = toks ["T"; "z3"; "err"; "err"; "I9223372036854775808"]%string.
Proof. vm_compute. reflexivity. Qed.
(* in text -2^63 is parsed by ParseInt itself: Int64, the smallest width *)
Example C13acc_text_ex_min64 : trun "-9223372036854775808" = toks ["T"; "z2"; "err"; "I-9223372036854775808"; "I-9223372036854775808"]%string.
Proof. vm_compute. reflexivity. Qed.
Example C13acc_text_ex_min64m1 : trun "-9223372036854775809" = toks ["T"; "z3"; "err"; "err"; "I-9223372036854775809"]%string.
Proof. vm_compute. reflexivity. Qed.
Example C13acc_text_ex_2p64 : trun "18446744073709551616" = toks ["T"; "z3"; "err"; "err"; "I18446744073709551616"]%string.
Proof. vm_compute. reflexivity. Qed.
Example C13acc_text_ex_hex_2p63 : trun "0x8000000000000000" = toks ["T"; "z3"; "err"; "err"; "I9223372036854775808"]%string.
Proof. vm_compute. reflexivity. Qed.
Example C13acc_text_ex_hex_min64 : trun "-0x8000000000000000" = toks ["T"; "z2"; "err"; "I-9223372036854775808"; "I-9223372036854775808"]%string.
Proof. vm_compute. reflexivity. Qed.
Example C13acc_text_ex_hex_padded : trun "0x0000000000000000000005" = toks ["T"; "z1"; "I5"; "I5"; "I5"]%string.
Proof. vm_compute. reflexivity. Qed.
Example C13acc_text_ex_null_int : trun "null.int" = toks ["T"; "z0"; "nil"; "nil"; "nil"]%string.
Proof. vm_compute. reflexivity. Qed.
Definition tnull (t : string) : list (list N) :=
  snd (x_run parse_decimal_text parse_ts_text (x_init (s t) false) aops []).
Example C13acc_text_ex_nulls :
  map tnull ["null"; "null.bool"; "null.int"; "null.float"; "null.decimal"; "null.timestamp"; "null.symbol";
             "null.string"; "null.clob"; "null.blob"; "null.list"; "null.sexp"; "null.struct"]%string = map toks
  [ ["T"; "y1"; "n1"; "err"; "err"; "err"; "err"; "err"; "err"; "err"; "err"; "err"; "err"; "err"];
    ["T"; "y2"; "n1"; "nil"; "err"; "err"; "err"; "err"; "err"; "err"; "err"; "err"; "err"; "err"];
    ["T"; "y3"; "n1"; "err"; "z0"; "nil"; "nil"; "nil"; "err"; "err"; "err"; "err"; "err"; "err"];
    ["T"; "y4"; "n1"; "err"; "err"; "err"; "err"; "err"; "nil"; "err"; "err"; "err"; "err"; "err"];
    ["T"; "y5"; "n1"; "err"; "err"; "err"; "err"; "err"; "err"; "nil"; "err"; "err"; "err"; "err"];
    ["T"; "y6"; "n1"; "err"; "err"; "err"; "err"; "err"; "err"; "err"; "nil"; "err"; "err"; "err"];
    ["T"; "y7"; "n1"; "err"; "err"; "err"; "err"; "err"; "err"; "err"; "err"; "nil"; "err"; "err"];
    ["T"; "y8"; "n1"; "err"; "err"; "err"; "err"; "err"; "err"; "err"; "err"; "err"; "nil"; "err"];
    ["T"; "y9"; "n1"; "err"; "err"; "err"; "err"; "err"; "err"; "err"; "err"; "err"; "err"; "nil"];
    ["T"; "y10"; "n1"; "err"; "err"; "err"; "err"; "err"; "err"; "err"; "err"; "err"; "err"; "nil"];
    ["T"; "y11"; "n1"; "err"; "err"; "err"; "err"; "err"; "err"; "err"; "err"; "err"; "err"; "err"];
    ["T"; "y12"; "n1"; "err"; "err"; "err"; "err"; "err"; "err"; "err"; "err"; "err"; "err"; "err"];
    ["T"; "y13"; "n1"; "err"; "err"; "err"; "err"; "err"; "err"; "err"; "err"; "err"; "err"; "err"] ]%string.
Proof. vm_compute. reflexivity. Qed.

(* floats: uses_f32 at the float32 boundaries (float64 bit patterns) *)
Example C13acc_float_ex :
  map uses_f32
    [ 9223372036854775808     (* -0.0  0x8000000000000000 *)
    ; 9218868437227405312     (* +inf  0x7FF0000000000000 *)
    ; 18442240474082181120     (* -inf  0xFFF0000000000000 *)
    ; 4602678819172646912     (* 0.5  0x3FE0000000000000 *)
    ; 4591870180066957722     (* 0.1 (nearest float64)  0x3FB999999999999A *)
    ; 3936146074321813504     (* 2^-149, least float32 subnormal  0x36A0000000000000 *)
    ; 3931642474694443008     (* 2^-150, rounds to zero  0x3690000000000000 *)
    ; 3936146074321813505     (* 2^-149 + one float64 ulp  0x36A0000000000001 *)
    ; 4039728864677593088     (* largest float32 subnormal  0x380FFFFFC0000000 *)
    ; 4039728865751334912     (* 2^-126, least float32 normal  0x3810000000000000 *)
    ; 4039728865214464000     (* between them, not a float32  0x380FFFFFE0000000 *)
    ; 5183643170566569984     (* largest float32  0x47EFFFFFE0000000 *)
    ; 5183643170566569985     (* one float64 ulp above it  0x47EFFFFFE0000001 *)
    ; 5183643170835005440     (* rounds to +inf as a float32  0x47EFFFFFF0000000 *)
    ; 4607182419068452864     (* 1 + 2^-24 (a tie, rounds to even)  0x3FF0000010000000 *)
    ; 4607182419336888320     (* 1 + 2^-23  0x3FF0000020000000 *)
    ] = [true; true; true; true; false; true; false; false; true; true; false; true; false; false; false; true].
Proof. vm_compute. reflexivity. Qed.
(* what the Writer model emits for them: -0.0 and 2^-149 in four bytes, 0.1 in eight, +0.0 in none, NaN canonical *)
Example C13acc_float_ex_enc :
  map RoundTripBin.enc_float [0; 9223372036854775808; 3936146074321813504; 4591870180066957722; 9221120237041090561] =
  [ [64]; [68; 128; 0; 0; 0]; [68; 0; 0; 0; 1]; [72; 63; 185; 153; 153; 153; 153; 153; 154]; [68; 127; 192; 0; 0] ].
Proof. vm_compute. reflexivity. Qed.
(* every float32 subnormal boundary narrows back exactly *)
Example C13acc_float_ex_narrow_widen :
  map (fun f => narrow (widen f)) [1; 2; 8388607; 8388608; 2139095039; 2147483649; 4286578688] =
  [1; 2; 8388607; 8388608; 2139095039; 2147483649; 4286578688].
Proof. vm_compute. reflexivity. Qed.
