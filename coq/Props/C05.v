(* C05 — copying a Reader into a Writer preserves data.  Statements only. *)
From Coq Require Import List NArith ZArith Bool.
From IonV Require Import Base.Wire Data.Ion Bin.BinWriter Bin.BinWriterP Cli.Process Cli.ProcessP.
Import ListNotations.

(* The copy loop (field name, annotations, value, recursing into containers; process.go's loop is the
   README loop generalised to every type) issues, for ANY Writer that accepts the calls, a call sequence
   whose values are exactly the observed source forest, symbols carried by text when known. *)
Theorem C05_copy_loop_values :
  forall (W : Type) (wstep : W -> wcall -> res (W * bool)) (w w2 : W) vs,
  forest_ok vs = true ->
  drive wstep w (fst (calls_upto_forest vs) ++ [CFinish]) = Ok (w2, true) ->
  process_fixed wstep w vs =
    Ok {| oc_w := w2; oc_calls := fst (calls_upto_forest vs) ++ [CFinish]; oc_reports := [] |} /\
  values_of_calls (fst (calls_upto_forest vs) ++ [CFinish]) = Some (map value_of vs).
Proof. exact transcode_any_writer. Qed.

(* The binary Writer resolves a token that has text by that text alone: the symbol ID the source stream
   happened to use does not influence what is written (field names, annotations, symbol values). *)
Theorem C05_copy_tokens_by_text : forall run w t x, tk_text t = Some x ->
  id_of_tok_field w t = id_of_tok_field w (tok_text x) /\
  id_of_tok_annot w t = id_of_tok_annot w (tok_text x) /\
  step run w (CSymbol t) = step run w (CSymbol (tok_text x)).
Proof. exact copy_tokens_by_text. Qed.
