(* C06 (binary reader) — hostile input: no navigation program makes the reader panic, every
   loop terminates within the model's input-proportional fuel, memory follows the input.
   Statements only; every proof is [exact <lemma>]. *)
From Coq Require Import String List NArith ZArith Bool.
From IonV Require Import Base.Wire Bin.Bits Data.Ion Bin.BitStream Bin.BinReader
  Bin.BitStreamP Bin.BitStreamNextP Bin.BinReaderInvP Bin.BinReaderP Bin.BinReaderTs Bin.BinReaderTsP.
Import ListNotations.
Open Scope N_scope.

Section C06.
(* the timestamp acceptance test: any function that itself neither panics nor diverges *)
Variable ts : list N -> res unit.
Hypothesis ts_total : forall bs, ts bs <> Panic /\ ts bs <> OutOfFuel.

(* T2: for every input that selects the binary reader (E0 a b EA ...), every I/O failure mode and
   EVERY navigation program, the trace never contains "panic" ... *)
Theorem C06bin_never_panics : forall a b rest ioerr (p : list rop),
  ~ In (s "panic"%string) (snd (r_run ts (r_init (224 :: a :: b :: 234 :: rest) ioerr) p [])).
Proof. exact (binreader_never_panics ts ts_total). Qed.
(* ... equivalently every call of the program returns (no Panic, and no OutOfFuel either: T3) *)
Theorem C06bin_every_call_returns : forall a b rest ioerr (p : list rop),
  exists r' tr, r_run_ok ts (r_init (224 :: a :: b :: 234 :: rest) ioerr) p = Some (r', tr).
Proof. exact (binreader_every_call_returns ts ts_total). Qed.
(* T3: in every state a program can reach, Next returns within the fuel (input length + 2 raw items,
   11 bytes per VarUInt): every loop iteration consumes input or stops *)
Theorem C06bin_next_terminates : forall a b rest ioerr (p : list rop),
  let r := fst (r_run ts (r_init (224 :: a :: b :: 234 :: rest) ioerr) p []) in
  exists ok, snd (r_next ts r) = Ok ok.
Proof. exact (binreader_next_total ts ts_total). Qed.
(* T3': the largest single allocation ever requested is the input size plus one 64 KiB chunk *)
Theorem C06bin_memory_follows_input : forall a b rest ioerr (p : list rop),
  let inp := 224 :: a :: b :: 234 :: rest in
  b_alloc (r_bits (fst (r_run ts (r_init inp ioerr) p []))) <= N.of_nat (length inp) + 65536.
Proof. exact (binreader_alloc_bounded ts ts_total). Qed.

(* the same bound for what the plain traversal reports (the memtrav / btrav observable) *)
Theorem C06bin_traverse_memory : forall a b rest ioerr,
  let inp := 224 :: a :: b :: 234 :: rest in
  snd (traverse ts inp ioerr) <= N.of_nat (length inp) + 65536.
Proof. exact (traverse_alloc_bounded ts ts_total). Qed.

(* the invariant behind it: every API call preserves it and returns *)
Theorem C06bin_call_preserves_invariant : forall r o, RInv r ->
  RInv (fst (r_op ts r o)) /\ snd (r_op ts r o) <> None /\ wle (r_bits r) (r_bits (fst (r_op ts r o))).
Proof. exact (r_op_safe ts ts_total). Qed.
End C06.

(* the hypothesis on [ts] holds for the timestamp reader the checks actually run (Num/Timestamp.v,
   repaired tree): it neither panics nor runs out of fuel on any body *)
Theorem C06bin_default_ts_total : forall body,
  ts_ok_default body <> Panic /\ ts_ok_default body <> OutOfFuel.
Proof. exact ts_ok_default_total. Qed.
Theorem C06bin_never_panics_default : forall a b rest ioerr (p : list rop),
  ~ In (s "panic"%string) (snd (r_run ts_ok_default (r_init (224 :: a :: b :: 234 :: rest) ioerr) p [])).
Proof. exact (C06bin_never_panics ts_ok_default ts_ok_default_total). Qed.
Theorem C06bin_every_call_returns_default : forall a b rest ioerr (p : list rop),
  exists r' tr, r_run_ok ts_ok_default (r_init (224 :: a :: b :: 234 :: rest) ioerr) p = Some (r', tr).
Proof. exact (C06bin_every_call_returns ts_ok_default ts_ok_default_total). Qed.
Theorem C06bin_traverse_memory_default : forall a b rest ioerr,
  let inp := 224 :: a :: b :: 234 :: rest in
  snd (traverse ts_ok_default inp ioerr) <= N.of_nat (length inp) + 65536.
Proof. exact (C06bin_traverse_memory ts_ok_default ts_ok_default_total). Qed.

(* bitstream level: every operation keeps the cursor invariant and neither panics nor runs out of fuel *)
Theorem C06bin_bitstream_next : forall b, binv b -> ospec b (b_next b) (fun b' _ => npost b b').
Proof. exact b_next_spec. Qed.
Theorem C06bin_bitstream_skip : forall b, binv b ->
  ospec b (b_skip_value b) (fun b' _ => opost b b' /\ quiet b' /\ b_stack b' = b_stack b /\ b_avail b' <= b_avail b).
Proof. exact b_skip_value_spec. Qed.
Theorem C06bin_bitstream_step_in : forall b, binv b -> b_state b = bssOnValue -> is_container_code (b_code b) ->
  ospec b (b_step_in b)
        (fun b' _ => opost b b' /\ quiet b' /\
                     b_stack b' = (b_code b, b_pos b + b_len b) :: b_stack b /\ b_avail b' = b_avail b /\
                     b_pos b' = b_pos b /\ b_in b' = b_in b).
Proof. exact b_step_in_spec. Qed.
Theorem C06bin_bitstream_step_out : forall b c e rest, binv b -> b_stack b = (c, e) :: rest ->
  ospec b (b_step_out b)
        (fun b' _ => opost b b' /\ quiet b' /\ b_stack b' = rest /\ b_avail b' <= b_avail b /\ b_pos b' = e).
Proof. exact b_step_out_spec. Qed.
Theorem C06bin_bitstream_bvm : forall b, binv b -> b_code b = bcBVM -> b_stack b = [] ->
  ospec b (b_read_bvm b) (fun b' _ => vpost b b' /\ b_avail b' < b_avail b).
Proof. exact b_read_bvm_spec. Qed.
Theorem C06bin_bitstream_field_id : forall b, binv b -> b_code b = bcFieldID -> b_state b = bssOnFieldID ->
  ospec b (b_read_field_id b) (fun b' _ => vpost b b' /\ b_avail b' < b_avail b).
Proof. exact b_read_field_id_spec. Qed.
Theorem C06bin_bitstream_int : forall b, binv b -> b_state b = bssOnValue -> b_code b = bcInt \/ b_code b = bcNegInt ->
  ospec b (b_read_int b) (fun b' _ => vpost b b').
Proof. exact b_read_int_spec. Qed.
Theorem C06bin_bitstream_float : forall b, binv b -> b_state b = bssOnValue -> b_code b = bcFloat ->
  ospec b (b_read_float b) (fun b' _ => vpost b b').
Proof. exact b_read_float_spec. Qed.
Theorem C06bin_bitstream_decimal : forall b, binv b -> b_state b = bssOnValue -> b_code b = bcDecimal ->
  ospec b (b_read_decimal b) (fun b' _ => vpost b b').
Proof. exact b_read_decimal_spec. Qed.
Theorem C06bin_bitstream_timestamp : forall b ts, (forall bs, ts bs <> Panic /\ ts bs <> OutOfFuel) ->
  binv b -> b_state b = bssOnValue -> b_code b = bcTimestamp ->
  ospec b (b_read_timestamp b ts) (fun b' _ => vpost b b').
Proof. exact b_read_timestamp_spec. Qed.
Theorem C06bin_bitstream_symbol : forall b, binv b -> b_state b = bssOnValue -> b_code b = bcSymbol ->
  ospec b (b_read_symbol_id b) (fun b' _ => vpost b b').
Proof. exact b_read_symbol_id_spec. Qed.
Theorem C06bin_bitstream_string : forall b, binv b -> b_state b = bssOnValue -> b_code b = bcString ->
  ospec b (b_read_string b) (fun b' _ => vpost b b').
Proof. exact b_read_string_spec. Qed.
Theorem C06bin_bitstream_bytes : forall b, binv b -> b_state b = bssOnValue -> b_code b = bcClob \/ b_code b = bcBlob ->
  ospec b (b_read_bytes b) (fun b' _ => vpost b b').
Proof. exact b_read_bytes_spec. Qed.
Theorem C06bin_bitstream_init : forall inp ioerr, binv (b_init inp ioerr).
Proof. exact binv_init. Qed.
Theorem C06bin_bitstream_annotations : forall b ok, binv b -> b_state b = bssOnValue -> b_code b = bcAnnotation ->
  ospec b (b_read_annotations b ok) (fun b' _ => vpost b b' /\ b_avail b' < b_avail b).
Proof. exact b_read_annotations_spec. Qed.

(* the hypotheses are satisfiable, and the defect this proof found is gone: a list longer than the input,
   StepOut fails, and the second StepOut (which used to panic "StepOut called at top level") is refused *)
Example C06bin_witness :
  let ts := fun _ : list N => Ok tt in
  (forall bs, ts bs <> Panic /\ ts bs <> OutOfFuel) /\
  join_sp (snd (r_run ts (r_init [224; 1; 0; 234; 179] false) [ONext; OStepIn; OStepOut; OStepOut] []))
  = s "T ok err err" /\
  RInv (r_init [224; 1; 0; 234; 179] false).
Proof. split; [intros bs; split; discriminate|]. split; [vm_compute; reflexivity|apply RInv_init]. Qed.
