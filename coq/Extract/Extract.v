(* Extract.v — extraction of the executable model.  Only ExtrOcamlBasic's
   directives are in force; N, Z, positive and nat stay inductive. *)
From Coq Require Import Extraction ExtrOcamlBasic.
From IonV Require Import Drv.Driver.
Extraction Language OCaml.
Extraction "vmodel.ml" run_line.
