(* Bufio.v — MODEL of Go's bufio.Reader (go1.23 src/bufio/bufio.go: fill, ReadByte, Peek, Discard, Read) and of
   io.ReadFull over it, reading from an io.Reader that delivers a byte string in arbitrary chunks and then reports a
   final error (io.EOF or a failure), alone or together with the last chunk.  These four operations are the whole
   interface between ion-go's Readers and their input (ion/bitstream.go: ReadByte, Peek, Discard, io.ReadFull;
   ion/tokenizer.go: ReadByte, Peek; ion/reader.go: Peek) — lib/props/c19.py checks that on the source on every run.
   SPEC: the same operations over the plain remaining byte string, where chunks do not exist.
   No proofs here (Base/BufioP.v). *)
From Coq Require Import List NArith Arith Bool.
Import ListNotations.

(* the final error of the source *)
Inductive ferr := FEof | FFail.
(* what an operation can report *)
Inductive berr := EEof | EFail | EBufferFull | EUnexpectedEof | ENoProgress.
Definition of_ferr (e : ferr) : berr := match e with FEof => EEof | FFail => EFail end.

(* ---- the source: an io.Reader ------------------------------------------------------------------------------- *)
(* [s_sched]: the size the source is willing to deliver at each Read call is [S k] for the next entry k (at least one
   byte: a Read that returns (0, nil) is outside this model); when the schedule is used up it delivers everything.
   [s_with]: the call that delivers the last byte also returns the final error (n > 0, err != nil). After the
   data every call returns (0, final error), as bytes.Reader and a persistent failure do. *)
Record source := mkSource { s_rest : list N; s_sched : list nat; s_fin : ferr; s_with : bool }.

Definition src_read (cap : nat) (s : source) : list N * option ferr * source :=
  match s_rest s with
  | [] => ([], Some (s_fin s), s)
  | _ :: _ =>
    let want := match s_sched s with [] => length (s_rest s) | k :: _ => S k end in
    let n := Nat.min cap (Nat.min want (length (s_rest s))) in
    let d := firstn n (s_rest s) in
    let r := skipn n (s_rest s) in
    let e := match r with [] => if s_with s then Some (s_fin s) else None | _ :: _ => None end in
    (d, e, mkSource r (tl (s_sched s)) (s_fin s) (s_with s))
  end.

(* ---- bufio.Reader ------------------------------------------------------------------------------------------- *)
(* b.buf[b.r:b.w] as a list; b.err; the underlying reader.  fill() first slides the unread bytes to the start, so the
   space offered to the source is size - (w - r): the positions r, w themselves never matter. *)
Record breader := mkB { b_buf : list N; b_err : option ferr; b_src : source }.
Definition default_bsize : nat := 4096.                 (* defaultBufSize; ion-go never asks for another size *)
Definition max_empty_more : nat := 99.
Definition max_empty_reads : nat := S max_empty_more.       (* maxConsecutiveEmptyReads = 100 *)

Section WithSize.
Variable bsize : nat.                                   (* len(b.buf); the theorems hold for every size >= 1 *)

Definition new_breader (s : source) : breader := mkB [] None s.

(* fill(): precondition w - r < len(buf).  The loop over maxConsecutiveEmptyReads: a call that returns neither bytes
   nor an error is repeated; the hundredth leaves ErrNoProgress.  Returns the reader and whether ErrNoProgress was set
   (it is a berr, not a source error; with cap >= 1 and this source model the first call always ends the loop). *)
Fixpoint fill_loop (fuel : nat) (b : breader) : breader * bool :=
  match fuel with
  | O => (b, true)
  | S f =>
    let '(d, e, s') := src_read (bsize - length (b_buf b)) (b_src b) in
    let b' := mkB (b_buf b ++ d) (b_err b) s' in
    match e with
    | Some x => (mkB (b_buf b') (Some x) s', false)
    | None => match d with [] => fill_loop f b' | _ :: _ => (b', false) end
    end
  end.
Definition fill (b : breader) : breader * bool := fill_loop (S max_empty_more) b.

(* readErr(): returns b.err and clears it *)
Definition read_err (b : breader) : option ferr * breader := (b_err b, mkB (b_buf b) None (b_src b)).

Inductive rbyte := RB (c : N) | RBErr (e : berr).

(* ReadByte: for b.r == b.w { if b.err != nil { return 0, b.readErr() }; b.fill() } *)
Fixpoint read_byte_loop (fuel : nat) (b : breader) : rbyte * breader :=
  match b_buf b with
  | c :: t => (RB c, mkB t (b_err b) (b_src b))
  | [] =>
    match b_err b with
    | Some e => (RBErr (of_ferr e), mkB [] None (b_src b))
    | None =>
      match fuel with
      | O => (RBErr ENoProgress, b)
      | S f => let '(b', np) := fill b in
               if np then (RBErr ENoProgress, b') else read_byte_loop f b'
      end
    end
  end.
Definition read_byte (b : breader) : rbyte * breader := read_byte_loop 2 b.

(* Peek(n): for b.w-b.r < n && b.w-b.r < len(b.buf) && b.err == nil { b.fill() } ... *)
Fixpoint peek_fill (fuel : nat) (n : nat) (b : breader) : breader * bool :=
  match fuel with
  | O => (b, false)
  | S f =>
    if (length (b_buf b) <? n) && (length (b_buf b) <? bsize) &&
       match b_err b with None => true | Some _ => false end
    then let '(b', np) := fill b in if np then (b', true) else peek_fill f n b'
    else (b, false)
  end.
Definition peek (n : nat) (b : breader) : list N * option berr * breader :=
  let '(b1, np) := peek_fill (S (Nat.min n bsize)) n b in
  if np then (b_buf b1, Some ENoProgress, b1)      (* fill stored ErrNoProgress in b.err; not reachable here *)
  else if bsize <? n then (b_buf b1, Some EBufferFull, b1)
  else if length (b_buf b1) <? n then
    let '(e, b2) := read_err b1 in
    (b_buf b1, Some (match e with Some x => of_ferr x | None => EBufferFull end), b2)
  else (firstn n (b_buf b1), None, b1).

(* Discard(n) *)
Fixpoint discard_loop (fuel : nat) (n remain : nat) (b : breader) : nat * option berr * breader :=
  match fuel with
  | O => (n - remain, Some ENoProgress, b)
  | S f =>
    let '(b1, np) := match b_buf b with [] => fill b | _ :: _ => (b, false) end in
    let skip := Nat.min (length (b_buf b1)) remain in
    let b2 := mkB (skipn skip (b_buf b1)) (b_err b1) (b_src b1) in
    let remain' := remain - skip in
    if remain' =? 0 then (n, None, b2)
    else if np then (n - remain', Some ENoProgress, b2)
    else match b_err b2 with
         | Some e => (n - remain', Some (of_ferr e), mkB (b_buf b2) None (b_src b2))
         | None => discard_loop f n remain' b2
         end
  end.
Definition discard (n : nat) (b : breader) : nat * option berr * breader :=
  match n with O => (0, None, b) | _ => discard_loop (S n) n n b end.

(* Read(p) with len(p) = m: at most ONE read of the source; what it returns depends on the chunks *)
Definition bread (m : nat) (b : breader) : list N * option ferr * breader :=
  match m with
  | O => match b_buf b with
         | _ :: _ => ([], None, b)
         | [] => let '(e, b') := read_err b in ([], e, b')
         end
  | S _ =>
    match b_buf b with
    | [] =>
      match b_err b with
      | Some e => ([], Some e, mkB [] None (b_src b))
      | None =>
        if bsize <=? m then                              (* large read, empty buffer: straight into p *)
          let '(d, e, s') := src_read m (b_src b) in (d, e, mkB [] None s')
        else
          let '(d, e, s') := src_read bsize (b_src b) in
          match d with
          | [] => ([], e, mkB [] None s')
          | _ :: _ => (firstn m d, None, mkB (skipn m d) e s')
          end
      end
    | _ :: _ => (firstn m (b_buf b), None, mkB (skipn m (b_buf b)) (b_err b) (b_src b))
    end
  end.

(* io.ReadFull(b, p) = io.ReadAtLeast(b, p, len(p)):
     for n < min && err == nil { nn, err = r.Read(buf[n:]); n += nn }
     if n >= min { err = nil } else if n > 0 && err == EOF { err = ErrUnexpectedEOF } *)
Fixpoint read_full_loop (fuel : nat) (m : nat) (acc : list N) (b : breader) : list N * option berr * breader :=
  if m <=? length acc then (acc, None, b)
  else match fuel with
       | O => (acc, Some ENoProgress, b)
       | S f =>
         let '(d, e, b') := bread (m - length acc) b in
         let acc' := acc ++ d in
         match e with
         | None => read_full_loop f m acc' b'
         | Some x =>
           if m <=? length acc' then (acc', None, b')
           else (acc', Some (match acc', x with
                             | _ :: _, FEof => EUnexpectedEof
                             | _, _ => of_ferr x end), b')
         end
       end.
Definition read_full (m : nat) (b : breader) : list N * option berr * breader := read_full_loop (S (S m)) m [] b.

End WithSize.

(* ---- SPEC: the same operations where the input is just the remaining bytes and the final error ---------------- *)
Record flat := mkFlat { f_all : list N; f_fin : ferr }.

Definition spec_read_byte (x : flat) : rbyte * flat :=
  match f_all x with
  | c :: t => (RB c, mkFlat t (f_fin x))
  | [] => (RBErr (of_ferr (f_fin x)), x)
  end.
Definition spec_peek (bsize : nat) (n : nat) (x : flat) : list N * option berr * flat :=
  if bsize <? n then (firstn bsize (f_all x), Some EBufferFull, x)
  else if length (f_all x) <? n then (f_all x, Some (of_ferr (f_fin x)), x)
  else (firstn n (f_all x), None, x).
Definition spec_discard (n : nat) (x : flat) : nat * option berr * flat :=
  let k := Nat.min n (length (f_all x)) in
  (k, if k =? n then None else Some (of_ferr (f_fin x)), mkFlat (skipn k (f_all x)) (f_fin x)).
Definition spec_read_full (m : nat) (x : flat) : list N * option berr * flat :=
  let d := firstn m (f_all x) in
  (d,
   if m <=? length (f_all x) then None
   else Some (match d, f_fin x with _ :: _, FEof => EUnexpectedEof | _, e => of_ferr e end),
   mkFlat (skipn m (f_all x)) (f_fin x)).

(* ---- clients: any deterministic program that talks to its input through the four operations ------------------- *)
Inductive op := OReadByte | OPeek (n : nat) | ODiscard (n : nat) | OReadFull (n : nat).
Inductive ores :=
| ResByte (r : rbyte)
| ResBytes (d : list N) (e : option berr)
| ResCount (n : nat) (e : option berr).

(* a client is a strategy tree: it ends with a result or performs an operation and continues with what it was told *)
Inductive client (R : Type) :=
| Done (r : R)
| Do (o : op) (k : ores -> client R).
Arguments Done {R} _.
Arguments Do {R} _ _.

Section Clients.
Variable bsize : nat.
Definition do_op (o : op) (b : breader) : ores * breader :=
  match o with
  | OReadByte => let '(r, b') := read_byte bsize b in (ResByte r, b')
  | OPeek n => let '(d, e, b') := peek bsize n b in (ResBytes d e, b')
  | ODiscard n => let '(k, e, b') := discard bsize n b in (ResCount k e, b')
  | OReadFull n => let '(d, e, b') := read_full bsize n b in (ResBytes d e, b')
  end.
Definition spec_op (o : op) (x : flat) : ores * flat :=
  match o with
  | OReadByte => let '(r, x') := spec_read_byte x in (ResByte r, x')
  | OPeek n => let '(d, e, x') := spec_peek bsize n x in (ResBytes d e, x')
  | ODiscard n => let '(k, e, x') := spec_discard n x in (ResCount k e, x')
  | OReadFull n => let '(d, e, x') := spec_read_full n x in (ResBytes d e, x')
  end.


Fixpoint run {R} (c : client R) (b : breader) : R * breader :=
  match c with
  | Done r => (r, b)
  | Do o k => let '(x, b') := do_op o b in run (k x) b'
  end.
Fixpoint run_spec {R} (c : client R) (x : flat) : R * flat :=
  match c with
  | Done r => (r, x)
  | Do o k => let '(y, x') := spec_op o x in run_spec (k y) x'
  end.

(* op programs for the correspondence check: the list of results *)
Fixpoint run_ops (os : list op) (b : breader) : list ores :=
  match os with
  | [] => []
  | o :: t => let '(x, b') := do_op o b in x :: run_ops t b'
  end.
Fixpoint spec_ops (os : list op) (x : flat) : list ores :=
  match os with
  | [] => []
  | o :: t => let '(y, x') := spec_op o x in y :: spec_ops t x'
  end.
End Clients.
