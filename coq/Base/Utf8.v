(* Utf8.v — unicode/utf8.Valid on a byte list (RFC 3629: no overlongs, no
   surrogates, nothing above U+10FFFF).  No proofs. *)
From Coq Require Import List NArith Bool.
Import ListNotations.
Open Scope N_scope.

Definition cont (c : N) : bool := (128 <=? c) && (c <=? 191).
Definition in_range (lo hi c : N) : bool := (lo <=? c) && (c <=? hi).

Fixpoint utf8_valid_fuel (fuel : nat) (l : list N) : bool :=
  match fuel with
  | O => match l with [] => true | _ => false end
  | S f =>
    match l with
    | [] => true
    | c :: r =>
      if c <? 128 then utf8_valid_fuel f r
      else if in_range 194 223 c then
        match r with c1 :: r' => cont c1 && utf8_valid_fuel f r' | _ => false end
      else if c =? 224 then
        match r with c1 :: c2 :: r' => in_range 160 191 c1 && cont c2 && utf8_valid_fuel f r' | _ => false end
      else if in_range 225 236 c || in_range 238 239 c then
        match r with c1 :: c2 :: r' => cont c1 && cont c2 && utf8_valid_fuel f r' | _ => false end
      else if c =? 237 then
        match r with c1 :: c2 :: r' => in_range 128 159 c1 && cont c2 && utf8_valid_fuel f r' | _ => false end
      else if c =? 240 then
        match r with c1 :: c2 :: c3 :: r' => in_range 144 191 c1 && cont c2 && cont c3 && utf8_valid_fuel f r' | _ => false end
      else if in_range 241 243 c then
        match r with c1 :: c2 :: c3 :: r' => cont c1 && cont c2 && cont c3 && utf8_valid_fuel f r' | _ => false end
      else if c =? 244 then
        match r with c1 :: c2 :: c3 :: r' => in_range 128 143 c1 && cont c2 && cont c3 && utf8_valid_fuel f r' | _ => false end
      else false
    end
  end.
Definition utf8_valid (l : list N) : bool := utf8_valid_fuel (length l) l.
