(* Wire.v — the line protocol shared by the Go harness, the Python orchestrator
   and the extracted model.  A line is a list of space-separated tokens; bytes
   are written "x" ++ hex, integers in decimal with an optional leading '-'.
   Characters and bytes are [N].  No proofs here. *)
From Coq Require Import List NArith ZArith String Ascii Bool.
Import ListNotations.
Open Scope N_scope.

Definition bytes := list N.

Definition bytes_of_string (s : string) : list N :=
  map N_of_ascii (list_ascii_of_string s).

(* ---- result type of every model function -------------------------------- *)
Inductive res (A : Type) : Type :=
| Ok (a : A)
| Err           (* the Go code returns a non-nil error *)
| Panic         (* the Go code panics / dereferences nil *)
| OutOfFuel.    (* model recursion budget exhausted: excluded by theorems *)
Arguments Ok {A} a.
Arguments Err {A}.
Arguments Panic {A}.
Arguments OutOfFuel {A}.

Definition bind {A B} (r : res A) (f : A -> res B) : res B :=
  match r with
  | Ok a => f a
  | Err => Err
  | Panic => Panic
  | OutOfFuel => OutOfFuel
  end.
Notation "'do' x <- r ; k" := (bind r (fun x => k))
  (at level 200, x name, r at level 100, k at level 200, right associativity).
Notation "'do' ' p <- r ; k" := (bind r (fun p => k))
  (at level 200, p pattern, r at level 100, k at level 200, right associativity).

Definition is_ok {A} (r : res A) : bool := match r with Ok _ => true | _ => false end.

(* ---- tokens -------------------------------------------------------------- *)
Fixpoint split_on (sep : N) (l cur : list N) : list (list N) :=
  match l with
  | [] => [rev_append cur []]
  | c :: r => if c =? sep then rev_append cur [] :: split_on sep r [] else split_on sep r (c :: cur)
  end.
Definition tokens (l : list N) : list (list N) :=
  filter (fun t => match t with [] => false | _ => true end) (split_on 32 l []).

Fixpoint join_sp (ts : list (list N)) : list N :=
  match ts with
  | [] => []
  | [t] => t
  | t :: r => t ++ 32 :: join_sp r
  end.

Fixpoint list_eqb (a b : list N) : bool :=
  match a, b with
  | [], [] => true
  | x :: a', y :: b' => (x =? y) && list_eqb a' b'
  | _, _ => false
  end.

Definition tok_is (t : list N) (s : string) : bool := list_eqb t (bytes_of_string s).

(* ---- hex ------------------------------------------------------------------ *)
Definition hexdigit (d : N) : N := if d <? 10 then 48 + d else 87 + d.
Definition hexval (c : N) : option N :=
  if (48 <=? c) && (c <=? 57) then Some (c - 48)
  else if (97 <=? c) && (c <=? 102) then Some (c - 87)
  else if (65 <=? c) && (c <=? 70) then Some (c - 55)
  else None.

Fixpoint hex_of_bytes (l : list N) : list N :=
  match l with
  | [] => []
  | b :: r => hexdigit (b / 16) :: hexdigit (b mod 16) :: hex_of_bytes r
  end.
Definition xhex (l : list N) : list N := 120 :: hex_of_bytes l.

Fixpoint unhex (l : list N) : option (list N) :=
  match l with
  | [] => Some []
  | h :: l' =>
    match l' with
    | [] => None
    | lo :: r =>
      match hexval h, hexval lo, unhex r with
      | Some a, Some b, Some t => Some (a * 16 + b :: t)
      | _, _, _ => None
      end
    end
  end.
Definition parse_xhex (t : list N) : option (list N) :=
  match t with
  | 120 :: r => unhex r
  | _ => None
  end.

(* ---- decimal --------------------------------------------------------------- *)
Fixpoint uint_chars (u : Decimal.uint) : list N :=
  match u with
  | Decimal.Nil => []
  | Decimal.D0 r => 48 :: uint_chars r
  | Decimal.D1 r => 49 :: uint_chars r
  | Decimal.D2 r => 50 :: uint_chars r
  | Decimal.D3 r => 51 :: uint_chars r
  | Decimal.D4 r => 52 :: uint_chars r
  | Decimal.D5 r => 53 :: uint_chars r
  | Decimal.D6 r => 54 :: uint_chars r
  | Decimal.D7 r => 55 :: uint_chars r
  | Decimal.D8 r => 56 :: uint_chars r
  | Decimal.D9 r => 57 :: uint_chars r
  end.
Definition dec_of_N (n : N) : list N := uint_chars (N.to_uint n).
Definition dec_of_Z (z : Z) : list N :=
  match z with
  | Zneg p => 45 :: dec_of_N (Npos p)
  | _ => dec_of_N (Z.to_N z)
  end.

Fixpoint parse_digits (l : list N) (acc : N) : option N :=
  match l with
  | [] => Some acc
  | c :: r => if (48 <=? c) && (c <=? 57) then parse_digits r (acc * 10 + (c - 48)) else None
  end.
Definition parse_N (t : list N) : option N :=
  match t with [] => None | _ => parse_digits t 0 end.
Definition parse_Z (t : list N) : option Z :=
  match t with
  | 45 :: r => option_map (fun n => Z.opp (Z.of_N n)) (parse_N r)
  | _ => option_map Z.of_N (parse_N t)
  end.

(* ---- output helpers --------------------------------------------------------- *)
Definition s (x : string) : list N := bytes_of_string x.
Definition out_res {A} (f : A -> list (list N)) (r : res A) : list N :=
  match r with
  | Ok a => join_sp (s "ok" :: f a)
  | Err => s "err"
  | Panic => s "panic"
  | OutOfFuel => s "outoffuel"
  end.
Definition bad_input : list N := s "badinput".
