(* BufioP.v — proofs about Base/Bufio.v: every operation of the bufio.Reader model over a chunked source returns what
   the chunk-free specification returns on the remaining bytes, whatever the chunk schedule and buffer size; hence any
   client program gets the same results under any two chunkings of the same bytes, and a source failure is never
   reported as EOF. *)
From Coq Require Import List NArith Arith Bool Lia.
From IonV Require Import Base.Bufio.
Import ListNotations.

(* the chunk-free view of a reader: unread buffered bytes followed by what the source still holds *)
Definition abs (b : breader) : flat := mkFlat (b_buf b ++ s_rest (b_src b)) (s_fin (b_src b)).

(* ---- the source ------------------------------------------------------------------------------------------------ *)
Lemma src_read_spec cap s d e s' :
  1 <= cap -> src_read cap s = (d, e, s') ->
  s_rest s = d ++ s_rest s' /\ s_fin s' = s_fin s /\ length d <= cap /\
  (s_rest s = [] -> d = [] /\ e = Some (s_fin s) /\ s' = s) /\
  (forall x, e = Some x -> x = s_fin s /\ s_rest s' = []) /\
  (e = None -> d <> []).
Proof.
  intros Hc H. unfold src_read in H. destruct (s_rest s) as [|c r] eqn:Er.
  - inversion H; subst. rewrite Er. cbn [app length].
    split; [reflexivity|]. split; [reflexivity|]. split; [lia|]. split; [auto|].
    split; [intros x Hx; inversion Hx; auto|discriminate].
  - set (want := match s_sched s with [] => length (c :: r) | k :: _ => S k end) in H.
    set (n := Nat.min cap (Nat.min want (length (c :: r)))) in H.
    assert (Hw : 1 <= want) by (unfold want; destruct (s_sched s); cbn [length]; lia).
    assert (Hn : 1 <= n) by (unfold n; cbn [length]; lia).
    assert (Hn2 : n <= cap) by (unfold n; lia).
    inversion H; subst d e s'; clear H. cbn [s_rest s_fin].
    assert (Hd : firstn n (c :: r) <> []) by (destruct n; [lia|cbn [firstn]; discriminate]).
    split; [symmetry; apply firstn_skipn|]. split; [reflexivity|].
    split; [rewrite firstn_length; lia|]. split; [discriminate|].
    split.
    + intros x Hx. destruct (skipn n (c :: r)); [|discriminate].
      destruct (s_with s); [|discriminate]. inversion Hx; auto.
    + intros _. exact Hd.
Qed.

Section WithSize.
Variable bsize : nat.
Hypothesis bsize_pos : 1 <= bsize.

(* a recorded error is the source's final error and the source is exhausted; the buffer never exceeds its size *)
Definition Inv (b : breader) : Prop :=
  length (b_buf b) <= bsize /\
  match b_err b with Some e => s_rest (b_src b) = [] /\ e = s_fin (b_src b) | None => True end.

Lemma inv_new s : Inv (new_breader s).
Proof. split; cbn; [apply Nat.le_0_l|exact I]. Qed.
Lemma abs_new s : abs (new_breader s) = mkFlat (s_rest s) (s_fin s).
Proof. reflexivity. Qed.

(* ---- fill ------------------------------------------------------------------------------------------------------ *)
Lemma fill_spec b b' np :
  Inv b -> length (b_buf b) < bsize -> fill bsize b = (b', np) ->
  np = false /\ abs b' = abs b /\ Inv b' /\ s_fin (b_src b') = s_fin (b_src b) /\
  (exists d, b_buf b' = b_buf b ++ d) /\
  (b_err b' = None -> length (b_buf b) < length (b_buf b')).
Proof.
  intros [Hl He] Hlt H. unfold fill in H. cbn [fill_loop] in H.
  destruct (src_read (bsize - length (b_buf b)) (b_src b)) as [[d e] s'] eqn:Es. cbn [b_buf] in H.
  apply src_read_spec in Es; [|lia]. destruct Es as (E1 & E2 & E3 & E5 & E6 & E7).
  destruct e as [x|].
  - inversion H; subst b' np; clear H. destruct (E6 x eq_refl) as [Ex Er].
    unfold abs, Inv; cbn [b_buf b_err b_src]. rewrite E1, E2, app_assoc.
    split; [reflexivity|]. split; [reflexivity|]. split; [split; [rewrite app_length; lia|auto]|].
    split; [reflexivity|]. split; [eauto|discriminate].
  - specialize (E7 eq_refl). destruct d as [|c d]; [exfalso; apply E7; reflexivity|].
    inversion H; subst b' np; clear H.
    unfold abs, Inv; cbn [b_buf b_err b_src]. rewrite E1, E2, app_assoc.
    split; [reflexivity|]. split; [reflexivity|]. split.
    { split; [rewrite app_length; lia|].
      destruct (b_err b) as [e|]; auto. destruct He as [Hr _]. rewrite Hr in E1. discriminate. }
    split; [reflexivity|]. split; [eauto|]. intros _. rewrite app_length. cbn [length]. lia.
Qed.

(* ---- ReadByte -------------------------------------------------------------------------------------------------- *)
Lemma read_byte_spec b r b' :
  Inv b -> read_byte bsize b = (r, b') ->
  (r, abs b') = spec_read_byte (abs b) /\ Inv b'.
Proof.
  intros HI H. unfold read_byte in H. cbn [read_byte_loop] in H.
  destruct (b_buf b) as [|c t] eqn:Eb.
  - destruct (b_err b) as [e|] eqn:Ee.
    + inversion H; subst r b'; clear H. destruct HI as [Hl He]. rewrite Ee in He. destruct He as [Hr Hx].
      unfold spec_read_byte, abs, Inv. cbn [b_buf b_err b_src f_all f_fin]. rewrite Eb, Hr. cbn [app length].
      subst e. split; [reflexivity|]. split; [lia|exact I].
    + destruct (fill bsize b) as [b1 np] eqn:Ef.
      apply fill_spec in Ef; auto; [|rewrite Eb; cbn [length]; lia].
      destruct Ef as (-> & Ea & HI1 & Hf & [d Hd] & Hg).
      destruct (b_buf b1) as [|c t] eqn:Eb1.
      * destruct (b_err b1) as [e|] eqn:Ee1; [|specialize (Hg eq_refl); rewrite Eb in Hg; cbn [length] in Hg; lia].
        inversion H; subst r b'; clear H. destruct HI1 as [Hl1 He1]. rewrite Ee1 in He1. destruct He1 as [Hr Hx].
        unfold spec_read_byte. rewrite <- Ea. unfold abs, Inv. cbn [b_buf b_err b_src f_all f_fin].
        rewrite Eb1, Hr. cbn [app length]. subst e. split; [reflexivity|]. split; [lia|exact I].
      * inversion H; subst r b'; clear H. destruct HI1 as [Hl1 He1].
        unfold spec_read_byte. rewrite <- Ea. unfold abs, Inv. cbn [b_buf b_err b_src f_all f_fin].
        rewrite Eb1 in *. cbn [app length] in *. split; [reflexivity|]. split; [lia|exact He1].
  - inversion H; subst r b'; clear H. destruct HI as [Hl He].
    unfold spec_read_byte, abs, Inv. cbn [b_buf b_err b_src f_all f_fin]. rewrite Eb in *. cbn [app length] in *.
    split; [reflexivity|]. split; [lia|exact He].
Qed.

(* ---- Peek ------------------------------------------------------------------------------------------------------ *)
(* the fill loop of Peek: buffered bytes only grow, the abstract state is unchanged, and it stops because enough is
   buffered, the buffer is full, or the error is recorded (fuel S (min n bsize) is enough: every round adds a byte) *)
Ltac stop3 := split; [reflexivity|split; [reflexivity|split; [assumption|]]].

Lemma peek_fill_spec n : forall fuel b b1 np,
  Inv b -> peek_fill bsize fuel n b = (b1, np) ->
  Nat.min n bsize - length (b_buf b) < fuel ->
  np = false /\ abs b1 = abs b /\ Inv b1 /\
  (n <= length (b_buf b1) \/ bsize <= length (b_buf b1) \/ b_err b1 <> None).
Proof.
  induction fuel as [|f IH]; intros b b1 np HI H Hf; [lia|].
  cbn [peek_fill] in H.
  destruct (length (b_buf b) <? n) eqn:E1; cbn [andb] in H.
  2:{ inversion H; subst. apply Nat.ltb_ge in E1. stop3. left. exact E1. }
  destruct (length (b_buf b) <? bsize) eqn:E2; cbn [andb] in H.
  2:{ inversion H; subst. apply Nat.ltb_ge in E2. stop3. right; left. exact E2. }
  destruct (b_err b) as [e|] eqn:Ee.
  { inversion H; subst. stop3. right; right. rewrite Ee. discriminate. }
  apply Nat.ltb_lt in E1. apply Nat.ltb_lt in E2.
  destruct (fill bsize b) as [b2 np2] eqn:Ef.
  apply fill_spec in Ef; auto. destruct Ef as (-> & Ea & HI2 & Hfin & [d Hd] & Hg).
  destruct (b_err b2) as [e2|] eqn:Ee2.
  - (* the error is recorded: the next round stops *)
    destruct f as [|f'].
    + cbn [peek_fill] in H. inversion H; subst. split; [reflexivity|split; [assumption|split; [assumption|]]]. right; right. rewrite Ee2. discriminate.
    + cbn [peek_fill] in H. rewrite Ee2 in H. rewrite !andb_false_r in H. inversion H; subst.
      split; [reflexivity|split; [assumption|split; [assumption|]]]. right; right. rewrite Ee2. discriminate.
  - specialize (Hg eq_refl). apply IH in H; auto; [|lia].
    destruct H as (-> & Ea' & HI' & Hs). rewrite Ea', Ea. split; [reflexivity|split; [reflexivity|split; assumption]].
Qed.

Lemma firstn_app_le {A} (l1 l2 : list A) n : n <= length l1 -> firstn n (l1 ++ l2) = firstn n l1.
Proof. intros H. rewrite firstn_app. replace (n - length l1) with 0 by lia. cbn [firstn]. apply app_nil_r. Qed.

Lemma peek_spec n b d e b' :
  Inv b -> peek bsize n b = (d, e, b') ->
  (d, e, abs b') = spec_peek bsize n (abs b) /\ Inv b'.
Proof.
  intros HI H. unfold peek in H.
  destruct (peek_fill bsize (S (Nat.min n bsize)) n b) as [b1 np] eqn:Ep.
  apply peek_fill_spec in Ep; auto; [|lia]. destruct Ep as (-> & Ea & HI1 & Hs).
  unfold spec_peek. rewrite <- Ea. destruct HI1 as [Hl1 He1].
  destruct (bsize <? n) eqn:E1.
  - (* n > size: whatever is buffered, ErrBufferFull *)
    apply Nat.ltb_lt in E1. inversion H; subst d e b'; clear H.
    split; [|split; assumption]. f_equal. f_equal. unfold abs. cbn [f_all].
    destruct Hs as [Hs|[Hs|Hs]]; [lia| |].
    + assert (length (b_buf b1) = bsize) by lia. rewrite firstn_app_le by lia. rewrite <- H. symmetry. apply firstn_all.
    + destruct (b_err b1) as [x|]; [|congruence]. destruct He1 as [Hr _]. rewrite Hr, app_nil_r.
      symmetry. apply firstn_all2. lia.
  - apply Nat.ltb_ge in E1.
    destruct (length (b_buf b1) <? n) eqn:E2.
    + apply Nat.ltb_lt in E2. unfold read_err in H. inversion H; subst d e b'; clear H.
      destruct Hs as [Hs|[Hs|Hs]]; [lia|lia|].
      destruct (b_err b1) as [x|] eqn:Ee; [|congruence]. destruct He1 as [Hr Hx].
      unfold abs, Inv. cbn [b_buf b_err b_src f_all f_fin]. rewrite Hr, app_nil_r.
      assert (E3 : (length (b_buf b1) <? n) = true) by (apply Nat.ltb_lt; lia). rewrite E3. subst x.
      split; [reflexivity|]. split; [assumption|exact I].
    + apply Nat.ltb_ge in E2. inversion H; subst d e b'; clear H.
      unfold abs. cbn [f_all f_fin].
      assert (E3 : (length (b_buf b1 ++ s_rest (b_src b1)) <? n) = false)
        by (apply Nat.ltb_ge; rewrite app_length; lia).
      rewrite E3, firstn_app_le by lia. split; [reflexivity|split; assumption].
Qed.

(* ---- Discard --------------------------------------------------------------------------------------------------- *)
Lemma skipn_skipn' {A} (a b : nat) (l : list A) : skipn a (skipn b l) = skipn (b + a) l.
Proof. revert l; induction b as [|b IH]; intros l; [reflexivity|]. destruct l; [destruct a; reflexivity|]. cbn. apply IH. Qed.
Lemma skipn_app_le {A} (l1 l2 : list A) n : n <= length l1 -> skipn n (l1 ++ l2) = skipn n l1 ++ l2.
Proof. intros H. rewrite skipn_app. replace (n - length l1) with 0 by lia. reflexivity. Qed.
Lemma skipn_all' {A} (l : list A) n : length l <= n -> skipn n l = [].
Proof. intros H. apply skipn_all2. exact H. Qed.

Lemma discard_loop_spec n : forall fuel remain b k e b',
  Inv b -> 1 <= remain -> remain <= n -> remain < fuel ->
  discard_loop bsize fuel n remain b = (k, e, b') ->
  let all := f_all (abs b) in
  let m := Nat.min remain (length all) in
  k = n - remain + m /\
  e = (if m =? remain then None else Some (of_ferr (f_fin (abs b)))) /\
  abs b' = mkFlat (skipn m all) (f_fin (abs b)) /\ Inv b'.
Proof.
  induction fuel as [|f IH]; intros remain b k e b' HI Hr1 Hrn Hf H; [lia|].
  cbn [discard_loop] in H.
  (* the optional fill *)
  assert (Hfill : exists b1 np, (match b_buf b with [] => fill bsize b | _ :: _ => (b, false) end) = (b1, np) /\
            np = false /\ abs b1 = abs b /\ Inv b1 /\ (b_err b1 = None -> 1 <= length (b_buf b1))).
  { destruct (b_buf b) as [|c t] eqn:Eb.
    - destruct (fill bsize b) as [b1 np] eqn:Ef. exists b1, np. split; [reflexivity|].
      apply fill_spec in Ef; auto; [|rewrite Eb; cbn [length]; lia].
      destruct Ef as (-> & Ea & HI1 & _ & _ & Hg). repeat split; try assumption; try apply HI1.
      intros Hn. specialize (Hg Hn). rewrite Eb in Hg. cbn [length] in Hg. lia.
    - exists b, false. repeat split; try apply HI. intros _. rewrite Eb. cbn [length]. lia. }
  destruct Hfill as (b1 & np & Efill & -> & Ea & HI1 & Hprog). rewrite Efill in H. clear Efill.
  set (skip := Nat.min (length (b_buf b1)) remain) in *.
  cbv zeta. rewrite <- Ea. unfold abs. cbn [f_all f_fin].
  destruct HI1 as [Hl1 He1].
  destruct (remain - skip =? 0) eqn:E0.
  - (* enough was buffered *)
    apply Nat.eqb_eq in E0. inversion H; subst k e b'; clear H.
    assert (Hs : skip = remain) by (unfold skip in *; lia).
    assert (Hle : remain <= length (b_buf b1)) by (unfold skip in *; lia).
    assert (Hm : Nat.min remain (length (b_buf b1 ++ s_rest (b_src b1))) = remain) by (rewrite app_length; lia).
    rewrite Hm, Nat.eqb_refl, Hs. unfold abs, Inv. cbn [b_buf b_err b_src f_all f_fin].
    rewrite ?Hm. rewrite skipn_app_le by lia. split; [lia|]. split; [reflexivity|]. split; [reflexivity|].
    split; [rewrite skipn_length; lia|exact He1].
  - apply Nat.eqb_neq in E0.
    assert (Hs : skip = length (b_buf b1)) by (unfold skip in *; lia).
    assert (Hlt : length (b_buf b1) < remain) by (unfold skip in *; lia).
    cbn [b_err b_buf b_src] in H.
    destruct (b_err b1) as [x|] eqn:Ee.
    + (* the input ends here *)
      destruct He1 as [Hrest Hx]. inversion H; subst k e b'; clear H.
      unfold abs, Inv. cbn [b_buf b_err b_src f_all f_fin]. rewrite !Hrest, !app_nil_r.
      assert (Hm : Nat.min remain (length (b_buf b1)) = length (b_buf b1)) by lia.
      rewrite !Hm. assert (E1 : (length (b_buf b1) =? remain) = false) by (apply Nat.eqb_neq; lia). rewrite E1.
      rewrite Hs, !skipn_all.
      subst x. split; [lia|]. split; [reflexivity|]. split; [reflexivity|]. split; [cbn [length]; lia|exact I].
    + specialize (Hprog eq_refl).
      apply IH in H; [| |lia|lia|lia].
      2:{ unfold Inv. cbn [b_buf b_err b_src]. split; [rewrite skipn_length; lia|exact I]. }
      cbv zeta in H. unfold abs in H. cbn [b_buf b_src f_all f_fin] in H.
      rewrite Hs, skipn_all in H. cbn [app] in H.
      destruct H as (Hk & He & Hab & HIb).
      assert (Hm : Nat.min remain (length (b_buf b1 ++ s_rest (b_src b1))) =
                   length (b_buf b1) + Nat.min (remain - length (b_buf b1)) (length (s_rest (b_src b1))))
        by (rewrite app_length; lia).
      rewrite Hm. split; [lia|]. split.
      { rewrite He. destruct (Nat.min (remain - length (b_buf b1)) (length (s_rest (b_src b1))) =? remain - length (b_buf b1)) eqn:E1.
        - apply Nat.eqb_eq in E1. assert (E2 : (length (b_buf b1) + Nat.min (remain - length (b_buf b1)) (length (s_rest (b_src b1))) =? remain) = true) by (apply Nat.eqb_eq; lia). rewrite E2. reflexivity.
        - apply Nat.eqb_neq in E1. assert (E2 : (length (b_buf b1) + Nat.min (remain - length (b_buf b1)) (length (s_rest (b_src b1))) =? remain) = false) by (apply Nat.eqb_neq; lia). rewrite E2. reflexivity. }
      split; [|exact HIb]. rewrite Hab. f_equal.
      rewrite <- skipn_skipn'. rewrite skipn_app_le by lia. rewrite skipn_all. reflexivity.
Qed.

Lemma discard_spec n b k e b' :
  Inv b -> discard bsize n b = (k, e, b') ->
  (k, e, abs b') = spec_discard n (abs b) /\ Inv b'.
Proof.
  intros HI H. unfold discard in H. destruct n as [|n'].
  - inversion H; subst. unfold spec_discard. cbn [Nat.min skipn Nat.eqb]. split; [|exact HI].
    unfold abs. reflexivity.
  - apply discard_loop_spec in H; auto; try lia. cbv zeta in H. destruct H as (Hk & He & Ha & HI').
    split; [|exact HI']. unfold spec_discard. rewrite Ha, Hk, He.
    replace (S n' - S n' + Nat.min (S n') (length (f_all (abs b)))) with (Nat.min (S n') (length (f_all (abs b)))) by lia.
    reflexivity.
Qed.

(* ---- Read (one read of the source at most) and io.ReadFull ------------------------------------------------------- *)
Lemma firstn_nonnil {A} (l : list A) m : 1 <= m -> l <> [] -> firstn m l <> [].
Proof. destruct m; [lia|]. destruct l; [congruence|]. cbn [firstn]. discriminate. Qed.

Lemma bread_spec m b d e b' :
  Inv b -> 1 <= m -> bread bsize m b = (d, e, b') ->
  f_all (abs b) = d ++ f_all (abs b') /\ f_fin (abs b') = f_fin (abs b) /\ length d <= m /\ Inv b' /\
  (e = None -> d <> []) /\
  (forall x, e = Some x -> x = f_fin (abs b) /\ f_all (abs b') = []).
Proof.
  intros [Hl He] Hm H. unfold bread in H. destruct m as [|m']; [lia|].
  destruct (b_buf b) as [|c t] eqn:Eb.
  - destruct (b_err b) as [x|] eqn:Ee.
    + destruct He as [Hr Hx]. inversion H; subst d e b'; clear H.
      unfold abs, Inv. cbn [b_buf b_err b_src f_all f_fin app length]. rewrite Eb, Hr.
      split; [reflexivity|]. split; [reflexivity|]. split; [lia|]. split; [split; [lia|exact I]|].
      split; [discriminate|]. intros y Hy. inversion Hy; subst. auto.
    + destruct (bsize <=? S m') eqn:Eg.
      * destruct (src_read (S m') (b_src b)) as [[d0 e0] s'] eqn:Es.
        apply src_read_spec in Es; [|lia]. destruct Es as (E1 & E2 & E3 & E5 & E6 & E7).
        inversion H; subst d e b'; clear H.
        unfold abs, Inv. cbn [b_buf b_err b_src f_all f_fin app length]. rewrite Eb. cbn [app].
        split; [exact E1|]. split; [exact E2|]. split; [exact E3|]. split; [split; [lia|exact I]|].
        split; [exact E7|]. intros y Hy. destruct (E6 y Hy). auto.
      * destruct (src_read bsize (b_src b)) as [[d0 e0] s'] eqn:Es.
        apply src_read_spec in Es; [|lia]. destruct Es as (E1 & E2 & E3 & E5 & E6 & E7).
        apply Nat.leb_gt in Eg.
        destruct d0 as [|c0 d0'].
        { inversion H; subst d e b'; clear H.
          unfold abs, Inv. cbn [b_buf b_err b_src f_all f_fin app length]. rewrite Eb. cbn [app].
          split; [exact E1|]. split; [exact E2|]. split; [lia|]. split; [split; [lia|exact I]|].
          split; [intros Hn; exfalso; apply (E7 Hn); reflexivity|].
          intros y Hy. destruct (E6 y Hy). auto. }
        inversion H; subst d e b'; clear H.
        unfold abs, Inv. cbn [b_buf b_err b_src f_all f_fin]. rewrite Eb. cbn [app].
        cbn [length] in E3.
        split; [rewrite app_assoc, firstn_skipn; exact E1|]. split; [exact E2|].
        split; [cbn [length]; rewrite firstn_length; lia|].
        split.
        { split; [rewrite skipn_length; lia|]. destruct e0 as [y|]; [|exact I]. destruct (E6 y eq_refl). split; congruence. }
        split; [intros _; discriminate|discriminate].
  - inversion H; subst d e b'; clear H.
    unfold abs, Inv. cbn [b_buf b_err b_src f_all f_fin]. rewrite Eb.
    cbn [length] in Hl.
    split; [cbn [app]; rewrite app_assoc, firstn_skipn; reflexivity|]. split; [reflexivity|].
    split; [cbn [length]; rewrite firstn_length; lia|].
    split; [split; [rewrite skipn_length; lia|exact He]|].
    split; [intros _; discriminate|discriminate].
Qed.

Definition rf_err (dd : list N) (fin : ferr) : berr :=
  match dd, fin with _ :: _, FEof => EUnexpectedEof | _, e => of_ferr e end.

Lemma read_full_loop_spec m : forall fuel acc b dd ee b',
  Inv b -> length acc <= m -> m - length acc < fuel ->
  read_full_loop bsize fuel m acc b = (dd, ee, b') ->
  let all := f_all (abs b) in
  dd = firstn m (acc ++ all) /\
  abs b' = mkFlat (skipn (m - length acc) all) (f_fin (abs b)) /\ Inv b' /\
  ee = (if m <=? length acc + length all then None else Some (rf_err dd (f_fin (abs b)))).
Proof.
  induction fuel as [|f IH]; intros acc b dd ee b' HI Ha Hf H; [lia|].
  cbv zeta. cbn [read_full_loop] in H.
  destruct (m <=? length acc) eqn:E0.
  - apply Nat.leb_le in E0. inversion H; subst dd ee b'; clear H.
    assert (length acc = m) by lia.
    rewrite firstn_app_le by lia. replace (m - length acc) with 0 by lia. cbn [skipn].
    assert (E1 : (m <=? length acc + length (f_all (abs b))) = true) by (apply Nat.leb_le; lia). rewrite E1.
    split; [symmetry; subst m; apply firstn_all|]. split; [destruct (abs b); reflexivity|]. split; [exact HI|reflexivity].
  - apply Nat.leb_gt in E0.
    destruct (bread bsize (m - length acc) b) as [[d e] b1] eqn:Eb.
    apply bread_spec in Eb; auto; [|lia]. destruct Eb as (E1 & E2 & E3 & HI1 & E5 & E6).
    destruct e as [x|].
    + destruct (E6 x eq_refl) as [Ex Er]. rewrite Er, app_nil_r in E1.
      destruct (m <=? length (acc ++ d)) eqn:E7.
      * apply Nat.leb_le in E7. rewrite app_length in E7. inversion H; subst dd ee b'; clear H.
        rewrite E1. assert (E8 : (m <=? length acc + length d) = true) by (apply Nat.leb_le; lia). rewrite E8.
        split; [symmetry; apply firstn_all2; rewrite app_length; lia|].
        split; [|split; [exact HI1|reflexivity]].
        rewrite skipn_all' by lia. destruct (abs b1) as [a1 f1] eqn:Eab. cbn [f_all f_fin] in *. subst. reflexivity.
      * apply Nat.leb_gt in E7. rewrite app_length in E7. inversion H; subst dd ee b'; clear H.
        rewrite E1. assert (E8 : (m <=? length acc + length d) = false) by (apply Nat.leb_gt; lia). rewrite E8.
        assert (E9 : firstn m (acc ++ d) = acc ++ d) by (apply firstn_all2; rewrite app_length; lia).
        rewrite E9. split; [reflexivity|].
        split; [rewrite skipn_all' by lia; destruct (abs b1) as [a1 f1] eqn:Eab; cbn [f_all f_fin] in *; subst; reflexivity|].
        split; [exact HI1|]. subst x. unfold rf_err. destruct (acc ++ d); reflexivity.
    + specialize (E5 eq_refl).
      assert (1 <= length d) by (destruct d; [congruence|cbn [length]; lia]).
      apply IH in H; auto; [|rewrite app_length; lia|rewrite app_length; lia].
      cbv zeta in H. destruct H as (Hd & Hab & HIb & He).
      rewrite E1. split; [rewrite Hd, <- app_assoc; reflexivity|].
      split.
      { rewrite Hab, E2. f_equal. rewrite app_length.
        rewrite skipn_app, (skipn_all' d) by lia. cbn [app]. f_equal. lia. }
      split; [exact HIb|]. rewrite He, E2, !app_length. rewrite Nat.add_assoc. reflexivity.
Qed.

Lemma read_full_spec m b d e b' :
  Inv b -> read_full bsize m b = (d, e, b') ->
  (d, e, abs b') = spec_read_full m (abs b) /\ Inv b'.
Proof.
  intros HI H. unfold read_full in H. apply read_full_loop_spec in H; auto; cbn [length]; try lia.
  cbv zeta in H. cbn [app length] in H. rewrite Nat.sub_0_r in H. destruct H as (Hd & Ha & HI' & He).
  split; [|exact HI']. cbn [Nat.add] in He. unfold spec_read_full. rewrite Ha, He. subst d. unfold rf_err.
  destruct (abs b) as [al fi]; cbn [f_all f_fin]. destruct fi, (firstn m al); reflexivity.
Qed.

(* ---- every operation, any client ---------------------------------------------------------------------------------- *)
Lemma do_op_spec o b r b' :
  Inv b -> do_op bsize o b = (r, b') -> (r, abs b') = spec_op bsize o (abs b) /\ Inv b'.
Proof.
  intros HI H. destruct o as [|n|n|n]; cbn [do_op spec_op] in *.
  - destruct (read_byte bsize b) as [x b1] eqn:E. inversion H; subst. apply read_byte_spec in E; auto.
    destruct E as [E HI']. rewrite <- E. auto.
  - destruct (peek bsize n b) as [[d e] b1] eqn:E. inversion H; subst. apply peek_spec in E; auto.
    destruct E as [E HI']. rewrite <- E. auto.
  - destruct (discard bsize n b) as [[k e] b1] eqn:E. inversion H; subst. apply discard_spec in E; auto.
    destruct E as [E HI']. rewrite <- E. auto.
  - destruct (read_full bsize n b) as [[d e] b1] eqn:E. inversion H; subst. apply read_full_spec in E; auto.
    destruct E as [E HI']. rewrite <- E. auto.
Qed.

Lemma run_refines {R} (c : client R) : forall b,
  Inv b -> fst (run bsize c b) = fst (run_spec bsize c (abs b)).
Proof.
  induction c as [r|o k IH]; intros b HI; [reflexivity|].
  cbn [run run_spec]. destruct (do_op bsize o b) as [x b1] eqn:E. apply do_op_spec in E; auto.
  destruct E as [E HI1]. rewrite <- E. apply IH. exact HI1.
Qed.

Lemma run_ops_refines os : forall b, Inv b -> run_ops bsize os b = spec_ops bsize os (abs b).
Proof.
  induction os as [|o t IH]; intros b HI; [reflexivity|].
  cbn [run_ops spec_ops]. destruct (do_op bsize o b) as [x b1] eqn:E. apply do_op_spec in E; auto.
  destruct E as [E HI1]. rewrite <- E. f_equal. apply IH. exact HI1.
Qed.

(* ---- consequences ------------------------------------------------------------------------------------------------- *)
(* what a client sees depends on the bytes and the final error only, never on how the source cut them into chunks *)
Theorem chunk_independent {R} (c : client R) s1 s2 :
  s_rest s1 = s_rest s2 -> s_fin s1 = s_fin s2 ->
  fst (run bsize c (new_breader s1)) = fst (run bsize c (new_breader s2)).
Proof.
  intros Hr Hf. rewrite !run_refines by apply inv_new. rewrite !abs_new, Hr, Hf. reflexivity.
Qed.
Theorem chunk_independent_ops os s1 s2 :
  s_rest s1 = s_rest s2 -> s_fin s1 = s_fin s2 ->
  run_ops bsize os (new_breader s1) = run_ops bsize os (new_breader s2).
Proof.
  intros Hr Hf. rewrite !run_ops_refines by apply inv_new. rewrite !abs_new, Hr, Hf. reflexivity.
Qed.

(* a result that mentions end-of-input *)
Definition berr_is_eof (e : berr) : bool := match e with EEof | EUnexpectedEof => true | _ => false end.
Definition says_eof (r : ores) : bool :=
  match r with
  | ResByte (RBErr e) => berr_is_eof e
  | ResByte (RB _) => false
  | ResBytes _ (Some e) | ResCount _ (Some e) => berr_is_eof e
  | ResBytes _ None | ResCount _ None => false
  end.
(* an operation that could not be served in full: it reports an error *)
Definition short (o : op) (avail : nat) : bool :=
  match o with
  | OReadByte => avail =? 0
  | OPeek n => (avail <? n) && (n <=? bsize)
  | ODiscard n | OReadFull n => avail <? n
  end.
Definition reports (r : ores) (e : berr) : Prop :=
  match r with
  | ResByte (RBErr x) => x = e
  | ResBytes _ (Some x) | ResCount _ (Some x) => x = e
  | _ => False
  end.

Lemma spec_op_fail o x r x' :
  f_fin x = FFail -> spec_op bsize o x = (r, x') ->
  says_eof r = false /\ f_fin x' = FFail /\ (short o (length (f_all x)) = true -> reports r EFail).
Proof.
  intros Hf H. destruct x as [al fi]. cbn [f_fin f_all] in *. subst fi.
  destruct o as [|n|n|n]; cbn [spec_op] in H.
  - unfold spec_read_byte in H. cbn [f_all f_fin] in H. destruct al as [|c t]; inversion H; subst; cbn; auto.
    repeat split; auto. discriminate.
  - unfold spec_peek in H. cbn [f_all f_fin] in H. cbn [short].
    destruct (bsize <? n) eqn:E1.
    + inversion H; subst. apply Nat.ltb_lt in E1. assert (E2 : (n <=? bsize) = false) by (apply Nat.leb_gt; lia).
      rewrite E2, andb_false_r. cbn. repeat split; auto. discriminate.
    + destruct (length al <? n) eqn:E2; inversion H; subst; cbn; repeat split; auto; discriminate.
  - unfold spec_discard in H. cbn [f_all f_fin] in H. inversion H; subst; clear H. cbn [short f_fin says_eof].
    destruct (Nat.min n (length al) =? n) eqn:E1; cbn [of_ferr berr_is_eof reports].
    + apply Nat.eqb_eq in E1. repeat split; auto. intros E2. apply Nat.ltb_lt in E2. lia.
    + repeat split; auto.
  - unfold spec_read_full in H. cbn [f_all f_fin] in H. inversion H; subst; clear H. cbn [short f_fin says_eof].
    destruct (n <=? length al) eqn:E1.
    + apply Nat.leb_le in E1. repeat split; auto. intros E2. apply Nat.ltb_lt in E2. lia.
    + destruct (firstn n al); cbn; repeat split; auto.
Qed.

(* the source failed: whatever the client does and however the bytes were chunked, no operation ever reports a clean or
   unexpected END of input, and every operation that runs out of bytes reports the failure *)
Theorem failure_never_looks_like_eof os : forall b,
  Inv b -> s_fin (b_src b) = FFail ->
  forallb (fun r => negb (says_eof r)) (run_ops bsize os b) = true.
Proof.
  induction os as [|o t IH]; intros b HI Hf; [reflexivity|].
  cbn [run_ops]. destruct (do_op bsize o b) as [r b1] eqn:E. apply do_op_spec in E; auto. destruct E as [E HI1].
  symmetry in E. apply spec_op_fail in E; [|exact Hf]. destruct E as (E1 & E2 & _).
  cbn [forallb]. rewrite E1. cbn [negb andb]. apply IH; auto.
Qed.
Theorem failure_is_reported o b r b' :
  Inv b -> s_fin (b_src b) = FFail -> do_op bsize o b = (r, b') ->
  short o (length (b_buf b ++ s_rest (b_src b))) = true -> reports r EFail.
Proof.
  intros HI Hf H Hs. apply do_op_spec in H; auto. destruct H as [E _]. symmetry in E.
  apply spec_op_fail in E; [|exact Hf]. destruct E as (_ & _ & E3). apply E3. exact Hs.
Qed.

End WithSize.
