(* BufioP.v — proofs about Base/Bufio.v: every operation of the bufio.Reader model over a chunked source returns what
   the chunk-free specification returns on the remaining bytes, whatever the chunk schedule; hence any client program
   gets the same results under any two chunkings of the same bytes, and a source failure is never reported as EOF. *)
From Coq Require Import List NArith Arith Bool Lia.
From IonV Require Import Base.Bufio.
Import ListNotations.

(* the chunk-free view of a reader: unread buffered bytes followed by what the source still holds *)
Definition abs (b : breader) : flat := mkFlat (b_buf b ++ s_rest (b_src b)) (s_fin (b_src b)).

(* a recorded error is the source's final error and the source is exhausted; the buffer never exceeds its size *)
Definition Inv (b : breader) : Prop :=
  length (b_buf b) <= bsize /\
  match b_err b with Some e => s_rest (b_src b) = [] /\ e = s_fin (b_src b) | None => True end.

Lemma inv_new s : Inv (new_breader s).
Proof. split; cbn; [apply Nat.le_0_l|exact I]. Qed.
Lemma abs_new s : abs (new_breader s) = mkFlat (s_rest s) (s_fin s).
Proof. reflexivity. Qed.

Lemma bsize_pos : 1 <= bsize.  Proof. unfold bsize. apply Nat.leb_le. reflexivity. Qed.
Lemma fill_loop_S f b :
  fill_loop (S f) b =
  let '(d, e, s') := src_read (bsize - length (b_buf b)) (b_src b) in
  let b' := mkB (b_buf b ++ d) (b_err b) s' in
  match e with
  | Some x => (mkB (b_buf b') (Some x) s', false)
  | None => match d with [] => fill_loop f b' | _ :: _ => (b', false) end
  end.
Proof. reflexivity. Qed.
Global Opaque bsize.

(* ---- the source ------------------------------------------------------------------------------------------------ *)
Lemma src_read_spec cap s d e s' :
  1 <= cap -> src_read cap s = (d, e, s') ->
  s_rest s = d ++ s_rest s' /\ s_fin s' = s_fin s /\ length d <= cap /\
  (s_rest s <> [] -> d <> []) /\
  (s_rest s = [] -> d = [] /\ e = Some (s_fin s) /\ s' = s) /\
  (forall x, e = Some x -> x = s_fin s /\ s_rest s' = []) /\
  (e = None -> d <> []).
Proof.
  intros Hc H. unfold src_read in H. destruct (s_rest s) as [|c r] eqn:Er.
  - inversion H; subst. rewrite Er. repeat split; auto; try congruence. cbn; lia.
  - set (want := match s_sched s with [] => length (c :: r) | k :: _ => S k end) in H.
    set (n := Nat.min cap (Nat.min want (length (c :: r)))) in H.
    assert (Hw : 1 <= want) by (unfold want; destruct (s_sched s); cbn; lia).
    assert (Hn : 1 <= n) by (unfold n; cbn [length]; lia).
    assert (Hn2 : n <= cap) by (unfold n; lia).
    inversion H; subst d e s'; clear H. cbn [s_rest s_fin].
    assert (Hd : firstn n (c :: r) <> []) by (destruct n; [lia|cbn; congruence]).
    repeat split; auto.
    + symmetry. apply firstn_skipn.
    + rewrite firstn_length. lia.
    + congruence.
    + congruence.
    + congruence.
    + destruct (skipn n (c :: r)); [destruct (s_with s)|]; congruence.
    + destruct (skipn n (c :: r)) eqn:Es; [reflexivity|]. destruct (s_with s); congruence.
Qed.

(* ---- fill ------------------------------------------------------------------------------------------------------ *)
Lemma fill_spec b b' np :
  Inv b -> length (b_buf b) < bsize -> fill b = (b', np) ->
  np = false /\ abs b' = abs b /\ Inv b' /\ s_fin (b_src b') = s_fin (b_src b) /\
  (exists d, b_buf b' = b_buf b ++ d) /\
  (b_err b' = None -> length (b_buf b) < length (b_buf b')).
Proof.
  intros [Hl He] Hlt H. unfold fill, max_empty_reads in H. rewrite fill_loop_S in H.
  destruct (src_read (bsize - length (b_buf b)) (b_src b)) as [[d e] s'] eqn:Es. cbv zeta in H. cbn [b_buf] in H.
  apply src_read_spec in Es; [|lia]. destruct Es as (E1 & E2 & E3 & E4 & E5 & E6 & E7).
  destruct e as [x|].
  - inversion H; subst b' np; clear H. destruct (E6 x eq_refl) as [Ex Er].
    unfold abs, Inv; cbn [b_buf b_err b_src]. rewrite E1, E2, app_assoc.
    repeat split; auto; try discriminate; try (rewrite app_length; lia); eauto.
  - specialize (E7 eq_refl). destruct d as [|c d]; [exfalso; apply E7; reflexivity|].
    inversion H; subst b' np; clear H.
    unfold abs, Inv; cbn [b_buf b_err b_src]. rewrite E1, E2, app_assoc.
    repeat split; auto; try discriminate; try (rewrite app_length; cbn [length] in *; lia); eauto.
    destruct (b_err b) as [e|]; auto. destruct He as [Hr _]. rewrite Hr in E1. discriminate.
Qed.

(* ---- ReadByte -------------------------------------------------------------------------------------------------- *)
Lemma read_byte_spec b r b' :
  Inv b -> read_byte b = (r, b') ->
  (r, abs b') = spec_read_byte (abs b) /\ Inv b'.
Proof.
  intros HI H. unfold read_byte in H. cbn [read_byte_loop] in H.
  destruct (b_buf b) as [|c t] eqn:Eb.
  - destruct (b_err b) as [e|] eqn:Ee.
    + inversion H; subst r b'; clear H. destruct HI as [Hl He]. rewrite Ee in He. destruct He as [Hr Hx].
      unfold spec_read_byte, abs, Inv. cbn [b_buf b_err b_src f_all f_fin]. rewrite Eb, Hr. cbn.
      subst e. repeat split; auto; lia.
    + destruct (fill b) as [b1 np] eqn:Ef.
      apply fill_spec in Ef; auto; [|rewrite Eb; cbn; pose proof bsize_pos; lia].
      destruct Ef as (-> & Ea & HI1 & Hf & [d Hd] & Hg).
      destruct (b_buf b1) as [|c t] eqn:Eb1.
      * destruct (b_err b1) as [e|] eqn:Ee1; [|specialize (Hg eq_refl); rewrite Eb in Hg; cbn in Hg; lia].
        inversion H; subst r b'; clear H. destruct HI1 as [Hl1 He1]. rewrite Ee1 in He1. destruct He1 as [Hr Hx].
        unfold spec_read_byte. rewrite <- Ea. unfold abs, Inv. cbn [b_buf b_err b_src f_all f_fin].
        rewrite Eb1, Hr. cbn. subst e. repeat split; auto; lia.
      * inversion H; subst r b'; clear H.
        unfold spec_read_byte. rewrite <- Ea. unfold abs, Inv in *. cbn [b_buf b_err b_src f_all f_fin] in *.
        rewrite Eb1 in *. cbn in *. repeat split; auto; try lia. apply HI1.
  - inversion H; subst r b'; clear H.
    unfold spec_read_byte, abs, Inv in *. cbn [b_buf b_err b_src f_all f_fin] in *. rewrite Eb in *. cbn in *.
    repeat split; auto; try lia. apply HI.
Qed.
