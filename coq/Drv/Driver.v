(* Driver.v — one entry point for the extracted model: a request line in, a
   response line out.  Both are character lists ([list N]). *)
From Coq Require Import List NArith ZArith String.
From IonV Require Import Base.Wire Drv.DrvBits Drv.DrvBin Drv.DrvRead Drv.DrvSymtab Drv.DrvDecimal Drv.DrvText Drv.DrvSpecText Drv.DrvTextRead Drv.DrvMarshal Drv.DrvCli Drv.DrvTimestamp Drv.DrvSymctx Drv.DrvBufio.
Import ListNotations.
Open Scope N_scope.

Fixpoint first_some (fs : list (list N -> list (list N) -> option (list N)))
  (cmd : list N) (args : list (list N)) : list N :=
  match fs with
  | [] => bad_input
  | f :: r => match f cmd args with Some o => o | None => first_some r cmd args end
  end.

Definition run_line (line : list N) : list N :=
  match tokens line with
  | [] => bad_input
  | cmd :: args => first_some [drv_bits; drv_bin; drv_read; drv_symtab; drv_decimal; drv_text; drv_spectext; drv_textread; drv_marshal; drv_cli; drv_timestamp; drv_symctx; drv_bufio] cmd args
  end.
