(* DrvTimestamp.v — line-protocol commands for component K9 (timestamps).

   ts_parse x<text>                     -> ok <fields> | err | panic
   ts_format <ctor> <fields>            -> ok x<text>
   ts_write  <ctor> <fields>            -> ok x<bytes of the value, tag included>
   ts_read   x<one encoded value>       -> ok <fields> | null | err | panic

   <fields> = year month day hour minute second nsec offset-minutes kind precision nfrac
   (local civil fields; kind 0 unknown / 1 UTC / 2 local; precision 0..6 as
   TimestampPrecision).  <ctor> = 0 NewTimestampWithFractionalSeconds,
   1 NewTimestamp, 2 NewDateTimestamp; the time is
   time.Date(fields, FixedZone("", 60*offset-minutes)).

   [cur_cfg] says which ion-go the model stands for: [pinned] (the tree as
   found) or [patched] (fix_ts_*.diff applied). *)
From Coq Require Import List NArith ZArith String.
From IonV Require Import Base.Wire Num.Calendar Num.Timestamp.
Import ListNotations.
Open Scope Z_scope.
Open Scope string_scope.

Definition cur_cfg : cfg := patched.

Definition out_ts (r : res ts) : list N := out_res (fun t => map dec_of_Z (ts_fields t)) r.

Fixpoint all_some {A} (l : list (option A)) : option (list A) :=
  match l with
  | [] => Some []
  | Some a :: r => option_map (cons a) (all_some r)
  | None :: _ => None
  end.

(* <ctor> <11 fields> -> the Timestamp value the harness builds *)
Definition ts_of_args (args : list (list N)) : option ts :=
  match all_some (map parse_Z args) with
  | Some [ctor; y; mo; d; h; mi; s; ns; om; k; p; nf] =>
    let t := go_date_in y mo d h mi s ns (om * 60) in
    let p := prec_of_rank p in
    let k := kind_of_code k in
    Some (if (ctor =? 1)%Z then new_ts t p k
          else if (ctor =? 2)%Z then new_date_ts t p
          else new_ts_frac t p k (nf mod 256))
  | _ => None
  end.

Definition drv_timestamp (cmd : list N) (args : list (list N)) : option (list N) :=
  let argX k := match nth_error args k with Some t => parse_xhex t | None => None end in
  if tok_is cmd "ts_parse" then
    option_map (fun b => out_ts (ts_parse cur_cfg b)) (argX 0%nat)
  else if tok_is cmd "ts_format" then
    option_map (fun t => join_sp [s "ok"; xhex (ts_format t)]) (ts_of_args args)
  else if tok_is cmd "ts_write" then
    option_map (fun t => join_sp [s "ok"; xhex (ts_write_bin t)]) (ts_of_args args)
  else if tok_is cmd "ts_read" then
    option_map (fun b => match b with
                         | 111%N :: _ => s "null"
                         | _ => out_ts (ts_read_bin cur_cfg b)
                         end) (argX 0%nat)
  else None.
