(* DrvMarshal.v — line-protocol commands for the marshal component (K11).

   Type descriptor (prefix notation, one token per symbol):
     b i8 i16 i32 i64 i u8 u16 u32 u64 u up f32 f64 s I TS DEC BIG TIME SYM
     L <T>   A <n> <T>   M <T>   P <T>
     ST <n> then n x ( x<name> <en|ea|un|ua> x<tag> <T> )      (exported/unexported, normal/anonymous)
   Go value (prefix):
     b0 b1  i<z>  f<bits>  s<xhex>  Bnil B<xhex>  Lnil | L <n> v..  A <n> v..
     Mnil | M <n> (<xkey> v)..   Pnil | P v   Inil | I <T> v   S <n> v..
     T<hexbody>  D<co>e<ex>z<0|1>  G<z>  TM<hexbody>  Y <tk,..>
   Ion value: the tokens of Data/Ion.v show_value. *)
From Coq Require Import String List NArith ZArith Bool.
From IonV Require Import Base.Wire Data.Ion Num.Float Bin.BinWriter Drv.DrvBin
  Go.GoTypes Go.Fields Go.Encode Go.Decode Go.MarshalSpec.
Import ListNotations.
Local Open Scope string_scope.
Open Scope N_scope.
Open Scope list_scope.

Definition toks := list (list N).

(* ---- types ---------------------------------------------------------------------- *)
Definition parse_flags (t : list N) : option (bool * bool) :=
  if tok_is t "en" then Some (true, false) else if tok_is t "ea" then Some (true, true)
  else if tok_is t "un" then Some (false, false) else if tok_is t "ua" then Some (false, true) else None.

Fixpoint parse_ty (fuel : nat) (ts : toks) {struct fuel} : option (gty * toks) :=
  match fuel with
  | O => None
  | S f =>
    match ts with
    | [] => None
    | c :: r =>
      let unary (k : gty -> gty) := match parse_ty f r with Some (e, r') => Some (k e, r') | None => None end in
      if tok_is c "b" then Some (TyBool, r)
      else if tok_is c "i8" then Some (TyInt I8, r) else if tok_is c "i16" then Some (TyInt I16, r)
      else if tok_is c "i32" then Some (TyInt I32, r) else if tok_is c "i64" then Some (TyInt I64, r)
      else if tok_is c "i" then Some (TyInt IInt, r)
      else if tok_is c "u8" then Some (TyInt U8, r) else if tok_is c "u16" then Some (TyInt U16, r)
      else if tok_is c "u32" then Some (TyInt U32, r) else if tok_is c "u64" then Some (TyInt U64, r)
      else if tok_is c "u" then Some (TyInt UInt, r) else if tok_is c "up" then Some (TyInt UPtr, r)
      else if tok_is c "f32" then Some (TyF32, r) else if tok_is c "f64" then Some (TyF64, r)
      else if tok_is c "s" then Some (TyString, r)
      else if tok_is c "I" then Some (TyIface, r)
      else if tok_is c "TS" then Some (TyTimestamp, r) else if tok_is c "DEC" then Some (TyDecimal, r)
      else if tok_is c "BIG" then Some (TyBigInt, r) else if tok_is c "TIME" then Some (TyTime, r)
      else if tok_is c "SYM" then Some (TySymTok, r)
      else if tok_is c "L" then unary TySlice
      else if tok_is c "M" then unary TyMap
      else if tok_is c "P" then unary TyPtr
      else if tok_is c "A" then
        match r with
        | n :: r1 => match parse_N n, parse_ty f r1 with
                     | Some k, Some (e, r') => Some (TyArray k e, r')
                     | _, _ => None
                     end
        | [] => None
        end
      else if tok_is c "ST" then
        match r with
        | n :: r1 => match parse_N n with
                     | Some k => match parse_fields f (N.to_nat k) r1 with
                                 | Some (fs, r') => Some (TyStruct fs, r')
                                 | None => None
                                 end
                     | None => None
                     end
        | [] => None
        end
      else None
    end
  end
with parse_fields (fuel : nat) (n : nat) (ts : toks) {struct fuel} : option (gfields * toks) :=
  match fuel with
  | O => None
  | S f =>
    match n with
    | O => Some (FNil, ts)
    | S n' =>
      match ts with
      | nm :: fl :: tg :: r =>
        match parse_xhex nm, parse_flags fl, parse_xhex tg, parse_ty f r with
        | Some name, Some (ex, emb), Some tag, Some (ty, r') =>
          match parse_fields f n' r' with
          | Some (rest, r'') => Some (FCons name ex emb tag ty rest, r'')
          | None => None
          end
        | _, _, _, _ => None
        end
      | _ => None
      end
    end
  end.

Fixpoint show_ty (t : gty) : toks :=
  match t with
  | TyBool => [s "b"]
  | TyInt k => [match k with
                | I8 => s "i8" | I16 => s "i16" | I32 => s "i32" | I64 => s "i64" | IInt => s "i"
                | U8 => s "u8" | U16 => s "u16" | U32 => s "u32" | U64 => s "u64" | UInt => s "u" | UPtr => s "up"
                end]
  | TyF32 => [s "f32"] | TyF64 => [s "f64"] | TyString => [s "s"]
  | TySlice e => s "L" :: show_ty e
  | TyArray n e => s "A" :: dec_of_N n :: show_ty e
  | TyMap e => s "M" :: show_ty e
  | TyPtr e => s "P" :: show_ty e
  | TyIface => [s "I"]
  | TyStruct fs => s "ST" :: dec_of_N (N.of_nat (fs_len fs)) :: show_fields fs
  | TyTimestamp => [s "TS"] | TyDecimal => [s "DEC"] | TyBigInt => [s "BIG"]
  | TyTime => [s "TIME"] | TySymTok => [s "SYM"]
  end
with show_fields (fs : gfields) : toks :=
  match fs with
  | FNil => []
  | FCons name ex emb tag ty rest =>
    xhex name :: s (if ex then (if emb then "ea" else "en") else (if emb then "ua" else "un")) :: xhex tag
    :: show_ty ty ++ show_fields rest
  end
with fs_len (fs : gfields) {struct fs} : nat :=
  match fs with FNil => O | FCons _ _ _ _ _ rest => S (fs_len rest) end.

(* ---- Go values -------------------------------------------------------------------- *)
Definition parse_dec_tok (t : list N) : option dec :=
  (* <co>e<ex>z<b> *)
  match split_on 101 t [] with
  | [co; rest] =>
    match split_on 122 rest [] with
    | [ex; nz] => match parse_Z co, parse_Z ex, parse_N nz with
                  | Some c, Some e, Some z => Some {| d_coef := c; d_exp := e; d_negzero := negb (z =? 0)%N |}
                  | _, _, _ => None
                  end
    | _ => None
    end
  | _ => None
  end.

Definition counted {A} (r : toks) (k : nat -> toks -> option (A * toks)) : option (A * toks) :=
  match r with
  | n :: r1 => match parse_N n with Some c => k (N.to_nat c) r1 | None => None end
  | [] => None
  end.

Fixpoint parse_gv (fuel : nat) (ts : toks) {struct fuel} : option (gval * toks) :=
  match fuel with
  | O => None
  | S f =>
    let many := fix many (n : nat) (ts : toks) : option (list gval * toks) :=
      match n with
      | O => Some ([], ts)
      | S n' => match parse_gv f ts with
                | Some (x, r) => match many n' r with Some (l, r') => Some (x :: l, r') | None => None end
                | None => None
                end
      end in
    let pairs := fix pairs (n : nat) (ts : toks) : option (list (text * gval) * toks) :=
      match n with
      | O => Some ([], ts)
      | S n' => match ts with
                | k :: r0 =>
                  match parse_xhex k, parse_gv f r0 with
                  | Some key, Some (x, r) =>
                    match pairs n' r with Some (l, r') => Some ((key, x) :: l, r') | None => None end
                  | _, _ => None
                  end
                | [] => None
                end
      end in
    match ts with
    | [] => None
    | c :: r =>
      if tok_is c "b0" then Some (GBool false, r) else if tok_is c "b1" then Some (GBool true, r)
      else if tok_is c "Bnil" then Some (GBytes None, r)
      else if tok_is c "Lnil" then Some (GSlice None, r)
      else if tok_is c "Mnil" then Some (GMap None, r)
      else if tok_is c "Pnil" then Some (GPtr None, r)
      else if tok_is c "Inil" then Some (GIface None, r)
      else if tok_is c "L" then
        counted r (fun n r1 => match many n r1 with Some (l, r') => Some (GSlice (Some l), r') | None => None end)
      else if tok_is c "A" then
        counted r (fun n r1 => match many n r1 with Some (l, r') => Some (GArr l, r') | None => None end)
      else if tok_is c "S" then
        counted r (fun n r1 => match many n r1 with Some (l, r') => Some (GStruct l, r') | None => None end)
      else if tok_is c "M" then
        counted r (fun n r1 => match pairs n r1 with Some (l, r') => Some (GMap (Some l), r') | None => None end)
      else if tok_is c "P" then
        match parse_gv f r with Some (x, r') => Some (GPtr (Some x), r') | None => None end
      else if tok_is c "I" then
        match parse_ty (length r) r with
        | Some (dt, r1) => match parse_gv f r1 with Some (x, r') => Some (GIface (Some (dt, x)), r') | None => None end
        | None => None
        end
      else if tok_is c "Y" then
        match r with
        | t :: r' => option_map (fun k => (GSymTok k, r')) (parse_tok t)
        | [] => None
        end
      else
        match c with
        | 105 :: d => option_map (fun z => (GInt z, r)) (parse_Z d)                (* i *)
        | 102 :: d => option_map (fun n => (GFloat n, r)) (parse_N d)              (* f *)
        | 115 :: d => option_map (fun x => (GString x, r)) (parse_xhex d)          (* s *)
        | 66 :: d => option_map (fun x => (GBytes (Some x), r)) (parse_xhex d)     (* B *)
        | 84 :: 77 :: d => option_map (fun x => (GTime x, r)) (unhex d)            (* TM *)
        | 84 :: d => option_map (fun x => (GTimestamp x, r)) (unhex d)             (* T *)
        | 68 :: d => option_map (fun x => (GDecimal x, r)) (parse_dec_tok d)       (* D *)
        | 71 :: d => option_map (fun z => (GBigInt z, r)) (parse_Z d)              (* G *)
        | _ => None
        end
    end
  end.

Definition show_tok (t : tok) : list N :=
  s "tk," ++ match tk_text t with Some x => xhex x | None => s "-" end ++ 44 :: dec_of_Z (tk_sid t).

Fixpoint show_gv (g : gval) : toks :=
  match g with
  | GBool b => [s (if b then "b1" else "b0")]
  | GInt z => [105 :: dec_of_Z z]
  | GFloat b => [102 :: dec_of_N b]
  | GString x => [115 :: xhex x]
  | GBytes None => [s "Bnil"]
  | GBytes (Some b) => [66 :: xhex b]
  | GSlice None => [s "Lnil"]
  | GSlice (Some l) => s "L" :: dec_of_N (N.of_nat (length l)) :: flat_map show_gv l
  | GArr l => s "A" :: dec_of_N (N.of_nat (length l)) :: flat_map show_gv l
  | GMap None => [s "Mnil"]
  | GMap (Some m) => s "M" :: dec_of_N (N.of_nat (length m)) :: flat_map (fun kv => xhex (fst kv) :: show_gv (snd kv)) m
  | GPtr None => [s "Pnil"]
  | GPtr (Some x) => s "P" :: show_gv x
  | GIface None => [s "Inil"]
  | GIface (Some (dt, x)) => s "I" :: show_ty dt ++ show_gv x
  | GStruct l => s "S" :: dec_of_N (N.of_nat (length l)) :: flat_map show_gv l
  | GTimestamp b => [84 :: hex_of_bytes b]
  | GDecimal d => [show_dec d]
  | GBigInt z => [71 :: dec_of_Z z]
  | GTime b => [84 :: 77 :: hex_of_bytes b]
  | GSymTok t => [s "Y"; show_tok t]
  end.

(* ---- Ion values (show_value syntax) --------------------------------------------------- *)
Definition parse_symv (d : list N) : option symv :=
  match d with
  | 116 :: h => option_map SymText (unhex h)          (* t<hex> *)
  | 105 :: n => option_map SymSid (parse_N n)         (* i<sid> *)
  | _ => None
  end.

Fixpoint parse_iv (fuel : nat) (ts : toks) (a : list symv) {struct fuel} : option (value * toks) :=
  match fuel with
  | O => None
  | S f =>
    let seq := fix seq (k : nat) (ts : toks) (close : N) : option (list value * toks) :=
      match k with
      | O => None
      | S k' =>
        match ts with
        | [c] :: r => if (c =? close)%N then Some ([], r)
                      else match parse_iv f ts [] with
                           | Some (x, r1) => match seq k' r1 close with Some (l, r2) => Some (x :: l, r2) | None => None end
                           | None => None
                           end
        | _ => match parse_iv f ts [] with
               | Some (x, r1) => match seq k' r1 close with Some (l, r2) => Some (x :: l, r2) | None => None end
               | None => None
               end
        end
      end in
    let flds := fix flds (k : nat) (ts : toks) : option (list (symv * value) * toks) :=
      match k with
      | O => None
      | S k' =>
        match ts with
        | [125] :: r => Some ([], r)
        | (102 :: nm) :: r =>
          match parse_symv nm, parse_iv f r [] with
          | Some y, Some (x, r1) => match flds k' r1 with Some (l, r2) => Some ((y, x) :: l, r2) | None => None end
          | _, _ => None
          end
        | _ => None
        end
      end in
    let fin (v : value) (r : toks) := Some (with_anns a v, r) in
    match ts with
    | [] => None
    | c :: r =>
      match c with
      | [91] => match seq (S (length r)) r 93 with Some (l, r') => fin (VList l) r' | None => None end
      | [40] => match seq (S (length r)) r 41 with Some (l, r') => fin (VSexp l) r' | None => None end
      | [123] => match flds (S (length r)) r with Some (l, r') => fin (VStruct l) r' | None => None end
      | 97 :: y => match parse_symv y with Some sy => parse_iv f r (a ++ [sy]) | None => None end
      | 110 :: d => match parse_N d with Some n => fin (VNull n) r | None => None end
      | [98; 48] => fin (VBool false) r
      | [98; 49] => fin (VBool true) r
      | 73 :: d => match parse_Z d with Some z => fin (VInt z) r | None => None end
      | 70 :: d => match parse_N d with Some n => fin (VFloat n) r | None => None end
      | 68 :: d => match parse_dec_tok d with Some x => fin (VDecimal x) r | None => None end
      | 84 :: d => match unhex d with Some x => fin (VTimestamp x) r | None => None end
      | 89 :: d => match parse_symv d with Some y => fin (VSymbol y) r | None => None end
      | 83 :: d => match parse_xhex d with Some x => fin (VString x) r | None => None end
      | 67 :: d => match parse_xhex d with Some x => fin (VClob x) r | None => None end
      | 66 :: d => match parse_xhex d with Some x => fin (VBlob x) r | None => None end
      | _ => None
      end
    end
  end.

Fixpoint parse_ivs (k : nat) (ts : toks) : option (list value) :=
  match ts with
  | [] => Some []
  | _ => match k with
         | O => None
         | S k' => match parse_iv (S (length ts)) ts [] with
                   | Some (v, r) => option_map (cons v) (parse_ivs k' r)
                   | None => None
                   end
         end
  end.

(* ---- writer calls ------------------------------------------------------------------------ *)
Definition show_call (c : wcall) : toks :=
  match c with
  | CFieldName t => [s "FN"; show_tok t]
  | CAnnotation t => [s "AN"; show_tok t]
  | CAnnotations ts => s "ANS" :: dec_of_N (N.of_nat (length ts)) :: map show_tok ts
  | CNull => [s "NULL"]
  | CNullType t => [s "NT"; dec_of_N t]
  | CBool b => [s "BOOL"; s (if b then "1" else "0")]
  | CInt z => [s "INT"; dec_of_Z z]
  | CUint n => [s "UINT"; dec_of_N n]
  | CBigInt (Some z) => [s "BIG"; dec_of_Z z]
  | CBigInt None => [s "BIG"; s "nil"]
  | CFloat b => [s "FLOAT"; dec_of_N b]
  | CDecimal (Some d) => [s "DEC"; dec_of_Z (d_coef d); dec_of_Z (d_exp d); s (if d_negzero d then "1" else "0")]
  | CDecimal None => [s "DEC"; s "nil"]
  | CTimestamp n b => [s "TS"; s "0"; dec_of_N n; xhex b]
  | CSymbol t => [s "SYM"; show_tok t]
  | CSymbolFromString x => [s "SFS"; xhex x]
  | CString x => [s "STR"; xhex x]
  | CClob b => [s "CLOB"; xhex b]
  | CBlob b => [s "BLOB"; xhex b]
  | CBeginList => [s "BL"] | CEndList => [s "EL"] | CBeginSexp => [s "BS"] | CEndSexp => [s "ES"]
  | CBeginStruct => [s "BT"] | CEndStruct => [s "ET"] | CFinish => [s "FIN"]
  end.

Definition show_field (f : field) : list N :=
  xhex (f_name f) ++ 58 :: fold_right (fun i acc => dec_of_N (N.of_nat i) ++ 46 :: acc) [] (f_path f)
  ++ 58 :: (if f_omit f then 49 else 48) :: 58 :: dec_of_N (f_hint f) ++ 58 :: [if f_ann f then 49 else 48].

(* ---- commands ------------------------------------------------------------------------------ *)
Definition parse_ty_top (ts : toks) : option (gty * toks) := parse_ty (S (length ts)) ts.

Definition drv_marshal (cmd : list N) (args : toks) : option (list N) :=
  if tok_is cmd "marshal_calls" then
    match args with
    | so :: h :: rest =>
      match parse_N so, parse_N h, parse_ty_top rest with
      | Some srt, Some hint, Some (t, r1) =>
        match parse_gv (S (length r1)) r1 with
        | Some (g, []) =>
          if has_type g t && wf_ty t
          then Some (out_res (flat_map show_call) (encode (negb (srt =? 0)%N) t g hint))
          else Some (s "illtyped")
        | _ => None
        end
      | _, _, _ => None
      end
    | _ => None
    end
  else if tok_is cmd "unmarshal" then
    match args with
    | _ :: rest =>
      match parse_ty_top rest with
      | Some (t, r1) =>
        match parse_iv (S (length r1)) r1 [] with
        | Some (v, []) => if wf_ty t then Some (out_res show_gv (decode_to t v)) else Some (s "illtyped")
        | _ => None
        end
      | None => None
      end
    | _ => None
    end
  else if tok_is cmd "unmarshal_into" then
    match args with
    | _ :: rest =>
      match parse_ty_top rest with
      | Some (t, r1) =>
        match parse_gv (S (length r1)) r1 with
        | Some (g, r2) =>
          match parse_iv (S (length r2)) r2 [] with
          | Some (v, []) =>
            if has_type g t && wf_ty t then Some (out_res show_gv (decode_into t g v)) else Some (s "illtyped")
          | _ => None
          end
        | None => None
        end
      | None => None
      end
    | _ => None
    end
  else if tok_is cmd "decode_any" then
    match args with
    | _ :: rest =>
      match parse_iv (S (length rest)) rest [] with
      | Some (v, []) => Some (join_sp (s "ok" :: show_gv (decode_any v)))
      | _ => None
      end
    | _ => None
    end
  else if tok_is cmd "decoder_stream" then
    match args with
    | _ :: rest =>
      match parse_ivs (S (length rest)) rest with
      | Some vs => Some (join_sp (s "ok" :: flat_map show_gv (decoder_stream vs) ++ [s "noinput"]))
      | None => None
      end
    | _ => None
    end
  else if tok_is cmd "fields_for" then
    match parse_ty_top args with
    | Some (t, []) => Some (out_res (map show_field) (fields_for t))
    | _ => None
    end
  else if tok_is cmd "roundtrip" then
    (* Unmarshal(Marshal(v)) into a fresh zero value of the same type *)
    match args with
    | _ :: rest =>
      match parse_ty_top rest with
      | Some (t, r1) =>
        match parse_gv (S (length r1)) r1 with
        | Some (g, []) =>
          if has_type g t && wf_ty t then
            Some (match encode true t g TNoType with
                  | Ok cs => match value_of cs with
                             | Some v => out_res show_gv (decode_to t v)
                             | None => s "err"
                             end
                  | Err => s "err"
                  | Panic => s "panic"
                  | OutOfFuel => s "outoffuel"
                  end)
          else Some (s "illtyped")
        | _ => None
        end
      | None => None
      end
    | _ => None
    end
  else None.
