(* DrvBufio.v — line-protocol command for the bufio.Reader model (Base/Bufio.v, component K13b of C19).
     bufio <e|f> <0|1> x<bytes> <k> <size>*k <ops...>
       e|f   the source ends with io.EOF / with a failure
       0|1   the final error comes alone / together with the last chunk
       sizes the number of bytes (>= 1) the source delivers per Read call; afterwards everything that is left
       ops   rb | pk <n> | ds <n> | rf <n>        (ReadByte, Peek, Discard, io.ReadFull)
     -> one token per operation:  b<byte> | E<err>   /   x<hex>:<err>   /   n<count>:<err>
        err: - eof fail full ueof noprog
     bufiospec ... : the same request answered by the chunk-free SPECIFICATION (sizes ignored) *)
From Coq Require Import List NArith ZArith String.
From IonV Require Import Base.Wire Base.Bufio.
Import ListNotations.
Open Scope N_scope.
Local Open Scope string_scope.

Definition err_tok (e : berr) : list N :=
  match e with EEof => s "eof" | EFail => s "fail" | EBufferFull => s "full" | EUnexpectedEof => s "ueof"
             | ENoProgress => s "noprog" end.
Definition oerr_tok (e : option berr) : list N := match e with None => s "-" | Some x => err_tok x end.
Definition res_tok (r : ores) : list N :=
  match r with
  | ResByte (RB c) => 98 :: dec_of_N c
  | ResByte (RBErr e) => 69 :: err_tok e
  | ResBytes d e => xhex d ++ 58 :: oerr_tok e
  | ResCount n e => 110 :: dec_of_N (N.of_nat n) ++ 58 :: oerr_tok e
  end.

Fixpoint parse_sizes (k : nat) (ts : list (list N)) (acc : list nat) : option (list nat * list (list N)) :=
  match k with
  | O => Some (rev acc, ts)
  | S k' => match ts with
            | t :: r => match parse_N t with
                        | Some n => if N.eqb n 0 then None else parse_sizes k' r (Nat.pred (N.to_nat n) :: acc)
                        | None => None
                        end
            | [] => None
            end
  end.
Fixpoint parse_ops (fuel : nat) (ts : list (list N)) : option (list op) :=
  match fuel with
  | O => match ts with [] => Some [] | _ => None end
  | S f =>
    match ts with
    | [] => Some []
    | t :: r =>
      if tok_is t "rb" then option_map (cons OReadByte) (parse_ops f r)
      else match r with
           | a :: r' =>
             match parse_N a with
             | Some n =>
               let k := N.to_nat n in
               if tok_is t "pk" then option_map (cons (OPeek k)) (parse_ops f r')
               else if tok_is t "ds" then option_map (cons (ODiscard k)) (parse_ops f r')
               else if tok_is t "rf" then option_map (cons (OReadFull k)) (parse_ops f r')
               else None
             | None => None
             end
           | [] => None
           end
    end
  end.

Definition drv_bufio (cmd : list N) (args : list (list N)) : option (list N) :=
  let spec := tok_is cmd "bufiospec" in
  if orb (tok_is cmd "bufio") spec then
    match args with
    | fe :: wi :: xb :: kt :: rest =>
      match parse_xhex xb, parse_N kt with
      | Some data, Some k =>
        match parse_sizes (N.to_nat k) rest [] with
        | Some (sizes, opsT) =>
          match parse_ops (List.length opsT) opsT with
          | Some ops =>
            let fin := if tok_is fe "f" then FFail else FEof in
            let src := mkSource data sizes fin (tok_is wi "1") in
            Some (join_sp (s "ok" :: map res_tok
                     (if spec then spec_ops default_bsize ops (mkFlat data fin)
                      else run_ops default_bsize ops (new_breader src))))
          | None => None
          end
        | None => None
        end
      | _, _ => None
      end
    | _ => None
    end
  else None.
