(* DrvBits.v — line-protocol commands for component K1 (codecs). *)
From Coq Require Import List NArith ZArith String.
From IonV Require Import Base.Wire Bin.Bits.
Import ListNotations.
Open Scope N_scope.
Local Open Scope string_scope.

Definition outN (n : N) : list N := join_sp [s "ok"; dec_of_N n].
Definition outB (b : list N) : list N := join_sp [s "ok"; xhex b].
Definition b2n (b : bool) : N := if b then 1 else 0.

Definition drv_bits (cmd : list N) (args : list (list N)) : option (list N) :=
  let argN k := match nth_error args k with Some t => parse_N t | None => None end in
  let argZ k := match nth_error args k with Some t => parse_Z t | None => None end in
  let argX k := match nth_error args k with Some t => parse_xhex t | None => None end in
  if tok_is cmd "uintlen" then option_map (fun v => outN (uint_len v)) (argN 0%nat)
  else if tok_is cmd "appenduint" then option_map (fun v => outB (append_uint [] v)) (argN 0%nat)
  else if tok_is cmd "intlen" then option_map (fun v => outN (int_len v)) (argZ 0%nat)
  else if tok_is cmd "appendint" then option_map (fun v => outB (append_int [] v)) (argZ 0%nat)
  else if tok_is cmd "bigintlen" then option_map (fun v => outN (bigint_len v)) (argZ 0%nat)
  else if tok_is cmd "appendbigint" then option_map (fun v => outB (append_bigint [] v)) (argZ 0%nat)
  else if tok_is cmd "varuintlen" then option_map (fun v => outN (varuint_len v)) (argN 0%nat)
  else if tok_is cmd "appendvaruint" then option_map (fun v => outB (append_varuint [] v)) (argN 0%nat)
  else if tok_is cmd "varintlen" then option_map (fun v => outN (varint_len v)) (argZ 0%nat)
  else if tok_is cmd "appendvarint" then option_map (fun v => outB (append_varint [] v)) (argZ 0%nat)
  else if tok_is cmd "taglen" then option_map (fun v => outN (tag_len v)) (argN 0%nat)
  else if tok_is cmd "appendtag" then
    match argN 0%nat, argN 1%nat with
    | Some c, Some l => Some (outB (append_tag [] c l))
    | _, _ => None
    end
  else if tok_is cmd "readvaruint" then
    match argN 0%nat, argX 1%nat with
    | Some m, Some b =>
      Some (out_res (fun '(v, l, r) => [dec_of_N v; dec_of_N l; xhex r]) (read_varuint m b))
    | _, _ => None
    end
  else if tok_is cmd "readvarint" then
    match argN 0%nat, argX 1%nat with
    | Some m, Some b =>
      Some (out_res (fun '(v, sg, l, r) => [dec_of_Z v; dec_of_N (b2n sg); dec_of_N l; xhex r])
                    (read_varint m b))
    | _, _ => None
    end
  else if tok_is cmd "readsignmag" then
    option_map (fun b => out_res (fun v => [dec_of_Z v]) (read_signmag b)) (argX 0%nat)
  else if tok_is cmd "frombe64" then
    option_map (fun b => outN (from_be64 b)) (argX 0%nat)
  else None.
