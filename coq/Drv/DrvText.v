(* DrvText.v — line-protocol commands of the text writer model (K4).

   tw <opts> <budget|-> <calls...>   opts: bit 0 = TextWriterQuietFinish, bit 1 = TextWriterPretty
   The call tokens are those of DrvBin.parse_call, except that values whose text comes
   from code that is not modelled carry that text:
     FLOATX <bits> x<strconv.FormatFloat(val,'e',-1,64)>
     DECX <coef> <exp> <negzero> x<Decimal.String()>
     TSX <fields> x<Timestamp.String()>
   (the Go side ignores the hex text and passes the real value to the Writer).
   Finite-domain commands: sym_quote, sym_tok, sfs_quote, needs_quote, str_escape,
   sym_escape, clob_escape, charclass, textnull, ffloat, b64. *)
From Coq Require Import String List NArith ZArith Bool.
From IonV Require Import Base.Wire Data.Ion Num.Float Bin.BinWriter Drv.DrvBin Text.TextOut Text.TextWriter.
Import ListNotations.
Open Scope N_scope.

(* the texts collected from a request line *)
Record texts := { tx_float : list (N * list N); tx_dec : list (dec * list N) }.
Definition dec_eqb (a b : dec) : bool :=
  (d_coef a =? d_coef b)%Z && (d_exp a =? d_exp b)%Z && Bool.eqb (d_negzero a) (d_negzero b).
Fixpoint lookup {A} (eqb : A -> A -> bool) (k : A) (l : list (A * list N)) : list N :=
  match l with
  | [] => []
  | (k', v) :: r => if eqb k k' then v else lookup eqb k r
  end.
Definition formats_of (t : texts) : formats :=
  {| fmt_float := fun b => lookup N.eqb b (tx_float t);
     fmt_dec := fun d => lookup dec_eqb d (tx_dec t);
     fmt_ts := fun _ body => body |}.          (* TSX puts the text in the body slot *)

Definition parse_tcall (ts : list (list N)) (t : texts) : option (wcall * list (list N) * texts) :=
  match ts with
  | [] => None
  | c :: r =>
    if tok_is c "FLOATX" then
      match r with
      | b :: x :: r' =>
        match parse_N b, parse_xhex x with
        | Some bits, Some txt =>
          Some (CFloat bits, r', {| tx_float := (bits, txt) :: tx_float t; tx_dec := tx_dec t |})
        | _, _ => None
        end
      | _ => None
      end
    else if tok_is c "DECX" then
      match r with
      | a :: e :: z :: x :: r' =>
        match parse_Z a, parse_Z e, parse_N z, parse_xhex x with
        | Some co, Some ex, Some nz, Some txt =>
          let d := {| d_coef := co; d_exp := ex; d_negzero := negb (nz =? 0) |} in
          Some (CDecimal (Some d), r', {| tx_float := tx_float t; tx_dec := (d, txt) :: tx_dec t |})
        | _, _, _, _ => None
        end
      | _ => None
      end
    else if tok_is c "TSX" then
      match r with
      | _ :: x :: r' =>
        match parse_xhex x with
        | Some txt => Some (CTimestamp 0 txt, r', t)
        | None => None
        end
      | _ => None
      end
    else if tok_is c "FLOAT" || tok_is c "TS" then None       (* no text given: not a text request *)
    else match parse_call ts with
         | Some (CDecimal (Some _), _) => None
         | Some (cl, r') => Some (cl, r', t)
         | None => None
         end
  end.

Fixpoint parse_tcalls (k : nat) (ts : list (list N)) (t : texts) : option (list wcall * texts) :=
  match ts with
  | [] => Some ([], t)
  | _ => match k with
         | O => None
         | S k' => match parse_tcall ts t with
                   | Some (c, r, t') =>
                     match parse_tcalls k' r t' with
                     | Some (cs, t'') => Some (c :: cs, t'')
                     | None => None
                     end
                   | None => None
                   end
         end
  end.

(* user-level drive: every call is made; results recorded; a panic stops the run *)
Fixpoint tdrive_ix (F : formats) (w : twstate) (cs : list wcall) (acc : list N) (i : N)
  : twstate * list N * option N :=
  match cs with
  | [] => (w, rev acc, None)
  | c :: r => match tw_step F w c with
              | Ok (w', ok) => tdrive_ix F w' r ((if ok then 49 else 48) :: acc) (i + 1)
              | Panic => (w, rev acc, Some i)
              | _ => (w, rev acc, Some (i + 1000000))
              end
  end.

Definition out_tdrive (r : twstate * list N * option N) : list N :=
  let '(w, results, p) := r in
  match p with
  | None => join_sp [s "ok"; 114 :: results; xhex (sink_bytes (tw_out w));
                     dec_of_N (N.of_nat (length (sk_writes (tw_out w))))]
  | Some i => join_sp [s "panic"; dec_of_N i; 114 :: results]
  end.

Definition out_chunks (cs : list chunk) : list N :=
  join_sp [s "ok"; xhex (concat cs); dec_of_N (N.of_nat (length cs))].
Definition bit (b : bool) : N := if b then 49 else 48.

Definition one_x (args : list (list N)) (f : list N -> list N) : option (list N) :=
  match args with
  | [a] => option_map f (parse_xhex a)
  | _ => None
  end.

Fixpoint join_comma (l : list (list N)) : list N :=
  match l with
  | [] => [45]
  | [x] => x
  | x :: r => x ++ 44 :: join_comma r
  end.

Definition drv_text (cmd : list N) (args : list (list N)) : option (list N) :=
  if tok_is cmd "tw" then
    match args with
    | o :: b :: rest =>
      match parse_N o, parse_budget b, parse_tcalls (length rest) rest {| tx_float := []; tx_dec := [] |} with
      | Some opts, Some bud, Some (cs, t) =>
        if 4 <=? opts then None else
        Some (out_tdrive (tdrive_ix (formats_of t)
                            (new_text_writer bud (N.testbit opts 1) (N.testbit opts 0)) cs [] 0))
      | _, _, _ => None
      end
    | _ => None
    end
  else if tok_is cmd "sym_quote" then
    one_x args (fun x => match write_symbol (tok_text x) with Some cs => out_chunks cs | None => s "err" end)
  else if tok_is cmd "sym_tok" then
    match args with
    | [a] => option_map (fun t => match write_symbol t with Some cs => out_chunks cs | None => s "err" end)
                        (parse_tok a)
    | _ => None
    end
  else if tok_is cmd "sfs_quote" then one_x args (fun x => out_chunks (write_symbol_from_string x))
  else if tok_is cmd "needs_quote" then
    one_x args (fun x => join_sp [s "ok"; [bit (symbol_needs_quoting x)]])
  else if tok_is cmd "str_escape" then one_x args (fun x => out_chunks (escaped_string x))
  else if tok_is cmd "sym_escape" then one_x args (fun x => out_chunks (escaped_symbol x))
  else if tok_is cmd "clob_escape" then
    one_x args (fun x => out_chunks ([[123; 123; 34]] ++ escaped_clob x ++ [[34; 125; 125]]))
  else if tok_is cmd "charclass" then
    match args with
    | [a] => option_map (fun c => join_sp [s "ok";
                           [bit (is_identifier_start c); bit (is_identifier_part c); bit (is_digit_c c);
                            bit (is_hex_digit c); bit (is_operator_char c); bit (is_stop_char c);
                            bit (is_whitespace c)]]) (parse_N a)
    | _ => None
    end
  else if tok_is cmd "textnull" then
    match args with
    | [a] => option_map (fun t => out_res (fun x => [xhex x]) (text_null t)) (parse_N a)
    | _ => None
    end
  else if tok_is cmd "ffloat" then
    match args with
    | [a; x] => match parse_N a, parse_xhex x with
                | Some bits, Some raw => Some (join_sp [s "ok"; xhex (format_float (fun _ => raw) bits)])
                | _, _ => None
                end
    | _ => None
    end
  else if tok_is cmd "b64" then
    one_x args (fun x => let cs := blob_body x in
                         join_sp [s "ok"; xhex (concat cs);
                                  join_comma (map (fun c => dec_of_N (N.of_nat (length c))) cs)])
  else None.
