(* DrvRead.v — line-protocol commands for the binary reader model (K2). *)
From Coq Require Import String List NArith ZArith Bool.
From IonV Require Import Base.Wire Bin.Bits Data.Ion Bin.BitStream Bin.BinReader Num.Calendar Num.Timestamp.
From IonV Require Export Bin.BinReaderTs.   (* ts_ok_default, used by the other reader drivers too *)
Import ListNotations.
Open Scope N_scope.

Definition parse_rop (t : list N) : option rop :=
  if tok_is t "N" then Some ONext else if tok_is t "SI" then Some OStepIn else if tok_is t "SO" then Some OStepOut
  else if tok_is t "TY" then Some OType else if tok_is t "NU" then Some OIsNull else if tok_is t "AN" then Some OAnnotations
  else if tok_is t "FN" then Some OFieldName else if tok_is t "IS" then Some OIsInStruct else if tok_is t "ER" then Some OErr
  else if tok_is t "BO" then Some OBool else if tok_is t "SZ" then Some OIntSize else if tok_is t "IV" then Some OInt
  else if tok_is t "I6" then Some OInt64 else if tok_is t "BI" then Some OBigInt else if tok_is t "FL" then Some OFloat
  else if tok_is t "DE" then Some ODecimal else if tok_is t "TS" then Some OTimestamp else if tok_is t "ST" then Some OString
  else if tok_is t "SY" then Some OSymbol else if tok_is t "BY" then Some OBytes else None.
Fixpoint parse_rops (ts : list (list N)) : option (list rop) :=
  match ts with
  | [] => Some []
  | t :: r => match parse_rop t, parse_rops r with
              | Some o, Some l => Some (o :: l)
              | _, _ => None
              end
  end.

(* the reader model carries a timestamp as its binary body and prints "T" ++ hex; the harness prints the
   Timestamp's fields: render the model's token the same way *)
Definition canon_ts_token (t : list N) : list N :=
  match t with
  | 84 :: h =>
    match unhex h with
    | Some body =>
      match read_ts_body patched (N.of_nat (length body)) body with
      | Ok x => 84 :: concat (map (fun f => dec_of_Z f ++ [44]) (removelast (ts_fields x)))
                   ++ dec_of_Z (last (ts_fields x) 0%Z)
      | _ => t
      end
    | None => t
    end
  | _ => t
  end.
Definition canon_tokens (ts : list (list N)) : list (list N) := map canon_ts_token ts.

Definition drv_read (cmd : list N) (args : list (list N)) : option (list N) :=
  if tok_is cmd "brd" then
    match args with
    | e :: b :: ops =>
      match parse_xhex b, parse_rops ops with
      | Some x, Some p => Some (join_sp (canon_tokens (snd (r_run ts_ok_default (r_init x (tok_is e "1")) p []))))
      | _, _ => None
      end
    | _ => None
    end
  else if tok_is cmd "btrav" then
    match args with
    | [e; b] => option_map (fun x => join_sp (canon_tokens (fst (traverse ts_ok_default x (tok_is e "1"))))) (parse_xhex b)
    | _ => None
    end
  else if tok_is cmd "balloc" then
    match args with
    | [e; b] => option_map (fun x => dec_of_N (snd (traverse ts_ok_default x (tok_is e "1")))) (parse_xhex b)
    | _ => None
    end
  else None.
