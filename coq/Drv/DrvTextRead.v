(* DrvTextRead.v — line-protocol commands for the text reader model (K5).
   trd/ttrav have exactly the syntax of brd/btrav (DrvRead.v); an input that
   ion.NewReader would take for binary (E0 .. .. EA) goes to the binary model. *)
From Coq Require Import String List NArith ZArith Bool.
From IonV Require Import Base.Wire Bin.Bits Data.Ion Bin.BitStream Bin.BinReader Drv.DrvRead
  Text.Tokenizer Text.Skipper Text.TextReader Text.TextNum.
Import ListNotations.
Open Scope N_scope.

Definition looks_binary (x : list N) : bool :=
  match x with
  | a :: _ :: _ :: d :: _ => (a =? 224) && (d =? 234)
  | _ => false
  end.

Definition bit (b : bool) : N := if b then 49 else 48.
(* character classes of textutils.go / tokenizer.go for one int *)
Definition char_classes (c : Z) : list N :=
  [bit (is_whitespace c); bit (is_stop_char c); bit (is_identifier_start c); bit (is_identifier_part c);
   bit (is_digit c); bit (is_hex_digit c); bit (is_operator_char c); bit (is_prohibited_control_char c);
   bit (is_string_whitespace c); bit (is_new_line_char c); bit (is_ascii c)].

(* the bare tokenizer: Next + Token() until EOF or error *)
Fixpoint ttok_loop (fuel : nat) (t : tstate) (acc : list (list N)) : list (list N) :=
  match fuel with
  | O => rev (s "outoffuel" :: acc)
  | S f =>
    match t_next t with
    | Ok (_, t') =>
      let k := t_token t' in
      if k =? tokenEOF then rev (dec_of_N k :: acc) else ttok_loop f t' (dec_of_N k :: acc)
    | Err => rev (s "err" :: acc)
    | Panic => rev (s "panic" :: acc)
    | OutOfFuel => rev (s "outoffuel" :: acc)
    end
  end.

Definition has_read_value (k : N) : bool :=
  (k =? tokenSymbol) || (k =? tokenSymbolQuoted) || (k =? tokenSymbolOperator) || (k =? tokenDot)
  || (k =? tokenString) || (k =? tokenLongString) || (k =? tokenBinary) || (k =? tokenHex) || (k =? tokenTimestamp).
Definition kind_code (k : numkind) : N := match k with NKInt => 3 | NKFloat => 4 | NKDecimal => 5 end.
(* the bare tokenizer, reading every token's text with ReadValue / ReadNumber *)
Fixpoint ttokv_loop (fuel : nat) (t : tstate) (acc : list (list N)) : list (list N) :=
  match fuel with
  | O => rev (s "outoffuel" :: acc)
  | S f =>
    match t_next t with
    | Ok (_, t') =>
      let k := t_token t' in
      let acc := dec_of_N k :: acc in
      if k =? tokenEOF then rev acc
      else if has_read_value k then
        match t_read_value k t' with
        | Ok (v, t2) => ttokv_loop f t2 ((118 :: hex_of_bytes v) :: acc)
        | Err => rev (s "err" :: acc)
        | Panic => rev (s "panic" :: acc)
        | OutOfFuel => rev (s "outoffuel" :: acc)
        end
      else if k =? tokenNumber then
        match t_read_number t' with
        | Ok ((v, kd), t2) => ttokv_loop f t2 ((110 :: dec_of_N (kind_code kd) ++ 58 :: hex_of_bytes v) :: acc)
        | Err => rev (s "err" :: acc)
        | Panic => rev (s "panic" :: acc)
        | OutOfFuel => rev (s "outoffuel" :: acc)
        end
      else ttokv_loop f t' acc
    | Err => rev (s "err" :: acc)
    | Panic => rev (s "panic" :: acc)
    | OutOfFuel => rev (s "outoffuel" :: acc)
    end
  end.

Definition drv_textread (cmd : list N) (args : list (list N)) : option (list N) :=
  if tok_is cmd "trd" then
    match args with
    | e :: b :: ops =>
      match parse_xhex b, parse_rops ops with
      | Some x, Some p =>
        if looks_binary x
        then Some (join_sp (snd (r_run ts_ok_default (r_init x (tok_is e "1")) p [])))
        else Some (join_sp (snd (x_run parse_decimal_text parse_ts_text (x_init x (tok_is e "1")) p [])))
      | _, _ => None
      end
    | _ => None
    end
  else if tok_is cmd "ttrav" then
    match args with
    | [e; b] =>
      option_map (fun x => if looks_binary x then join_sp (fst (traverse ts_ok_default x (tok_is e "1")))
                           else join_sp (x_traverse parse_decimal_text parse_ts_text x (tok_is e "1")))
                 (parse_xhex b)
    | _ => None
    end
  else if tok_is cmd "ttok" then
    match args with
    | [b] => option_map (fun x => join_sp (ttok_loop (length x + 2) (t_init x false) [])) (parse_xhex b)
    | _ => None
    end
  else if tok_is cmd "ttokv" then
    match args with
    | [b] => option_map (fun x => join_sp (ttokv_loop (length x + 2) (t_init x false) [])) (parse_xhex b)
    | _ => None
    end
  else if tok_is cmd "tcls" then
    match args with
    | [c] => option_map (fun z => join_sp [s "ok"; char_classes z]) (parse_Z c)
    | _ => None
    end
  else if tok_is cmd "tesc" then
    match args with
    | [k; b] =>
      option_map (fun x => match read_escaped_char (tok_is k "1") (t_init x false) with
                           | Ok (r, _) => join_sp [s "ok"; dec_of_Z r]
                           | Err => s "err"
                           | Panic => s "panic"
                           | OutOfFuel => s "outoffuel"
                           end) (parse_xhex b)
    | _ => None
    end
  else if tok_is cmd "tdec" then
    (* ParseDecimal on a literal *)
    match args with
    | [b] => option_map (fun x => match parse_decimal_text x with
                                  | Ok d => join_sp [s "ok"; show_dec d]
                                  | _ => s "err"
                                  end) (parse_xhex b)
    | _ => None
    end
  else if tok_is cmd "tts" then
    (* ParseTimestamp on a literal *)
    match args with
    | [b] => option_map (fun x => match parse_ts_text x with
                                  | Ok d => join_sp [s "ok"; 84 :: d]
                                  | _ => s "err"
                                  end) (parse_xhex b)
    | _ => None
    end
  else None.
