(* DrvCli.v — line-protocol commands for component K12 (cmd/ion-go process).

   An observed forest is written in prefix form, one value =
     [f <tok>] {a <tok>}* body
   body = N <type> | B <0|1> | I <int64> | J <big> | F <bits> | D <coef> <exp> <negzero>
        | TS <len> x<body> | Y <tok> | S x<..> | C x<..> | BL x<..>
        | [ values ] | ( values ) | { values } | X            (X = the Reader fails here)
   tokens <tok> as in DrvBin: tk,<xhex|->,<sid>.

   cli_calls  <pinned|fixed|sids> forest -> ok <calls> | <reports>         (writer: accepts everything)
   cli_vals   <pinned|fixed|sids> forest -> ok <show_values of the calls> / none / panic
   cli_events <pinned|fixed|sids> <pinned|fixed> forest -> ok <events> | <reports>   (process.go, eventwriter.go)
   cli_bin    <pinned|fixed|sids> forest -> ok x<bytes> | <reports>         (binary writer model)
   cli_obs    forest                -> ok <show_values of the forest>
   a report = R <r|w> <in-input 1|0> <idx> ; an event = E <type> <ion> <xfield|-> <depth> <n> <tok>*n <call|-> ; *)
From Coq Require Import String List NArith ZArith Bool.
From IonV Require Import Base.Wire Bin.Bits Data.Ion Bin.BitStream Bin.BinWriter Drv.DrvBin Cli.Process Cli.Events.
Import ListNotations.
Open Scope N_scope.

(* ---- parsing ------------------------------------------------------------------------------- *)
Fixpoint parse_annots (ts : list (list N)) : option (list tok * list (list N)) :=
  match ts with
  | k :: t :: r =>
    if tok_is k "a" then
      match parse_tok t, parse_annots r with
      | Some a, Some (l, r') => Some (a :: l, r')
      | _, _ => None
      end
    else Some ([], ts)
  | _ => Some ([], ts)
  end.

Definition parse_head (ts : list (list N)) : option (option tok * list tok * list (list N)) :=
  match ts with
  | k :: t :: r =>
    if tok_is k "f" then
      match parse_tok t, parse_annots r with
      | Some f, Some (a, r') => Some (Some f, a, r')
      | _, _ => None
      end
    else option_map (fun '(a, r') => (None, a, r')) (parse_annots ts)
  | _ => option_map (fun '(a, r') => (None, a, r')) (parse_annots ts)
  end.

Definition open_kind (t : list N) : option ckind :=
  if tok_is t "[" then Some KList else if tok_is t "(" then Some KSexp else if tok_is t "{" then Some KStruct else None.
Definition is_close (t : list N) : bool := tok_is t "]" || tok_is t ")" || tok_is t "}".
Definition closes (k : ckind) (t : list N) : bool :=
  match k with KList => tok_is t "]" | KSexp => tok_is t ")" | KStruct => tok_is t "}" end.

Definition parse_scalar (k : list N) (r : list (list N)) : option (oscalar * list (list N)) :=
  let one (f : list N -> option oscalar) :=
    match r with a :: r' => option_map (fun x => (x, r')) (f a) | [] => None end in
  if tok_is k "N" then one (fun a => option_map SNull (parse_N a))
  else if tok_is k "B" then one (fun a => option_map (fun n => SBool (negb (n =? 0))) (parse_N a))
  else if tok_is k "I" then one (fun a => option_map (fun z => SInt (I64 z)) (parse_Z a))
  else if tok_is k "J" then one (fun a => option_map (fun z => SInt (IBig z)) (parse_Z a))
  else if tok_is k "F" then one (fun a => option_map SFloat (parse_N a))
  else if tok_is k "D" then
    match r with
    | a :: e :: z :: r' =>
      match parse_Z a, parse_Z e, parse_N z with
      | Some co, Some ex, Some nz => Some (SDecimal {| d_coef := co; d_exp := ex; d_negzero := negb (nz =? 0) |}, r')
      | _, _, _ => None
      end
    | _ => None
    end
  else if tok_is k "TS" then
    match r with
    | l :: b :: r' => match parse_N l, parse_xhex b with
                      | Some n, Some x => Some (STimestamp n x, r')
                      | _, _ => None
                      end
    | _ => None
    end
  else if tok_is k "Y" then one (fun a => option_map SSymbol (parse_tok a))
  else if tok_is k "S" then one (fun a => option_map SString (parse_xhex a))
  else if tok_is k "C" then one (fun a => option_map SClob (parse_xhex a))
  else if tok_is k "BL" then one (fun a => option_map SBlob (parse_xhex a))
  else None.

Fixpoint parse_forest (fuel : nat) (ts : list (list N)) : option (list oval * list (list N)) :=
  match fuel with
  | O => None
  | S f =>
    match ts with
    | [] => Some ([], [])
    | t :: r0 =>
      if is_close t then Some ([], ts)
      else if tok_is t "X" then option_map (fun '(sib, r') => (OFail :: sib, r')) (parse_forest f r0)
      else
        match parse_head ts with
        | None => None
        | Some (fld, anns, ts2) =>
          match ts2 with
          | [] => None
          | k :: r2 =>
            match open_kind k with
            | Some kind =>
              match parse_forest f r2 with
              | Some (l, c :: r3) =>
                if closes kind c then
                  option_map (fun '(sib, r4) => (OCont fld anns kind l :: sib, r4)) (parse_forest f r3)
                else None
              | _ => None
              end
            | None =>
              match parse_scalar k r2 with
              | Some (sc, r3) => option_map (fun '(sib, r4) => (OScalar fld anns sc :: sib, r4)) (parse_forest f r3)
              | None => None
              end
            end
          end
        end
    end
  end.

Definition parse_obs (ts : list (list N)) : option (list oval) :=
  match parse_forest (S (length ts)) ts with
  | Some (l, []) => Some l
  | _ => None
  end.

(* ---- printing --------------------------------------------------------------------------------- *)
Definition show_wtok (t : tok) : list N :=
  s "tk," ++ (match tk_text t with Some x => xhex x | None => [45] end) ++ 44 :: dec_of_Z (tk_sid t).

Definition show_call (c : wcall) : list (list N) :=
  match c with
  | CFieldName t => [s "FN"; show_wtok t]
  | CAnnotation t => [s "AN"; show_wtok t]
  | CAnnotations ts => s "ANS" :: dec_of_N (N.of_nat (length ts)) :: map show_wtok ts
  | CNull => [s "NULL"]
  | CNullType t => [s "NT"; dec_of_N t]
  | CBool b => [s "BOOL"; if b then s "1" else s "0"]
  | CInt z => [s "INT"; dec_of_Z z]
  | CUint n => [s "UINT"; dec_of_N n]
  | CBigInt None => [s "BIG"; s "nil"]
  | CBigInt (Some z) => [s "BIG"; dec_of_Z z]
  | CFloat b => [s "FLOAT"; dec_of_N b]
  | CDecimal None => [s "DEC"; s "nil"]
  | CDecimal (Some d) => [s "DEC"; dec_of_Z (d_coef d); dec_of_Z (d_exp d); if d_negzero d then s "1" else s "0"]
  | CTimestamp l b => [s "TS"; s "-"; dec_of_N l; xhex b]
  | CSymbol t => [s "SYM"; show_wtok t]
  | CSymbolFromString x => [s "SFS"; xhex x]
  | CString x => [s "STR"; xhex x]
  | CClob b => [s "CLOB"; xhex b]
  | CBlob b => [s "BLOB"; xhex b]
  | CBeginList => [s "BL"] | CEndList => [s "EL"]
  | CBeginSexp => [s "BS"] | CEndSexp => [s "ES"]
  | CBeginStruct => [s "BT"] | CEndStruct => [s "ET"]
  | CFinish => [s "FIN"]
  end.

Definition show_report (r : report) : list (list N) :=
  [s "R"; (match rp_type r with ERead => s "r" | EWrite => s "w" end);
   (if rp_in_input r then s "1" else s "0"); dec_of_N (rp_idx r)].

Definition show_event (e : event) : list (list N) :=
  [s "E"; dec_of_N (ev_type e); dec_of_N (ev_ion e);
   (match ev_field e with Some x => xhex x | None => s "-" end);
   dec_of_Z (ev_depth e); dec_of_N (N.of_nat (length (ev_annots e)))]
  ++ map show_wtok (ev_annots e)
  ++ (match ev_value e with Some c => show_call c | None => [s "-"] end) ++ [s ";"].

(* the tree's process.go: as found / with fix_cli_nulls / with fix_cli_nulls and fix_cli_sids *)
Inductive pmode := MPinned | MFixed | MSids.
Definition mode_of (t : list N) : option pmode :=
  if tok_is t "fixed" then Some MFixed else if tok_is t "pinned" then Some MPinned
  else if tok_is t "sids" then Some MSids else None.
Definition mode_fixed (t : list N) : option bool :=
  if tok_is t "fixed" then Some true else if tok_is t "pinned" then Some false else None.

Definition run_mode {W} (wstep : W -> wcall -> res (W * bool)) (w : W) (m : pmode) (vs : list oval) : res (outcome W) :=
  match m with
  | MPinned => process_pinned wstep w vs
  | MFixed => process_fixed wstep w vs
  | MSids => process_fixed_sids wstep w vs
  end.
Definition run_nop (m : pmode) (vs : list oval) : res (outcome unit) := run_mode nop_step tt m vs.

Definition out_outcome {W} (body : outcome W -> list (list N)) (r : res (outcome W)) : list N :=
  match r with
  | Ok o => join_sp (s "ok" :: body o ++ s "|" :: flat_map show_report (oc_reports o))
  | Panic => s "panic"
  | Err => s "err"
  | OutOfFuel => s "outoffuel"
  end.

Definition drv_cli (cmd : list N) (args : list (list N)) : option (list N) :=
  let with_forest (k : pmode -> list oval -> list N) : option (list N) :=
    match args with
    | m :: rest =>
      match mode_of m, parse_obs rest with
      | Some fx, Some vs => Some (k fx vs)
      | _, _ => None
      end
    | [] => None
    end in
  if tok_is cmd "cli_calls" then
    with_forest (fun fx vs => out_outcome (fun o => flat_map show_call (oc_calls o)) (run_nop fx vs))
  else if tok_is cmd "cli_vals" then
    with_forest (fun fx vs =>
      match run_nop fx vs with
      | Ok o => match values_of_calls (oc_calls o) with
                | Some l => join_sp [s "ok"; show_values l]
                | None => s "none"
                end
      | Panic => s "panic"
      | _ => s "err"
      end)
  else if tok_is cmd "cli_events" then
    (* two mode tokens: process.go, then eventwriter.go (the two patches are independent) *)
    match args with
    | m1 :: m2 :: rest =>
      match mode_of m1, mode_fixed m2, parse_obs rest with
      | Some fp, Some fe, Some vs =>
        let e0 := if fe then ew_init_fixed else ew_init_pinned in
        Some (out_outcome (fun o => flat_map show_event (events_of_state (oc_w o)))
                          (run_mode ew_step e0 fp vs))
      | _, _, _ => None
      end
    | _ => None
    end
  else if tok_is cmd "cli_bin" then
    with_forest (fun fx vs =>
      out_outcome (fun o => [xhex (sink_bytes (w_out (oc_w o)))])
                  (run_mode bin_step (new_writer None) fx vs))
  else if tok_is cmd "cli_obs" then
    match parse_obs args with
    | Some vs => Some (join_sp [s "ok"; show_values (map value_of vs)])
    | None => None
    end
  else None.
