(* DrvSymctx.v — line-protocol commands of the symbol-context components (K7: reader with a
   catalog; K8: binary writer with shared / fixed tables).

   Shared tables are written with the descriptors of Drv/DrvSymtab.v
     S <name-hex> <version> <nsyms> <sym-hex>*nsyms <nadj> <maxid>*nadj
     B <name-hex> <version> <maxid> <nadj> <maxid>*nadj
   Commands:
     cattrav <ioerr> x<bytes> <desc>*        plain full traversal (trace syntax of btrav/ttrav) of
                                             ion.NewReaderCat(bytes, NewCatalog(desc...)); binary or text
     bwsh <budget|-> <desc>* -- <calls...>   NewBinaryWriter(out, desc...) driven by the call tokens of bw
     bwlsh <budget|-> <desc>* L <n> <sym-hex>*n -- <calls...>
     bwlshb <budget|-> <desc>* L <n> <sym-hex>*n X <m> <sym-hex>*m -- <calls...>   (table built by a builder; X added after Build)
                                             NewBinaryWriterLST(out, NewLocalSymbolTable(desc..., locals))
     sdecodecat x<bytes> <desc>*             (model only) the specification decoder with a catalog
     ctxhist x<bytes> <desc>*                (model only) the symbol context after the stream: the
                                             abstraction of impl_history and the specification's spec_history
                                             (binary input; `$ion_symbol_table` as a value is taken as SID 3) *)
From Coq Require Import String List NArith ZArith Bool.
From IonV Require Import Base.Wire Sym.SymTab Drv.DrvSymtab.
From IonV Require Import Bin.Bits Data.Ion Bin.BitStream Bin.BinReader Bin.BinWriter Bin.SpecBin
  Text.TextReader Text.TextNum Drv.DrvRead Drv.DrvBin Drv.DrvTextRead
  Sym.LstSpec Sym.LstRead Sym.CtxHistory Bin.BinWriterSh Bin.SpecBinCat.
Import ListNotations.
Open Scope N_scope.

Fixpoint drive_ix_sh (x : shw) (cs : list wcall) (acc : list N) (i : N) : shw * list N * option N :=
  match cs with
  | [] => (x, rev_append acc [], None)
  | c :: r => match wstep_sh x c with
              | Ok (x', ok) => drive_ix_sh x' r ((if ok then 49 else 48) :: acc) (i + 1)
              | Panic => (x, rev_append acc [], Some i)
              | _ => (x, rev_append acc [], Some (i + 1000000))
              end
  end.
Definition out_drive_sh (r : shw * list N * option N) : list N :=
  let '(x, results, p) := r in out_drive (sw_w x, results, p).

(* split the arguments at the token "--" *)
Fixpoint split_dd (ts acc : list (list N)) : option (list (list N) * list (list N)) :=
  match ts with
  | [] => None
  | t :: r => if tok_is t "--" then Some (rev_append acc [], r) else split_dd r (t :: acc)
  end.

Definition show_slot (o : option (list N)) : list N :=
  match o with Some t => 116 :: hex_of_bytes t | None => [117] end.
Definition show_ctx (c : LstSpec.ctx) : list N :=
  match c with [] => [45] | _ => concat (map (fun o => show_slot o ++ [44]) c) end.
Definition small_shared (x : shared) : bool := sh_max x <=? 4096.
Definition small_lst (c : option lst) : bool :=
  match c with None => true | Some t => forallb small_shared (l_imports t) end.

(* the history of a binary stream: version markers and symbol-table structs, decoded by the
   specification decoder under the specification's context *)
Definition sid3 (k : tok) : tok :=
  if fname_is k "$ion_symbol_table" then {| tk_text := tk_text k; tk_sid := 3 |} else k.
Definition tv_sid3 (v : tval) : tval :=
  match v with
  | TvSymbol k => TvSymbol (sid3 k)
  | _ => v
  end.
Definition fields_sid3 (fs : list (tok * tval)) : list (tok * tval) :=
  map (fun f => (fst f, tv_sid3 (snd f))) fs.
(* binary `$ion_symbol_table::null.struct`: the binary reader consumes it and resets to the system table *)
Definition is_null_lst (v : value) : bool :=
  match v with
  | VAnn (SymText t :: _) (VNull ty) => list_eqb t (s "$ion_symbol_table"%string) && (ty =? TStruct)
  | _ => false
  end.
Fixpoint history_of (k : nat) (c : scatalog) (cx : LstSpec.ctx) (l : list N) : option (list hitem) :=
  match l with
  | [] => Some []
  | _ =>
    match k with
    | O => None
    | S k' =>
      match l with
      | 224 :: 1 :: 0 :: 234 :: r => option_map (cons HIvm) (history_of k' c LstSpec.system_ctx r)
      | _ =>
        match sp_value k [Slots cx] l with
        | Some (None, r) => history_of k' c cx r
        | Some (Some v, r) =>
          if is_null_lst v then option_map (cons HIvm) (history_of k' c LstSpec.system_ctx r) else
          match is_lst v with
          | Some fs =>
            let h := HTable (fields_sid3 (tfields fs)) in
            match (do it <- item_of_hitem h; spec_step c cx it) with
            | Ok cx' => option_map (cons h) (history_of k' c cx' r)
            | _ => Some [h]                         (* the history ends at an invalid table *)
            end
          | None => history_of k' c cx r
          end
        | None => None
        end
      end
    end
  end.

Definition drv_symctx (cmd : list N) (args : list (list N)) : option (list N) :=
  let fuel := List.length args in
  if tok_is cmd "cattrav" then
    match args with
    | e :: b :: rest =>
      match parse_xhex b, p_shareds fuel rest with
      | Some x, Some (c, []) =>
        Some (if looks_binary x
              then join_sp (traverse_cat ts_ok_default (Some c) x (tok_is e "1"))
              else join_sp (x_traverse_cat parse_decimal_text parse_ts_text (Some c) x (tok_is e "1")))
      | _, _ => None
      end
    | _ => None
    end
  else if tok_is cmd "bwsh" then
    match args with
    | b :: rest =>
      match parse_budget b, split_dd rest [] with
      | Some bud, Some (tb, cl) =>
        match p_shareds fuel tb, parse_calls (List.length cl) cl with
        | Some (sts, []), Some cs => Some (out_drive_sh (drive_ix_sh (new_writer_sh bud sts) cs [] 0))
        | _, _ => None
        end
      | _, _ => None
      end
    | _ => None
    end
  else if tok_is cmd "bwlsh" then
    match args with
    | b :: rest =>
      match parse_budget b, split_dd rest [] with
      | Some bud, Some (tb, cl) =>
        match (pdo imps <- p_shareds fuel; pdo _ <- p_lit "L"; pdo syms <- p_list p_x; p_ret (imps, syms)) tb,
              parse_calls (List.length cl) cl with
        | Some ((imps, syms), []), Some cs =>
          Some (out_drive_sh (drive_ix_sh (new_writer_lst_sh bud imps syms) cs [] 0))
        | _, _ => None
        end
      | _, _ => None
      end
    | _ => None
    end
  else if tok_is cmd "bwlshb" then
    (* the fixed table is a symbolTableBuilder's Build() taken BEFORE the texts after X were added to the builder: the
       snapshot does not see them (C09 builder stability), so the writer is the one of bwlsh; the generator only sends
       locals that are distinct and in no import, where Build() = NewLocalSymbolTable(imports, locals) *)
    match args with
    | b :: rest =>
      match parse_budget b, split_dd rest [] with
      | Some bud, Some (tb, cl) =>
        match (pdo imps <- p_shareds fuel; pdo _ <- p_lit "L"; pdo syms <- p_list p_x;
               pdo _ <- p_lit "X"; pdo _ <- p_list p_x; p_ret (imps, syms)) tb,
              parse_calls (List.length cl) cl with
        | Some ((imps, syms), []), Some cs =>
          Some (out_drive_sh (drive_ix_sh (new_writer_lst_sh bud imps syms) cs [] 0))
        | _, _ => None
        end
      | _, _ => None
      end
    | _ => None
    end
  else if tok_is cmd "sdecodecat" then
    match args with
    | b :: rest =>
      match parse_xhex b, p_shareds fuel rest with
      | Some x, Some (c, []) =>
        Some (if forallb small_shared c then
                match sdecode_cat (spec_cat (Some c)) x with
                | Some vs => join_sp [s "ok"; show_values vs]
                | None => s "invalid"
                end
              else s "toolarge")
      | _, _ => None
      end
    | _ => None
    end
  else if tok_is cmd "ctxhist" then
    match args with
    | b :: rest =>
      match parse_xhex b, p_shareds fuel rest with
      | Some x, Some (c, []) =>
        Some (if negb (forallb small_shared c) then s "toolarge" else
              match x with
              | 224 :: 1 :: 0 :: 234 :: r =>
                match history_of (List.length x) (spec_cat (Some c)) LstSpec.system_ctx r with
                | Some hs =>
                  let im := match impl_history (Some c) None hs with
                            | Ok cur => if small_lst cur then show_ctx (slots_of_cur cur) else s "toolarge"
                            | Err => s "err" | Panic => s "panic" | OutOfFuel => s "outoffuel"
                            end in
                  let sp := match spec_history (spec_cat (Some c)) LstSpec.system_ctx hs with
                            | Ok cx => show_ctx cx
                            | _ => s "err"
                            end in
                  join_sp [s "ok"; im; sp; if forallb regular_hitem hs then [49] else [48]]
                | None => s "invalid"
                end
              | _ => s "invalid"
              end)
      | _, _ => None
      end
    | _ => None
    end
  else None.
