(* DrvBin.v — line-protocol commands for the binary writer model (K3) and the
   specification decoder. *)
From Coq Require Import String List NArith ZArith Bool.
From IonV Require Import Base.Wire Bin.Bits Data.Ion Num.Float Bin.BinWriter Bin.SpecBin.
Import ListNotations.
Open Scope N_scope.

(* tk,<xhex|->,<sid> *)
Definition parse_tok (t : list N) : option tok :=
  match split_on 44 t [] with
  | [k; tx; sid] =>
    if tok_is k "tk" then
      match parse_Z sid with
      | Some z =>
        if tok_is tx "-" then Some {| tk_text := None; tk_sid := z |}
        else match parse_xhex tx with
             | Some x => Some {| tk_text := Some x; tk_sid := z |}
             | None => None
             end
      | None => None
      end
    else None
  | _ => None
  end.

Fixpoint parse_toks (k : nat) (ts : list (list N)) : option (list tok * list (list N)) :=
  match k with
  | O => Some ([], ts)
  | S k' => match ts with
            | [] => None
            | t :: r => match parse_tok t, parse_toks k' r with
                        | Some a, Some (l, r') => Some (a :: l, r')
                        | _, _ => None
                        end
            end
  end.

Definition is_nil (t : list N) : bool := tok_is t "nil".

(* one call from the front of the token list *)
Definition parse_call (ts : list (list N)) : option (wcall * list (list N)) :=
  match ts with
  | [] => None
  | c :: r =>
    let one (f : list N -> option wcall) :=
      match r with a :: r' => option_map (fun x => (x, r')) (f a) | [] => None end in
    if tok_is c "FN" then one (fun a => option_map CFieldName (parse_tok a))
    else if tok_is c "AN" then one (fun a => option_map CAnnotation (parse_tok a))
    else if tok_is c "ANS" then
      match r with
      | k :: r' => match parse_N k with
                   | Some n => option_map (fun '(l, r'') => (CAnnotations l, r'')) (parse_toks (N.to_nat n) r')
                   | None => None
                   end
      | [] => None
      end
    else if tok_is c "NULL" then Some (CNull, r)
    else if tok_is c "NT" then one (fun a => option_map CNullType (parse_N a))
    else if tok_is c "BOOL" then one (fun a => option_map (fun n => CBool (negb (n =? 0))) (parse_N a))
    else if tok_is c "INT" then one (fun a => option_map CInt (parse_Z a))
    else if tok_is c "UINT" then one (fun a => option_map CUint (parse_N a))
    else if tok_is c "BIG" then one (fun a => if is_nil a then Some (CBigInt None) else option_map (fun z => CBigInt (Some z)) (parse_Z a))
    else if tok_is c "FLOAT" then one (fun a => option_map CFloat (parse_N a))
    else if tok_is c "DEC" then
      match r with
      | a :: r1 =>
        if is_nil a then Some (CDecimal None, r1) else
        match r1 with
        | e :: z :: r2 =>
          match parse_Z a, parse_Z e, parse_N z with
          | Some co, Some ex, Some nz =>
            Some (CDecimal (Some {| d_coef := co; d_exp := ex; d_negzero := negb (nz =? 0) |}), r2)
          | _, _, _ => None
          end
        | _ => None
        end
      | [] => None
      end
    else if tok_is c "TS" then
      match r with
      | _ :: l :: b :: r2 => match parse_N l, parse_xhex b with
                        | Some n, Some x => Some (CTimestamp n x, r2)
                        | _, _ => None
                        end
      | _ => None
      end
    else if tok_is c "SYM" then one (fun a => option_map CSymbol (parse_tok a))
    else if tok_is c "SFS" then one (fun a => option_map CSymbolFromString (parse_xhex a))
    else if tok_is c "STR" then one (fun a => option_map CString (parse_xhex a))
    else if tok_is c "CLOB" then one (fun a => option_map CClob (parse_xhex a))
    else if tok_is c "BLOB" then one (fun a => option_map CBlob (parse_xhex a))
    else if tok_is c "BL" then Some (CBeginList, r)
    else if tok_is c "EL" then Some (CEndList, r)
    else if tok_is c "BS" then Some (CBeginSexp, r)
    else if tok_is c "ES" then Some (CEndSexp, r)
    else if tok_is c "BT" then Some (CBeginStruct, r)
    else if tok_is c "ET" then Some (CEndStruct, r)
    else if tok_is c "FIN" then Some (CFinish, r)
    else None
  end.

Fixpoint parse_calls (k : nat) (ts : list (list N)) : option (list wcall) :=
  match ts with
  | [] => Some []
  | _ => match k with
         | O => None
         | S k' => match parse_call ts with
                   | Some (c, r) => option_map (cons c) (parse_calls k' r)
                   | None => None
                   end
         end
  end.

Fixpoint parse_xs (k : nat) (ts : list (list N)) : option (list (list N) * list (list N)) :=
  match k with
  | O => Some ([], ts)
  | S k' => match ts with
            | t :: r => match parse_xhex t, parse_xs k' r with
                        | Some a, Some (l, r') => Some (a :: l, r')
                        | _, _ => None
                        end
            | [] => None
            end
  end.

(* user-level drive: every call is made; results recorded; a panic stops the run *)
Fixpoint drive_ix (w : wstate) (cs : list wcall) (acc : list N) (i : N) : wstate * list N * option N :=
  match cs with
  | [] => (w, rev_append acc [], None)
  | c :: r => match wstep w c with
              | Ok (w', ok) => drive_ix w' r ((if ok then 49 else 48) :: acc) (i + 1)
              | Panic => (w, rev_append acc [], Some i)
              | _ => (w, rev_append acc [], Some (i + 1000000))    (* Err / OutOfFuel never produced by wstep *)
              end
  end.

Definition parse_budget (t : list N) : option (option nat) :=
  if tok_is t "-" then Some None else option_map (fun n => Some (N.to_nat n)) (parse_N t).

Definition out_drive (r : wstate * list N * option N) : list N :=
  let '(w, results, p) := r in
  match p with
  | None => join_sp [s "ok"; 114 :: results; xhex (sink_bytes (w_out w)); dec_of_N (N.of_nat (length (sk_writes (w_out w))))]
  | Some i => join_sp [s "panic"; dec_of_N i; 114 :: results]
  end.

Definition drv_bin (cmd : list N) (args : list (list N)) : option (list N) :=
  if tok_is cmd "bw" then
    match args with
    | b :: rest =>
      match parse_budget b, parse_calls (length rest) rest with
      | Some bud, Some cs => Some (out_drive (drive_ix (new_writer bud) cs [] 0))
      | _, _ => None
      end
    | _ => None
    end
  else if tok_is cmd "bwl" then
    match args with
    | b :: n :: rest =>
      match parse_budget b, parse_N n with
      | Some bud, Some k =>
        match parse_xs (N.to_nat k) rest with
        | Some (locals, rest') =>
          match parse_calls (length rest') rest' with
          | Some cs => Some (out_drive (drive_ix (new_writer_lst bud locals) cs [] 0))
          | None => None
          end
        | None => None
        end
      | _, _ => None
      end
    | _ => None
    end
  else if tok_is cmd "sdecode" then
    match args with
    | [b] => match parse_xhex b with
             | Some x => Some (match sdecode x with
                               | Some vs => join_sp [s "ok"; show_values vs]
                               | None => s "invalid"
                               end)
             | None => None
             end
    | _ => None
    end
  else None.
