(* DrvDecimal.v — line-protocol commands for component K14 (decimal).
   A decimal argument is three tokens  <coefficient> <exponent:int32> <negzero:0|1>
   and is built with new_decimal (= ion.NewDecimal); a decimal result is printed
   as CoEx() plus the isNegZero flag. *)
From Coq Require Import List NArith ZArith String Bool.
From IonV Require Import Base.Wire Num.Decimal.
Import ListNotations.
Open Scope Z_scope.
Open Scope string_scope.

Definition out_dec (d : dec) : list (list N) :=
  [dec_of_Z (d_n d); dec_of_Z (coex_exp d); dec_of_N (if d_negzero d then 1 else 0)%N].
Definition out_z (z : Z) : list (list N) := [dec_of_Z z].

Definition arg_dec (args : list (list N)) (k : nat) : option dec :=
  match nth_error args k, nth_error args (S k), nth_error args (S (S k)) with
  | Some tn, Some te, Some tz =>
    match parse_Z tn, parse_Z te, parse_N tz with
    | Some n, Some e, Some z =>
      if in_i32 e && (z <? 2)%N then Some (new_decimal n e (z =? 1)%N) else None
    | _, _, _ => None
    end
  | _, _, _ => None
  end.
Definition arg_i64 (args : list (list N)) (k : nat) : option Z :=
  match nth_error args k with
  | Some t => match parse_Z t with
              | Some z => if in_i64 z then Some z else None
              | None => None
              end
  | None => None
  end.
Definition arg_i32 (args : list (list N)) (k : nat) : option Z :=
  match arg_i64 args k with
  | Some z => if in_i32 z then Some z else None
  | None => None
  end.

Definition bin (args : list (list N)) (f : dec -> dec -> list N) : option (list N) :=
  match arg_dec args 0, arg_dec args 3 with
  | Some a, Some b => Some (f a b)
  | _, _ => None
  end.
Definition un (args : list (list N)) (f : dec -> list N) : option (list N) :=
  option_map f (arg_dec args 0).
Definition un_k (args : list (list N)) (f : dec -> Z -> list N) : option (list N) :=
  match arg_dec args 0, arg_i64 args 3 with
  | Some a, Some k => Some (f a k)
  | _, _ => None
  end.

Definition drv_decimal (cmd : list N) (args : list (list N)) : option (list N) :=
  if tok_is cmd "dec_add" then bin args (fun a b => out_res out_dec (add a b))
  else if tok_is cmd "dec_sub" then bin args (fun a b => out_res out_dec (sub a b))
  else if tok_is cmd "dec_mul" then bin args (fun a b => out_res out_dec (mul a b))
  else if tok_is cmd "dec_cmp" then bin args (fun a b => out_res out_z (cmp a b))
  else if tok_is cmd "dec_equal" then
    bin args (fun a b => out_res (fun e : bool => out_z (if e then 1 else 0)) (equal a b))
  else if tok_is cmd "dec_neg" then un args (fun a => out_res out_dec (Ok (neg a)))
  else if tok_is cmd "dec_abs" then un args (fun a => out_res out_dec (Ok (abs a)))
  else if tok_is cmd "dec_sign" then un args (fun a => out_res out_z (Ok (sign a)))
  else if tok_is cmd "dec_coex" then un args (fun a => out_res out_dec (Ok a))
  else if tok_is cmd "dec_shl" then un_k args (fun a k => out_res out_dec (shiftl a k))
  else if tok_is cmd "dec_shr" then un_k args (fun a k => out_res out_dec (shiftr a k))
  else if tok_is cmd "dec_trunc" then un_k args (fun a k => out_res out_dec (truncate a k))
  else if tok_is cmd "dec_upscale" then
    match arg_dec args 0, arg_i32 args 3 with
    | Some a, Some k => Some (out_res out_dec (upscale a k))
    | _, _ => None
    end
  else if tok_is cmd "dec_truncint" then un args (fun a => out_res out_z (trunc a))
  else if tok_is cmd "dec_format" then un args (fun a => join_sp [s "ok"; xhex (dec_format a)])
  else if tok_is cmd "dec_parse" then
    match nth_error args 0 with
    | Some t => option_map (fun b => out_res out_dec (dec_parse b)) (parse_xhex t)
    | None => None
    end
  else None.
