(* DrvSymtab.v — line-protocol commands for component K6 (symbol tables).

   Shared-table descriptor (tokens):
     S <name-hex> <version> <nsyms> <sym-hex>*nsyms <nadj> <maxid>*nadj
         NewSharedSymbolTable(name, version, syms) followed by nadj calls of Adjust
     B <name-hex> <version> <maxid> <nadj> <maxid>*nadj
         a bogusSST followed by nadj calls of Adjust
   Commands:
     lst <desc>* L <n> <sym-hex>*n P <n> <text-hex>*n Q <n> <id>*n
     builder <desc>* A <n> <text-hex>*n A <n> <text-hex>*n P ... Q ...
         Adds of phase 1, Build, Adds of phase 2; dumps the built table and the builder
     sst <desc> P ... Q ...
     catalog <desc>* E <name-hex> <version> | T <name-hex> | R <name-hex> <version> <maxid>
     symident <text-hex>
   Dump of a table:  M <MaxID> I <n> (<name> <version> <maxid>)*n Y <n> <sym>*n
                     (t <text> <FindByName> <Find> <NewSymbolToken sid> <newSymbolToken text sid>)*
                     (d <id> <FindByID> <NewSymbolTokenBySID text sid>)*  *)
From Coq Require Import List NArith ZArith String Bool.
From IonV Require Import Base.Wire Sym.SymTab.
Import ListNotations.
Open Scope string_scope.
Open Scope N_scope.

Definition toks := list (list N).
Definition P (A : Type) := toks -> option (A * toks).

Definition p_bind {A B} (p : P A) (f : A -> P B) : P B :=
  fun ts => match p ts with Some (a, r) => f a r | None => None end.
Definition p_ret {A} (a : A) : P A := fun ts => Some (a, ts).
Notation "'pdo' x <- p ; k" := (p_bind p (fun x => k))
  (at level 200, x pattern, p at level 100, k at level 200, right associativity).

Definition p_tok {A} (f : list N -> option A) : P A :=
  fun ts => match ts with t :: r => match f t with Some a => Some (a, r) | None => None end | [] => None end.
Definition p_lit (x : string) : P unit :=
  p_tok (fun t => if tok_is t x then Some tt else None).
Definition p_u64 : P N :=
  p_tok (fun t => match parse_N t with Some n => if n <? two64 then Some n else None | None => None end).
Definition p_i64 : P Z :=
  p_tok (fun t => match parse_Z t with
                  | Some z => if ((- Z.of_N two63 <=? z) && (z <? Z.of_N two63))%Z then Some z else None
                  | None => None end).
Definition p_Z : P Z := p_tok parse_Z.
Definition p_x : P text := p_tok parse_xhex.
Definition p_count : P nat :=
  p_tok (fun t => match parse_N t with Some n => if n <? 100000 then Some (N.to_nat n) else None | None => None end).
Fixpoint p_rep {A} (p : P A) (n : nat) : P (list A) :=
  match n with
  | O => p_ret []
  | S k => pdo a <- p; pdo r <- p_rep p k; p_ret (a :: r)
  end.
Definition p_list {A} (p : P A) : P (list A) := pdo n <- p_count; p_rep p n.

Definition apply_adjusts (x : shared) (ms : list N) : shared := fold_left sh_adjust ms x.

Definition p_shared : P shared :=
  fun ts =>
    match ts with
    | k :: r =>
      if tok_is k "S" then
        (pdo name <- p_x; pdo ver <- p_i64; pdo syms <- p_list p_x; pdo adj <- p_list p_u64;
         p_ret (apply_adjusts (Sst (sst_new name ver syms)) adj)) r
      else if tok_is k "B" then
        (pdo name <- p_x; pdo ver <- p_i64; pdo m <- p_u64; pdo adj <- p_list p_u64;
         p_ret (apply_adjusts (Bogus name ver m) adj)) r
      else None
    | [] => None
    end.

(* descriptors as long as the next token is S or B *)
Fixpoint p_shareds (fuel : nat) : P (list shared) :=
  fun ts =>
    match fuel with
    | O => Some ([], ts)
    | S f =>
      match ts with
      | k :: _ =>
        if tok_is k "S" || tok_is k "B"
        then (pdo x <- p_shared; pdo r <- p_shareds f; p_ret (x :: r)) ts
        else Some ([], ts)
      | [] => Some ([], ts)
      end
    end.

Definition p_probes : P (list text * list Z) :=
  pdo _ <- p_lit "P"; pdo ps <- p_list p_x; pdo _ <- p_lit "Q"; pdo ids <- p_list p_Z; p_ret (ps, ids).

(* ---- output ------------------------------------------------------------------ *)
Definition o_optN (o : option N) : list N := match o with Some n => dec_of_N n | None => s "n" end.
Definition o_optX (o : option text) : list N := match o with Some t => xhex t | None => s "n" end.
Definition o_tok (r : res token) : list (list N) :=
  match r with
  | Ok tk => [o_optX (tk_text tk); dec_of_Z (tk_sid tk)]
  | Err => [s "e"; s "0"]
  | Panic => [s "p"; s "0"]
  | OutOfFuel => [s "f"; s "0"]
  end.
Definition o_bool (b : bool) : list N := if b then s "1" else s "0".

Definition dump_text (t : lst) (x : text) : list (list N) :=
  [s "t"; xhex x; o_optN (lst_find_by_name t x); o_optX (lst_find t x)]
  ++ (match new_token t x with Ok tk => [dec_of_Z (tk_sid tk)] | _ => [s "e"] end)
  ++ o_tok (new_symbol_token_auto t x).

Definition dump_id (t : lst) (id : Z) : list (list N) :=
  [s "d"; dec_of_Z id]
  ++ (if ((0 <=? id) && (id <? Z.of_N two64))%Z then [o_optX (lst_find_by_id t (Z.to_N id))] else [s "-"])
  ++ (if ((- Z.of_N two63 <=? id) && (id <? Z.of_N two63))%Z then o_tok (new_token_by_sid t id)
      else [s "-"; s "0"]).

Definition dump_lst (t : lst) (ps : list text) (ids : list Z) : list (list N) :=
  [s "M"; dec_of_N (lst_max_id t); s "I"; dec_of_N (lenN (lst_imports t))]
  ++ flat_map (fun i => [xhex (sh_name i); dec_of_Z (sh_ver i); dec_of_N (sh_max i)]) (lst_imports t)
  ++ [s "Y"; dec_of_N (lenN (lst_symbols t))] ++ map xhex (lst_symbols t)
  ++ flat_map (dump_text t) ps
  ++ flat_map (dump_id t) ids.

Definition o_adds (tag : string) (l : list (N * bool)) : list (list N) :=
  flat_map (fun '(id, added) => [s tag; dec_of_N id; o_bool added]) l.

(* N-indexed range 1..n for small n *)
Definition range1 (n : N) : list N := map N.of_nat (seq 1 (N.to_nat n)).

Definition o_shared (o : option shared) : list (list N) :=
  match o with
  | None => [s "n"]
  | Some x =>
    let c := N.min (sh_max x) 16 in
    [xhex (sh_name x); dec_of_Z (sh_ver x); dec_of_N (sh_max x); dec_of_N c]
    ++ map (fun i => o_optX (sh_find_by_id x i)) (range1 c)
  end.

Definition dump_sst (x : shared) (ps : list text) (ids : list Z) : list (list N) :=
  [xhex (sh_name x); dec_of_Z (sh_ver x); s "M"; dec_of_N (sh_max x); s "Y"]
  ++ (if sh_max x <=? 64 then dec_of_N (lenN (sh_symbols x)) :: map xhex (sh_symbols x) else [s "-"])
  ++ flat_map (fun p => [s "t"; xhex p; o_optN (sh_find_by_name x p); o_optX (sh_find x p)]) ps
  ++ flat_map (fun id => [s "d"; dec_of_Z id;
                          if ((0 <=? id) && (id <? Z.of_N two64))%Z then o_optX (sh_find_by_id x (Z.to_N id))
                          else s "-"]) ids.

Definition ok_line (l : list (list N)) : list N := join_sp (s "ok" :: l).

Definition run_p {A} (p : P A) (ts : toks) (k : A -> list N) : option (list N) :=
  match p ts with
  | Some (a, []) => Some (k a)
  | _ => None
  end.

Definition drv_symtab (cmd : list N) (args : list (list N)) : option (list N) :=
  let fuel := List.length args in
  if tok_is cmd "lst" then
    run_p (pdo imps <- p_shareds fuel; pdo _ <- p_lit "L"; pdo syms <- p_list p_x;
           pdo pq <- p_probes; p_ret (imps, syms, pq)) args
          (fun '(imps, syms, (ps, ids)) => ok_line (dump_lst (lst_new imps syms) ps ids))
  else if tok_is cmd "builder" then
    run_p (pdo imps <- p_shareds fuel; pdo _ <- p_lit "A"; pdo a1 <- p_list p_x;
           pdo _ <- p_lit "A"; pdo a2 <- p_list p_x; pdo pq <- p_probes; p_ret (imps, a1, a2, pq)) args
          (fun '(imps, a1, a2, (ps, ids)) =>
             let b0 := builder_new imps in
             let '(b1, o1) := builder_adds b0 a1 in
             let built := builder_build b1 in
             let '(b2, o2) := builder_adds b1 a2 in
             ok_line (o_adds "a" o1 ++ o_adds "b" o2 ++ dump_lst built ps ids
                      ++ [s "Z"] ++ dump_lst b2 ps ids))
  else if tok_is cmd "sst" then
    run_p (pdo x <- p_shared; pdo pq <- p_probes; p_ret (x, pq)) args
          (fun '(x, (ps, ids)) => ok_line (dump_sst x ps ids))
  else if tok_is cmd "catalog" then
    match p_shareds fuel args with
    | Some (c, k :: r) =>
      if tok_is k "E" then
        run_p (pdo name <- p_x; pdo ver <- p_i64; p_ret (name, ver)) r
              (fun '(name, ver) => ok_line (o_shared (cat_find_exact c name ver)))
      else if tok_is k "T" then
        run_p p_x r (fun name => ok_line (o_shared (cat_find_latest c name)))
      else if tok_is k "R" then
        run_p (pdo name <- p_x; pdo ver <- p_i64; pdo m <- p_i64; p_ret (name, ver, m)) r
              (fun '(name, ver, m) => out_res o_shared (resolve_import (Some c) name ver m))
      else None
    | _ => None
    end
  else if tok_is cmd "symident" then
    run_p p_x args (fun x => let '(sid, ok) := symbol_identifier x in
                             ok_line [dec_of_Z sid; o_bool ok])
  else None.
