(* DrvSpecText.v — line-protocol command for the specification decoder of Ion text. *)
From Coq Require Import String List NArith ZArith Bool.
From IonV Require Import Base.Wire Data.Ion Text.SpecText.
Import ListNotations.
Open Scope N_scope.

(* tdecode x<utf8 bytes>  ->  ok <show_values> | invalid *)
Definition drv_spectext (cmd : list N) (args : list (list N)) : option (list N) :=
  if tok_is cmd "tdecode" then
    match args with
    | [b] => match parse_xhex b with
             | Some x => Some (match tdecode x with
                               | Some vs => join_sp [s "ok"; show_values vs]
                               | None => s "invalid"
                               end)
             | None => None
             end
    | _ => None
    end
  else None.
