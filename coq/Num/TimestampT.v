(* TimestampT.v — the TEXT round trip of timestamps: for every well-formed timestamp [t] ([wf_ts]) and every
   configuration [c] (the code as pinned and with the fix patches),
     ts_parse c (ts_format t) = Ok t                                       ([text_roundtrip_cfg])
   i.e. ParseTimestamp maps Timestamp.String() back to the same instant, offset, kind, precision and
   number of fraction digits; and [ts_format t] is a timestamp literal of the Ion text grammar:
   it is the text of a spelling [shape_of t] of Text/SpellTs.v that is within the ranges of the grammar
   and the calendar and denotes the fields of [t] ([shape_of_spec]), the specification decoder
   SpecText.p_timestamp accepts it ([spec_accepts_format]) and so does the boolean grammar
   [is_ts_literal] of Timestamp.v ([format_is_literal]).

   Plan: (A) digit characters: [fixw] against [digits_val]/[getnum2]/[year4]/[go_parse_int32];
   (B) list surgery ([at_], [from], [sub] on a known prefix, [last_index], [take_digits]);
   (C) the pieces of the parser on strings made of abstract digit characters (offset spellings,
   computeTimezoneKind, time.Parse, NewTimestampFromStr, tryCreateDateTimestamp, the precision dispatch of
   ParseTimestamp); (D) [ts_format] of a well-formed timestamp written out per precision (the fraction
   logic of String() collapses to "the first nf of the nine digits"); float64: ParseFloat + "%.9f" are exact
   below ten seconds (pinned roundFractionalSeconds); (E) the round trip; (F) the grammar; examples. *)
From Coq Require Import List NArith ZArith Bool Lia ZifyBool ZifyN ZifyNat.
From Coq Require String.
From IonV Require Import Base.Wire Bin.Bits Num.Calendar Num.CalendarP Num.Timestamp Num.TimestampP.
From IonV Require Num.DecimalP Text.SpecText Text.SpellTs.
Import ListNotations.
Open Scope Z_scope.
Ltac Zify.zify_post_hook ::= Z.div_mod_to_equations.

(* ---- (A) digit characters ------------------------------------------------------------------------ *)
(* the character of the last decimal digit of k *)
Definition dg (k : Z) : N := Z.to_N (48 + k mod 10).
Definition D2 (a b : N) : Z := dval a * 10 + dval b.
Definition D4 (a b c d : N) : Z := ((dval a * 10 + dval b) * 10 + dval c) * 10 + dval d.

Lemma dg_digit k : is_digit (dg k) = true.
Proof. unfold is_digit, dg. lia. Qed.
Lemma dg_val k : dval (dg k) = k mod 10.
Proof. unfold dval, dg. lia. Qed.

Lemma digit_range c : is_digit c = true -> (48 <= c <= 57)%N.
Proof. unfold is_digit. lia. Qed.
Lemma digit_dval c : is_digit c = true -> 0 <= dval c <= 9.
Proof. unfold is_digit, dval. lia. Qed.

Lemma fixw_2 x : fixw 2 x = [dg (x / 10); dg x].
Proof. reflexivity. Qed.
Lemma fixw_4 x : fixw 4 x = [dg (x / 10 / 10 / 10); dg (x / 10 / 10); dg (x / 10); dg x].
Proof. reflexivity. Qed.

Lemma append_int_w_2 x : 0 <= x < 100 -> append_int_w x 2 = [dg (x / 10); dg x].
Proof.
  intros H. unfold append_int_w, append_uint_w. replace (x <? 0) with false by lia.
  change (10 ^ Z.of_nat 2) with 100. replace (x <? 100) with true by lia. reflexivity.
Qed.
Lemma append_int_w_4 x : 0 <= x < 10000 ->
  append_int_w x 4 = [dg (x / 10 / 10 / 10); dg (x / 10 / 10); dg (x / 10); dg x].
Proof.
  intros H. unfold append_int_w, append_uint_w. replace (x <? 0) with false by lia.
  change (10 ^ Z.of_nat 4) with 10000. replace (x <? 10000) with true by lia. reflexivity.
Qed.

Lemma D2_dg x : 0 <= x < 100 -> D2 (dg (x / 10)) (dg x) = x.
Proof. intros H. unfold D2. rewrite !dg_val. lia. Qed.
Lemma D4_dg x : 0 <= x < 10000 -> D4 (dg (x / 10 / 10 / 10)) (dg (x / 10 / 10)) (dg (x / 10)) (dg x) = x.
Proof. intros H. unfold D4. rewrite !dg_val. lia. Qed.

Lemma fixw_length w x : length (fixw w x) = w.
Proof.
  revert x. induction w as [|w IH]; intros x; [reflexivity|].
  cbn [fixw]. rewrite app_length, IH. cbn [length]. lia.
Qed.

Lemma digits_val_snoc l c acc :
  digits_val (l ++ [c]) acc =
  match digits_val l acc with
  | Some v => if is_digit c then Some (v * 10 + dval c) else None
  | None => None
  end.
Proof.
  revert acc. induction l as [|x r IH]; intros acc; cbn [app digits_val].
  - destruct (is_digit c); reflexivity.
  - destruct (is_digit x); [apply IH|reflexivity].
Qed.

Lemma digits_val_fixw w x acc : 0 <= x ->
  digits_val (fixw w x) acc = Some (acc * 10 ^ Z.of_nat w + x mod 10 ^ Z.of_nat w).
Proof.
  revert x. induction w as [|w IH]; intros x Hx.
  - cbn [fixw digits_val]. change (10 ^ Z.of_nat 0) with 1. f_equal. lia.
  - cbn [fixw]. rewrite digits_val_snoc, IH by lia. fold (dg x). rewrite dg_digit, dg_val. f_equal.
    rewrite Nat2Z.inj_succ, Z.pow_succ_r by lia.
    assert (P : 0 < 10 ^ Z.of_nat w) by (apply Z.pow_pos_nonneg; lia).
    set (p := 10 ^ Z.of_nat w) in *.
    assert (E : x mod (10 * p) = 10 * ((x / 10) mod p) + x mod 10).
    { rewrite Z.rem_mul_r by lia. lia. }
    rewrite E. lia.
Qed.

Lemma digits_val_fixw0 w x : 0 <= x < 10 ^ Z.of_nat w -> digits_val (fixw w x) 0 = Some x.
Proof. intros H. rewrite digits_val_fixw by lia. f_equal. rewrite Z.mod_small by lia. lia. Qed.

Lemma all_digits_app a b : all_digits (a ++ b) = all_digits a && all_digits b.
Proof. induction a as [|x r IH]; cbn [app all_digits]; [reflexivity|]. rewrite IH, andb_assoc. reflexivity. Qed.
Lemma all_digits_fixw w x : all_digits (fixw w x) = true.
Proof.
  revert x. induction w as [|w IH]; intros x; [reflexivity|].
  cbn [fixw]. rewrite all_digits_app, IH. fold (dg x). cbn [all_digits]. rewrite dg_digit. reflexivity.
Qed.

(* fixw splits: the leading digits are those of the quotient *)
Lemma fixw_app a b x :
  fixw (a + b) x = fixw a (x / 10 ^ Z.of_nat b) ++ fixw b x.
Proof.
  revert x. induction b as [|b IH]; intros x.
  - rewrite Nat.add_0_r. change (10 ^ Z.of_nat 0) with 1. rewrite Z.div_1_r. cbn [fixw]. rewrite app_nil_r. reflexivity.
  - rewrite Nat.add_succ_r. cbn [fixw]. rewrite IH, app_assoc. do 2 f_equal.
    rewrite Nat2Z.inj_succ, Z.pow_succ_r by lia. rewrite Z.div_div by (try apply Z.pow_pos_nonneg; lia). reflexivity.
Qed.

(* the value of w digits is below 10^w; a digit list that long is what fixw prints *)
Lemma digits_val_app l1 l2 acc :
  digits_val (l1 ++ l2) acc = match digits_val l1 acc with Some v => digits_val l2 v | None => None end.
Proof.
  revert acc. induction l1 as [|x r IH]; intros acc; cbn [app digits_val]; [reflexivity|].
  destruct (is_digit x); [apply IH|reflexivity].
Qed.

(* go_parse_int32 on two and four digit characters *)
Lemma digit_not_sign c : is_digit c = true -> (c =? c_minus)%N = false /\ (c =? c_plus)%N = false.
Proof. unfold is_digit, c_minus, c_plus. lia. Qed.

Lemma go_parse_int32_2 a b : is_digit a = true -> is_digit b = true -> go_parse_int32 [a; b] = Some (D2 a b).
Proof.
  intros Ha Hb. unfold go_parse_int32. destruct (digit_not_sign a Ha) as [E1 E2]. rewrite E1, E2. cbn [orb].
  cbn [digits_val]. rewrite Ha, Hb. pose proof (digit_dval a Ha). pose proof (digit_dval b Hb).
  unfold D2. replace (0 * 10 + dval a) with (dval a) by lia.
  replace ((dval a * 10 + dval b <? -2147483648) || (2147483647 <? dval a * 10 + dval b)) with false by lia.
  reflexivity.
Qed.

Lemma go_parse_int32_4 a b c d : is_digit a = true -> is_digit b = true -> is_digit c = true -> is_digit d = true ->
  go_parse_int32 [a; b; c; d] = Some (D4 a b c d).
Proof.
  intros Ha Hb Hc Hd. unfold go_parse_int32. destruct (digit_not_sign a Ha) as [E1 E2]. rewrite E1, E2. cbn [orb].
  cbn [digits_val]. rewrite Ha, Hb, Hc, Hd.
  pose proof (digit_dval a Ha). pose proof (digit_dval b Hb). pose proof (digit_dval c Hc). pose proof (digit_dval d Hd).
  unfold D4. replace (0 * 10 + dval a) with (dval a) by lia.
  set (v := ((dval a * 10 + dval b) * 10 + dval c) * 10 + dval d).
  replace ((v <? -2147483648) || (2147483647 <? v)) with false by (unfold v; lia).
  reflexivity.
Qed.

(* parseTimestampField on digit characters, with or without fix_ts_sign *)
Lemma parse_field_2 cf a b : is_digit a = true -> is_digit b = true -> parse_field cf [a; b] = Some (D2 a b).
Proof.
  intros Ha Hb. unfold parse_field. cbn [all_digits]. rewrite Ha, Hb. cbn [andb negb]. rewrite andb_false_r.
  apply go_parse_int32_2; assumption.
Qed.
Lemma parse_field_4 cf a b c d : is_digit a = true -> is_digit b = true -> is_digit c = true -> is_digit d = true ->
  parse_field cf [a; b; c; d] = Some (D4 a b c d).
Proof.
  intros Ha Hb Hc Hd. unfold parse_field. cbn [all_digits]. rewrite Ha, Hb, Hc, Hd. cbn [andb negb]. rewrite andb_false_r.
  apply go_parse_int32_4; assumption.
Qed.

Lemma D2_range a b : is_digit a = true -> is_digit b = true -> 0 <= D2 a b <= 99.
Proof. intros Ha Hb. pose proof (digit_dval a Ha). pose proof (digit_dval b Hb). unfold D2. lia. Qed.

Lemma getnum2_ok a b r : is_digit a = true -> is_digit b = true -> getnum2 (a :: b :: r) = Some (D2 a b, r).
Proof. intros Ha Hb. unfold getnum2. rewrite Ha, Hb. reflexivity. Qed.
Lemma getnum12_ok a b r : is_digit a = true -> is_digit b = true -> getnum12 (a :: b :: r) = Some (D2 a b, r).
Proof. intros Ha Hb. unfold getnum12. rewrite Ha, Hb. reflexivity. Qed.
Lemma year4_ok a b c d r : is_digit a = true -> is_digit b = true -> is_digit c = true -> is_digit d = true ->
  year4 (a :: b :: c :: d :: r) = Some (D4 a b c d, r).
Proof. intros Ha Hb Hc Hd. unfold year4. rewrite Ha, Hb, Hc, Hd. reflexivity. Qed.
Lemma two_digits_ok a b r : is_digit a = true -> is_digit b = true -> two_digits (a :: b :: r) = Some (D2 a b, r).
Proof. intros Ha Hb. unfold two_digits. rewrite Ha, Hb. reflexivity. Qed.

(* ---- (B) list surgery ------------------------------------------------------------------------------------- *)
Lemma slen_nonneg l : 0 <= slen l.
Proof. unfold slen. lia. Qed.
Lemma slen_app a b : slen (a ++ b) = slen a + slen b.
Proof. unfold slen. rewrite app_length. lia. Qed.
Lemma slen_cons c l : slen (c :: l) = 1 + slen l.
Proof. unfold slen. cbn [length]. lia. Qed.
Lemma slen_nil : slen [] = 0.
Proof. reflexivity. Qed.

Lemma from_app p r n : n = slen p -> from (p ++ r) n = r.
Proof.
  intros ->. unfold from, slen. rewrite Nat2Z.id. rewrite skipn_app, skipn_all, Nat.sub_diag. reflexivity.
Qed.
Lemma from_app_plus p r n k : n = slen p -> 0 <= k -> from (p ++ r) (n + k) = from r k.
Proof.
  intros -> Hk. unfold from, slen. rewrite Z2Nat.inj_add, Nat2Z.id by lia.
  rewrite skipn_app. rewrite skipn_all2 by lia.
  replace (length p + Z.to_nat k - length p)%nat with (Z.to_nat k) by lia. reflexivity.
Qed.
Lemma at_app p r n k : n = slen p -> 0 <= k -> at_ (p ++ r) (n + k) = at_ r k.
Proof.
  intros -> Hk. unfold at_, slen. rewrite Z2Nat.inj_add, Nat2Z.id by lia.
  rewrite app_nth2_plus. reflexivity.
Qed.
Lemma at_app0 p r n : n = slen p -> at_ (p ++ r) n = at_ r 0.
Proof. intros H. rewrite <- (Z.add_0_r n). apply at_app; [exact H|lia]. Qed.
Lemma sub_app_prefix p r n : n = slen p -> sub (p ++ r) 0 n = p.
Proof.
  intros ->. unfold sub, from, slen. cbn [Z.to_nat skipn]. rewrite Z.sub_0_r, Nat2Z.id.
  rewrite firstn_app, firstn_all, Nat.sub_diag. cbn [firstn]. apply app_nil_r.
Qed.
Lemma sub_app_mid p f r a b : a = slen p -> b = a + slen f -> sub (p ++ f ++ r) a b = f.
Proof.
  intros -> ->. unfold sub. rewrite from_app by reflexivity.
  replace (slen p + slen f - slen p) with (slen f) by lia. unfold slen. rewrite Nat2Z.id.
  rewrite firstn_app, firstn_all, Nat.sub_diag. cbn [firstn]. apply app_nil_r.
Qed.
Lemma sub_app_plus p r n a b : n = slen p -> 0 <= a -> sub (p ++ r) (n + a) (n + b) = sub r a b.
Proof.
  intros H Ha. unfold sub. rewrite from_app_plus by assumption. do 2 f_equal. lia.
Qed.

(* scanning a run of digits that is followed by a non-digit *)
Lemma take_digits_app ds z : all_digits ds = true ->
  match z with c :: _ => is_digit c = false | [] => True end ->
  take_digits (ds ++ z) = (ds, z).
Proof.
  intros Hd Hz. induction ds as [|c r IH]; cbn [app].
  - destruct z as [|c z']; [reflexivity|]. cbn [take_digits]. rewrite Hz. reflexivity.
  - cbn [all_digits] in Hd. apply andb_true_iff in Hd as [Hc Hr]. cbn [take_digits]. rewrite Hc, (IH Hr). reflexivity.
Qed.
Lemma count_digits_app ds z : all_digits ds = true ->
  match z with c :: _ => is_digit c = false | [] => True end ->
  count_digits (ds ++ z) = slen ds.
Proof.
  intros Hd Hz. induction ds as [|c r IH]; cbn [app].
  - destruct z as [|c z']; [reflexivity|]. cbn [count_digits]. rewrite Hz. reflexivity.
  - cbn [all_digits] in Hd. apply andb_true_iff in Hd as [Hc Hr]. cbn [count_digits]. rewrite Hc, (IH Hr), slen_cons. reflexivity.
Qed.

(* the last '.' *)
Lemma last_index_absent c l i f : Forall (fun x => x <> c) l -> last_index c l i f = f.
Proof.
  intros H. revert i f. induction H as [|x r Hx Hr IH]; intros i f; cbn [last_index]; [reflexivity|].
  replace (x =? c)%N with false by lia. apply IH.
Qed.
Lemma last_index_app c a b i f :
  last_index c (a ++ b) i f = last_index c b (i + slen a) (last_index c a i f).
Proof.
  revert i f. induction a as [|x r IH]; intros i f; cbn [app last_index].
  - rewrite slen_nil, Z.add_0_r. reflexivity.
  - rewrite IH, slen_cons. f_equal. lia.
Qed.
Lemma last_index_one c a b : Forall (fun x => x <> c) b ->
  last_index c (a ++ c :: b) 0 None = Some (slen a).
Proof.
  intros Hb. rewrite last_index_app. cbn [last_index]. rewrite N.eqb_refl. rewrite last_index_absent by exact Hb.
  reflexivity.
Qed.

Lemma all_digits_Forall_ne ds c : all_digits ds = true -> is_digit c = false -> Forall (fun x => x <> c) ds.
Proof.
  intros H Hc. induction ds as [|x r IH]; [constructor|]. cbn [all_digits] in H. apply andb_true_iff in H as [Hx Hr].
  constructor; [intros ->; congruence|apply IH; exact Hr].
Qed.

(* ---- (C) the parser on strings of digit characters ----------------------------------------------------------------- *)
(* C1: the three offset spellings Timestamp.String produces, with the kind and offset (minutes) they stand for *)
Definition zone_for (k : tzkind) (om : Z) (z : list N) : Prop :=
  (k = KUTC /\ om = 0 /\ z = [c_Z]) \/
  (k = KUnspec /\ om = 0 /\ z = zone_unknown) \/
  (k = KLocal /\ om <> 0 /\ exists sg h1 h0 m1 m0,
     z = [sg; h1; h0; c_colon; m1; m0] /\
     is_digit h1 = true /\ is_digit h0 = true /\ is_digit m1 = true /\ is_digit m0 = true /\
     D2 h1 h0 < 24 /\ D2 m1 m0 < 60 /\
     ((sg = c_plus /\ om = D2 h1 h0 * 60 + D2 m1 m0) \/ (sg = c_minus /\ om = - (D2 h1 h0 * 60 + D2 m1 m0)))).

Lemma zone_head k om z : zone_for k om z ->
  exists c r, z = c :: r /\ is_digit c = false /\ comma_or_period c = false /\ (c =? c_colon)%N = false /\
              ((c =? c_z) || (c =? c_Z) || (c =? c_plus) || (c =? c_minus))%N = true.
Proof.
  intros [(_ & _ & ->)|[(_ & _ & ->)|(_ & _ & sg & h1 & h0 & m1 & m0 & -> & _ & _ & _ & _ & _ & _ & Hs)]].
  - eexists _, _. split; [reflexivity|]. repeat split; reflexivity.
  - eexists _, _. split; [reflexivity|]. repeat split; reflexivity.
  - eexists _, _. split; [reflexivity|]. destruct Hs as [[-> _]|[-> _]]; repeat split; reflexivity.
Qed.

Lemma zone_nodot k om z : zone_for k om z -> Forall (fun x => x <> c_dot) z.
Proof.
  intros [(_ & _ & ->)|[(_ & _ & ->)|(_ & _ & sg & h1 & h0 & m1 & m0 & -> & H1 & H2 & H3 & H4 & _ & _ & Hs)]].
  - repeat constructor; discriminate.
  - repeat constructor; discriminate.
  - apply digit_range in H1, H2, H3, H4. unfold c_dot.
    assert (sg <> 46%N) by (destruct Hs as [[-> _]|[-> _]]; discriminate).
    repeat constructor; try lia. discriminate.
Qed.

Lemma zone_ctk k om z : zone_for k om z -> compute_tz_kind z 0 = Ok k.
Proof.
  intros [(-> & _ & ->)|[(-> & _ & ->)|(-> & Hne & sg & h1 & h0 & m1 & m0 & -> & H1 & H2 & H3 & H4 & Hh & Hm & Hs)]].
  - reflexivity.
  - reflexivity.
  - unfold compute_tz_kind.
    change (slen [sg; h1; h0; c_colon; m1; m0]) with 6. cbn [Z.leb Z.compare Z.add Z.ltb].
    change (at_ [sg; h1; h0; c_colon; m1; m0] 0) with sg.
    change (at_ [sg; h1; h0; c_colon; m1; m0] 3) with c_colon.
    change (sub [sg; h1; h0; c_colon; m1; m0] 1 3) with [h1; h0].
    change (from [sg; h1; h0; c_colon; m1; m0] 4) with [m1; m0].
    rewrite N.eqb_refl. cbn [negb orb].
    rewrite !go_parse_int32_2 by assumption.
    pose proof (D2_range h1 h0 H1 H2). pose proof (D2_range m1 m0 H3 H4).
    replace ((24 <=? D2 h1 h0) || (60 <=? D2 m1 m0)) with false by lia.
    replace ((D2 h1 h0 =? 0) && (D2 m1 m0 =? 0)) with false by lia.
    destruct Hs as [[-> _]|[-> _]]; reflexivity.
Qed.

Lemma zone_parse k om z : zone_for k om z -> parse_zone (negb (is_unspec k)) z = Some (60 * om, []).
Proof.
  intros [(-> & -> & ->)|[(-> & -> & ->)|(-> & Hne & sg & h1 & h0 & m1 & m0 & -> & H1 & H2 & H3 & H4 & Hh & Hm & Hs)]].
  - reflexivity.
  - reflexivity.
  - unfold parse_zone. cbn [is_unspec negb andb].
    assert (Es : (sg =? c_Z)%N = false) by (destruct Hs as [[-> _]|[-> _]]; reflexivity).
    rewrite Es, N.eqb_refl. cbn [negb]. rewrite !getnum2_ok by assumption.
    pose proof (D2_range h1 h0 H1 H2). pose proof (D2_range m1 m0 H3 H4).
    replace ((24 <? D2 h1 h0) || (60 <? D2 m1 m0)) with false by lia.
    destruct Hs as [[-> ->]|[-> ->]].
    + rewrite N.eqb_refl. do 2 f_equal. lia.
    + change (c_minus =? c_plus)%N with false. rewrite N.eqb_refl. do 2 f_equal. lia.
Qed.

Lemma zone_lit k om z : zone_for k om z -> lit_offset z = true.
Proof.
  intros [(_ & _ & ->)|[(_ & _ & ->)|(_ & _ & sg & h1 & h0 & m1 & m0 & -> & H1 & H2 & H3 & H4 & Hh & Hm & Hs)]].
  - reflexivity.
  - reflexivity.
  - unfold lit_offset. rewrite two_digits_ok by assumption. rewrite N.eqb_refl, two_digits_ok by assumption.
    replace (D2 h1 h0 <=? 23) with true by lia. replace (D2 m1 m0 <=? 59) with true by lia.
    destruct Hs as [[-> _]|[-> _]]; reflexivity.
Qed.

(* C2: computeTimezoneKind looks only at the text from idx on *)
Lemma ctk_app p z n : n = slen p -> compute_tz_kind (p ++ z) n = compute_tz_kind z 0.
Proof.
  intros Hn. unfold compute_tz_kind. pose proof (slen_nonneg p). pose proof (slen_nonneg z).
  rewrite slen_app. replace (slen p + slen z <=? n) with (slen z <=? 0) by lia.
  replace (slen p + slen z <? n + 5) with (slen z <? 0 + 5) by lia.
  rewrite (at_app0 p z n Hn), (at_app p z n 3 Hn) by lia.
  rewrite (sub_app_plus p z n 1 3 Hn) by lia. rewrite (from_app_plus p z n 4 Hn) by lia.
  reflexivity.
Qed.

(* C3: time.Parse *)
Definition gtp_finish (year month day hour mi sec nsec : Z) (zr : option (Z * list N)) : option gotime :=
  olet (zoff, v) <- zr;
  match v with
  | _ :: _ => None
  | [] =>
    if (day <? 1) || (days_in_month year month <? day) then None
    else
      let t := go_date year month day hour mi sec nsec in
      Some (mkTime (wrap_abs (g_abs t - zoff)) (g_nsec t) zoff)
  end.

Ltac ostep := cbn [obind expect]; rewrite ?N.eqb_refl; cbn [obind].

Section DateTime.
  Variables y3 y2 y1 y0 o1 o0 d1 d0 h1 h0 i1 i0 : N.
  Hypothesis Hy3 : is_digit y3 = true.  Hypothesis Hy2 : is_digit y2 = true.
  Hypothesis Hy1 : is_digit y1 = true.  Hypothesis Hy0 : is_digit y0 = true.
  Hypothesis Ho1 : is_digit o1 = true.  Hypothesis Ho0 : is_digit o0 = true.
  Hypothesis Hd1 : is_digit d1 = true.  Hypothesis Hd0 : is_digit d0 = true.
  Hypothesis Hh1 : is_digit h1 = true.  Hypothesis Hh0 : is_digit h0 = true.
  Hypothesis Hi1 : is_digit i1 = true.  Hypothesis Hi0 : is_digit i0 = true.
  Hypothesis Hmonth : 1 <= D2 o1 o0 <= 12.
  Hypothesis Hhour : D2 h1 h0 < 24.
  Hypothesis Hmin : D2 i1 i0 < 60.

  Definition dt16 : list N :=
    [y3; y2; y1; y0; c_minus; o1; o0; c_minus; d1; d0; c_T; h1; h0; c_colon; i1; i0].

  Lemma gtp_minute nf iso z :
    go_time_parse false nf iso (dt16 ++ z) =
    gtp_finish (D4 y3 y2 y1 y0) (D2 o1 o0) (D2 d1 d0) (D2 h1 h0) (D2 i1 i0) 0 0 (parse_zone iso z).
  Proof.
    unfold go_time_parse, dt16. cbn [app].
    rewrite year4_ok by assumption. ostep.
    rewrite getnum2_ok by assumption. ostep.
    replace ((D2 o1 o0 <=? 0) || (12 <? D2 o1 o0)) with false by lia.
    ostep. rewrite getnum2_ok by assumption. ostep.
    rewrite getnum12_ok by assumption. ostep.
    replace (24 <=? D2 h1 h0) with false by lia.
    ostep. rewrite getnum2_ok by assumption. ostep.
    replace (60 <=? D2 i1 i0) with false by lia.
    reflexivity.
  Qed.

  Lemma gtp_second nf iso s1 s0 v : is_digit s1 = true -> is_digit s0 = true -> D2 s1 s0 < 60 ->
    go_time_parse true nf iso (dt16 ++ c_colon :: s1 :: s0 :: v) =
    gtp_finish (D4 y3 y2 y1 y0) (D2 o1 o0) (D2 d1 d0) (D2 h1 h0) (D2 i1 i0) (D2 s1 s0) (fst (opt_fraction v))
               (parse_zone iso (snd (opt_fraction v))).
  Proof.
    intros Hs1 Hs0 Hsec.
    unfold go_time_parse, dt16. cbn [app].
    rewrite year4_ok by assumption. ostep.
    rewrite getnum2_ok by assumption. ostep.
    replace ((D2 o1 o0 <=? 0) || (12 <? D2 o1 o0)) with false by lia.
    ostep. rewrite getnum2_ok by assumption. ostep.
    rewrite getnum12_ok by assumption. ostep.
    replace (24 <=? D2 h1 h0) with false by lia.
    ostep. rewrite getnum2_ok by assumption. ostep.
    replace (60 <=? D2 i1 i0) with false by lia.
    ostep. rewrite getnum2_ok by assumption. ostep.
    replace (60 <=? D2 s1 s0) with false by lia.
    destruct (opt_fraction v) as [ns v']. reflexivity.
  Qed.
End DateTime.

Lemma gtp_finish_ok y mo d h mi s ns a om :
  valid_date y mo d = true -> tod_ok h mi s -> abs_of y mo d h mi s = a + 60 * om ->
  0 <= a < two64z -> 0 <= a + 60 * om < two64z -> 0 <= ns < 1000000000 ->
  gtp_finish y mo d h mi s ns (Some (60 * om, [])) = Some (mkTime a ns (60 * om)).
Proof.
  intros V T E Ba Bl Hns. unfold gtp_finish. cbn [obind].
  pose proof V as V'. unfold valid_date in V'.
  replace ((d <? 1) || (days_in_month y mo <? d)) with false by lia.
  rewrite (go_date_of_fields y mo d h mi s ns (a + 60 * om) V T E Bl Hns). cbn [g_abs g_nsec].
  replace (a + 60 * om - 60 * om) with a by lia. rewrite wrap_abs_small by exact Ba. reflexivity.
Qed.

(* C4: the optional fraction *)
Lemma opt_fraction_none z :
  match z with c :: _ => comma_or_period c = false | [] => True end -> opt_fraction z = (0, z).
Proof.
  intros H. destruct z as [|c [|d r]]; [reflexivity|reflexivity|]. unfold opt_fraction. rewrite H. reflexivity.
Qed.

Lemma opt_fraction_some ds z : all_digits ds = true -> ds <> [] ->
  match z with c :: _ => is_digit c = false | [] => True end ->
  opt_fraction (c_dot :: ds ++ z) = (parse_nanos ds, z).
Proof.
  intros Hd Hne Hz. destruct ds as [|d r]; [congruence|]. unfold opt_fraction. cbn [app tl].
  pose proof Hd as Hd'. cbn [all_digits] in Hd'. apply andb_true_iff in Hd' as [Hd0 _].
  rewrite Hd0. change (comma_or_period c_dot) with true. cbn [andb].
  change (d :: r ++ z) with ((d :: r) ++ z). rewrite take_digits_app by assumption. reflexivity.
Qed.

Lemma pow10_split (nf : Z) : 0 <= nf <= 9 -> 10 ^ nf * 10 ^ (9 - nf) = 1000000000.
Proof. intros H. rewrite <- Z.pow_add_r by lia. replace (nf + (9 - nf)) with 9 by lia. reflexivity. Qed.

Lemma parse_nanos_fixw nf x : (nf <= 9)%nat -> 0 <= x < 10 ^ Z.of_nat nf ->
  parse_nanos (fixw nf x) = x * 10 ^ (9 - Z.of_nat nf).
Proof.
  intros Hn Hx. unfold parse_nanos. rewrite firstn_all2 by (rewrite fixw_length; lia).
  rewrite digits_val_fixw0 by exact Hx. unfold slen. rewrite fixw_length. reflexivity.
Qed.

(* C5: NewTimestampFromStr *)
Lemma new_ts_frac_id t p k nf : 0 <= nf <= 9 -> (rank p < 6 -> nf = 0) -> new_ts_frac t p k nf = mkTs t p k nf.
Proof.
  intros H H0. unfold new_ts_frac. replace (9 <? nf) with false by lia.
  destruct (rank p <? 6) eqn:E; [rewrite H0 by lia|]; reflexivity.
Qed.

Lemma ntfs_coarse l p k : rank p < 6 ->
  new_ts_from_str l p k =
  match go_time_parse (5 <=? rank p) 0 (negb (is_unspec k)) l with None => Err | Some t => Ok (mkTs t p k 0) end.
Proof.
  intros Hp. unfold new_ts_from_str. replace (6 <=? rank p) with false by lia. cbn [bind].
  destruct (go_time_parse _ _ _ l); [|reflexivity]. rewrite new_ts_frac_id by lia. reflexivity.
Qed.

(* nanosecond precision: p19 is "yyyy-mm-ddThh:mm:ss" (no '.'), then '.', digits, offset *)
Lemma ntfs_nano p19 ds z k : Forall (fun x => x <> c_dot) p19 -> all_digits ds = true -> 1 <= slen ds <= 9 ->
  Forall (fun x => x <> c_dot) z ->
  match z with c :: _ => is_digit c = false | [] => False end ->
  new_ts_from_str (p19 ++ c_dot :: ds ++ z) PNano k =
  match go_time_parse true (slen ds) (negb (is_unspec k)) (p19 ++ c_dot :: ds ++ z) with
  | None => Err | Some t => Ok (mkTs t PNano k (slen ds)) end.
Proof.
  intros Hp Hd Hl Hz Hz1. unfold new_ts_from_str. cbn [rank]. change (6 <=? 6) with true. cbv iota.
  rewrite last_index_one.
  2:{ apply Forall_app. split; [|exact Hz]. apply all_digits_Forall_ne; [exact Hd|reflexivity]. }
  replace (p19 ++ c_dot :: ds ++ z) with ((p19 ++ [c_dot]) ++ ds ++ z) by (rewrite <- app_assoc; reflexivity).
  rewrite (from_app (p19 ++ [c_dot]) (ds ++ z) (slen p19 + 1)) by (rewrite slen_app; reflexivity).
  rewrite count_digits_app; [|exact Hd|destruct z; [exact I|exact Hz1]].
  rewrite !slen_app. change (slen [c_dot]) with 1.
  assert (1 <= slen z) by (destruct z; [contradiction|rewrite slen_cons; pose proof (slen_nonneg z); lia]).
  replace (slen p19 + 1 + slen ds =? slen p19 + 1 + (slen ds + slen z)) with false by lia.
  cbn [bind]. replace (slen ds mod 256) with (slen ds) by lia.
  replace (Z.min (slen ds) 9) with (slen ds) by lia.
  destruct (go_time_parse _ _ _ _); [|reflexivity]. rewrite new_ts_frac_id by (cbn [rank]; lia). reflexivity.
Qed.

(* tryCreateDateTimestamp *)
Lemma try_date_ok y mo d a p :
  valid_date y mo d = true -> abs_of y mo d 0 0 0 = a -> 0 <= a < two64z -> rank p <= 3 ->
  try_date y mo d p = Ok (mkTs (mkTime a 0 0) p KUnspec 0).
Proof.
  intros V E B Hp. unfold try_date.
  assert (T0 : tod_ok 0 0 0) by (unfold tod_ok; lia).
  rewrite (go_date_of_fields y mo d 0 0 0 0 a V T0 E B) by lia.
  assert (EF : go_fields (mkTime a 0 0) = (y, mo, d, 0, 0, 0)).
  { rewrite <- E. apply go_fields_of_abs; [exact V|exact T0|rewrite E; exact B]. }
  destruct (go_ymd_of_fields _ _ _ _ _ _ _ EF) as (Ey & Em & Ed).
  rewrite Ey, Em, Ed, !Z.eqb_refl. cbn [andb].
  unfold new_date_ts. replace (6 <=? rank p) with false by lia. reflexivity.
Qed.

(* C6: ParseTimestamp finds the precision *)
Ltac evl t := let v := eval cbv in t in change t with v.
Ltac zb := repeat match goal with
  | |- context [?a <? ?b] => first [replace (a <? b) with false by lia | replace (a <? b) with true by lia]
  | |- context [?a <=? ?b] => first [replace (a <=? b) with false by lia | replace (a <=? b) with true by lia]
  | |- context [?a =? ?b] => first [replace (a =? b) with false by lia | replace (a =? b) with true by lia]
  end.

Lemma ts_parse_year cf y3 y2 y1 y0 :
  is_digit y3 = true -> is_digit y2 = true -> is_digit y1 = true -> is_digit y0 = true -> 1 <= D4 y3 y2 y1 y0 ->
  ts_parse cf [y3; y2; y1; y0; c_T] = try_date (D4 y3 y2 y1 y0) 1 1 PYear.
Proof.
  intros H3 H2 H1 H0 Hy. unfold ts_parse. cbv zeta.
  evl (slen [y3; y2; y1; y0; c_T]). evl (sub [y3; y2; y1; y0; c_T] 0 4). evl (at_ [y3; y2; y1; y0; c_T] 4).
  rewrite parse_field_4 by assumption. replace (D4 y3 y2 y1 y0 <? 1) with false by lia. reflexivity.
Qed.

Lemma ts_parse_month cf y3 y2 y1 y0 o1 o0 :
  is_digit y3 = true -> is_digit y2 = true -> is_digit y1 = true -> is_digit y0 = true -> 1 <= D4 y3 y2 y1 y0 ->
  is_digit o1 = true -> is_digit o0 = true ->
  ts_parse cf [y3; y2; y1; y0; c_minus; o1; o0; c_T] = try_date (D4 y3 y2 y1 y0) (D2 o1 o0) 1 PMonth.
Proof.
  intros H3 H2 H1 H0 Hy Ho1 Ho0. unfold ts_parse. cbv zeta.
  set (l := [y3; y2; y1; y0; c_minus; o1; o0; c_T]).
  evl (slen l). evl (sub l 0 4). evl (at_ l 4). evl (sub l 5 7). evl (at_ l 7).
  rewrite parse_field_4 by assumption. replace (D4 y3 y2 y1 y0 <? 1) with false by lia.
  rewrite parse_field_2 by assumption. reflexivity.
Qed.

Lemma ts_parse_day cf y3 y2 y1 y0 o1 o0 d1 d0 :
  is_digit y3 = true -> is_digit y2 = true -> is_digit y1 = true -> is_digit y0 = true -> 1 <= D4 y3 y2 y1 y0 ->
  is_digit o1 = true -> is_digit o0 = true -> is_digit d1 = true -> is_digit d0 = true ->
  ts_parse cf [y3; y2; y1; y0; c_minus; o1; o0; c_minus; d1; d0; c_T] =
  try_date (D4 y3 y2 y1 y0) (D2 o1 o0) (D2 d1 d0) PDay.
Proof.
  intros H3 H2 H1 H0 Hy Ho1 Ho0 Hd1 Hd0. unfold ts_parse. cbv zeta.
  set (l := [y3; y2; y1; y0; c_minus; o1; o0; c_minus; d1; d0; c_T]).
  evl (slen l). evl (sub l 0 4). evl (at_ l 4). evl (sub l 5 7). evl (at_ l 7). evl (sub l 8 10). evl (at_ l 10).
  rewrite parse_field_4 by assumption. replace (D4 y3 y2 y1 y0 <? 1) with false by lia.
  rewrite !parse_field_2 by assumption. reflexivity.
Qed.

Section ParseTime.
  Variables y3 y2 y1 y0 o1 o0 d1 d0 h1 h0 i1 i0 : N.
  Hypothesis Hy3 : is_digit y3 = true.  Hypothesis Hy2 : is_digit y2 = true.
  Hypothesis Hy1 : is_digit y1 = true.  Hypothesis Hy0 : is_digit y0 = true.
  Hypothesis Ho1 : is_digit o1 = true.  Hypothesis Ho0 : is_digit o0 = true.
  Hypothesis Hd1 : is_digit d1 = true.  Hypothesis Hd0 : is_digit d0 = true.
  Hypothesis Hyear : 1 <= D4 y3 y2 y1 y0.
  Variable cf : cfg.
  Let p16 := dt16 y3 y2 y1 y0 o1 o0 d1 d0 h1 h0 i1 i0.

  (* the common part: up to the character after the minutes *)
  Lemma ts_parse_time c r :
    ts_parse cf (p16 ++ c :: r) =
    let l := p16 ++ c :: r in
    let n := 17 + slen r in
    if ((c =? c_z) || (c =? c_Z) || (c =? c_plus) || (c =? c_minus))%N then
      do k <- compute_tz_kind l 16; new_ts_from_str l PMinute k
    else if (c =? c_colon)%N then
      if n <? 20 then Err else
      let idx := if (at_ l 19 =? c_dot)%N then 20 + count_digits (from l 20) else 19 in
      if fx_tbounds cf && (n <=? idx) then Err else
      do k <- compute_tz_kind l idx;
      if idx <=? 20 then new_ts_from_str l PSecond k
      else if idx <=? 28 then new_ts_from_str l PNano k
      else round_frac cf l idx k
    else Err.
  Proof.
    unfold ts_parse. cbv zeta. pose proof (slen_nonneg r) as Hr.
    assert (En : slen (p16 ++ c :: r) = 17 + slen r).
    { rewrite slen_app, slen_cons. change (slen p16) with 16. lia. }
    rewrite En. set (l := p16 ++ c :: r).
    unfold p16, dt16 in l. cbn [app] in l.
    evl (sub l 0 4). evl (at_ l 4). evl (sub l 5 7). evl (at_ l 7). evl (sub l 8 10). evl (at_ l 10). evl (at_ l 16).
    rewrite parse_field_4 by assumption. replace (D4 y3 y2 y1 y0 <? 1) with false by lia.
    rewrite !parse_field_2 by assumption.
    replace (17 + slen r <? 5) with false by lia. replace (17 + slen r =? 5) with false by lia.
    replace (17 + slen r <? 8) with false by lia. replace (17 + slen r =? 8) with false by lia.
    replace (17 + slen r <? 10) with false by lia. replace (17 + slen r =? 10) with false by lia.
    replace (17 + slen r =? 11) with false by lia. replace (17 + slen r <? 17) with false by lia.
    reflexivity.
  Qed.
End ParseTime.

(* ---- (D) Timestamp.String on a well-formed timestamp ----------------------------------------------------------------- *)
(* D1: the offset *)
Definition zone_text (k : tzkind) (off : Z) : list N :=
  match k with
  | KUnspec => if Z.quot off 60 =? 0 then zone_unknown else fmt_zone_num off
  | _ => fmt_zone_iso off
  end.

Lemma fmt_zone_num_eq om : -1440 < om < 1440 ->
  fmt_zone_num (60 * om) =
  [if om <? 0 then c_minus else c_plus; dg (Z.abs om / 60 / 10); dg (Z.abs om / 60); c_colon;
   dg (Z.abs om mod 60 / 10); dg (Z.abs om mod 60)].
Proof.
  intros H. unfold fmt_zone_num. rewrite quot_60. cbv zeta.
  rewrite Z.quot_div_nonneg, Z.rem_mod_nonneg by lia.
  rewrite !append_int_w_2 by lia. reflexivity.
Qed.

Lemma zone_text_for k om : -1440 < om < 1440 -> (k = KLocal <-> 60 * om <> 0) -> zone_for k om (zone_text k (60 * om)).
Proof.
  intros Hom Hk. unfold zone_for.
  destruct (Z.eq_dec om 0) as [->|Hne].
  - assert (k <> KLocal) by (intros E; apply Hk in E; lia).
    destruct k; [right; left|left|congruence]; repeat split; reflexivity.
  - assert (Ek : k = KLocal) by (apply Hk; lia). subst k. right. right. split; [reflexivity|]. split; [exact Hne|].
    unfold zone_text, fmt_zone_iso. replace (60 * om =? 0) with false by lia. rewrite fmt_zone_num_eq by exact Hom.
    eexists _, _, _, _, _. split; [reflexivity|]. rewrite !dg_digit. repeat split.
    + rewrite D2_dg by lia. lia.
    + rewrite D2_dg by lia. lia.
    + rewrite !D2_dg by lia. destruct (om <? 0) eqn:E; [right|left]; split; try reflexivity; lia.
Qed.

(* D2: the fraction *)
Lemma drop_zeros_split l : exists k, l = repeat c_0 k ++ drop_zeros l.
Proof.
  induction l as [|c r (k & IH)]; [exists 0%nat; reflexivity|]. cbn [drop_zeros].
  destruct (c =? c_0)%N eqn:E.
  - exists (S k). cbn [repeat app]. rewrite <- IH. f_equal. lia.
  - exists 0%nat. reflexivity.
Qed.

Lemma rev_repeat_c (c : N) k : rev (repeat c k) = repeat c k.
Proof.
  induction k as [|k IH]; [reflexivity|]. cbn [repeat rev]. rewrite IH. symmetry. apply repeat_cons.
Qed.

Lemma trim0_split l : exists k, l = trim0 l ++ repeat c_0 k.
Proof.
  destruct (drop_zeros_split (rev l)) as (k & E). exists k. unfold trim0.
  rewrite <- (rev_involutive l) at 1. rewrite E at 1. rewrite rev_app_distr, rev_repeat_c. reflexivity.
Qed.

Lemma digits_val_zeros k : digits_val (repeat c_0 k) 0 = Some 0.
Proof. induction k as [|k IH]; [reflexivity|]. cbn [repeat digits_val]. exact IH. Qed.

Lemma fixw_zero w : fixw w 0 = repeat c_0 w.
Proof.
  induction w as [|w IH]; [reflexivity|]. cbn [fixw]. change (0 / 10) with 0. rewrite IH.
  change [Z.to_N (48 + 0 mod 10)] with [c_0]. symmetry. apply repeat_cons.
Qed.

Lemma firstn_fixw9 nf ns : (nf <= 9)%nat ->
  firstn nf (fixw 9 ns) = fixw nf (ns / 10 ^ (9 - Z.of_nat nf)).
Proof.
  intros H. replace 9%nat with (nf + (9 - nf))%nat at 1 by lia. rewrite fixw_app.
  rewrite firstn_app, fixw_length, Nat.sub_diag. cbn [firstn]. rewrite app_nil_r.
  rewrite firstn_all2 by (rewrite fixw_length; lia).
  replace (Z.of_nat (9 - nf)) with (9 - Z.of_nat nf) by lia. reflexivity.
Qed.

Definition frac_text (nf ns : Z) : list N :=
  let f := fmt_frac9 (Z.min nf 9) ns in
  if nf <=? 0 then f
  else if (ns =? 0) || (nf <=? 9 - slen (dec_of_Z ns))
  then f ++ c_dot :: repeat c_0 (Z.to_nat nf)
  else match f with
       | [] => []
       | _ :: ds => f ++ repeat c_0 (Z.to_nat (nf - slen ds))
       end.

Lemma pow10_pos k : 0 <= k -> 0 < 10 ^ k.
Proof. intros H. apply Z.pow_pos_nonneg; lia. Qed.

Lemma frac_text_eq nf ns : 1 <= nf <= 9 -> 0 <= ns < 1000000000 -> ns mod 10 ^ (9 - nf) = 0 ->
  frac_text nf ns = c_dot :: fixw (Z.to_nat nf) (ns / 10 ^ (9 - nf)).
Proof.
  intros Hnf Hns Hmod. unfold frac_text. cbv zeta.
  replace (Z.min nf 9) with nf by lia. replace (nf <=? 0) with false by lia.
  pose proof (pow10_pos (9 - nf) ltac:(lia)) as Pp. pose proof (pow10_split nf ltac:(lia)) as Ps.
  destruct (Z.eq_dec ns 0) as [->|Hne].
  - unfold fmt_frac9. rewrite orb_true_r. cbn [Z.eqb orb app]. rewrite Z.div_0_l by lia. rewrite fixw_zero. reflexivity.
  - replace (ns =? 0) with false by lia. cbn [orb].
    set (q := ns / 10 ^ (9 - nf)).
    assert (Eq : ns = q * 10 ^ (9 - nf)) by (unfold q; lia).
    assert (Hq : 1 <= q < 10 ^ nf) by nia.
    (* the length test *)
    assert (EL : (nf <=? 9 - slen (dec_of_Z ns)) = false).
    { pose proof (DecimalP.ndigits_spec ns Hne) as [Lo Hi]. pose proof (DecimalP.ndigits_pos ns) as Np.
      assert (El : slen (dec_of_Z ns) = DecimalP.ndigits ns).
      { unfold DecimalP.ndigits, Decimal.zlen, slen. rewrite Z.abs_eq by lia. destruct ns; try lia; reflexivity. }
      rewrite El. apply Z.leb_gt. destruct (Z_lt_le_dec (9 - DecimalP.ndigits ns) nf) as [|C]; [assumption|exfalso].
      assert (10 ^ DecimalP.ndigits ns <= 10 ^ (9 - nf)) by (apply Z.pow_le_mono_r; lia).
      rewrite Z.abs_eq in Hi by lia. nia. }
    rewrite EL.
    unfold fmt_frac9. replace ((nf =? 0) || (ns =? 0)) with false by lia.
    unfold append_int_w, append_uint_w. replace (ns <? 0) with false by lia.
    change (10 ^ Z.of_nat 9) with 1000000000. replace (ns <? 1000000000) with true by lia.
    rewrite firstn_fixw9 by lia. rewrite Z2Nat.id by lia. fold q.
    set (F := fixw (Z.to_nat nf) q).
    destruct (trim0_split F) as (k & EF).
    assert (LF : length F = Z.to_nat nf) by apply fixw_length.
    destruct (trim0 F) as [|x ds] eqn:ET.
    + exfalso. cbn [app] in EF. pose proof (digits_val_zeros k) as Z0. rewrite <- EF in Z0.
      unfold F in Z0. rewrite digits_val_fixw0 in Z0 by (rewrite Z2Nat.id; lia). injection Z0. lia.
    + cbn [app]. f_equal. rewrite EF. cbn [app]. do 3 f_equal.
      rewrite EF in LF. rewrite app_length, repeat_length in LF. cbn [length] in LF.
      unfold slen. cbn [length]. clear - LF Hnf. lia.
Qed.

(* D3: the whole string *)
Definition Y4 (y : Z) : list N := [dg (y / 10 / 10 / 10); dg (y / 10 / 10); dg (y / 10); dg y].
Definition P16 (y mo d h mi : Z) : list N :=
  dt16 (dg (y / 10 / 10 / 10)) (dg (y / 10 / 10)) (dg (y / 10)) (dg y) (dg (mo / 10)) (dg mo) (dg (d / 10)) (dg d)
       (dg (h / 10)) (dg h) (dg (mi / 10)) (dg mi).

Lemma valid_date_ranges y mo d : valid_date y mo d = true -> 1 <= mo <= 12 /\ 1 <= d <= 31.
Proof.
  unfold valid_date, days_in_month. intros V.
  destruct (mo =? 2), (is_leap y), ((mo =? 4) || (mo =? 6) || (mo =? 9) || (mo =? 11)); lia.
Qed.

Lemma ts_format_view t a ns om y mo d h mi s : wf_view t a ns om y mo d h mi s ->
  ts_format t =
  match t_prec t with
  | PYear => Y4 y ++ [c_T]
  | PMonth => Y4 y ++ [c_minus; dg (mo / 10); dg mo; c_T]
  | PDay => Y4 y ++ [c_minus; dg (mo / 10); dg mo; c_minus; dg (d / 10); dg d; c_T]
  | PMinute => P16 y mo d h mi ++ zone_text (t_kind t) (60 * om)
  | PSecond => P16 y mo d h mi ++ c_colon :: dg (s / 10) :: dg s :: zone_text (t_kind t) (60 * om)
  | PNano => P16 y mo d h mi ++ c_colon :: dg (s / 10) :: dg s :: frac_text (t_nfrac t) ns ++ zone_text (t_kind t) (60 * om)
  | PNone => P16 y mo d h mi ++ c_colon :: dg (s / 10) :: dg s :: fmt_frac9 9 ns ++ fmt_zone_iso (60 * om)
  end.
Proof.
  intros [ET Hom Ha EF V T EA R Hy Hns]. unfold ts_format. rewrite EF. rewrite ET. cbn [g_off g_nsec].
  destruct (valid_date_ranges y mo d V) as [Hmo Hd]. destruct T as (Hh & Hmi & Hs).
  rewrite append_int_w_4 by lia. rewrite !append_int_w_2 by lia.
  fold (zone_text (t_kind t) (60 * om)). fold (frac_text (t_nfrac t) ns).
  destruct (t_prec t); reflexivity.
Qed.

(* ---- float64: seconds with at most ten significant digits survive ParseFloat and "%.9f" ------------------------ *)
Lemma rne_div_err X q : 0 < q -> exists dl, rne_div X q * q = X + dl /\ 2 * Z.abs dl <= q.
Proof.
  intros Hq. unfold rne_div.
  pose proof (Z.div_mod X q ltac:(lia)) as E. pose proof (Z.mod_pos_bound X q Hq) as B.
  set (f := X / q) in *. set (r := X mod q) in *. clearbody f r.
  destruct (2 * r <? q) eqn:E1.
  - exists (- r). split; lia.
  - destruct (q <? 2 * r) eqn:E2.
    + exists (q - r). split; lia.
    + destruct (Z.even f).
      * exists (- r). split; lia.
      * exists (q - r). split; lia.
Qed.

Lemma rne_div_near N S p dl : 0 < S -> N = p * S + dl -> 2 * Z.abs dl < S -> rne_div N S = p.
Proof.
  intros HS EN Hd. unfold rne_div.
  pose proof (Z.div_mod N S ltac:(lia)) as E. pose proof (Z.mod_pos_bound N S HS) as B.
  set (f := N / S) in *. set (r := N mod S) in *. clearbody f r.
  assert (C : f = p \/ f = p - 1) by nia.
  destruct C as [-> | ->].
  - replace (2 * r <? S) with true by lia. reflexivity.
  - replace (2 * r <? S) with false by lia. replace (S <? 2 * r) with true by lia. lia.
Qed.

Lemma f64_fmt9_exact num : 0 <= num < 10000000000 -> f64_fmt9 (f64_of_rat num 1000000000) = num.
Proof.
  intros H. unfold f64_of_rat.
  destruct (num =? 0) eqn:E0.
  - assert (num = 0) by lia. subst num. reflexivity.
  - destruct ((num mod 1000000000 =? 0) && (num / 1000000000 <? two53)) eqn:E1.
    + unfold f64_fmt9, rne_div. cbn [fst snd]. rewrite Z.div_1_r, Z.mod_1_r. cbn [Z.mul Z.ltb Z.compare]. lia.
    + change (Z.log2 1000000000) with 29.
      assert (L : 0 <= Z.log2 num < 34).
      { split; [apply Z.log2_nonneg|]. apply Z.log2_lt_pow2; [lia|]. change (2 ^ 34) with 17179869184. lia. }
      set (e0 := Z.log2 num - 29).
      set (ge := if 0 <=? e0 then 1000000000 * 2 ^ e0 <=? num else 1000000000 <=? num * 2 ^ (- e0)).
      set (e := if ge then e0 else e0 - 1).
      assert (He : e <= 4) by (unfold e, e0; destruct ge; lia).
      replace (0 <=? 52 - e) with true by lia.
      unfold f64_fmt9. cbn [fst snd].
      set (S := 2 ^ (52 - e)).
      assert (HS : 2 ^ 48 <= S) by (apply Z.pow_le_mono_r; lia). change (2 ^ 48) with 281474976710656 in HS.
      destruct (rne_div_err (num * S) 1000000000 ltac:(lia)) as (dl & Em & Hd).
      apply (rne_div_near _ S num dl); [lia|lia|lia].
Qed.

(* ---- (E) the round trip ------------------------------------------------------------------------------------------------- *)
Section RoundTrip.
  Variables y mo d h mi s a om : Z.
  Variable k : tzkind.
  Variable z : list N.
  Hypothesis V : valid_date y mo d = true.
  Hypothesis T : tod_ok h mi s.
  Hypothesis EA : abs_of y mo d h mi s = a + 60 * om.
  Hypothesis Ha : 0 <= a < two64z.
  Hypothesis R : abs_lo <= a + 60 * om < abs_hi.
  Hypothesis Hy : 1 <= y <= 9999.
  Hypothesis ZF : zone_for k om z.

  Let Hmo : 1 <= mo <= 12 /\ 1 <= d <= 31 := valid_date_ranges y mo d V.

  Lemma Rl : 0 <= a + 60 * om < two64z.
  Proof. clear - R. rewrite abs_lo_val, abs_hi_val in R. unfold two64z. lia. Qed.

  Lemma gtp_minute_P16 nf iso v :
    go_time_parse false nf iso (P16 y mo d h mi ++ v) = gtp_finish y mo d h mi 0 0 (parse_zone iso v).
  Proof.
    destruct Hmo as [Hm Hd]. destruct T as (Hh & Hmi & Hs). unfold P16.
    rewrite gtp_minute by (try apply dg_digit; rewrite D2_dg by lia; lia).
    rewrite D4_dg, !D2_dg by lia. reflexivity.
  Qed.

  Lemma gtp_second_P16 nf iso v :
    go_time_parse true nf iso (P16 y mo d h mi ++ c_colon :: dg (s / 10) :: dg s :: v) =
    gtp_finish y mo d h mi s (fst (opt_fraction v)) (parse_zone iso (snd (opt_fraction v))).
  Proof.
    destruct Hmo as [Hm Hd]. destruct T as (Hh & Hmi & Hs). unfold P16.
    rewrite gtp_second by (try apply dg_digit; rewrite D2_dg by lia; lia).
    rewrite D4_dg, !D2_dg by lia. reflexivity.
  Qed.

  Lemma ts_parse_time_P16 cf c r :
    ts_parse cf (P16 y mo d h mi ++ c :: r) =
    let l := P16 y mo d h mi ++ c :: r in
    let n := 17 + slen r in
    if ((c =? c_z) || (c =? c_Z) || (c =? c_plus) || (c =? c_minus))%N then
      do k <- compute_tz_kind l 16; new_ts_from_str l PMinute k
    else if (c =? c_colon)%N then
      if n <? 20 then Err else
      let idx := if (at_ l 19 =? c_dot)%N then 20 + count_digits (from l 20) else 19 in
      if fx_tbounds cf && (n <=? idx) then Err else
      do k <- compute_tz_kind l idx;
      if idx <=? 20 then new_ts_from_str l PSecond k
      else if idx <=? 28 then new_ts_from_str l PNano k
      else round_frac cf l idx k
    else Err.
  Proof.
    unfold P16. apply ts_parse_time; try apply dg_digit. rewrite D4_dg by lia. lia.
  Qed.

  Lemma rt_minute cf : s = 0 ->
    ts_parse cf (P16 y mo d h mi ++ z) = Ok (mkTs (mkTime a 0 (60 * om)) PMinute k 0).
  Proof.
    intros Hs0. destruct (zone_head k om z ZF) as (c & r & Ez & _ & _ & _ & Hc).
    rewrite Ez at 1. rewrite ts_parse_time_P16. cbv zeta. rewrite Hc. rewrite <- Ez.
    rewrite (ctk_app (P16 y mo d h mi) z 16 eq_refl), (zone_ctk k om z ZF). cbn [bind].
    rewrite ntfs_coarse by (cbn [rank]; lia). cbn [rank]. change (5 <=? 4) with false.
    rewrite gtp_minute_P16, (zone_parse k om z ZF).
    rewrite <- Hs0 at 1. rewrite (gtp_finish_ok y mo d h mi s 0 a om V T EA Ha Rl) by lia. reflexivity.
  Qed.

  Lemma rt_second cf :
    ts_parse cf (P16 y mo d h mi ++ c_colon :: dg (s / 10) :: dg s :: z) = Ok (mkTs (mkTime a 0 (60 * om)) PSecond k 0).
  Proof.
    destruct (zone_head k om z ZF) as (c & r & Ez & Hcd & Hcp & _ & _).
    rewrite ts_parse_time_P16. cbv zeta.
    change ((c_colon =? c_z) || (c_colon =? c_Z) || (c_colon =? c_plus) || (c_colon =? c_minus))%N with false.
    cbv iota. rewrite N.eqb_refl.
    set (l := P16 y mo d h mi ++ c_colon :: dg (s / 10) :: dg s :: z).
    assert (El : l = (P16 y mo d h mi ++ [c_colon; dg (s / 10); dg s]) ++ z) by (unfold l; rewrite <- app_assoc; reflexivity).
    assert (E19 : at_ l 19 = c) by (rewrite El, at_app0 by reflexivity; rewrite Ez; reflexivity).
    rewrite E19. assert (Ecd : (c =? c_dot)%N = false).
    { unfold comma_or_period in Hcp. apply orb_false_iff in Hcp. tauto. }
    rewrite Ecd. rewrite !slen_cons. pose proof (slen_nonneg z) as Hz.
    assert (1 <= slen z) by (rewrite Ez, slen_cons; pose proof (slen_nonneg r); lia).
    replace (17 + (1 + (1 + slen z)) <? 20) with false by lia.
    replace (17 + (1 + (1 + slen z)) <=? 19) with false by lia. rewrite andb_false_r.
    rewrite El at 1. rewrite ctk_app by reflexivity. rewrite (zone_ctk k om z ZF). cbn [bind].
    change (19 <=? 20) with true. cbv iota.
    rewrite ntfs_coarse by (cbn [rank]; lia). cbn [rank]. change (5 <=? 5) with true.
    unfold l. rewrite gtp_second_P16. rewrite opt_fraction_none by (rewrite Ez; exact Hcp). cbn [fst snd].
    rewrite (zone_parse k om z ZF).
    rewrite (gtp_finish_ok y mo d h mi s 0 a om V T EA Ha Rl) by lia. reflexivity.
  Qed.
  (* nanosecond precision *)
  Variables nf ns : Z.
  Hypothesis Hnf : 1 <= nf <= 9.
  Hypothesis Hns : 0 <= ns < 1000000000.
  Hypothesis Hmod : ns mod 10 ^ (9 - nf) = 0.
  Let F := fixw (Z.to_nat nf) (ns / 10 ^ (9 - nf)).
  Let lN := P16 y mo d h mi ++ c_colon :: dg (s / 10) :: dg s :: c_dot :: F ++ z.

  Lemma F_len : slen F = nf.
  Proof. unfold F, slen. rewrite fixw_length. lia. Qed.
  Lemma F_digits : all_digits F = true.
  Proof. apply all_digits_fixw. Qed.

  Lemma dg_not_dot x : dg x <> c_dot.
  Proof. pose proof (digit_range _ (dg_digit x)). unfold c_dot. lia. Qed.

  Lemma p19_nodot : Forall (fun x => x <> c_dot) (P16 y mo d h mi ++ [c_colon; dg (s / 10); dg s]).
  Proof.
    unfold P16, dt16. cbn [app]. repeat constructor; first [apply dg_not_dot | discriminate].
  Qed.

  Lemma ntfs_nano_ok : new_ts_from_str lN PNano k = Ok (mkTs (mkTime a ns (60 * om)) PNano k nf).
  Proof.
    destruct (zone_head k om z ZF) as (c & r & Ez & Hcd & Hcp & _ & _).
    assert (El : lN = (P16 y mo d h mi ++ [c_colon; dg (s / 10); dg s]) ++ c_dot :: F ++ z)
      by (unfold lN; rewrite <- app_assoc; reflexivity).
    rewrite El. rewrite ntfs_nano.
    - rewrite <- El. unfold lN. rewrite gtp_second_P16.
      rewrite opt_fraction_some.
      + cbn [fst snd]. rewrite (zone_parse k om z ZF), F_len. unfold F. rewrite parse_nanos_fixw.
        * rewrite Z2Nat.id by lia.
          pose proof (pow10_pos (9 - nf) ltac:(lia)) as Pp.
          replace (ns / 10 ^ (9 - nf) * 10 ^ (9 - nf)) with ns by lia.
          rewrite (gtp_finish_ok y mo d h mi s ns a om V T EA Ha Rl Hns). reflexivity.
        * lia.
        * rewrite Z2Nat.id by lia. pose proof (pow10_pos (9 - nf) ltac:(lia)) as Pp.
          pose proof (pow10_split nf ltac:(lia)) as Ps. nia.
      + apply F_digits.
      + intros E. pose proof F_len as L. rewrite E in L. cbn in L. lia.
      + rewrite Ez. exact Hcd.
    - apply p19_nodot.
    - apply F_digits.
    - rewrite F_len. lia.
    - apply (zone_nodot k om z ZF).
    - rewrite Ez. exact Hcd.
  Qed.

  Lemma dec_of_Z_digit u : 0 <= u <= 9 -> dec_of_Z u = [Z.to_N (48 + u)].
  Proof.
    intros H. assert (C : u = 0 \/ u = 1 \/ u = 2 \/ u = 3 \/ u = 4 \/ u = 5 \/ u = 6 \/ u = 7 \/ u = 8 \/ u = 9) by lia.
    destruct C as [->|[->|[->|[->|[->|[->|[->|[->|[->| ->]]]]]]]]]; reflexivity.
  Qed.

  Lemma rt_nano cf : ts_parse cf lN = Ok (mkTs (mkTime a ns (60 * om)) PNano k nf).
  Proof.
    destruct (zone_head k om z ZF) as (c & r & Ez & Hcd & Hcp & _ & _).
    pose proof ntfs_nano_ok as HN.
    unfold lN at 1. rewrite ts_parse_time_P16. cbv zeta. fold lN.
    change ((c_colon =? c_z) || (c_colon =? c_Z) || (c_colon =? c_plus) || (c_colon =? c_minus))%N with false.
    cbv iota. rewrite N.eqb_refl.
    assert (El19 : lN = (P16 y mo d h mi ++ [c_colon; dg (s / 10); dg s]) ++ c_dot :: F ++ z)
      by (unfold lN; rewrite <- app_assoc; reflexivity).
    assert (El20 : lN = (P16 y mo d h mi ++ [c_colon; dg (s / 10); dg s; c_dot]) ++ F ++ z)
      by (unfold lN; rewrite <- app_assoc; reflexivity).
    assert (ElF : lN = ((P16 y mo d h mi ++ [c_colon; dg (s / 10); dg s; c_dot]) ++ F) ++ z)
      by (rewrite El20, <- app_assoc; reflexivity).
    assert (E19 : at_ lN 19 = c_dot) by (rewrite El19, at_app0 by reflexivity; reflexivity).
    assert (E20 : from lN 20 = F ++ z) by (rewrite El20, from_app by reflexivity; reflexivity).
    rewrite E19, N.eqb_refl, E20.
    rewrite count_digits_app; [|apply F_digits|rewrite Ez; exact Hcd].
    rewrite F_len. rewrite !slen_cons, slen_app, F_len.
    assert (1 <= slen z) by (rewrite Ez, slen_cons; pose proof (slen_nonneg r); lia).
    replace (17 + (1 + (1 + (1 + (nf + slen z)))) <? 20) with false by lia.
    replace (17 + (1 + (1 + (1 + (nf + slen z)))) <=? 20 + nf) with false by lia. rewrite andb_false_r.
    assert (ECT : compute_tz_kind lN (20 + nf) = Ok k).
    { rewrite ElF at 1. rewrite ctk_app.
      - apply (zone_ctk k om z ZF).
      - rewrite slen_app, F_len. reflexivity. }
    rewrite ECT. cbn [bind].
    replace (20 + nf <=? 20) with false by lia.
    destruct (20 + nf <=? 28) eqn:E28; [exact HN|].
    assert (Hn9 : nf = 9) by lia. rewrite Hn9 in HN |- *.
    (* nine digits go through roundFractionalSeconds *)
    unfold round_frac. cbv zeta.
    assert (E18 : at_ lN 18 = dg s).
    { replace lN with ((P16 y mo d h mi ++ [c_colon; dg (s / 10)]) ++ dg s :: c_dot :: F ++ z)
        by (unfold lN; rewrite <- app_assoc; reflexivity).
      rewrite at_app0 by reflexivity. reflexivity. }
    assert (EFd : sub lN 20 (20 + 9) = F).
    { rewrite El20. apply sub_app_mid; [reflexivity|rewrite F_len, Hn9; reflexivity]. }
    assert (E018 : sub lN 0 18 = P16 y mo d h mi ++ [c_colon; dg (s / 10)]).
    { replace lN with ((P16 y mo d h mi ++ [c_colon; dg (s / 10)]) ++ dg s :: c_dot :: F ++ z)
        by (unfold lN; rewrite <- app_assoc; reflexivity).
      apply sub_app_prefix. reflexivity. }
    assert (E29 : from lN (20 + 9) = z).
    { rewrite ElF. apply from_app. rewrite slen_app, F_len, Hn9. reflexivity. }
    rewrite E18, EFd, E018, E29, F_len, Hn9, dg_digit, dg_val. cbn [bind].
    assert (EFv : F = fixw 9 ns) by (unfold F; rewrite Hn9; change (10 ^ (9 - 9)) with 1; rewrite Z.div_1_r; reflexivity).
    rewrite EFv. rewrite digits_val_fixw0 by (change (10 ^ Z.of_nat 9) with 1000000000; lia).
    change (10 ^ 9) with 1000000000. unfold ten10.
    set (num := s mod 10 * 1000000000 + ns).
    assert (Er : text_round cf num 9 = num).
    { unfold text_round. change (10 ^ 9) with 1000000000. destruct (fx_tround cf).
      - unfold round_half_up. lia.
      - apply f64_fmt9_exact. unfold num. lia. }
    rewrite Er. replace (num =? 10000000000) with false by (unfold num; lia).
    replace (num / 1000000000) with (s mod 10) by (unfold num; lia).
    replace (num mod 1000000000) with ns by (unfold num; lia).
    rewrite dec_of_Z_digit by lia. fold (dg s).
    replace ((P16 y mo d h mi ++ [c_colon; dg (s / 10)]) ++ [dg s] ++ c_dot :: fixw 9 ns ++ z) with lN.
    - exact HN.
    - unfold lN. rewrite EFv, <- app_assoc. reflexivity.
  Qed.
End RoundTrip.

(* the text round trip, for every configuration (the code as pinned and with the fix patches) *)
Theorem text_roundtrip_cfg cf t : wf_ts t -> ts_parse cf (ts_format t) = Ok t.
Proof.
  intros W. destruct (wf_unpack t W) as (a & ns & om & y & mo & d & h & mi & s & WV).
  pose proof (ts_format_view t a ns om y mo d h mi s WV) as EFmt. destruct WV as [ET Hom Ha EF V T EA R Hy Hns].
  unfold wf_ts in W. rewrite EF in W. destruct W as (_ & _ & _ & _ & Hnf & Hpn & Hmod & Hp).
  destruct t as [tm p k nf]. cbn [t_time t_prec t_kind t_nfrac] in *. rewrite ET in *. clear ET tm. cbn [g_off g_nsec g_abs] in *.
  pose proof (Rl a om R) as Bl.
  rewrite EFmt. clear EFmt.
  assert (NF0 : p <> PNano -> nf = 0 /\ ns = 0).
  { intros Hne. assert (nf = 0) by (destruct (Z_lt_le_dec nf 1); [lia|exfalso; apply Hne; apply Hpn; lia]).
    split; [assumption|]. apply (nfrac_zero_nsec ns nf Hns H Hmod). }
  destruct (valid_date_ranges y mo d V) as [Hmo Hd].
  destruct p.
  - contradiction.
  - destruct Hp as (-> & Hoff & -> & -> & -> & -> & ->). destruct NF0 as [-> ->]; [discriminate|].
    rewrite Hoff in *. unfold Y4. cbn [app].
    rewrite ts_parse_year by (try apply dg_digit; rewrite D4_dg by lia; lia). rewrite D4_dg by lia.
    apply try_date_ok; [assumption|lia|assumption|cbn [rank]; lia].
  - destruct Hp as (-> & Hoff & -> & -> & -> & ->). destruct NF0 as [-> ->]; [discriminate|].
    rewrite Hoff in *. unfold Y4. cbn [app].
    rewrite ts_parse_month by (try apply dg_digit; rewrite D4_dg by lia; lia). rewrite D4_dg, D2_dg by lia.
    apply try_date_ok; [assumption|lia|assumption|cbn [rank]; lia].
  - destruct Hp as (-> & Hoff & -> & -> & ->). destruct NF0 as [-> ->]; [discriminate|].
    rewrite Hoff in *. unfold Y4. cbn [app].
    rewrite ts_parse_day by (try apply dg_digit; rewrite D4_dg by lia; lia). rewrite D4_dg, !D2_dg by lia.
    apply try_date_ok; [assumption|lia|assumption|cbn [rank]; lia].
  - destruct Hp as (Hk & ->). destruct NF0 as [-> ->]; [discriminate|].
    apply (rt_minute y mo d h mi 0 a om k _ V T EA Ha R Hy
             (zone_text_for k om Hom Hk) cf eq_refl).
  - destruct NF0 as [-> ->]; [discriminate|].
    apply (rt_second y mo d h mi s a om k _ V T EA Ha R Hy
             (zone_text_for k om Hom Hp) cf).
  - assert (Hnf1 : 1 <= nf <= 9) by (split; [apply Hpn; reflexivity|lia]).
    rewrite frac_text_eq by assumption. cbn [app].
    apply (rt_nano y mo d h mi s a om k _ V T EA Ha R Hy
             (zone_text_for k om Hom Hp) nf ns Hnf1 Hns Hmod cf).
Qed.

Theorem text_roundtrip t : wf_ts t -> ts_parse patched (ts_format t) = Ok t.
Proof. apply text_roundtrip_cfg. Qed.

(* ---- (F) the formatted text is a timestamp literal -------------------------------------------------------------------------- *)
(* F1: against the independent spellings of Text/SpellTs.v: [shape_of t] is a spelling within the
   ranges of the grammar and the calendar ([ts_ok]), its text is [ts_format t] and the eleven numbers
   it denotes are the fields of [t] *)
Definition off_of (k : tzkind) (om : Z) : SpellTs.ts_off :=
  match k with
  | KUTC => SpellTs.OffZ
  | KUnspec => SpellTs.OffMinus 0 0
  | KLocal =>
    if om <? 0 then SpellTs.OffMinus (Z.to_N (Z.abs om / 60)) (Z.to_N (Z.abs om mod 60))
    else SpellTs.OffPlus (Z.to_N (Z.abs om / 60)) (Z.to_N (Z.abs om mod 60))
  end.
Definition fd_of (nf ns : Z) : list N :=
  map (fun c => (c - 48)%N) (fixw (Z.to_nat nf) (ns / 10 ^ (9 - nf))).
Definition shape_of (t : ts) : SpellTs.ts_shape :=
  let '(y, mo, d, h, mi, s) := go_fields (t_time t) in
  let n := Z.to_N in
  let o := off_of (t_kind t) (Z.quot (g_off (t_time t)) 60) in
  match t_prec t with
  | PYear => SpellTs.TsYear (n y)
  | PMonth => SpellTs.TsMonth (n y) (n mo)
  | PDay => SpellTs.TsDay (n y) (n mo) (n d) true
  | PMinute => SpellTs.TsMinute (n y) (n mo) (n d) (n h) (n mi) o
  | PSecond => SpellTs.TsSecond (n y) (n mo) (n d) (n h) (n mi) (n s) o
  | PNano => SpellTs.TsFrac (n y) (n mo) (n d) (n h) (n mi) (n s) (fd_of (t_nfrac t) (g_nsec (t_time t))) o
  | PNone => SpellTs.TsYear 0
  end.

Lemma d2_dg x : 0 <= x < 100 -> SpellTs.d2 (Z.to_N x) = [dg (x / 10); dg x].
Proof. intros H. unfold SpellTs.d2, dg. f_equal; [lia|f_equal; lia]. Qed.
Lemma d4_dg y : 0 <= y < 10000 -> SpellTs.d4 (Z.to_N y) = Y4 y.
Proof.
  intros H. unfold SpellTs.d4, Y4.
  replace (Z.to_N y / 100)%N with (Z.to_N (y / 100)) by lia.
  replace (Z.to_N y mod 100)%N with (Z.to_N (y mod 100)) by lia.
  rewrite !d2_dg by lia. cbn [app]. unfold dg.
  f_equal; [lia|]. f_equal; [lia|]. f_equal; [lia|]. f_equal; lia.
Qed.

Lemma off_of_spec k om : -1440 < om < 1440 -> (k = KLocal <-> 60 * om <> 0) ->
  SpellTs.off_text (off_of k om) = zone_text k (60 * om) /\ SpellTs.off_ok (off_of k om) = true /\
  SpellTs.off_fields (off_of k om) = (om, kind_code k).
Proof.
  intros Hom Hk. destruct (Z.eq_dec om 0) as [->|Hne].
  - assert (k <> KLocal) by (intros E; apply Hk in E; lia).
    destruct k; [| |congruence]; repeat split; reflexivity.
  - assert (Ek : k = KLocal) by (apply Hk; lia). subst k.
    unfold zone_text, fmt_zone_iso. replace (60 * om =? 0) with false by lia. rewrite fmt_zone_num_eq by exact Hom.
    unfold off_of. destruct (om <? 0) eqn:E; cbn [SpellTs.off_text SpellTs.off_ok SpellTs.off_fields kind_code].
    + rewrite !d2_dg by lia. repeat split; [lia|].
      replace ((Z.to_N (Z.abs om / 60) =? 0) && (Z.to_N (Z.abs om mod 60) =? 0))%N with false by lia.
      f_equal. lia.
    + rewrite !d2_dg by lia. repeat split; [lia|].
      replace ((Z.to_N (Z.abs om / 60) =? 0) && (Z.to_N (Z.abs om mod 60) =? 0))%N with false by lia.
      f_equal. lia.
Qed.

Lemma month_len_eq y m : SpecText.month_len y m = days_in_month y m.
Proof. reflexivity. Qed.

Lemma date_wf_of y mo d : valid_date y mo d = true -> 1 <= y <= 9999 ->
  SpellTs.date_wf (Z.to_N y) (Z.to_N mo) (Z.to_N d) = true.
Proof.
  intros V Hy. destruct (valid_date_ranges y mo d V) as [Hmo Hd]. unfold valid_date in V.
  unfold SpellTs.date_wf, SpellTs.year_ok, SpellTs.month_ok. rewrite month_len_eq, !Z2N.id by lia. lia.
Qed.

(* digit values of a fixw string *)
Lemma digs_fd_of l : all_digits l = true -> SpellTs.digs (map (fun c => (c - 48)%N) l) = l.
Proof.
  induction l as [|c r IH]; intros H; [reflexivity|]. cbn [all_digits] in H. apply andb_true_iff in H as [Hc Hr].
  cbn [map SpellTs.digs]. fold (SpellTs.digs (map (fun c => (c - 48)%N) r)). rewrite (IH Hr).
  f_equal. apply digit_range in Hc. lia.
Qed.
Lemma forallb_fd_of l : all_digits l = true -> forallb (fun d => (d <=? 9)%N) (map (fun c => (c - 48)%N) l) = true.
Proof.
  induction l as [|c r IH]; intros H; [reflexivity|]. cbn [all_digits] in H. apply andb_true_iff in H as [Hc Hr].
  cbn [map forallb]. rewrite (IH Hr). apply digit_range in Hc. lia.
Qed.
Lemma dval_fd_of l acc : all_digits l = true ->
  Some (fold_left (fun a d => a * 10 + Z.of_N d) (map (fun c => (c - 48)%N) l) acc) = digits_val l acc.
Proof.
  revert acc. induction l as [|c r IH]; intros acc H; [reflexivity|]. cbn [all_digits] in H.
  apply andb_true_iff in H as [Hc Hr]. cbn [map fold_left digits_val]. rewrite Hc, (IH _ Hr).
  f_equal. unfold dval. apply digit_range in Hc. lia.
Qed.

Theorem shape_of_spec t : wf_ts t ->
  SpellTs.ts_ok (shape_of t) = true /\ SpellTs.ts_text (shape_of t) = ts_format t /\
  SpellTs.ts_fields (shape_of t) = ts_fields t.
Proof.
  intros W. destruct (wf_unpack t W) as (a & ns & om & y & mo & d & h & mi & s & WV).
  pose proof (ts_format_view t a ns om y mo d h mi s WV) as EFmt.
  destruct WV as [ET Hom Ha EF V T EA R Hy Hns].
  unfold wf_ts in W. rewrite EF in W. destruct W as (_ & _ & _ & _ & Hnf & Hpn & Hmod & Hp).
  unfold shape_of, ts_fields. rewrite EF, EFmt. clear EFmt.
  destruct t as [tm p k nf]. cbn [t_time t_prec t_kind t_nfrac] in *. rewrite ET in *. clear ET tm.
  cbn [g_off g_nsec g_abs] in *. rewrite quot_60.
  assert (NF0 : p <> PNano -> nf = 0 /\ ns = 0).
  { intros Hne. assert (nf = 0) by (destruct (Z_lt_le_dec nf 1); [lia|exfalso; apply Hne; apply Hpn; lia]).
    split; [assumption|]. apply (nfrac_zero_nsec ns nf Hns H Hmod). }
  destruct (valid_date_ranges y mo d V) as [Hmo Hd]. pose proof T as (Hh & Hmi & Hs).
  pose proof (date_wf_of y mo d V Hy) as DW.
  assert (YO : SpellTs.year_ok (Z.to_N y) = true) by (unfold SpellTs.year_ok; lia).
  assert (MO : SpellTs.month_ok (Z.to_N mo) = true) by (unfold SpellTs.month_ok; lia).
  assert (TO : SpellTs.time_ok (Z.to_N h) (Z.to_N mi) = true) by (unfold SpellTs.time_ok; lia).
  assert (SO : (Z.to_N s <? 60)%N = true) by lia.
  destruct p.
  - contradiction.
  - destruct Hp as (-> & Hoff & -> & -> & -> & -> & ->). destruct NF0 as [-> ->]; [discriminate|].
    assert (om = 0) by lia. subst om.
    cbn [SpellTs.ts_ok SpellTs.ts_text SpellTs.ts_fields kind_code rank]. rewrite d4_dg, Z2N.id by lia. auto.
  - destruct Hp as (-> & Hoff & -> & -> & -> & ->). destruct NF0 as [-> ->]; [discriminate|].
    assert (om = 0) by lia. subst om.
    cbn [SpellTs.ts_ok SpellTs.ts_text SpellTs.ts_fields kind_code rank].
    rewrite d4_dg, d2_dg, !Z2N.id, YO, MO by lia. auto.
  - destruct Hp as (-> & Hoff & -> & -> & ->). destruct NF0 as [-> ->]; [discriminate|].
    assert (om = 0) by lia. subst om.
    cbn [SpellTs.ts_ok SpellTs.ts_text SpellTs.ts_fields kind_code rank]. unfold SpellTs.date_text.
    rewrite d4_dg, !d2_dg, !Z2N.id, DW by lia. auto.
  - destruct Hp as (Hk & ->). destruct NF0 as [-> ->]; [discriminate|].
    destruct (off_of_spec k om Hom Hk) as (OT & OO & OF).
    cbn [SpellTs.ts_ok SpellTs.ts_text SpellTs.ts_fields rank]. unfold SpellTs.date_text.
    rewrite OT, OO, OF, DW, TO, d4_dg, !d2_dg, !Z2N.id by lia. auto.
  - destruct NF0 as [-> ->]; [discriminate|].
    destruct (off_of_spec k om Hom Hp) as (OT & OO & OF).
    cbn [SpellTs.ts_ok SpellTs.ts_text SpellTs.ts_fields rank]. unfold SpellTs.date_text.
    rewrite OT, OO, OF, DW, TO, SO, d4_dg, !d2_dg, !Z2N.id by lia. auto.
  - assert (Hnf1 : 1 <= nf <= 9) by (split; [apply Hpn; reflexivity|lia]).
    destruct (off_of_spec k om Hom Hp) as (OT & OO & OF).
    rewrite frac_text_eq by assumption.
    cbn [SpellTs.ts_ok SpellTs.ts_text SpellTs.ts_fields rank]. unfold SpellTs.date_text.
    set (F := fixw (Z.to_nat nf) (ns / 10 ^ (9 - nf))).
    assert (FD : all_digits F = true) by apply all_digits_fixw.
    assert (FL : length (fd_of nf ns) = Z.to_nat nf) by (unfold fd_of; rewrite map_length; apply fixw_length).
    assert (Efd : fd_of nf ns = map (fun c => (c - 48)%N) F) by reflexivity.
    pose proof (pow10_pos (9 - nf) ltac:(lia)) as Pp. pose proof (pow10_split nf ltac:(lia)) as Ps.
    assert (EV : SpellTs.dval (fd_of nf ns) = ns / 10 ^ (9 - nf)).
    { pose proof (dval_fd_of F 0 FD) as DV. unfold F in DV at 2.
      rewrite digits_val_fixw0 in DV by (rewrite Z2Nat.id by lia; nia). injection DV as DV.
      unfold SpellTs.dval. rewrite Efd. exact DV. }
    assert (EN : SpellTs.frac_ns (fd_of nf ns) = ns).
    { unfold SpellTs.frac_ns. rewrite FL. replace (Z.to_nat nf <=? 9)%nat with true by lia.
      rewrite EV, Z2Nat.id by lia. lia. }
    assert (FO : SpellTs.frac_ok (fd_of nf ns) = true).
    { unfold SpellTs.frac_ok. rewrite Efd. rewrite forallb_fd_of by exact FD.
      destruct F eqn:E; [|reflexivity]. unfold fd_of in FL. rewrite map_length in FL. fold F in FL. rewrite E in FL.
      cbn in FL. lia. }
    rewrite OT, OO, OF, DW, TO, SO, FO, EN, FL, d4_dg, !d2_dg, !Z2N.id by lia.
    replace (ns =? 1000000000) with false by lia.
    rewrite Efd, digs_fd_of by exact FD.
    replace (Z.of_nat (Nat.min (Z.to_nat nf) 9)) with nf by lia.
    repeat split; reflexivity.
Qed.

(* consequence (Text/SpellTs.spec_timestamp_spelling): the specification decoder of Text/SpecText.v accepts
   the formatted text wherever a number may end *)
Corollary spec_accepts_format t rest : wf_ts t -> SpecText.num_end rest = true ->
  SpecText.p_timestamp (ts_format t ++ rest) = Some (SpellTs.spec_value (shape_of t), rest).
Proof.
  intros W Hr. destruct (shape_of_spec t W) as (Hok & Htx & _). rewrite <- Htx.
  apply SpellTs.spec_timestamp_spelling; assumption.
Qed.

(* F2: against the boolean grammar [is_ts_literal] of Timestamp.v *)
Lemma lit_P16 y mo d h mi v : valid_date y mo d = true -> 1 <= y <= 9999 -> 0 <= h < 24 -> 0 <= mi < 60 ->
  is_ts_literal (P16 y mo d h mi ++ v) = lit_time_tail v.
Proof.
  intros V Hy Hh Hmi. destruct (valid_date_ranges y mo d V) as [Hmo Hd]. unfold valid_date in V.
  unfold is_ts_literal, P16, dt16. cbn [app].
  rewrite year4_ok by apply dg_digit. rewrite D4_dg by lia. replace (1 <=? y) with true by lia.
  rewrite N.eqb_refl. rewrite two_digits_ok by apply dg_digit. rewrite D2_dg by lia.
  replace ((1 <=? mo) && (mo <=? 12)) with true by lia.
  rewrite N.eqb_refl. rewrite two_digits_ok by apply dg_digit. rewrite D2_dg by lia.
  replace ((1 <=? d) && (d <=? days_in_month y mo)) with true by lia.
  rewrite N.eqb_refl. rewrite two_digits_ok by apply dg_digit. rewrite D2_dg by lia.
  replace (h <=? 23) with true by lia. rewrite N.eqb_refl.
  rewrite two_digits_ok by apply dg_digit. rewrite D2_dg by lia.
  replace (mi <=? 59) with true by lia. reflexivity.
Qed.

Theorem format_is_literal t : wf_ts t -> is_ts_literal (ts_format t) = true.
Proof.
  intros W. destruct (wf_unpack t W) as (a & ns & om & y & mo & d & h & mi & s & WV).
  pose proof (ts_format_view t a ns om y mo d h mi s WV) as EFmt.
  destruct WV as [ET Hom Ha EF V T EA R Hy Hns].
  unfold wf_ts in W. rewrite EF in W. destruct W as (_ & _ & _ & _ & Hnf & Hpn & Hmod & Hp).
  rewrite EFmt. clear EFmt.
  destruct t as [tm p k nf]. cbn [t_time t_prec t_kind t_nfrac] in *. rewrite ET in *. clear ET tm.
  cbn [g_off g_nsec g_abs] in *.
  destruct (valid_date_ranges y mo d V) as [Hmo Hd]. pose proof T as (Hh & Hmi & Hs).
  pose proof V as V'. unfold valid_date in V'.
  destruct p.
  - contradiction.
  - unfold is_ts_literal, Y4. cbn [app]. rewrite year4_ok by apply dg_digit. rewrite D4_dg by lia.
    replace (1 <=? y) with true by lia. reflexivity.
  - unfold is_ts_literal, Y4. cbn [app]. rewrite year4_ok by apply dg_digit. rewrite D4_dg by lia.
    replace (1 <=? y) with true by lia. rewrite N.eqb_refl. rewrite two_digits_ok by apply dg_digit. rewrite D2_dg by lia.
    replace ((1 <=? mo) && (mo <=? 12)) with true by lia. reflexivity.
  - unfold is_ts_literal, Y4. cbn [app]. rewrite year4_ok by apply dg_digit. rewrite D4_dg by lia.
    replace (1 <=? y) with true by lia. rewrite N.eqb_refl. rewrite two_digits_ok by apply dg_digit. rewrite D2_dg by lia.
    replace ((1 <=? mo) && (mo <=? 12)) with true by lia.
    rewrite N.eqb_refl. rewrite two_digits_ok by apply dg_digit. rewrite D2_dg by lia.
    replace ((1 <=? d) && (d <=? days_in_month y mo)) with true by lia. reflexivity.
  - destruct Hp as (Hk & _). pose proof (zone_text_for k om Hom Hk) as ZF.
    rewrite lit_P16 by assumption.
    destruct (zone_head _ _ _ ZF) as (c & r & Ez & _ & _ & Hcc & _). rewrite Ez. unfold lit_time_tail. rewrite Hcc.
    rewrite <- Ez. apply (zone_lit _ _ _ ZF).
  - pose proof (zone_text_for k om Hom Hp) as ZF.
    rewrite lit_P16 by assumption. unfold lit_time_tail. rewrite N.eqb_refl.
    rewrite two_digits_ok by apply dg_digit. rewrite D2_dg by lia. replace (s <=? 59) with true by lia.
    destruct (zone_head _ _ _ ZF) as (c & r & Ez & _ & Hcp & _ & _). rewrite Ez.
    assert (Ecd : (c =? c_dot)%N = false).
    { unfold comma_or_period in Hcp. apply orb_false_iff in Hcp. tauto. }
    rewrite Ecd. rewrite <- Ez. apply (zone_lit _ _ _ ZF).
  - assert (Hnf1 : 1 <= nf <= 9) by (split; [apply Hpn; reflexivity|lia]).
    pose proof (zone_text_for k om Hom Hp) as ZF.
    rewrite frac_text_eq by assumption. cbn [app].
    rewrite lit_P16 by assumption. unfold lit_time_tail. rewrite N.eqb_refl.
    rewrite two_digits_ok by apply dg_digit. rewrite D2_dg by lia. replace (s <=? 59) with true by lia.
    rewrite N.eqb_refl. cbn [andb].
    destruct (zone_head _ _ _ ZF) as (c & r & Ez & Hcd & _ & _ & _).
    rewrite take_digits_app; [|apply all_digits_fixw|rewrite Ez; exact Hcd].
    destruct (fixw (Z.to_nat nf) (ns / 10 ^ (9 - nf))) eqn:E.
    + pose proof (fixw_length (Z.to_nat nf) (ns / 10 ^ (9 - nf))) as L. rewrite E in L. cbn in L. lia.
    + apply (zone_lit _ _ _ ZF).
Qed.

(* the existential form used by Props/C15text.v *)
Theorem text_valid_literal t : wf_ts t ->
  exists sh, SpellTs.ts_ok sh = true /\ SpellTs.ts_text sh = ts_format t /\ SpellTs.ts_fields sh = ts_fields t.
Proof. intros W. exists (shape_of t). apply shape_of_spec. exact W. Qed.

Theorem spec_accepts_format_ex t rest : wf_ts t -> SpecText.num_end rest = true ->
  exists v, SpecText.p_timestamp (ts_format t ++ rest) = Some (v, rest).
Proof. intros W Hr. eexists. apply spec_accepts_format; assumption. Qed.

(* outside the quantifier: nanosecond precision with ZERO fraction digits is printed as second precision
   (and therefore read back as second precision); [wf_ts] excludes it, as it does for the binary round trip *)
Lemma format_nano0 tm k : ts_format (mkTs tm PNano k 0) = ts_format (mkTs tm PSecond k 0).
Proof.
  unfold ts_format. cbn [t_time t_prec t_kind t_nfrac].
  destruct (go_fields tm) as [[[[[y mo] d] h] mi] s]. reflexivity.
Qed.

(* ---- examples -------------------------------------------------------------------------------------------------------------------- *)
(* 9999-12-31T23:59:59.999999990-23:59: nine fraction digits with a trailing zero (the roundFractionalSeconds
   path), a negative offset that moves the UTC instant into the year 10000 *)
Definition ex_ts4 : ts := mkTs (go_date_in 9999 12 31 23 59 59 999999990 (-86340)) PNano KLocal 9.
(* 2000-03-01T00:00-00:00: minute precision, unknown offset *)
Definition ex_ts5 : ts := mkTs (go_date_in 2000 3 1 0 0 0 0 0) PMinute KUnspec 0.

Lemma ex_ts4_wf : wf_ts ex_ts4.
Proof.
  unfold wf_ts. vm_compute go_fields. cbv iota beta. vm_compute t_time. cbn [g_abs g_off g_nsec t_prec t_nfrac t_kind].
  repeat split; try (vm_compute; congruence); try lia.
  exists (-1439). lia.
Qed.
Lemma ex_ts5_wf : wf_ts ex_ts5.
Proof.
  unfold wf_ts. vm_compute go_fields. cbv iota beta. vm_compute t_time. cbn [g_abs g_off g_nsec t_prec t_nfrac t_kind].
  repeat split; try (vm_compute; congruence); try lia.
  exists 0. lia.
Qed.
Import String. Local Open Scope string_scope.
Lemma ex_ts45_text :
  ts_format ex_ts4 = bytes_of_string "9999-12-31T23:59:59.999999990-23:59" /\
  ts_format ex_ts5 = bytes_of_string "2000-03-01T00:00-00:00".
Proof. vm_compute. split; reflexivity. Qed.
