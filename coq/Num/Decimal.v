(* Decimal.v — executable model of ion/decimal.go.

   Decimal{n *big.Int, scale int32, isNegZero bool} is the record [dec]; the
   coefficient is an unbounded [Z], the scale is a [Z] that every operation keeps
   inside int32 by an explicit [wrap32] wherever Go converts/negates an int32.
   Go's [int] is the 64-bit int ([wrap64] where an int expression could wrap).

   Text: a Go string is a [list N] of bytes.  big.Int.String and fmt "%d" are
   [zstr] (= Wire.dec_of_Z: '-' then the decimal digits without leading zeros,
   "0" for zero).  big.Int.SetString(s,10) and strconv.ParseInt(s,10,bits) are
   [set_string] / [parse_int]: both accept exactly [+-]?[0-9]+ (underscores are
   accepted by Go only for base 0), ParseInt additionally range-checks.
   strings.IndexAny(in,"Dd") / strings.Index(in,".") followed by the two slices
   in[:d], in[d+1:] are [split_first].

   What is left out: Decimal.round (float64 arithmetic: float64(n.Int64()) /
   math.Pow10 / math.Round) and the error *messages*.  No proofs in this file. *)
From Coq Require Import List NArith ZArith Bool QArith.
From IonV Require Import Base.Wire.
Import ListNotations.
Open Scope Z_scope.

(* ---- machine integers ------------------------------------------------------ *)
Definition min_i32 : Z := -2147483648.
Definition max_i32 : Z := 2147483647.
Definition two31 : Z := 2147483648.
Definition two32 : Z := 4294967296.
Definition two63z : Z := 9223372036854775808.
Definition two64z : Z := 18446744073709551616.
(* the int32 / int64 value of the mathematical integer z after Go's wrap-around *)
Definition wrap32 (z : Z) : Z := (z + two31) mod two32 - two31.
Definition wrap64 (z : Z) : Z := (z + two63z) mod two64z - two63z.
Definition in_i32 (z : Z) : bool := (min_i32 <=? z) && (z <=? max_i32).
Definition in_i64 (z : Z) : bool := (- two63z <=? z) && (z <? two63z).

(* ---- digit strings ----------------------------------------------------------- *)
Definition is_digit (c : N) : bool := ((48 <=? c) && (c <=? 57))%N.
Fixpoint all_digits (l : list N) : bool :=
  match l with
  | [] => true
  | c :: r => is_digit c && all_digits r
  end.
(* Horner evaluation of a digit string *)
Fixpoint val_digits (l : list N) (acc : N) : N :=
  match l with
  | [] => acc
  | c :: r => val_digits r (acc * 10 + (c - 48))%N
  end.

(* big.Int.String(), fmt.Sprintf("%d", int) *)
Definition zstr (z : Z) : list N := dec_of_Z z.

(* [+-]?[0-9]+ : the language of big.Int.SetString(s, 10) and of
   strconv.ParseInt(s, 10, bits) (before its range check) *)
Definition scan_int (l : list N) : option Z :=
  let '(neg, ds) :=
    match l with
    | c :: r => if (c =? 45)%N then (true, r) else if (c =? 43)%N then (false, r) else (false, l)
    | [] => (false, l)
    end in
  match ds with
  | [] => None
  | _ => if all_digits ds
         then Some (let v := Z.of_N (val_digits ds 0) in if neg then - v else v)
         else None
  end.
Definition set_string (l : list N) : option Z := scan_int l.
Definition parse_int (bits : Z) (l : list N) : option Z :=
  match scan_int l with
  | Some v => if (- 2 ^ (bits - 1) <=? v) && (v <? 2 ^ (bits - 1)) then Some v else None
  | None => None
  end.

(* d := strings.Index...(in); in[:d], in[d+1:]  (None when d == -1) *)
Fixpoint split_first (p : N -> bool) (l : list N) : option (list N * list N) :=
  match l with
  | [] => None
  | c :: r =>
    if p c then Some ([], r)
    else match split_first p r with
         | Some (a, b) => Some (c :: a, b)
         | None => None
         end
  end.
Definition is_dD (c : N) : bool := ((c =? 68) || (c =? 100))%N.
Definition is_dot (c : N) : bool := (c =? 46)%N.
Definition starts_minus (l : list N) : bool :=
  match l with
  | c :: _ => (c =? 45)%N
  | [] => false
  end.
Definition zlen (l : list N) : Z := Z.of_nat (length l).

(* ---- the type ------------------------------------------------------------------ *)
Record dec := { d_n : Z; d_scale : Z; d_negzero : bool }.

(* NewDecimal(n, exp int32, negZero): scale: -exp  (int32 negation wraps at MinInt32);
   isNegZero: negZero && n != nil && n.Sign() == 0  (the flag is ignored on a non-zero
   coefficient; a nil coefficient has no counterpart in the model) *)
Definition new_decimal (n exp : Z) (nz : bool) : dec :=
  {| d_n := n; d_scale := wrap32 (- exp); d_negzero := nz && (n =? 0) |}.
(* CoEx() : (d.n, -d.scale) *)
Definition coex_exp (d : dec) : Z := wrap32 (- d_scale d).

(* the number a Decimal stands for in all arithmetic: n * 10^(-scale) *)
Definition dec_val (d : dec) : Q := inject_Z (d_n d) * Qpower (10 # 1) (- d_scale d).

(* invariants: the scale is an int32; the negative-zero flag is only set on a zero *)
Definition dec_i32 (d : dec) : Prop := min_i32 <= d_scale d <= max_i32.
Definition dec_wf (d : dec) : Prop := dec_i32 d /\ (d_negzero d = true -> d_n d = 0).

(* ---- arithmetic ----------------------------------------------------------------- *)
Definition mk (n scale : Z) : dec := {| d_n := n; d_scale := scale; d_negzero := false |}.

Definition abs (d : dec) : dec := mk (Z.abs (d_n d)) (d_scale d).
Definition neg (d : dec) : dec := mk (- d_n d) (d_scale d).

(* upscale(scale int32): diff is an int64 difference of two int32s, cannot wrap *)
Definition upscale (d : dec) (scale : Z) : res dec :=
  let diff := scale - d_scale d in
  if diff <? 0 then Panic
  else Ok (mk (d_n d * 10 ^ diff) scale).

Definition rescale (a b : dec) : res (dec * dec) :=
  if d_scale a <? d_scale b then do a' <- upscale a (d_scale b); Ok (a', b)
  else if d_scale a >? d_scale b then do b' <- upscale b (d_scale a); Ok (a, b')
  else Ok (a, b).

Definition add (a b : dec) : res dec :=
  do '(dd, oo) <- rescale a b; Ok (mk (d_n dd + d_n oo) (d_scale dd)).
Definition sub (a b : dec) : res dec :=
  do '(dd, oo) <- rescale a b; Ok (mk (d_n dd - d_n oo) (d_scale dd)).

(* Mul: int64(d.scale) + int64(o.scale) cannot wrap *)
Definition mul (a b : dec) : res dec :=
  let scale := d_scale a + d_scale b in
  if (scale >? max_i32) || (scale <? min_i32) then Panic
  else Ok (mk (d_n a * d_n b) (wrap32 scale)).

(* ShiftL/ShiftR(shift int): int64(d.scale) -/+ int64(shift) can wrap in int64 *)
Definition shiftl (d : dec) (shift : Z) : res dec :=
  let scale := wrap64 (d_scale d - shift) in
  if (scale >? max_i32) || (scale <? min_i32) then Panic
  else Ok (mk (d_n d) (wrap32 scale)).
Definition shiftr (d : dec) (shift : Z) : res dec :=
  let scale := wrap64 (d_scale d + shift) in
  if (scale >? max_i32) || (scale <? min_i32) then Panic
  else Ok (mk (d_n d) (wrap32 scale)).

Definition sign (d : dec) : Z := Z.sgn (d_n d).
Definition cmp (a b : dec) : res Z :=
  do '(dd, oo) <- rescale a b;
  Ok (match d_n dd ?= d_n oo with Lt => -1 | Eq => 0 | Gt => 1 end).
Definition equal (a b : dec) : res bool :=
  do c <- cmp a b; Ok (c =? 0).

(* ---- Truncate(precision int) ------------------------------------------------------ *)
Definition truncate (d : dec) (precision : Z) : res dec :=
  if precision <=? 0 then Panic else
  let str := zstr (d_n d) in
  let precision := if starts_minus str then wrap64 (precision + 1) else precision in
  let diff := wrap64 (zlen str - precision) in
  if diff <=? 0 then Ok d else
  match set_string (firstn (Z.to_nat precision) str) with
  | None => Panic
  | Some n =>
    let scale := d_scale d - diff in
    if scale <? min_i32 then Panic else Ok (mk n (wrap32 scale))
  end.

(* ---- checkToUpscale / trunc (internal; used by the timestamp reader) ------------- *)
Definition check_to_upscale (d : dec) : res dec :=
  if d_scale d <? 0 then
    if d_scale d <? -20 then Err else upscale d 0
  else Ok d.
Definition trunc (d : dec) : res Z :=
  do ud <- check_to_upscale d;
  let str := zstr (d_n ud) in
  let truncate_to := zlen str - d_scale ud in
  if truncate_to <=? 0 then Ok 0 else
  match parse_int 64 (firstn (Z.to_nat truncate_to) str) with
  | Some v => Ok v
  | None => Err
  end.

(* ---- String() ------------------------------------------------------------------------ *)
Definition c_dot : N := 46%N.
Definition c_d : N := 100%N.
Definition neg_zero_str : list N := [45; 48]%N.

Definition dec_format (d : dec) : list N :=
  let sc := d_scale d in
  if sc =? 0 then
    (if d_negzero d then neg_zero_str else zstr (d_n d)) ++ [c_dot]
  else if sc <? 0 then
    (if d_negzero d then neg_zero_str else zstr (d_n d)) ++ c_d :: zstr (wrap32 (- sc))
  else
    let str := if d_negzero d then neg_zero_str else zstr (d_n d) in
    let idx := zlen str - sc in
    let prefix := if starts_minus str then 2 else 1 in
    if idx >=? prefix then
      firstn (Z.to_nat idx) str ++ c_dot :: skipn (Z.to_nat idx) str
    else
      firstn (Z.to_nat prefix) str
      ++ (if zlen str >? prefix then c_dot :: skipn (Z.to_nat prefix) str else [])
      ++ c_d :: zstr (idx - prefix).

(* ---- ParseDecimal ----------------------------------------------------------------------- *)
(* exponent is an int64: tmp comes from ParseInt(exp, 10, 64) (a written exponent beyond int64
   is an error); exponent -= int64(len(fpart)) (an int64 subtraction); then, with or without a
   fraction part, "if exponent < math.MinInt32 || exponent > math.MaxInt32 { return error }":
   the range check is on the exponent of the value, not on the written one.  The final
   int32(exponent) conversion is written as wrap32. *)
Definition dec_parse (inp : list N) : res dec :=
  match inp with
  | [] => Err
  | _ =>
    do '(exponent, inp1) <-
      match split_first is_dD inp with
      | Some (m, e) =>
        match e with
        | [] => Err
        | _ => match parse_int 64 e with
               | Some tmp => Ok (tmp, m)
               | None => Err
               end
        end
      | None => Ok (0, inp)
      end;
    let '(exponent2, inp2) :=
      match split_first is_dot inp1 with
      | Some (ipart, fpart) => (wrap64 (exponent - wrap64 (zlen fpart)), ipart ++ fpart)
      | None => (exponent, inp1)
      end in
    if (exponent2 <? min_i32) || (exponent2 >? max_i32) then Err else
    match set_string inp2 with
    | None => Err
    | Some n =>
      let is_neg_zero := (n =? 0) && starts_minus inp2 in
      Ok (new_decimal n (wrap32 exponent2) is_neg_zero)
    end
  end.

(* ---- the Ion text grammar of decimals (spec side, from the Ion 1.0 grammar) --------
   DECIMAL          : DEC_INTEGER DEC_FRAC | DEC_INTEGER DEC_FRAC? DECIMAL_EXP
   DEC_INTEGER      : '-'? DEC_UNSIGNED_INTEGER
   DEC_UNSIGNED_INT : '0' | [1-9] ('_'? DEC_DIGIT)*
   DEC_FRAC         : '.' | '.' DEC_DIGIT ('_'? DEC_DIGIT)*
   DECIMAL_EXP      : [Dd] [+-]? DEC_DIGIT+                                              *)
Fixpoint digs_tail (l : list N) : bool :=           (* ('_'? DEC_DIGIT)* *)
  match l with
  | [] => true
  | c :: r =>
    if is_digit c then digs_tail r
    else if (c =? 95)%N then
      match r with
      | c2 :: r' => is_digit c2 && digs_tail r'
      | [] => false
      end
    else false
  end.
Definition dec_unsigned (l : list N) : bool :=
  match l with
  | [] => false
  | c :: r => if (c =? 48)%N then (match r with [] => true | _ => false end)
              else is_digit c && digs_tail r
  end.
Definition dec_frac_digits (l : list N) : bool :=
  match l with
  | [] => true
  | c :: r => is_digit c && digs_tail r
  end.
Definition dec_exp_ok (l : list N) : bool :=
  let ds := match l with
            | c :: r => if ((c =? 43) || (c =? 45))%N then r else l
            | [] => l
            end in
  match ds with
  | [] => false
  | _ => all_digits ds
  end.
Definition is_decimal_literal (l : list N) : bool :=
  let '(mant, ex) := match split_first is_dD l with
                     | Some (m, e) => (m, Some e)
                     | None => (l, None)
                     end in
  let '(ip, fr) := match split_first is_dot mant with
                   | Some (i, f) => (i, Some f)
                   | None => (mant, None)
                   end in
  let ip' := match ip with
             | c :: r => if (c =? 45)%N then r else ip
             | [] => ip
             end in
  dec_unsigned ip'
  && match fr with Some f => dec_frac_digits f | None => true end
  && match ex with Some e => dec_exp_ok e | None => true end
  && match fr, ex with None, None => false | _, _ => true end.
