(* Timestamp.v — executable model of ion/timestamp.go (constructors, String,
   ParseTimestamp and helpers), of the timestamp parts of ion/bits.go
   (timestampLen, appendTimestamp), ion/binarywriter.go (WriteTimestamp),
   ion/bitstream.go (ReadTimestamp, readNsecs, readDecimal) and of the Decimal
   helpers readNsecs uses (ShiftL, checkToUpscale, trunc, round).

   time.Format / time.Parse are modelled for the layouts the code builds:
   fixed-width decimal fields, an optional ".999…" fraction and the two zone
   forms "Z07:00" and "-07:00".  float64 arithmetic (ParseFloat, %.9f, the
   division in Decimal.round) is modelled exactly: a float is a dyadic
   rational (numerator, power-of-two denominator) and every operation rounds
   the exact rational result to 53 significant bits, ties to even.

   [cfg] selects between the pinned code and the code with the fix patches
   fix_ts_fields / fix_ts_exponent / fix_ts_round / fix_ts_textround /
   fix_ts_parse_bounds / fix_ts_sign applied.
   Characters and bytes are [N]; Go ints are [Z].  No proofs in this file. *)
From Coq Require Import List NArith ZArith Bool.
From IonV Require Import Base.Wire Bin.Bits Num.Calendar.
Import ListNotations.
Open Scope Z_scope.

(* ---- configuration ---------------------------------------------------------------- *)
Record cfg := mkCfg {
  fx_fields : bool;   (* binary: range-check hour/minute/second and the (local) year *)
  fx_exp : bool;      (* binary: range-check the fraction exponent before ShiftL *)
  fx_bround : bool;   (* binary: integer rounding in Decimal.round *)
  fx_tround : bool;   (* text: integer rounding in roundFractionalSeconds *)
  fx_tbounds : bool;  (* text: fraction digits that run to the end of the string are an error, not a panic *)
  fx_tsign : bool     (* text: the year, month and day fields are decimal digits only (no sign) *)
}.
Definition pinned : cfg := mkCfg false false false false false false.
Definition patched : cfg := mkCfg true true true true true true.

(* ---- the Timestamp struct --------------------------------------------------------------- *)
Inductive tzkind := KUnspec | KUTC | KLocal.
Inductive tprec := PNone | PYear | PMonth | PDay | PMinute | PSecond | PNano.

Definition rank (p : tprec) : Z :=
  match p with PNone => 0 | PYear => 1 | PMonth => 2 | PDay => 3 | PMinute => 4 | PSecond => 5 | PNano => 6 end.
Definition prec_of_rank (r : Z) : tprec :=
  if r =? 1 then PYear else if r =? 2 then PMonth else if r =? 3 then PDay
  else if r =? 4 then PMinute else if r =? 5 then PSecond else if r =? 6 then PNano else PNone.
Definition kind_code (k : tzkind) : Z := match k with KUnspec => 0 | KUTC => 1 | KLocal => 2 end.
Definition kind_of_code (c : Z) : tzkind := if c =? 1 then KUTC else if c =? 2 then KLocal else KUnspec.

Record ts := mkTs { t_time : gotime; t_prec : tprec; t_kind : tzkind; t_nfrac : Z }.

(* NewDateTimestamp *)
Definition new_date_ts (t : gotime) (p : tprec) : ts :=
  mkTs t p KUnspec (if 6 <=? rank p then 9 else 0).
(* NewTimestamp *)
Definition new_ts (t : gotime) (p : tprec) (k : tzkind) : ts :=
  if rank p <=? 3 then mkTs t p KUnspec 0
  else mkTs t p k (if 6 <=? rank p then 9 else 0).
(* NewTimestampWithFractionalSeconds *)
Definition new_ts_frac (t : gotime) (p : tprec) (k : tzkind) (fp : Z) : ts :=
  let fp := if 9 <? fp then 9 else fp in
  let fp := if rank p <? 6 then 0 else fp in
  mkTs t p k fp.

(* ---- characters ------------------------------------------------------------------------ *)
Definition c_T : N := 84.   Definition c_t : N := 116.
Definition c_Z : N := 90.   Definition c_z : N := 122.
Definition c_plus : N := 43. Definition c_minus : N := 45.
Definition c_colon : N := 58. Definition c_dot : N := 46. Definition c_comma : N := 44.
Definition c_0 : N := 48.

Definition is_digit (c : N) : bool := ((48 <=? c) && (c <=? 57))%N.
Definition dval (c : N) : Z := Z.of_N c - 48.
Definition is_tT (c : N) : bool := ((c =? c_t) || (c =? c_T))%N.

Definition slen (l : list N) : Z := Z.of_nat (length l).
Definition at_ (l : list N) (i : Z) : N := nth (Z.to_nat i) l 0%N.          (* s[i], guarded by length checks *)
Definition from (l : list N) (a : Z) : list N := skipn (Z.to_nat a) l.       (* s[a:] *)
Definition sub (l : list N) (a b : Z) : list N := firstn (Z.to_nat (b - a)) (from l a).  (* s[a:b] *)

Fixpoint digits_val (l : list N) (acc : Z) : option Z :=
  match l with
  | [] => Some acc
  | c :: r => if is_digit c then digits_val r (acc * 10 + dval c) else None
  end.
Fixpoint all_digits (l : list N) : bool :=
  match l with [] => true | c :: r => is_digit c && all_digits r end.
Fixpoint count_digits (l : list N) : Z :=
  match l with
  | c :: r => if is_digit c then 1 + count_digits r else 0
  | [] => 0
  end.
Fixpoint last_index (c : N) (l : list N) (i : Z) (found : option Z) : option Z :=
  match l with
  | [] => found
  | x :: r => last_index c r (i + 1) (if (x =? c)%N then Some i else found)
  end.

(* ---- time.Format pieces ----------------------------------------------------------------- *)
(* w decimal digits of x (0 <= x < 10^w), most significant first *)
Fixpoint fixw (w : nat) (x : Z) : list N :=
  match w with
  | O => []
  | S w' => fixw w' (x / 10) ++ [Z.to_N (48 + x mod 10)]
  end.
(* appendInt(b, x, width): zero padding up to width, more digits if needed *)
Definition append_uint_w (u : Z) (w : nat) : list N :=
  if u <? 10 ^ Z.of_nat w then fixw w u else dec_of_N (Z.to_N u).
Definition append_int_w (x : Z) (w : nat) : list N :=
  if x <? 0 then c_minus :: append_uint_w (- x) w else append_uint_w x w.

Fixpoint drop_zeros (l : list N) : list N :=    (* on a reversed digit list *)
  match l with
  | c :: r => if (c =? c_0)%N then drop_zeros r else l
  | [] => []
  end.
Definition trim0 (l : list N) : list N := rev (drop_zeros (rev l)).

(* layout ".999…" with n nines: the first n of the nine digits, trailing zeros and a bare dot removed *)
Definition fmt_frac9 (n ns : Z) : list N :=
  if (n =? 0) || (ns =? 0) then []
  else match trim0 (firstn (Z.to_nat n) (append_int_w ns 9)) with
       | [] => []
       | ds => c_dot :: ds
       end.

(* layout "-07:00" *)
Definition fmt_zone_num (off : Z) : list N :=
  let zone := Z.quot off 60 in
  let sg := if zone <? 0 then c_minus else c_plus in
  let zone := Z.abs zone in
  sg :: append_int_w (Z.quot zone 60) 2 ++ [c_colon] ++ append_int_w (Z.rem zone 60) 2.
(* layout "Z07:00" *)
Definition fmt_zone_iso (off : Z) : list N := if off =? 0 then [c_Z] else fmt_zone_num off.

Definition zone_unknown : list N := [c_minus; c_0; c_0; c_colon; c_0; c_0].   (* "-00:00" *)

(* Timestamp.String() *)
Definition ts_format (t : ts) : list N :=
  let '(y, mo, d, h, mi, s) := go_fields (t_time t) in
  let off := g_off (t_time t) in
  let ns := g_nsec (t_time t) in
  let ym := append_int_w y 4 ++ [c_minus] ++ append_int_w mo 2 in
  let date := ym ++ [c_minus] ++ append_int_w d 2 in
  let hm := append_int_w h 2 ++ [c_colon] ++ append_int_w mi 2 in
  let hms := hm ++ [c_colon] ++ append_int_w s 2 in
  (* layout "-07:00" for an unknown offset, then "+00:00" rewritten to "-00:00" *)
  let zone := match t_kind t with
              | KUnspec => if Z.quot off 60 =? 0 then zone_unknown else fmt_zone_num off
              | _ => fmt_zone_iso off
              end in
  match t_prec t with
  | PYear => append_int_w y 4 ++ [c_T]
  | PMonth => ym ++ [c_T]
  | PDay => date ++ [c_T]
  | PMinute => date ++ [c_T] ++ hm ++ zone
  | PSecond => date ++ [c_T] ++ hms ++ zone
  | PNano =>
    let nf := t_nfrac t in
    let f := fmt_frac9 (Z.min nf 9) ns in                   (* what time.Format emits *)
    let frac :=
      if nf <=? 0 then f
      else if (ns =? 0) || (nf <=? 9 - slen (dec_of_Z ns))  (* all requested digits are zeros *)
      then f ++ c_dot :: repeat c_0 (Z.to_nat nf)
      else match f with
           | [] => []
           | _ :: ds => f ++ repeat c_0 (Z.to_nat (nf - slen ds))
           end in
    date ++ [c_T] ++ hms ++ frac ++ zone
  | PNone => date ++ [c_T] ++ hms ++ fmt_frac9 9 ns ++ fmt_zone_iso off    (* time.RFC3339Nano *)
  end.

(* ---- strconv.ParseInt(s, 10, 32) ----------------------------------------------------------- *)
Definition go_parse_int32 (l : list N) : option Z :=
  match l with
  | [] => None
  | c :: r =>
    let neg := (c =? c_minus)%N in
    let ds := if ((c =? c_plus) || (c =? c_minus))%N then r else l in
    match ds with
    | [] => None
    | _ => match digits_val ds 0 with
           | None => None
           | Some v => let v := if neg then - v else v in
                       if (v <? -2147483648) || (2147483647 <? v) then None else Some v
           end
    end
  end.

(* parseTimestampField (fix_ts_sign): digits only, then ParseInt; the pinned code calls ParseInt alone *)
Definition parse_field (c : cfg) (l : list N) : option Z :=
  if fx_tsign c && negb (all_digits l) then None else go_parse_int32 l.

(* ---- time.Parse for the layouts of TimestampPrecision.Layout ---------------------------------- *)
Definition getnum2 (l : list N) : option (Z * list N) :=       (* getnum(value, true) *)
  match l with
  | a :: b :: r => if is_digit a && is_digit b then Some (dval a * 10 + dval b, r) else None
  | _ => None
  end.
Definition getnum12 (l : list N) : option (Z * list N) :=      (* getnum(value, false) *)
  match l with
  | a :: r =>
    if is_digit a then
      match r with
      | b :: r' => if is_digit b then Some (dval a * 10 + dval b, r') else Some (dval a, r)
      | [] => Some (dval a, [])
      end
    else None
  | [] => None
  end.
Definition expect (c : N) (l : list N) : option (list N) :=
  match l with
  | x :: r => if (x =? c)%N then Some r else None
  | [] => None
  end.
Definition year4 (l : list N) : option (Z * list N) :=
  match l with
  | a :: b :: c :: d :: r =>
    if is_digit a && is_digit b && is_digit c && is_digit d
    then Some (((dval a * 10 + dval b) * 10 + dval c) * 10 + dval d, r) else None
  | _ => None
  end.
Definition comma_or_period (c : N) : bool := ((c =? c_dot) || (c =? c_comma))%N.

(* parseNanoseconds on the digits after the separator (at least one) *)
Definition parse_nanos (ds : list N) : Z :=
  let ds9 := firstn 9 ds in
  match digits_val ds9 0 with
  | Some v => v * 10 ^ (9 - slen ds9)
  | None => 0
  end.
Fixpoint take_digits (l : list N) : list N * list N :=
  match l with
  | c :: r => if is_digit c then let '(a, b) := take_digits r in (c :: a, b) else ([], l)
  | [] => ([], [])
  end.
(* an optional fraction at the head of the value: (nsec, rest) *)
Definition opt_fraction (v : list N) : Z * list N :=
  match v with
  | c :: d :: _ =>
    if comma_or_period c && is_digit d then
      let '(ds, rest) := take_digits (tl v) in (parse_nanos ds, rest)
    else (0, v)
  | _ => (0, v)
  end.

(* zone chunk: (offset seconds, is the literal Z, rest) *)
Definition parse_zone (iso : bool) (v : list N) : option (Z * list N) :=
  match v with
  | c :: r =>
    if iso && (c =? c_Z)%N then Some (0, r)
    else match v with
         | sg :: h1 :: h2 :: cl :: m1 :: m2 :: rest =>
           if negb (cl =? c_colon)%N then None else
           match getnum2 [h1; h2], getnum2 [m1; m2] with
           | Some (hr, _), Some (mm, _) =>
             if (24 <? hr) || (60 <? mm) then None
             else if (sg =? c_plus)%N then Some ((hr * 60 + mm) * 60, rest)
             else if (sg =? c_minus)%N then Some (- ((hr * 60 + mm) * 60), rest)
             else None
           | _, _ => None
           end
         | _ => None
         end
  | [] => None
  end.

Definition obind {A B} (o : option A) (f : A -> option B) : option B :=
  match o with Some a => f a | None => None end.
Notation "'olet' x <- o ; k" := (obind o (fun x => k))
  (at level 200, x pattern, o at level 100, k at level 200, right associativity).

(* time.Parse(layout, value); layout = "2006-01-02T15:04" [":05"] [".999…"] ("Z07:00" | "-07:00") *)
Definition go_time_parse (with_sec : bool) (nfrac : Z) (iso : bool) (v : list N) : option gotime :=
  olet (year, v) <- year4 v;
  olet v <- expect c_minus v;
  olet (month, v) <- getnum2 v;
  if (month <=? 0) || (12 <? month) then None else
  olet v <- expect c_minus v;
  olet (day, v) <- getnum2 v;
  olet v <- expect c_T v;
  olet (hour, v) <- getnum12 v;
  if 24 <=? hour then None else
  olet v <- expect c_colon v;
  olet (mi, v) <- getnum2 v;
  if 60 <=? mi then None else
  olet (sec, nsec, v) <-
    (if with_sec then
       olet v <- expect c_colon v;
       olet (sec, v) <- getnum2 v;
       if 60 <=? sec then None else
       (* with or without a fraction in the layout, a fraction in the value is taken whole *)
       let '(ns, v) := opt_fraction v in Some (sec, ns, v)
     else Some (0, 0, v));
  olet (zoff, v) <- parse_zone iso v;
  match v with
  | _ :: _ => None                                    (* extra text *)
  | [] =>
    if (day <? 1) || (days_in_month year month <? day) then None
    else
      let t := go_date year month day hour mi sec nsec in
      Some (mkTime (wrap_abs (g_abs t - zoff)) (g_nsec t) zoff)
  end.

(* p/q rounded to the nearest integer, ties up (p >= 0, q > 0): the integer rounding of the fix patches *)
Definition round_half_up (p q : Z) : Z := (2 * p + q) / (2 * q).

(* ---- exact float64 ------------------------------------------------------------------------------ *)
(* p/q rounded to an integer, ties to even (p >= 0, q > 0) *)
Definition rne_div (p q : Z) : Z :=
  let f := p / q in
  let r := p mod q in
  if 2 * r <? q then f else if q <? 2 * r then f + 1 else if Z.even f then f else f + 1.

Definition two53 : Z := 9007199254740992.

(* a non-negative float64 as numerator / power-of-two denominator *)
Definition f64 := (Z * Z)%type.

(* the float64 nearest to p/q (p >= 0, q > 0), ties to even; exponent range not modelled *)
Definition f64_of_rat (p q : Z) : f64 :=
  if p =? 0 then (0, 1)
  else if (p mod q =? 0) && (p / q <? two53) then (p / q, 1)       (* exactly representable *)
  else
    let e0 := Z.log2 p - Z.log2 q in                               (* 2^(e0-1) < p/q < 2^(e0+1) *)
    let ge := if 0 <=? e0 then q * 2 ^ e0 <=? p else q <=? p * 2 ^ (- e0) in
    let e := if ge then e0 else e0 - 1 in                          (* 2^e <= p/q < 2^(e+1) *)
    let sh := 52 - e in
    if 0 <=? sh then (rne_div (p * 2 ^ sh) q, 2 ^ sh)
    else (rne_div p (q * 2 ^ (- sh)) * 2 ^ (- sh), 1).

Definition f64_mul (a b : f64) : f64 := f64_of_rat (fst a * fst b) (snd a * snd b).
Definition f64_div (a b : f64) : f64 := f64_of_rat (fst a * snd b) (snd a * fst b).   (* b > 0 *)
(* math.Round: half away from zero, on a non-negative value *)
Definition f64_round (a : f64) : Z := (2 * fst a + snd a) / (2 * snd a).
(* fmt.Sprintf("%.9f", a) as an integer count of 1e-9 units: exact value, ties to even *)
Definition f64_fmt9 (a : f64) : Z := rne_div (fst a * 1000000000) (snd a).

(* math.Pow10(n) for 0 <= n <= 308: pow10postab32[n/32] * pow10tab[n%32] *)
Definition f64_pow10 (n : Z) : f64 :=
  f64_mul (f64_of_rat (10 ^ (32 * (n / 32))) 1) (f64_of_rat (10 ^ (n mod 32)) 1).

(* ---- ParseTimestamp ---------------------------------------------------------------------------------- *)
(* tryCreateDateTimestamp *)
Definition try_date (y m d : Z) (p : tprec) : res ts :=
  let t := go_date y m d 0 0 0 0 in
  if (y =? go_year t) && (m =? go_month t) && (d =? go_day t) then Ok (new_date_ts t p) else Err.

(* computeTimezoneKind(val, idx), with computeOffset inlined *)
Definition compute_tz_kind (l : list N) (idx : Z) : res tzkind :=
  if slen l <=? idx then Panic                       (* val[idx]: index out of range *)
  else
    let c := at_ l idx in
    if ((c =? c_z) || (c =? c_Z))%N then Ok KUTC
    else if ((c =? c_plus) || (c =? c_minus))%N then
      if (slen l <? idx + 5) || negb (at_ l (idx + 3) =? c_colon)%N then Err else
      match go_parse_int32 (sub l (idx + 1) (idx + 3)) with
      | None => Err
      | Some hr =>
        match go_parse_int32 (from l (idx + 4)) with
        | None => Err
        | Some mn =>
          if (24 <=? hr) || (60 <=? mn) then Err
          else if (hr =? 0) && (mn =? 0) then Ok (if (c =? c_minus)%N then KUnspec else KUTC)
          else Ok KLocal
        end
      end
    else Err.

Definition is_unspec (k : tzkind) : bool := match k with KUnspec => true | _ => false end.

(* NewTimestampFromStr *)
Definition new_ts_from_str (l : list N) (p : tprec) (k : tzkind) : res ts :=
  do fu <- (if 6 <=? rank p then
              match last_index c_dot l 0 None with
              | None => Ok 0
              | Some pi =>
                let cnt := count_digits (from l (pi + 1)) in
                if pi + 1 + cnt =? slen l then Err else Ok (cnt mod 256)    (* uint8 counter *)
              end
            else Ok 0);
  match go_time_parse (5 <=? rank p) (if 6 <=? rank p then Z.min fu 9 else 0) (negb (is_unspec k)) l with
  | None => Err
  | Some t => Ok (new_ts_frac t p k fu)
  end.

(* num / 10^nd seconds rounded to a whole number of nanoseconds, as roundFractionalSeconds does it *)
Definition text_round (c : cfg) (num nd : Z) : Z :=
  if fx_tround c then round_half_up (num * 1000000000) (10 ^ nd)         (* nearest, ties up *)
  else f64_fmt9 (f64_of_rat num (10 ^ nd)).                               (* ParseFloat, then %.9f *)

Definition nine_zero : list N := [57; 46; 48; 48; 48; 48; 48; 48; 48; 48; 48]%N.   (* "9.000000000" *)
Definition ten10 : Z := 10000000000.

(* roundFractionalSeconds(val, idx, kind): val[18] is the units digit of the seconds, val[19] = '.',
   val[20:idx] are at least nine digits *)
Definition round_frac (c : cfg) (l : list N) (idx : Z) (k : tzkind) : res ts :=
  let c18 := at_ l 18 in
  let fd := sub l 20 idx in
  let nd := slen fd in
  (* ParseFloat accepts "+.ddd" as 0.ddd; "-.ddd" gives a negative number whose
     "%.9f" text can never be parsed as seconds; anything else is a syntax error *)
  do u <- (if is_digit c18 then Ok (dval c18)
           else if (c18 =? c_plus)%N && negb (fx_tround c) then Ok 0 else Err);
  match digits_val fd 0 with
  | None => Err
  | Some fv =>
    let num := u * 10 ^ nd + fv in                      (* the value is num / 10^nd *)
    let r := text_round c num nd in
    if r =? ten10 then
      (* "Microsecond overflow": 9.9999999999 -> 10.00000000 *)
      match go_time_parse true 9 (negb (is_unspec k)) (sub l 0 18 ++ nine_zero ++ from l idx) with
      | None => Err
      | Some t => Ok (new_ts_frac (go_add_sec t 1) PNano k 9)
      end
    else
      new_ts_from_str (sub l 0 18 ++ dec_of_Z (r / 1000000000) ++ c_dot :: fixw 9 (r mod 1000000000) ++ from l idx)
                      PNano k
  end.

Definition ts_parse (c : cfg) (l : list N) : res ts :=
  let n := slen l in
  if n <? 5 then Err else
  match parse_field c (sub l 0 4) with
  | None => Err
  | Some year =>
    if year <? 1 then Err
    else if (n =? 5) && is_tT (at_ l 4) then try_date year 1 1 PYear
    else if negb (at_ l 4 =? c_minus)%N then Err
    else if n <? 8 then Err
    else match parse_field c (sub l 5 7) with
    | None => Err
    | Some month =>
      if (n =? 8) && is_tT (at_ l 7) then try_date year month 1 PMonth
      else if negb (at_ l 7 =? c_minus)%N then Err
      else if n <? 10 then Err
      else match parse_field c (sub l 8 10) with
      | None => Err
      | Some day =>
        if (n =? 10) || ((n =? 11) && is_tT (at_ l 10)) then try_date year month day PDay
        else if negb (is_tT (at_ l 10)) then Err
        else if n <? 17 then Err
        else
          let c16 := at_ l 16 in
          if ((c16 =? c_z) || (c16 =? c_Z) || (c16 =? c_plus) || (c16 =? c_minus))%N then
            do k <- compute_tz_kind l 16; new_ts_from_str l PMinute k
          else if (c16 =? c_colon)%N then
            if n <? 20 then Err else
            let idx := if (at_ l 19 =? c_dot)%N then 20 + count_digits (from l 20) else 19 in
            if fx_tbounds c && (n <=? idx) then Err else
            do k <- compute_tz_kind l idx;
            if idx <=? 20 then new_ts_from_str l PSecond k
            else if idx <=? 28 then new_ts_from_str l PNano k
            else round_frac c l idx k
          else Err
      end
    end
  end.

(* ---- binary writer --------------------------------------------------------------------------------------- *)
(* Timestamp.TruncatedNanoseconds *)
Fixpoint trunc_loop (k : nat) (ns : Z) : Z :=
  match k with
  | O => ns
  | S k' => if 0 <? ns then trunc_loop k' (ns / 10) else ns
  end.
Definition truncated_nanos (ns nfrac : Z) : Z := trunc_loop (Z.to_nat (9 - nfrac)) ns.

Definition u64 (z : Z) : N := Z.to_N (z mod two64z).         (* uint64(int) *)
Definition i64 (z : Z) : Z :=                                 (* wrap to int64 *)
  let u := z mod two64z in if u <? 9223372036854775808 then u else u - two64z.

(* timestampLen(offset, utc) *)
Definition timestamp_len (offset : Z) (utc : ts) : N :=
  let '(y, mo, d, h, mi, s) := go_fields (t_time utc) in
  let ret := match t_kind utc with KUnspec => 1%N | _ => varint_len offset end in
  let ret := (ret + varuint_len (u64 y))%N in
  let ret := (match t_prec utc with
              | PMonth => ret + 1
              | PDay => ret + 2
              | PMinute => ret + 4
              | PSecond | PNano => ret + 5
              | _ => ret
              end)%N in
  match t_prec utc with
  | PNano =>
    if 0 <? t_nfrac utc then
      let ns := truncated_nanos (g_nsec (t_time utc)) (t_nfrac utc) in
      if 0 <? ns then (ret + 1 + int_len ns)%N else (ret + 1)%N
    else ret
  | _ => ret
  end.

(* appendTimestamp(b, offset, utc) *)
Definition append_timestamp (b : list N) (offset : Z) (utc : ts) : list N :=
  let '(y, mo, d, h, mi, s) := go_fields (t_time utc) in
  let b := match t_kind utc with KUnspec => b ++ [192%N] | _ => append_varint b offset end in
  let b := append_varuint b (u64 y) in
  let b := match t_prec utc with
           | PMonth => append_varuint b (u64 mo)
           | PDay => append_varuint (append_varuint b (u64 mo)) (u64 d)
           | PMinute =>
             append_varuint (append_varuint (append_varuint (append_varuint b (u64 mo)) (u64 d)) (u64 h)) (u64 mi)
           | PSecond | PNano =>
             append_varuint (append_varuint (append_varuint (append_varuint (append_varuint b
                (u64 mo)) (u64 d)) (u64 h)) (u64 mi)) (u64 s)
           | _ => b
           end in
  match t_prec utc with
  | PNano =>
    if 0 <? t_nfrac utc then
      let b := b ++ [Z.to_N (Z.lor (t_nfrac utc) 192)] in
      let ns := truncated_nanos (g_nsec (t_time utc)) (t_nfrac utc) in
      if 0 <? ns then append_int b ns else b
    else b
  | _ => b
  end.

(* binaryWriter.WriteTimestamp: the bytes of the value (tag included) *)
Definition ts_write_bin (t : ts) : list N :=
  let offset := Z.quot (g_off (t_time t)) 60 in
  let utc := mkTs (go_in (t_time t) 0) (t_prec t) (t_kind t) (t_nfrac t) in
  let vlen := timestamp_len offset utc in
  append_timestamp (append_tag [] 96 vlen) offset utc.

(* ---- binary reader ---------------------------------------------------------------------------------------- *)
Definition ndigits (a : Z) : Z := slen (dec_of_N (Z.to_N a)).        (* len(|n|.String()) *)
Definition in_i64 (v : Z) : bool := (-9223372036854775808 <=? v) && (v <=? 9223372036854775807).

(* readDecimal(length): exponent, coefficient *)
Definition read_decimal (len : N) (inp : list N) : res (Z * Z) :=
  if (len =? 0)%N then Ok (0, 0) else
  do '(v, _, vl, rest) <- read_varint len inp;
  if (v <? -2147483648) || (2147483647 <? v) then Err else
  let len' := (len - vl)%N in
  if (len' =? 0)%N then Ok (v, 0) else
  if (N.of_nat (length rest) <? len')%N then Err else         (* readN: unexpected EOF *)
  do coef <- read_signmag (firstn (N.to_nat len') rest);
  Ok (v, coef).

(* Decimal.trunc on an upscaled decimal (scale >= 0) *)
Definition dec_trunc (n sc : Z) : res Z :=
  let strlen := ndigits (Z.abs n) + (if n <? 0 then 1 else 0) in
  let tt := strlen - sc in
  if tt <=? 0 then Ok 0
  else if 0 <=? n then (let v := n / 10 ^ sc in if in_i64 v then Ok v else Err)
  else if tt =? 1 then Err                                    (* ParseInt("-") *)
  else let v := - (Z.abs n / 10 ^ sc) in if in_i64 v then Ok v else Err.

(* big.Int.Int64 *)
Definition big_int64 (n : Z) : Z :=
  let v := i64 (Z.abs n) in if n <? 0 then i64 (- v) else v.

(* Decimal.round on an upscaled decimal (scale >= 0) *)
Definition dec_round (c : cfg) (n sc : Z) : res Z :=
  if fx_bround c then
    if sc =? 0 then (if in_i64 n then Ok n else Err)
    else if Z.of_N (N.size (Z.to_N (Z.abs n))) <=? 3 * sc - 1 then Ok 0    (* |n| < 2^(3sc-1) <= 10^sc / 2 *)
    else
      let q := round_half_up (Z.abs n) (10 ^ sc) in           (* half away from zero *)
      let v := if n <? 0 then - q else q in
      if in_i64 v then Ok v else Err
  else
    let a := big_int64 n in
    if 308 <? sc then Ok 0                                    (* x / +Inf *)
    else
      let q := f64_div (f64_of_rat (Z.abs a) 1) (f64_pow10 sc) in
      let r := f64_round q in
      Ok (if a <? 0 then - r else r).

(* readNsecs(length): nanoseconds, overflow into the second, fraction digits (uint8) *)
Definition read_nsecs (c : cfg) (len : N) (inp : list N) : res (Z * bool * Z) :=
  do '(exp, coef) <- read_decimal len inp;
  let scale := if exp =? -2147483648 then exp else - exp in           (* int32 negation *)
  if scale - 9 <? -2147483648
  then (if fx_exp c then Err else Panic)                              (* ShiftL: "exponent out of bounds" *)
  else
  let sc9 := scale - 9 in
  (* checkToUpscale *)
  do '(n, sc) <- (if sc9 <? 0 then (if sc9 <? -20 then Err else Ok (coef * 10 ^ (- sc9), 0)) else Ok (coef, sc9));
  do tr <- dec_trunc n sc;
  if (tr <? 0) || (999999999 <? tr) then Err else
  do nsec <- dec_round c n sc;
  let exponent := if (scale <? 0) && (nsec =? 0) then 0 else scale mod 256 in
  if nsec =? 1000000000 then Ok (0, true, exponent) else Ok (nsec, false, exponent).

Fixpoint upd (l : list Z) (i : nat) (v : Z) : list Z :=
  match l, i with
  | [], _ => []
  | _ :: r, O => v :: r
  | x :: r, S i' => x :: upd r i' v
  end.

(* the field loop of ReadTimestamp; [k] iterations are left, i = 6 - k *)
Fixpoint read_fields (k : nat) (len : N) (pr : Z) (fs : list Z) (inp : list N)
  : res (N * Z * list Z * list N) :=
  match k with
  | O => Ok (len, pr, fs, inp)
  | S k' =>
    if (0 <? len)%N && (pr <? 5) then
      do '(val, vl, rest) <- read_varuint len inp;
      let len := (len - vl)%N in
      let i := (6 - k)%nat in
      let fs := upd fs i (to_i64 val) in
      if Nat.eqb i 3 then
        (if (len =? 0)%N then Err else read_fields k' len pr fs rest)   (* hour without minute *)
      else read_fields k' len (pr + 1) fs rest
    else Ok (len, pr, fs, inp)
  end.

Definition in_range (lo v hi : Z) : bool := (lo <=? v) && (v <=? hi).

(* tryCreateTimestamp *)
Definition try_create (c : cfg) (fs : list Z) (nsecs : Z) (overflow : bool) (offset : Z) (neg : bool)
                      (p : tprec) (fp : Z) : res ts :=
  let f i := nth i fs 0 in
  if fx_fields c && negb (in_range 0 (f 3%nat) 23 && in_range 0 (f 4%nat) 59 && in_range 0 (f 5%nat) 59)
  then Err else
  let date := go_date (f 0%nat) (f 1%nat) (f 2%nat) (f 3%nat) (f 4%nat) (f 5%nat) nsecs in
  if negb ((f 0%nat =? go_year date) && (f 1%nat =? go_month date) && (f 2%nat =? go_day date)) then Err else
  let check_year (t : ts) : res ts :=
    if fx_fields c && negb (in_range 1 (go_year (t_time t)) 9999) then Err else Ok t in
  if rank p <=? 3 then check_year (new_date_ts date p) else
  if (offset <=? -1440) || (1440 <=? offset) then Err else      (* a local offset is less than a day *)
  let date := if overflow then go_add_sec date 1 else date in
  if offset =? 0 then check_year (new_ts_frac date p (if neg then KUnspec else KUTC) fp)
  else check_year (new_ts_frac (go_in date (i64 (offset * 60))) p KLocal fp).

(* ReadTimestamp on a value of [len] bytes at the head of [inp] *)
Definition read_ts_body (c : cfg) (len : N) (inp : list N) : res ts :=
  do '(offset, neg, olen, rest) <- read_varint len inp;
  let len := (len - olen)%N in
  do '(len, pr, fs, rest) <- read_fields 6 len 0 [1; 1; 1; 0; 0; 0] rest;
  if pr =? 0 then Err else              (* the offset must be followed by at least the year *)
  do '(nsecs, overflow, fp) <-
     (if (0 <? len)%N then read_nsecs c len rest else Ok (0, false, 0));
  let pr := if 0 <? fp then 6 else pr in
  try_create c fs nsecs overflow offset neg (prec_of_rank pr) fp.

(* bitstream.Next on the tag byte of a timestamp value, then ReadTimestamp.
   The null timestamp (0x6F) is not a timestamp value: the driver answers it separately. *)
Definition ts_read_bin (c : cfg) (bs : list N) : res ts :=
  match bs with
  | [] => Err
  | tag :: rest =>
    if negb (tag / 16 =? 6)%N then Err
    else
      let l := (tag mod 16)%N in
      if (l =? 15)%N then Err
      else if (l =? 14)%N then
        do '(len, ll, rest') <- read_varuint 18446744073709551615 rest;
        if (18446744073709551615 - ll <? len)%N then Err          (* "value overruns its container" *)
        else read_ts_body c len rest'
      else read_ts_body c l rest
  end.

(* ---- the Ion text grammar for timestamps (written from the specification) ---------------------------------- *)
Definition two_digits (l : list N) : option (Z * list N) :=
  match l with
  | a :: b :: r => if is_digit a && is_digit b then Some (dval a * 10 + dval b, r) else None
  | _ => None
  end.

Definition lit_offset (l : list N) : bool :=
  match l with
  | [c] => (c =? c_Z)%N
  | sg :: r =>
    ((sg =? c_plus) || (sg =? c_minus))%N &&
    match two_digits r with
    | Some (hh, cl :: r') =>
      (cl =? c_colon)%N && (hh <=? 23) &&
      match two_digits r' with
      | Some (mm, []) => mm <=? 59
      | _ => false
      end
    | _ => false
    end
  | [] => false
  end.

(* after "hh:mm": optional ":ss" with optional ".f+", then a mandatory offset *)
Definition lit_time_tail (l : list N) : bool :=
  match l with
  | c :: r =>
    if (c =? c_colon)%N then
      match two_digits r with
      | Some (ss, r') =>
        (ss <=? 59) &&
        match r' with
        | d :: r'' =>
          if (d =? c_dot)%N then
            let '(ds, rest) := take_digits r'' in
            match ds with [] => false | _ => lit_offset rest end
          else lit_offset r'
        | [] => false
        end
      | None => false
      end
    else lit_offset l
  | [] => false
  end.

Definition is_ts_literal (l : list N) : bool :=
  match year4 l with
  | Some (y, r) =>
    (1 <=? y) &&
    match r with
    | [c] => (c =? c_T)%N                                                   (* yyyyT *)
    | c :: r1 =>
      (c =? c_minus)%N &&
      match two_digits r1 with
      | Some (mo, r2) =>
        (1 <=? mo) && (mo <=? 12) &&
        match r2 with
        | [c2] => (c2 =? c_T)%N                                             (* yyyy-mmT *)
        | c2 :: r3 =>
          (c2 =? c_minus)%N &&
          match two_digits r3 with
          | Some (d, r4) =>
            (1 <=? d) && (d <=? days_in_month y mo) &&
            match r4 with
            | [] => true                                                    (* yyyy-mm-dd *)
            | [c3] => (c3 =? c_T)%N                                         (* yyyy-mm-ddT *)
            | c3 :: r5 =>
              (c3 =? c_T)%N &&
              match two_digits r5 with
              | Some (hh, c4 :: r6) =>
                (hh <=? 23) && (c4 =? c_colon)%N &&
                match two_digits r6 with
                | Some (mi, r7) => (mi <=? 59) && lit_time_tail r7
                | None => false
                end
              | _ => false
              end
            end
          | None => false
          end
        | [] => false
        end
      | None => false
      end
    | [] => false
    end
  | None => false
  end.

(* ---- construction from civil fields, as the harness does ---------------------------------------------------- *)
(* time.Date(y, mo, d, h, mi, s, ns, time.FixedZone("", offmin*60)) *)
Definition go_date_in (y mo d h mi s ns offsec : Z) : gotime :=
  let t := go_date y mo d h mi s ns in
  mkTime (wrap_abs (g_abs t - offsec)) (g_nsec t) offsec.

(* local fields for the wire: year month day hour minute second nsec offset-minutes kind precision nfrac *)
Definition ts_fields (t : ts) : list Z :=
  let '(y, mo, d, h, mi, s) := go_fields (t_time t) in
  [y; mo; d; h; mi; s; g_nsec (t_time t); Z.quot (g_off (t_time t)) 60;
   kind_code (t_kind t); rank (t_prec t); t_nfrac t].

(* ---- well-formed timestamps (the quantifier of property C15) --------------------------------------------- *)
(* kind and offset agree: a known non-zero offset is "local", a zero offset is UTC or unknown *)
Definition kind_off_ok (t : ts) : Prop := t_kind t = KLocal <-> g_off (t_time t) <> 0.

Definition wf_ts (t : ts) : Prop :=
  let tm := t_time t in
  let '(y, mo, d, h, mi, s) := go_fields tm in          (* local civil fields *)
  0 <= g_abs tm < two64z /\
  (exists om, g_off tm = 60 * om /\ -1440 < om < 1440) /\
  1 <= y <= 9999 /\
  0 <= g_nsec tm < 1000000000 /\
  0 <= t_nfrac t <= 9 /\
  (t_prec t = PNano <-> 1 <= t_nfrac t) /\
  g_nsec tm mod 10 ^ (9 - t_nfrac t) = 0 /\
  match t_prec t with
  | PNone => False
  | PYear => t_kind t = KUnspec /\ g_off tm = 0 /\ mo = 1 /\ d = 1 /\ h = 0 /\ mi = 0 /\ s = 0
  | PMonth => t_kind t = KUnspec /\ g_off tm = 0 /\ d = 1 /\ h = 0 /\ mi = 0 /\ s = 0
  | PDay => t_kind t = KUnspec /\ g_off tm = 0 /\ h = 0 /\ mi = 0 /\ s = 0
  | PMinute => kind_off_ok t /\ s = 0
  | PSecond | PNano => kind_off_ok t
  end.

(* the fields of a binary timestamp name a real date and time *)
Definition fields_ok (fs : list Z) : Prop :=
  valid_date (nth 0 fs 0) (nth 1 fs 0) (nth 2 fs 0) = true /\
  0 <= nth 3 fs 0 <= 23 /\ 0 <= nth 4 fs 0 <= 59 /\ 0 <= nth 5 fs 0 <= 59.
