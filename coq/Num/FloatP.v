(* FloatP.v — the float32 clause of C13: "val == float64(float32(val))" (the test
   binaryWriter.WriteFloat makes, [uses_f32]) holds exactly for the float64 values that
   are the exact widening of some float32.  The general fact is [narrow_widen]:
   narrowing the widening of a non-NaN float32 gives it back, bit for bit. *)
From Coq Require Import NArith ZArith Bool Lia ZifyBool ZifyN.
From IonV Require Import Num.Float.
Open Scope N_scope.
Ltac Zify.zify_post_hook ::= Z.div_mod_to_equations.

Definition f32_exp (f : N) : N := (f / 2 ^ 23) mod 256.
Definition f32_man (f : N) : N := f mod 2 ^ 23.
Definition f32_is_nan (f : N) : bool := (f32_exp f =? 255) && negb (f32_man f =? 0).
(* a float64 bit pattern is float32-representable when it is the widening of a float32 *)
Definition representable32 (b : N) : Prop := exists f, f < 2 ^ 32 /\ widen f = b.

Lemma decomp64 s e m : s < 2 -> e < 2048 -> m < 2 ^ 52 ->
  f64_sign (s * 2 ^ 63 + e * 2 ^ 52 + m) = s /\ f64_exp (s * 2 ^ 63 + e * 2 ^ 52 + m) = e /\
  f64_man (s * 2 ^ 63 + e * 2 ^ 52 + m) = m.
Proof.
  unfold f64_sign, f64_exp, f64_man. change (2 ^ 63) with 9223372036854775808.
  change (2 ^ 52) with 4503599627370496. intros Hs He Hm. repeat split; lia.
Qed.

Lemma rne_shr_exact m sh : sh <> 0 -> rne_shr (m * 2 ^ sh) sh = m.
Proof.
  intros Hsh. unfold rne_shr. assert (Hp : 2 ^ sh <> 0) by (apply N.pow_nonzero; lia).
  rewrite N.div_mul by exact Hp. rewrite N.mod_mul by exact Hp.
  replace (sh =? 0) with false by lia.
  assert (0 < 2 ^ (sh - 1)) by (apply N.neq_0_lt_0, N.pow_nonzero; lia).
  replace (2 ^ (sh - 1) <? 0) with false by lia. replace (0 =? 2 ^ (sh - 1)) with false by lia. reflexivity.
Qed.

Lemma size_bounds m : m <> 0 -> m < 2 ^ 23 ->
  1 <= N.size m <= 23 /\ 2 ^ (N.size m - 1) <= m < 2 ^ N.size m.
Proof.
  intros Hm Hlt. rewrite N.size_log2 by exact Hm.
  assert (H0 : 0 < m) by lia. destruct (N.log2_spec m H0) as [L1 L2].
  assert (N.log2 m < 23) by (apply N.log2_lt_pow2; lia).
  replace (N.succ (N.log2 m) - 1) with (N.log2 m) by lia. lia.
Qed.

(* the three fields of a float32 below 2^32 *)
Lemma decomp32 f : f < 2 ^ 32 ->
  f / 2 ^ 31 < 2 /\ f = (f / 2 ^ 31) * 2 ^ 31 + f32_exp f * 2 ^ 23 + f32_man f /\ f32_exp f < 256 /\ f32_man f < 2 ^ 23.
Proof.
  unfold f32_exp, f32_man. change (2 ^ 32) with 4294967296. change (2 ^ 31) with 2147483648.
  change (2 ^ 23) with 8388608. intros H. repeat split; lia.
Qed.

Theorem narrow_widen f : f < 2 ^ 32 -> f32_is_nan f = false -> narrow (widen f) = f.
Proof.
  intros Hf Hn. destruct (decomp32 f Hf) as (Hs & Hd & He & Hm).
  unfold f32_is_nan in Hn. unfold widen. fold (f32_exp f). fold (f32_man f).
  set (sg := f / 2 ^ 31) in *. set (e := f32_exp f) in *. set (m := f32_man f) in *.
  change (2 ^ 23) with 8388608 in *. change (2 ^ 31) with 2147483648 in *.
  destruct (e =? 255) eqn:E255.
  - (* infinity *)
    assert (Hm0 : m = 0) by (destruct (m =? 0) eqn:E; [lia|rewrite andb_true_l in Hn; cbn in Hn; discriminate]).
    rewrite Hm0. cbn [N.eqb]. replace (sg * 2 ^ 63 + 2047 * 2 ^ 52 + 0 * 2 ^ 29 + 0) with (sg * 2 ^ 63 + 2047 * 2 ^ 52 + 0) by lia.
    destruct (decomp64 sg 2047 0 Hs ltac:(lia) ltac:(reflexivity)) as (D1 & D2 & D3).
    unfold narrow. rewrite D1, D2, D3. cbn [N.eqb Pos.eqb]. change (2 ^ 31) with 2147483648. lia.
  - destruct (e =? 0) eqn:E0.
    + destruct (m =? 0) eqn:Em.
      * (* zero *)
        replace (sg * 2 ^ 63) with (sg * 2 ^ 63 + 0 * 2 ^ 52 + 0) by lia.
        destruct (decomp64 sg 0 0 Hs ltac:(lia) ltac:(reflexivity)) as (D1 & D2 & D3).
        unfold narrow. rewrite D1, D2. cbn [N.eqb]. change (2 ^ 31) with 2147483648. lia.
      * (* float32 subnormal: a float64 normal whose narrowing is exact *)
        assert (Hm1 : m <> 0) by lia.
        destruct (size_bounds m Hm1 Hm) as (Hk & Hlo & Hhi). set (k := N.size m) in *.
        set (P := 2 ^ (53 - k)).
        assert (HP1 : 2 ^ (k - 1) * P = 2 ^ 52).
        { unfold P. rewrite <- N.pow_add_r. f_equal. lia. }
        assert (HP2 : 2 ^ k * P = 2 * 2 ^ 52).
        { unfold P. rewrite <- N.pow_add_r. change (2 * 2 ^ 52) with (2 ^ 53). f_equal. lia. }
        assert (HPpos : 0 < P) by (apply N.neq_0_lt_0, N.pow_nonzero; lia).
        assert (Hlo2 : 2 ^ 52 <= m * P) by (rewrite <- HP1; apply N.mul_le_mono_r; exact Hlo).
        assert (Hhi2 : m * P < 2 * 2 ^ 52) by (rewrite <- HP2; apply N.mul_lt_mono_pos_r; assumption).
        assert (Hmod : (m * P) mod 2 ^ 52 = m * P - 2 ^ 52).
        { change (2 ^ 52) with 4503599627370496 in *. lia. }
        rewrite Hmod.
        assert (Hr : m * P - 2 ^ 52 < 2 ^ 52) by (change (2 ^ 52) with 4503599627370496 in *; lia).
        destruct (decomp64 sg (k + 873) (m * P - 2 ^ 52) Hs ltac:(lia) Hr) as (D1 & D2 & D3).
        unfold narrow. rewrite D1, D2, D3.
        replace (k + 873 =? 2047) with false by lia. replace (k + 873 =? 0) with false by lia.
        replace (897 <=? k + 873) with false by lia.
        replace (2 ^ 52 + (m * P - 2 ^ 52)) with (m * P) by lia.
        replace (29 + (897 - (k + 873))) with (53 - k) by lia.
        fold P. unfold P. rewrite rne_shr_exact by lia. change (2 ^ 31) with 2147483648. lia.
    + (* normal *)
      assert (Hr : m * 2 ^ 29 < 2 ^ 52) by (change (2 ^ 29) with 536870912; change (2 ^ 52) with 4503599627370496; lia).
      destruct (decomp64 sg (e + 896) (m * 2 ^ 29) Hs ltac:(lia) Hr) as (D1 & D2 & D3).
      unfold narrow. rewrite D1, D2, D3.
      replace (e + 896 =? 2047) with false by lia. replace (e + 896 =? 0) with false by lia.
      replace (897 <=? e + 896) with true by lia.
      replace (2 ^ 52 + m * 2 ^ 29) with ((8388608 + m) * 2 ^ 29) by (change (2 ^ 52) with (8388608 * 2 ^ 29); lia).
      rewrite rne_shr_exact by lia. change (2 ^ 23) with 8388608. change (2 ^ 31) with 2147483648.
      replace (2139095040 <=? (e + 896 - 897) * 8388608 + (8388608 + m)) with false by lia. lia.
Qed.

(* a float32 NaN widens to a float64 NaN *)
Lemma widen_nan f : f < 2 ^ 32 -> f32_is_nan f = true -> f64_is_nan (widen f) = true.
Proof.
  intros Hf Hn. destruct (decomp32 f Hf) as (Hs & Hd & He & Hm).
  unfold f32_is_nan in Hn. unfold widen. fold (f32_exp f). fold (f32_man f).
  set (sg := f / 2 ^ 31) in *. set (e := f32_exp f) in *. set (m := f32_man f) in *.
  change (2 ^ 23) with 8388608 in *.
  assert (He255 : (e =? 255) = true) by (destruct (e =? 255); [reflexivity|discriminate]).
  rewrite He255 in *. rewrite andb_true_l in Hn. destruct (m =? 0) eqn:Em; [discriminate|].
  set (q := if m <? 4194304 then 2 ^ 51 else 0).
  assert (Hq : m * 2 ^ 29 + q < 2 ^ 52 /\ m * 2 ^ 29 + q <> 0).
  { unfold q. change (2 ^ 29) with 536870912. change (2 ^ 52) with 4503599627370496. change (2 ^ 51) with 2251799813685248.
    destruct (m <? 4194304) eqn:E; lia. }
  replace (sg * 2 ^ 63 + 2047 * 2 ^ 52 + m * 2 ^ 29 + q) with (sg * 2 ^ 63 + 2047 * 2 ^ 52 + (m * 2 ^ 29 + q)) by lia.
  destruct (decomp64 sg 2047 (m * 2 ^ 29 + q) Hs ltac:(lia) (proj1 Hq)) as (D1 & D2 & D3).
  unfold f64_is_nan. rewrite D2, D3. cbn [N.eqb Pos.eqb andb]. destruct Hq as [_ Hq]. lia.
Qed.

(* the writer's test is float32-representability *)
Theorem uses_f32_iff b : b < 2 ^ 64 -> f64_is_nan b = false ->
  (uses_f32 b = true <-> representable32 b).
Proof.
  intros Hb Hn. unfold uses_f32, representable32. split.
  - intros H. apply N.eqb_eq in H. exists (narrow b). split; [|exact H].
    (* narrow stays below 2^32 *)
    unfold narrow.
    assert (Hs : f64_sign b <= 1) by (unfold f64_sign; change (2 ^ 63) with 9223372036854775808; change (2 ^ 64) with 18446744073709551616 in Hb; lia).
    assert (Hm : f64_man b < 2 ^ 52) by (unfold f64_man; change (2 ^ 52) with 4503599627370496; lia).
    unfold f64_is_nan in Hn. change (2 ^ 31) with 2147483648. change (2 ^ 32) with 4294967296. change (2 ^ 52) with 4503599627370496 in *.
    destruct (f64_exp b =? 2047) eqn:E1.
    + destruct (f64_man b =? 0) eqn:E2; [lia|cbn in Hn; discriminate].
    + destruct (f64_exp b =? 0); [lia|]. destruct (897 <=? f64_exp b) eqn:E3.
      * destruct (2139095040 <=? _) eqn:E4; lia.
      * set (sh := 29 + (897 - f64_exp b)). assert (Hsh : 30 <= sh) by (unfold sh; lia).
        assert (Hq : rne_shr (4503599627370496 + f64_man b) sh <= (4503599627370496 + f64_man b) / 2 ^ sh + 1).
        { unfold rne_shr. destruct (sh =? 0) eqn:Z0; [lia|]. destruct (_ || _); lia. }
        assert (Hd : (4503599627370496 + f64_man b) / 2 ^ sh <= (4503599627370496 + f64_man b) / 2 ^ 30).
        { apply N.div_le_compat_l. split; [reflexivity|apply N.pow_le_mono_r; lia]. }
        change (2 ^ 30) with 1073741824 in Hd. lia.
  - intros (f & Hf & Hw). apply N.eqb_eq. subst b.
    rewrite narrow_widen; [reflexivity|exact Hf|].
    destruct (f32_is_nan f) eqn:E; [|reflexivity]. rewrite (widen_nan f Hf E) in Hn. discriminate.
Qed.

(* reading the four bytes back: widening what was narrowed *)
Theorem f32_roundtrip b : uses_f32 b = true -> widen (narrow b) = b.
Proof. unfold uses_f32. intros H. apply N.eqb_eq, H. Qed.
