(* Float.v — bit-level model of the float64 <-> float32 conversions the binary
   writer and reader rely on ("val == float64(float32(val))", widening on read).
   A float64 is its IEEE-754 bit pattern as an [N] below 2^64.  No proofs. *)
From Coq Require Import NArith Bool.
Open Scope N_scope.

Definition f64_sign (b : N) : N := b / 2 ^ 63.
Definition f64_exp (b : N) : N := (b / 2 ^ 52) mod 2048.
Definition f64_man (b : N) : N := b mod 2 ^ 52.
Definition f64_is_nan (b : N) : bool := (f64_exp b =? 2047) && negb (f64_man b =? 0).
Definition f64_pos_zero (b : N) : bool := b =? 0.
Definition canonical_nan64 : N := 9221120237041090560.  (* 0x7FF8000000000000 *)

(* round-to-nearest-even right shift *)
Definition rne_shr (x sh : N) : N :=
  let q := x / 2 ^ sh in
  let r := x mod 2 ^ sh in
  if sh =? 0 then x
  else
    let half := 2 ^ (sh - 1) in
    if (half <? r) || ((r =? half) && N.odd q) then q + 1 else q.

(* float32(val): IEEE narrowing, round to nearest even *)
Definition narrow (b : N) : N :=
  let sg := f64_sign b * 2 ^ 31 in
  let e := f64_exp b in
  let m := f64_man b in
  if e =? 2047 then
    if m =? 0 then sg + 2139095040                       (* infinity *)
    else sg + 2139095040 + N.lor 4194304 (m / 2 ^ 29)    (* NaN, quieted *)
  else if e =? 0 then sg                                   (* zero and float64 subnormals *)
  else
    let S := 2 ^ 52 + m in
    if 897 <=? e then                                      (* E = e - 1023 >= -126: normal target *)
      let q := rne_shr S 29 in
      let bits := (e - 897) * 2 ^ 23 + q in              (* (E+127)<<23 + q - 2^23, carry included *)
      if 2139095040 <=? bits then sg + 2139095040 else sg + bits
    else                                                   (* subnormal target *)
      sg + rne_shr S (29 + (897 - e)).

(* float64(f): exact widening *)
Definition widen (f : N) : N :=
  let sg := (f / 2 ^ 31) * 2 ^ 63 in
  let e := (f / 2 ^ 23) mod 256 in
  let m := f mod 2 ^ 23 in
  if e =? 255 then sg + 2047 * 2 ^ 52 + m * 2 ^ 29 + (if m =? 0 then 0 else if m <? 4194304 then 2 ^ 51 else 0)
  else if e =? 0 then
    if m =? 0 then sg
    else let k := N.size m in
         sg + (k + 873) * 2 ^ 52 + (m * 2 ^ (53 - k)) mod 2 ^ 52
  else sg + (e + 896) * 2 ^ 52 + m * 2 ^ 29.

(* "val == float64(float32(val))" for a non-NaN val (float equality = bit equality here) *)
Definition uses_f32 (b : N) : bool := widen (narrow b) =? b.
