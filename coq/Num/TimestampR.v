(* TimestampR.v — rejection of impossible binary fields and rounding of
   sub-nanosecond fractions (lemmas for Props/C15.v). *)
From Coq Require Import List NArith ZArith Bool Lia ZifyBool ZifyN ZifyNat String.
From IonV Require Import Base.Wire Bin.Bits Bin.BitsP Num.Calendar Num.CalendarP Num.Timestamp Num.TimestampP.
Import ListNotations.
Open Scope Z_scope.
Ltac Zify.zify_post_hook ::= Z.div_mod_to_equations.

(* ---- binary: rejection of impossible fields ------------------------------------------------------------------------ *)
(* whatever time.Date normalises to is a real calendar date *)
Lemma go_ymd_valid t : valid_date (go_year t) (go_month t) (go_day t) = true.
Proof.
  pose proof (go_fields_spec t) as S. cbv zeta in S. unfold go_year, go_month, go_day.
  destruct (go_fields t) as [[[[[y mo] d] h] mi] s]. apply S.
Qed.

(* month 13, February 30, day 0, ...: rejected by both versions *)
Lemma try_create_bad_date c fs nsecs ov off neg p fp :
  valid_date (nth 0 fs 0) (nth 1 fs 0) (nth 2 fs 0) = false ->
  try_create c fs nsecs ov off neg p fp = Err.
Proof.
  intros V. unfold try_create.
  destruct (fx_fields c && negb (in_range 0 (nth 3 fs 0) 23 && in_range 0 (nth 4 fs 0) 59 && in_range 0 (nth 5 fs 0) 59));
    [reflexivity|].
  set (date := go_date _ _ _ _ _ _ _).
  destruct ((nth 0 fs 0 =? go_year date) && (nth 1 fs 0 =? go_month date) && (nth 2 fs 0 =? go_day date)) eqn:E;
    [|reflexivity].
  exfalso. pose proof (go_ymd_valid date) as GV.
  replace (go_year date) with (nth 0 fs 0) in GV by lia.
  replace (go_month date) with (nth 1 fs 0) in GV by lia.
  replace (go_day date) with (nth 2 fs 0) in GV by lia. congruence.
Qed.

(* hour 24, minute 60, second 60: rejected by the patched version *)
Lemma try_create_bad_time_patched c fs nsecs ov off neg p fp :
  fx_fields c = true ->
  ~ (0 <= nth 3 fs 0 <= 23 /\ 0 <= nth 4 fs 0 <= 59 /\ 0 <= nth 5 fs 0 <= 59) ->
  try_create c fs nsecs ov off neg p fp = Err.
Proof.
  intros F H. unfold try_create. rewrite F. unfold in_range.
  destruct ((0 <=? nth 3 fs 0) && (nth 3 fs 0 <=? 23) && ((0 <=? nth 4 fs 0) && (nth 4 fs 0 <=? 59)) &&
            ((0 <=? nth 5 fs 0) && (nth 5 fs 0 <=? 59))) eqn:E; [exfalso; apply H; lia|reflexivity].
Qed.

Theorem bin_reject_patched c fs nsecs ov off neg p fp :
  fx_fields c = true -> ~ fields_ok fs -> try_create c fs nsecs ov off neg p fp = Err.
Proof.
  intros F H. destruct (valid_date (nth 0 fs 0) (nth 1 fs 0) (nth 2 fs 0)) eqn:V.
  - apply try_create_bad_time_patched; [exact F|]. intros T. apply H. unfold fields_ok. tauto.
  - apply try_create_bad_date. exact V.
Qed.

(* a successful patched read has a local year in 1..9999 *)
Lemma try_create_year_patched c fs nsecs ov off neg p fp t :
  fx_fields c = true -> try_create c fs nsecs ov off neg p fp = Ok t -> 1 <= go_year (t_time t) <= 9999.
Proof.
  intros F. unfold try_create. rewrite F. cbn [andb].
  destruct (negb _); [discriminate|]. destruct (negb _); [discriminate|].
  assert (G : forall t0, (if negb (in_range 1 (go_year (t_time t0)) 9999) then Err else Ok t0) = Ok t ->
              1 <= go_year (t_time t) <= 9999).
  { intros t0. unfold in_range. destruct ((1 <=? go_year (t_time t0)) && (go_year (t_time t0) <=? 9999)) eqn:E;
      cbn [negb]; [|discriminate]. intros Q. inversion Q; subst. lia. }
  destruct (rank p <=? 3); [apply G|]. destruct ((off <=? -1440) || (1440 <=? off)); [discriminate|].
  destruct (off =? 0); apply G.
Qed.

Lemma dfc_coarse y mo d : 1 <= mo <= 12 -> 1 <= d <= 31 -> -2147483648 < y < 2147483648 ->
  -800000000000 < days_from_civil y mo d < 800000000000.
Proof.
  intros Hm Hd Hy. unfold days_from_civil, days_per_era, epoch_shift.
  set (y' := if mo <=? 2 then y - 1 else y). assert (Hy' : -2147483649 < y' < 2147483648) by (unfold y'; destruct (mo <=? 2); lia).
  set (mp := if mo <=? 2 then mo + 9 else mo - 3). assert (Hmp : 0 <= mp <= 11) by (unfold mp; destruct (mo <=? 2) eqn:E; lia).
  clearbody y' mp. clear Hy Hm.
  set (era := y' / 400). assert (He : -5368710 <= era <= 5368710) by (unfold era; lia).
  assert (Hyoe : 0 <= y' - era * 400 < 400) by (unfold era; lia).
  set (yoe := y' - era * 400) in *. clearbody yoe era.
  lia.
Qed.

(* the pinned version only notices an impossible time when it rolls the date: hour 24 does *)
Lemma go_date_carry y mo d h mi s ns :
  1 <= mo <= 12 -> 0 <= h -> 0 <= mi < 60 -> 0 <= s < 60 -> 0 <= ns < 1000000000 ->
  go_date y mo d h mi s ns =
  mkTime (wrap_abs ((days_from_civil y mo d + h / 24 + abs_day_shift) * 86400 + (h mod 24) * 3600 + mi * 60 + s)) ns 0.
Proof.
  intros Hmo Hh Hmi Hs Hns. unfold go_date.
  replace ((mo - 1) / 12) with 0 by lia. replace ((mo - 1) mod 12 + 1) with mo by lia.
  replace (ns / 1000000000) with 0 by lia. replace (ns mod 1000000000) with ns by lia.
  replace ((s + 0) / 60) with 0 by lia. replace ((s + 0) mod 60) with s by lia.
  replace ((mi + 0) / 60) with 0 by lia. replace ((mi + 0) mod 60) with mi by lia.
  replace (h + 0) with h by lia. replace (y + 0) with y by lia.
  rewrite (dfc_day y mo d). f_equal. f_equal. lia.
Qed.

Lemma go_ymd_mk A ns : 0 <= A < two64z ->
  (go_year (mkTime A ns 0), go_month (mkTime A ns 0), go_day (mkTime A ns 0)) =
  civil_from_days (A / 86400 - abs_day_shift).
Proof.
  intros HA. unfold go_year, go_month, go_day, go_fields. cbn [g_abs g_off].
  rewrite Z.add_0_r, wrap_abs_small by exact HA.
  destruct (civil_from_days (A / 86400 - abs_day_shift)) as [[a b] e]. reflexivity.
Qed.

Lemma try_create_hour_carry c y mo d h mi s nsecs ov off neg p fp :
  valid_date y mo d = true -> 24 <= h < 2147483648 -> 0 <= mi < 60 -> 0 <= s < 60 ->
  0 <= nsecs < 1000000000 -> -2147483648 < y < 2147483648 ->
  try_create c [y; mo; d; h; mi; s] nsecs ov off neg p fp = Err.
Proof.
  intros V Hh Hmi Hs Hns Hy.
  assert (Hmo : 1 <= mo <= 12 /\ 1 <= d <= 31).
  { unfold valid_date, days_in_month in V.
    destruct (mo =? 2), (is_leap y), ((mo =? 4) || (mo =? 6) || (mo =? 9) || (mo =? 11)); lia. }
  destruct Hmo as [Hmo Hd].
  pose proof (dfc_coarse y mo d Hmo Hd Hy) as DB.
  unfold try_create. cbn [nth].
  destruct (fx_fields c && _); [reflexivity|].
  rewrite go_date_carry by lia.
  remember (days_from_civil y mo d) as D eqn:HD.
  remember ((D + h / 24 + abs_day_shift) * 86400 + h mod 24 * 3600 + mi * 60 + s) as A eqn:HA.
  assert (BA : 0 <= A < two64z) by (rewrite HA; unfold abs_day_shift, two64z; clear - DB Hh Hmi Hs; lia).
  assert (ED : A / 86400 - abs_day_shift = D + h / 24) by (rewrite HA; clear - Hh Hmi Hs; lia).
  rewrite wrap_abs_small by exact BA.
  pose proof (go_ymd_mk A nsecs BA) as G. rewrite ED in G.
  destruct ((y =? go_year _) && (mo =? go_month _) && (d =? go_day _)) eqn:E; [|reflexivity].
  exfalso.
  assert (EC : civil_from_days (D + h / 24) = (y, mo, d)).
  { rewrite <- G. clear - E. f_equal; [f_equal|]; lia. }
  rewrite HD in EC. apply cfd_dfc_plus in EC; [clear - EC Hh; lia|exact V].
Qed.

(* ---- binary: an hour field must be followed by a minute field -------------------------------------------------------- *)
Lemma bin_hour_without_minute c off y mo d h :
  - Z.of_N two63 < off < Z.of_N two63 -> (y < two64)%N -> (mo < two64)%N -> (d < two64)%N -> (h < two64)%N ->
  let len := (varint_len off + varuint_len y + varuint_len mo + varuint_len d + varuint_len h)%N in
  ts_read_bin c (append_tag [] 96 len ++ vi off ++ vu y ++ vu mo ++ vu d ++ vu h) = Err.
Proof.
  intros Ho Hy Hm Hd Hh len.
  pose proof (varuint_len_le10 y Hy). pose proof (varuint_len_le10 mo Hm).
  pose proof (varuint_len_le10 d Hd). pose proof (varuint_len_le10 h Hh).
  pose proof (varuint_len_pos y). pose proof (varuint_len_pos mo). pose proof (varuint_len_pos d).
  pose proof (varuint_len_pos h).
  assert (LO : (varint_len off <= 10)%N).
  { unfold varint_len. pose proof (len_loop_le 128 10 (mag64 off / 64) 1 9 ltac:(lia)) as L.
    assert ((mag64 off / 64 < 128 ^ N.of_nat 9)%N).
    { change (128 ^ N.of_nat 9)%N with 9223372036854775808%N. unfold mag64, two63 in *. lia. }
    specialize (L H7). lia. }
  rewrite read_tag by (unfold len; lia). unfold read_ts_body, vi.
  rewrite varint_roundtrip by (unfold len; lia). cbn [bind]. fold (vu y).
  unfold len. rstep. rstep. rstep. rstep. nz. reflexivity.
Qed.

(* ---- rounding ------------------------------------------------------------------------------------------------------------ *)
Lemma round_half_up_spec p q : 0 <= p -> 0 < q ->
  - q <= 2 * round_half_up p q * q - 2 * p <= q.
Proof.
  intros Hp Hq. unfold round_half_up.
  pose proof (Z.div_mod (2 * p + q) (2 * q) ltac:(lia)) as E.
  pose proof (Z.mod_pos_bound (2 * p + q) (2 * q) ltac:(lia)) as B.
  set (r := (2 * p + q) / (2 * q)) in *. set (m := (2 * p + q) mod (2 * q)) in *. nia.
Qed.

(* the patched Decimal.round: nearest integer to n / 10^sc, at most half a unit away *)
Theorem dec_round_patched_spec c n sc q :
  fx_bround c = true -> 0 <= n -> 0 <= sc -> dec_round c n sc = Ok q ->
  - 10 ^ sc <= 2 * q * 10 ^ sc - 2 * n <= 10 ^ sc.
Proof.
  intros F Hn Hsc. unfold dec_round. rewrite F.
  assert (HP : 0 < 10 ^ sc) by (apply Z.pow_pos_nonneg; lia).
  destruct (sc =? 0) eqn:E0.
  - assert (sc = 0) by lia. subst sc. destruct (in_i64 n); [|discriminate]. intros Q. inversion Q; subst.
    change (10 ^ 0) with 1. lia.
  - rewrite Z.abs_eq by lia. replace (n <? 0) with false by lia.
    destruct (Z.of_N (N.size (Z.to_N n)) <=? 3 * sc - 1) eqn:ES.
    + intros Q. inversion Q; subst q.
      pose proof (N.size_gt (Z.to_N n)) as SG.
      assert (Hn2 : n < 2 ^ Z.of_N (N.size (Z.to_N n))).
      { rewrite <- (Z2N.id n) at 1 by lia. rewrite <- (N2Z.inj_pow 2). lia. }
      assert (Hp2 : 2 ^ Z.of_N (N.size (Z.to_N n)) <= 2 ^ (3 * sc - 1)) by (apply Z.pow_le_mono_r; lia).
      assert (H8 : 2 * 2 ^ (3 * sc - 1) = 8 ^ sc).
      { rewrite <- Z.pow_succ_r by lia. replace (Z.succ (3 * sc - 1)) with (3 * sc) by lia.
        rewrite Z.pow_mul_r by lia. reflexivity. }
      assert (H10 : 8 ^ sc <= 10 ^ sc) by (apply Z.pow_le_mono_l; lia).
      lia.
    + destruct (in_i64 _); [|discriminate]. intros Q. inversion Q; subst q.
      apply round_half_up_spec; lia.
Qed.

(* the patched roundFractionalSeconds *)
Theorem text_round_patched_spec c num nd :
  fx_tround c = true -> 0 <= num -> 0 <= nd ->
  - 10 ^ nd <= 2 * text_round c num nd * 10 ^ nd - 2 * (num * 1000000000) <= 10 ^ nd.
Proof.
  intros F Hn Hd. unfold text_round. rewrite F. apply round_half_up_spec; [lia|apply Z.pow_pos_nonneg; lia].
Qed.

(* the pinned versions go through float64 *)
Lemma dec_round_pinned_witness : dec_round pinned 500000000000000000001 12 = Ok 1937910.
Proof. vm_compute. reflexivity. Qed.

Lemma text_round_pinned_witness : text_round pinned 49999999999999999999 29 = 1.
Proof. vm_compute. reflexivity. Qed.

Lemma try_create_pinned_witness :
  is_ok (try_create pinned [2000; 1; 1; 10; 60; 0] 0 false 0 false PMinute 0) = true.
Proof. vm_compute. reflexivity. Qed.

Lemma read_pinned_minute60 :
  option_map ts_fields (match ts_read_bin pinned [103; 128; 15; 208; 129; 129; 138; 188]%N with Ok t => Some t | _ => None end)
  = Some [2000; 1; 1; 11; 0; 0; 0; 0; 1; 4; 0].
Proof. vm_compute. reflexivity. Qed.

Lemma read_pinned_exponent_panic :
  ts_read_bin pinned [110; 142; 128; 15; 208; 129; 129; 128; 128; 128; 7; 127; 127; 127; 255; 1]%N = Panic.
Proof. vm_compute. reflexivity. Qed.

Lemma read_patched_exponent_err :
  ts_read_bin patched [110; 142; 128; 15; 208; 129; 129; 128; 128; 128; 7; 127; 127; 127; 255; 1]%N = Err.
Proof. vm_compute. reflexivity. Qed.

(* ---- the full-strength statements and their status on the pinned code --------------------------------------------------- *)
Definition bin_reject_stmt (c : cfg) : Prop :=
  forall fs nsecs ov off neg p fp, ~ fields_ok fs -> try_create c fs nsecs ov off neg p fp = Err.

Lemma bin_reject_stmt_patched : bin_reject_stmt patched.
Proof. intros fs nsecs ov off neg p fp H. apply bin_reject_patched; [reflexivity|exact H]. Qed.

Lemma bin_reject_stmt_pinned_refuted : ~ bin_reject_stmt pinned.
Proof.
  intros H. specialize (H [2000; 1; 1; 10; 60; 0] 0 false 0 false PMinute 0).
  assert (NF : ~ fields_ok [2000; 1; 1; 10; 60; 0]) by (unfold fields_ok; cbn [nth]; lia).
  specialize (H NF). pose proof try_create_pinned_witness as W. rewrite H in W. discriminate.
Qed.

Definition bin_rounding_stmt (c : cfg) : Prop :=
  forall n sc q, 0 <= n -> 0 <= sc -> dec_round c n sc = Ok q ->
  - 10 ^ sc <= 2 * q * 10 ^ sc - 2 * n <= 10 ^ sc.

Lemma bin_rounding_stmt_patched : bin_rounding_stmt patched.
Proof. intros n sc q Hn Hs E. apply (dec_round_patched_spec patched n sc q); auto. Qed.

Lemma bin_rounding_stmt_pinned_refuted : ~ bin_rounding_stmt pinned.
Proof.
  intros H. specialize (H 500000000000000000001 12 1937910 ltac:(lia) ltac:(lia) dec_round_pinned_witness).
  change (10 ^ 12) with 1000000000000 in H. lia.
Qed.

Definition text_rounding_stmt (c : cfg) : Prop :=
  forall num nd, 0 <= num -> 0 <= nd ->
  - 10 ^ nd <= 2 * text_round c num nd * 10 ^ nd - 2 * (num * 1000000000) <= 10 ^ nd.

Lemma text_rounding_stmt_patched : text_rounding_stmt patched.
Proof. intros num nd Hn Hd. apply text_round_patched_spec; auto. Qed.

Lemma text_rounding_stmt_pinned_refuted : ~ text_rounding_stmt pinned.
Proof.
  intros H. specialize (H 49999999999999999999 29 ltac:(lia) ltac:(lia)).
  rewrite text_round_pinned_witness in H. change (10 ^ 29) with 100000000000000000000000000000 in H. lia.
Qed.

(* ---- examples ------------------------------------------------------------------------------------------------------------- *)
(* 2000-02-29T23:59:59.120+05:30 and 0001-01-01T00:00+23:59 (UTC year 0) *)
Definition ex_ts1 : ts := mkTs (go_date_in 2000 2 29 23 59 59 120000000 19800) PNano KLocal 3.
Definition ex_ts2 : ts := mkTs (go_date_in 1 1 1 0 0 0 0 86340) PMinute KLocal 0.
Definition ex_ts3 : ts := mkTs (go_date_in 9999 12 1 0 0 0 0 0) PMonth KUnspec 0.

Lemma ex_ts1_wf : wf_ts ex_ts1.
Proof.
  unfold wf_ts. vm_compute go_fields. cbv iota beta. vm_compute t_time. cbn [g_abs g_off g_nsec t_prec t_nfrac t_kind].
  repeat split; try (vm_compute; congruence); try lia.
  exists 330. lia.
Qed.

Lemma ex_ts2_wf : wf_ts ex_ts2.
Proof.
  unfold wf_ts. vm_compute go_fields. cbv iota beta. vm_compute t_time. cbn [g_abs g_off g_nsec t_prec t_nfrac t_kind].
  repeat split; try (vm_compute; congruence); try lia.
  exists 1439. lia.
Qed.

Lemma ex_ts3_wf : wf_ts ex_ts3.
Proof.
  unfold wf_ts. vm_compute go_fields. cbv iota beta. vm_compute t_time. cbn [g_abs g_off g_nsec t_prec t_nfrac t_kind].
  repeat split; try (vm_compute; congruence); try lia.
  exists 0. lia.
Qed.

Lemma ex_text_roundtrip :
  ts_parse pinned (ts_format ex_ts1) = Ok ex_ts1 /\ ts_parse pinned (ts_format ex_ts2) = Ok ex_ts2 /\
  ts_parse pinned (ts_format ex_ts3) = Ok ex_ts3 /\
  is_ts_literal (ts_format ex_ts1) = true /\ is_ts_literal (ts_format ex_ts2) = true /\
  is_ts_literal (ts_format ex_ts3) = true.
Proof. vm_compute. repeat split; reflexivity. Qed.

Lemma ex_text_reject :
  map (fun s => is_ok (ts_parse pinned (bytes_of_string s)))
      ["2000-13-01T"; "2001-02-29T"; "2000-02-30T00:00Z"; "2000-01-01T24:00Z"; "2000-01-01T23:60Z";
       "2000-01-01T23:59:60Z"; "2000-01-01T00:00+24:00"; "2000-01-01T00:00-23:60"]%string
  = [false; false; false; false; false; false; false; false].
Proof. vm_compute. reflexivity. Qed.
