(* TimestampJ.v — C15 (text), the converse of TimestampT.v: what ParseTimestamp accepts is a valid
   Ion timestamp literal, and the timestamp it answers carries the fields the literal denotes.

   "Valid literal" is the independent relation of Text/SpellTs.v: a shape [sh] within the ranges of the
   grammar and the calendar ([SpellTs.ts_ok]), its text [SpellTs.ts_text sh], the eleven numbers it
   denotes [SpellTs.ts_fields sh].  [lit_of s sh]: s is the text, or the text with the final T of a
   date-only form in lower case (the one thing ParseTimestamp normalises).

   Plan: (A) characters and spellings; (B) inversion of the pieces of time.Parse; (C) the offset;
   (D) the calendar: the local fields of the time that time.Parse builds; (E) ParseTimestamp by
   precision; (F) [accepts_only_valid_partial]: literal and fields, for at most eight fraction digits;
   (G) [accepts_only_literals]: a valid literal, for every string (roundFractionalSeconds included),
   and the contrapositives; (H) the impossible dates and times of the property text as examples.
   Open: the fields of a literal with nine fraction digits or more (rounding and carry).
   [patched] includes fix_ts_sign (year, month and day fields are digits only). *)
From Coq Require Import List NArith ZArith Bool Lia ZifyBool ZifyN ZifyNat.
From Coq Require String.
From IonV Require Import Base.Wire Bin.Bits Num.Calendar Num.CalendarP Num.Timestamp Num.TimestampP Num.TimestampR Num.TimestampT.
From IonV Require Text.SpecText Text.SpellTs.
Import ListNotations.
Open Scope Z_scope.
Ltac Zify.zify_post_hook ::= Z.div_mod_to_equations.

(* ---- (A) characters and spellings --------------------------------------------------------------------------------- *)
Lemma D2_nonneg a b : is_digit a = true -> is_digit b = true -> 0 <= D2 a b < 100.
Proof. intros Ha Hb. pose proof (D2_range a b Ha Hb). lia. Qed.
Lemma D4_range a b c d : is_digit a = true -> is_digit b = true -> is_digit c = true -> is_digit d = true ->
  0 <= D4 a b c d <= 9999.
Proof. intros Ha Hb Hc Hd. apply digit_dval in Ha, Hb, Hc, Hd. unfold D4. lia. Qed.

Lemma d2_chars a b : is_digit a = true -> is_digit b = true -> SpellTs.d2 (Z.to_N (D2 a b)) = [a; b].
Proof.
  intros Ha Hb. apply digit_range in Ha, Hb. unfold SpellTs.d2, D2, dval.
  f_equal; [lia|f_equal; lia].
Qed.
Lemma d4_chars a b c d : is_digit a = true -> is_digit b = true -> is_digit c = true -> is_digit d = true ->
  SpellTs.d4 (Z.to_N (D4 a b c d)) = [a; b; c; d].
Proof.
  intros Ha Hb Hc Hd. unfold SpellTs.d4.
  pose proof (D2_nonneg a b Ha Hb). pose proof (D2_nonneg c d Hc Hd).
  assert (E : D4 a b c d = D2 a b * 100 + D2 c d) by (unfold D4, D2; lia).
  replace (Z.to_N (D4 a b c d) / 100)%N with (Z.to_N (D2 a b)) by lia.
  replace (Z.to_N (D4 a b c d) mod 100)%N with (Z.to_N (D2 c d)) by lia.
  rewrite !d2_chars by assumption. reflexivity.
Qed.

(* ---- (B) inversion of the pieces of time.Parse -------------------------------------------------------------------- *)
Lemma getnum2_inv l v r : getnum2 l = Some (v, r) ->
  exists a b, l = a :: b :: r /\ is_digit a = true /\ is_digit b = true /\ v = D2 a b.
Proof.
  destruct l as [|a [|b r']]; try discriminate. cbn [getnum2].
  destruct (is_digit a) eqn:Ea; [|discriminate]. destruct (is_digit b) eqn:Eb; [|discriminate].
  cbn [andb]. intros H. inversion H; subst. exists a, b. auto.
Qed.

Lemma expect_inv c l r : expect c l = Some r -> l = c :: r.
Proof.
  destruct l as [|x r']; [discriminate|]. cbn [expect]. destruct (N.eqb_spec x c) as [->|]; [|discriminate].
  intros H. inversion H. reflexivity.
Qed.

(* the date and time of day of time.Parse's value, when the seventeenth character is not a digit:
   the hour has two digits *)
Lemma gtp_inv16 ws nf iso c0 c1 c2 c3 c4 c5 c6 c7 c8 c9 c10 c11 c12 c13 c14 c15 c16 r t :
  is_digit c16 = false ->
  go_time_parse ws nf iso (c0 :: c1 :: c2 :: c3 :: c4 :: c5 :: c6 :: c7 :: c8 :: c9 :: c10 :: c11 :: c12 :: c13 ::
                           c14 :: c15 :: c16 :: r) = Some t ->
  (is_digit c0 = true /\ is_digit c1 = true /\ is_digit c2 = true /\ is_digit c3 = true) /\
  c4 = c_minus /\ (is_digit c5 = true /\ is_digit c6 = true /\ 1 <= D2 c5 c6 <= 12) /\
  c7 = c_minus /\ (is_digit c8 = true /\ is_digit c9 = true) /\ c10 = c_T /\
  (is_digit c11 = true /\ is_digit c12 = true /\ D2 c11 c12 < 24) /\ c13 = c_colon /\
  (is_digit c14 = true /\ is_digit c15 = true /\ D2 c14 c15 < 60).
Proof.
  intros H16 H. unfold go_time_parse in H. cbn [year4] in H.
  destruct (is_digit c0 && is_digit c1 && is_digit c2 && is_digit c3) eqn:EY; [|discriminate H].
  apply andb_true_iff in EY as [EY E3]. apply andb_true_iff in EY as [EY E2]. apply andb_true_iff in EY as [E0 E1].
  cbn [obind expect] in H.
  destruct (N.eqb_spec c4 c_minus) as [->|]; [|discriminate H]. cbn [obind getnum2] in H.
  destruct (is_digit c5 && is_digit c6) eqn:EM; [|discriminate H]. apply andb_true_iff in EM as [E5 E6].
  cbn [obind] in H.
  destruct ((D2 c5 c6 <=? 0) || (12 <? D2 c5 c6)) eqn:EMr.
  { unfold D2 in EMr. rewrite EMr in H. discriminate H. }
  unfold D2 in EMr. rewrite EMr in H. cbn [expect] in H.
  destruct (N.eqb_spec c7 c_minus) as [->|]; [|discriminate H]. cbn [obind getnum2] in H.
  destruct (is_digit c8 && is_digit c9) eqn:ED; [|discriminate H]. apply andb_true_iff in ED as [E8 E9].
  cbn [obind expect] in H.
  destruct (N.eqb_spec c10 c_T) as [->|]; [|discriminate H]. cbn [obind getnum12] in H.
  destruct (is_digit c11) eqn:E11; [|discriminate H].
  destruct (is_digit c12) eqn:E12.
  - cbn [obind] in H. destruct (24 <=? dval c11 * 10 + dval c12) eqn:EH; [discriminate H|]. cbn [expect] in H.
    destruct (N.eqb_spec c13 c_colon) as [->|]; [|discriminate H]. cbn [obind getnum2] in H.
    destruct (is_digit c14 && is_digit c15) eqn:EI; [|discriminate H]. apply andb_true_iff in EI as [E14 E15].
    cbn [obind] in H. destruct (60 <=? dval c14 * 10 + dval c15) eqn:EIr; [discriminate H|].
    unfold D2. repeat split; auto; lia.
  - (* a one-digit hour: the seventeenth character is a digit of the seconds or of the offset *)
    exfalso. cbn [obind] in H. destruct (24 <=? dval c11); [discriminate H|]. cbn [expect] in H.
    destruct (N.eqb_spec c12 c_colon) as [->|]; [|discriminate H]. cbn [obind getnum2] in H.
    destruct (is_digit c13 && is_digit c14); [|discriminate H]. cbn [obind] in H.
    destruct (60 <=? dval c13 * 10 + dval c14); [discriminate H|].
    destruct ws.
    + cbn [expect] in H. destruct (N.eqb_spec c15 c_colon) as [->|]; [|discriminate H]. cbn [obind] in H.
      destruct r as [|c17 r]; cbn [getnum2 obind] in H; [discriminate H|].
      rewrite H16 in H. cbn [andb obind] in H. discriminate H.
    + cbn [obind] in H. unfold parse_zone in H.
      destruct (iso && (c15 =? c_Z)%N).
      * cbn [obind] in H. discriminate H.
      * destruct r as [|h2 [|cl [|m1 [|m2 rest]]]]; try discriminate H.
        destruct (negb (cl =? c_colon)%N); [discriminate H|].
        cbn [getnum2] in H. rewrite H16 in H. cbn [andb] in H. discriminate H.
Qed.

(* time.Parse after the minutes *)
Definition gtp_tail (ws iso : bool) (year month day hour mi : Z) (v : list N) : option gotime :=
  olet (sec, nsec, v) <-
    (if ws then
       olet v <- expect c_colon v;
       olet (sec, v) <- getnum2 v;
       if 60 <=? sec then None else
       let '(ns, v) := opt_fraction v in Some (sec, ns, v)
     else Some (0, 0, v));
  gtp_finish year month day hour mi sec nsec (parse_zone iso v).

Lemma gtp_dt16 ws nf iso y3 y2 y1 y0 o1 o0 d1 d0 h1 h0 i1 i0 v :
  is_digit y3 = true -> is_digit y2 = true -> is_digit y1 = true -> is_digit y0 = true ->
  is_digit o1 = true -> is_digit o0 = true -> 1 <= D2 o1 o0 <= 12 ->
  is_digit d1 = true -> is_digit d0 = true ->
  is_digit h1 = true -> is_digit h0 = true -> D2 h1 h0 < 24 ->
  is_digit i1 = true -> is_digit i0 = true -> D2 i1 i0 < 60 ->
  go_time_parse ws nf iso (dt16 y3 y2 y1 y0 o1 o0 d1 d0 h1 h0 i1 i0 ++ v) =
  gtp_tail ws iso (D4 y3 y2 y1 y0) (D2 o1 o0) (D2 d1 d0) (D2 h1 h0) (D2 i1 i0) v.
Proof.
  intros. unfold go_time_parse, dt16, gtp_tail, gtp_finish. cbn [app].
  rewrite year4_ok by assumption. ostep.
  rewrite getnum2_ok by assumption. ostep.
  replace ((D2 o1 o0 <=? 0) || (12 <? D2 o1 o0)) with false by lia.
  ostep. rewrite getnum2_ok by assumption. ostep.
  rewrite getnum12_ok by assumption. ostep.
  replace (24 <=? D2 h1 h0) with false by lia.
  ostep. rewrite getnum2_ok by assumption. ostep.
  replace (60 <=? D2 i1 i0) with false by lia.
  reflexivity.
Qed.

(* the end of time.Parse *)
Lemma gtp_finish_inv y mo d h mi s ns zr t : gtp_finish y mo d h mi s ns zr = Some t ->
  exists zoff, zr = Some (zoff, []) /\ 1 <= d <= days_in_month y mo /\
    t = (let t0 := go_date y mo d h mi s ns in mkTime (wrap_abs (g_abs t0 - zoff)) (g_nsec t0) zoff).
Proof.
  unfold gtp_finish. destruct zr as [[zoff v]|]; [|discriminate]. cbn [obind].
  destruct v; [|discriminate]. destruct ((d <? 1) || (days_in_month y mo <? d)) eqn:E; [discriminate|].
  intros H. inversion H. exists zoff. repeat split; try lia.
Qed.

(* ---- (C) the offset ------------------------------------------------------------------------------------------------- *)
Lemma parse_zone_inv iso z zoff : parse_zone iso z = Some (zoff, []) ->
  (iso = true /\ z = [c_Z] /\ zoff = 0) \/
  (exists sg h1 h0 m1 m0, z = [sg; h1; h0; c_colon; m1; m0] /\
     is_digit h1 = true /\ is_digit h0 = true /\ is_digit m1 = true /\ is_digit m0 = true /\
     ((sg = c_plus /\ zoff = (D2 h1 h0 * 60 + D2 m1 m0) * 60) \/
      (sg = c_minus /\ zoff = - ((D2 h1 h0 * 60 + D2 m1 m0) * 60)))).
Proof.
  unfold parse_zone. destruct z as [|c r]; [discriminate|].
  destruct (iso && (c =? c_Z)%N) eqn:E.
  - apply andb_true_iff in E as [-> E]. apply N.eqb_eq in E. subst c. intros H. inversion H. left. auto.
  - destruct r as [|h1 [|h0 [|cl [|m1 [|m0 rest]]]]]; try discriminate.
    destruct (N.eqb_spec cl c_colon) as [->|]; [|discriminate]. cbn [negb getnum2].
    destruct (is_digit h1) eqn:E1; [|discriminate]. destruct (is_digit h0) eqn:E0; [|discriminate].
    destruct (is_digit m1) eqn:E3; [|discriminate]. destruct (is_digit m0) eqn:E2; [|discriminate].
    cbn [andb]. destruct ((24 <? dval h1 * 10 + dval h0) || (60 <? dval m1 * 10 + dval m0)); [discriminate|].
    destruct (N.eqb_spec c c_plus) as [->|].
    + intros H. inversion H. right. exists c_plus, h1, h0, m1, m0. repeat split; auto.
    + destruct (N.eqb_spec c c_minus) as [->|]; [|discriminate].
      intros H. inversion H. right. exists c_minus, h1, h0, m1, m0. repeat split; auto.
Qed.

(* computeTimezoneKind and the zone of time.Parse together: an offset of the grammar, below a day *)
Lemma zone_inv k z zoff :
  compute_tz_kind z 0 = Ok k -> parse_zone (negb (is_unspec k)) z = Some (zoff, []) ->
  exists o om, SpellTs.off_ok o = true /\ SpellTs.off_text o = z /\ zoff = 60 * om /\ -1440 < om < 1440 /\
               SpellTs.off_fields o = (om, kind_code k).
Proof.
  intros Hk Hz. apply parse_zone_inv in Hz.
  destruct Hz as [(Hiso & -> & ->)|(sg & h1 & h0 & m1 & m0 & -> & H1 & H0 & H3 & H2 & Hs)].
  - cbv in Hk. inversion Hk. subst k. exists SpellTs.OffZ, 0. repeat split; lia.
  - unfold compute_tz_kind in Hk.
    change (slen [sg; h1; h0; c_colon; m1; m0]) with 6 in Hk. cbn [Z.leb Z.compare Z.add Z.ltb] in Hk.
    change (at_ [sg; h1; h0; c_colon; m1; m0] 0) with sg in Hk.
    change (at_ [sg; h1; h0; c_colon; m1; m0] 3) with c_colon in Hk.
    change (sub [sg; h1; h0; c_colon; m1; m0] 1 3) with [h1; h0] in Hk.
    change (from [sg; h1; h0; c_colon; m1; m0] 4) with [m1; m0] in Hk.
    rewrite N.eqb_refl in Hk. cbn [negb orb] in Hk.
    rewrite !go_parse_int32_2 in Hk by assumption.
    pose proof (D2_nonneg h1 h0 H1 H0) as Rh. pose proof (D2_nonneg m1 m0 H3 H2) as Rm.
    assert (Es : ((sg =? c_z) || (sg =? c_Z))%N = false) by (destruct Hs as [[-> _]|[-> _]]; reflexivity).
    rewrite Es in Hk.
    assert (Es2 : ((sg =? c_plus) || (sg =? c_minus))%N = true) by (destruct Hs as [[-> _]|[-> _]]; reflexivity).
    rewrite Es2 in Hk.
    destruct ((24 <=? D2 h1 h0) || (60 <=? D2 m1 m0)) eqn:ER; [discriminate Hk|].
    destruct ((D2 h1 h0 =? 0) && (D2 m1 m0 =? 0)) eqn:E0.
    + destruct Hs as [[-> ->]|[-> ->]].
      * exists (SpellTs.OffPlus (Z.to_N (D2 h1 h0)) (Z.to_N (D2 m1 m0))), 0.
        cbn [SpellTs.off_ok SpellTs.off_text SpellTs.off_fields]. rewrite !d2_chars by assumption.
        inversion Hk. subst k. cbn [kind_code].
        replace ((Z.to_N (D2 h1 h0) =? 0) && (Z.to_N (D2 m1 m0) =? 0))%N with true by lia.
        repeat split; try lia.
      * exists (SpellTs.OffMinus (Z.to_N (D2 h1 h0)) (Z.to_N (D2 m1 m0))), 0.
        cbn [SpellTs.off_ok SpellTs.off_text SpellTs.off_fields]. rewrite !d2_chars by assumption.
        inversion Hk. subst k. cbn [kind_code].
        replace ((Z.to_N (D2 h1 h0) =? 0) && (Z.to_N (D2 m1 m0) =? 0))%N with true by lia.
        repeat split; try lia.
    + inversion Hk. subst k. destruct Hs as [[-> ->]|[-> ->]].
      * exists (SpellTs.OffPlus (Z.to_N (D2 h1 h0)) (Z.to_N (D2 m1 m0))), (D2 h1 h0 * 60 + D2 m1 m0).
        cbn [SpellTs.off_ok SpellTs.off_text SpellTs.off_fields kind_code]. rewrite !d2_chars by assumption.
        replace ((Z.to_N (D2 h1 h0) =? 0) && (Z.to_N (D2 m1 m0) =? 0))%N with false by lia.
        repeat split; try lia. f_equal. lia.
      * exists (SpellTs.OffMinus (Z.to_N (D2 h1 h0)) (Z.to_N (D2 m1 m0))), (- (D2 h1 h0 * 60 + D2 m1 m0)).
        cbn [SpellTs.off_ok SpellTs.off_text SpellTs.off_fields kind_code]. rewrite !d2_chars by assumption.
        replace ((Z.to_N (D2 h1 h0) =? 0) && (Z.to_N (D2 m1 m0) =? 0))%N with false by lia.
        repeat split; try lia. f_equal. lia.
Qed.

(* ---- (D) the calendar ----------------------------------------------------------------------------------------------- *)
(* the local fields of the time that time.Parse builds from in-range fields and an offset below a day *)
Lemma parsed_time_fields y mo d h mi s ns om :
  valid_date y mo d = true -> tod_ok h mi s -> 1 <= y <= 9999 -> 0 <= ns < 1000000000 -> -1440 < om < 1440 ->
  let t0 := go_date y mo d h mi s ns in
  let tm := mkTime (wrap_abs (g_abs t0 - 60 * om)) (g_nsec t0) (60 * om) in
  tm = mkTime (abs_of y mo d h mi s - 60 * om) ns (60 * om) /\
  go_fields tm = (y, mo, d, h, mi, s).
Proof.
  intros V T Hy Hns Hom. cbv zeta.
  pose proof (proj2 (abs_of_year_bounds y mo d h mi s V T) Hy) as B. rewrite abs_lo_val, abs_hi_val in B.
  assert (Hmo : 1 <= mo <= 12) by (unfold valid_date in V; lia).
  rewrite (go_date_inrange y mo d h mi s ns Hmo T Hns). cbn [g_abs g_nsec].
  rewrite (wrap_abs_small (abs_of y mo d h mi s)) by (unfold two64z; lia).
  rewrite wrap_abs_small by (unfold two64z; lia).
  split; [reflexivity|].
  pose proof (go_fields_spec (mkTime (abs_of y mo d h mi s - 60 * om) ns (60 * om))) as S.
  cbv zeta in S. cbn [g_abs g_off] in S.
  replace (abs_of y mo d h mi s - 60 * om + 60 * om) with (abs_of y mo d h mi s) in S by lia.
  rewrite wrap_abs_small in S by (unfold two64z; lia).
  destruct (go_fields (mkTime (abs_of y mo d h mi s - 60 * om) ns (60 * om))) as [[[[[y' mo'] d'] h'] mi'] s'].
  destruct S as (V' & T' & E). apply abs_of_inj; auto.
Qed.

(* ---- (E) ParseTimestamp by precision ----------------------------------------------------------------------------------- *)
Ltac evl_in H t := let v := eval cbv in t in change t with v in H.
Ltac zb_in H := repeat match type of H with
  | context [?a <? ?b] => first [replace (a <? b) with false in H by lia | replace (a <? b) with true in H by lia]
  | context [?a <=? ?b] => first [replace (a <=? b) with false in H by lia | replace (a <=? b) with true in H by lia]
  | context [?a =? ?b] => first [replace (a =? b) with false in H by lia | replace (a =? b) with true in H by lia]
  end.

(* E1: the fields: parseTimestampField with fix_ts_sign *)
Lemma parse_field_inv2 a b v : parse_field patched [a; b] = Some v ->
  is_digit a = true /\ is_digit b = true /\ v = D2 a b.
Proof.
  unfold parse_field. cbn [fx_tsign patched all_digits andb].
  destruct (is_digit a) eqn:Ea; [|discriminate]. destruct (is_digit b) eqn:Eb; [|discriminate]. cbn [andb negb].
  rewrite go_parse_int32_2 by assumption. intros H. inversion H. auto.
Qed.
Lemma parse_field_inv4 a b c d v : parse_field patched [a; b; c; d] = Some v ->
  is_digit a = true /\ is_digit b = true /\ is_digit c = true /\ is_digit d = true /\ v = D4 a b c d.
Proof.
  unfold parse_field. cbn [fx_tsign patched all_digits andb].
  destruct (is_digit a) eqn:Ea; [|discriminate]. destruct (is_digit b) eqn:Eb; [|discriminate].
  destruct (is_digit c) eqn:Ec; [|discriminate]. destruct (is_digit d) eqn:Ed; [|discriminate]. cbn [andb negb].
  rewrite go_parse_int32_4 by assumption. intros H. inversion H. auto.
Qed.

(* E2: tryCreateDateTimestamp *)
Lemma try_date_valid y m d p t : try_date y m d p = Ok t -> valid_date y m d = true.
Proof.
  unfold try_date. set (t0 := go_date y m d 0 0 0 0). pose proof (go_fields_spec t0) as S. cbv zeta in S.
  unfold go_year, go_month, go_day. destruct (go_fields t0) as [[[[[y' mo'] d'] h'] mi'] s']. destruct S as (V & _).
  destruct ((y =? y') && (m =? mo') && (d =? d')) eqn:E; [|discriminate]. intros _.
  assert (Ey : y = y' /\ m = mo' /\ d = d') by lia. destruct Ey as (-> & -> & ->). exact V.
Qed.

Lemma try_date_inv y m d p t : 1 <= y <= 9999 -> rank p <= 3 -> try_date y m d p = Ok t ->
  valid_date y m d = true /\
  ts_fields t = [y; m; d; 0; 0; 0; 0; 0; 0; rank p; 0].
Proof.
  intros Hy Hp H. pose proof (try_date_valid y m d p t H) as V. split; [exact V|].
  assert (T0 : tod_ok 0 0 0) by (unfold tod_ok; lia).
  pose proof (proj2 (abs_of_year_bounds y m d 0 0 0 V T0) Hy) as B. rewrite abs_lo_val, abs_hi_val in B.
  assert (B2 : 0 <= abs_of y m d 0 0 0 < two64z) by (unfold two64z; lia).
  rewrite (try_date_ok y m d (abs_of y m d 0 0 0) p V eq_refl B2 Hp) in H. inversion H. subst t.
  unfold ts_fields. cbn [t_time t_kind t_prec t_nfrac].
  rewrite (go_fields_of_abs y m d 0 0 0 0 V T0 B2). cbn [g_nsec g_off kind_code]. reflexivity.
Qed.

(* E3: the date-only literals *)
(* the string is the spelling, or the spelling with a final lower-case t (date-only precisions) *)
Definition lit_of (s : list N) (sh : SpellTs.ts_shape) : Prop :=
  SpellTs.ts_text sh = s \/
  (exists p, s = p ++ [c_t] /\ SpellTs.ts_text sh = p ++ [c_T] /\
             match sh with SpellTs.TsYear _ | SpellTs.TsMonth _ _ | SpellTs.TsDay _ _ _ _ => True | _ => False end).
Definition accepted (s : list N) (t : ts) : Prop :=
  exists sh, SpellTs.ts_ok sh = true /\ lit_of s sh /\ SpellTs.ts_fields sh = ts_fields t.

Lemma is_tT_inv c : is_tT c = true -> c = c_t \/ c = c_T.
Proof. unfold is_tT. destruct (N.eqb_spec c c_t); [auto|]. destruct (N.eqb_spec c c_T); [auto|discriminate]. Qed.

Lemma lit_of_T (pre : list N) c sh : is_tT c = true -> SpellTs.ts_text sh = pre ++ [c_T] ->
  match sh with SpellTs.TsYear _ | SpellTs.TsMonth _ _ | SpellTs.TsDay _ _ _ _ => True | _ => False end ->
  lit_of (pre ++ [c]) sh.
Proof.
  intros Hc E Hs. destruct (is_tT_inv c Hc) as [->| ->]; [right; exists pre; auto|left; exact E].
Qed.

Lemma month_range_of y mo d : valid_date y mo d = true -> 1 <= mo <= 12.
Proof. unfold valid_date. lia. Qed.

Lemma accept_year c0 c1 c2 c3 c4 t : ts_parse patched [c0; c1; c2; c3; c4] = Ok t -> accepted [c0; c1; c2; c3; c4] t.
Proof.
  intros H. unfold ts_parse in H. cbv zeta in H. set (l := [c0; c1; c2; c3; c4]) in H.
  evl_in H (slen l). evl_in H (sub l 0 4). evl_in H (at_ l 4). zb_in H.
  destruct (parse_field patched [c0; c1; c2; c3]) as [year|] eqn:EY; [|discriminate H].
  apply parse_field_inv4 in EY as (H0 & H1 & H2 & H3 & ->).
  pose proof (D4_range c0 c1 c2 c3 H0 H1 H2 H3) as RY.
  destruct (D4 c0 c1 c2 c3 <? 1) eqn:E1; [discriminate H|]. cbn [andb] in H.
  destruct (is_tT c4) eqn:ET.
  2:{ destruct (negb (c4 =? c_minus)%N); discriminate H. }
  apply try_date_inv in H as [V F]; [|lia|cbn [rank]; lia].
  exists (SpellTs.TsYear (Z.to_N (D4 c0 c1 c2 c3))). split; [|split].
  - cbn [SpellTs.ts_ok]. unfold SpellTs.year_ok. lia.
  - apply (lit_of_T [c0; c1; c2; c3] c4); [exact ET| |exact I].
    cbn [SpellTs.ts_text]. rewrite d4_chars by assumption. reflexivity.
  - rewrite F. cbn [SpellTs.ts_fields rank]. rewrite Z2N.id by lia. reflexivity.
Qed.

Lemma accept_month c0 c1 c2 c3 c4 c5 c6 c7 t :
  ts_parse patched [c0; c1; c2; c3; c4; c5; c6; c7] = Ok t -> accepted [c0; c1; c2; c3; c4; c5; c6; c7] t.
Proof.
  intros H. unfold ts_parse in H. cbv zeta in H. set (l := [c0; c1; c2; c3; c4; c5; c6; c7]) in H.
  evl_in H (slen l). evl_in H (sub l 0 4). evl_in H (at_ l 4). evl_in H (sub l 5 7). evl_in H (at_ l 7). zb_in H.
  destruct (parse_field patched [c0; c1; c2; c3]) as [year|] eqn:EY; [|discriminate H].
  apply parse_field_inv4 in EY as (H0 & H1 & H2 & H3 & ->).
  pose proof (D4_range c0 c1 c2 c3 H0 H1 H2 H3) as RY.
  destruct (D4 c0 c1 c2 c3 <? 1) eqn:E1; [discriminate H|]. cbn [andb] in H.
  destruct (N.eqb_spec c4 c_minus) as [->|]; [|discriminate H]. cbn [negb] in H.
  destruct (parse_field patched [c5; c6]) as [month|] eqn:EM; [|discriminate H].
  apply parse_field_inv2 in EM as (H5 & H6 & ->). pose proof (D2_nonneg c5 c6 H5 H6) as RM.
  destruct (is_tT c7) eqn:ET.
  2:{ destruct (negb (c7 =? c_minus)%N); discriminate H. }
  apply try_date_inv in H as [V F]; [|lia|cbn [rank]; lia]. pose proof (month_range_of _ _ _ V) as Rmo.
  exists (SpellTs.TsMonth (Z.to_N (D4 c0 c1 c2 c3)) (Z.to_N (D2 c5 c6))). split; [|split].
  - cbn [SpellTs.ts_ok]. unfold SpellTs.year_ok, SpellTs.month_ok. lia.
  - apply (lit_of_T [c0; c1; c2; c3; c_minus; c5; c6] c7); [exact ET| |exact I].
    cbn [SpellTs.ts_text]. rewrite d4_chars, d2_chars by assumption. reflexivity.
  - rewrite F. cbn [SpellTs.ts_fields rank]. rewrite !Z2N.id by lia. reflexivity.
Qed.

Lemma date_text_chars y3 y2 y1 y0 o1 o0 d1 d0 :
  is_digit y3 = true -> is_digit y2 = true -> is_digit y1 = true -> is_digit y0 = true ->
  is_digit o1 = true -> is_digit o0 = true -> is_digit d1 = true -> is_digit d0 = true ->
  SpellTs.date_text (Z.to_N (D4 y3 y2 y1 y0)) (Z.to_N (D2 o1 o0)) (Z.to_N (D2 d1 d0)) =
  [y3; y2; y1; y0; c_minus; o1; o0; c_minus; d1; d0].
Proof. intros. unfold SpellTs.date_text. rewrite d4_chars, !d2_chars by assumption. reflexivity. Qed.

(* yyyy-mm-dd and yyyy-mm-ddT: the common part *)
Lemma accept_day_core c0 c1 c2 c3 c5 c6 c8 c9 year month day t :
  parse_field patched [c0; c1; c2; c3] = Some year -> (year <? 1) = false ->
  parse_field patched [c5; c6] = Some month -> parse_field patched [c8; c9] = Some day ->
  try_date year month day PDay = Ok t ->
  forall b, exists sh, sh = SpellTs.TsDay (Z.to_N year) (Z.to_N month) (Z.to_N day) b /\
    SpellTs.ts_ok sh = true /\
    SpellTs.date_text (Z.to_N year) (Z.to_N month) (Z.to_N day) = [c0; c1; c2; c3; c_minus; c5; c6; c_minus; c8; c9] /\
    SpellTs.ts_fields sh = ts_fields t.
Proof.
  intros EY E1 EM ED H b.
  apply parse_field_inv4 in EY as (H0 & H1 & H2 & H3 & ->).
  apply parse_field_inv2 in EM as (H5 & H6 & ->). apply parse_field_inv2 in ED as (H8 & H9 & ->).
  pose proof (D4_range c0 c1 c2 c3 H0 H1 H2 H3) as RY.
  pose proof (D2_nonneg c5 c6 H5 H6) as RM. pose proof (D2_nonneg c8 c9 H8 H9) as RD.
  apply try_date_inv in H as [V F]; [|lia|cbn [rank]; lia].
  eexists. split; [reflexivity|]. split; [|split].
  - cbn [SpellTs.ts_ok]. apply date_wf_of; [exact V|lia].
  - apply date_text_chars; assumption.
  - rewrite F. cbn [SpellTs.ts_fields rank]. rewrite !Z2N.id by lia. reflexivity.
Qed.

Lemma accept_day10 c0 c1 c2 c3 c4 c5 c6 c7 c8 c9 t :
  ts_parse patched [c0; c1; c2; c3; c4; c5; c6; c7; c8; c9] = Ok t ->
  accepted [c0; c1; c2; c3; c4; c5; c6; c7; c8; c9] t.
Proof.
  intros H. unfold ts_parse in H. cbv zeta in H. set (l := [c0; c1; c2; c3; c4; c5; c6; c7; c8; c9]) in H.
  evl_in H (slen l). evl_in H (sub l 0 4). evl_in H (at_ l 4). evl_in H (sub l 5 7). evl_in H (at_ l 7).
  evl_in H (sub l 8 10). evl_in H (at_ l 10). zb_in H.
  destruct (parse_field patched [c0; c1; c2; c3]) as [year|] eqn:EY; [|discriminate H].
  destruct (year <? 1) eqn:E1; [discriminate H|]. cbn [andb] in H.
  destruct (N.eqb_spec c4 c_minus) as [->|]; [|discriminate H]. cbn [negb] in H.
  destruct (parse_field patched [c5; c6]) as [month|] eqn:EM; [|discriminate H].
  destruct (N.eqb_spec c7 c_minus) as [->|]; [|discriminate H]. cbn [negb] in H.
  destruct (parse_field patched [c8; c9]) as [day|] eqn:ED; [|discriminate H]. cbn [orb] in H.
  destruct (accept_day_core _ _ _ _ _ _ _ _ _ _ _ _ EY E1 EM ED H false) as (sh & -> & Hok & Htx & Hf).
  eexists. split; [exact Hok|]. split; [|exact Hf]. left. cbn [SpellTs.ts_text]. rewrite Htx. reflexivity.
Qed.

Lemma accept_day11 c0 c1 c2 c3 c4 c5 c6 c7 c8 c9 c10 t :
  ts_parse patched [c0; c1; c2; c3; c4; c5; c6; c7; c8; c9; c10] = Ok t ->
  accepted [c0; c1; c2; c3; c4; c5; c6; c7; c8; c9; c10] t.
Proof.
  intros H. unfold ts_parse in H. cbv zeta in H. set (l := [c0; c1; c2; c3; c4; c5; c6; c7; c8; c9; c10]) in H.
  evl_in H (slen l). evl_in H (sub l 0 4). evl_in H (at_ l 4). evl_in H (sub l 5 7). evl_in H (at_ l 7).
  evl_in H (sub l 8 10). evl_in H (at_ l 10). zb_in H.
  destruct (parse_field patched [c0; c1; c2; c3]) as [year|] eqn:EY; [|discriminate H].
  destruct (year <? 1) eqn:E1; [discriminate H|]. cbn [andb] in H.
  destruct (N.eqb_spec c4 c_minus) as [->|]; [|discriminate H]. cbn [negb] in H.
  destruct (parse_field patched [c5; c6]) as [month|] eqn:EM; [|discriminate H].
  destruct (N.eqb_spec c7 c_minus) as [->|]; [|discriminate H]. cbn [negb] in H.
  destruct (parse_field patched [c8; c9]) as [day|] eqn:ED; [|discriminate H]. cbn [orb andb] in H.
  destruct (is_tT c10) eqn:ET; [|discriminate H].
  destruct (accept_day_core _ _ _ _ _ _ _ _ _ _ _ _ EY E1 EM ED H true) as (sh & -> & Hok & Htx & Hf).
  eexists. split; [exact Hok|]. split; [|exact Hf].
  apply (lit_of_T [c0; c1; c2; c3; c_minus; c5; c6; c_minus; c8; c9] c10); [exact ET| |exact I].
  cbn [SpellTs.ts_text]. rewrite Htx. reflexivity.
Qed.

(* E4: no other length below seventeen characters is accepted *)
Ltac norm_closed H :=
  unfold ts_parse in H; cbv zeta in H;
  repeat match type of H with
  | context [slen ?l] => evl_in H (slen l)
  | context [sub ?l ?a ?b] => evl_in H (sub l a b)
  | context [at_ ?l ?i] => evl_in H (at_ l i)
  end;
  zb_in H; cbn [andb orb negb] in H.
Ltac kill H :=
  repeat match type of H with
  | Err = Ok _ => discriminate H
  | context [match parse_field ?c ?x with _ => _ end] => destruct (parse_field c x); [|discriminate H]
  | context [if ?b then _ else _] => destruct b; cbn [andb orb negb] in H; try discriminate H
  end.

Ltac tail_var L := match L with _ :: ?r => tail_var r | ?v => v end.

Lemma short_lengths l t : ts_parse patched l = Ok t -> (length l <= 16)%nat ->
  (length l = 5 \/ length l = 8 \/ length l = 10 \/ length l = 11)%nat.
Proof.
  intros H Hl.
  do 17 (match type of H with ts_parse patched ?L = _ =>
           let v := tail_var L in destruct v as [|? ?]; [cbn [length]; try lia; exfalso; norm_closed H; kill H|] end).
  cbn [length] in Hl. lia.
Qed.

(* E5: the precisions with a time of day.  [time_part] is ParseTimestamp after the check len >= 17 *)
Definition time_part (cf : cfg) (l : list N) : res ts :=
  let n := slen l in
  let c16 := at_ l 16 in
  if ((c16 =? c_z) || (c16 =? c_Z) || (c16 =? c_plus) || (c16 =? c_minus))%N then
    do k <- compute_tz_kind l 16; new_ts_from_str l PMinute k
  else if (c16 =? c_colon)%N then
    if n <? 20 then Err else
    let idx := if (at_ l 19 =? c_dot)%N then 20 + count_digits (from l 20) else 19 in
    if fx_tbounds cf && (n <=? idx) then Err else
    do k <- compute_tz_kind l idx;
    if idx <=? 20 then new_ts_from_str l PSecond k
    else if idx <=? 28 then new_ts_from_str l PNano k
    else round_frac cf l idx k
  else Err.

(* the number of fraction digits of a literal: the digit characters from the twenty-first character on *)
Definition frac_digits (s : list N) : Z := count_digits (from s 20).

Lemma bind_inv {A B} (r : res A) (f : A -> res B) b : bind r f = Ok b -> exists a, r = Ok a /\ f a = Ok b.
Proof. destruct r; cbn [bind]; try discriminate. intros H. eauto. Qed.

Lemma ts_parse_long c0 c1 c2 c3 c4 c5 c6 c7 c8 c9 c10 c11 c12 c13 c14 c15 c16 r t :
  let l := c0 :: c1 :: c2 :: c3 :: c4 :: c5 :: c6 :: c7 :: c8 :: c9 :: c10 :: c11 :: c12 :: c13 :: c14 :: c15 :: c16 :: r in
  ts_parse patched l = Ok t ->
  is_digit c0 = true /\ is_digit c1 = true /\ is_digit c2 = true /\ is_digit c3 = true /\ 1 <= D4 c0 c1 c2 c3 /\
  time_part patched l = Ok t.
Proof.
  intros l H. unfold ts_parse in H. cbv zeta in H. pose proof (slen_nonneg r) as Hr.
  assert (En : slen l = 17 + slen r) by (unfold l, slen; cbn [length]; lia).
  unfold time_part. cbv zeta. rewrite En in *.
  evl_in H (sub l 0 4). evl_in H (at_ l 4). evl_in H (sub l 5 7). evl_in H (at_ l 7). evl_in H (sub l 8 10).
  evl_in H (at_ l 10).
  replace (17 + slen r <? 5) with false in H by lia. replace (17 + slen r =? 5) with false in H by lia.
  replace (17 + slen r <? 8) with false in H by lia. replace (17 + slen r =? 8) with false in H by lia.
  replace (17 + slen r <? 10) with false in H by lia. replace (17 + slen r =? 10) with false in H by lia.
  replace (17 + slen r =? 11) with false in H by lia. replace (17 + slen r <? 17) with false in H by lia.
  cbn [andb orb] in H.
  destruct (parse_field patched [c0; c1; c2; c3]) as [year|] eqn:EY; [|discriminate H].
  apply parse_field_inv4 in EY as (H0 & H1 & H2 & H3 & ->).
  destruct (D4 c0 c1 c2 c3 <? 1) eqn:E1; [discriminate H|].
  destruct (negb (c4 =? c_minus)%N); [discriminate H|].
  destruct (parse_field patched [c5; c6]) as [month|]; [|discriminate H].
  destruct (negb (c7 =? c_minus)%N); [discriminate H|].
  destruct (parse_field patched [c8; c9]) as [day|]; [|discriminate H].
  destruct (negb (is_tT c10)); [discriminate H|].
  repeat split; auto; try lia.
Qed.

(* what computeTimezoneKind looks at first *)
Definition zone_start (c : N) : bool := ((c =? c_z) || (c =? c_Z) || (c =? c_plus) || (c =? c_minus))%N.
Lemma zone_start_props c : zone_start c = true ->
  is_digit c = false /\ comma_or_period c = false /\ (c =? c_colon)%N = false /\ (c =? c_dot)%N = false.
Proof. unfold zone_start, is_digit, comma_or_period, c_z, c_Z, c_plus, c_minus, c_colon, c_dot, c_comma. lia. Qed.

Lemma ctk_head z k : compute_tz_kind z 0 = Ok k -> exists c r, z = c :: r /\ zone_start c = true.
Proof.
  unfold compute_tz_kind. destruct z as [|c r]; [discriminate|]. intros H. exists c, r. split; [reflexivity|].
  pose proof (slen_nonneg r). rewrite slen_cons in H. replace (1 + slen r <=? 0) with false in H by lia.
  change (at_ (c :: r) 0) with c in H. unfold zone_start.
  destruct ((c =? c_z) || (c =? c_Z))%N eqn:E1; [reflexivity|]. cbn [orb].
  destruct ((c =? c_plus) || (c =? c_minus))%N eqn:E2; [reflexivity|discriminate H].
Qed.

Lemma digits_split w : exists ds z, w = ds ++ z /\ all_digits ds = true /\ count_digits w = slen ds /\
  match z with c :: _ => is_digit c = false | [] => True end.
Proof.
  induction w as [|c w IH].
  - exists [], []. repeat split.
  - destruct (is_digit c) eqn:E.
    + destruct IH as (ds & z & -> & Hd & Hc & Hz). exists (c :: ds), z. cbn [app all_digits count_digits].
      rewrite E, Hd, Hc, slen_cons. repeat split. exact Hz.
    + exists [], (c :: w). cbn [app all_digits count_digits]. rewrite E. repeat split.
Qed.

Lemma zone_shape iso z zoff : parse_zone iso z = Some (zoff, []) -> Forall (fun x => x <> c_dot) z.
Proof.
  intros H. apply parse_zone_inv in H.
  destruct H as [(_ & -> & _)|(sg & h1 & h0 & m1 & m0 & -> & H1 & H0 & H3 & H2 & Hs)].
  - repeat constructor. discriminate.
  - apply digit_range in H1, H0, H3, H2. unfold c_dot.
    assert (sg <> 46%N) by (destruct Hs as [[-> _]|[-> _]]; discriminate).
    repeat constructor; try lia. discriminate.
Qed.

Lemma ntfs_gtp l p k t : new_ts_from_str l p k = Ok t ->
  exists tm, go_time_parse (5 <=? rank p) 0 (negb (is_unspec k)) l = Some tm.
Proof.
  unfold new_ts_from_str. intros H. apply bind_inv in H as (fu & _ & H).
  match type of H with match ?g with _ => _ end = _ => destruct g as [tm|] eqn:G; [|discriminate H] end.
  exists tm. exact G.
Qed.

(* the eleven numbers of the timestamp that time.Parse and NewTimestampWithFractionalSeconds build *)
Lemma built_fields Y M D h mi s ns om k p nf :
  1 <= M <= 12 -> 1 <= D <= days_in_month Y M -> tod_ok h mi s -> 1 <= Y <= 9999 -> 0 <= ns < 1000000000 ->
  -1440 < om < 1440 ->
  ts_fields (mkTs (let t0 := go_date Y M D h mi s ns in mkTime (wrap_abs (g_abs t0 - 60 * om)) (g_nsec t0) (60 * om)) p k nf)
  = [Y; M; D; h; mi; s; ns; om; kind_code k; rank p; nf].
Proof.
  intros HM HD T HY Hns Hom. assert (V : valid_date Y M D = true) by (unfold valid_date; lia).
  destruct (parsed_time_fields Y M D h mi s ns om V T HY Hns Hom) as [E F]. cbv zeta in E, F. cbv zeta.
  unfold ts_fields. cbn [t_time t_kind t_prec t_nfrac]. rewrite F, E. cbn [g_nsec g_off]. rewrite quot_60. reflexivity.
Qed.

Lemma date_wf_chars y3 y2 y1 y0 o1 o0 d1 d0 :
  is_digit y3 = true -> is_digit y2 = true -> is_digit y1 = true -> is_digit y0 = true ->
  is_digit o1 = true -> is_digit o0 = true -> is_digit d1 = true -> is_digit d0 = true ->
  1 <= D4 y3 y2 y1 y0 -> 1 <= D2 o1 o0 <= 12 -> 1 <= D2 d1 d0 <= days_in_month (D4 y3 y2 y1 y0) (D2 o1 o0) ->
  SpellTs.date_wf (Z.to_N (D4 y3 y2 y1 y0)) (Z.to_N (D2 o1 o0)) (Z.to_N (D2 d1 d0)) = true.
Proof.
  intros. pose proof (D4_range y3 y2 y1 y0). apply date_wf_of; [unfold valid_date|]; lia.
Qed.

Section TimeOfDay.
  Variables c0 c1 c2 c3 c5 c6 c8 c9 c11 c12 c14 c15 : N.
  Hypothesis H0 : is_digit c0 = true.  Hypothesis H1 : is_digit c1 = true.
  Hypothesis H2 : is_digit c2 = true.  Hypothesis H3 : is_digit c3 = true.
  Hypothesis HY : 1 <= D4 c0 c1 c2 c3.
  Hypothesis H5 : is_digit c5 = true.  Hypothesis H6 : is_digit c6 = true.
  Hypothesis HM : 1 <= D2 c5 c6 <= 12.
  Hypothesis H8 : is_digit c8 = true.  Hypothesis H9 : is_digit c9 = true.
  Hypothesis H11 : is_digit c11 = true.  Hypothesis H12 : is_digit c12 = true.
  Hypothesis Hh : D2 c11 c12 < 24.
  Hypothesis H14 : is_digit c14 = true.  Hypothesis H15 : is_digit c15 = true.
  Hypothesis Hi : D2 c14 c15 < 60.
  Let Y := D4 c0 c1 c2 c3.  Let M := D2 c5 c6.  Let D := D2 c8 c9.  Let hh := D2 c11 c12.  Let mi := D2 c14 c15.
  Let p16 := dt16 c0 c1 c2 c3 c5 c6 c8 c9 c11 c12 c14 c15.

  (* the end of every case: time.Parse has finished on an offset that computeTimezoneKind has classified *)
  Lemma finish_zone s ns z k tm :
    compute_tz_kind z 0 = Ok k ->
    gtp_finish Y M D hh mi s ns (parse_zone (negb (is_unspec k)) z) = Some tm ->
    0 <= s < 60 -> 0 <= ns < 1000000000 ->
    exists o om, SpellTs.off_ok o = true /\ SpellTs.off_text o = z /\ SpellTs.off_fields o = (om, kind_code k) /\
      SpellTs.date_wf (Z.to_N Y) (Z.to_N M) (Z.to_N D) = true /\
      Forall (fun x => x <> c_dot) z /\
      forall p nf, ts_fields (mkTs tm p k nf) = [Y; M; D; hh; mi; s; ns; om; kind_code k; rank p; nf].
  Proof.
    intros Hk G Hs Hns. apply gtp_finish_inv in G as (zoff & Hz & HD & ->).
    pose proof (zone_shape _ _ _ Hz) as Hnd.
    destruct (zone_inv k z zoff Hk Hz) as (o & om & Ho & Ht & -> & Hom & Hf).
    exists o, om. repeat split; auto.
    - apply date_wf_chars; assumption.
    - intros p nf. pose proof (D4_range c0 c1 c2 c3 H0 H1 H2 H3).
      pose proof (D2_nonneg c11 c12 H11 H12). pose proof (D2_nonneg c14 c15 H14 H15).
      apply built_fields; auto; unfold tod_ok; try lia.
  Qed.

  Lemma p16_text : SpellTs.date_text (Z.to_N Y) (Z.to_N M) (Z.to_N D) ++ 84%N :: SpellTs.d2 (Z.to_N hh) ++ 58%N :: SpellTs.d2 (Z.to_N mi) = p16.
  Proof. unfold Y, M, D, hh, mi. rewrite date_text_chars, !d2_chars by assumption. reflexivity. Qed.

  Lemma time_ok_chars : SpellTs.time_ok (Z.to_N hh) (Z.to_N mi) = true.
  Proof.
    pose proof (D2_nonneg c11 c12 H11 H12). pose proof (D2_nonneg c14 c15 H14 H15).
    unfold SpellTs.time_ok, hh, mi. lia.
  Qed.

  (* yyyy-mm-ddThh:mm<off> *)
  Lemma accept_minute z k t :
    compute_tz_kind (p16 ++ z) 16 = Ok k -> new_ts_from_str (p16 ++ z) PMinute k = Ok t -> accepted (p16 ++ z) t.
  Proof.
    intros Hk H. rewrite (ctk_app p16 z 16 eq_refl) in Hk.
    rewrite ntfs_coarse in H by (cbn [rank]; lia). cbn [rank] in H. change (5 <=? 4) with false in H.
    destruct (go_time_parse false 0 (negb (is_unspec k)) (p16 ++ z)) as [tm|] eqn:G; [|discriminate H].
    inversion H. subst t. clear H.
    unfold p16 in G. rewrite gtp_dt16 in G by assumption. unfold gtp_tail in G. cbn [obind] in G.
    destruct (finish_zone 0 0 z k tm Hk G) as (o & om & Ho & Ht & Hf & Hwf & _ & HF); try lia.
    exists (SpellTs.TsMinute (Z.to_N Y) (Z.to_N M) (Z.to_N D) (Z.to_N hh) (Z.to_N mi) o). split; [|split].
    - cbn [SpellTs.ts_ok]. rewrite Hwf, time_ok_chars, Ho. reflexivity.
    - left. cbn [SpellTs.ts_text]. rewrite <- p16_text, Ht, <- !app_assoc. cbn [app].
      rewrite <- !app_assoc. reflexivity.
    - rewrite HF. cbn [SpellTs.ts_fields rank]. rewrite Hf.
      pose proof (D4_range c0 c1 c2 c3 H0 H1 H2 H3).
      pose proof (D2_nonneg c11 c12 H11 H12). pose proof (D2_nonneg c14 c15 H14 H15).
      pose proof (D2_nonneg c8 c9 H8 H9).
      unfold Y, M, D, hh, mi. rewrite !Z2N.id by lia. reflexivity.
  Qed.
  (* time.Parse on yyyy-mm-ddThh:mm:ss... *)
  Lemma gtp_sec nf iso c17 c18 v tm :
    go_time_parse true nf iso (p16 ++ c_colon :: c17 :: c18 :: v) = Some tm ->
    is_digit c17 = true /\ is_digit c18 = true /\ D2 c17 c18 < 60 /\
    gtp_finish Y M D hh mi (D2 c17 c18) (fst (opt_fraction v)) (parse_zone iso (snd (opt_fraction v))) = Some tm.
  Proof.
    intros G. unfold p16 in G. rewrite gtp_dt16 in G by assumption. unfold gtp_tail in G.
    cbn [expect] in G. rewrite N.eqb_refl in G. cbn [obind getnum2] in G.
    destruct (is_digit c17) eqn:E17; [|discriminate G]. destruct (is_digit c18) eqn:E18; [|discriminate G].
    cbn [andb obind] in G. fold (D2 c17 c18) in G. destruct (60 <=? D2 c17 c18) eqn:E; [discriminate G|].
    destruct (opt_fraction v) as [ns v']. cbn [obind fst snd] in *. repeat split; auto. lia.
  Qed.

  Lemma p19_nodot c17 c18 : is_digit c17 = true -> is_digit c18 = true ->
    Forall (fun x => x <> c_dot) (p16 ++ [c_colon; c17; c18]).
  Proof.
    intros H17 H18. unfold p16, dt16. cbn [app].
    repeat (constructor; [first [discriminate | intros ->; discriminate]|]). constructor.
  Qed.

  (* yyyy-mm-ddThh:mm:ss<off> and yyyy-mm-ddThh:mm:ss.f<off> with at most eight fraction digits *)
  Lemma accept_seconds c17 c18 c19 w t :
    let l := p16 ++ c_colon :: c17 :: c18 :: c19 :: w in
    (c19 = c_dot -> frac_digits l <= 8) -> time_part patched l = Ok t -> accepted l t.
  Proof.
    intros l HF' H. unfold time_part in H. cbv zeta in H. pose proof (slen_nonneg w) as Hw.
    assert (En : slen l = 20 + slen w).
    { unfold l. rewrite slen_app, !slen_cons. change (slen p16) with 16. lia. }
    rewrite En in H.
    assert (E16 : at_ l 16 = c_colon) by reflexivity. assert (E19 : at_ l 19 = c19) by reflexivity.
    assert (E20 : from l 20 = w) by reflexivity.
    rewrite E16, E19, E20 in H.
    change ((c_colon =? c_z) || (c_colon =? c_Z) || (c_colon =? c_plus) || (c_colon =? c_minus))%N with false in H.
    change (c_colon =? c_colon)%N with true in H. cbv iota in H.
    replace (20 + slen w <? 20) with false in H by lia. cbn [fx_tbounds patched andb] in H.
    pose proof (D4_range c0 c1 c2 c3 H0 H1 H2 H3) as RY.
    pose proof (D2_nonneg c11 c12 H11 H12) as Rh. pose proof (D2_nonneg c14 c15 H14 H15) as Ri.
    pose proof (D2_nonneg c8 c9 H8 H9) as RD.
    destruct (N.eqb_spec c19 c_dot) as [Edot|Hnd].
    - (* a decimal point *)
      pose proof (HF' Edot) as HF. unfold frac_digits in HF. rewrite E20 in HF. clear HF' E16 E19 E20. subst c19.
      destruct (digits_split w) as (ds & z & Ew & Hds & Hcnt & Hz). rewrite Hcnt in H, HF.
      pose proof (slen_nonneg ds) as Hdl.
      destruct (20 + slen w <=? 20 + slen ds) eqn:Eb; [discriminate H|].
      apply bind_inv in H as (k & Hk & H).
      assert (El : l = (p16 ++ [c_colon; c17; c18; c_dot] ++ ds) ++ z).
      { unfold l. rewrite Ew, <- !app_assoc. reflexivity. }
      rewrite El in Hk. rewrite ctk_app in Hk by (rewrite !slen_app; change (slen p16) with 16; change (slen [c_colon; c17; c18; c_dot]) with 4; lia).
      destruct (ctk_head z k Hk) as (c & z' & Ez & Hc). destruct (zone_start_props c Hc) as (Hcd & Hcp & _ & Hcdot).
      replace (20 + slen ds <=? 28) with true in H by lia.
      assert (G : exists tm, go_time_parse true 0 (negb (is_unspec k)) l = Some tm).
      { destruct (20 + slen ds <=? 20); apply ntfs_gtp in H; exact H. }
      destruct G as (tm & G). unfold l in G. apply gtp_sec in G as (H17 & H18 & Hs & G).
      pose proof (D2_nonneg c17 c18 H17 H18) as Rs.
      destruct ds as [|d0 ds'].
      + (* no digit after the point *)
        exfalso. cbn [app] in Ew. rewrite Ew, Ez in G. unfold opt_fraction in G. rewrite Hcd, andb_false_r in G.
        cbn [fst snd] in G. apply gtp_finish_inv in G as (zoff & Hzz & _). apply parse_zone_inv in Hzz.
        destruct Hzz as [(_ & E & _)|(sg & a1 & a0 & b1 & b0 & E & _ & _ & _ & _ & [[-> _]|[-> _]])];
          cbv in E; discriminate E.
      + replace (20 + slen (d0 :: ds') <=? 20) with false in H by (rewrite slen_cons; pose proof (slen_nonneg ds'); lia).
        set (ds := d0 :: ds') in *.
        assert (Hd1 : 1 <= slen ds) by (unfold ds; rewrite slen_cons; pose proof (slen_nonneg ds'); lia).
        assert (Eo : opt_fraction (c_dot :: w) = (parse_nanos ds, z)).
        { rewrite Ew. apply opt_fraction_some; [exact Hds|discriminate|exact Hz]. }
        rewrite Eo in G. cbn [fst snd] in G.
        assert (Hns : 0 <= parse_nanos ds < 1000000000 /\
                      parse_nanos ds = SpellTs.dval (map (fun c => (c - 48)%N) ds) * 10 ^ (9 - slen ds)).
        { unfold parse_nanos. rewrite firstn_all2 by (unfold slen in HF; lia).
          rewrite <- (dval_fd_of ds 0 Hds). fold (SpellTs.dval (map (fun c => (c - 48)%N) ds)).
          split; [|reflexivity].
          pose proof (SpellTs.frac_ns_short (map (fun c => (c - 48)%N) ds) (forallb_fd_of ds Hds)) as B.
          rewrite map_length in B. unfold slen. apply B. unfold slen in HF. lia. }
        destruct Hns as [Hns Ens].
        destruct (finish_zone (D2 c17 c18) (parse_nanos ds) z k tm Hk G) as (o & om & Ho & Ht & Hf & Hwf & Hzd & HF2); try lia.
        assert (Et : t = mkTs tm PNano k (slen ds)).
        { replace l with ((p16 ++ [c_colon; c17; c18]) ++ c_dot :: ds ++ z) in H
            by (unfold l; rewrite Ew, <- !app_assoc; reflexivity).
          rewrite ntfs_nano in H; [| apply p19_nodot; assumption | exact Hds | lia | exact Hzd | rewrite Ez; exact Hcd].
          replace ((p16 ++ [c_colon; c17; c18]) ++ c_dot :: ds ++ z) with (p16 ++ c_colon :: c17 :: c18 :: c_dot :: w) in H
            by (rewrite Ew, <- !app_assoc; reflexivity).
          fold l in H.
          assert (G2 : go_time_parse true (slen ds) (negb (is_unspec k)) l = Some tm).
          { unfold l, p16. rewrite gtp_second by assumption. rewrite Eo. cbn [fst snd]. exact G. }
          rewrite G2 in H. inversion H. reflexivity. }
        subst t.
        exists (SpellTs.TsFrac (Z.to_N Y) (Z.to_N M) (Z.to_N D) (Z.to_N hh) (Z.to_N mi) (Z.to_N (D2 c17 c18))
                               (map (fun c => (c - 48)%N) ds) o).
        split; [|split].
        * cbn [SpellTs.ts_ok]. rewrite Hwf, time_ok_chars, Ho.
          replace (Z.to_N (D2 c17 c18) <? 60)%N with true by lia.
          unfold SpellTs.frac_ok. unfold ds at 1. cbn [map]. fold ds. rewrite (forallb_fd_of ds Hds). reflexivity.
        * left. cbn [SpellTs.ts_text]. rewrite (digs_fd_of ds Hds), d2_chars by assumption.
          rewrite <- (app_nil_r (SpellTs.d2 (Z.to_N mi))) at 1.
          unfold l. rewrite <- p16_text, Ht, Ew, <- !app_assoc. cbn [app]. rewrite <- !app_assoc. reflexivity.
        * rewrite HF2. cbn [SpellTs.ts_fields rank]. rewrite Hf.
          assert (Elen : length (map (fun c => (c - 48)%N) ds) = length ds) by apply map_length.
          assert (Efr : SpellTs.frac_ns (map (fun c => (c - 48)%N) ds) = parse_nanos ds).
          { unfold SpellTs.frac_ns. rewrite Elen. replace (length ds <=? 9)%nat with true by (unfold slen in HF; lia).
            rewrite Ens. reflexivity. }
          rewrite Efr. replace (parse_nanos ds =? 1000000000) with false by lia.
          rewrite Elen. unfold Y, M, D, hh, mi. rewrite !Z2N.id by lia.
          replace (Z.of_nat (Nat.min (length ds) 9)) with (slen ds) by (unfold slen in *; lia). reflexivity.
    - (* no decimal point *)
      replace (20 + slen w <=? 19) with false in H by lia.
      apply bind_inv in H as (k & Hk & H).
      assert (El : l = (p16 ++ [c_colon; c17; c18]) ++ c19 :: w) by (unfold l; rewrite <- !app_assoc; reflexivity).
      rewrite El in Hk. rewrite ctk_app in Hk by (rewrite !slen_app; change (slen p16) with 16; reflexivity).
      destruct (ctk_head _ k Hk) as (c & z' & Ez & Hc). inversion Ez. subst c z'. clear Ez.
      destruct (zone_start_props c19 Hc) as (Hcd & Hcp & _ & _).
      change (19 <=? 20) with true in H. cbv iota in H.
      rewrite ntfs_coarse in H by (cbn [rank]; lia). cbn [rank] in H. change (5 <=? 5) with true in H.
      destruct (go_time_parse true 0 (negb (is_unspec k)) l) as [tm|] eqn:G; [|discriminate H].
      inversion H. subst t. clear H.
      unfold l in G. apply gtp_sec in G as (H17 & H18 & Hs & G).
      pose proof (D2_nonneg c17 c18 H17 H18) as Rs.
      rewrite opt_fraction_none in G by exact Hcp. cbn [fst snd] in G.
      destruct (finish_zone (D2 c17 c18) 0 (c19 :: w) k tm Hk G) as (o & om & Ho & Ht & Hf & Hwf & _ & HF2); try lia.
      exists (SpellTs.TsSecond (Z.to_N Y) (Z.to_N M) (Z.to_N D) (Z.to_N hh) (Z.to_N mi) (Z.to_N (D2 c17 c18)) o).
      split; [|split].
      + cbn [SpellTs.ts_ok]. rewrite Hwf, time_ok_chars, Ho.
        replace (Z.to_N (D2 c17 c18) <? 60)%N with true by lia. reflexivity.
      + left. cbn [SpellTs.ts_text]. rewrite d2_chars by assumption.
        rewrite <- (app_nil_r (SpellTs.d2 (Z.to_N mi))) at 1.
        unfold l. rewrite <- p16_text, Ht, <- !app_assoc. cbn [app]. rewrite <- !app_assoc. reflexivity.
      + rewrite HF2. cbn [SpellTs.ts_fields rank]. rewrite Hf.
        unfold Y, M, D, hh, mi. rewrite !Z2N.id by lia. reflexivity.
  Qed.
  (* nine fraction digits or more (roundFractionalSeconds): the string is a valid literal.
     (That the rounded fields are [SpellTs.ts_fields] is not proved here.) *)
  Lemma valid_round c17 c18 w t :
    let l := p16 ++ c_colon :: c17 :: c18 :: c_dot :: w in
    9 <= frac_digits l -> time_part patched l = Ok t ->
    exists sh, SpellTs.ts_ok sh = true /\ SpellTs.ts_text sh = l.
  Proof.
    intros l HF H. unfold time_part in H. cbv zeta in H. pose proof (slen_nonneg w) as Hw.
    assert (En : slen l = 20 + slen w).
    { unfold l. rewrite slen_app, !slen_cons. change (slen p16) with 16. lia. }
    rewrite En in H. unfold frac_digits in HF.
    assert (E16 : at_ l 16 = c_colon) by reflexivity. assert (E19 : at_ l 19 = c_dot) by reflexivity.
    assert (E20 : from l 20 = w) by reflexivity.
    rewrite E16, E19, E20 in H. rewrite E20 in HF.
    change ((c_colon =? c_z) || (c_colon =? c_Z) || (c_colon =? c_plus) || (c_colon =? c_minus))%N with false in H.
    change (c_colon =? c_colon)%N with true in H. change (c_dot =? c_dot)%N with true in H. cbv iota in H.
    replace (20 + slen w <? 20) with false in H by lia. cbn [fx_tbounds patched andb] in H.
    pose proof (D4_range c0 c1 c2 c3 H0 H1 H2 H3) as RY.
    pose proof (D2_nonneg c11 c12 H11 H12) as Rh. pose proof (D2_nonneg c14 c15 H14 H15) as Ri.
    pose proof (D2_nonneg c8 c9 H8 H9) as RD.
    destruct (digits_split w) as (ds & z & Ew & Hds & Hcnt & Hz). rewrite Hcnt in H, HF.
    destruct (20 + slen w <=? 20 + slen ds) eqn:Eb; [discriminate H|].
    apply bind_inv in H as (k & Hk & H).
    set (P18 := p16 ++ [c_colon; c17]).
    assert (El : l = (P18 ++ [c18; c_dot]) ++ ds ++ z).
    { unfold l, P18. rewrite Ew, <- !app_assoc. reflexivity. }
    assert (S18 : slen P18 = 18) by reflexivity.
    assert (S20 : slen (P18 ++ [c18; c_dot]) = 20) by reflexivity.
    assert (Hk' := Hk). rewrite El, app_assoc in Hk'. rewrite ctk_app in Hk' by (rewrite slen_app, S20; reflexivity).
    destruct (ctk_head z k Hk') as (c & z' & Ez & Hc). destruct (zone_start_props c Hc) as (Hcd & Hcp & _ & Hcdot).
    assert (Hzd : match z with c :: _ => is_digit c = false | [] => True end) by (rewrite Ez; exact Hcd).
    replace (20 + slen ds <=? 20) with false in H by lia. replace (20 + slen ds <=? 28) with false in H by lia.
    unfold round_frac in H. cbv zeta in H. cbn [fx_tround patched negb andb] in H.
    assert (E18 : at_ l 18 = c18) by reflexivity. rewrite E18 in H.
    assert (Esub : sub l 20 (20 + slen ds) = ds) by (rewrite El; apply sub_app_mid; [symmetry; exact S20|reflexivity]).
    assert (Efrom : from l (20 + slen ds) = z).
    { rewrite El, app_assoc. apply from_app. rewrite slen_app, S20. reflexivity. }
    assert (Epre : sub l 0 18 = P18).
    { rewrite El, <- !app_assoc. apply sub_app_prefix. symmetry. exact S18. }
    rewrite Esub, Efrom, Epre in H.
    destruct (is_digit c18) eqn:H18.
    2:{ rewrite andb_false_r in H. cbn [bind] in H. discriminate H. }
    cbn [bind] in H.
    destruct (digits_val ds 0) as [fv|] eqn:Efv; [|discriminate H].
    (* the fraction digits are a number below 10^nd *)
    assert (Bfv : 0 <= fv < 10 ^ slen ds).
    { pose proof (dval_fd_of ds 0 Hds) as E. rewrite Efv in E. inversion E as [E'].
      pose proof (SpellTs.dval_bound _ (forallb_fd_of ds Hds)) as B. rewrite map_length in B.
      unfold SpellTs.dval in B. unfold slen. lia. }
    pose proof (digit_dval c18 H18) as Ru.
    set (P := 10 ^ slen ds) in *. assert (HP : 0 < P) by (apply Z.pow_pos_nonneg; lia).
    set (num := dval c18 * P + fv) in *.
    pose proof (text_round_patched_spec patched num (slen ds) eq_refl ltac:(nia) ltac:(lia)) as RS. fold P in RS.
    set (rr := text_round patched num (slen ds)) in *.
    assert (Rlo : dval c18 * 1000000000 <= rr) by nia.
    assert (Rhi : rr <= 10000000000) by nia.
    assert (Sec : forall x, is_digit c17 = true -> dval c18 <= x -> dval c17 * 10 + x < 60 -> D2 c17 c18 < 60)
      by (intros x _ Hx Hlt; unfold D2; lia).
    assert (Fin : forall c17' ns tm, is_digit c17 = true -> D2 c17 c18 < 60 ->
              gtp_finish Y M D hh mi c17' ns (parse_zone (negb (is_unspec k)) z) = Some tm -> 0 <= c17' < 60 ->
              0 <= ns < 1000000000 ->
              exists sh, SpellTs.ts_ok sh = true /\ SpellTs.ts_text sh = l).
    { intros s' ns tm H17 Hs G Hs' Hns.
      destruct (finish_zone s' ns z k tm Hk' G Hs' Hns) as (o & om & Ho & Ht & Hf & Hwf & _ & _).
      pose proof (D2_nonneg c17 c18 H17 H18) as Rs.
      assert (Hne : ds <> []) by (intros ->; change (slen []) with 0 in HF; lia).
      exists (SpellTs.TsFrac (Z.to_N Y) (Z.to_N M) (Z.to_N D) (Z.to_N hh) (Z.to_N mi) (Z.to_N (D2 c17 c18))
                             (map (fun c => (c - 48)%N) ds) o).
      split.
      - cbn [SpellTs.ts_ok]. rewrite Hwf, time_ok_chars, Ho.
        replace (Z.to_N (D2 c17 c18) <? 60)%N with true by lia.
        unfold SpellTs.frac_ok. destruct ds as [|d0 ds']; [congruence|]. cbn [map].
        change (map (fun c => (c - 48)%N) (d0 :: ds')) with ((d0 - 48)%N :: map (fun c => (c - 48)%N) ds').
        change ((d0 - 48)%N :: map (fun c => (c - 48)%N) ds') with (map (fun c => (c - 48)%N) (d0 :: ds')).
        rewrite (forallb_fd_of _ Hds). reflexivity.
      - cbn [SpellTs.ts_text]. rewrite (digs_fd_of ds Hds), d2_chars by assumption.
        rewrite <- (app_nil_r (SpellTs.d2 (Z.to_N mi))) at 1.
        unfold l. rewrite <- p16_text, Ht, Ew, <- !app_assoc. cbn [app]. rewrite <- !app_assoc. reflexivity. }
    fold rr in H.
    destruct (rr =? ten10) eqn:Eten.
    - (* the carry into the seconds *)
      match type of H with match ?g with _ => _ end = _ => destruct g as [tm|] eqn:G; [|discriminate H] end.
      unfold P18 in G. rewrite <- app_assoc in G. cbn [app] in G. unfold nine_zero in G. cbn [app] in G.
      apply gtp_sec in G as (H17 & _ & Hs & G).
      change (46 :: 48 :: 48 :: 48 :: 48 :: 48 :: 48 :: 48 :: 48 :: 48 :: z)%N
        with (c_dot :: [48; 48; 48; 48; 48; 48; 48; 48; 48]%N ++ z) in G.
      rewrite opt_fraction_some in G by (try reflexivity; try discriminate; exact Hzd). cbn [fst snd] in G.
      pose proof (digit_dval c17 H17) as R17.
      refine (Fin _ _ tm H17 _ G _ _).
      + apply (Sec 9 H17); [lia|exact Hs].
      + unfold D2 in *. change (dval 57) with 9 in *. lia.
      + vm_compute. split; [discriminate|reflexivity].
    - apply ntfs_gtp in H as (tm & G). cbn [rank] in G. change (5 <=? 6) with true in G.
      set (q := rr / 1000000000) in *. set (m := rr mod 1000000000) in *.
      assert (Rq : dval c18 <= q <= 9) by (unfold q, ten10 in *; lia).
      assert (Rm : 0 <= m < 1000000000) by (unfold m; lia).
      assert (Eq : dec_of_Z q = [Z.to_N (48 + q)]).
      { assert (Cq : q = 0 \/ q = 1 \/ q = 2 \/ q = 3 \/ q = 4 \/ q = 5 \/ q = 6 \/ q = 7 \/ q = 8 \/ q = 9) by lia.
        clearbody q. destruct Cq as [->|[->|[->|[->|[->|[->|[->|[->|[->| ->]]]]]]]]]; reflexivity. }
      rewrite Eq in G. unfold P18 in G. rewrite <- app_assoc in G. cbn [app] in G.
      apply gtp_sec in G as (H17 & Hq & Hs & G).
      rewrite opt_fraction_some in G; [|apply all_digits_fixw| |exact Hzd].
      2:{ intros E. apply (f_equal (@length N)) in E. rewrite fixw_length in E. discriminate E. }
      cbn [fst snd] in G. rewrite (parse_nanos_fixw 9 m) in G by (cbn; lia).
      change (10 ^ (9 - Z.of_nat 9)) with 1 in G.
      pose proof (digit_dval c17 H17) as R17.
      assert (Edv : dval (Z.to_N (48 + q)) = q) by (unfold dval; lia).
      refine (Fin _ _ tm H17 _ G _ _).
      + apply (Sec q H17); [lia|unfold D2 in Hs; rewrite Edv in Hs; exact Hs].
      + unfold D2 in *. rewrite Edv in *. lia.
      + lia.
  Qed.
End TimeOfDay.


(* E6: seventeen characters or more *)
Lemma time_part_facts c0 c1 c2 c3 c4 c5 c6 c7 c8 c9 c10 c11 c12 c13 c14 c15 c16 r t :
  let l := c0 :: c1 :: c2 :: c3 :: c4 :: c5 :: c6 :: c7 :: c8 :: c9 :: c10 :: c11 :: c12 :: c13 :: c14 :: c15 :: c16 :: r in
  frac_digits l <= 8 -> time_part patched l = Ok t ->
  (is_digit c0 = true /\ is_digit c1 = true /\ is_digit c2 = true /\ is_digit c3 = true) /\
  c4 = c_minus /\ (is_digit c5 = true /\ is_digit c6 = true /\ 1 <= D2 c5 c6 <= 12) /\
  c7 = c_minus /\ (is_digit c8 = true /\ is_digit c9 = true) /\ c10 = c_T /\
  (is_digit c11 = true /\ is_digit c12 = true /\ D2 c11 c12 < 24) /\ c13 = c_colon /\
  (is_digit c14 = true /\ is_digit c15 = true /\ D2 c14 c15 < 60).
Proof.
  intros l HF H. unfold time_part in H. cbv zeta in H. change (at_ l 16) with c16 in H.
  change ((c16 =? c_z) || (c16 =? c_Z) || (c16 =? c_plus) || (c16 =? c_minus))%N with (zone_start c16) in H.
  destruct (zone_start c16) eqn:Ez.
  - apply bind_inv in H as (k & _ & H). apply ntfs_gtp in H as (tm & G).
    destruct (zone_start_props c16 Ez) as (Hd & _). exact (gtp_inv16 _ _ _ _ _ _ _ _ _ _ _ _ _ _ _ _ _ _ _ _ _ _ Hd G).
  - destruct (N.eqb_spec c16 c_colon) as [E|]; [|discriminate H].
    assert (Hd : is_digit c16 = false) by (rewrite E; reflexivity).
    destruct (slen l <? 20); [discriminate H|].
    set (idx := if (at_ l 19 =? c_dot)%N then 20 + count_digits (from l 20) else 19) in H.
    assert (Hidx : idx <= 28) by (unfold idx; unfold frac_digits in HF; destruct (at_ l 19 =? c_dot)%N; lia).
    destruct (fx_tbounds patched && (slen l <=? idx)); [discriminate H|].
    apply bind_inv in H as (k & _ & H).
    assert (G : exists ws tm, go_time_parse ws 0 (negb (is_unspec k)) l = Some tm).
    { destruct (idx <=? 20); [apply ntfs_gtp in H as (tm & G); eauto|].
      replace (idx <=? 28) with true in H by lia. apply ntfs_gtp in H as (tm & G); eauto. }
    destruct G as (ws & tm & G). exact (gtp_inv16 _ _ _ _ _ _ _ _ _ _ _ _ _ _ _ _ _ _ _ _ _ _ Hd G).
Qed.

Lemma accept_long c0 c1 c2 c3 c4 c5 c6 c7 c8 c9 c10 c11 c12 c13 c14 c15 c16 r t :
  let l := c0 :: c1 :: c2 :: c3 :: c4 :: c5 :: c6 :: c7 :: c8 :: c9 :: c10 :: c11 :: c12 :: c13 :: c14 :: c15 :: c16 :: r in
  frac_digits l <= 8 -> ts_parse patched l = Ok t -> accepted l t.
Proof.
  intros l HF H. apply ts_parse_long in H as (H0 & H1 & H2 & H3 & HY & H). fold l in H.
  destruct (time_part_facts _ _ _ _ _ _ _ _ _ _ _ _ _ _ _ _ _ _ _ HF H)
    as (_ & E4 & (H5 & H6 & HM) & E7 & (H8 & H9) & E10 & (H11 & H12 & Hh) & E13 & (H14 & H15 & Hi)).
  subst c4 c7 c10 c13.
  pose proof H as H'. unfold time_part in H'. cbv zeta in H'. change (at_ l 16) with c16 in H'.
  change ((c16 =? c_z) || (c16 =? c_Z) || (c16 =? c_plus) || (c16 =? c_minus))%N with (zone_start c16) in H'.
  destruct (zone_start c16) eqn:Ez.
  - apply bind_inv in H' as (k & Hk & H').
    exact (accept_minute c0 c1 c2 c3 c5 c6 c8 c9 c11 c12 c14 c15 H0 H1 H2 H3 HY H5 H6 HM H8 H9 H11 H12 Hh H14 H15 Hi
                         (c16 :: r) k t Hk H').
  - destruct (N.eqb_spec c16 c_colon) as [E|]; [|discriminate H']. subst c16.
    destruct r as [|c17 [|c18 [|c19 w]]].
    + exfalso. evl_in H' (slen l). cbv in H'. discriminate H'.
    + exfalso. evl_in H' (slen l). change (18 <? 20) with true in H'. discriminate H'.
    + exfalso. evl_in H' (slen l). change (19 <? 20) with true in H'. discriminate H'.
    + exact (accept_seconds c0 c1 c2 c3 c5 c6 c8 c9 c11 c12 c14 c15 H0 H1 H2 H3 HY H5 H6 HM H8 H9 H11 H12 Hh H14 H15 Hi
                            c17 c18 c19 w t (fun _ => HF) H).
Qed.

(* ---- (F) the theorem, for literals with at most eight fraction digits ---------------------------------------------- *)
Theorem accepts_only_valid_partial s t : frac_digits s <= 8 -> ts_parse patched s = Ok t -> accepted s t.
Proof.
  intros HF H. destruct (Nat.le_gt_cases (length s) 16) as [L|L].
  - destruct (short_lengths s t H L) as [E|[E|[E|E]]].
    + do 6 (destruct s as [|? s]; try discriminate E). apply accept_year. exact H.
    + do 9 (destruct s as [|? s]; try discriminate E). apply accept_month. exact H.
    + do 11 (destruct s as [|? s]; try discriminate E). apply accept_day10. exact H.
    + do 12 (destruct s as [|? s]; try discriminate E). apply accept_day11. exact H.
  - do 17 (destruct s as [|? s]; [cbn [length] in L; lia|]). apply accept_long; assumption.
Qed.

(* the characters of a valid literal *)
Definition lit_char (c : N) : bool :=
  is_digit c || (c =? 45)%N || (c =? 84)%N || (c =? 58)%N || (c =? 46)%N || (c =? 43)%N || (c =? 90)%N.
Lemma dig_lit c : SpellTs.dig c -> lit_char c = true.
Proof. unfold SpellTs.dig, lit_char, is_digit. lia. Qed.
Lemma Forall_dig_lit l : Forall SpellTs.dig l -> Forall (fun c => lit_char c = true) l.
Proof. intros H. eapply Forall_impl; [|exact H]. exact dig_lit. Qed.
Lemma off_text_lit o : SpellTs.off_fits o = true -> Forall (fun c => lit_char c = true) (SpellTs.off_text o).
Proof.
  destruct o as [|hh mm|hh mm]; cbn [SpellTs.off_fits SpellTs.off_text]; intros H.
  - repeat constructor.
  - apply andb_true_iff in H as [Hh Hm]. constructor; [reflexivity|]. apply Forall_app. split.
    + apply Forall_dig_lit, SpellTs.d2_dig, Hh.
    + constructor; [reflexivity|]. apply Forall_dig_lit, SpellTs.d2_dig, Hm.
  - apply andb_true_iff in H as [Hh Hm]. constructor; [reflexivity|]. apply Forall_app. split.
    + apply Forall_dig_lit, SpellTs.d2_dig, Hh.
    + constructor; [reflexivity|]. apply Forall_dig_lit, SpellTs.d2_dig, Hm.
Qed.

Ltac lit_step :=
  match goal with
  | |- Forall _ (_ ++ _) => apply Forall_app; split
  | |- Forall _ (_ :: _) => constructor; [reflexivity|]
  | |- Forall _ [] => constructor
  | |- Forall _ (SpellTs.d2 _) => apply Forall_dig_lit, SpellTs.d2_dig; assumption
  | |- Forall _ (SpellTs.d4 _) => apply Forall_dig_lit, SpellTs.d4_dig; assumption
  | |- Forall _ (SpellTs.digs _) => apply Forall_dig_lit, SpellTs.digs_dig; assumption
  | |- Forall _ (SpellTs.off_text _) => apply off_text_lit; assumption
  | |- Forall _ (if ?b then _ else _) => destruct b
  end.

Lemma ts_text_lit sh : SpellTs.ts_ok sh = true -> Forall (fun c => lit_char c = true) (SpellTs.ts_text sh).
Proof.
  intros H. apply SpellTs.ts_ok_fits in H.
  destruct sh; cbn [SpellTs.ts_fits] in H; cbn [SpellTs.ts_text]; unfold SpellTs.date_text;
    repeat match type of H with (_ && _) = true => apply andb_true_iff in H; destruct H as [H ?] end;
    try match goal with F : SpellTs.frac_ok ?fd = true |- _ =>
          assert (forallb (fun d => (d <=? 9)%N) fd = true) by (destruct fd; [discriminate F|exact F]) end;
    repeat lit_step.
Qed.

(* no underscore, no other character outside the grammar, anywhere in an accepted string *)
Lemma accepted_chars s t : accepted s t -> Forall (fun c => lit_char c = true \/ c = c_t) s.
Proof.
  intros (sh & Hok & Hl & _). pose proof (ts_text_lit sh Hok) as F.
  destruct Hl as [<-|(p & -> & E & _)].
  - eapply Forall_impl; [|exact F]. intros c Hc. left. exact Hc.
  - rewrite E in F. apply Forall_app in F as [Fp _]. apply Forall_app. split.
    + eapply Forall_impl; [|exact Fp]. intros c Hc. left. exact Hc.
    + constructor; [right; reflexivity|constructor].
Qed.

(* the strict form: without a lower-case t the string is the spelling itself *)
Lemma accepted_strict s t : accepted s t -> Forall (fun c => c <> c_t) s ->
  exists sh, SpellTs.ts_ok sh = true /\ SpellTs.ts_text sh = s /\ SpellTs.ts_fields sh = ts_fields t.
Proof.
  intros (sh & Hok & Hl & Hf) Hn. exists sh. split; [exact Hok|]. split; [|exact Hf].
  destruct Hl as [E|(p & -> & _ & _)]; [exact E|].
  apply Forall_app in Hn as [_ Hn]. inversion Hn. congruence.
Qed.

(* the unrestricted statement, and why it fails: the lower-case t of the date-only precisions *)
Definition text_accepts_only_spellings (c : cfg) : Prop :=
  forall s t, ts_parse c s = Ok t ->
  exists sh, SpellTs.ts_ok sh = true /\ SpellTs.ts_text sh = s /\ SpellTs.ts_fields sh = ts_fields t.

Lemma no_spelling_with (s : list N) (bad : N) : In bad s -> lit_char bad = false ->
  forall sh, SpellTs.ts_ok sh = true -> SpellTs.ts_text sh <> s.
Proof.
  intros Hin Hb sh Hok E. pose proof (ts_text_lit sh Hok) as F. rewrite E in F.
  rewrite Forall_forall in F. specialize (F bad Hin). congruence.
Qed.

Lemma text_accepts_only_spellings_refuted : ~ text_accepts_only_spellings patched.
Proof.
  intros H. destruct (ts_parse patched [50; 48; 48; 48; 116]%N) as [t| | |] eqn:E; try (vm_compute in E; discriminate E).
  destruct (H _ t E) as (sh & Hok & Ht & _).
  apply (no_spelling_with [50; 48; 48; 48; 116]%N 116%N) in Ht; [exact Ht|cbn; tauto|reflexivity|exact Hok].
Qed.

(* before fix_ts_sign: a sign in the year, month or day field *)
Lemma text_accepts_sign_pinned :
  (exists t, ts_parse pinned [43; 50; 48; 48; 84]%N = Ok t) /\                               (* +200T *)
  (exists t, ts_parse pinned [50; 48; 48; 48; 45; 43; 50; 84]%N = Ok t) /\                   (* 2000-+2T *)
  (exists t, ts_parse pinned [50; 48; 48; 48; 45; 48; 50; 45; 43; 57]%N = Ok t) /\           (* 2000-02-+9 *)
  ts_parse patched [43; 50; 48; 48; 84]%N = Err /\
  ts_parse patched [50; 48; 48; 48; 45; 43; 50; 84]%N = Err /\
  ts_parse patched [50; 48; 48; 48; 45; 48; 50; 45; 43; 57]%N = Err.
Proof. repeat split; try (eexists; vm_compute; reflexivity); vm_compute; reflexivity. Qed.

(* contrapositive, for literals with at most eight fraction digits *)
Theorem rejects_invalid_partial s : frac_digits s <= 8 ->
  (forall sh, SpellTs.ts_ok sh = true -> ~ lit_of s sh) -> forall t, ts_parse patched s <> Ok t.
Proof.
  intros HF Hn t H. destruct (accepts_only_valid_partial s t HF H) as (sh & Hok & Hl & _). exact (Hn sh Hok Hl).
Qed.

Theorem rejects_bad_char_partial s c : frac_digits s <= 8 -> In c s -> lit_char c = false -> c <> c_t ->
  forall t, ts_parse patched s <> Ok t.
Proof.
  intros HF Hin Hc Hct t H. pose proof (accepted_chars s t (accepts_only_valid_partial s t HF H)) as F.
  rewrite Forall_forall in F. destruct (F c Hin); congruence.
Qed.

(* ---- (G) every string: what is accepted is a valid literal (nine fraction digits or more included) ------------------- *)
Lemma round_frac_gtp c0 c1 c2 c3 c4 c5 c6 c7 c8 c9 c10 c11 c12 c13 c14 c15 c16 c17 c18 c19 w idx k t :
  let l := c0 :: c1 :: c2 :: c3 :: c4 :: c5 :: c6 :: c7 :: c8 :: c9 :: c10 :: c11 :: c12 :: c13 :: c14 :: c15 :: c16 ::
           c17 :: c18 :: c19 :: w in
  round_frac patched l idx k = Ok t ->
  exists ws nf iso r' tm,
    go_time_parse ws nf iso (c0 :: c1 :: c2 :: c3 :: c4 :: c5 :: c6 :: c7 :: c8 :: c9 :: c10 :: c11 :: c12 :: c13 :: c14 ::
                             c15 :: c16 :: r') = Some tm.
Proof.
  intros l H. unfold round_frac in H. cbv zeta in H. evl_in H (sub l 0 18).
  apply bind_inv in H as (u & _ & H).
  destruct (digits_val (sub l 20 idx) 0); [|discriminate H].
  match type of H with (if ?b then _ else _) = _ => destruct b end.
  - match type of H with match ?g with _ => _ end = _ => destruct g as [tm|] eqn:G; [|discriminate H] end.
    cbn [app] in G. do 5 eexists. exact G.
  - apply ntfs_gtp in H as (tm & G). cbn [app] in G. do 5 eexists. exact G.
Qed.

Lemma time_part_facts_all c0 c1 c2 c3 c4 c5 c6 c7 c8 c9 c10 c11 c12 c13 c14 c15 c16 r t :
  let l := c0 :: c1 :: c2 :: c3 :: c4 :: c5 :: c6 :: c7 :: c8 :: c9 :: c10 :: c11 :: c12 :: c13 :: c14 :: c15 :: c16 :: r in
  time_part patched l = Ok t ->
  (is_digit c0 = true /\ is_digit c1 = true /\ is_digit c2 = true /\ is_digit c3 = true) /\
  c4 = c_minus /\ (is_digit c5 = true /\ is_digit c6 = true /\ 1 <= D2 c5 c6 <= 12) /\
  c7 = c_minus /\ (is_digit c8 = true /\ is_digit c9 = true) /\ c10 = c_T /\
  (is_digit c11 = true /\ is_digit c12 = true /\ D2 c11 c12 < 24) /\ c13 = c_colon /\
  (is_digit c14 = true /\ is_digit c15 = true /\ D2 c14 c15 < 60).
Proof.
  intros l H. unfold time_part in H. cbv zeta in H. change (at_ l 16) with c16 in H.
  change ((c16 =? c_z) || (c16 =? c_Z) || (c16 =? c_plus) || (c16 =? c_minus))%N with (zone_start c16) in H.
  destruct (zone_start c16) eqn:Ez.
  - apply bind_inv in H as (k & _ & H). apply ntfs_gtp in H as (tm & G).
    destruct (zone_start_props c16 Ez) as (Hd & _). exact (gtp_inv16 _ _ _ _ _ _ _ _ _ _ _ _ _ _ _ _ _ _ _ _ _ _ Hd G).
  - destruct (N.eqb_spec c16 c_colon) as [E|]; [|discriminate H].
    assert (Hd : is_digit c16 = false) by (rewrite E; reflexivity).
    destruct r as [|c17 [|c18 [|c19 w]]].
    + exfalso. evl_in H (slen l). cbv in H. discriminate H.
    + exfalso. evl_in H (slen l). change (18 <? 20) with true in H. discriminate H.
    + exfalso. evl_in H (slen l). change (19 <? 20) with true in H. discriminate H.
    + destruct (slen l <? 20); [discriminate H|].
      set (idx := if (at_ l 19 =? c_dot)%N then 20 + count_digits (from l 20) else 19) in H.
      destruct (fx_tbounds patched && (slen l <=? idx)); [discriminate H|].
      apply bind_inv in H as (k & _ & H).
      assert (G : exists ws nf iso r' tm,
                go_time_parse ws nf iso (c0 :: c1 :: c2 :: c3 :: c4 :: c5 :: c6 :: c7 :: c8 :: c9 :: c10 :: c11 :: c12 :: c13 ::
                                         c14 :: c15 :: c16 :: r') = Some tm).
      { destruct (idx <=? 20); [apply ntfs_gtp in H as (tm & G); do 5 eexists; exact G|].
        destruct (idx <=? 28); [apply ntfs_gtp in H as (tm & G); do 5 eexists; exact G|].
        exact (round_frac_gtp _ _ _ _ _ _ _ _ _ _ _ _ _ _ _ _ _ _ _ _ _ _ _ _ H). }
      destruct G as (ws & nf & iso & r' & tm & G). exact (gtp_inv16 _ _ _ _ _ _ _ _ _ _ _ _ _ _ _ _ _ _ _ _ _ _ Hd G).
Qed.

Definition valid_literal (s : list N) : Prop := exists sh, SpellTs.ts_ok sh = true /\ lit_of s sh.

Lemma accepted_valid s t : accepted s t -> valid_literal s.
Proof. intros (sh & Hok & Hl & _). exists sh. auto. Qed.

Lemma valid_long c0 c1 c2 c3 c4 c5 c6 c7 c8 c9 c10 c11 c12 c13 c14 c15 c16 r t :
  let l := c0 :: c1 :: c2 :: c3 :: c4 :: c5 :: c6 :: c7 :: c8 :: c9 :: c10 :: c11 :: c12 :: c13 :: c14 :: c15 :: c16 :: r in
  ts_parse patched l = Ok t -> valid_literal l.
Proof.
  intros l H. apply ts_parse_long in H as (H0 & H1 & H2 & H3 & HY & H). fold l in H.
  destruct (time_part_facts_all _ _ _ _ _ _ _ _ _ _ _ _ _ _ _ _ _ _ _ H)
    as (_ & E4 & (H5 & H6 & HM) & E7 & (H8 & H9) & E10 & (H11 & H12 & Hh) & E13 & (H14 & H15 & Hi)).
  subst c4 c7 c10 c13.
  pose proof H as H'. unfold time_part in H'. cbv zeta in H'. change (at_ l 16) with c16 in H'.
  change ((c16 =? c_z) || (c16 =? c_Z) || (c16 =? c_plus) || (c16 =? c_minus))%N with (zone_start c16) in H'.
  destruct (zone_start c16) eqn:Ez.
  - apply bind_inv in H' as (k & Hk & H'). apply (accepted_valid _ t).
    exact (accept_minute c0 c1 c2 c3 c5 c6 c8 c9 c11 c12 c14 c15 H0 H1 H2 H3 HY H5 H6 HM H8 H9 H11 H12 Hh H14 H15 Hi
                         (c16 :: r) k t Hk H').
  - destruct (N.eqb_spec c16 c_colon) as [E|]; [|discriminate H']. subst c16.
    destruct r as [|c17 [|c18 [|c19 w]]].
    + exfalso. evl_in H' (slen l). cbv in H'. discriminate H'.
    + exfalso. evl_in H' (slen l). change (18 <? 20) with true in H'. discriminate H'.
    + exfalso. evl_in H' (slen l). change (19 <? 20) with true in H'. discriminate H'.
    + destruct (Z_le_gt_dec (frac_digits l) 8) as [HF|HF].
      * apply (accepted_valid _ t).
        exact (accept_seconds c0 c1 c2 c3 c5 c6 c8 c9 c11 c12 c14 c15 H0 H1 H2 H3 HY H5 H6 HM H8 H9 H11 H12 Hh H14 H15 Hi
                              c17 c18 c19 w t (fun _ => HF) H).
      * destruct (N.eqb_spec c19 c_dot) as [->|Hnd].
        -- assert (HF9 : 9 <= frac_digits l) by lia.
           destruct (valid_round c0 c1 c2 c3 c5 c6 c8 c9 c11 c12 c14 c15 H0 H1 H2 H3 HY H5 H6 HM H8 H9 H11 H12 Hh H14 H15 Hi
                                 c17 c18 w t HF9 H) as (sh & Hok & Ht).
           exists sh. split; [exact Hok|left; exact Ht].
        -- apply (accepted_valid _ t).
           exact (accept_seconds c0 c1 c2 c3 c5 c6 c8 c9 c11 c12 c14 c15 H0 H1 H2 H3 HY H5 H6 HM H8 H9 H11 H12 Hh H14 H15 Hi
                                 c17 c18 c19 w t (fun E => False_ind _ (Hnd E)) H).
Qed.

(* every string that ParseTimestamp accepts is a valid literal *)
Theorem accepts_only_literals s t : ts_parse patched s = Ok t -> valid_literal s.
Proof.
  intros H. destruct (Nat.le_gt_cases (length s) 16) as [L|L].
  - apply (accepted_valid s t). destruct (short_lengths s t H L) as [E|[E|[E|E]]].
    + do 6 (destruct s as [|? s]; try discriminate E). apply accept_year. exact H.
    + do 9 (destruct s as [|? s]; try discriminate E). apply accept_month. exact H.
    + do 11 (destruct s as [|? s]; try discriminate E). apply accept_day10. exact H.
    + do 12 (destruct s as [|? s]; try discriminate E). apply accept_day11. exact H.
  - do 17 (destruct s as [|? s]; [cbn [length] in L; lia|]). apply (valid_long _ _ _ _ _ _ _ _ _ _ _ _ _ _ _ _ _ _ t). exact H.
Qed.

(* contrapositives, for every string *)
Theorem rejects_invalid s : ~ valid_literal s -> forall t, ts_parse patched s <> Ok t.
Proof. intros Hn t H. exact (Hn (accepts_only_literals s t H)). Qed.

Lemma valid_chars s : valid_literal s -> Forall (fun c => lit_char c = true \/ c = c_t) s.
Proof.
  intros (sh & Hok & Hl). pose proof (ts_text_lit sh Hok) as F.
  destruct Hl as [<-|(p & -> & E & _)].
  - eapply Forall_impl; [|exact F]. intros c Hc. left. exact Hc.
  - rewrite E in F. apply Forall_app in F as [Fp _]. apply Forall_app. split.
    + eapply Forall_impl; [|exact Fp]. intros c Hc. left. exact Hc.
    + constructor; [right; reflexivity|constructor].
Qed.

Theorem rejects_bad_char s c : In c s -> lit_char c = false -> c <> c_t -> forall t, ts_parse patched s <> Ok t.
Proof.
  intros Hin Hc Hct t H. pose proof (valid_chars s (accepts_only_literals s t H)) as F.
  rewrite Forall_forall in F. destruct (F c Hin); congruence.
Qed.

Theorem rejects_underscore s : In 95%N s -> forall t, ts_parse patched s <> Ok t.
Proof. intros Hin. apply (rejects_bad_char s 95%N Hin); [reflexivity|discriminate]. Qed.

(* ---- (H) the impossible dates and times of the property text, on the parser itself ---------------------------------- *)
Import String. Local Open Scope string_scope.
Definition rej (x : string) : Prop := ts_parse patched (bytes_of_string x) = Err.
Definition acc (x : string) : Prop := exists t, ts_parse patched (bytes_of_string x) = Ok t.

Lemma ex_month_13 : rej "2000-13T" /\ rej "2000-13-01" /\ rej "2000-13-01T00:00Z" /\ rej "2000-00T" /\ acc "2000-12T".
Proof. repeat split; try (vm_compute; reflexivity). eexists; vm_compute; reflexivity. Qed.
Lemma ex_day_0 : rej "2000-01-00" /\ rej "2000-01-00T" /\ rej "2000-01-00T00:00Z" /\ rej "2000-01-32" /\ acc "2000-01-31".
Proof. repeat split; try (vm_compute; reflexivity). eexists; vm_compute; reflexivity. Qed.
Lemma ex_february :
  rej "2000-02-30" /\ rej "2000-02-30T00:00Z" /\ rej "1900-02-29" /\ rej "2100-02-29T" /\ rej "2100-02-29T12:00:00Z" /\
  rej "2001-02-29" /\ acc "2000-02-29" /\ acc "2000-02-29T12:00:00Z" /\ acc "2004-02-29T" /\ acc "1900-02-28".
Proof. repeat split; try (vm_compute; reflexivity); eexists; vm_compute; reflexivity. Qed.
Lemma ex_hour_24 : rej "2000-01-01T24:00Z" /\ rej "2000-01-01T24:00:00Z" /\ rej "2000-01-01T24:00:00.0Z" /\ acc "2000-01-01T23:59Z".
Proof. repeat split; try (vm_compute; reflexivity). eexists; vm_compute; reflexivity. Qed.
Lemma ex_minute_60 : rej "2000-01-01T00:60Z" /\ rej "2000-01-01T00:60:00Z" /\ rej "2000-01-01T23:60:00.000-00:00".
Proof. repeat split; vm_compute; reflexivity. Qed.
Lemma ex_second_60 :
  rej "2000-01-01T00:00:60Z" /\ rej "2000-01-01T23:59:60Z" /\ rej "2000-01-01T00:00:60.5Z" /\
  rej "2000-01-01T00:00:60.0000000001Z" /\ acc "2000-01-01T23:59:59.9999999995Z".
Proof. repeat split; try (vm_compute; reflexivity). eexists; vm_compute; reflexivity. Qed.
Lemma ex_offset_day :
  rej "2000-01-01T00:00+24:00" /\ rej "2000-01-01T00:00-24:00" /\ rej "2000-01-01T00:00-23:60" /\ rej "2000-01-01T00:00:00+23:60" /\
  rej "2000-01-01T00:00:00.5+24:00" /\ rej "2000-01-01T00:00:00.1234567891-23:60" /\ acc "2000-01-01T00:00+23:59" /\
  acc "2000-01-01T00:00:00.5-23:59".
Proof. repeat split; try (vm_compute; reflexivity); eexists; vm_compute; reflexivity. Qed.
Lemma ex_year_0 : rej "0000T" /\ rej "0000-01T" /\ rej "0000-01-01" /\ rej "0000-01-01T00:00Z" /\ rej "0000-01-01T00:00:00.5Z" /\ acc "0001T" /\ acc "9999T".
Proof. repeat split; try (vm_compute; reflexivity); eexists; vm_compute; reflexivity. Qed.
Lemma ex_truncated :
  rej "" /\ rej "2000" /\ rej "2000-" /\ rej "2000-01" /\ rej "2000-01-" /\ rej "2000-01-0" /\ rej "2000-01-01T0" /\ rej "2000-01-01T00" /\
  rej "2000-01-01T00:" /\ rej "2000-01-01T00:00" /\ rej "2000-01-01T00:00:" /\ rej "2000-01-01T00:00:00" /\
  rej "2000-01-01T00:00:00." /\ rej "2000-01-01T00:00:00.5" /\ rej "2000-01-01T00:00:00.Z" /\ rej "2000-01-01T00:00+" /\
  rej "2000-01-01T00:00+01" /\ rej "2000-01-01T00:00+01:" /\ rej "2000-01-01T00:00+01:0" /\ rej "2000-01-01T00:00:00.1234567891".
Proof. repeat split; vm_compute; reflexivity. Qed.
Lemma ex_trailing :
  rej "2000T " /\ rej "2000TT" /\ rej "2000-01T0" /\ rej "2000-01-01x" /\ rej "2000-01-01T " /\ rej "2000-01-01T00:00ZZ" /\
  rej "2000-01-01T00:00Z " /\ rej "2000-01-01T00:00+01:000" /\ rej "2000-01-01T00:00:00Z0" /\ rej "2000-01-01T00:00:00.5Z5" /\
  rej "2000-01-01T00:00:00.1234567891Z1" /\ rej "2000-01-01T00:00:00.5-00:00:00".
Proof. repeat split; vm_compute; reflexivity. Qed.
Lemma ex_underscore :
  rej "2_00T" /\ rej "20_0-01T" /\ rej "2000-0_-01" /\ rej "2000-01-0_T" /\ rej "2000-01-01T0_:00Z" /\ rej "2000-01-01T00:0_Z" /\
  rej "2000-01-01T00:00:0_Z" /\ rej "2000-01-01T00:00:00.1_0Z" /\ rej "2000-01-01T00:00:00.123456789_1Z" /\
  rej "2000-01-01T00:00+0_:00" /\ rej "2000-01-01T00:00:00.5+00:0_" /\ rej "2000_01-01" /\ rej "2000-01-01T00_00Z" /\ rej "_000T".
Proof. repeat split; vm_compute; reflexivity. Qed.
Lemma ex_case_and_sign :
  acc "2000t" /\ acc "2000-01t" /\ acc "2000-01-01t" /\ rej "2000-01-01t00:00Z" /\ rej "2000-01-01T00:00z" /\
  rej "2000-01-01T00:00:00z" /\ rej "+200T" /\ rej "2000-+1T" /\ rej "2000-01-+1" /\ rej "2000-01-01T+1:00Z" /\ rej "2000-01-01T00:00:00,5Z".
Proof. repeat split; try (vm_compute; reflexivity); eexists; vm_compute; reflexivity. Qed.

(* the hypotheses are satisfiable: accepted literals of every precision, with the shape that spells them *)
Lemma ex_accepted :
  acc "2024-02-29T23:59:59.123456789+23:59" /\ acc "0001-01-01T00:00-00:00" /\ acc "9999-12-31" /\
  frac_digits (bytes_of_string "2024-02-29T23:59:59.12345678+23:59") = 8 /\
  SpellTs.ts_ok (SpellTs.TsFrac 2024 2 29 23 59 59 [1; 2; 3; 4; 5; 6; 7; 8]%N (SpellTs.OffPlus 23 59)) = true /\
  SpellTs.ts_text (SpellTs.TsFrac 2024 2 29 23 59 59 [1; 2; 3; 4; 5; 6; 7; 8]%N (SpellTs.OffPlus 23 59)) =
    bytes_of_string "2024-02-29T23:59:59.12345678+23:59".
Proof. repeat split; try (vm_compute; reflexivity); eexists; vm_compute; reflexivity. Qed.

Theorem accepts_only_valid_strict s t : frac_digits s <= 8 -> Forall (fun c => c <> c_t) s ->
  ts_parse patched s = Ok t ->
  exists sh, SpellTs.ts_ok sh = true /\ SpellTs.ts_text sh = s /\ SpellTs.ts_fields sh = ts_fields t.
Proof. intros HF Hn H. exact (accepted_strict s t (accepts_only_valid_partial s t HF H) Hn). Qed.
