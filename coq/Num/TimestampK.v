(* TimestampK.v — C15 (text): the fields of an accepted literal with nine fraction digits or more
   (roundFractionalSeconds).  Continues TimestampJ.v, which proves the field theorem for at most eight digits.

   (A) the rounding: text_round patched (u*10^nd + dval fd) nd = u*10^9 + SpellTs.frac_ns fd ([round_is_frac_ns]);
   (B) the calendar: SpellTs.next_second is a real date and time one second later on the absolute scale, through
       the end of the minute, hour, day, month (leap years) and year ([next_second_spec]); the fields of t.Add(1s)
       ([add_sec_fields]);
   (C) roundFractionalSeconds, all three cases: no carry, carry absorbed by the units digit of the seconds,
       and "Microsecond overflow" 9.9999999995 -> time.Add(1s) ([accept_round]);
   (D) [accepts_only_valid]: literal and fields for EVERY accepted string;
   (E) what SpellTs.ts_fields means for nine digits and more: the instant rounded half up to the nanosecond
       ([frac_fields_denote]) and the three cases ([fields_nine], [fields_no_carry], [fields_carry]);
   (F) the year 10000: [text_accepts_year_in_range_refuted], [text_accepts_year_except_carry];
   (G) examples. *)
From Coq Require Import List NArith ZArith Bool Lia ZifyBool ZifyN ZifyNat.
From Coq Require String.
From IonV Require Import Base.Wire Bin.Bits Num.Calendar Num.CalendarP Num.Timestamp Num.TimestampP Num.TimestampR Num.TimestampT
  Num.TimestampJ.
From IonV Require Text.SpecText Text.SpellTs.
Import ListNotations.
Open Scope Z_scope.
Ltac Zify.zify_post_hook ::= Z.div_mod_to_equations.

(* ---- (A) the rounding: r = u * 10^9 + frac_ns fd ------------------------------------------------------------------- *)
Lemma fold_dstep_acc : forall b a, fold_left SpellTs.dstep b a = a * 10 ^ Z.of_nat (length b) + fold_left SpellTs.dstep b 0.
Proof.
  induction b as [|d b IH]; intros a.
  - cbn [fold_left length]. change (10 ^ Z.of_nat 0) with 1. lia.
  - cbn [fold_left length]. rewrite (IH (SpellTs.dstep a d)), (IH (SpellTs.dstep 0 d)). unfold SpellTs.dstep.
    rewrite Nat2Z.inj_succ, Z.pow_succ_r by lia. ring.
Qed.
Lemma dval_app a b : SpellTs.dval (a ++ b) = SpellTs.dval a * 10 ^ Z.of_nat (length b) + SpellTs.dval b.
Proof. rewrite !SpellTs.dval_fold, fold_left_app. apply fold_dstep_acc. Qed.

Lemma rhu_split U B K G : 0 < K -> 0 < G -> round_half_up ((U * K + B) * G) (G * K) = U + (2 * B + K) / (2 * K).
Proof.
  intros HK HG. unfold round_half_up.
  replace (2 * ((U * K + B) * G) + G * K) with (G * (U * (2 * K) + (2 * B + K))) by ring.
  replace (2 * (G * K)) with (G * (2 * K)) by ring.
  rewrite Z.div_mul_cancel_l by lia. rewrite Z.div_add_l by lia. reflexivity.
Qed.

Lemma half_digit d T R : (d <= 9)%N -> 0 <= R < T ->
  (2 * (Z.of_N d * T + R) + 10 * T) / (2 * (10 * T)) = if (5 <=? d)%N then 1 else 0.
Proof.
  intros Hd HR. destruct (N.leb_spec 5 d) as [H5|H5]; symmetry.
  - apply Z.div_unique with (r := 2 * (Z.of_N d * T + R) + 10 * T - 20 * T); nia.
  - apply Z.div_unique with (r := 2 * (Z.of_N d * T + R) + 10 * T); nia.
Qed.

Lemma round_is_frac_ns fd u : forallb (fun d => d <=? 9)%N fd = true -> (9 <= length fd)%nat -> 0 <= u ->
  text_round patched (u * 10 ^ Z.of_nat (length fd) + SpellTs.dval fd) (Z.of_nat (length fd)) = u * 1000000000 + SpellTs.frac_ns fd.
Proof.
  intros Hfd L Hu. rewrite (SpellTs.frac_ns_long fd L). unfold text_round. cbn [fx_tround patched].
  rewrite <- (firstn_skipn 9 fd) at 1 2 3.
  set (a := firstn 9 fd). set (b := skipn 9 fd).
  assert (La : length a = 9%nat) by (unfold a; rewrite firstn_length; lia).
  assert (Hb : forallb (fun d => d <=? 9)%N b = true).
  { rewrite <- (firstn_skipn 9 fd) in Hfd. rewrite forallb_app in Hfd. apply andb_true_iff in Hfd as [_ H]. exact H. }
  rewrite dval_app, app_length, La. set (k := length b).
  replace (Z.of_nat (9 + k)) with (9 + Z.of_nat k) by lia. rewrite Z.pow_add_r by lia.
  change (10 ^ 9) with 1000000000. set (K := 10 ^ Z.of_nat k).
  assert (HK : 0 < K) by (apply Z.pow_pos_nonneg; lia).
  replace ((u * (1000000000 * K) + (SpellTs.dval a * K + SpellTs.dval b)) * 1000000000)
    with (((u * 1000000000 + SpellTs.dval a) * K + SpellTs.dval b) * 1000000000) by ring.
  rewrite rhu_split by lia. rewrite <- Z.add_assoc. f_equal. f_equal.
  assert (En : nth 9 fd 0%N = nth 0 b 0%N).
  { rewrite <- (firstn_skipn 9 fd) at 1. fold a b. rewrite app_nth2 by lia. rewrite La. reflexivity. }
  rewrite En. destruct b as [|d9 r] eqn:Eb.
  - unfold k, K. cbn [length nth]. reflexivity.
  - cbn [nth]. change (d9 :: r) with ([d9] ++ r). rewrite dval_app.
    cbn [forallb] in Hb. apply andb_true_iff in Hb as [H9 Hr].
    pose proof (SpellTs.dval_bound r Hr) as Br.
    unfold K, k. cbn [length]. rewrite Nat2Z.inj_succ, Z.pow_succ_r by lia.
    change (SpellTs.dval [d9]) with (0 * 10 + Z.of_N d9). rewrite Z.mul_0_l, Z.add_0_l.
    apply half_digit; [lia|exact Br].
Qed.

(* ---- (B) the calendar: one second later ------------------------------------------------------------------------------ *)
Lemma dfc_next_day y m d : days_from_civil y m (d + 1) = days_from_civil y m d + 1.
Proof. unfold days_from_civil. cbv zeta. lia. Qed.
Ltac closed_b := repeat match goal with
  | |- context [Z.leb ?a 2] => let v := eval cbv in (Z.leb a 2) in
       match v with true => change (Z.leb a 2) with true | false => change (Z.leb a 2) with false end
  end; cbv iota.
Lemma dfc_next_year y : days_from_civil (y + 1) 1 1 = days_from_civil y 12 31 + 1.
Proof. unfold days_from_civil, days_per_era, epoch_shift. cbv zeta. closed_b. lia. Qed.
Lemma dfc_next_month y m : 1 <= m <= 11 -> days_from_civil y (m + 1) 1 = days_from_civil y m (days_in_month y m) + 1.
Proof.
  intros Hm.
  assert (C : m = 1 \/ m = 2 \/ m = 3 \/ m = 4 \/ m = 5 \/ m = 6 \/ m = 7 \/ m = 8 \/ m = 9 \/ m = 10 \/ m = 11) by lia.
  destruct C as [->|[->|[->|[->|[->|[->|[->|[->|[->|[->| ->]]]]]]]]]];
    unfold days_from_civil, days_in_month, is_leap, days_per_era, epoch_shift; cbv zeta; closed_b;
    cbn [Z.eqb Z.add Pos.add Pos.succ Pos.eqb orb]; try lia.
  destruct ((y mod 4 =? 0) && (negb (y mod 100 =? 0) || (y mod 400 =? 0))) eqn:E.
  - assert (y mod 4 = 0 /\ (y mod 100 <> 0 \/ y mod 400 = 0)) as [A B] by lia. clear E.
    change ((153 * (3 - 3) + 2) / 5) with 0. change ((153 * 11 + 2) / 5) with 337. lia.
  - assert (y mod 4 <> 0 \/ (y mod 100 = 0 /\ y mod 400 <> 0)) as A by lia. clear E.
    change ((153 * (3 - 3) + 2) / 5) with 0. change ((153 * 11 + 2) / 5) with 337. lia.
Qed.

(* the civil fields one second later name a real date and time, one second later on the absolute scale
   (the year may become 10000) *)
Lemma next_second_spec y mo d h mi s : valid_date y mo d = true -> tod_ok h mi s ->
  let '(y2, mo2, d2, h2, mi2, s2) := SpellTs.next_second y mo d h mi s in
  valid_date y2 mo2 d2 = true /\ tod_ok h2 mi2 s2 /\ abs_of y2 mo2 d2 h2 mi2 s2 = abs_of y mo d h mi s + 1.
Proof.
  intros V (Hh & Hmi & Hs). unfold SpellTs.next_second. rewrite month_len_eq.
  pose proof (valid_date_ranges y mo d V) as [Rm Rd].
  assert (Vd : 1 <= d <= days_in_month y mo) by (unfold valid_date in V; lia).
  destruct (s <? 59) eqn:E1; [split; [exact V|split; [unfold tod_ok; lia|unfold abs_of; lia]]|].
  destruct (mi <? 59) eqn:E2; [split; [exact V|split; [unfold tod_ok; lia|unfold abs_of; lia]]|].
  destruct (h <? 23) eqn:E3; [split; [exact V|split; [unfold tod_ok; lia|unfold abs_of; lia]]|].
  destruct (d <? days_in_month y mo) eqn:E4.
  - split; [unfold valid_date; lia|split; [unfold tod_ok; lia|]]. unfold abs_of. rewrite dfc_next_day. lia.
  - assert (Ed : d = days_in_month y mo) by lia.
    destruct (mo <? 12) eqn:E5.
    + assert (P : 1 <= days_in_month y (mo + 1)) by (unfold days_in_month; destruct (mo + 1 =? 2), (is_leap y), ((mo + 1 =? 4) || (mo + 1 =? 6) || (mo + 1 =? 9) || (mo + 1 =? 11)); lia).
      split; [unfold valid_date; lia|split; [unfold tod_ok; lia|]]. unfold abs_of. rewrite dfc_next_month by lia. rewrite Ed. lia.
    + assert (mo = 12) by lia. subst mo. assert (Ed' : d = 31) by (rewrite Ed; reflexivity). clear Ed Vd V E4. subst d.
      split; [reflexivity|split; [unfold tod_ok; lia|]]. unfold abs_of. rewrite dfc_next_year. lia.
Qed.

(* the timestamp one second after a parsed time with no fraction: its eleven numbers *)
Lemma add_sec_fields y mo d h mi s om k p nf :
  valid_date y mo d = true -> tod_ok h mi s -> 1 <= y <= 9999 -> -1440 < om < 1440 ->
  ts_fields (mkTs (go_add_sec (mkTime (abs_of y mo d h mi s - 60 * om) 0 (60 * om)) 1) p k nf) =
  let '(y2, mo2, d2, h2, mi2, s2) := SpellTs.next_second y mo d h mi s in
  [y2; mo2; d2; h2; mi2; s2; 0; om; kind_code k; rank p; nf].
Proof.
  intros V T Hy Hom.
  pose proof (proj2 (abs_of_year_bounds y mo d h mi s V T) Hy) as B. rewrite abs_lo_val, abs_hi_val in B.
  pose proof (next_second_spec y mo d h mi s V T) as S.
  destruct (SpellTs.next_second y mo d h mi s) as [[[[[y2 mo2] d2] h2] mi2] s2]. destruct S as (V2 & T2 & E2).
  unfold go_add_sec. cbn [g_abs g_nsec g_off].
  rewrite wrap_abs_small by (unfold two64z; lia).
  unfold ts_fields. cbn [t_time t_kind t_prec t_nfrac].
  pose proof (go_fields_spec (mkTime (abs_of y mo d h mi s - 60 * om + 1) 0 (60 * om))) as GS.
  cbv zeta in GS. cbn [g_abs g_off] in GS.
  replace (abs_of y mo d h mi s - 60 * om + 1 + 60 * om) with (abs_of y mo d h mi s + 1) in GS by lia.
  rewrite wrap_abs_small in GS by (unfold two64z; lia).
  destruct (go_fields (mkTime (abs_of y mo d h mi s - 60 * om + 1) 0 (60 * om))) as [[[[[y' mo'] d'] h'] mi'] s'].
  destruct GS as (V' & T' & E'). rewrite <- E2 in E'.
  pose proof (abs_of_inj _ _ _ _ _ _ _ _ _ _ _ _ V' V2 T' T2 E') as EE. inversion EE. subst.
  cbn [g_nsec g_off]. rewrite quot_60. reflexivity.
Qed.

(* ---- (C) roundFractionalSeconds: the fields --------------------------------------------------------------------------- *)
Section TimeOfDayK.
  Variables c0 c1 c2 c3 c5 c6 c8 c9 c11 c12 c14 c15 : N.
  Hypothesis H0 : is_digit c0 = true.  Hypothesis H1 : is_digit c1 = true.
  Hypothesis H2 : is_digit c2 = true.  Hypothesis H3 : is_digit c3 = true.
  Hypothesis HY : 1 <= D4 c0 c1 c2 c3.
  Hypothesis H5 : is_digit c5 = true.  Hypothesis H6 : is_digit c6 = true.
  Hypothesis HM : 1 <= D2 c5 c6 <= 12.
  Hypothesis H8 : is_digit c8 = true.  Hypothesis H9 : is_digit c9 = true.
  Hypothesis H11 : is_digit c11 = true.  Hypothesis H12 : is_digit c12 = true.
  Hypothesis Hh : D2 c11 c12 < 24.
  Hypothesis H14 : is_digit c14 = true.  Hypothesis H15 : is_digit c15 = true.
  Hypothesis Hi : D2 c14 c15 < 60.
  Let Y := D4 c0 c1 c2 c3.  Let M := D2 c5 c6.  Let D := D2 c8 c9.  Let hh := D2 c11 c12.  Let mi := D2 c14 c15.
  Let p16 := dt16 c0 c1 c2 c3 c5 c6 c8 c9 c11 c12 c14 c15.
  Local Notation gtp_sec' := (gtp_sec c0 c1 c2 c3 c5 c6 c8 c9 c11 c12 c14 c15 H0 H1 H2 H3 H5 H6 HM H8 H9 H11 H12 Hh H14 H15 Hi).
  Local Notation p16_text' := (p16_text c0 c1 c2 c3 c5 c6 c8 c9 c11 c12 c14 c15 H0 H1 H2 H3 H5 H6 H8 H9 H11 H12 H14 H15).
  Local Notation time_ok_chars' := (time_ok_chars c0 c1 c2 c3 c5 c6 c8 c9 c11 c12 c14 c15 H11 H12 Hh H14 H15 Hi).

  (* [finish_zone] of TimestampJ.v, with the time itself *)
  Lemma finish_zone_tm s ns z k tm :
    compute_tz_kind z 0 = Ok k ->
    gtp_finish Y M D hh mi s ns (parse_zone (negb (is_unspec k)) z) = Some tm ->
    0 <= s < 60 -> 0 <= ns < 1000000000 ->
    exists o om, SpellTs.off_ok o = true /\ SpellTs.off_text o = z /\ SpellTs.off_fields o = (om, kind_code k) /\
      SpellTs.date_wf (Z.to_N Y) (Z.to_N M) (Z.to_N D) = true /\
      Forall (fun x => x <> c_dot) z /\
      valid_date Y M D = true /\ tod_ok hh mi s /\ 1 <= Y <= 9999 /\ -1440 < om < 1440 /\
      tm = mkTime (abs_of Y M D hh mi s - 60 * om) ns (60 * om) /\
      forall p nf, ts_fields (mkTs tm p k nf) = [Y; M; D; hh; mi; s; ns; om; kind_code k; rank p; nf].
  Proof.
    intros Hk G Hs Hns. apply gtp_finish_inv in G as (zoff & Hz & HD & ->).
    pose proof (zone_shape _ _ _ Hz) as Hnd.
    destruct (zone_inv k z zoff Hk Hz) as (o & om & Ho & Ht & -> & Hom & Hf).
    pose proof (D4_range c0 c1 c2 c3 H0 H1 H2 H3) as RY.
    pose proof (D2_nonneg c11 c12 H11 H12). pose proof (D2_nonneg c14 c15 H14 H15).
    assert (V : valid_date Y M D = true) by (unfold valid_date, Y, M, D in *; lia).
    assert (T : tod_ok hh mi s) by (unfold tod_ok, hh, mi; lia).
    assert (HYr : 1 <= Y <= 9999) by (unfold Y; lia).
    exists o, om. split; [exact Ho|]. split; [exact Ht|]. split; [exact Hf|].
    split; [apply date_wf_chars; assumption|]. split; [exact Hnd|]. split; [exact V|]. split; [exact T|].
    split; [exact HYr|]. split; [exact Hom|]. split.
    - destruct (parsed_time_fields Y M D hh mi s ns om V T HYr Hns Hom) as [E _]. cbv zeta in E. exact E.
    - intros p nf. apply built_fields; auto; unfold Y, M, D in *; lia.
  Qed.

  Lemma accept_round c17 c18 w t :
    let l := p16 ++ c_colon :: c17 :: c18 :: c_dot :: w in
    9 <= frac_digits l -> time_part patched l = Ok t -> accepted l t.
  Proof.
    intros l HF H. unfold time_part in H. cbv zeta in H. pose proof (slen_nonneg w) as Hw.
    assert (En : slen l = 20 + slen w).
    { unfold l. rewrite slen_app, !slen_cons. change (slen p16) with 16. lia. }
    rewrite En in H. unfold frac_digits in HF.
    assert (E16 : at_ l 16 = c_colon) by reflexivity. assert (E19 : at_ l 19 = c_dot) by reflexivity.
    assert (E20 : from l 20 = w) by reflexivity.
    rewrite E16, E19, E20 in H. rewrite E20 in HF.
    change ((c_colon =? c_z) || (c_colon =? c_Z) || (c_colon =? c_plus) || (c_colon =? c_minus))%N with false in H.
    change (c_colon =? c_colon)%N with true in H. change (c_dot =? c_dot)%N with true in H. cbv iota in H.
    replace (20 + slen w <? 20) with false in H by lia. cbn [fx_tbounds patched andb] in H.
    pose proof (D4_range c0 c1 c2 c3 H0 H1 H2 H3) as RY.
    pose proof (D2_nonneg c11 c12 H11 H12) as Rh. pose proof (D2_nonneg c14 c15 H14 H15) as Ri.
    pose proof (D2_nonneg c8 c9 H8 H9) as RD.
    destruct (digits_split w) as (ds & z & Ew & Hds & Hcnt & Hz). rewrite Hcnt in H, HF.
    destruct (20 + slen w <=? 20 + slen ds) eqn:Eb; [discriminate H|].
    apply bind_inv in H as (k & Hk & H).
    set (P18 := p16 ++ [c_colon; c17]).
    assert (El : l = (P18 ++ [c18; c_dot]) ++ ds ++ z).
    { unfold l, P18. rewrite Ew, <- !app_assoc. reflexivity. }
    assert (S18 : slen P18 = 18) by reflexivity.
    assert (S20 : slen (P18 ++ [c18; c_dot]) = 20) by reflexivity.
    assert (Hk' := Hk). rewrite El, app_assoc in Hk'. rewrite ctk_app in Hk' by (rewrite slen_app, S20; reflexivity).
    destruct (ctk_head z k Hk') as (c & z' & Ez & Hc). destruct (zone_start_props c Hc) as (Hcd & Hcp & _ & Hcdot).
    assert (Hzd : match z with c :: _ => is_digit c = false | [] => True end) by (rewrite Ez; exact Hcd).
    replace (20 + slen ds <=? 20) with false in H by lia. replace (20 + slen ds <=? 28) with false in H by lia.
    unfold round_frac in H. cbv zeta in H. cbn [fx_tround patched negb andb] in H.
    assert (E18 : at_ l 18 = c18) by reflexivity. rewrite E18 in H.
    assert (Esub : sub l 20 (20 + slen ds) = ds) by (rewrite El; apply sub_app_mid; [symmetry; exact S20|reflexivity]).
    assert (Efrom : from l (20 + slen ds) = z).
    { rewrite El, app_assoc. apply from_app. rewrite slen_app, S20. reflexivity. }
    assert (Epre : sub l 0 18 = P18).
    { rewrite El, <- !app_assoc. apply sub_app_prefix. symmetry. exact S18. }
    rewrite Esub, Efrom, Epre in H.
    destruct (is_digit c18) eqn:H18.
    2:{ rewrite andb_false_r in H. cbn [bind] in H. discriminate H. }
    cbn [bind] in H.
    destruct (digits_val ds 0) as [fv|] eqn:Efv; [|discriminate H].
    set (fd := map (fun c => (c - 48)%N) ds).
    assert (Hfd : forallb (fun d => (d <=? 9)%N) fd = true) by (apply forallb_fd_of; exact Hds).
    assert (Lfd : length fd = length ds) by apply map_length.
    assert (Efd : fv = SpellTs.dval fd).
    { pose proof (dval_fd_of ds 0 Hds) as E. rewrite Efv in E. inversion E. reflexivity. }
    pose proof (digit_dval c18 H18) as Ru.
    assert (L9 : (9 <= length fd)%nat) by (unfold slen in HF; lia).
    assert (Err : text_round patched (dval c18 * 10 ^ slen ds + fv) (slen ds) = dval c18 * 1000000000 + SpellTs.frac_ns fd).
    { unfold slen. rewrite <- Lfd, Efd. apply round_is_frac_ns; [exact Hfd|exact L9|lia]. }
    rewrite Err in H.
    assert (Rfr : 0 <= SpellTs.frac_ns fd <= 1000000000).
    { rewrite (SpellTs.frac_ns_long fd L9). pose proof (SpellTs.dval_firstn9 fd Hfd). destruct (5 <=? nth 9 fd 0)%N; lia. }
    set (fr := SpellTs.frac_ns fd) in *.
    assert (Hne : ds <> []) by (intros ->; change (slen []) with 0 in HF; lia).
    assert (Hfok : SpellTs.frac_ok fd = true).
    { unfold SpellTs.frac_ok. destruct fd as [|d0 fd'] eqn:Efd0; [cbn [length] in L9; lia|]. exact Hfd. }
    assert (Enf : Z.of_nat (Nat.min (length fd) 9) = 9) by lia.
    (* the literal, whatever the seconds turn out to be *)
    assert (Lit : forall o, is_digit c17 = true -> D2 c17 c18 < 60 -> SpellTs.off_ok o = true -> SpellTs.off_text o = z ->
              SpellTs.date_wf (Z.to_N Y) (Z.to_N M) (Z.to_N D) = true ->
              let sh := SpellTs.TsFrac (Z.to_N Y) (Z.to_N M) (Z.to_N D) (Z.to_N hh) (Z.to_N mi) (Z.to_N (D2 c17 c18)) fd o in
              SpellTs.ts_ok sh = true /\ SpellTs.ts_text sh = l).
    { intros o H17 Hs Ho Ht Hwf sh. pose proof (D2_nonneg c17 c18 H17 H18) as Rs. unfold sh.
      assert (TOK : SpellTs.time_ok (Z.to_N hh) (Z.to_N mi) = true) by exact time_ok_chars'.
      assert (PT : SpellTs.date_text (Z.to_N Y) (Z.to_N M) (Z.to_N D) ++ 84%N :: SpellTs.d2 (Z.to_N hh) ++ 58%N :: SpellTs.d2 (Z.to_N mi) = p16)
        by exact p16_text'.
      split.
      - cbn [SpellTs.ts_ok]. rewrite Hwf, TOK, Ho, Hfok.
        replace (Z.to_N (D2 c17 c18) <? 60)%N with true by lia. reflexivity.
      - cbn [SpellTs.ts_text]. unfold fd. rewrite (digs_fd_of ds Hds), d2_chars by assumption.
        rewrite <- (app_nil_r (SpellTs.d2 (Z.to_N mi))) at 1.
        unfold l. rewrite <- PT, Ht, Ew, <- !app_assoc. cbn [app]. rewrite <- !app_assoc. reflexivity. }
    destruct (dval c18 * 1000000000 + fr =? ten10) eqn:Eten.
    - (* 9.9999999995: the carry into the tens of the seconds and beyond *)
      assert (E9 : dval c18 = 9 /\ fr = 1000000000) by (unfold ten10 in Eten; lia). destruct E9 as [E9 Efr].
      assert (Ec18 : c18 = 57%N) by (unfold dval in E9; lia).
      match type of H with match ?g with _ => _ end = _ => destruct g as [tm|] eqn:G; [|discriminate H] end.
      unfold P18 in G. rewrite <- app_assoc in G. cbn [app] in G. unfold nine_zero in G. cbn [app] in G.
      apply gtp_sec' in G as (H17 & _ & Hs & G).
      replace (D2 c17 57%N) with (D2 c17 c18) in G, Hs by (rewrite Ec18; reflexivity).
      change (46 :: 48 :: 48 :: 48 :: 48 :: 48 :: 48 :: 48 :: 48 :: 48 :: z)%N
        with (c_dot :: [48; 48; 48; 48; 48; 48; 48; 48; 48]%N ++ z) in G.
      rewrite opt_fraction_some in G by (try reflexivity; try discriminate; exact Hzd). cbn [fst snd] in G.
      change (parse_nanos [48; 48; 48; 48; 48; 48; 48; 48; 48]%N) with 0 in G.
      pose proof (D2_nonneg c17 c18 H17 H18) as Rs.
      destruct (finish_zone_tm (D2 c17 c18) 0 z k tm Hk' G ltac:(lia) ltac:(lia))
        as (o & om & Ho & Ht & Hf & Hwf & _ & V & T & HYr & Hom & Etm & _).
      destruct (Lit o H17 Hs Ho Ht Hwf) as [Lok Ltx].
      eexists. split; [exact Lok|split; [left; exact Ltx|]].
      inversion H. subst t. clear H. rewrite new_ts_frac_id by (cbn [rank]; lia).
      rewrite Etm, (add_sec_fields Y M D hh mi (D2 c17 c18) om k PNano 9 V T HYr Hom).
      cbn [SpellTs.ts_fields]. rewrite Hf. fold fr. rewrite Efr. change (1000000000 =? 1000000000) with true. cbv iota.
      rewrite Enf. unfold Y, M, D, hh, mi. rewrite !Z2N.id by lia. reflexivity.
    - (* the units digit of the seconds absorbs the carry, if any *)
      pose proof H as H'. apply ntfs_gtp in H' as (tm0 & G0). cbn [rank] in G0. change (5 <=? 6) with true in G0.
      set (rr := dval c18 * 1000000000 + fr) in *.
      set (q := rr / 1000000000) in *. set (m := rr mod 1000000000) in *.
      assert (Rq : dval c18 <= q <= 9) by (unfold q, rr, ten10 in *; lia).
      assert (Rm : 0 <= m < 1000000000) by (unfold m; lia).
      assert (Eq : dec_of_Z q = [Z.to_N (48 + q)]).
      { assert (Cq : q = 0 \/ q = 1 \/ q = 2 \/ q = 3 \/ q = 4 \/ q = 5 \/ q = 6 \/ q = 7 \/ q = 8 \/ q = 9) by lia.
        clearbody q. destruct Cq as [->|[->|[->|[->|[->|[->|[->|[->|[->| ->]]]]]]]]]; reflexivity. }
      rewrite Eq in G0, H. unfold P18 in G0. rewrite <- app_assoc in G0. cbn [app] in G0.
      apply gtp_sec' in G0 as (H17 & Hq & _ & _).
      set (cq := Z.to_N (48 + q)) in *.
      assert (Edv : dval cq = q) by (unfold dval, cq; lia).
      assert (Hzdot : Forall (fun x => x <> c_dot) z).
      { destruct (20 + slen ds <=? 0); apply ntfs_gtp in H as (tm1 & G1); cbn [rank] in G1; change (5 <=? 6) with true in G1;
          unfold P18 in G1; rewrite <- app_assoc in G1; cbn [app] in G1; apply gtp_sec' in G1 as (_ & _ & _ & G1);
          (rewrite opt_fraction_some in G1; [|apply all_digits_fixw| |exact Hzd];
           [|intros E; apply (f_equal (@length N)) in E; rewrite fixw_length in E; discriminate E]);
          cbn [fst snd] in G1; apply gtp_finish_inv in G1 as (zoff & Hzz & _); exact (zone_shape _ _ _ Hzz). }
      replace (P18 ++ [cq] ++ c_dot :: fixw 9 m ++ z) with ((P18 ++ [cq]) ++ c_dot :: fixw 9 m ++ z) in H
        by (rewrite <- app_assoc; reflexivity).
      rewrite ntfs_nano in H.
      2:{ unfold P18, p16, dt16. cbn [app].
          repeat (constructor; [first [discriminate | intros ->; discriminate]|]). constructor. }
      2:{ apply all_digits_fixw. }
      2:{ unfold slen. rewrite fixw_length. lia. }
      2:{ exact Hzdot. }
      2:{ rewrite Ez. exact Hcd. }
      assert (S9 : slen (fixw 9 m) = 9) by (unfold slen; rewrite fixw_length; reflexivity).
      rewrite S9 in H.
      match type of H with match ?g with _ => _ end = _ => destruct g as [tm|] eqn:G; [|discriminate H] end.
      inversion H. subst t. clear H.
      unfold P18 in G. rewrite <- !app_assoc in G. cbn [app] in G.
      apply gtp_sec' in G as (_ & _ & Hs & G).
      rewrite opt_fraction_some in G; [|apply all_digits_fixw| |exact Hzd].
      2:{ intros E. apply (f_equal (@length N)) in E. rewrite fixw_length in E. discriminate E. }
      cbn [fst snd] in G. rewrite (parse_nanos_fixw 9 m) in G by (cbn; lia).
      change (10 ^ (9 - Z.of_nat 9)) with 1 in G. rewrite Z.mul_1_r in G.
      pose proof (digit_dval c17 H17) as R17.
      assert (Hs' : D2 c17 c18 < 60) by (unfold D2 in *; rewrite Edv in Hs; lia).
      pose proof (D2_nonneg c17 c18 H17 H18) as Rs.
      destruct (finish_zone_tm (D2 c17 cq) m z k tm Hk' G ltac:(unfold D2 in *; rewrite Edv; lia) Rm)
        as (o & om & Ho & Ht & Hf & Hwf & _ & V & T & HYr & Hom & _ & HF2).
      destruct (Lit o H17 Hs' Ho Ht Hwf) as [Lok Ltx].
      eexists. split; [exact Lok|split; [left; exact Ltx|]].
      rewrite HF2. cbn [SpellTs.ts_fields rank]. rewrite Hf. fold fr. rewrite Enf.
      unfold Y, M, D, hh, mi. rewrite !Z2N.id by lia.
      destruct (fr =? 1000000000) eqn:Efr.
      + assert (Eq1 : q = dval c18 + 1 /\ m = 0) by (unfold q, m, rr; lia). destruct Eq1 as [Eq1 Em].
        unfold SpellTs.next_second. replace (D2 c17 c18 <? 59) with true by (unfold D2 in *; rewrite Edv in Hs; lia).
        rewrite Em. unfold D2. rewrite Edv, Eq1.
        replace (dval c17 * 10 + (dval c18 + 1)) with (dval c17 * 10 + dval c18 + 1) by lia. reflexivity.
      + assert (Eq1 : q = dval c18 /\ m = fr) by (unfold q, m, rr; lia). destruct Eq1 as [Eq1 Em].
        rewrite Em. unfold D2. rewrite Edv, Eq1. reflexivity.
  Qed.
End TimeOfDayK.

(* ---- (D) every string: literal and fields ----------------------------------------------------------------------------- *)
Lemma accept_long_all c0 c1 c2 c3 c4 c5 c6 c7 c8 c9 c10 c11 c12 c13 c14 c15 c16 r t :
  let l := c0 :: c1 :: c2 :: c3 :: c4 :: c5 :: c6 :: c7 :: c8 :: c9 :: c10 :: c11 :: c12 :: c13 :: c14 :: c15 :: c16 :: r in
  ts_parse patched l = Ok t -> accepted l t.
Proof.
  intros l H. pose proof H as H00. apply ts_parse_long in H as (H0 & H1 & H2 & H3 & HY & H). fold l in H.
  destruct (time_part_facts_all _ _ _ _ _ _ _ _ _ _ _ _ _ _ _ _ _ _ _ H)
    as (_ & E4 & (H5 & H6 & HM) & E7 & (H8 & H9) & E10 & (H11 & H12 & Hh) & E13 & (H14 & H15 & Hi)).
  destruct (Z_le_gt_dec (frac_digits l) 8) as [HF|HF]; [exact (accept_long _ _ _ _ _ _ _ _ _ _ _ _ _ _ _ _ _ _ _ HF H00)|].
  subst c4 c7 c10 c13.
  pose proof H as H'. unfold time_part in H'. cbv zeta in H'. change (at_ l 16) with c16 in H'.
  change ((c16 =? c_z) || (c16 =? c_Z) || (c16 =? c_plus) || (c16 =? c_minus))%N with (zone_start c16) in H'.
  destruct (zone_start c16) eqn:Ez.
  - apply bind_inv in H' as (k & Hk & H').
    exact (accept_minute c0 c1 c2 c3 c5 c6 c8 c9 c11 c12 c14 c15 H0 H1 H2 H3 HY H5 H6 HM H8 H9 H11 H12 Hh H14 H15 Hi
                         (c16 :: r) k t Hk H').
  - destruct (N.eqb_spec c16 c_colon) as [E|]; [|discriminate H']. subst c16.
    destruct r as [|c17 [|c18 [|c19 w]]].
    + exfalso. evl_in H' (slen l). cbv in H'. discriminate H'.
    + exfalso. evl_in H' (slen l). change (18 <? 20) with true in H'. discriminate H'.
    + exfalso. evl_in H' (slen l). change (19 <? 20) with true in H'. discriminate H'.
    + destruct (N.eqb_spec c19 c_dot) as [->|Hnd].
      * assert (HF9 : 9 <= frac_digits l) by lia.
        exact (accept_round c0 c1 c2 c3 c5 c6 c8 c9 c11 c12 c14 c15 H0 H1 H2 H3 HY H5 H6 HM H8 H9 H11 H12 Hh H14 H15 Hi
                            c17 c18 w t HF9 H).
      * exact (accept_seconds c0 c1 c2 c3 c5 c6 c8 c9 c11 c12 c14 c15 H0 H1 H2 H3 HY H5 H6 HM H8 H9 H11 H12 Hh H14 H15 Hi
                              c17 c18 c19 w t (fun E => False_ind _ (Hnd E)) H).
Qed.

(* what ParseTimestamp accepts is a valid literal and the timestamp carries the fields the literal denotes:
   every string, any number of fraction digits *)
Theorem accepts_only_valid s t : ts_parse patched s = Ok t -> accepted s t.
Proof.
  intros H. destruct (Nat.le_gt_cases (length s) 16) as [L|L].
  - destruct (short_lengths s t H L) as [E|[E|[E|E]]].
    + do 6 (destruct s as [|? s]; try discriminate E). apply accept_year. exact H.
    + do 9 (destruct s as [|? s]; try discriminate E). apply accept_month. exact H.
    + do 11 (destruct s as [|? s]; try discriminate E). apply accept_day10. exact H.
    + do 12 (destruct s as [|? s]; try discriminate E). apply accept_day11. exact H.
  - do 17 (destruct s as [|? s]; [cbn [length] in L; lia|]). apply accept_long_all; assumption.
Qed.

Theorem accepts_only_valid_strict_all s t : Forall (fun c => c <> c_t) s -> ts_parse patched s = Ok t ->
  exists sh, SpellTs.ts_ok sh = true /\ SpellTs.ts_text sh = s /\ SpellTs.ts_fields sh = ts_fields t.
Proof. intros Hn H. exact (accepted_strict s t (accepts_only_valid s t H) Hn). Qed.

(* ---- (E) what "the fields the literal denotes" means for nine fraction digits and more -------------------------------- *)
(* the local instant of eleven fields, in nanoseconds on Go's absolute scale *)
Definition local_ns (fs : list Z) : Z :=
  abs_of (nth 0 fs 0) (nth 1 fs 0) (nth 2 fs 0) (nth 3 fs 0) (nth 4 fs 0) (nth 5 fs 0) * 1000000000 + nth 6 fs 0.

Lemma date_wf_valid y mo d : SpellTs.date_wf y mo d = true ->
  valid_date (Z.of_N y) (Z.of_N mo) (Z.of_N d) = true /\ 1 <= Z.of_N y <= 9999.
Proof.
  unfold SpellTs.date_wf, SpellTs.year_ok, SpellTs.month_ok, valid_date. rewrite month_len_eq. lia.
Qed.

(* exactly nine digits: no rounding *)
Lemma fields_nine y mo d h mi sec fd o : SpellTs.frac_ok fd = true -> length fd = 9%nat ->
  SpellTs.ts_fields (SpellTs.TsFrac y mo d h mi sec fd o) =
  [Z.of_N y; Z.of_N mo; Z.of_N d; Z.of_N h; Z.of_N mi; Z.of_N sec; SpellTs.dval fd;
   fst (SpellTs.off_fields o); snd (SpellTs.off_fields o); 6; 9].
Proof.
  intros Hok L. assert (Hfd : forallb (fun d => (d <=? 9)%N) fd = true).
  { unfold SpellTs.frac_ok in Hok. destruct fd; [discriminate L|exact Hok]. }
  cbn [SpellTs.ts_fields]. destruct (SpellTs.off_fields o) as [off kind]. cbn [fst snd].
  pose proof (SpellTs.frac_ns_short fd Hfd ltac:(lia)) as B.
  unfold SpellTs.frac_ns. rewrite L in *. change (9 <=? 9)%nat with true. cbv iota.
  change (10 ^ (9 - Z.of_nat 9)) with 1 in *. rewrite Z.mul_1_r in *.
  replace (SpellTs.dval fd =? 1000000000) with false by lia. reflexivity.
Qed.

(* ten digits or more, the rounded fraction below one second: the first nine digits, plus one when the tenth is 5 or more *)
Lemma fields_no_carry y mo d h mi sec fd o : (9 <= length fd)%nat -> SpellTs.frac_ns fd <> 1000000000 ->
  SpellTs.ts_fields (SpellTs.TsFrac y mo d h mi sec fd o) =
  [Z.of_N y; Z.of_N mo; Z.of_N d; Z.of_N h; Z.of_N mi; Z.of_N sec;
   SpellTs.dval (firstn 9 fd) + (if (5 <=? nth 9 fd 0)%N then 1 else 0);
   fst (SpellTs.off_fields o); snd (SpellTs.off_fields o); 6; 9].
Proof.
  intros L Hn. cbn [SpellTs.ts_fields]. destruct (SpellTs.off_fields o) as [off kind]. cbn [fst snd].
  replace (SpellTs.frac_ns fd =? 1000000000) with false by lia. rewrite (SpellTs.frac_ns_long fd L).
  replace (Z.of_nat (Nat.min (length fd) 9)) with 9 by lia. reflexivity.
Qed.

(* the fraction rounds to a whole second: the civil fields one second later *)
Lemma fields_carry y mo d h mi sec fd o : (9 <= length fd)%nat -> SpellTs.frac_ns fd = 1000000000 ->
  SpellTs.ts_fields (SpellTs.TsFrac y mo d h mi sec fd o) =
  let '(y2, mo2, d2, h2, mi2, s2) :=
    SpellTs.next_second (Z.of_N y) (Z.of_N mo) (Z.of_N d) (Z.of_N h) (Z.of_N mi) (Z.of_N sec) in
  [y2; mo2; d2; h2; mi2; s2; 0; fst (SpellTs.off_fields o); snd (SpellTs.off_fields o); 6; 9].
Proof.
  intros L Hn. cbn [SpellTs.ts_fields]. destruct (SpellTs.off_fields o) as [off kind]. cbn [fst snd].
  rewrite Hn. change (1000000000 =? 1000000000) with true. cbv iota.
  replace (Z.of_nat (Nat.min (length fd) 9)) with 9 by lia. reflexivity.
Qed.

(* all three at once: the fields are a real date and time whose instant is the literal's instant
   (seconds and all the fraction digits) rounded half up to the nanosecond; offset, kind and precision as written;
   nine fraction digits reported *)
Theorem frac_fields_denote y mo d h mi sec fd o :
  SpellTs.ts_ok (SpellTs.TsFrac y mo d h mi sec fd o) = true -> (9 <= length fd)%nat ->
  let fs := SpellTs.ts_fields (SpellTs.TsFrac y mo d h mi sec fd o) in
  let nd := Z.of_nat (length fd) in
  local_ns fs =
    round_half_up ((abs_of (Z.of_N y) (Z.of_N mo) (Z.of_N d) (Z.of_N h) (Z.of_N mi) (Z.of_N sec) * 10 ^ nd + SpellTs.dval fd)
                   * 1000000000) (10 ^ nd) /\
  fields_ok fs /\ 0 <= nth 6 fs 0 < 1000000000 /\
  nth 7 fs 0 = fst (SpellTs.off_fields o) /\ nth 8 fs 0 = snd (SpellTs.off_fields o) /\ nth 9 fs 0 = 6 /\ nth 10 fs 0 = 9.
Proof.
  intros Hok L fs nd. cbn [SpellTs.ts_ok] in Hok.
  apply andb_true_iff in Hok as [Hok Hoo]. apply andb_true_iff in Hok as [Hok Hfr].
  apply andb_true_iff in Hok as [Hok Hsec]. apply andb_true_iff in Hok as [Hwf Htm].
  destruct (date_wf_valid y mo d Hwf) as [V HY].
  assert (T : tod_ok (Z.of_N h) (Z.of_N mi) (Z.of_N sec)) by (unfold tod_ok, SpellTs.time_ok in *; lia).
  assert (Hfd : forallb (fun d => (d <=? 9)%N) fd = true).
  { unfold SpellTs.frac_ok in Hfr. destruct fd; [cbn [length] in L; lia|exact Hfr]. }
  pose proof (proj2 (abs_of_year_bounds _ _ _ _ _ _ V T) HY) as B. rewrite abs_lo_val, abs_hi_val in B.
  set (A := abs_of (Z.of_N y) (Z.of_N mo) (Z.of_N d) (Z.of_N h) (Z.of_N mi) (Z.of_N sec)) in *.
  pose proof (round_is_frac_ns fd A Hfd L ltac:(lia)) as R. unfold text_round in R. cbn [fx_tround patched] in R.
  fold nd in R. rewrite R. clear R.
  assert (Rfr : 0 <= SpellTs.frac_ns fd <= 1000000000).
  { rewrite (SpellTs.frac_ns_long fd L). pose proof (SpellTs.dval_firstn9 fd Hfd). destruct (5 <=? nth 9 fd 0)%N; lia. }
  destruct (Z.eq_dec (SpellTs.frac_ns fd) 1000000000) as [E|E].
  - unfold fs. rewrite (fields_carry y mo d h mi sec fd o L E).
    pose proof (next_second_spec _ _ _ _ _ _ V T) as S.
    destruct (SpellTs.next_second (Z.of_N y) (Z.of_N mo) (Z.of_N d) (Z.of_N h) (Z.of_N mi) (Z.of_N sec))
      as [[[[[y2 mo2] d2] h2] mi2] s2].
    destruct S as (V2 & T2 & E2). unfold local_ns, fields_ok. cbn [nth]. fold A in E2. rewrite E2, E.
    unfold tod_ok in T2. repeat split; try lia. exact V2.
  - unfold fs. rewrite (fields_no_carry y mo d h mi sec fd o L E). rewrite <- (SpellTs.frac_ns_long fd L).
    unfold local_ns, fields_ok. cbn [nth]. fold A. unfold tod_ok in T. repeat split; try lia. exact V.
Qed.

(* ---- (F) the year 10000 ------------------------------------------------------------------------------------------------- *)
Definition year_of (t : ts) : Z := nth 0 (ts_fields t) 0.
(* "the local year of an accepted timestamp is 1..9999" *)
Definition text_accepts_year_in_range (c : cfg) : Prop :=
  forall s t, ts_parse c s = Ok t -> 1 <= year_of t <= 9999.

Definition s_carry_10000 : list N :=   (* 9999-12-31T23:59:59.9999999995Z *)
  [57; 57; 57; 57; 45; 49; 50; 45; 51; 49; 84; 50; 51; 58; 53; 57; 58; 53; 57; 46; 57; 57; 57; 57; 57; 57; 57; 57; 57; 53; 90]%N.
Lemma carry_10000_compute :
  match ts_parse patched s_carry_10000 with Ok t => ts_fields t | _ => [] end = [10000; 1; 1; 0; 0; 0; 0; 0; 1; 6; 9].
Proof. vm_compute. reflexivity. Qed.
Lemma carry_10000_fields :
  exists t, ts_parse patched s_carry_10000 = Ok t /\ ts_fields t = [10000; 1; 1; 0; 0; 0; 0; 0; 1; 6; 9].
Proof.
  pose proof carry_10000_compute as C. destruct (ts_parse patched s_carry_10000) as [t| | |]; try discriminate C.
  exists t. split; [reflexivity|exact C].
Qed.

Lemma text_accepts_year_in_range_refuted : ~ text_accepts_year_in_range patched.
Proof.
  intros H. destruct carry_10000_fields as (t & Hp & Hf). specialize (H _ _ Hp). unfold year_of in H. rewrite Hf in H.
  cbn [nth] in H. lia.
Qed.

(* the exclusion is exactly that class: the last second of the year 9999 with a fraction that rounds to a whole second *)
Theorem text_accepts_year_except_carry s t : ts_parse patched s = Ok t ->
  1 <= year_of t <= 9999 \/
  (exists fd o, SpellTs.ts_text (SpellTs.TsFrac 9999 12 31 23 59 59 fd o) = s /\ (10 <= length fd)%nat /\
                SpellTs.frac_ns fd = 1000000000 /\
                ts_fields t = [10000; 1; 1; 0; 0; 0; 0; fst (SpellTs.off_fields o); snd (SpellTs.off_fields o); 6; 9]).
Proof.
  intros H. destruct (accepts_only_valid s t H) as (sh & Hok & Hl & Hf). unfold year_of. rewrite <- Hf.
  destruct sh as [y|y mo|y mo d tt|y mo d h mi o|y mo d h mi sec o|y mo d h mi sec fd o]; cbn [SpellTs.ts_ok] in Hok.
  - left. cbn [SpellTs.ts_fields nth]. unfold SpellTs.year_ok in Hok. lia.
  - left. cbn [SpellTs.ts_fields nth]. unfold SpellTs.year_ok in Hok. lia.
  - left. cbn [SpellTs.ts_fields nth]. unfold SpellTs.date_wf, SpellTs.year_ok in Hok. lia.
  - left. cbn [SpellTs.ts_fields]. destruct (SpellTs.off_fields o). cbn [nth]. unfold SpellTs.date_wf, SpellTs.year_ok in Hok. lia.
  - left. cbn [SpellTs.ts_fields]. destruct (SpellTs.off_fields o). cbn [nth]. unfold SpellTs.date_wf, SpellTs.year_ok in Hok. lia.
  - apply andb_true_iff in Hok as [Hok Hoo]. apply andb_true_iff in Hok as [Hok Hfr].
 apply andb_true_iff in Hok as [Hok Hsec]. apply andb_true_iff in Hok as [Hwf Htm].
    destruct (date_wf_valid y mo d Hwf) as [V HY].
    assert (Hfd : forallb (fun d => (d <=? 9)%N) fd = true).
    { unfold SpellTs.frac_ok in Hfr. destruct fd; [discriminate Hfr|exact Hfr]. }
    destruct (Z.eq_dec (SpellTs.frac_ns fd) 1000000000) as [E|E].
    + assert (L : (10 <= length fd)%nat).
      { destruct (Nat.le_gt_cases (length fd) 9) as [L9|L9]; [|lia]. exfalso.
        pose proof (SpellTs.frac_ns_short fd Hfd L9) as B. unfold SpellTs.frac_ns in E.
        replace (length fd <=? 9)%nat with true in E by lia. lia. }
      rewrite (fields_carry y mo d h mi sec fd o ltac:(lia) E). unfold SpellTs.next_second. rewrite month_len_eq.
      unfold SpellTs.time_ok in Htm.
      destruct (Z.of_N sec <? 59) eqn:E1; [left; cbn [nth]; lia|].
      destruct (Z.of_N mi <? 59) eqn:E2; [left; cbn [nth]; lia|].
      destruct (Z.of_N h <? 23) eqn:E3; [left; cbn [nth]; lia|].
      destruct (Z.of_N d <? days_in_month (Z.of_N y) (Z.of_N mo)) eqn:E4; [left; cbn [nth]; lia|].
      destruct (Z.of_N mo <? 12) eqn:E5; [left; cbn [nth]; lia|].
      destruct (Z.eq_dec (Z.of_N y) 9999) as [Ey|Ey]; [|left; cbn [nth]; lia].
      right. exists fd, o.
      assert (mo = 12%N) by (unfold valid_date in V; lia). subst mo.
      assert (d = 31%N) by (unfold valid_date in V; change (days_in_month (Z.of_N y) (Z.of_N 12)) with 31 in *; lia). subst d.
      assert (y = 9999%N) by lia. assert (h = 23%N) by lia. assert (mi = 59%N) by lia. assert (sec = 59%N) by lia. subst.
      destruct Hl as [Et|(p & _ & _ & F)]; [|destruct F].
      repeat split; auto.
    + left. destruct (Nat.le_gt_cases (length fd) 8) as [L8|L8].
      * cbn [SpellTs.ts_fields]. destruct (SpellTs.off_fields o).
        replace (SpellTs.frac_ns fd =? 1000000000) with false by lia. cbn [nth]. lia.
      * rewrite (fields_no_carry y mo d h mi sec fd o ltac:(lia) E). cbn [nth]. lia.
Qed.

(* ---- (G) examples ------------------------------------------------------------------------------------------------------ *)
Definition fields_of (s : list N) : list Z := match ts_parse patched s with Ok t => ts_fields t | _ => [] end.
Definition ex_round_fields_stmt : Prop :=
  (* 2024-02-29T23:59:58.123456789+01:30 *)
  fields_of [50;48;50;52;45;48;50;45;50;57;84;50;51;58;53;57;58;53;56;46;49;50;51;52;53;54;55;56;57;43;48;49;58;51;48]%N
    = [2024; 2; 29; 23; 59; 58; 123456789; 90; 2; 6; 9] /\
  (* 2024-02-29T23:59:58.1234567894Z and ...895Z *)
  fields_of [50;48;50;52;45;48;50;45;50;57;84;50;51;58;53;57;58;53;56;46;49;50;51;52;53;54;55;56;57;52;90]%N
    = [2024; 2; 29; 23; 59; 58; 123456789; 0; 1; 6; 9] /\
  fields_of [50;48;50;52;45;48;50;45;50;57;84;50;51;58;53;57;58;53;56;46;49;50;51;52;53;54;55;56;57;53;90]%N
    = [2024; 2; 29; 23; 59; 58; 123456790; 0; 1; 6; 9] /\
  (* 2024-02-29T23:59:58.9999999995Z: the carry stays in the seconds *)
  fields_of [50;48;50;52;45;48;50;45;50;57;84;50;51;58;53;57;58;53;56;46;57;57;57;57;57;57;57;57;57;53;90]%N
    = [2024; 2; 29; 23; 59; 59; 0; 0; 1; 6; 9] /\
  (* 2024-02-29T23:59:59.999999999500-00:00: the carry goes through to the next month *)
  fields_of [50;48;50;52;45;48;50;45;50;57;84;50;51;58;53;57;58;53;57;46;57;57;57;57;57;57;57;57;57;53;48;48;45;48;48;58;48;48]%N
    = [2024; 3; 1; 0; 0; 0; 0; 0; 0; 6; 9] /\
  SpellTs.ts_fields (SpellTs.TsFrac 2024 2 29 23 59 59 [9;9;9;9;9;9;9;9;9;5;0;0]%N (SpellTs.OffMinus 0 0))
    = [2024; 3; 1; 0; 0; 0; 0; 0; 0; 6; 9].
Lemma ex_round_fields : ex_round_fields_stmt.
Proof. unfold ex_round_fields_stmt. repeat split; vm_compute; reflexivity. Qed.
