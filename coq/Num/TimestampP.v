(* TimestampP.v — lemmas about the timestamp model: Go time arithmetic on
   well-formed values, the binary codec (write then read), rejection of
   impossible fields, and rounding. *)
From Coq Require Import List NArith ZArith Bool Lia ZifyBool ZifyN ZifyNat DecimalPos.
From IonV Require Import Base.Wire Bin.Bits Bin.BitsP Num.Calendar Num.CalendarP Num.Timestamp.
Import ListNotations.
Open Scope Z_scope.
Ltac Zify.zify_post_hook ::= Z.div_mod_to_equations.

(* ---- Go time arithmetic ------------------------------------------------------------ *)
Lemma dfc_day y m d : days_from_civil y m d = days_from_civil y m 1 + (d - 1).
Proof. unfold days_from_civil. destruct (m <=? 2); lia. Qed.

Lemma wrap_abs_small a : 0 <= a < two64z -> wrap_abs a = a.
Proof. intros H. unfold wrap_abs. apply Z.mod_small. exact H. Qed.

Lemma wrap_abs_range a : 0 <= wrap_abs a < two64z.
Proof. unfold wrap_abs, two64z. lia. Qed.

(* absolute second count of a civil date-time *)
Definition abs_of (y mo d h mi s : Z) : Z :=
  (days_from_civil y mo d + abs_day_shift) * 86400 + h * 3600 + mi * 60 + s.

Definition tod_ok (h mi s : Z) : Prop := 0 <= h < 24 /\ 0 <= mi < 60 /\ 0 <= s < 60.

(* time.Date on in-range fields does not normalise anything *)
Lemma go_date_inrange y mo d h mi s ns :
  1 <= mo <= 12 -> tod_ok h mi s -> 0 <= ns < 1000000000 ->
  go_date y mo d h mi s ns = mkTime (wrap_abs (abs_of y mo d h mi s)) ns 0.
Proof.
  intros Hmo (Hh & Hmi & Hs) Hns. unfold go_date, abs_of.
  replace ((mo - 1) / 12) with 0 by lia.
  replace ((mo - 1) mod 12 + 1) with mo by lia.
  replace (ns / 1000000000) with 0 by lia.
  replace (ns mod 1000000000) with ns by lia.
  replace (s + 0) with s by lia.
  replace (s / 60) with 0 by lia. replace (s mod 60) with s by lia.
  replace (mi + 0) with mi by lia.
  replace (mi / 60) with 0 by lia. replace (mi mod 60) with mi by lia.
  replace (h + 0) with h by lia.
  replace (h / 24) with 0 by lia. replace (h mod 24) with h by lia.
  replace (y + 0) with y by lia. replace (d + 0 - 1) with (d - 1) by lia.
  rewrite <- dfc_day. reflexivity.
Qed.

(* the fields of a time, and what they satisfy *)
Lemma go_fields_spec t :
  let A := wrap_abs (g_abs t + g_off t) in
  let '(y, mo, d, h, mi, s) := go_fields t in
  valid_date y mo d = true /\ tod_ok h mi s /\ abs_of y mo d h mi s = A.
Proof.
  unfold go_fields. set (A := wrap_abs (g_abs t + g_off t)). cbv zeta.
  pose proof (wrap_abs_range (g_abs t + g_off t)) as HA. fold A in HA.
  pose proof (civil_of_days_valid (A / 86400 - abs_day_shift)) as H.
  destruct (civil_from_days (A / 86400 - abs_day_shift)) as [[y mo] d].
  destruct H as [V E]. split; [exact V|]. split.
  - unfold tod_ok. lia.
  - unfold abs_of. rewrite E. lia.
Qed.

(* abs_of is injective on valid in-range fields *)
Lemma abs_of_inj y mo d h mi s y' mo' d' h' mi' s' :
  valid_date y mo d = true -> valid_date y' mo' d' = true -> tod_ok h mi s -> tod_ok h' mi' s' ->
  abs_of y mo d h mi s = abs_of y' mo' d' h' mi' s' ->
  (y, mo, d, h, mi, s) = (y', mo', d', h', mi', s').
Proof.
  intros V V' (?&?&?) (?&?&?) E. unfold abs_of in E.
  assert (Ed : days_from_civil y mo d = days_from_civil y' mo' d') by lia.
  pose proof (dfc_inj _ _ _ _ _ _ V V' Ed) as Et. inversion Et; subst.
  assert (h = h') by lia. assert (mi = mi') by lia. assert (s = s') by lia. subst. reflexivity.
Qed.

Lemma go_fields_of_abs y mo d h mi s ns :
  valid_date y mo d = true -> tod_ok h mi s -> 0 <= abs_of y mo d h mi s < two64z ->
  go_fields (mkTime (abs_of y mo d h mi s) ns 0) = (y, mo, d, h, mi, s).
Proof.
  intros V T B. pose proof (go_fields_spec (mkTime (abs_of y mo d h mi s) ns 0)) as H.
  cbn [g_abs g_off] in H. rewrite Z.add_0_r, wrap_abs_small in H by exact B.
  destruct (go_fields (mkTime (abs_of y mo d h mi s) ns 0)) as [[[[[y' mo'] d'] h'] mi'] s'].
  destruct H as (V' & T' & E). symmetry. apply abs_of_inj; auto.
Qed.

(* bounds: the absolute seconds of year 1 .. 9999, and of the years around *)
Definition abs_lo : Z := abs_of 1 1 1 0 0 0.            (* 0001-01-01T00:00:00 *)
Definition abs_hi : Z := abs_of 10000 1 1 0 0 0.        (* 10000-01-01T00:00:00 *)

Lemma abs_of_year_bounds y mo d h mi s :
  valid_date y mo d = true -> tod_ok h mi s ->
  (abs_lo <= abs_of y mo d h mi s < abs_hi <-> 1 <= y <= 9999).
Proof.
  intros V (?&?&?). unfold abs_lo, abs_hi, abs_of. unfold valid_date in V.
  assert (Hd : 1 <= d <= 31).
  { unfold days_in_month in V. destruct (mo =? 2), (is_leap y), ((mo =? 4) || (mo =? 6) || (mo =? 9) || (mo =? 11)); lia. }
  change (days_from_civil 1 1 1) with (-719162). change (days_from_civil 10000 1 1) with 2932897.
  unfold days_from_civil, days_per_era, epoch_shift, abs_day_shift.
  destruct (mo <=? 2) eqn:Em; lia.
Qed.

(* ---- well-formed timestamps, unpacked ------------------------------------------------------------------------ *)
Lemma nfrac_zero_nsec ns nf : 0 <= ns < 1000000000 -> nf = 0 -> ns mod 10 ^ (9 - nf) = 0 -> ns = 0.
Proof. intros H -> E. change (10 ^ (9 - 0)) with 1000000000 in E. lia. Qed.

(* small integer conversions *)
Lemma u64_small v : 0 <= v < two64z -> u64 v = Z.to_N v.
Proof. intros H. unfold u64. rewrite Z.mod_small by exact H. reflexivity. Qed.

Lemma to_i64_of_small v : 0 <= v < 9223372036854775808 -> to_i64 (Z.to_N v) = v.
Proof.
  intros H. unfold to_i64, two63. replace (Z.to_N v <? 9223372036854775808)%N with true by lia. lia.
Qed.

Lemma i64_small v : -9223372036854775808 <= v < 9223372036854775808 -> i64 v = v.
Proof. intros H. unfold i64, two64z. destruct (v mod 18446744073709551616 <? 9223372036854775808) eqn:E; lia. Qed.

(* ---- byte-level pieces --------------------------------------------------------------------------------------- *)
Definition vu (v : N) : list N := append_varuint [] v.
Definition vi (v : Z) : list N := append_varint [] v.

Lemma append_varuint_vu b v : append_varuint b v = b ++ vu v.
Proof. reflexivity. Qed.

Lemma append_varint_vi b v : append_varint b v = b ++ vi v.
Proof.
  unfold vi, append_varint. destruct (mag64 v / 64 =? 0)%N; [reflexivity|].
  destruct (varint_loop 10 (mag64 v / 128) [(128 + mag64 v mod 128)%N]) as [m acc]. reflexivity.
Qed.

Lemma append_int_app b n : append_int b n = b ++ append_int [] n.
Proof.
  unfold append_int. destruct (n =? 0); [rewrite app_nil_r; reflexivity|].
  unfold sign_bytes. destruct (append_uint [] (mag64 n)) as [|b0 rest]; [rewrite app_nil_r; reflexivity|].
  destruct (b0 <? 128)%N; reflexivity.
Qed.

Lemma varuint_len_le10 v : (v < two64)%N -> (varuint_len v <= 10)%N.
Proof.
  intros H. unfold varuint_len.
  pose proof (len_loop_le 128 10 (v / 128) 1 9 ltac:(lia)) as L.
  assert ((v / 128 < 128 ^ N.of_nat 9)%N).
  { change (128 ^ N.of_nat 9)%N with 9223372036854775808%N. unfold two64 in H. lia. }
  specialize (L H0). lia.
Qed.

Lemma varuint_len_pos v : (1 <= varuint_len v)%N.
Proof. unfold varuint_len. apply len_loop_ge. Qed.

Lemma varuint_len_small v : (v < 128)%N -> varuint_len v = 1%N.
Proof.
  intros H. unfold varuint_len. replace (v / 128)%N with 0%N by lia. reflexivity.
Qed.

(* one field of the ReadTimestamp loop *)
Lemma rf_step k len pr fs v rest :
  (v < two64)%N -> (varuint_len v <= len)%N -> pr < 5 ->
  read_fields (S k) len pr fs (vu v ++ rest) =
    let len' := (len - varuint_len v)%N in
    let i := (6 - S k)%nat in
    let fs' := upd fs i (to_i64 v) in
    if Nat.eqb i 3 then (if (len' =? 0)%N then Err else read_fields k len' pr fs' rest)
    else read_fields k len' (pr + 1) fs' rest.
Proof.
  intros Hv Hl Hp. cbn [read_fields].
  pose proof (varuint_len_pos v).
  replace ((0 <? len)%N && (pr <? 5)) with true by lia.
  unfold vu. rewrite varuint_roundtrip by assumption. cbn [bind]. reflexivity.
Qed.

Lemma rf_stop k pr fs inp : read_fields k 0 pr fs inp = Ok (0%N, pr, fs, inp).
Proof. destruct k; reflexivity. Qed.

(* the tag *)
Lemma read_tag c vlen body : (vlen < 4294967296)%N ->
  ts_read_bin c (append_tag [] 96 vlen ++ body) = read_ts_body c vlen body.
Proof.
  intros H. unfold append_tag. destruct (vlen <? 14)%N eqn:E.
  - cbn [app]. unfold ts_read_bin.
    replace ((96 + vlen) / 16 =? 6)%N with true by lia. cbn [negb].
    replace ((96 + vlen) mod 16)%N with vlen by lia.
    replace (vlen =? 15)%N with false by lia. replace (vlen =? 14)%N with false by lia. reflexivity.
  - rewrite append_varuint_vu. cbn [app]. unfold ts_read_bin.
    change ((96 + 14) / 16 =? 6)%N with true. cbn [negb].
    change ((96 + 14) mod 16)%N with 14%N. cbn [N.eqb Pos.eqb].
    assert (Hv : (vlen < two64)%N) by (unfold two64; lia).
    pose proof (varuint_len_le10 vlen Hv).
    unfold vu. rewrite varuint_roundtrip by (try assumption; lia). cbn [bind].
    replace (18446744073709551615 - varuint_len vlen <? vlen)%N with false by lia. reflexivity.
Qed.

(* the offset *)
Lemma read_offset_known len off rest : -1440 < off < 1440 -> (varint_len off <= len)%N ->
  read_varint len (vi off ++ rest) = Ok (off, off <? 0, varint_len off, rest).
Proof.
  intros H Hl. unfold vi. apply varint_roundtrip; [unfold two63; lia|exact Hl].
Qed.

Lemma read_offset_unknown len rest : (1 <= len)%N ->
  read_varint len (192%N :: rest) = Ok (0, true, 1%N, rest).
Proof. intros H. unfold read_varint. replace (len =? 0)%N with false by lia. reflexivity. Qed.

Lemma varint_len_le2 off : -1440 < off < 1440 -> (varint_len off <= 2)%N.
Proof.
  intros H. unfold varint_len.
  pose proof (len_loop_le 128 10 (mag64 off / 64) 1 1 ltac:(lia)) as L.
  assert ((mag64 off / 64 < 128 ^ N.of_nat 1)%N) by (unfold mag64; change (128 ^ N.of_nat 1)%N with 128%N; lia).
  specialize (L H0). lia.
Qed.

Lemma varint_len_pos v : (1 <= varint_len v)%N.
Proof. unfold varint_len. apply len_loop_ge. Qed.

(* the exponent byte of the fraction: -nf *)
Lemma read_exp_byte nf len rest : 1 <= nf <= 9 -> (1 <= len)%N ->
  read_varint len (Z.to_N (Z.lor nf 192) :: rest) = Ok (- nf, true, 1%N, rest).
Proof.
  intros H Hl. unfold read_varint. replace (len =? 0)%N with false by lia.
  assert (C : nf = 1 \/ nf = 2 \/ nf = 3 \/ nf = 4 \/ nf = 5 \/ nf = 6 \/ nf = 7 \/ nf = 8 \/ nf = 9) by lia.
  destruct C as [->|[->|[->|[->|[->|[->|[->|[->| ->]]]]]]]]; reflexivity.
Qed.

(* ---- the fraction ---------------------------------------------------------------------------------------------- *)
Lemma trunc_loop_div k ns : 0 <= ns -> trunc_loop k ns = ns / 10 ^ Z.of_nat k.
Proof.
  revert ns. induction k as [|k IH]; intros ns H.
  - cbn. rewrite Z.div_1_r. reflexivity.
  - cbn [trunc_loop]. rewrite Nat2Z.inj_succ, Z.pow_succ_r by lia.
    destruct (0 <? ns) eqn:E.
    + rewrite IH by (apply Z.div_pos; lia). rewrite Z.div_div by (try apply Z.pow_pos_nonneg; lia). reflexivity.
    + assert (ns = 0) by lia. subst. reflexivity.
Qed.

Lemma truncated_nanos_div ns nf : 0 <= ns -> 0 <= nf <= 9 -> truncated_nanos ns nf = ns / 10 ^ (9 - nf).
Proof.
  intros H Hn. unfold truncated_nanos. rewrite trunc_loop_div by exact H. rewrite Z2Nat.id by lia. reflexivity.
Qed.

Lemma uint_chars_nonnil u : u <> Decimal.Nil -> uint_chars u <> [].
Proof. destruct u; cbn; congruence. Qed.

Lemma ndigits_pos a : 0 < a -> 1 <= ndigits a.
Proof.
  intros H. unfold ndigits, slen, dec_of_N. destruct (Z.to_N a) as [|p] eqn:E; [lia|].
  cbn [N.to_uint]. pose proof (DecimalPos.Unsigned.to_uint_nonnil p) as NN.
  apply uint_chars_nonnil in NN. destruct (uint_chars (Pos.to_uint p)); [congruence|]. cbn [length]. lia.
Qed.

Lemma f64_pow10_0 : f64_pow10 0 = (1, 1).
Proof. vm_compute. reflexivity. Qed.

Lemma f64_of_int n : 0 <= n < two53 -> f64_of_rat n 1 = (n, 1).
Proof.
  intros H. unfold f64_of_rat. destruct (n =? 0) eqn:E; [f_equal; lia|].
  rewrite Z.mod_1_r, Z.div_1_r. replace (n <? two53) with true by lia. reflexivity.
Qed.

(* Decimal.round on an integer below 2^53 (scale 0) returns it, with either implementation *)
Lemma dec_round_int c n : 0 <= n < 1000000000 -> dec_round c n 0 = Ok n.
Proof.
  intros H. unfold dec_round. destruct (fx_bround c).
  - cbn [Z.eqb]. unfold in_i64. replace ((-9223372036854775808 <=? n) && (n <=? 9223372036854775807)) with true by lia.
    reflexivity.
  - assert (Ha : big_int64 n = n).
    { unfold big_int64. replace (n <? 0) with false by lia. rewrite Z.abs_eq by lia. apply i64_small. lia. }
    rewrite Ha. cbn [Z.ltb Z.compare]. rewrite f64_pow10_0.
    rewrite Z.abs_eq by lia. rewrite f64_of_int by (unfold two53; lia).
    unfold f64_div. cbn [fst snd]. rewrite !Z.mul_1_r. rewrite f64_of_int by (unfold two53; lia).
    unfold f64_round. cbn [fst snd]. replace (n <? 0) with false by lia. f_equal. lia.
Qed.


Lemma dec_trunc_nonneg n : 0 <= n < 1000000000 -> dec_trunc n 0 = Ok n.
Proof.
  intros H. unfold dec_trunc. replace (n <? 0) with false by lia. rewrite Z.abs_eq by lia.
  rewrite Z.add_0_r, Z.sub_0_r. change (10 ^ 0) with 1. rewrite Z.div_1_r.
  replace (0 <=? n) with true by lia.
  destruct (ndigits n <=? 0) eqn:E.
  - destruct (Z.eq_dec n 0) as [->|Hn]; [reflexivity|]. pose proof (ndigits_pos n). lia.
  - unfold in_i64. replace ((-9223372036854775808 <=? n) && (n <=? 9223372036854775807)) with true by lia. reflexivity.
Qed.

(* reading back the fraction that appendTimestamp writes *)
Lemma read_fraction c ns nf :
  0 <= ns < 1000000000 -> 1 <= nf <= 9 -> ns mod 10 ^ (9 - nf) = 0 ->
  let nst := truncated_nanos ns nf in
  let coef := if 0 <? nst then append_int [] nst else [] in
  let len := if 0 <? nst then (1 + int_len nst)%N else 1%N in
  read_nsecs c len (Z.to_N (Z.lor nf 192) :: coef) = Ok (ns, false, nf).
Proof.
  intros Hns Hnf Hm. cbv zeta. rewrite truncated_nanos_div by lia.
  set (P := 10 ^ (9 - nf)) in *. assert (HP : 0 < P) by (apply Z.pow_pos_nonneg; lia).
  set (q := ns / P). assert (Hq : ns = q * P) by (unfold q; pose proof (Z.div_mod ns P); lia).
  assert (Hq0 : 0 <= q) by (unfold q; apply Z.div_pos; lia).
  assert (Hq1 : q <= ns) by nia.
  clearbody q.
  unfold read_nsecs, read_decimal.
  destruct (0 <? q) eqn:Eq.
  - replace ((1 + int_len q =? 0)%N) with false by lia.
    rewrite read_exp_byte by lia. cbn [bind].
    replace ((- nf <? -2147483648) || (2147483647 <? - nf)) with false by lia.
    replace (1 + int_len q - 1)%N with (int_len q) by lia.
    assert (Hil : N.of_nat (length (append_int [] q)) = int_len q) by (apply int_len_ok; unfold two64; lia).
    assert (Hpos : (0 < int_len q)%N).
    { rewrite <- Hil. pose proof (int_roundtrip q ltac:(lia) ltac:(unfold two64; lia)) as R.
      destruct (append_int [] q); [discriminate R|cbn [length]; lia]. }
    replace (int_len q =? 0)%N with false by lia.
    replace (N.of_nat (length (append_int [] q)) <? int_len q)%N with false by lia.
    rewrite <- Hil, Nat2N.id, firstn_all.
    rewrite int_roundtrip by (unfold two64; lia). cbn [bind].
    replace (- nf =? -2147483648) with false by lia. rewrite Z.opp_involutive.
    replace (nf - 9 <? -2147483648) with false by lia.
    destruct (nf - 9 <? 0) eqn:E9.
    + replace (nf - 9 <? -20) with false by lia. cbn [bind].
      replace (- (nf - 9)) with (9 - nf) by lia. fold P. rewrite <- Hq.
      rewrite dec_trunc_nonneg by lia. cbn [bind].
      replace ((ns <? 0) || (999999999 <? ns)) with false by lia.
      rewrite dec_round_int by lia. cbn [bind].
      replace (nf <? 0) with false by lia. cbn [andb].
      replace (ns =? 1000000000) with false by lia.
      replace (nf mod 256) with nf by lia. reflexivity.
    + cbn [bind]. assert (nf = 9) by lia. subst nf. assert (HP1 : P = 1) by reflexivity.
      assert (Hqq : q = ns) by lia. subst q.
      rewrite dec_trunc_nonneg by lia. cbn [bind].
      replace ((ns <? 0) || (999999999 <? ns)) with false by lia.
      rewrite dec_round_int by lia. cbn [bind].
      replace (ns =? 1000000000) with false by lia. reflexivity.
  - assert (q = 0) by lia. assert (Hn0 : ns = 0) by lia. clear Hq Hq1 Hm. subst q. subst ns.
    cbn [N.eqb]. rewrite read_exp_byte by lia. cbn [bind].
    replace ((- nf <? -2147483648) || (2147483647 <? - nf)) with false by lia.
    cbn [N.sub N.eqb Pos.sub_mask]. change ((1 - 1 =? 0)%N) with true. cbn [bind].
    replace (- nf =? -2147483648) with false by lia. rewrite Z.opp_involutive.
    replace (nf - 9 <? -2147483648) with false by lia.
    destruct (nf - 9 <? 0) eqn:E9.
    + replace (nf - 9 <? -20) with false by lia. cbn [bind]. rewrite Z.mul_0_l.
      rewrite dec_trunc_nonneg by lia. cbn [bind]. cbn [Z.ltb Z.compare orb].
      rewrite dec_round_int by lia. cbn [bind].
      replace (nf <? 0) with false by lia. cbn [andb Z.eqb].
      replace (nf mod 256) with nf by lia. reflexivity.
    + assert (nf = 9) by lia. subst nf. change (9 - 9) with 0. cbn [bind].
      rewrite dec_trunc_nonneg by lia. cbn [bind]. cbn [Z.ltb Z.compare orb].
      rewrite dec_round_int by lia. cbn [bind]. reflexivity.
Qed.

(* ---- unpacking wf_ts ------------------------------------------------------------------------------------------- *)
Lemma abs_lo_val : abs_lo = 9223371966579724800. Proof. reflexivity. Qed.
Lemma abs_hi_val : abs_hi = 9223372282117622400. Proof. reflexivity. Qed.

Lemma abs_of_year_wide y mo d h mi s :
  valid_date y mo d = true -> tod_ok h mi s ->
  abs_lo - 86400 <= abs_of y mo d h mi s < abs_hi + 86400 -> 0 <= y <= 10000.
Proof.
  intros V (?&?&?). rewrite abs_lo_val, abs_hi_val. unfold abs_of. unfold valid_date in V.
  assert (Hd : 1 <= d <= 31).
  { unfold days_in_month in V. destruct (mo =? 2), (is_leap y), ((mo =? 4) || (mo =? 6) || (mo =? 9) || (mo =? 11)); lia. }
  unfold days_from_civil, days_per_era, epoch_shift, abs_day_shift.
  destruct (mo <=? 2) eqn:Em; lia.
Qed.

Record wf_view (t : ts) (a ns om y mo d h mi s : Z) : Prop := {
  wv_time : t_time t = mkTime a ns (60 * om);
  wv_om : -1440 < om < 1440;
  wv_a : 0 <= a < two64z;
  wv_fields : go_fields (t_time t) = (y, mo, d, h, mi, s);
  wv_valid : valid_date y mo d = true;
  wv_tod : tod_ok h mi s;
  wv_abs : abs_of y mo d h mi s = a + 60 * om;
  wv_range : abs_lo <= a + 60 * om < abs_hi;
  wv_year : 1 <= y <= 9999;
  wv_ns : 0 <= ns < 1000000000
}.

Lemma wf_unpack t : wf_ts t ->
  exists a ns om y mo d h mi s, wf_view t a ns om y mo d h mi s.
Proof.
  unfold wf_ts. pose proof (go_fields_spec (t_time t)) as S. cbv zeta in S.
  destruct (go_fields (t_time t)) as [[[[[y mo] d] h] mi] s] eqn:EF.
  destruct S as (V & T & EA).
  intros (Ha & (om & Hoff & Hom) & Hy & Hns & _).
  destruct (t_time t) as [a ns off] eqn:ET. cbn [g_abs g_nsec g_off] in *. subst off.
  pose proof (proj2 (abs_of_year_bounds y mo d h mi s V T) Hy) as B.
  assert (EW : wrap_abs (a + 60 * om) = a + 60 * om).
  { rewrite EA in B. rewrite abs_lo_val, abs_hi_val in B. unfold wrap_abs, two64z in *. lia. }
  rewrite EW in EA. rewrite EA in B.
  exists a, ns, om, y, mo, d, h, mi, s. constructor; auto. rewrite ET. exact EF.
Qed.

(* the UTC fields the binary writer emits *)
Lemma utc_view a ns : abs_lo - 86400 < a < abs_hi + 86400 ->
  exists y mo d h mi s,
    go_fields (mkTime a ns 0) = (y, mo, d, h, mi, s) /\ valid_date y mo d = true /\ tod_ok h mi s /\
    abs_of y mo d h mi s = a /\ 0 <= y <= 10000.
Proof.
  intros B. pose proof (go_fields_spec (mkTime a ns 0)) as S. cbv zeta in S. cbn [g_abs g_off] in S.
  rewrite Z.add_0_r in S.
  assert (EW : wrap_abs a = a).
  { rewrite abs_lo_val, abs_hi_val in B. apply wrap_abs_small. unfold two64z. lia. }
  rewrite EW in S.
  destruct (go_fields (mkTime a ns 0)) as [[[[[y mo] d] h] mi] s].
  destruct S as (V & T & EA). exists y, mo, d, h, mi, s.
  split; [reflexivity|]. split; [exact V|]. split; [exact T|]. split; [exact EA|].
  apply (abs_of_year_wide y mo d h mi s V T). lia.
Qed.

(* time.Date applied to the fields of a time gives the time back *)
Lemma go_date_of_fields y mo d h mi s ns a :
  valid_date y mo d = true -> tod_ok h mi s -> abs_of y mo d h mi s = a -> 0 <= a < two64z ->
  0 <= ns < 1000000000 ->
  go_date y mo d h mi s ns = mkTime a ns 0.
Proof.
  intros V T E B Hns. rewrite go_date_inrange; [|unfold valid_date in V; lia|exact T|exact Hns].
  rewrite E, wrap_abs_small by exact B. reflexivity.
Qed.

(* ---- tryCreateTimestamp on the fields the writer emitted ---------------------------------------------------------- *)
Lemma go_ymd_of_fields t y mo d h mi s : go_fields t = (y, mo, d, h, mi, s) ->
  go_year t = y /\ go_month t = mo /\ go_day t = d.
Proof. intros E. unfold go_year, go_month, go_day. rewrite E. auto. Qed.

Lemma in_range_true lo v hi : lo <= v <= hi -> in_range lo v hi = true.
Proof. unfold in_range. lia. Qed.

Lemma try_create_date c y mo d a p :
  valid_date y mo d = true -> abs_of y mo d 0 0 0 = a -> 0 <= a < two64z -> 1 <= y <= 9999 ->
  1 <= rank p <= 3 ->
  forall offset neg,
  try_create c [y; mo; d; 0; 0; 0] 0 false offset neg p 0 = Ok (mkTs (mkTime a 0 0) p KUnspec 0).
Proof.
  intros V E B Hy Hp offset neg. unfold try_create. cbn [nth].
  rewrite !in_range_true by lia. cbn [andb negb]. rewrite andb_false_r.
  assert (T0 : tod_ok 0 0 0) by (unfold tod_ok; lia).
  rewrite (go_date_of_fields y mo d 0 0 0 0 a V T0 E B) by lia.
  assert (EF : go_fields (mkTime a 0 0) = (y, mo, d, 0, 0, 0)).
  { rewrite <- E. apply go_fields_of_abs; [exact V|exact T0|rewrite E; exact B]. }
  destruct (go_ymd_of_fields _ _ _ _ _ _ _ EF) as (Ey & Em & Ed).
  rewrite Ey, Em, Ed, !Z.eqb_refl. cbn [andb negb].
  replace (rank p <=? 3) with true by lia.
  unfold new_date_ts. replace (6 <=? rank p) with false by lia. cbn [t_time]. rewrite Ey.
  rewrite in_range_true by lia. cbn [negb]. rewrite andb_false_r. reflexivity.
Qed.

Lemma try_create_time c uy umo ud uh umi us ns a om p k nf (neg : bool) :
  valid_date uy umo ud = true -> tod_ok uh umi us -> abs_of uy umo ud uh umi us = a -> 0 <= a < two64z ->
  0 <= ns < 1000000000 -> -1440 < om < 1440 ->
  (1 <= go_year (mkTime a ns (60 * om)) <= 9999) ->
  4 <= rank p -> 0 <= nf <= 9 -> (rank p < 6 -> nf = 0) ->
  ((om = 0 /\ k = if neg then KUnspec else KUTC) \/ (om <> 0 /\ k = KLocal)) ->
  try_create c [uy; umo; ud; uh; umi; us] ns false om neg p nf = Ok (mkTs (mkTime a ns (60 * om)) p k nf).
Proof.
  intros V T E B Hns Hom Hy Hp Hnf Hnf0 Hk. unfold try_create. cbn [nth].
  pose proof T as T'. destruct T' as (Th & Tm & Ts).
  rewrite !in_range_true by lia. cbn [andb negb]. rewrite andb_false_r.
  rewrite (go_date_of_fields uy umo ud uh umi us ns a V T E B Hns).
  assert (EF : go_fields (mkTime a ns 0) = (uy, umo, ud, uh, umi, us)).
  { rewrite <- E. apply go_fields_of_abs; [exact V|exact T|rewrite E; exact B]. }
  destruct (go_ymd_of_fields _ _ _ _ _ _ _ EF) as (Ey & Em & Ed).
  rewrite Ey, Em, Ed, !Z.eqb_refl. cbn [andb negb].
  replace (rank p <=? 3) with false by lia.
  replace ((om <=? -1440) || (1440 <=? om)) with false by lia.
  assert (NF : forall tm kk, new_ts_frac tm p kk nf = mkTs tm p kk nf).
  { intros tm kk. unfold new_ts_frac. replace (9 <? nf) with false by lia.
    destruct (rank p <? 6) eqn:E6; [rewrite Hnf0 by lia|]; reflexivity. }
  destruct Hk as [[-> ->]|[Hne ->]].
  - cbn [Z.eqb]. rewrite NF. cbn [t_time]. change (60 * 0) with 0 in Hy |- *.
    rewrite in_range_true by lia. cbn [negb]. rewrite andb_false_r. reflexivity.
  - replace (om =? 0) with false by lia. rewrite NF. cbn [t_time]. unfold go_in. cbn [g_abs g_nsec].
    rewrite i64_small by lia. replace (om * 60) with (60 * om) by lia.
    rewrite in_range_true by lia. cbn [negb]. rewrite andb_false_r. reflexivity.
Qed.

(* ---- binary: write then read ---------------------------------------------------------------------------------------- *)
Lemma quot_60 om : Z.quot (60 * om) 60 = om.
Proof. rewrite Z.mul_comm. apply Z.quot_mul. lia. Qed.

Lemma vu_field v : 0 <= v <= 10000 -> (Z.to_N v < two64)%N /\ to_i64 (Z.to_N v) = v.
Proof. intros H. split; [unfold two64; lia|apply to_i64_of_small; lia]. Qed.

Lemma vlen_small v : 0 <= v < 128 -> varuint_len (Z.to_N v) = 1%N.
Proof. intros H. apply varuint_len_small. lia. Qed.

Lemma vlen_year v : 0 <= v <= 10000 -> (varuint_len (Z.to_N v) <= 2)%N.
Proof.
  intros H. unfold varuint_len.
  pose proof (len_loop_le 128 10 (Z.to_N v / 128) 1 1 ltac:(lia)) as L.
  assert ((Z.to_N v / 128 < 128 ^ N.of_nat 1)%N) by (change (128 ^ N.of_nat 1)%N with 128%N; lia).
  specialize (L H0). lia.
Qed.

Lemma int_len_le9 n : Z.abs n < Z.of_N two64 -> (int_len n <= 9)%N.
Proof.
  intros H. rewrite <- int_len_ok by exact H. unfold append_int. destruct (n =? 0) eqn:E; [cbn; lia|].
  assert (Hm : (mag64 n < two64)%N) by (unfold mag64; lia).
  assert (Hp : (0 < mag64 n)%N) by (unfold mag64; lia).
  destruct (append_uint_head (mag64 n) Hp Hm) as (d & t & Ed & _).
  pose proof (append_uint_length_le (mag64 n) Hm) as L. rewrite Ed in L |- *. cbn [length] in L.
  rewrite sign_bytes_length. destruct (d <? 128)%N; lia.
Qed.

Lemma rf_stop' k len pr fs inp : len = 0%N -> read_fields k len pr fs inp = Ok (0%N, pr, fs, inp).
Proof. intros ->. apply rf_stop. Qed.

Lemma rf_step_last k len pr fs v :
  (v < two64)%N -> (varuint_len v <= len)%N -> pr < 5 ->
  read_fields (S k) len pr fs (vu v) =
    let len' := (len - varuint_len v)%N in
    let i := (6 - S k)%nat in
    let fs' := upd fs i (to_i64 v) in
    if Nat.eqb i 3 then (if (len' =? 0)%N then Err else read_fields k len' pr fs' [])
    else read_fields k len' (pr + 1) fs' [].
Proof. intros. rewrite <- (app_nil_r (vu v)). apply rf_step; assumption. Qed.

Ltac rstep := first [rewrite rf_step by (first [assumption | lia]) | rewrite rf_step_last by (first [assumption | lia])];
              cbv zeta; cbn [Nat.sub Nat.eqb upd].
Ltac nz := repeat match goal with
  | |- context [(?x =? 0)%N] => first [replace (x =? 0)%N with false by lia | replace (x =? 0)%N with true by lia]
  | |- context [(0 <? ?x)%N] => first [replace (0 <? x)%N with false by lia | replace (0 <? x)%N with true by lia]
  end.

Theorem bin_roundtrip c t : wf_ts t -> ts_read_bin c (ts_write_bin t) = Ok t.
Proof.
  intros W. destruct (wf_unpack t W) as (a & ns & om & y & mo & d & h & mi & s & WV). destruct WV.
  unfold wf_ts in W. rewrite wv_fields0 in W. destruct W as (_ & _ & _ & _ & Hnf & Hpn & Hmod & Hp).
  destruct t as [tm p k nf]. cbn [t_time t_prec t_kind t_nfrac] in *. subst tm.
  cbn [g_abs g_nsec g_off] in *.
  unfold ts_write_bin. cbn [t_time t_prec t_kind t_nfrac g_off]. rewrite quot_60.
  unfold go_in. cbn [g_abs g_nsec].
  destruct (utc_view a ns) as (uy & umo & ud & uh & umi & us & EU & UV & UT & UA & UY).
  { rewrite abs_lo_val, abs_hi_val in *. lia. }
  assert (Hvalid : 1 <= umo <= 12 /\ 1 <= ud <= 31).
  { unfold valid_date in UV. unfold days_in_month in UV.
    destruct (umo =? 2), (is_leap uy), ((umo =? 4) || (umo =? 6) || (umo =? 9) || (umo =? 11)); lia. }
  destruct UT as (Uh & Um & Us).
  (* seconds are not touched by a whole-minute offset *)
  assert (Hsec : us = s).
  { destruct wv_tod0 as (?&?&?). unfold abs_of in UA, wv_abs0. lia. }
  unfold timestamp_len, append_timestamp. cbn [t_time t_prec t_kind t_nfrac g_nsec]. rewrite EU.
  rewrite !u64_small by (unfold two64z; lia).
  destruct (vu_field uy UY) as (Yv & Yi).
  destruct (vu_field umo ltac:(lia)) as (Mv & Mi). destruct (vu_field ud ltac:(lia)) as (Dv & Di).
  destruct (vu_field uh ltac:(lia)) as (Hv & Hi). destruct (vu_field umi ltac:(lia)) as (Iv & Ii).
  destruct (vu_field us ltac:(lia)) as (Sv & Si).
  pose proof (vlen_year uy UY) as LY. pose proof (varuint_len_pos (Z.to_N uy)) as LY1.
  pose proof (vlen_small umo ltac:(lia)) as LM. pose proof (vlen_small ud ltac:(lia)) as LD.
  pose proof (vlen_small uh ltac:(lia)) as LH. pose proof (vlen_small umi ltac:(lia)) as LI.
  pose proof (vlen_small us ltac:(lia)) as LS.
  pose proof (varint_len_le2 om wv_om0) as LO. pose proof (varint_len_pos om) as LO1.
  assert (UB : 0 <= a < two64z) by exact wv_a0.
  destruct p; cbv iota beta in Hp |- *; try contradiction.
  - (* year *)
    destruct Hp as (-> & Hoff & -> & -> & -> & -> & ->).
    assert (om = 0) by lia. subst om. rewrite Z.add_0_r in *.
    assert (nf = 0) by (destruct Hpn as [_ Hpn]; destruct (Z_le_gt_dec 1 nf); [specialize (Hpn l); discriminate|lia]).
    subst nf. assert (ns = 0) by (apply (nfrac_zero_nsec ns 0); auto). subst ns.
    assert (EQ : (uy, umo, ud, uh, umi, us) = (y, 1, 1, 0, 0, 0)).
    { apply abs_of_inj; auto; unfold tod_ok; lia. }
    inversion EQ; subst.
    rewrite !append_varuint_vu, <- !app_assoc. rewrite read_tag by lia.
    unfold read_ts_body. cbn [app]. rewrite read_offset_unknown by lia. cbn [bind].
    rstep. rewrite rf_stop' by lia. cbn [bind]. nz. cbn [bind Z.ltb Z.compare].
    rewrite Yi. change (prec_of_rank (0 + 1)) with PYear. change (60 * 0) with 0.
    apply try_create_date; auto; cbn [rank]; lia.
  - (* month *)
    destruct Hp as (-> & Hoff & -> & -> & -> & ->).
    assert (om = 0) by lia. subst om. rewrite Z.add_0_r in *.
    assert (nf = 0) by (destruct Hpn as [_ Hpn]; destruct (Z_le_gt_dec 1 nf); [specialize (Hpn l); discriminate|lia]).
    subst nf. assert (ns = 0) by (apply (nfrac_zero_nsec ns 0); auto). subst ns.
    assert (EQ : (uy, umo, ud, uh, umi, us) = (y, mo, 1, 0, 0, 0)).
    { apply abs_of_inj; auto; unfold tod_ok; lia. }
    inversion EQ; subst.
    rewrite !append_varuint_vu, <- !app_assoc. rewrite read_tag by lia.
    unfold read_ts_body. cbn [app]. rewrite read_offset_unknown by lia. cbn [bind].
    rstep. rstep. rewrite rf_stop' by lia. cbn [bind]. nz. cbn [bind Z.ltb Z.compare].
    rewrite Yi, Mi. change (prec_of_rank (0 + 1 + 1)) with PMonth. change (60 * 0) with 0.
    apply try_create_date; auto; cbn [rank]; lia.
  - (* day *)
    destruct Hp as (-> & Hoff & -> & -> & ->).
    assert (om = 0) by lia. subst om. rewrite Z.add_0_r in *.
    assert (nf = 0) by (destruct Hpn as [_ Hpn]; destruct (Z_le_gt_dec 1 nf); [specialize (Hpn l); discriminate|lia]).
    subst nf. assert (ns = 0) by (apply (nfrac_zero_nsec ns 0); auto). subst ns.
    assert (EQ : (uy, umo, ud, uh, umi, us) = (y, mo, d, 0, 0, 0)).
    { apply abs_of_inj; auto; unfold tod_ok; lia. }
    inversion EQ; subst.
    rewrite !append_varuint_vu, <- !app_assoc. rewrite read_tag by lia.
    unfold read_ts_body. cbn [app]. rewrite read_offset_unknown by lia. cbn [bind].
    rstep. rstep. rstep. rewrite rf_stop' by lia. cbn [bind]. nz. cbn [bind Z.ltb Z.compare].
    rewrite Yi, Mi, Di. change (prec_of_rank (0 + 1 + 1 + 1)) with PDay. change (60 * 0) with 0.
    apply try_create_date; auto; cbn [rank]; lia.
  - (* minute *)
    destruct Hp as (Hk & ->). unfold kind_off_ok in Hk. cbn [t_kind t_time g_off] in Hk.
    assert (nf = 0) by (destruct Hpn as [_ Hpn]; destruct (Z_le_gt_dec 1 nf); [specialize (Hpn l); discriminate|lia]).
    subst nf. assert (ns = 0) by (apply (nfrac_zero_nsec ns 0); auto). subst ns. subst us.
    destruct (go_ymd_of_fields _ _ _ _ _ _ _ wv_fields0) as (Ly & _ & _).
    destruct k.
    + assert (om = 0) by (destruct (Z.eq_dec om 0); [auto|exfalso; assert (KUnspec = KLocal) by (apply Hk; lia); discriminate]).
      subst om.
      rewrite !append_varuint_vu, <- !app_assoc. rewrite read_tag by lia.
      unfold read_ts_body. cbn [app]. rewrite read_offset_unknown by lia. cbn [bind].
      rstep. rstep. rstep. rstep. nz. rstep. rewrite rf_stop' by lia. cbn [bind]. nz. cbn [bind Z.ltb Z.compare].
      rewrite Yi, Mi, Di, Hi, Ii.
      match goal with |- context [prec_of_rank ?e] => let v := eval vm_compute in (prec_of_rank e) in change (prec_of_rank e) with v end.
      apply try_create_time; auto; try (unfold tod_ok; lia); cbn [rank]; try lia.
    + assert (om = 0) by (destruct (Z.eq_dec om 0); [auto|exfalso; assert (KUTC = KLocal) by (apply Hk; lia); discriminate]).
      subst om.
      rewrite !append_varuint_vu, append_varint_vi, <- !app_assoc. rewrite read_tag by lia.
      unfold read_ts_body. rewrite read_offset_known by lia. cbn [bind].
      rstep. rstep. rstep. rstep. nz. rstep. rewrite rf_stop' by lia. cbn [bind]. nz. cbn [bind Z.ltb Z.compare].
      rewrite Yi, Mi, Di, Hi, Ii.
      match goal with |- context [prec_of_rank ?e] => let v := eval vm_compute in (prec_of_rank e) in change (prec_of_rank e) with v end.
      apply try_create_time; auto; try (unfold tod_ok; lia); cbn [rank]; try lia.
    + assert (om <> 0) by (intros ->; destruct Hk as [Hk _]; specialize (Hk eq_refl); lia).
      rewrite !append_varuint_vu, append_varint_vi, <- !app_assoc. rewrite read_tag by lia.
      unfold read_ts_body. rewrite read_offset_known by lia. cbn [bind].
      rstep. rstep. rstep. rstep. nz. rstep. rewrite rf_stop' by lia. cbn [bind]. nz. cbn [bind Z.ltb Z.compare].
      rewrite Yi, Mi, Di, Hi, Ii.
      match goal with |- context [prec_of_rank ?e] => let v := eval vm_compute in (prec_of_rank e) in change (prec_of_rank e) with v end.
      apply try_create_time; auto; try (unfold tod_ok; lia); cbn [rank]; try lia.
  - (* second *)
    rename Hp into Hk. unfold kind_off_ok in Hk. cbn [t_kind t_time g_off] in Hk.
    assert (nf = 0) by (destruct Hpn as [_ Hpn]; destruct (Z_le_gt_dec 1 nf); [specialize (Hpn l); discriminate|lia]).
    subst nf. assert (ns = 0) by (apply (nfrac_zero_nsec ns 0); auto). subst ns. subst us.
    destruct (go_ymd_of_fields _ _ _ _ _ _ _ wv_fields0) as (Ly & _ & _).
    destruct k.
    + assert (om = 0) by (destruct (Z.eq_dec om 0); [auto|exfalso; assert (KUnspec = KLocal) by (apply Hk; lia); discriminate]).
      subst om.
      rewrite !append_varuint_vu, <- !app_assoc. rewrite read_tag by lia.
      unfold read_ts_body. cbn [app]. rewrite read_offset_unknown by lia. cbn [bind].
      rstep. rstep. rstep. rstep. nz. rstep. rstep. cbn [read_fields bind]. nz. cbn [bind Z.ltb Z.compare].
      rewrite Yi, Mi, Di, Hi, Ii, Si.
      match goal with |- context [prec_of_rank ?e] => let v := eval vm_compute in (prec_of_rank e) in change (prec_of_rank e) with v end.
      apply try_create_time; auto; try (unfold tod_ok; lia); cbn [rank]; try lia.
    + assert (om = 0) by (destruct (Z.eq_dec om 0); [auto|exfalso; assert (KUTC = KLocal) by (apply Hk; lia); discriminate]).
      subst om.
      rewrite !append_varuint_vu, append_varint_vi, <- !app_assoc. rewrite read_tag by lia.
      unfold read_ts_body. rewrite read_offset_known by lia. cbn [bind].
      rstep. rstep. rstep. rstep. nz. rstep. rstep. cbn [read_fields bind]. nz. cbn [bind Z.ltb Z.compare].
      rewrite Yi, Mi, Di, Hi, Ii, Si.
      match goal with |- context [prec_of_rank ?e] => let v := eval vm_compute in (prec_of_rank e) in change (prec_of_rank e) with v end.
      apply try_create_time; auto; try (unfold tod_ok; lia); cbn [rank]; try lia.
    + assert (om <> 0) by (intros ->; destruct Hk as [Hk _]; specialize (Hk eq_refl); lia).
      rewrite !append_varuint_vu, append_varint_vi, <- !app_assoc. rewrite read_tag by lia.
      unfold read_ts_body. rewrite read_offset_known by lia. cbn [bind].
      rstep. rstep. rstep. rstep. nz. rstep. rstep. cbn [read_fields bind]. nz. cbn [bind Z.ltb Z.compare].
      rewrite Yi, Mi, Di, Hi, Ii, Si.
      match goal with |- context [prec_of_rank ?e] => let v := eval vm_compute in (prec_of_rank e) in change (prec_of_rank e) with v end.
      apply try_create_time; auto; try (unfold tod_ok; lia); cbn [rank]; try lia.
  - (* nanosecond *)
    rename Hp into Hk. unfold kind_off_ok in Hk. cbn [t_kind t_time g_off] in Hk.
    assert (Hnf1 : 1 <= nf) by (apply Hpn; reflexivity).
    replace (0 <? nf) with true by lia. cbv zeta.
    pose proof (read_fraction c ns nf wv_ns0 ltac:(lia) Hmod) as RF. cbv zeta in RF.
    assert (Hnst : 0 <= truncated_nanos ns nf < 1000000000).
    { rewrite truncated_nanos_div by lia. assert (0 < 10 ^ (9 - nf)) by (apply Z.pow_pos_nonneg; lia).
      split; [apply Z.div_pos; lia|]. apply Z.div_lt_upper_bound; nia. }
    pose proof (int_len_le9 (truncated_nanos ns nf) ltac:(unfold two64; lia)) as LI9.
    subst us.
    destruct (go_ymd_of_fields _ _ _ _ _ _ _ wv_fields0) as (Ly & _ & _).
    destruct (0 <? truncated_nanos ns nf) eqn:Enst.
    + destruct k.
      * assert (om = 0) by (destruct (Z.eq_dec om 0); [auto|exfalso; assert (KUnspec = KLocal) by (apply Hk; lia); discriminate]).
        subst om.
        rewrite append_int_app, !append_varuint_vu, <- !app_assoc. rewrite read_tag by lia.
        unfold read_ts_body. cbn [app]. rewrite read_offset_unknown by lia. cbn [bind].
        rstep. rstep. rstep. rstep. nz. rstep. rstep. cbn [read_fields bind app]. nz.
        match goal with |- context [read_nsecs c ?l _] => replace l with (1 + int_len (truncated_nanos ns nf))%N by lia end.
        rewrite RF. cbn [bind]. replace (0 <? nf) with true by lia.
        rewrite Yi, Mi, Di, Hi, Ii, Si. change (prec_of_rank 6) with PNano.
        apply try_create_time; auto; try (unfold tod_ok; lia); cbn [rank]; try lia.
      * assert (om = 0) by (destruct (Z.eq_dec om 0); [auto|exfalso; assert (KUTC = KLocal) by (apply Hk; lia); discriminate]).
        subst om.
        rewrite append_int_app, !append_varuint_vu, append_varint_vi, <- !app_assoc. rewrite read_tag by lia.
        unfold read_ts_body. rewrite read_offset_known by lia. cbn [bind].
        rstep. rstep. rstep. rstep. nz. rstep. rstep. cbn [read_fields bind app]. nz.
        match goal with |- context [read_nsecs c ?l _] => replace l with (1 + int_len (truncated_nanos ns nf))%N by lia end.
        rewrite RF. cbn [bind]. replace (0 <? nf) with true by lia.
        rewrite Yi, Mi, Di, Hi, Ii, Si. change (prec_of_rank 6) with PNano.
        apply try_create_time; auto; try (unfold tod_ok; lia); cbn [rank]; try lia.
      * assert (om <> 0) by (intros ->; destruct Hk as [Hk _]; specialize (Hk eq_refl); lia).
        rewrite append_int_app, !append_varuint_vu, append_varint_vi, <- !app_assoc. rewrite read_tag by lia.
        unfold read_ts_body. rewrite read_offset_known by lia. cbn [bind].
        rstep. rstep. rstep. rstep. nz. rstep. rstep. cbn [read_fields bind app]. nz.
        match goal with |- context [read_nsecs c ?l _] => replace l with (1 + int_len (truncated_nanos ns nf))%N by lia end.
        rewrite RF. cbn [bind]. replace (0 <? nf) with true by lia.
        rewrite Yi, Mi, Di, Hi, Ii, Si. change (prec_of_rank 6) with PNano.
        apply try_create_time; auto; try (unfold tod_ok; lia); cbn [rank]; try lia.
    + destruct k.
      * assert (om = 0) by (destruct (Z.eq_dec om 0); [auto|exfalso; assert (KUnspec = KLocal) by (apply Hk; lia); discriminate]).
        subst om.
        rewrite !append_varuint_vu, <- !app_assoc. rewrite read_tag by lia.
        unfold read_ts_body. cbn [app]. rewrite read_offset_unknown by lia. cbn [bind].
        rstep. rstep. rstep. rstep. nz. rstep. rstep. cbn [read_fields bind app]. nz.
        match goal with |- context [read_nsecs c ?l _] => replace l with 1%N by lia end.
        rewrite RF. cbn [bind]. replace (0 <? nf) with true by lia.
        rewrite Yi, Mi, Di, Hi, Ii, Si. change (prec_of_rank 6) with PNano.
        apply try_create_time; auto; try (unfold tod_ok; lia); cbn [rank]; try lia.
      * assert (om = 0) by (destruct (Z.eq_dec om 0); [auto|exfalso; assert (KUTC = KLocal) by (apply Hk; lia); discriminate]).
        subst om.
        rewrite !append_varuint_vu, append_varint_vi, <- !app_assoc. rewrite read_tag by lia.
        unfold read_ts_body. rewrite read_offset_known by lia. cbn [bind].
        rstep. rstep. rstep. rstep. nz. rstep. rstep. cbn [read_fields bind app]. nz.
        match goal with |- context [read_nsecs c ?l _] => replace l with 1%N by lia end.
        rewrite RF. cbn [bind]. replace (0 <? nf) with true by lia.
        rewrite Yi, Mi, Di, Hi, Ii, Si. change (prec_of_rank 6) with PNano.
        apply try_create_time; auto; try (unfold tod_ok; lia); cbn [rank]; try lia.
      * assert (om <> 0) by (intros ->; destruct Hk as [Hk _]; specialize (Hk eq_refl); lia).
        rewrite !append_varuint_vu, append_varint_vi, <- !app_assoc. rewrite read_tag by lia.
        unfold read_ts_body. rewrite read_offset_known by lia. cbn [bind].
        rstep. rstep. rstep. rstep. nz. rstep. rstep. cbn [read_fields bind app]. nz.
        match goal with |- context [read_nsecs c ?l _] => replace l with 1%N by lia end.
        rewrite RF. cbn [bind]. replace (0 <? nf) with true by lia.
        rewrite Yi, Mi, Di, Hi, Ii, Si. change (prec_of_rank 6) with PNano.
        apply try_create_time; auto; try (unfold tod_ok; lia); cbn [rank]; try lia.
Qed.

