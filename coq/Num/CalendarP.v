(* CalendarP.v — days_from_civil and civil_from_days are mutually inverse on all
   integers.  One 400-year era is checked by computation in CalendarS.v; the
   rest follows from periodicity, which is linear arithmetic. *)
From Coq Require Import List ZArith Bool Lia ZifyBool.
From IonV Require Import Num.Calendar Num.CalendarS.
Import ListNotations.
Open Scope Z_scope.
Ltac Zify.zify_post_hook ::= Z.div_mod_to_equations.

(* ---- periodicity ------------------------------------------------------------------- *)
Lemma is_leap_period y k : is_leap (y + 400 * k) = is_leap y.
Proof.
  unfold is_leap.
  replace ((y + 400 * k) mod 4) with (y mod 4) by lia.
  replace ((y + 400 * k) mod 100) with (y mod 100) by lia.
  replace ((y + 400 * k) mod 400) with (y mod 400) by lia.
  reflexivity.
Qed.

Lemma days_in_month_period y k m : days_in_month (y + 400 * k) m = days_in_month y m.
Proof. unfold days_in_month. rewrite is_leap_period. reflexivity. Qed.

Lemma valid_date_period y k m d : valid_date (y + 400 * k) m d = valid_date y m d.
Proof. unfold valid_date. rewrite days_in_month_period. reflexivity. Qed.

Lemma dfc_period y k m d :
  days_from_civil (y + 400 * k) m d = days_from_civil y m d + days_per_era * k.
Proof.
  unfold days_from_civil, days_per_era, epoch_shift.
  set (y1 := if m <=? 2 then y + 400 * k - 1 else y + 400 * k).
  set (y0 := if m <=? 2 then y - 1 else y).
  assert (E : y1 = y0 + k * 400) by (unfold y1, y0; destruct (m <=? 2); lia).
  rewrite E. rewrite Z.div_add by lia.
  set (e := y0 / 400).
  replace (y0 + k * 400 - (e + k) * 400) with (y0 - e * 400) by lia.
  lia.
Qed.

Definition shift_year (k : Z) (c : Z * Z * Z) : Z * Z * Z :=
  let '(y, m, d) := c in (y + 400 * k, m, d).

Lemma cfd_period z k :
  civil_from_days (z + days_per_era * k) = shift_year k (civil_from_days z).
Proof.
  unfold civil_from_days, days_per_era, epoch_shift, shift_year.
  replace (z + 146097 * k + 719468) with (z + 719468 + k * 146097) by lia.
  rewrite Z.div_add by lia.
  set (e := (z + 719468) / 146097).
  replace (z + 719468 + k * 146097 - (e + k) * 146097) with (z + 719468 - e * 146097) by lia.
  set (doe := z + 719468 - e * 146097).
  set (yoe := (doe - doe / 1460 + doe / 36524 - doe / 146096) / 365).
  set (doy := doe - (365 * yoe + yoe / 4 - yoe / 100)).
  set (mp := (5 * doy + 2) / 153).
  set (m := if mp <? 10 then mp + 3 else mp - 9).
  destruct (m <=? 2); f_equal; f_equal; lia.
Qed.

(* ---- the two inverse theorems ------------------------------------------------------- *)
Theorem civil_of_days_valid z :
  let '(y, m, d) := civil_from_days z in
  valid_date y m d = true /\ days_from_civil y m d = z.
Proof.
  set (i := (z + epoch_shift) mod days_per_era).
  set (k := (z + epoch_shift) / days_per_era).
  assert (Hi : 0 <= i < days_per_era) by (unfold i, days_per_era; lia).
  assert (Hz : z = (i - epoch_shift) + days_per_era * k)
    by (unfold i, k, days_per_era, epoch_shift; lia).
  pose proof (era_day i Hi) as C. unfold chk_day in C.
  replace (i <? days_per_era) with true in C by lia.
  assert (E : civil_from_days z = shift_year k (civil_from_days (i - epoch_shift))).
  { rewrite <- cfd_period. f_equal. exact Hz. }
  rewrite E. clear E Hz.
  destruct (civil_from_days (i - epoch_shift)) as [[y m] d]. cbn [shift_year].
  apply andb_true_iff in C. destruct C as [C1 C2].
  rewrite valid_date_period, dfc_period. split; [exact C1|]. lia.
Qed.

Theorem days_of_civil_of_days z :
  let '(y, m, d) := civil_from_days z in days_from_civil y m d = z.
Proof.
  pose proof (civil_of_days_valid z) as H.
  destruct (civil_from_days z) as [[y m] d]. apply H.
Qed.

Theorem civil_of_days_of_civil y m d :
  valid_date y m d = true -> civil_from_days (days_from_civil y m d) = (y, m, d).
Proof.
  intros V. unfold valid_date in V.
  set (y0 := y mod 400). set (k := y / 400).
  assert (Hy : y = y0 + 400 * k) by (unfold y0, k; lia).
  assert (Hy0 : 0 <= y0 < 400) by (unfold y0; lia).
  rewrite Hy in V |- *. rewrite days_in_month_period in V. rewrite dfc_period, cfd_period.
  set (i := y0 * 372 + (m - 1) * 31 + (d - 1)).
  assert (Hd : d <= 31) by (unfold days_in_month in V; destruct (m =? 2), (is_leap y0),
     ((m =? 4) || (m =? 6) || (m =? 9) || (m =? 11)); lia).
  assert (Hi : 0 <= i < 400 * 372) by (unfold i; lia).
  pose proof (era_civil i Hi) as C. unfold chk_civil in C.
  replace (i <? 400 * 372) with true in C by lia.
  replace (i / 372) with y0 in C by (unfold i; lia).
  replace (i mod 372 / 31 + 1) with m in C by (unfold i; lia).
  replace (i mod 31 + 1) with d in C by (unfold i; lia).
  replace (d <=? days_in_month y0 m) with true in C by lia.
  unfold triple_eqb in C.
  destruct (civil_from_days (days_from_civil y0 m d)) as [[a b] c].
  cbn [shift_year]. f_equal; [f_equal|]; lia.
Qed.

(* civil_from_days always yields a valid date *)
Corollary civil_from_days_valid z :
  let '(y, m, d) := civil_from_days z in valid_date y m d = true.
Proof.
  pose proof (civil_of_days_valid z) as H.
  destruct (civil_from_days z) as [[y m] d]. apply H.
Qed.

(* days_from_civil is injective on valid dates *)
Corollary dfc_inj y m d y' m' d' :
  valid_date y m d = true -> valid_date y' m' d' = true ->
  days_from_civil y m d = days_from_civil y' m' d' -> (y, m, d) = (y', m', d').
Proof.
  intros V V' E. rewrite <- (civil_of_days_of_civil y m d V), <- (civil_of_days_of_civil y' m' d' V').
  rewrite E. reflexivity.
Qed.

(* the day after: used for hour-24 style carries *)
Lemma cfd_dfc_plus y m d c :
  valid_date y m d = true -> civil_from_days (days_from_civil y m d + c) = (y, m, d) -> c = 0.
Proof.
  intros V E. pose proof (days_of_civil_of_days (days_from_civil y m d + c)) as H.
  rewrite E in H. lia.
Qed.

