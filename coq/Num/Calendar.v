(* Calendar.v — proleptic Gregorian calendar arithmetic and the part of Go's
   time package that ion/timestamp.go relies on.

   * [days_from_civil y m d] / [civil_from_days z]: day number (0 = 1970-01-01)
     of a civil date and back, with floor division ([Z.div]) so that they are
     total on all integers.
   * [go_date]: time.Date(y, m, d, h, mi, s, ns, time.UTC) of go1.23 — the
     month overflows into the year, nanoseconds into seconds, seconds into
     minutes, minutes into hours, hours into days ("norm", floor semantics),
     then the absolute second count is formed in uint64 arithmetic, which we
     write as an explicit [mod 2^64].
   * a Go [time.Time] is (absolute seconds mod 2^64, nanosecond, zone offset
     in seconds); [go_fields] is Year()/Month()/Day()/Hour()/Minute()/Second()
     of the time in its zone; [go_in] is In(FixedZone(_, off)); [go_add_sec].
   No proofs in this file. *)
From Coq Require Import List ZArith Bool.
Import ListNotations.
Open Scope Z_scope.

(* ---- calendar ---------------------------------------------------------------- *)
Definition is_leap (y : Z) : bool :=
  (y mod 4 =? 0) && (negb (y mod 100 =? 0) || (y mod 400 =? 0)).

Definition days_in_month (y m : Z) : Z :=
  if m =? 2 then (if is_leap y then 29 else 28)
  else if (m =? 4) || (m =? 6) || (m =? 9) || (m =? 11) then 30 else 31.

Definition valid_date (y m d : Z) : bool :=
  (1 <=? m) && (m <=? 12) && (1 <=? d) && (d <=? days_in_month y m).

Definition days_per_era : Z := 146097.
Definition epoch_shift : Z := 719468.      (* days from 0000-03-01 to 1970-01-01 *)

Definition days_from_civil (y m d : Z) : Z :=
  let y' := if m <=? 2 then y - 1 else y in
  let era := y' / 400 in
  let yoe := y' - era * 400 in
  let mp := if m <=? 2 then m + 9 else m - 3 in
  let doy := (153 * mp + 2) / 5 + d - 1 in
  let doe := yoe * 365 + yoe / 4 - yoe / 100 + doy in
  era * days_per_era + doe - epoch_shift.

Definition civil_from_days (z : Z) : Z * Z * Z :=
  let z' := z + epoch_shift in
  let era := z' / days_per_era in
  let doe := z' - era * days_per_era in
  let yoe := (doe - doe / 1460 + doe / 36524 - doe / 146096) / 365 in
  let doy := doe - (365 * yoe + yoe / 4 - yoe / 100) in
  let mp := (5 * doy + 2) / 153 in
  let d := doy - (153 * mp + 2) / 5 + 1 in
  let m := if mp <? 10 then mp + 3 else mp - 9 in
  let y := yoe + era * 400 in
  ((if m <=? 2 then y + 1 else y), m, d).

(* ---- finite sweeps (used by CalendarP) ------------------------------------------ *)
(* [all_range n f lo]: f holds on [lo, lo + 2^n), by binary splitting *)
Fixpoint all_range (n : nat) (f : Z -> bool) (lo : Z) : bool :=
  match n with
  | O => f lo
  | S n' => all_range n' f lo && all_range n' f (lo + 2 ^ Z.of_nat n')
  end.

Definition sweep_bits : nat := 18.         (* 2^18 = 262144 >= 146097 and >= 400*12*31 *)

Definition triple_eqb (a b : Z * Z * Z) : bool :=
  let '(a1, a2, a3) := a in let '(b1, b2, b3) := b in
  (a1 =? b1) && (a2 =? b2) && (a3 =? b3).

(* one era of day numbers: z + epoch_shift in [0, 146097) *)
Definition chk_day (i : Z) : bool :=
  if i <? days_per_era then
    let z := i - epoch_shift in
    let '(y, m, d) := civil_from_days z in
    valid_date y m d && (days_from_civil y m d =? z)
  else true.

(* one era of civil dates: year in [0,400), month 1..12, day 1..31 *)
Definition chk_civil (i : Z) : bool :=
  if i <? 400 * 372 then
    let y := i / 372 in
    let m := (i mod 372) / 31 + 1 in
    let d := i mod 31 + 1 in
    if d <=? days_in_month y m then triple_eqb (civil_from_days (days_from_civil y m d)) (y, m, d)
    else true
  else true.

(* ---- Go time.Time -------------------------------------------------------------------- *)
Definition two64z : Z := 18446744073709551616.
(* seconds from the "absolute" epoch of package time (-292277022399-01-01) to 1970-01-01 *)
Definition abs_unix_shift : Z := 9223372028715321600.
Definition abs_day_shift : Z := 106751991073094.    (* abs_unix_shift / 86400 *)

Record gotime := mkTime { g_abs : Z; g_nsec : Z; g_off : Z }.

Definition wrap_abs (a : Z) : Z := a mod two64z.

(* time.Date(year, month, day, hour, min, sec, nsec, UTC) *)
Definition go_date (y mo d h mi s ns : Z) : gotime :=
  let m0 := mo - 1 in
  let y' := y + m0 / 12 in
  let m' := m0 mod 12 + 1 in
  let s1 := s + ns / 1000000000 in
  let ns' := ns mod 1000000000 in
  let mi1 := mi + s1 / 60 in
  let s' := s1 mod 60 in
  let h1 := h + mi1 / 60 in
  let mi' := mi1 mod 60 in
  let d1 := d + h1 / 24 in
  let h' := h1 mod 24 in
  let days := days_from_civil y' m' 1 + (d1 - 1) in
  mkTime (wrap_abs ((days + abs_day_shift) * 86400 + h' * 3600 + mi' * 60 + s')) ns' 0.

(* (year, month, day, hour, minute, second) of the time in its own zone *)
Definition go_fields (t : gotime) : Z * Z * Z * Z * Z * Z :=
  let a := wrap_abs (g_abs t + g_off t) in
  let days := a / 86400 in
  let sod := a mod 86400 in
  let '(y, m, d) := civil_from_days (days - abs_day_shift) in
  (y, m, d, sod / 3600, (sod mod 3600) / 60, sod mod 60).

Definition go_year (t : gotime) : Z := let '(y, _, _, _, _, _) := go_fields t in y.
Definition go_month (t : gotime) : Z := let '(_, m, _, _, _, _) := go_fields t in m.
Definition go_day (t : gotime) : Z := let '(_, _, d, _, _, _) := go_fields t in d.

(* t.In(time.FixedZone(_, off)) / t.In(time.UTC): same instant, other zone *)
Definition go_in (t : gotime) (off : Z) : gotime := mkTime (g_abs t) (g_nsec t) off.
(* t.Add(k * time.Second) *)
Definition go_add_sec (t : gotime) (k : Z) : gotime :=
  mkTime (wrap_abs (g_abs t + k)) (g_nsec t) (g_off t).
