(* CalendarS.v — the finite sweeps of CalendarP.v, kept in their own file so that
   they are compiled once (about 45 s).
   CalendarP.v — days_from_civil and civil_from_days are mutually inverse on all
   integers.  One 400-year era is checked by computation ([vm_compute] over a
   binary-splitting range, 146097 days and 148800 (year, month, day) slots);
   the rest follows from periodicity, which is linear arithmetic. *)
From Coq Require Import List ZArith Bool Lia ZifyBool.
From IonV Require Import Num.Calendar.
Import ListNotations.
Open Scope Z_scope.
Ltac Zify.zify_post_hook ::= Z.div_mod_to_equations.

(* ---- the range combinator ------------------------------------------------------- *)
Lemma all_range_spec n f lo :
  all_range n f lo = true -> forall z, lo <= z < lo + 2 ^ Z.of_nat n -> f z = true.
Proof.
  revert lo. induction n as [|n IH]; intros lo H z Hz.
  - cbn in Hz. cbn in H. replace z with lo by lia. exact H.
  - cbn [all_range] in H. apply andb_true_iff in H. destruct H as [H1 H2].
    rewrite Nat2Z.inj_succ, Z.pow_succ_r in Hz by lia.
    destruct (Z_lt_ge_dec z (lo + 2 ^ Z.of_nat n)).
    + apply (IH lo H1). lia.
    + apply (IH _ H2). lia.
Qed.

Lemma sweep_size : 2 ^ Z.of_nat sweep_bits = 262144.
Proof. reflexivity. Qed.

Lemma sweep_day : all_range sweep_bits chk_day 0 = true.
Proof. vm_compute. reflexivity. Qed.

Lemma sweep_civil : all_range sweep_bits chk_civil 0 = true.
Proof. vm_compute. reflexivity. Qed.

Lemma era_day i : 0 <= i < days_per_era -> chk_day i = true.
Proof.
  intros H. apply (all_range_spec _ _ _ sweep_day). rewrite sweep_size.
  unfold days_per_era in H. lia.
Qed.

Lemma era_civil i : 0 <= i < 400 * 372 -> chk_civil i = true.
Proof.
  intros H. apply (all_range_spec _ _ _ sweep_civil). rewrite sweep_size. lia.
Qed.

