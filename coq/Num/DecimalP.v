(* DecimalP.v — lemmas about the model of ion/decimal.go (Decimal.v):
   exactness of the arithmetic in Q, agreement of Cmp/Equal/Sign with the order
   of Q, Truncate = Z.quot by a power of ten, ParseDecimal o String = id, and
   String always prints an Ion decimal literal. *)
From Coq Require Import List NArith ZArith Bool QArith Qpower Qabs Lia ZifyBool ZifyN ZifyNat.
From Coq Require DecimalN DecimalPos DecimalFacts.
From IonV Require Import Base.Wire Num.Decimal.
Import ListNotations.
Open Scope Z_scope.
Ltac Zify.zify_post_hook ::= Z.div_mod_to_equations.

(* ================================================================================ *)
(* 1. machine integers                                                               *)
(* ================================================================================ *)
Lemma wrap32_id z : min_i32 <= z <= max_i32 -> wrap32 z = z.
Proof. unfold wrap32, min_i32, max_i32, two31, two32. intros. lia. Qed.

Lemma wrap32_range z : min_i32 <= wrap32 z <= max_i32.
Proof. unfold wrap32, min_i32, max_i32, two31, two32. lia. Qed.

Lemma wrap32_neg z : min_i32 < z <= max_i32 -> wrap32 (- z) = - z.
Proof. unfold wrap32, min_i32, max_i32, two31, two32. intros. lia. Qed.

Lemma wrap32_neg_min : wrap32 (- min_i32) = min_i32.
Proof. reflexivity. Qed.

Lemma wrap64_id z : - two63z <= z < two63z -> wrap64 z = z.
Proof. unfold wrap64, two63z, two64z. intros. lia. Qed.

Lemma wrap64_range z : - two63z <= wrap64 z < two63z.
Proof. unfold wrap64, two63z, two64z. lia. Qed.

(* ================================================================================ *)
(* 2. values in Q                                                                    *)
(* ================================================================================ *)
Definition ten : Q := 10 # 1.

Lemma ten_nz : ~ ten == 0.
Proof. unfold ten, Qeq. cbn. lia. Qed.

Lemma ten_pos : (0 < ten)%Q.
Proof. unfold ten, Qlt. cbn. lia. Qed.

Lemma pow10_pos k : (0 < ten ^ k)%Q.
Proof. apply Qpower_0_lt, ten_pos. Qed.

Lemma pow10_nz k : ~ ten ^ k == 0.
Proof. pose proof (pow10_pos k) as H. intros E. rewrite E in H. discriminate. Qed.

Lemma inject_pow10 k : 0 <= k -> inject_Z (10 ^ k) == ten ^ k.
Proof. intros H. rewrite Zpower_Qpower by exact H. reflexivity. Qed.

Lemma dec_val_mk n sc : dec_val (mk n sc) = (inject_Z n * ten ^ (- sc))%Q.
Proof. reflexivity. Qed.

Lemma dec_val_unfold d : dec_val d = (inject_Z (d_n d) * ten ^ (- d_scale d))%Q.
Proof. reflexivity. Qed.

(* multiplying the coefficient by 10^k and adding k to the scale keeps the value *)
Lemma val_rescaled n sc k : 0 <= k ->
  (inject_Z (n * 10 ^ k) * ten ^ (- (sc + k)) == inject_Z n * ten ^ (- sc))%Q.
Proof.
  intros Hk. rewrite inject_Z_mult, inject_pow10 by exact Hk.
  rewrite <- Qmult_assoc. rewrite <- Qpower_plus by exact ten_nz.
  replace (k + - (sc + k)) with (- sc) by lia. reflexivity.
Qed.

Lemma upscale_ok d s : d_scale d <= s ->
  exists d', upscale d s = Ok d' /\ d_scale d' = s /\ d_negzero d' = false /\
             d_n d' = d_n d * 10 ^ (s - d_scale d) /\ dec_val d' == dec_val d.
Proof.
  intros H. unfold upscale. destruct (Z.ltb_spec (s - d_scale d) 0) as [C|C]; [lia|].
  eexists. split; [reflexivity|]. repeat split.
  rewrite dec_val_mk, dec_val_unfold.
  replace s with (d_scale d + (s - d_scale d)) at 2 by lia.
  apply val_rescaled. lia.
Qed.

Lemma upscale_panics d s : s < d_scale d -> upscale d s = Panic.
Proof.
  intros H. unfold upscale. destruct (Z.ltb_spec (s - d_scale d) 0) as [C|C]; [reflexivity|lia].
Qed.

Lemma rescale_ok a b :
  exists dd oo, rescale a b = Ok (dd, oo) /\ d_scale dd = d_scale oo /\
                d_scale dd = Z.max (d_scale a) (d_scale b) /\
                dec_val dd == dec_val a /\ dec_val oo == dec_val b.
Proof.
  unfold rescale.
  destruct (Z.ltb_spec (d_scale a) (d_scale b)) as [C|C].
  - destruct (upscale_ok a (d_scale b)) as (a' & E & Hs & _ & _ & Hv); [lia|].
    rewrite E. cbn [bind]. exists a', b. repeat split; try assumption; try reflexivity. lia.
  - destruct (Z.gtb_spec (d_scale a) (d_scale b)) as [C2|C2].
    + destruct (upscale_ok b (d_scale a)) as (b' & E & Hs & _ & _ & Hv); [lia|].
      rewrite E. cbn [bind]. exists a, b'. repeat split; try assumption; try reflexivity; lia.
    + exists a, b. repeat split; try reflexivity; lia.
Qed.

Lemma add_exact a b : exists r, add a b = Ok r /\ dec_val r == dec_val a + dec_val b /\
  d_scale r = Z.max (d_scale a) (d_scale b) /\ d_negzero r = false.
Proof.
  destruct (rescale_ok a b) as (dd & oo & E & Hs & Hm & Ha & Hb).
  unfold add. rewrite E. cbn [bind]. eexists. split; [reflexivity|]. split; [|split; [exact Hm|reflexivity]].
  rewrite <- Ha, <- Hb. rewrite dec_val_mk, !dec_val_unfold, <- Hs, inject_Z_plus. ring.
Qed.

Lemma sub_exact a b : exists r, sub a b = Ok r /\ dec_val r == dec_val a - dec_val b /\
  d_scale r = Z.max (d_scale a) (d_scale b) /\ d_negzero r = false.
Proof.
  destruct (rescale_ok a b) as (dd & oo & E & Hs & Hm & Ha & Hb).
  unfold sub. rewrite E. cbn [bind]. eexists. split; [reflexivity|]. split; [|split; [exact Hm|reflexivity]].
  rewrite <- Ha, <- Hb. rewrite dec_val_mk, !dec_val_unfold, <- Hs.
  unfold Z.sub. rewrite inject_Z_plus, inject_Z_opp. ring.
Qed.

Lemma neg_exact d : dec_val (neg d) == - dec_val d /\ d_scale (neg d) = d_scale d /\ d_negzero (neg d) = false.
Proof.
  split; [|split; reflexivity]. unfold neg. rewrite dec_val_mk, dec_val_unfold, inject_Z_opp. ring.
Qed.

Lemma Qabs_mult_pos x c : (0 < c)%Q -> Qabs (x * c) == Qabs x * c.
Proof.
  intros H. rewrite Qabs_Qmult. rewrite (Qabs_pos c); [reflexivity|]. apply Qlt_le_weak, H.
Qed.

Lemma inject_Z_abs z : inject_Z (Z.abs z) == Qabs (inject_Z z).
Proof. unfold Qabs, inject_Z. reflexivity. Qed.

Lemma abs_exact d : dec_val (abs d) == Qabs (dec_val d) /\ d_scale (abs d) = d_scale d /\ d_negzero (abs d) = false.
Proof.
  split; [|split; reflexivity]. unfold abs. rewrite dec_val_mk, dec_val_unfold.
  rewrite Qabs_mult_pos by apply pow10_pos. rewrite inject_Z_abs. reflexivity.
Qed.

Lemma mul_exact a b r : mul a b = Ok r ->
  dec_val r == dec_val a * dec_val b /\ d_n r = d_n a * d_n b /\
  d_scale r = d_scale a + d_scale b /\ d_negzero r = false.
Proof.
  unfold mul. destruct (_ || _) eqn:G; [discriminate|]. intros E. injection E as <-.
  assert (W : wrap32 (d_scale a + d_scale b) = d_scale a + d_scale b)
    by (apply wrap32_id; unfold min_i32, max_i32 in *; lia).
  rewrite W. split; [|repeat split].
  rewrite dec_val_mk, !dec_val_unfold, inject_Z_mult.
  replace (- (d_scale a + d_scale b)) with (- d_scale a + - d_scale b) by lia.
  rewrite Qpower_plus by exact ten_nz. ring.
Qed.

Lemma mul_panics_iff a b :
  mul a b = Panic <-> ~ (min_i32 <= d_scale a + d_scale b <= max_i32).
Proof.
  unfold mul. destruct (_ || _) eqn:G; split; intros H; try reflexivity; try discriminate; lia.
Qed.

Lemma mul_panics_iff_ok a b r : mul a b = Ok r -> min_i32 <= d_scale a + d_scale b <= max_i32.
Proof.
  unfold mul. destruct (_ || _) eqn:G; [discriminate|]. intros _. lia.
Qed.

Lemma mul_total a b : mul a b = Panic \/ exists r, mul a b = Ok r.
Proof. unfold mul. destruct (_ || _); [left; reflexivity|right; eexists; reflexivity]. Qed.

(* shifts: the int64 wrap of scale -/+ shift never turns an out-of-range scale into an
   in-range one, because |d.scale| <= 2^31 and the wrapped image of an int64 shift stays
   at least 2^63 - 2^31 away from int32 *)
Lemma shift_guard sc x : min_i32 <= sc <= max_i32 -> - two63z <= x < two63z ->
  let w := wrap64 (sc + x) in
  ((w >? max_i32) || (w <? min_i32) = false) <-> min_i32 <= sc + x <= max_i32.
Proof.
  unfold wrap64, two63z, two64z, min_i32, max_i32. intros H1 H2. cbn zeta. split; intros H; lia.
Qed.

Lemma shiftr_exact d k r : dec_i32 d -> - two63z <= k < two63z -> shiftr d k = Ok r ->
  dec_val r == dec_val d * ten ^ (- k) /\ d_n r = d_n d /\ d_scale r = d_scale d + k /\ d_negzero r = false.
Proof.
  intros Hd Hk. unfold shiftr. destruct (_ || _) eqn:G; [discriminate|]. intros E. injection E as <-.
  apply (shift_guard (d_scale d) k Hd Hk) in G.
  assert (W : wrap32 (wrap64 (d_scale d + k)) = d_scale d + k).
  { rewrite wrap64_id by (unfold min_i32, max_i32, two63z in *; lia). apply wrap32_id, G. }
  rewrite W. split; [|repeat split].
  rewrite dec_val_mk, dec_val_unfold.
  replace (- (d_scale d + k)) with (- d_scale d + - k) by lia.
  rewrite Qpower_plus by exact ten_nz. ring.
Qed.

Lemma shiftr_panics_iff d k : dec_i32 d -> - two63z <= k < two63z ->
  (shiftr d k = Panic <-> ~ (min_i32 <= d_scale d + k <= max_i32)).
Proof.
  intros Hd Hk. pose proof (shift_guard (d_scale d) k Hd Hk) as G. cbn zeta in G.
  unfold shiftr. destruct (_ || _); split; intros H; try reflexivity; try discriminate.
  - intros C. apply G in C. discriminate.
  - exfalso. apply H, G. reflexivity.
Qed.

Lemma shiftl_guard sc x : min_i32 <= sc <= max_i32 -> - two63z <= x < two63z ->
  let w := wrap64 (sc - x) in
  ((w >? max_i32) || (w <? min_i32) = false) <-> min_i32 <= sc - x <= max_i32.
Proof.
  unfold wrap64, two63z, two64z, min_i32, max_i32. intros H1 H2. cbn zeta. split; intros H; lia.
Qed.

Lemma shiftl_exact d k r : dec_i32 d -> - two63z <= k < two63z -> shiftl d k = Ok r ->
  dec_val r == dec_val d * ten ^ k /\ d_n r = d_n d /\ d_scale r = d_scale d - k /\ d_negzero r = false.
Proof.
  intros Hd Hk. unfold shiftl. destruct (_ || _) eqn:G; [discriminate|]. intros E. injection E as <-.
  apply (shiftl_guard (d_scale d) k Hd Hk) in G.
  assert (W : wrap32 (wrap64 (d_scale d - k)) = d_scale d - k).
  { rewrite wrap64_id by (unfold min_i32, max_i32, two63z in *; lia). apply wrap32_id, G. }
  rewrite W. split; [|repeat split].
  rewrite dec_val_mk, dec_val_unfold.
  replace (- (d_scale d - k)) with (- d_scale d + k) by lia.
  rewrite Qpower_plus by exact ten_nz. ring.
Qed.

Lemma shiftl_panics_iff d k : dec_i32 d -> - two63z <= k < two63z ->
  (shiftl d k = Panic <-> ~ (min_i32 <= d_scale d - k <= max_i32)).
Proof.
  intros Hd Hk. pose proof (shiftl_guard (d_scale d) k Hd Hk) as G. cbn zeta in G.
  unfold shiftl. destruct (_ || _); split; intros H; try reflexivity; try discriminate.
  - intros C. apply G in C. discriminate.
  - exfalso. apply H, G. reflexivity.
Qed.

(* ================================================================================ *)
(* 3. Cmp / Equal / Sign                                                             *)
(* ================================================================================ *)
Lemma Qcompare_inject x y : (inject_Z x ?= inject_Z y)%Q = (x ?= y).
Proof. unfold Qcompare, inject_Z. cbn. rewrite !Z.mul_1_r. reflexivity. Qed.

Lemma Qcompare_mult_pos x y c : (0 < c)%Q -> (x * c ?= y * c)%Q = (x ?= y)%Q.
Proof.
  intros Hc. destruct (Qcompare_spec x y) as [E|L|G].
  - apply Qeq_alt. rewrite E. reflexivity.
  - apply Qlt_alt. apply Qmult_lt_compat_r; assumption.
  - apply Qgt_alt. apply Qmult_lt_compat_r; assumption.
Qed.

Definition cmp_code (c : comparison) : Z := match c with Lt => -1 | Eq => 0 | Gt => 1 end.

Lemma cmp_exact a b : cmp a b = Ok (cmp_code (dec_val a ?= dec_val b)%Q).
Proof.
  destruct (rescale_ok a b) as (dd & oo & E & Hs & _ & Ha & Hb).
  unfold cmp. rewrite E. cbn [bind]. f_equal.
  assert (X : (dec_val a ?= dec_val b)%Q = (d_n dd ?= d_n oo)).
  { rewrite <- Ha, <- Hb. rewrite !dec_val_unfold, <- Hs.
    rewrite Qcompare_mult_pos by apply pow10_pos. apply Qcompare_inject. }
  rewrite X. reflexivity.
Qed.

Lemma equal_exact a b : exists e, equal a b = Ok e /\ (e = true <-> dec_val a == dec_val b).
Proof.
  unfold equal. rewrite cmp_exact. cbn [bind]. eexists. split; [reflexivity|].
  rewrite Qeq_alt. destruct (dec_val a ?= dec_val b)%Q; cbn; split; intros H; congruence.
Qed.

Lemma sign_exact d : sign d = cmp_code (dec_val d ?= 0)%Q.
Proof.
  unfold sign. rewrite dec_val_unfold.
  assert (X : (inject_Z (d_n d) * ten ^ (- d_scale d) ?= 0)%Q
              = (inject_Z (d_n d) * ten ^ (- d_scale d) ?= inject_Z 0 * ten ^ (- d_scale d))%Q).
  { apply Qcompare_comp; [reflexivity|ring]. }
  rewrite X. rewrite Qcompare_mult_pos by apply pow10_pos. rewrite Qcompare_inject.
  destruct (d_n d); reflexivity.
Qed.

(* ================================================================================ *)
(* 4. digit strings: big.Int.String / SetString                                      *)
(* ================================================================================ *)
Open Scope N_scope.

(* Horner value of a Coq decimal numeral, same shape as val_digits *)
Fixpoint uval (u : Init.Decimal.uint) (acc : N) : N :=
  match u with
  | Init.Decimal.Nil => acc
  | Init.Decimal.D0 r => uval r (acc * 10 + 0)
  | Init.Decimal.D1 r => uval r (acc * 10 + 1)
  | Init.Decimal.D2 r => uval r (acc * 10 + 2)
  | Init.Decimal.D3 r => uval r (acc * 10 + 3)
  | Init.Decimal.D4 r => uval r (acc * 10 + 4)
  | Init.Decimal.D5 r => uval r (acc * 10 + 5)
  | Init.Decimal.D6 r => uval r (acc * 10 + 6)
  | Init.Decimal.D7 r => uval r (acc * 10 + 7)
  | Init.Decimal.D8 r => uval r (acc * 10 + 8)
  | Init.Decimal.D9 r => uval r (acc * 10 + 9)
  end.

Lemma val_uint_chars u acc : val_digits (uint_chars u) acc = uval u acc.
Proof.
  revert acc. induction u; intros acc; cbn [uint_chars val_digits uval]; try reflexivity; apply IHu.
Qed.

Lemma uval_acc_pos u acc : uval u (Npos acc) = Npos (Pos.of_uint_acc u acc).
Proof.
  revert acc. induction u; intros acc; cbn [uval Pos.of_uint_acc]; try reflexivity;
    rewrite <- IHu; f_equal; lia.
Qed.

Lemma uval_of_uint u : uval u 0 = N.of_uint u.
Proof.
  unfold N.of_uint. induction u; cbn [uval Pos.of_uint]; try reflexivity;
    try (rewrite <- uval_acc_pos; reflexivity).
  exact IHu.
Qed.

Lemma val_dec_of_N n : val_digits (dec_of_N n) 0 = n.
Proof.
  unfold dec_of_N. rewrite val_uint_chars, uval_of_uint. apply DecimalN.Unsigned.of_to.
Qed.

Lemma all_digits_uint_chars u : all_digits (uint_chars u) = true.
Proof. induction u; cbn [uint_chars all_digits]; try reflexivity; rewrite IHu; reflexivity. Qed.

Lemma all_digits_dec_of_N n : all_digits (dec_of_N n) = true.
Proof. apply all_digits_uint_chars. Qed.

(* canonical digit strings: "0", or a non-zero digit followed by digits *)
Definition canon (ds : list N) : Prop :=
  ds = [48] \/ exists c r, ds = c :: r /\ 49 <= c <= 57 /\ all_digits r = true.

Lemma nzhead_not_D0 d l : Init.Decimal.nzhead d <> Init.Decimal.D0 l.
Proof. induction d; cbn; try discriminate. exact IHd. Qed.

Lemma to_uint_unorm n : N.to_uint n = Init.Decimal.unorm (N.to_uint n).
Proof.
  rewrite <- (DecimalN.Unsigned.to_of (N.to_uint n)). rewrite DecimalN.Unsigned.of_to. reflexivity.
Qed.

Lemma canon_dec_of_N n : canon (dec_of_N n).
Proof.
  unfold dec_of_N. pose proof (to_uint_unorm n) as H. unfold Init.Decimal.unorm in H.
  destruct (Init.Decimal.nzhead (N.to_uint n)) eqn:E.
  - left. rewrite H. reflexivity.
  - exfalso. exact (nzhead_not_D0 _ _ E).
  - right. rewrite H. cbn [uint_chars]. eexists _, _. split; [reflexivity|]. split; [lia|apply all_digits_uint_chars].
  - right. rewrite H. cbn [uint_chars]. eexists _, _. split; [reflexivity|]. split; [lia|apply all_digits_uint_chars].
  - right. rewrite H. cbn [uint_chars]. eexists _, _. split; [reflexivity|]. split; [lia|apply all_digits_uint_chars].
  - right. rewrite H. cbn [uint_chars]. eexists _, _. split; [reflexivity|]. split; [lia|apply all_digits_uint_chars].
  - right. rewrite H. cbn [uint_chars]. eexists _, _. split; [reflexivity|]. split; [lia|apply all_digits_uint_chars].
  - right. rewrite H. cbn [uint_chars]. eexists _, _. split; [reflexivity|]. split; [lia|apply all_digits_uint_chars].
  - right. rewrite H. cbn [uint_chars]. eexists _, _. split; [reflexivity|]. split; [lia|apply all_digits_uint_chars].
  - right. rewrite H. cbn [uint_chars]. eexists _, _. split; [reflexivity|]. split; [lia|apply all_digits_uint_chars].
  - right. rewrite H. cbn [uint_chars]. eexists _, _. split; [reflexivity|]. split; [lia|apply all_digits_uint_chars].
Qed.

Lemma canon_all_digits ds : canon ds -> all_digits ds = true.
Proof.
  intros [->|(c & r & -> & Hc & Hr)]; [reflexivity|].
  cbn [all_digits]. rewrite Hr. unfold is_digit. lia.
Qed.

Lemma canon_nonnil ds : canon ds -> ds <> [].
Proof. intros [->|(c & r & -> & _)]; discriminate. Qed.

(* positional facts *)
Lemma val_digits_acc l acc : val_digits l acc = acc * 10 ^ N.of_nat (length l) + val_digits l 0.
Proof.
  revert acc. induction l as [|c l IH]; intros acc; cbn [val_digits length].
  - cbn. lia.
  - rewrite (IH (acc * 10 + (c - 48))), (IH (0 * 10 + (c - 48))).
    rewrite Nat2N.inj_succ, N.pow_succ_r'. lia.
Qed.

Lemma val_digits_app a b : val_digits (a ++ b) 0 = val_digits a 0 * 10 ^ N.of_nat (length b) + val_digits b 0.
Proof.
  revert b. induction a as [|c a IH] using rev_ind; intros b.
  - cbn. lia.
  - rewrite <- app_assoc. cbn [app]. rewrite IH. rewrite (IH [c]).
    cbn [val_digits length]. rewrite (val_digits_acc b (0 * 10 + (c - 48))).
    rewrite Nat2N.inj_succ, N.pow_succ_r'. change (10 ^ N.of_nat 1) with 10.
    generalize (10 ^ N.of_nat (length b)). intros. lia.
Qed.

Lemma Npow10_pos k : 0 < 10 ^ k.
Proof. pose proof (N.pow_nonzero 10 k). lia. Qed.

Lemma val_digits_bound l : all_digits l = true -> val_digits l 0 < 10 ^ N.of_nat (length l).
Proof.
  induction l as [|c l IH]; intros H; cbn [all_digits] in H.
  - cbn. lia.
  - apply andb_true_iff in H as [Hc Hl]. specialize (IH Hl).
    cbn [val_digits length]. rewrite val_digits_acc, Nat2N.inj_succ, N.pow_succ_r'.
    unfold is_digit in Hc. pose proof (Npow10_pos (N.of_nat (length l))). nia.
Qed.

Lemma val_digits_lower c r : 49 <= c <= 57 -> 10 ^ N.of_nat (length r) <= val_digits (c :: r) 0.
Proof.
  intros Hc. cbn [val_digits]. rewrite val_digits_acc.
  pose proof (Npow10_pos (N.of_nat (length r))). nia.
Qed.

Lemma all_digits_app a b : all_digits (a ++ b) = all_digits a && all_digits b.
Proof. induction a as [|c a IH]; cbn [app all_digits]; [reflexivity|]. rewrite IH. apply andb_assoc. Qed.

Lemma all_digits_firstn k l : all_digits l = true -> all_digits (firstn k l) = true.
Proof.
  intros H. rewrite <- (firstn_skipn k l), all_digits_app in H. apply andb_true_iff in H. tauto.
Qed.

Lemma all_digits_skipn k l : all_digits l = true -> all_digits (skipn k l) = true.
Proof.
  intros H. rewrite <- (firstn_skipn k l), all_digits_app in H. apply andb_true_iff in H. tauto.
Qed.

(* the first k digits are the quotient by the power of ten of the dropped length *)
Lemma val_firstn k l : all_digits l = true ->
  val_digits (firstn k l) 0 = val_digits l 0 / 10 ^ N.of_nat (length l - k).
Proof.
  intros H. pose proof (firstn_skipn k l) as E.
  rewrite <- E at 2. rewrite val_digits_app. rewrite skipn_length.
  pose proof (val_digits_bound (skipn k l) (all_digits_skipn k l H)) as B. rewrite skipn_length in B.
  pose proof (Npow10_pos (N.of_nat (length l - k))).
  apply N.div_unique with (r := val_digits (skipn k l) 0); [exact B|lia].
Qed.

(* ---- zstr ------------------------------------------------------------------------ *)
Open Scope Z_scope.

Lemma zstr_nonneg z : 0 <= z -> zstr z = dec_of_N (Z.to_N z).
Proof. intros H. unfold zstr, dec_of_Z. destruct z; try reflexivity. lia. Qed.

Lemma zstr_neg z : z < 0 -> zstr z = 45%N :: dec_of_N (Z.to_N (- z)).
Proof. intros H. unfold zstr, dec_of_Z. destruct z; try lia. reflexivity. Qed.

Lemma scan_digits ds : ds <> [] -> all_digits ds = true ->
  scan_int ds = Some (Z.of_N (val_digits ds 0)).
Proof.
  intros Hn Hd. unfold scan_int. destruct ds as [|c r]; [congruence|].
  assert (Hc : is_digit c = true) by (cbn [all_digits] in Hd; apply andb_true_iff in Hd; tauto).
  unfold is_digit in Hc.
  destruct (N.eqb_spec c 45); [lia|]. destruct (N.eqb_spec c 43); [lia|].
  rewrite Hd. reflexivity.
Qed.

Lemma scan_minus_digits ds : ds <> [] -> all_digits ds = true ->
  scan_int (45%N :: ds) = Some (- Z.of_N (val_digits ds 0)).
Proof.
  intros Hn Hd. unfold scan_int. cbn [N.eqb Pos.eqb]. destruct ds as [|c r]; [congruence|].
  rewrite Hd. reflexivity.
Qed.

Lemma scan_zstr z : scan_int (zstr z) = Some z.
Proof.
  destruct (Z.lt_ge_cases z 0) as [H|H].
  - rewrite zstr_neg by exact H.
    rewrite scan_minus_digits by (auto using canon_nonnil, canon_dec_of_N, all_digits_dec_of_N).
    rewrite val_dec_of_N. f_equal. lia.
  - rewrite zstr_nonneg by exact H.
    rewrite scan_digits by (auto using canon_nonnil, canon_dec_of_N, all_digits_dec_of_N).
    rewrite val_dec_of_N. f_equal. lia.
Qed.

Lemma parse_int32_zstr z : min_i32 <= z <= max_i32 -> parse_int 32 (zstr z) = Some z.
Proof.
  intros H. unfold parse_int. rewrite scan_zstr.
  assert (G : (- 2 ^ (32 - 1) <=? z) && (z <? 2 ^ (32 - 1)) = true)
    by (change (2 ^ (32 - 1)) with 2147483648; unfold min_i32, max_i32 in H; lia).
  rewrite G. reflexivity.
Qed.

Lemma parse_int64_zstr z : - two63z <= z < two63z -> parse_int 64 (zstr z) = Some z.
Proof.
  intros H. unfold parse_int. rewrite scan_zstr.
  assert (G : (- 2 ^ (64 - 1) <=? z) && (z <? 2 ^ (64 - 1)) = true)
    by (change (2 ^ (64 - 1)) with 9223372036854775808; unfold two63z in H; lia).
  rewrite G. reflexivity.
Qed.
Lemma parse_int64_zstr_out z : ~ (- two63z <= z < two63z) -> parse_int 64 (zstr z) = None.
Proof.
  intros H. unfold parse_int. rewrite scan_zstr.
  assert (G : (- 2 ^ (64 - 1) <=? z) && (z <? 2 ^ (64 - 1)) = false)
    by (change (2 ^ (64 - 1)) with 9223372036854775808; unfold two63z in H; lia).
  rewrite G. reflexivity.
Qed.

(* number of decimal digits of |z| *)
Definition ndigits (z : Z) : Z := zlen (dec_of_N (Z.to_N (Z.abs z))).

Lemma ndigits_pos z : 1 <= ndigits z.
Proof.
  unfold ndigits, zlen. pose proof (canon_nonnil _ (canon_dec_of_N (Z.to_N (Z.abs z)))).
  destruct (dec_of_N (Z.to_N (Z.abs z))); [congruence|]. cbn [length]. lia.
Qed.

Lemma ndigits_spec z : z <> 0 -> 10 ^ (ndigits z - 1) <= Z.abs z < 10 ^ ndigits z.
Proof.
  intros Hz. unfold ndigits, zlen. set (m := Z.to_N (Z.abs z)).
  pose proof (val_dec_of_N m) as V. pose proof (all_digits_dec_of_N m) as A.
  pose proof (val_digits_bound _ A) as B. rewrite V in B.
  assert (Hm : Z.abs z = Z.of_N m) by (unfold m; lia).
  destruct (canon_dec_of_N m) as [E|(c & r & E & Hc & Hr)].
  - rewrite E in V. cbn in V. lia.
  - rewrite E in *. pose proof (val_digits_lower c r Hc) as Lw. rewrite V in Lw.
    cbn [length] in *. rewrite Hm.
    replace (Z.of_nat (S (length r)) - 1) with (Z.of_N (N.of_nat (length r))) by lia.
    replace (Z.of_nat (S (length r))) with (Z.of_N (N.of_nat (S (length r)))) by lia.
    change 10 with (Z.of_N 10%N). rewrite <- !N2Z.inj_pow. lia.
Qed.

Lemma ndigits_zero : ndigits 0 = 1.
Proof. reflexivity. Qed.

(* ================================================================================ *)
(* 5. String() and ParseDecimal                                                      *)
(* ================================================================================ *)
Definition mant_str (d : dec) : list N := if d_negzero d then neg_zero_str else zstr (d_n d).

(* String() as a function of the coefficient text and the scale *)
Definition format_with (str : list N) (sc : Z) : list N :=
  if sc =? 0 then str ++ [c_dot]
  else if sc <? 0 then str ++ c_d :: zstr (wrap32 (- sc))
  else
    let idx := zlen str - sc in
    let prefix := if starts_minus str then 2 else 1 in
    if idx >=? prefix then
      firstn (Z.to_nat idx) str ++ c_dot :: skipn (Z.to_nat idx) str
    else
      firstn (Z.to_nat prefix) str
      ++ (if zlen str >? prefix then c_dot :: skipn (Z.to_nat prefix) str else [])
      ++ c_d :: zstr (idx - prefix).

Lemma dec_format_with d : dec_format d = format_with (mant_str d) (d_scale d).
Proof. reflexivity. Qed.

(* ParseDecimal in two stages *)
Definition stage1 (inp : list N) : res (Z * list N) :=
  match split_first is_dD inp with
  | Some (m, e) =>
    match e with
    | [] => Err
    | _ => match parse_int 64 e with
           | Some tmp => Ok (tmp, m)
           | None => Err
           end
    end
  | None => Ok (0, inp)
  end.
Definition parse_mant (exponent : Z) (inp1 : list N) : res dec :=
  let '(exponent2, inp2) :=
    match split_first is_dot inp1 with
    | Some (ipart, fpart) => (wrap64 (exponent - wrap64 (zlen fpart)), ipart ++ fpart)
    | None => (exponent, inp1)
    end in
  if (exponent2 <? min_i32) || (exponent2 >? max_i32) then Err else
  match set_string inp2 with
  | None => Err
  | Some n => Ok (new_decimal n (wrap32 exponent2) ((n =? 0) && starts_minus inp2))
  end.

Lemma dec_parse_unfold inp : inp <> [] ->
  dec_parse inp = (do '(e, i) <- stage1 inp; parse_mant e i).
Proof. destruct inp; [congruence|reflexivity]. Qed.

(* ---- splitting ---------------------------------------------------------------------- *)
Lemma split_first_hit p a c b : Forall (fun x => p x = false) a -> p c = true ->
  split_first p (a ++ c :: b) = Some (a, b).
Proof.
  intros Ha Hc. induction Ha as [|x a Hx Ha IH]; cbn [app split_first].
  - rewrite Hc. reflexivity.
  - rewrite Hx, IH. reflexivity.
Qed.

Lemma split_first_miss p l : Forall (fun x => p x = false) l -> split_first p l = None.
Proof.
  intros H. induction H as [|x l Hx Hl IH]; cbn [split_first]; [reflexivity|]. rewrite Hx, IH. reflexivity.
Qed.

(* characters of a coefficient text: digits and '-' *)
Definition plain (l : list N) : Prop := Forall (fun c => is_digit c = true \/ c = 45%N) l.

Lemma plain_no_dD l : plain l -> Forall (fun x => is_dD x = false) l.
Proof.
  apply Forall_impl. intros c [H| ->]; [|reflexivity]. unfold is_digit in H. unfold is_dD. lia.
Qed.

Lemma plain_no_dot l : plain l -> Forall (fun x => is_dot x = false) l.
Proof.
  apply Forall_impl. intros c [H| ->]; [|reflexivity]. unfold is_digit in H. unfold is_dot. lia.
Qed.

Lemma plain_app a b : plain a -> plain b -> plain (a ++ b).
Proof. intros. apply Forall_app. split; assumption. Qed.

Lemma plain_firstn k l : plain l -> plain (firstn k l).
Proof. intros H. unfold plain in *. rewrite <- (firstn_skipn k l) in H. apply Forall_app in H. tauto. Qed.

Lemma plain_skipn k l : plain l -> plain (skipn k l).
Proof. intros H. unfold plain in *. rewrite <- (firstn_skipn k l) in H. apply Forall_app in H. tauto. Qed.

Lemma plain_digits l : all_digits l = true -> plain l.
Proof.
  induction l as [|c l IH]; intros H; [constructor|]. cbn [all_digits] in H. apply andb_true_iff in H as [Hc Hl].
  constructor; [left; exact Hc|apply IH, Hl].
Qed.

Lemma no_dD_dot_plain a b : plain a -> plain b -> Forall (fun x => is_dD x = false) (a ++ c_dot :: b).
Proof.
  intros Ha Hb. apply Forall_app. split; [apply plain_no_dD, Ha|].
  constructor; [reflexivity|apply plain_no_dD, Hb].
Qed.

(* a coefficient text: optional '-', then a digit, then digits *)
Record coef_text (str sgn : list N) (c : N) (r : list N) : Prop := {
  ct_eq : str = sgn ++ c :: r;
  ct_sgn : sgn = [] \/ sgn = [45%N];
  ct_c : is_digit c = true;
  ct_r : all_digits r = true
}.

Lemma coef_plain str sgn c r : coef_text str sgn c r -> plain str.
Proof.
  intros [E S C R]. subst str. apply plain_app.
  - destruct S as [-> | ->]; [constructor|]. constructor; [right; reflexivity|constructor].
  - constructor; [left; exact C|apply plain_digits, R].
Qed.

Lemma coef_starts str sgn c r : coef_text str sgn c r ->
  starts_minus str = match sgn with [] => false | _ => true end.
Proof.
  intros [E S C R]. subst str. destruct S as [-> | ->]; cbn [app starts_minus]; [|reflexivity].
  unfold is_digit in C. lia.
Qed.

Lemma coef_len str sgn c r : coef_text str sgn c r -> zlen str = zlen sgn + 1 + zlen r.
Proof.
  intros [E S C R]. subst str. unfold zlen. rewrite app_length. cbn [length]. lia.
Qed.

Lemma zstr_shape z : exists sgn c r, coef_text (zstr z) sgn c r /\ (c = 48%N -> r = []) /\
  (sgn = [] <-> 0 <= z).
Proof.
  destruct (Z.lt_ge_cases z 0) as [H|H].
  - rewrite zstr_neg by exact H. exists [45%N].
    destruct (canon_dec_of_N (Z.to_N (- z))) as [E|(c & r & E & Hc & Hr)]; rewrite E.
    + exists 48%N, []. split; [constructor; auto|]. split; [auto|]. split; [discriminate|lia].
    + exists c, r. split; [constructor; auto; unfold is_digit; lia|]. split; [lia|]. split; [discriminate|lia].
  - rewrite zstr_nonneg by exact H. exists [].
    destruct (canon_dec_of_N (Z.to_N z)) as [E|(c & r & E & Hc & Hr)]; rewrite E.
    + exists 48%N, []. split; [constructor; auto|]. split; [auto|]. split; [intros _; exact H|reflexivity].
    + exists c, r. split; [constructor; auto; unfold is_digit; lia|]. split; [lia|]. tauto.
Qed.

Lemma mant_shape d : exists sgn c r, coef_text (mant_str d) sgn c r /\ (c = 48%N -> r = []).
Proof.
  unfold mant_str. destruct (d_negzero d).
  - exists [45%N], 48%N, []. split; [constructor; auto|auto].
  - destruct (zstr_shape (d_n d)) as (sgn & c & r & H & Hc & _). exists sgn, c, r. auto.
Qed.

Lemma zstr_nonnil z : zstr z <> [].
Proof.
  destruct (zstr_shape z) as (sgn & c & r & [E _ _ _] & _). rewrite E. destruct sgn; discriminate.
Qed.

Lemma zstr_plain z : plain (zstr z).
Proof. destruct (zstr_shape z) as (sgn & c & r & H & _). eapply coef_plain, H. Qed.

Lemma mant_scan d : (d_negzero d = true -> d_n d = 0) -> set_string (mant_str d) = Some (d_n d).
Proof.
  intros W. unfold mant_str, set_string. destruct (d_negzero d).
  - rewrite W by reflexivity. reflexivity.
  - apply scan_zstr.
Qed.

Lemma mant_negzero d : (d_negzero d = true -> d_n d = 0) ->
  (d_n d =? 0) && starts_minus (mant_str d) = d_negzero d.
Proof.
  intros W. unfold mant_str. destruct (d_negzero d).
  - rewrite W by reflexivity. reflexivity.
  - destruct (zstr_shape (d_n d)) as (sgn & c & r & H & _ & Hs). rewrite (coef_starts _ _ _ _ H).
    destruct sgn; [apply andb_false_r|]. assert (~ 0 <= d_n d) by (intros X; apply Hs in X; discriminate).
    destruct (Z.eqb_spec (d_n d) 0); [lia|reflexivity].
Qed.

(* ---- the two stages on what String() prints ---------------------------------------------- *)
Lemma stage1_noexp inp : Forall (fun x => is_dD x = false) inp -> stage1 inp = Ok (0, inp).
Proof. intros H. unfold stage1. rewrite split_first_miss by exact H. reflexivity. Qed.

Lemma stage1_exp64 a e : Forall (fun x => is_dD x = false) a -> - two63z <= e < two63z ->
  stage1 (a ++ c_d :: zstr e) = Ok (e, a).
Proof.
  intros Ha He. unfold stage1. rewrite split_first_hit by (auto; reflexivity).
  pose proof (zstr_nonnil e) as Hn. destruct (zstr e) eqn:Z; [congruence|]. rewrite <- Z.
  rewrite parse_int64_zstr by exact He. reflexivity.
Qed.
Lemma stage1_exp a e : Forall (fun x => is_dD x = false) a -> min_i32 <= e <= max_i32 ->
  stage1 (a ++ c_d :: zstr e) = Ok (e, a).
Proof. intros Ha He. apply stage1_exp64; [exact Ha|unfold min_i32, max_i32, two63z in *; lia]. Qed.
(* a written exponent that does not fit int64 is an error *)
Lemma stage1_exp_over a e : Forall (fun x => is_dD x = false) a -> ~ (- two63z <= e < two63z) ->
  stage1 (a ++ c_d :: zstr e) = Err.
Proof.
  intros Ha He. unfold stage1. rewrite split_first_hit by (auto; reflexivity).
  pose proof (zstr_nonnil e) as Hn. destruct (zstr e) eqn:Z; [congruence|]. rewrite <- Z.
  rewrite parse_int64_zstr_out by exact He. reflexivity.
Qed.

Definition parsed (str : list N) (e : Z) : res dec :=
  match set_string str with
  | None => Err
  | Some n => Ok (new_decimal n (wrap32 e) ((n =? 0) && starts_minus str))
  end.

(* no fraction part: the written exponent is the exponent of the value and is range-checked *)
Lemma parse_mant_nodot_gen e str : plain str ->
  parse_mant e str = if in_i32 e then parsed str e else Err.
Proof.
  intros H. unfold parse_mant. rewrite split_first_miss by (apply plain_no_dot, H).
  unfold in_i32. destruct (Z.ltb_spec e min_i32), (Z.gtb_spec e max_i32), (Z.leb_spec min_i32 e), (Z.leb_spec e max_i32);
    try lia; reflexivity.
Qed.
Lemma parse_mant_nodot e str : plain str -> min_i32 <= e <= max_i32 -> parse_mant e str = parsed str e.
Proof.
  intros H He. rewrite parse_mant_nodot_gen by exact H.
  replace (in_i32 e) with true by (unfold in_i32; lia). reflexivity.
Qed.

(* the fraction digits lower the written exponent in int64; the result is range-checked (the exponent of
   the value, not the written one); outside int32 is an error, never a wrap *)
Lemma parse_mant_dot e ip fp : plain ip -> - two63z <= e < two63z -> zlen fp < two63z - two31 ->
  parse_mant e (ip ++ c_dot :: fp) =
  if in_i32 (e - zlen fp) then parsed (ip ++ fp) (e - zlen fp) else Err.
Proof.
  intros H He Hl. unfold parse_mant. rewrite split_first_hit by (try apply plain_no_dot, H; reflexivity).
  assert (L0 : 0 <= zlen fp) by (unfold zlen; lia).
  rewrite (wrap64_id (zlen fp)) by (unfold two63z, two31 in *; lia).
  unfold in_i32.
  destruct (Z.leb_spec min_i32 (e - zlen fp)) as [A|A]; [destruct (Z.leb_spec (e - zlen fp) max_i32) as [B|B]|];
    cbn [andb].
  - rewrite wrap64_id by (unfold min_i32, max_i32, two63z, two31 in *; lia).
    destruct (Z.ltb_spec (e - zlen fp) min_i32), (Z.gtb_spec (e - zlen fp) max_i32); try lia. reflexivity.
  - rewrite wrap64_id by (unfold min_i32, max_i32, two63z, two31 in *; lia).
    destruct (Z.gtb_spec (e - zlen fp) max_i32); [|lia]. now rewrite orb_true_r.
  - set (w := wrap64 (e - zlen fp)).
    assert (W : w < min_i32 \/ w > max_i32).
    { unfold w, wrap64, min_i32, max_i32, two63z, two64z, two31 in *. lia. }
    destruct (Z.ltb_spec w min_i32), (Z.gtb_spec w max_i32); try lia; reflexivity.
Qed.

Lemma parse_mant_dot_ok e ip fp : plain ip -> - two63z <= e < two63z -> zlen fp <= two32 ->
  min_i32 <= e - zlen fp <= max_i32 ->
  parse_mant e (ip ++ c_dot :: fp) = parsed (ip ++ fp) (e - zlen fp).
Proof.
  intros H He Hl Hm. rewrite parse_mant_dot by (try assumption; unfold two63z, two31, two32 in *; lia).
  replace (in_i32 (e - zlen fp)) with true by (unfold in_i32; lia). reflexivity.
Qed.

Lemma new_decimal_scale n e nz sc : min_i32 <= sc <= max_i32 -> wrap32 e = wrap32 (- sc) ->
  new_decimal n (wrap32 e) nz = {| d_n := n; d_scale := sc; d_negzero := nz && (n =? 0) |}.
Proof.
  intros H E. unfold new_decimal. rewrite E. f_equal. unfold wrap32, min_i32, max_i32, two31, two32 in *. lia.
Qed.

Lemma app_cons_nonnil {A} (a : list A) c b : a ++ c :: b <> [].
Proof. destruct a; discriminate. Qed.

(* ParseDecimal(String()) for a coefficient text str and an int32 scale *)
Lemma parse_format_with str sgn c r sc : coef_text str sgn c r -> min_i32 <= sc <= max_i32 ->
  dec_parse (format_with str sc) =
  match set_string str with
  | None => Err
  | Some n => Ok {| d_n := n; d_scale := sc; d_negzero := (n =? 0) && starts_minus str |}
  end.
Proof.
  intros CT Hsc. pose proof (coef_plain _ _ _ _ CT) as P.
  assert (FIN : forall e, wrap32 e = wrap32 (- sc) -> parsed str e =
    match set_string str with
    | None => Err
    | Some n => Ok {| d_n := n; d_scale := sc; d_negzero := (n =? 0) && starts_minus str |}
    end).
  { intros e He. unfold parsed. destruct (set_string str) as [n|]; [|reflexivity].
    rewrite (new_decimal_scale _ _ _ sc Hsc He). do 2 f_equal.
    destruct (n =? 0), (starts_minus str); reflexivity. }
  assert (I0 : min_i32 <= 0 <= max_i32) by (unfold min_i32, max_i32; lia).
  unfold format_with.
  destruct (Z.eqb_spec sc 0) as [Z0|NZ].
  { (* "nnn." *)
    rewrite dec_parse_unfold by apply app_cons_nonnil.
    rewrite stage1_noexp by (apply no_dD_dot_plain; [exact P|constructor]). cbn [bind].
    rewrite parse_mant_dot_ok by (try assumption; unfold zlen, two32, two63z, min_i32, max_i32; cbn [length]; lia).
    rewrite app_nil_r. apply FIN. subst sc. reflexivity. }
  destruct (Z.ltb_spec sc 0) as [NEG|POS].
  { (* "nnn d ss" *)
    rewrite dec_parse_unfold by apply app_cons_nonnil.
    rewrite stage1_exp by (try apply plain_no_dD, P; apply wrap32_range). cbn [bind].
    rewrite parse_mant_nodot by (try exact P; apply wrap32_range). apply FIN.
    unfold wrap32, min_i32, max_i32, two31, two32 in *. lia. }
  pose proof (coef_len _ _ _ _ CT) as LEN. pose proof (coef_starts _ _ _ _ CT) as ST.
  assert (PFX : (if starts_minus str then 2 else 1) = zlen sgn + 1).
  { rewrite ST. destruct CT as [_ [-> | ->] _ _]; reflexivity. }
  rewrite PFX. cbv zeta.
  destruct (Z.geb_spec (zlen str - sc) (zlen sgn + 1)) as [GE|LT].
  { (* "nn.nn" *)
    rewrite dec_parse_unfold by apply app_cons_nonnil.
    rewrite stage1_noexp by (apply no_dD_dot_plain; [apply plain_firstn|apply plain_skipn]; exact P).
    cbn [bind].
    assert (SK : zlen (skipn (Z.to_nat (zlen str - sc)) str) = sc).
    { unfold zlen in *. rewrite skipn_length. lia. }
    rewrite parse_mant_dot_ok by (try assumption; try apply plain_firstn, P;
                                  try rewrite SK; unfold min_i32, max_i32, two32, two63z in *; lia).
    rewrite firstn_skipn. apply FIN. rewrite SK. reflexivity. }
  (* "n.nnn d -ss" *)
  assert (E1 : firstn (Z.to_nat (zlen sgn + 1)) str = sgn ++ [c]).
  { destruct CT as [-> [-> | ->] _ _]; reflexivity. }
  assert (E2 : skipn (Z.to_nat (zlen sgn + 1)) str = r).
  { destruct CT as [-> [-> | ->] _ _]; reflexivity. }
  assert (P1 : plain (sgn ++ [c])) by (rewrite <- E1; apply plain_firstn, P).
  assert (Pr : plain r) by (rewrite <- E2; apply plain_skipn, P).
  assert (STR : str = (sgn ++ [c]) ++ r) by (rewrite <- app_assoc; apply CT).
  rewrite E1, E2.
  assert (RNG : min_i32 <= zlen str - sc - (zlen sgn + 1) <= max_i32).
  { unfold min_i32, max_i32, zlen in *. lia. }
  destruct (Z.gtb_spec (zlen str) (zlen sgn + 1)) as [LONG|SHORT].
  - rewrite app_assoc. rewrite dec_parse_unfold by apply app_cons_nonnil.
    rewrite stage1_exp by (try exact RNG; apply no_dD_dot_plain; assumption). cbn [bind].
    rewrite parse_mant_dot_ok by (try assumption; unfold min_i32, max_i32, two32, two63z, zlen in *; lia).
    rewrite <- STR. apply FIN. f_equal. unfold zlen in *. lia.
  - cbn [app]. rewrite dec_parse_unfold by apply app_cons_nonnil.
    rewrite stage1_exp by (try exact RNG; apply plain_no_dD, P1). cbn [bind].
    assert (r = []) by (unfold zlen in *; destruct r; [reflexivity|cbn [length] in *; lia]).
    rewrite H, app_nil_r in STR. rewrite <- STR.
    rewrite parse_mant_nodot by (try exact P; exact RNG). apply FIN. f_equal.
    rewrite H in LEN. unfold zlen in *. cbn [length] in *. lia.
Qed.

Lemma text_roundtrip d : dec_wf d -> dec_parse (dec_format d) = Ok d.
Proof.
  intros [Hs Hz]. destruct (mant_shape d) as (sgn & c & r & CT & _).
  rewrite dec_format_with, (parse_format_with _ _ _ _ _ CT Hs).
  rewrite (mant_scan d Hz), (mant_negzero d Hz). destruct d; reflexivity.
Qed.

(* without the well-formedness of the flag: the scale always survives, the coefficient
   and the flag are those of the printed text ("-0" when the flag is set) *)
Lemma text_roundtrip_flagged d : dec_i32 d -> d_negzero d = true ->
  dec_parse (dec_format d) = Ok {| d_n := 0; d_scale := d_scale d; d_negzero := true |}.
Proof.
  intros Hs Hz. destruct (mant_shape d) as (sgn & c & r & CT & _).
  rewrite dec_format_with, (parse_format_with _ _ _ _ _ CT Hs).
  unfold mant_str. rewrite Hz. reflexivity.
Qed.

(* ---- the negative-zero flag is only ever set on a zero coefficient ------------------------- *)
Lemma new_decimal_wf n e nz : dec_wf (new_decimal n e nz).
Proof.
  unfold dec_wf, dec_i32, new_decimal. cbn [d_n d_scale d_negzero]. split; [apply wrap32_range|].
  intros H. apply andb_true_iff in H as [_ H]. lia.
Qed.

Lemma mk_wf n sc : min_i32 <= sc <= max_i32 -> dec_wf (mk n sc).
Proof. intros H. split; [exact H|discriminate]. Qed.

(* ParseDecimal(NewDecimal(n, e, nz).String()) = NewDecimal(n, e, nz), for every int32 e *)
Lemma text_roundtrip_new n e nz : dec_parse (dec_format (new_decimal n e nz)) = Ok (new_decimal n e nz).
Proof. apply text_roundtrip, new_decimal_wf. Qed.

Lemma dec_parse_wf inp d : dec_parse inp = Ok d -> dec_wf d.
Proof.
  destruct inp as [|c0 inp0]; [discriminate|]. rewrite dec_parse_unfold by discriminate.
  unfold stage1, parse_mant.
  repeat (match goal with
          | |- context [match ?x with _ => _ end] => destruct x
          end; cbn [bind]; try discriminate);
    intros E; injection E as <-; apply new_decimal_wf.
Qed.

(* text with a fraction and an exponent: the exponent of the result is exactly e - len(fraction)
   when that fits int32 -- whatever the written exponent e, as long as ParseInt can read it
   (int64) --, and the text is rejected otherwise; no int32 wrap *)
Lemma parse_exponent_exact ip fp e : plain ip -> Forall (fun x => is_dD x = false) fp ->
  - two63z <= e < two63z -> zlen fp < two63z - two31 ->
  dec_parse (ip ++ c_dot :: fp ++ c_d :: zstr e) =
  if in_i32 (e - zlen fp) then parsed (ip ++ fp) (e - zlen fp) else Err.
Proof.
  intros Pi Pf He Hl.
  replace (ip ++ c_dot :: fp ++ c_d :: zstr e) with ((ip ++ c_dot :: fp) ++ c_d :: zstr e)
    by (rewrite <- app_assoc; reflexivity).
  rewrite dec_parse_unfold by apply app_cons_nonnil.
  rewrite stage1_exp64; [|apply Forall_app; split; [apply plain_no_dD, Pi|constructor; [reflexivity|exact Pf]]|exact He].
  cbn [bind]. apply parse_mant_dot; assumption.
Qed.
(* the same without a fraction part: the range check is made in this path too *)
Lemma parse_exponent_exact_nofrac ip e : plain ip -> - two63z <= e < two63z ->
  dec_parse (ip ++ c_d :: zstr e) = if in_i32 e then parsed ip e else Err.
Proof.
  intros Pi He. rewrite dec_parse_unfold by apply app_cons_nonnil.
  rewrite stage1_exp64 by (try apply plain_no_dD, Pi; exact He). cbn [bind].
  apply parse_mant_nodot_gen, Pi.
Qed.
(* a written exponent that does not fit int64 is an error, with or without a fraction *)
Lemma parse_exponent_over64 m e : Forall (fun x => is_dD x = false) m ->
  ~ (- two63z <= e < two63z) -> dec_parse (m ++ c_d :: zstr e) = Err.
Proof.
  intros Hm He. rewrite dec_parse_unfold by apply app_cons_nonnil.
  rewrite stage1_exp_over by assumption. reflexivity.
Qed.

Lemma parsed_exponent str e d : parsed str e = Ok d -> min_i32 < e <= max_i32 -> coex_exp d = e.
Proof.
  unfold parsed. destruct (set_string str); [|discriminate]. intros E H. injection E as <-.
  unfold coex_exp, new_decimal. cbn [d_scale]. unfold wrap32, min_i32, max_i32, two31, two32 in *. lia.
Qed.

(* ================================================================================ *)
(* 6. Truncate                                                                       *)
(* ================================================================================ *)
Lemma truncate_nonpos d p : p <= 0 -> truncate d p = Panic.
Proof. intros H. unfold truncate. destruct (Z.leb_spec p 0); [reflexivity|lia]. Qed.

Lemma val_firstn_Z m p : 0 < p < zlen (dec_of_N m) ->
  Z.of_N (val_digits (firstn (Z.to_nat p) (dec_of_N m)) 0) = Z.of_N m / 10 ^ (zlen (dec_of_N m) - p).
Proof.
  intros Hp. rewrite val_firstn by apply all_digits_dec_of_N. rewrite val_dec_of_N.
  rewrite N2Z.inj_div, N2Z.inj_pow. f_equal. f_equal. unfold zlen in *. lia.
Qed.

Lemma firstn_nonnil {A} k (l : list A) : (0 < k)%nat -> l <> [] -> firstn k l <> [].
Proof. destruct k; [lia|]. destruct l; [congruence|]. discriminate. Qed.

Lemma dec_of_N_nominus m : starts_minus (dec_of_N m) = false.
Proof.
  destruct (canon_dec_of_N m) as [E|(c & r & E & Hc & _)]; rewrite E; [reflexivity|].
  cbn [starts_minus]. lia.
Qed.

Lemma truncate_spec d p : 0 < p < two63z -> ndigits (d_n d) < two63z - 1 ->
  truncate d p =
    let L := ndigits (d_n d) in
    if L <=? p then Ok d
    else if d_scale d - (L - p) <? min_i32 then Panic
    else Ok (mk (Z.quot (d_n d) (10 ^ (L - p))) (wrap32 (d_scale d - (L - p)))).
Proof.
  intros Hp HL. pose proof (ndigits_pos (d_n d)) as L1. cbv zeta.
  unfold truncate. destruct (Z.leb_spec p 0) as [C|_]; [lia|].
  destruct (Z.lt_ge_cases (d_n d) 0) as [NEG|POS].
  - (* "-ddd" *)
    rewrite zstr_neg by exact NEG. cbn [starts_minus N.eqb Pos.eqb].
    assert (EL : ndigits (d_n d) = zlen (dec_of_N (Z.to_N (- d_n d)))).
    { unfold ndigits. do 3 f_equal. lia. }
    set (ds := dec_of_N (Z.to_N (- d_n d))) in *.
    assert (ZL : zlen (45%N :: ds) = 1 + zlen ds) by (unfold zlen; cbn [length]; lia).
    rewrite ZL, <- EL.
    destruct (Z.eq_dec p (two63z - 1)) as [PM|PM].
    + (* precision++ wraps to MinInt64; the length test still says "nothing to cut" *)
      assert (W : wrap64 (1 + ndigits (d_n d) - wrap64 (p + 1)) <= 0).
      { unfold wrap64, two63z, two64z in *. lia. }
      destruct (Z.leb_spec (wrap64 (1 + ndigits (d_n d) - wrap64 (p + 1))) 0); [|lia].
      destruct (Z.leb_spec (ndigits (d_n d)) p); [reflexivity|lia].
    + rewrite (wrap64_id (p + 1)) by (unfold two63z in *; lia).
      replace (1 + ndigits (d_n d) - (p + 1)) with (ndigits (d_n d) - p) by lia.
      rewrite wrap64_id by (unfold two63z in *; lia).
      destruct (Z.leb_spec (ndigits (d_n d)) p) as [SM|BG].
      * destruct (Z.leb_spec (ndigits (d_n d) - p) 0); [reflexivity|lia].
      * destruct (Z.leb_spec (ndigits (d_n d) - p) 0); [lia|].
        replace (Z.to_nat (p + 1)) with (S (Z.to_nat p)) by lia. cbn [firstn].
        unfold set_string. rewrite scan_minus_digits.
        2:{ apply firstn_nonnil; [lia|]. apply canon_nonnil, canon_dec_of_N. }
        2:{ apply all_digits_firstn, all_digits_dec_of_N. }
        unfold ds. rewrite val_firstn_Z by (fold ds; lia). fold ds. rewrite <- EL.
        assert (Q : - (Z.of_N (Z.to_N (- d_n d)) / 10 ^ (ndigits (d_n d) - p)) = Z.quot (d_n d) (10 ^ (ndigits (d_n d) - p))).
        { rewrite Z2N.id by lia. rewrite <- Z.quot_div_nonneg by (try apply Z.pow_pos_nonneg; lia).
          rewrite <- Z.quot_opp_l by (apply Z.pow_nonzero; lia). f_equal. lia. }
        rewrite Q. reflexivity.
  - (* "ddd" *)
    rewrite zstr_nonneg by exact POS. rewrite dec_of_N_nominus.
    assert (EL : ndigits (d_n d) = zlen (dec_of_N (Z.to_N (d_n d)))).
    { unfold ndigits. do 3 f_equal. lia. }
    set (ds := dec_of_N (Z.to_N (d_n d))) in *. rewrite <- EL.
    rewrite wrap64_id by (unfold two63z in *; lia).
    destruct (Z.leb_spec (ndigits (d_n d)) p) as [SM|BG].
    + destruct (Z.leb_spec (ndigits (d_n d) - p) 0); [reflexivity|lia].
    + destruct (Z.leb_spec (ndigits (d_n d) - p) 0); [lia|].
      unfold set_string. rewrite scan_digits.
      2:{ apply firstn_nonnil; [lia|]. apply canon_nonnil, canon_dec_of_N. }
      2:{ apply all_digits_firstn, all_digits_dec_of_N. }
      unfold ds. rewrite val_firstn_Z by (fold ds; lia). fold ds. rewrite <- EL.
      rewrite Z2N.id by lia. rewrite <- Z.quot_div_nonneg by (try apply Z.pow_pos_nonneg; lia).
      reflexivity.
Qed.

(* Z.quot by 10^k is the cut toward zero *)
Lemma quot_is_cut n k : 0 <= k ->
  let q := Z.quot n (10 ^ k) in
  Z.abs (n - q * 10 ^ k) < 10 ^ k /\ 0 <= (n - q * 10 ^ k) * n /\ Z.abs (q * 10 ^ k) <= Z.abs n.
Proof.
  intros Hk. cbv zeta. assert (P : 0 < 10 ^ k) by (apply Z.pow_pos_nonneg; lia).
  pose proof (Z.quot_rem' n (10 ^ k)) as E.
  pose proof (Z.rem_bound_abs n (10 ^ k) ltac:(lia)) as B.
  pose proof (Z.rem_sign_mul n (10 ^ k) ltac:(lia)) as S.
  assert (R : n - Z.quot n (10 ^ k) * 10 ^ k = Z.rem n (10 ^ k)) by lia.
  rewrite R. split; [lia|]. split; [exact S|].
  pose proof (Z.quot_abs n (10 ^ k) ltac:(lia)) as QA.
  rewrite Z.abs_mul, <- QA. rewrite (Z.abs_eq (10 ^ k)) by lia.
  pose proof (Z.mul_quot_le (Z.abs n) (10 ^ k) ltac:(lia) ltac:(lia)). lia.
Qed.

(* the kept coefficient has exactly p significant digits *)
Lemma quot_digits n p : n <> 0 -> 0 < p < ndigits n ->
  10 ^ (p - 1) <= Z.abs (Z.quot n (10 ^ (ndigits n - p))) < 10 ^ p.
Proof.
  intros Hn Hp. pose proof (ndigits_spec n Hn) as [Lo Hi].
  set (k := ndigits n - p) in *. assert (P : 0 < 10 ^ k) by (apply Z.pow_pos_nonneg; lia).
  rewrite <- Z.quot_abs by lia. rewrite Z.quot_div_nonneg by lia.
  replace (ndigits n) with (p + k) in Hi by lia. replace (ndigits n - 1) with ((p - 1) + k) in Lo by lia.
  rewrite Z.pow_add_r in Hi, Lo by lia. split.
  - apply Z.div_le_lower_bound; lia.
  - apply Z.div_lt_upper_bound; lia.
Qed.

Lemma truncate_value d p r : 0 < p < two63z -> ndigits (d_n d) < two63z - 1 -> dec_i32 d ->
  ndigits (d_n d) > p -> truncate d p = Ok r ->
  let k := ndigits (d_n d) - p in
  dec_val r == inject_Z (Z.quot (d_n d) (10 ^ k)) * ten ^ (k - d_scale d) /\ d_negzero r = false.
Proof.
  intros Hp HL Hd Hb. rewrite truncate_spec by assumption. cbv zeta.
  destruct (Z.leb_spec (ndigits (d_n d)) p); [lia|].
  destruct (Z.ltb_spec (d_scale d - (ndigits (d_n d) - p)) min_i32); [discriminate|].
  intros E. injection E as <-. split; [|reflexivity].
  rewrite wrap32_id by (unfold dec_i32 in Hd; lia). rewrite dec_val_mk.
  replace (- (d_scale d - (ndigits (d_n d) - p))) with (ndigits (d_n d) - p - d_scale d) by lia. reflexivity.
Qed.

(* ---- every operation keeps the invariant [dec_wf] (int32 scale, flag only on zero) ---------- *)
Lemma add_wf a b r : dec_i32 a -> dec_i32 b -> add a b = Ok r -> dec_wf r.
Proof.
  intros Ha Hb E. destruct (add_exact a b) as (r' & E' & _ & Hs & Hz). rewrite E in E'. injection E' as ->.
  unfold dec_wf, dec_i32 in *. rewrite Hs, Hz. split; [lia|discriminate].
Qed.

Lemma sub_wf a b r : dec_i32 a -> dec_i32 b -> sub a b = Ok r -> dec_wf r.
Proof.
  intros Ha Hb E. destruct (sub_exact a b) as (r' & E' & _ & Hs & Hz). rewrite E in E'. injection E' as ->.
  unfold dec_wf, dec_i32 in *. rewrite Hs, Hz. split; [lia|discriminate].
Qed.

Lemma mul_wf a b r : mul a b = Ok r -> dec_wf r.
Proof.
  intros E. pose proof (mul_panics_iff_ok a b r E) as G. destruct (mul_exact a b r E) as (_ & _ & Hs & Hz).
  unfold dec_wf, dec_i32. rewrite Hs, Hz. split; [exact G|discriminate].
Qed.

Lemma neg_wf d : dec_i32 d -> dec_wf (neg d).
Proof. intros H. apply mk_wf, H. Qed.

Lemma abs_wf d : dec_i32 d -> dec_wf (abs d).
Proof. intros H. apply mk_wf, H. Qed.

Lemma shiftl_wf d k r : shiftl d k = Ok r -> dec_wf r.
Proof.
  unfold shiftl. destruct (_ || _); [discriminate|]. intros E. injection E as <-. apply mk_wf, wrap32_range.
Qed.

Lemma shiftr_wf d k r : shiftr d k = Ok r -> dec_wf r.
Proof.
  unfold shiftr. destruct (_ || _); [discriminate|]. intros E. injection E as <-. apply mk_wf, wrap32_range.
Qed.

Lemma truncate_wf d p r : dec_wf d -> truncate d p = Ok r -> dec_wf r.
Proof.
  intros W. unfold truncate.
  repeat (match goal with
          | |- context [if ?x then _ else _] => destruct x
          | |- context [match set_string ?x with _ => _ end] => destruct (set_string x)
          end; try discriminate);
    intros E; injection E as <-; try exact W; apply mk_wf, wrap32_range.
Qed.

(* ================================================================================ *)
(* 7. String() prints an Ion decimal literal                                         *)
(* ================================================================================ *)
Definition strip_minus (ip : list N) : list N :=
  match ip with
  | c :: r => if (c =? 45)%N then r else ip
  | [] => ip
  end.
Definition lit_check (ip : list N) (fr ex : option (list N)) : bool :=
  dec_unsigned (strip_minus ip)
  && match fr with Some f => dec_frac_digits f | None => true end
  && match ex with Some e => dec_exp_ok e | None => true end
  && match fr, ex with None, None => false | _, _ => true end.
Definition lit_mant (mant : list N) (ex : option (list N)) : bool :=
  let '(ip, fr) := match split_first is_dot mant with
                   | Some (i, f) => (i, Some f)
                   | None => (mant, None)
                   end in
  lit_check ip fr ex.

Lemma literal_exp a e : Forall (fun x => is_dD x = false) a ->
  is_decimal_literal (a ++ c_d :: e) = lit_mant a (Some e).
Proof. intros H. unfold is_decimal_literal. rewrite split_first_hit by (auto; reflexivity). reflexivity. Qed.

Lemma literal_noexp a : Forall (fun x => is_dD x = false) a -> is_decimal_literal a = lit_mant a None.
Proof. intros H. unfold is_decimal_literal. rewrite split_first_miss by exact H. reflexivity. Qed.

Lemma lit_mant_dot ip fp ex : plain ip -> lit_mant (ip ++ c_dot :: fp) ex = lit_check ip (Some fp) ex.
Proof.
  intros H. unfold lit_mant. rewrite split_first_hit by (try apply plain_no_dot, H; reflexivity). reflexivity.
Qed.

Lemma lit_mant_nodot str ex : plain str -> lit_mant str ex = lit_check str None ex.
Proof. intros H. unfold lit_mant. rewrite split_first_miss by (apply plain_no_dot, H). reflexivity. Qed.

Lemma digs_tail_digits l : all_digits l = true -> digs_tail l = true.
Proof.
  induction l as [|c l IH]; intros H; [reflexivity|]. cbn [all_digits] in H. apply andb_true_iff in H as [Hc Hl].
  cbn [digs_tail]. rewrite Hc. apply IH, Hl.
Qed.

Lemma frac_digits_ok l : all_digits l = true -> dec_frac_digits l = true.
Proof.
  destruct l as [|c l]; intros H; [reflexivity|]. cbn [all_digits] in H. apply andb_true_iff in H as [Hc Hl].
  cbn [dec_frac_digits]. rewrite Hc. apply digs_tail_digits, Hl.
Qed.

Lemma unsigned_ok sgn c r : sgn = [] \/ sgn = [45%N] -> is_digit c = true -> all_digits r = true ->
  (c = 48%N -> r = []) -> dec_unsigned (strip_minus (sgn ++ c :: r)) = true.
Proof.
  intros S C R Z0.
  assert (E : strip_minus (sgn ++ c :: r) = c :: r).
  { destruct S as [-> | ->]; [|reflexivity]. cbn [app strip_minus]. unfold is_digit in C.
    destruct (N.eqb_spec c 45); [lia|reflexivity]. }
  rewrite E. cbn [dec_unsigned]. destruct (N.eqb_spec c 48) as [C0|C0].
  - rewrite (Z0 C0). reflexivity.
  - rewrite C. apply digs_tail_digits, R.
Qed.

Lemma exp_ok_zstr e : dec_exp_ok (zstr e) = true.
Proof.
  destruct (zstr_shape e) as (sgn & c & r & [E S C R] & _). rewrite E. unfold dec_exp_ok.
  destruct S as [-> | ->]; cbn [app].
  - unfold is_digit in C. destruct (N.eqb_spec c 43); [lia|]. destruct (N.eqb_spec c 45); [lia|].
    cbn [orb all_digits]. unfold is_digit. rewrite R. lia.
  - cbn [N.eqb Pos.eqb orb all_digits]. rewrite C, R. reflexivity.
Qed.

Lemma format_with_literal str sgn c r sc : coef_text str sgn c r -> (c = 48%N -> r = []) ->
  min_i32 <= sc <= max_i32 -> is_decimal_literal (format_with str sc) = true.
Proof.
  intros CT Z0 Hsc. pose proof (coef_plain _ _ _ _ CT) as P.
  assert (U : dec_unsigned (strip_minus str) = true).
  { destruct CT as [-> S C R]. apply unsigned_ok; assumption. }
  unfold format_with.
  destruct (Z.eqb_spec sc 0) as [Z1|NZ].
  { rewrite literal_noexp by (apply no_dD_dot_plain; [exact P|constructor]).
    rewrite lit_mant_dot by exact P. unfold lit_check. rewrite U. reflexivity. }
  destruct (Z.ltb_spec sc 0) as [NEG|POS].
  { rewrite literal_exp by (apply plain_no_dD, P). rewrite lit_mant_nodot by exact P.
    unfold lit_check. rewrite U, exp_ok_zstr. reflexivity. }
  pose proof (coef_len _ _ _ _ CT) as LEN. pose proof (coef_starts _ _ _ _ CT) as ST.
  assert (PFX : (if starts_minus str then 2 else 1) = zlen sgn + 1).
  { rewrite ST. destruct CT as [_ [-> | ->] _ _]; reflexivity. }
  rewrite PFX. cbv zeta.
  destruct (Z.geb_spec (zlen str - sc) (zlen sgn + 1)) as [GE|LT].
  { (* "nn.nn" *)
    rewrite literal_noexp by (apply no_dD_dot_plain; [apply plain_firstn|apply plain_skipn]; exact P).
    rewrite lit_mant_dot by (apply plain_firstn, P).
    destruct CT as [E Sg C R].
    assert (K : exists k, Z.to_nat (zlen str - sc) = (length sgn + S k)%nat).
    { exists (Z.to_nat (zlen str - sc) - length sgn - 1)%nat. unfold zlen in *. lia. }
    destruct K as [k K]. rewrite K, E.
    assert (F : firstn (length sgn + S k) (sgn ++ c :: r) = sgn ++ c :: firstn k r)
      by (rewrite firstn_app_2; reflexivity).
    assert (Sk : skipn (length sgn + S k) (sgn ++ c :: r) = skipn k r).
    { destruct Sg as [-> | ->]; reflexivity. }
    rewrite F, Sk. unfold lit_check.
    rewrite unsigned_ok; auto using all_digits_firstn.
    2:{ intros C0. rewrite (Z0 C0). destruct k; reflexivity. }
    rewrite frac_digits_ok by (apply all_digits_skipn, R). reflexivity. }
  assert (E1 : firstn (Z.to_nat (zlen sgn + 1)) str = sgn ++ [c]).
  { destruct CT as [-> [-> | ->] _ _]; reflexivity. }
  assert (E2 : skipn (Z.to_nat (zlen sgn + 1)) str = r).
  { destruct CT as [-> [-> | ->] _ _]; reflexivity. }
  assert (P1 : plain (sgn ++ [c])) by (rewrite <- E1; apply plain_firstn, P).
  assert (Pr : plain r) by (rewrite <- E2; apply plain_skipn, P).
  rewrite E1, E2.
  assert (U1 : dec_unsigned (strip_minus (sgn ++ [c])) = true).
  { destruct CT as [_ S C R]. apply unsigned_ok; auto. }
  destruct (Z.gtb_spec (zlen str) (zlen sgn + 1)) as [LONG|SHORT].
  - rewrite app_assoc. rewrite literal_exp by (apply no_dD_dot_plain; assumption).
    rewrite lit_mant_dot by exact P1. unfold lit_check. rewrite U1, exp_ok_zstr.
    rewrite frac_digits_ok by apply CT. reflexivity.
  - cbn [app]. rewrite literal_exp by (apply plain_no_dD, P1).
    rewrite lit_mant_nodot by exact P1. unfold lit_check. rewrite U1, exp_ok_zstr. reflexivity.
Qed.

Lemma format_is_literal d : dec_i32 d -> is_decimal_literal (dec_format d) = true.
Proof.
  intros Hs. destruct (mant_shape d) as (sgn & c & r & CT & Z0).
  rewrite dec_format_with. eapply format_with_literal; eassumption.
Qed.

(* ================================================================================ *)
(* 8. the exponent view (NewDecimal / CoEx) and the scale MinInt32                   *)
(* ================================================================================ *)
Lemma coex_exp_neg d : min_i32 < d_scale d <= max_i32 -> coex_exp d = - d_scale d.
Proof. intros H. unfold coex_exp. apply wrap32_neg, H. Qed.

Lemma new_decimal_val n e nz : min_i32 < e <= max_i32 ->
  dec_val (new_decimal n e nz) == inject_Z n * ten ^ e /\ coex_exp (new_decimal n e nz) = e.
Proof.
  intros H. unfold new_decimal, coex_exp, dec_val. cbn [d_n d_scale].
  rewrite (wrap32_neg e H). replace (- - e) with e by lia. split; [reflexivity|].
  apply wrap32_id. unfold min_i32, max_i32 in *. lia.
Qed.

Lemma coex_new_decimal n e nz : min_i32 <= e <= max_i32 -> coex_exp (new_decimal n e nz) = e.
Proof. intros H. unfold new_decimal, coex_exp. cbn [d_scale]. unfold wrap32, min_i32, max_i32, two31, two32 in *. lia. Qed.

Lemma mul_coex a b r : min_i32 < d_scale a <= max_i32 -> min_i32 < d_scale b <= max_i32 ->
  mul a b = Ok r -> d_scale r <> min_i32 ->
  d_n r = d_n a * d_n b /\ coex_exp r = coex_exp a + coex_exp b.
Proof.
  intros Ha Hb E Hr. destruct (mul_exact a b r E) as (_ & Hn & Hs & _). split; [exact Hn|].
  assert (Hr' : min_i32 < d_scale r <= max_i32).
  { apply mul_panics_iff_ok in E. lia. }
  rewrite !coex_exp_neg by assumption. lia.
Qed.
