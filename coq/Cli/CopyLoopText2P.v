(* CopyLoopText2P.v — C05 end to end, binary -> text (compact text Writer): composition. *)
From Coq Require Import String List NArith ZArith Bool Lia.
From IonV Require Import Base.Wire Base.Utf8 Bin.Bits Data.Ion Num.Float Bin.BinWriter Bin.BitStream Bin.BinReader Bin.SpecBin
  Bin.RoundTripBin Bin.SpecLim Bin.SpecAgreeStreamP
  Text.TextOut Text.TextWriter Text.TextRoundtrip Text.Tokenizer Text.Skipper Text.TextReader Text.TextNum
  Text.SpellBase Text.SpellStream Text.SpellTree Text.WriteSpell Text.WriteSpellStream
  Cli.Process Cli.ProcessP Cli.CopyLoop Cli.CopyLoopP Cli.CopyLoopTextP.
Import ListNotations.
Open Scope N_scope.

Theorem copy_to_text_writer F quiet vs : RoundTripBin.wf_values vs -> Forall (WriteSpell.wf_top F) vs ->
  exists w, process_fixed (tw_step F) (new_text_writer None false quiet) (obs_of_values vs) =
              Ok {| oc_w := w; oc_calls := fst (calls_upto_forest (obs_of_values vs)) ++ [CFinish]; oc_reports := [] |} /\
            sink_bytes (tw_out w) = wt_stream F quiet vs /\
            tops_spell PD PT LSys (sink_bytes (tw_out w)) (tvs F vs) /\
            x_traverse PD PT (sink_bytes (tw_out w)) false = ttrace (tvs F vs).
Proof.
  intros Hw Ht.
  assert (Hwv : Forall RoundTripBin.wf_value vs) by (eapply Forall_impl; [|exact Hw]; intros v [H _]; exact H).
  destruct (write_then_read F quiet vs Ht) as (w & oks & E & Hok & Hb & Hs & Hr).
  pose proof (tw_drive_all_ok F _ _ _ _ E Hok) as D.
  rewrite <- (expand_forest vs Hwv), <- drive_expand in D.
  destruct (transcode_any_writer twstate (tw_step F) _ w (obs_of_values vs) (forest_ok_obs vs Hwv) D) as [P _].
  exists w. auto.
Qed.

Theorem copy_binary_to_text F quiet ts src vs :
  (forall bs, ts bs <> Panic /\ ts bs <> OutOfFuel) -> sdecode src = Some vs -> within_limits ts src ->
  Forall (fun c => c < 256) src -> N.of_nat (length src) < two63 ->
  RoundTripBin.wf_values vs -> Forall (WriteSpell.wf_top F) vs ->
  map proj_tok (fst (traverse ts src false)) = map proj_tok (obs_trace (obs_of_values vs)) /\
  exists w, process_fixed (tw_step F) (new_text_writer None false quiet) (obs_of_values vs) =
              Ok {| oc_w := w; oc_calls := fst (calls_upto_forest (obs_of_values vs)) ++ [CFinish]; oc_reports := [] |} /\
            sink_bytes (tw_out w) = wt_stream F quiet vs /\
            tops_spell PD PT LSys (sink_bytes (tw_out w)) (tvs F vs) /\
            x_traverse PD PT (sink_bytes (tw_out w)) false = ttrace (tvs F vs).
Proof.
  intros Hts Hd Hl Hb Hlen Hw Ht.
  assert (Hwv : Forall RoundTripBin.wf_value vs) by (eapply Forall_impl; [|exact Hw]; intros v [H _]; exact H).
  split; [rewrite (agree_C03 ts src vs Hts Hd Hl Hb Hlen); symmetry; apply proj_obs_trace_values; exact Hwv|].
  apply copy_to_text_writer; assumption.
Qed.
