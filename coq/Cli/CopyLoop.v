(* CopyLoop.v — vocabulary for the END-TO-END statements of property C05 (Props/C05e2e.v):
   reader model -> copy loop (Cli/Process.v, [process_fixed]) -> writer model -> specification decoder.

   * [obs_of_values vs]: the observed forest ([oval], the input of the copy loop) of a forest of data-model
     values, symbols carried by their text when they have one (token {text, sid -1}) and by their symbol ID
     otherwise; an int is observed as int64 when it fits (IntSize), a timestamp with the length of its body.
   * [obs_trace obs]: the trace the plain full traversal of a reader model prints when it REPORTS the forest
     [obs] (Bin/BinReader.v [traverse], Text/TextReader.v [x_traverse]: Next, FieldName, Annotations, Type,
     IsNull, the accessor or StepIn..StepOut; finally F e0 F e0 F e0), symbol tokens with the text and the
     symbol ID the reader reports.  "The reader reports obs" is stated as an equation between the reader
     model's trace and [obs_trace obs]; [Bin.SpecLim.proj_tok] on both sides when the symbol IDs are left open.
   * [norm_call], [wnorm]: a Writer call / the pending field name and annotations of the binary Writer model
     with every token whose text is known stripped of its symbol ID ([Process.text_only]).
   No proofs in this file. *)
From Coq Require Import String List NArith ZArith Bool.
From IonV Require Import Base.Wire Data.Ion Num.Float Bin.BitStream Bin.BinReader Bin.BinWriter Bin.RoundTripBin
  Cli.Process.
Import ListNotations.
Open Scope N_scope.

(* ---- data-model values as the Reader reports them ------------------------------------------------- *)
Definition int_of_Z (z : Z) : intval := if in_i64 z then I64 z else IBig z.

Fixpoint obs_of_value (fld : option symv) (a : list symv) (v : value) : oval :=
  let f := option_map tok_of fld in
  let an := map tok_of a in
  match v with
  | VAnn a' x => obs_of_value fld a' x
  | VNull t => OScalar f an (SNull t)
  | VBool b => OScalar f an (SBool b)
  | VInt z => OScalar f an (SInt (int_of_Z z))
  | VFloat b => OScalar f an (SFloat b)
  | VDecimal d => OScalar f an (SDecimal d)
  | VTimestamp body => OScalar f an (STimestamp (N.of_nat (length body)) body)
  | VSymbol y => OScalar f an (SSymbol (tok_of y))
  | VString t => OScalar f an (SString t)
  | VClob b => OScalar f an (SClob b)
  | VBlob b => OScalar f an (SBlob b)
  | VList l => OCont f an KList (map (obs_of_value None []) l)
  | VSexp l => OCont f an KSexp (map (obs_of_value None []) l)
  | VStruct fs => OCont f an KStruct (map (fun p => obs_of_value (Some (fst p)) [] (snd p)) fs)
  end.
Definition obs_of_values (vs : list value) : list oval := map (obs_of_value None []) vs.

(* ---- the trace of a traversal that reports an observed forest ---------------------------------------- *)
Definition otr_field (f : option tok) : list N := match f with None => t_nil | Some t => show_tok t end.
Definition otr_annots (a : list tok) : list N := 97 :: 91 :: concat (map (fun t => show_tok t ++ [59]) a) ++ [93].
Definition otr_head (f : option tok) (a : list tok) (ty : N) (isnull : bool) : list (list N) :=
  [ [84]; otr_field f; otr_annots a; 121 :: dec_of_N ty; [110; if isnull then 49 else 48] ].

Definition kind_type (k : ckind) : N := match k with KList => TList | KSexp => TSexp | KStruct => TStruct end.
(* Type() and the accessor's answer for a non-null scalar *)
Definition otr_scalar (s : oscalar) : N * list N :=
  match s with
  | SNull t => (t, [])
  | SBool b => (TBool, [98; if b then 49 else 48])
  | SInt i => (TInt, 73 :: dec_of_Z (show_int i))
  | SFloat b => (TFloat, 70 :: dec_of_N b)
  | SDecimal d => (TDecimal, show_dec d)
  | STimestamp _ body => (TTimestamp, 84 :: hex_of_bytes body)
  | SSymbol t => (TSymbol, show_tok t)
  | SString t => (TString, 83 :: xhex t)
  | SClob b => (TClob, 66 :: xhex b)
  | SBlob b => (TBlob, 66 :: xhex b)
  end.

Fixpoint otr_value (v : oval) : list (list N) :=
  match v with
  | OScalar f a (SNull t) => otr_head f a t true
  | OScalar f a s => otr_head f a (fst (otr_scalar s)) false ++ [snd (otr_scalar s)]
  | OCont f a k l => otr_head f a (kind_type k) false ++ [s "ok"%string] ++ flat_map otr_value l ++ [[70]; s "ok"%string]
  | OFail => [t_err]
  end.
Definition otr_tail : list (list N) := [[70]; [101; 48]; [70]; [101; 48]; [70]; [101; 48]].
Definition obs_trace (obs : list oval) : list (list N) := flat_map otr_value obs ++ otr_tail.

(* ---- symbol IDs of known-text tokens dropped ---------------------------------------------------------- *)
Definition norm_call (c : wcall) : wcall :=
  match c with
  | CFieldName t => CFieldName (text_only t)
  | CAnnotation t => CAnnotation (text_only t)
  | CAnnotations ts => CAnnotations (map text_only ts)
  | CSymbol t => CSymbol (text_only t)
  | _ => c
  end.
Definition wnorm (w : wstate) : wstate :=
  set_pending w (option_map text_only (w_field w)) (map text_only (w_annots w)).

(* ---- the pipeline, for the examples --------------------------------------------------------------------- *)
(* copy an observed forest into a fresh binary Writer model: (bytes written, error reports) *)
Definition copy_to_binary (obs : list oval) : option (list N * list report) :=
  match process_fixed bin_step (new_writer None) obs with
  | Ok o => Some (sink_bytes (w_out (oc_w o)), oc_reports o)
  | _ => None
  end.
