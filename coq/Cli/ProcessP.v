(* ProcessP.v — lemmas about Cli/Process.v and Cli/Events.v (property C20). *)
From Coq Require Import String List NArith ZArith Bool Lia ZifyBool ZifyN ZifyNat.
From IonV Require Import Base.Wire Data.Ion Bin.BitStream Bin.BinWriter Cli.Process Cli.Events.
Import ListNotations.
Open Scope N_scope.

(* ---- induction over observed values (nested in lists) ---------------------------------------- *)
Lemma oval_ind' (P : oval -> Prop) :
  (forall f a s, P (OScalar f a s)) ->
  (forall f a k l, Forall P l -> P (OCont f a k l)) ->
  P OFail -> forall v, P v.
Proof.
  intros Hs Hc Hf. fix IH 1. intros [f a s|f a k l|].
  - apply Hs.
  - apply Hc. induction l as [|x l IHl]; constructor; [apply IH|exact IHl].
  - exact Hf.
Qed.

(* ---- equations for the specification functions ------------------------------------------------- *)
Lemma calls_upto_cont f a k l :
  calls_upto (OCont f a k l) =
  (let '(cs, failed) := calls_upto_forest l in
   if failed then (head_calls f a ++ begin_call k :: cs, true)
   else (head_calls f a ++ begin_call k :: cs ++ [end_call k], false)).
Proof.
  cbn [calls_upto].
  match goal with |- (let '(_, _) := ?g l in _) = _ => assert (E : g l = calls_upto_forest l) end.
  { induction l as [|x r IH]; [reflexivity|]. cbn [calls_upto_forest]. rewrite <- IH. reflexivity. }
  rewrite E. reflexivity.
Qed.

Lemma ticks_upto_cont f a k l :
  ticks_upto (OCont f a k l) =
  (let '(n, failed) := ticks_upto_forest l in
   if failed then (1 + n, true) else (1 + n + 1, false)).
Proof.
  cbn [ticks_upto].
  match goal with |- (let '(_, _) := ?g l in _) = _ => assert (E : g l = ticks_upto_forest l) end.
  { induction l as [|x r IH]; [reflexivity|]. cbn [ticks_upto_forest]. rewrite <- IH. reflexivity. }
  rewrite E. reflexivity.
Qed.

(* the two specification functions agree on where the failure is *)
Lemma upto_failed_agree v : snd (ticks_upto v) = snd (calls_upto v).
Proof.
  induction v as [f a s|f a k l IH|] using oval_ind'; [reflexivity| |reflexivity].
  rewrite calls_upto_cont, ticks_upto_cont.
  assert (E : snd (ticks_upto_forest l) = snd (calls_upto_forest l)).
  { induction IH as [|x r Hx _ IHr]; [reflexivity|]. cbn [ticks_upto_forest calls_upto_forest].
    destruct (ticks_upto x) as [n1 f1], (calls_upto x) as [c1 g1]. cbn [snd] in Hx. subst g1.
    destruct f1; [reflexivity|].
    destruct (ticks_upto_forest r) as [n2 f2], (calls_upto_forest r) as [c2 g2]. exact IHr. }
  destruct (ticks_upto_forest l) as [n fl], (calls_upto_forest l) as [cs gl]. cbn [snd] in E. subst gl.
  destruct fl; reflexivity.
Qed.
Lemma upto_failed_agree_forest l : snd (ticks_upto_forest l) = snd (calls_upto_forest l).
Proof.
  induction l as [|x r IH]; [reflexivity|]. cbn [ticks_upto_forest calls_upto_forest].
  pose proof (upto_failed_agree x) as Hx.
  destruct (ticks_upto x) as [n1 f1], (calls_upto x) as [c1 g1]. cbn [snd] in Hx. subst g1.
  destruct f1; [reflexivity|].
  destruct (ticks_upto_forest r) as [n2 f2], (calls_upto_forest r) as [c2 g2]. exact IH.
Qed.

(* ---- the accepting run ---------------------------------------------------------------------------- *)
Definition sim_seq (r1 : option (N * list wcall * option report)) (k : N -> option (N * list wcall * option report))
  : option (N * list wcall * option report) :=
  match r1 with
  | None => None
  | Some (i, cs, Some rep) => Some (i, cs, Some rep)
  | Some (i, cs, None) =>
    match k i with
    | Some (i2, cs2, rep2) => Some (i2, cs ++ cs2, rep2)
    | None => None
    end
  end.

Lemma sim_app a1 a2 idx : sim (a1 ++ a2) idx = sim_seq (sim a1 idx) (sim a2).
Proof.
  revert idx. induction a1 as [|x r IH]; intro idx.
  - cbn [app sim sim_seq]. destruct (sim a2 idx) as [[[i cs] rep]|]; reflexivity.
  - destruct x; cbn [app sim]; try rewrite IH; try reflexivity.
    + destruct (sim r idx) as [[[i cs] [rep|]]|]; cbn [sim_seq]; try reflexivity.
      destruct (sim a2 i) as [[[i2 cs2] rep2]|]; reflexivity.
    + destruct (sim r idx) as [[[i cs] [rep|]]|]; cbn [sim_seq]; try reflexivity.
      destruct (sim a2 i) as [[[i2 cs2] rep2]|]; reflexivity.
Qed.

Definition read_report (idx : N) : report := {| rp_type := ERead; rp_in_input := true; rp_idx := idx |}.

(* what the fixed loop does on one value, against an accepting Writer *)
Definition sim_spec_v (v : oval) (idx : N) : option (N * list wcall * option report) :=
  let '(cs, failed) := calls_upto v in
  let n := fst (ticks_upto v) in
  Some (idx + n, cs, if failed then Some (read_report (idx + n)) else None).
Definition sim_spec_l (l : list oval) (idx : N) : option (N * list wcall * option report) :=
  let '(cs, failed) := calls_upto_forest l in
  let n := fst (ticks_upto_forest l) in
  Some (idx + n, cs, if failed then Some (read_report (idx + n)) else None).

Lemma sim_map_ACall cs idx : sim (map ACall cs) idx = Some (idx, cs, None).
Proof. induction cs as [|c r IH]; [reflexivity|]. cbn [map sim]. rewrite IH. reflexivity. Qed.

Lemma sim_head f a idx : sim (head_actions f a) idx = Some (idx + 1, head_calls f a, None).
Proof. unfold head_actions. cbn [sim]. apply sim_map_ACall. Qed.

Lemma sim_forest_step (l : list oval) :
  Forall (fun v => forall idx, sim (flatten scalar_actions_fixed v) idx = sim_spec_v v idx) l ->
  forall idx, sim (flat_map (flatten scalar_actions_fixed) l) idx = sim_spec_l l idx.
Proof.
  induction 1 as [|x r Hx _ IH]; intro idx.
  - unfold sim_spec_l. cbn. rewrite N.add_0_r. reflexivity.
  - cbn [flat_map]. rewrite sim_app, Hx. unfold sim_spec_v, sim_spec_l.
    cbn [calls_upto_forest ticks_upto_forest].
    pose proof (upto_failed_agree x) as Ex.
    destruct (calls_upto x) as [c1 f1], (ticks_upto x) as [n1 g1]. cbn [snd fst] in *. subst g1.
    destruct f1; cbn [sim_seq fst]; [reflexivity|].
    rewrite IH. unfold sim_spec_l.
    pose proof (upto_failed_agree_forest r) as Er.
    destruct (calls_upto_forest r) as [c2 f2], (ticks_upto_forest r) as [n2 g2]. cbn [snd fst] in *. subst g2.
    rewrite N.add_assoc. reflexivity.
Qed.

Lemma sim_flatten_fixed v : forall idx, sim (flatten scalar_actions_fixed v) idx = sim_spec_v v idx.
Proof.
  induction v as [f a s|f a k l IH|] using oval_ind'; intro idx.
  - cbn [flatten]. rewrite sim_app, sim_head. unfold sim_spec_v. cbn [calls_upto ticks_upto fst sim_seq].
    destruct s; cbn [scalar_actions_fixed sim scalar_call]; reflexivity.
  - cbn [flatten]. rewrite sim_app, sim_head. cbn [sim_seq app sim].
    rewrite sim_app, (sim_forest_step l IH).
    unfold sim_spec_v, sim_spec_l. rewrite calls_upto_cont, ticks_upto_cont.
    pose proof (upto_failed_agree_forest l) as El.
    destruct (calls_upto_forest l) as [cs fl], (ticks_upto_forest l) as [n gl]. cbn [snd fst] in *. subst gl.
    destruct fl; cbn [sim_seq sim fst].
    + replace (idx + 1 + n) with (idx + (1 + n)) by lia. reflexivity.
    + replace (idx + 1 + n + 1) with (idx + (1 + n + 1)) by lia. reflexivity.
  - unfold sim_spec_v. cbn. rewrite N.add_0_r. reflexivity.
Qed.

Lemma sim_flatten_fixed_forest vs idx : sim (flatten_fixed vs) idx = sim_spec_l vs idx.
Proof.
  unfold flatten_fixed, flatten_forest. apply sim_forest_step.
  apply Forall_forall. intros v _. apply sim_flatten_fixed.
Qed.

Section AnyWriter.
Variable W : Type.
Variable wstep : W -> wcall -> res (W * bool).

(* a Writer that accepts the calls: the run makes exactly them *)
Lemma run_actions_accept acts : forall w idx calls0 i cs rep w',
  sim acts idx = Some (i, cs, rep) ->
  drive wstep w cs = Ok (w', true) ->
  run_actions wstep acts w idx calls0 = Ok (w', i, rev cs ++ calls0, rep).
Proof.
  induction acts as [|x r IH]; intros w idx calls0 i cs rep w' Hs Hd.
  - cbn in Hs. inversion Hs; subst. cbn in Hd. inversion Hd; subst. reflexivity.
  - destruct x; cbn [sim] in Hs; cbn [run_actions].
    + eapply IH; eassumption.
    + destruct (sim r idx) as [[[i1 cs1] rep1]|] eqn:E; [|discriminate]. inversion Hs; subst. clear Hs.
      cbn [drive] in Hd. destruct (wstep w c) as [[w1 ok]| | |]; cbn [bind] in *; try discriminate.
      destruct ok; [|discriminate].
      rewrite (IH w1 idx (c :: calls0) i cs1 rep w' E Hd). cbn [rev]. rewrite <- app_assoc. reflexivity.
    + destruct (sim r idx) as [[[i1 cs1] rep1]|] eqn:E; [|discriminate]. inversion Hs; subst. clear Hs.
      cbn [drive] in Hd. destruct (wstep w c) as [[w1 ok]| | |]; cbn [bind] in *; try discriminate.
      destruct ok; [|discriminate].
      rewrite (IH w1 idx (c :: calls0) i cs1 rep w' E Hd). cbn [rev]. rewrite <- app_assoc. reflexivity.
    + discriminate.
    + inversion Hs; subst. cbn in Hd. inversion Hd; subst. reflexivity.
Qed.

Lemma drive_app cs1 : forall w cs2,
  drive wstep w (cs1 ++ cs2) =
  (do '(w', ok) <- drive wstep w cs1; if ok then drive wstep w' cs2 else Ok (w', false)).
Proof.
  induction cs1 as [|c r IH]; intros w cs2; [reflexivity|].
  cbn [app drive]. destruct (wstep w c) as [[w1 ok]| | |]; cbn [bind]; try reflexivity.
  destruct ok; [apply IH|reflexivity].
Qed.

Lemma process_actions_accept acts w i cs rep w2 :
  sim acts 0 = Some (i, cs, rep) ->
  drive wstep w (cs ++ [CFinish]) = Ok (w2, true) ->
  process_actions wstep acts w =
  Ok {| oc_w := w2; oc_calls := cs ++ [CFinish];
        oc_reports := match rep with Some r => [r] | None => [] end |}.
Proof.
  intros Hs Hd. rewrite drive_app in Hd.
  destruct (drive wstep w cs) as [[w1 ok]| | |] eqn:E; cbn [bind] in Hd; try discriminate.
  destruct ok; [|discriminate].
  unfold process_actions. rewrite (run_actions_accept acts w 0 [] i cs rep w1 Hs E). cbn [bind].
  cbn [drive] in Hd. destruct (wstep w1 CFinish) as [[w3 ok]| | |]; cbn [bind] in *; try discriminate.
  destruct ok; inversion Hd; subst. rewrite app_nil_r. cbn [rev]. rewrite rev_involutive, app_nil_r.
  reflexivity.
Qed.

(* a Writer that never panics, under an invariant of its state *)
Variable Inv : W -> Prop.
Hypothesis step_total : forall w c, Inv w -> exists w' ok, wstep w c = Ok (w', ok) /\ Inv w'.

Lemma run_actions_total acts : forall w idx calls,
  Inv w -> ~ In APanic acts ->
  exists w' i cs rep, run_actions wstep acts w idx calls = Ok (w', i, cs, rep) /\ Inv w' /\
                      (forall i0 cs0 rp, sim acts idx = Some (i0, cs0, Some rp) -> rep <> None).
Proof.
  induction acts as [|x r IH]; intros w idx calls Hw Hn.
  - exists w, idx, calls, None. repeat split; [exact Hw|]. cbn. intros i0 cs0 rp H. discriminate.
  - assert (Hr : ~ In APanic r) by (intro; apply Hn; right; assumption).
    destruct x; cbn [run_actions sim].
    + apply IH; assumption.
    + destruct (step_total w c Hw) as (w1 & ok & E & Hw1). rewrite E. cbn [bind].
      destruct ok.
      * destruct (IH w1 idx (c :: calls) Hw1 Hr) as (w' & i & cs & rep & R & Hi & Hrep).
        exists w', i, cs, rep. repeat split; try assumption.
        intros i0 cs0 rp H. destruct (sim r idx) as [[[i1 cs1] rep1]|]; [|discriminate].
        inversion H; subst. eapply Hrep. reflexivity.
      * eexists w1, idx, (c :: calls), _. repeat split; [exact Hw1|]. intros; discriminate.
    + destruct (step_total w c Hw) as (w1 & ok & E & Hw1). rewrite E. cbn [bind].
      destruct (IH w1 idx (c :: calls) Hw1 Hr) as (w' & i & cs & rep & R & Hi & Hrep).
      exists w', i, cs, rep. repeat split; try assumption.
      intros i0 cs0 rp H. destruct (sim r idx) as [[[i1 cs1] rep1]|]; [|discriminate].
      inversion H; subst. eapply Hrep. reflexivity.
    + exfalso. apply Hn. left. reflexivity.
    + eexists w, idx, calls, _. repeat split; [exact Hw|]. intros; discriminate.
Qed.

Lemma process_actions_total acts w :
  Inv w -> ~ In APanic acts ->
  exists o, process_actions wstep acts w = Ok o /\
            (forall i0 cs0 rp, sim acts 0 = Some (i0, cs0, Some rp) -> oc_reports o <> []).
Proof.
  intros Hw Hn. unfold process_actions.
  destruct (run_actions_total acts w 0 [] Hw Hn) as (w1 & i & cs & rep & R & Hw1 & Hrep).
  rewrite R. cbn [bind].
  destruct (step_total w1 CFinish Hw1) as (w2 & ok & E & _). rewrite E. cbn [bind].
  eexists. split; [reflexivity|]. cbn [oc_reports]. intros i0 cs0 rp H.
  specialize (Hrep i0 cs0 rp H). destruct rep; [discriminate|congruence].
Qed.
End AnyWriter.

(* ---- the fixed transcription contains no panic ----------------------------------------------------- *)
Lemma no_panic_head f a : ~ In APanic (head_actions f a).
Proof.
  unfold head_actions. intros [H|H]; [discriminate|]. apply in_map_iff in H. destruct H as (c & H & _). discriminate.
Qed.

Lemma flatten_fixed_no_panic_v v : ~ In APanic (flatten scalar_actions_fixed v).
Proof.
  induction v as [f a s|f a k l IH|] using oval_ind'; cbn [flatten]; intro H.
  - apply in_app_or in H. destruct H as [H|H]; [exact (no_panic_head _ _ H)|].
    destruct s; cbn in H; destruct H as [H|[]]; discriminate.
  - apply in_app_or in H. destruct H as [H|H]; [exact (no_panic_head _ _ H)|].
    cbn [app] in H. destruct H as [H|H]; [discriminate|].
    apply in_app_or in H. destruct H as [H|H].
    + apply in_flat_map in H. destruct H as (x & Hx & Hp). rewrite Forall_forall in IH. exact (IH x Hx Hp).
    + destruct H as [H|[H|[]]]; discriminate.
  - destruct H as [H|[]]. discriminate.
Qed.
Lemma flatten_fixed_no_panic vs : ~ In APanic (flatten_fixed vs).
Proof.
  unfold flatten_fixed, flatten_forest. intro H. apply in_flat_map in H. destruct H as (x & _ & Hp).
  exact (flatten_fixed_no_panic_v x Hp).
Qed.

Theorem process_fixed_no_panic (W : Type) (wstep : W -> wcall -> res (W * bool)) (Inv : W -> Prop) :
  (forall w c, Inv w -> exists w' ok, wstep w c = Ok (w', ok) /\ Inv w') ->
  forall w vs, Inv w -> exists o, process_fixed wstep w vs = Ok o.
Proof.
  intros Ht w vs Hw.
  destruct (process_actions_total W wstep Inv Ht (flatten_fixed vs) w Hw (flatten_fixed_no_panic vs)) as (o & E & _).
  exists o. exact E.
Qed.

(* a reader failure anywhere leaves an entry in the report, whatever the Writer answers *)
Theorem process_fixed_invalid (W : Type) (wstep : W -> wcall -> res (W * bool)) (Inv : W -> Prop) :
  (forall w c, Inv w -> exists w' ok, wstep w c = Ok (w', ok) /\ Inv w') ->
  forall w vs, Inv w -> snd (calls_upto_forest vs) = true ->
  exists o, process_fixed wstep w vs = Ok o /\ oc_reports o <> [].
Proof.
  intros Ht w vs Hw Hf.
  destruct (process_actions_total W wstep Inv Ht (flatten_fixed vs) w Hw (flatten_fixed_no_panic vs)) as (o & E & Hrep).
  exists o. split; [exact E|].
  pose proof (sim_flatten_fixed_forest vs 0) as S. unfold sim_spec_l in S.
  destruct (calls_upto_forest vs) as [cs failed]. cbn [snd] in Hf. subst failed.
  eapply Hrep. exact S.
Qed.

(* ---- the no-op Writer -------------------------------------------------------------------------------- *)
Lemma drive_nop cs : drive nop_step tt cs = Ok (tt, true).
Proof. induction cs as [|c r IH]; [reflexivity|]. cbn [drive nop_step bind]. exact IH. Qed.

Theorem process_fixed_nop vs :
  process_fixed nop_step tt vs =
  Ok {| oc_w := tt; oc_calls := fst (calls_upto_forest vs) ++ [CFinish];
        oc_reports := if snd (calls_upto_forest vs)
                      then [read_report (fst (ticks_upto_forest vs))] else [] |}.
Proof.
  unfold process_fixed.
  pose proof (sim_flatten_fixed_forest vs 0) as S. unfold sim_spec_l in S.
  destruct (calls_upto_forest vs) as [cs failed] eqn:E. cbn [fst snd].
  rewrite (process_actions_accept unit nop_step (flatten_fixed vs) tt _ cs _ tt S (drive_nop _)).
  rewrite N.add_0_l. destruct failed; reflexivity.
Qed.

(* ---- the calls denote the forest ------------------------------------------------------------------------ *)
Definition clean (st : vstate) : Prop := vs_field st = None /\ vs_annots st = [].
Definition in_struct_st (st : vstate) : bool :=
  match vs_stack st with
  | fr :: _ => match fr_kind fr with KStruct => true | _ => false end
  | [] => false
  end.

Lemma vrun_app a : forall st b, vrun st (a ++ b) = match vrun st a with Some st' => vrun st' b | None => None end.
Proof.
  induction a as [|c r IH]; intros st b; [reflexivity|].
  cbn [app vrun]. destruct (vstep st c); [apply IH|reflexivity].
Qed.

Lemma vrun_head st f a :
  clean st -> field_ok (in_struct_st st) f = true ->
  vrun st (head_calls f a) =
  Some {| vs_stack := vs_stack st; vs_top := vs_top st; vs_field := f; vs_annots := a |}.
Proof.
  intros [Hf Ha] Hok. destruct st as [stk top fld ann]. cbn in *. subst fld ann.
  unfold head_calls. destruct f as [t|].
  - unfold in_struct_st in Hok. cbn in Hok.
    destruct stk as [|fr r]; [discriminate|]. destruct (fr_kind fr) eqn:Ek; try discriminate.
    destruct a; cbn; rewrite Ek; reflexivity.
  - cbn [app]. destruct a; reflexivity.
Qed.

Lemma add_item_clean st f v : clean (add_item st f v).
Proof. unfold add_item. destruct (vs_stack st); split; reflexivity. Qed.
Lemma add_item_stack_kind st f v : in_struct_st (add_item st f v) = in_struct_st st.
Proof. unfold add_item, in_struct_st. destruct (vs_stack st); reflexivity. Qed.

Lemma value_of_scalar_call s :
  scalar_ok s = true -> value_of_call (scalar_call s) = Some (value_of_scalar s).
Proof.
  destruct s as [t|b|[z|z]|b|d|l b|t|t|b|b]; cbn; try reflexivity.
  intro H. rewrite H. reflexivity.
Qed.

Lemma vstep_scalar st s f a :
  scalar_ok s = true ->
  vstep {| vs_stack := vs_stack st; vs_top := vs_top st; vs_field := f; vs_annots := a |} (scalar_call s) =
  Some (add_item st f (wrap_ann a (value_of_scalar s))).
Proof.
  intro Hok. pose proof (value_of_scalar_call s Hok) as E.
  destruct s as [t|b|[z|z]|b|d|l b|t|t|b|b]; cbn [scalar_call vstep] in *; rewrite ?E; try reflexivity.
Qed.

(* items pushed by the children of a container *)
Definition push_all (st : vstate) (l : list oval) : vstate :=
  fold_left (fun s x => add_item s (field_of x) (value_of x)) l st.

Lemma push_all_cons st x r : push_all st (x :: r) = push_all (add_item st (field_of x) (value_of x)) r.
Proof. reflexivity. Qed.
Lemma push_all_clean st l : clean st -> clean (push_all st l).
Proof.
  revert st. induction l as [|x r IH]; intros st H; [exact H|]. rewrite push_all_cons. apply IH. apply add_item_clean.
Qed.
Lemma push_all_kind st l : in_struct_st (push_all st l) = in_struct_st st.
Proof.
  revert st. induction l as [|x r IH]; intro st; [reflexivity|]. rewrite push_all_cons.
  rewrite IH. apply add_item_stack_kind.
Qed.

Definition is_struct (k : ckind) : bool := match k with KStruct => true | _ => false end.

Lemma container_items k l :
  forallb (obs_ok (is_struct k)) l = true ->
  container_value k (map (fun x => (field_of x, value_of x)) l) =
  Some (match k with
        | KList => VList (map value_of l)
        | KSexp => VSexp (map value_of l)
        | KStruct => VStruct (map (fun x => (field_sym (field_of x), value_of x)) l)
        end).
Proof.
  intro H.
  assert (Hp : is_struct k = false -> plain_items (map (fun x => (field_of x, value_of x)) l) = Some (map value_of l)).
  { intro Hk. rewrite Hk in H. induction l as [|x r IH]; [reflexivity|].
    cbn [forallb] in H. apply andb_prop in H. destruct H as [Hx Hr].
    cbn [map plain_items]. assert (field_of x = None) as ->.
    { destruct x as [f a s|f a k0 l0|]; cbn in Hx; try discriminate; destruct f; cbn in Hx; try discriminate; reflexivity. }
    rewrite (IH Hr). reflexivity. }
  assert (Hs : is_struct k = true -> field_items (map (fun x => (field_of x, value_of x)) l) =
                                       Some (map (fun x => (field_sym (field_of x), value_of x)) l)).
  { clear Hp. intro Hk. rewrite Hk in H. induction l as [|x r IH]; [reflexivity|].
    cbn [forallb] in H. apply andb_prop in H. destruct H as [Hx Hr].
    cbn [map field_items]. assert (exists t, field_of x = Some t) as [t Et].
    { destruct x as [f a s|f a k0 l0|]; cbn in Hx; try discriminate; destruct f; cbn in Hx; try discriminate; eexists; reflexivity. }
    rewrite Et. cbn [field_sym]. rewrite (IH Hr). reflexivity. }
  destruct k; cbn [container_value]; [rewrite Hp|rewrite Hp|rewrite Hs]; reflexivity.
Qed.

Lemma push_all_items : forall l stk0 fr top,
  push_all {| vs_stack := fr :: stk0; vs_top := top; vs_field := None; vs_annots := [] |} l =
  {| vs_stack := {| fr_kind := fr_kind fr; fr_field := fr_field fr; fr_annots := fr_annots fr;
                    fr_items := rev (map (fun x => (field_of x, value_of x)) l) ++ fr_items fr |} :: stk0;
     vs_top := top; vs_field := None; vs_annots := [] |}.
Proof.
  induction l as [|x r IH]; intros stk0 fr top.
  - cbn. destruct fr; reflexivity.
  - rewrite push_all_cons. unfold add_item. cbn [vs_stack vs_top].
    rewrite IH. cbn [fr_kind fr_field fr_annots fr_items map rev]. rewrite <- app_assoc. reflexivity.
Qed.

Lemma ckind_eqb_refl k : ckind_eqb k k = true.
Proof. destruct k; reflexivity. Qed.

Lemma vstep_begin st k f a :
  vstep {| vs_stack := vs_stack st; vs_top := vs_top st; vs_field := f; vs_annots := a |} (begin_call k) =
  Some {| vs_stack := {| fr_kind := k; fr_field := f; fr_annots := a; fr_items := [] |} :: vs_stack st;
          vs_top := vs_top st; vs_field := None; vs_annots := [] |}.
Proof. destruct k; reflexivity. Qed.
Lemma vstep_end st k : vstep st (end_call k) = vend st k.
Proof. destruct k; reflexivity. Qed.

Lemma obs_ok_no_fail v : forall b, obs_ok b v = true -> snd (calls_upto v) = false.
Proof.
  induction v as [f a s|f a k0 l0 IH0|] using oval_ind'; intros b H.
  - reflexivity.
  - rewrite calls_upto_cont. cbn [obs_ok] in H. apply andb_prop in H. destruct H as [_ H].
    assert (E : snd (calls_upto_forest l0) = false).
    { induction IH0 as [|y r0 Hy _ IHr0]; [reflexivity|]. cbn [forallb] in H. apply andb_prop in H.
      destruct H as [H1 H2]. cbn [calls_upto_forest]. specialize (Hy _ H1).
      destruct (calls_upto y) as [c1 f1]. cbn [snd] in Hy. subst f1.
      specialize (IHr0 H2). destruct (calls_upto_forest r0) as [c2 f2]. exact IHr0. }
    destruct (calls_upto_forest l0) as [cs fl]. cbn [snd] in E. subst fl. reflexivity.
  - discriminate.
Qed.

Lemma vrun_value v : forall st,
  clean st -> obs_ok (in_struct_st st) v = true ->
  vrun st (fst (calls_upto v)) = Some (add_item st (field_of v) (value_of v)).
Proof.
  induction v as [f a s|f a k l IH|] using oval_ind'; intros st Hc Hok.
  - cbn [obs_ok] in Hok. apply andb_prop in Hok. destruct Hok as [Hf Hs].
    cbn [calls_upto fst]. rewrite vrun_app, (vrun_head st f a Hc Hf). cbn [vrun].
    rewrite (vstep_scalar st s f a Hs). reflexivity.
  - cbn [obs_ok] in Hok. apply andb_prop in Hok. destruct Hok as [Hf Hl].
    fold (is_struct k) in Hl.
    rewrite calls_upto_cont.
    assert (Hlist : forall st1, clean st1 -> in_struct_st st1 = is_struct k ->
              snd (calls_upto_forest l) = false /\
              vrun st1 (fst (calls_upto_forest l)) = Some (push_all st1 l)).
    { clear Hf Hc st. induction IH as [|x r Hx _ IHr]; intros st1 Hc1 Hk1; [split; reflexivity|].
      cbn [forallb] in Hl. apply andb_prop in Hl. destruct Hl as [Hox Hor].
      cbn [calls_upto_forest].
      specialize (Hx st1 Hc1). rewrite Hk1 in Hx. specialize (Hx Hox).
      assert (Fx : snd (calls_upto x) = false) by exact (obs_ok_no_fail x _ Hox).
      destruct (calls_upto x) as [c1 f1]. cbn [snd fst] in *. subst f1.
      destruct (IHr Hor (add_item st1 (field_of x) (value_of x)) (add_item_clean _ _ _)) as [Fr Vr].
      { rewrite add_item_stack_kind. exact Hk1. }
      destruct (calls_upto_forest r) as [c2 f2]. cbn [snd fst] in *. subst f2. split; [reflexivity|].
      rewrite vrun_app, Hx. exact Vr. }
    set (st1 := {| vs_stack := {| fr_kind := k; fr_field := f; fr_annots := a; fr_items := [] |} :: vs_stack st;
                   vs_top := vs_top st; vs_field := None; vs_annots := [] |}).
    destruct (Hlist st1) as [Fl Vl]; [split; reflexivity|unfold in_struct_st, st1; cbn; destruct k; reflexivity|].
    destruct (calls_upto_forest l) as [cs fl]. cbn [snd fst] in *. subst fl. cbn [fst].
    rewrite vrun_app, (vrun_head st f a Hc Hf).
    change (begin_call k :: cs ++ [end_call k]) with ([begin_call k] ++ cs ++ [end_call k]).
    rewrite vrun_app. cbn [vrun]. rewrite vstep_begin. fold st1.
    rewrite vrun_app, Vl. cbn [vrun]. rewrite vstep_end.
    unfold st1. rewrite push_all_items. unfold vend. cbn [vs_stack fr_kind vs_field vs_annots fr_items fr_field fr_annots vs_top].
    rewrite ckind_eqb_refl. cbn [negb]. rewrite app_nil_r, rev_involutive.
    rewrite (container_items k l Hl). cbn [value_of field_of].
    destruct st as [stk top fld ann]. destruct Hc as [Hc1 Hc2]. cbn in Hc1, Hc2. subst fld ann.
    unfold add_item. cbn [vs_stack vs_top]. destruct k; reflexivity.
  - discriminate.
Qed.

Lemma forest_ok_no_fail vs : forest_ok vs = true -> snd (calls_upto_forest vs) = false.
Proof.
  unfold forest_ok. induction vs as [|x r IH]; intro H; [reflexivity|].
  cbn [forallb] in H. apply andb_prop in H. destruct H as [Hx Hr]. cbn [calls_upto_forest].
  assert (Fx : snd (calls_upto x) = false) by exact (obs_ok_no_fail x _ Hx).
  destruct (calls_upto x) as [c1 f1]. cbn [snd] in Fx. subst f1.
  specialize (IH Hr). destruct (calls_upto_forest r) as [c2 f2]. exact IH.
Qed.

Lemma vrun_forest vs : forall st,
  clean st -> in_struct_st st = false -> forest_ok vs = true ->
  vrun st (fst (calls_upto_forest vs)) = Some (push_all st vs).
Proof.
  unfold forest_ok. induction vs as [|x r IH]; intros st Hc Hk H; [reflexivity|].
  cbn [forallb] in H. apply andb_prop in H. destruct H as [Hx Hr]. cbn [calls_upto_forest].
  pose proof (vrun_value x st Hc) as Vx. rewrite Hk in Vx. specialize (Vx Hx).
  pose proof (forest_ok_no_fail [x]) as Fx. unfold forest_ok in Fx. cbn [forallb calls_upto_forest] in Fx.
  rewrite Hx in Fx. specialize (Fx eq_refl).
  destruct (calls_upto x) as [c1 f1]. cbn [fst] in Vx. destruct f1; [discriminate|].
  pose proof (forest_ok_no_fail r Hr) as Fr.
  specialize (IH (add_item st (field_of x) (value_of x)) (add_item_clean _ _ _)).
  rewrite add_item_stack_kind in IH. specialize (IH Hk Hr).
  destruct (calls_upto_forest r) as [c2 f2]. cbn [snd fst] in *. subst f2.
  rewrite vrun_app, Vx. exact IH.
Qed.

Lemma split_last_snoc cs c : split_last (cs ++ [c]) = Some (cs, c).
Proof.
  induction cs as [|x r IH]; [reflexivity|]. cbn [app split_last]. rewrite IH.
  destruct (r ++ [c]) eqn:E; [destruct r; discriminate|reflexivity].
Qed.

Lemma push_all_top : forall l top,
  push_all {| vs_stack := []; vs_top := top; vs_field := None; vs_annots := [] |} l =
  {| vs_stack := []; vs_top := rev (map (fun x => (field_of x, value_of x)) l) ++ top; vs_field := None; vs_annots := [] |}.
Proof.
  induction l as [|x r IH]; intro top; [reflexivity|].
  rewrite push_all_cons. unfold add_item. cbn [vs_stack vs_top].
  rewrite IH. cbn [map rev]. rewrite <- app_assoc. reflexivity.
Qed.

Theorem calls_denote_forest vs :
  forest_ok vs = true ->
  values_of_calls (fst (calls_upto_forest vs) ++ [CFinish]) = Some (map value_of vs).
Proof.
  intro H. unfold values_of_calls. rewrite split_last_snoc.
  rewrite (vrun_forest vs vinit); [|split; reflexivity|reflexivity|exact H].
  unfold vinit. rewrite push_all_top. unfold finished. cbn [vs_stack vs_field vs_annots vs_top].
  rewrite app_nil_r, rev_involutive.
  pose proof (container_items KList vs) as C. cbn [is_struct container_value] in C.
  unfold forest_ok in H. specialize (C H).
  destruct (plain_items (map (fun x => (field_of x, value_of x)) vs)); [|discriminate].
  cbn in C. inversion C. reflexivity.
Qed.

(* ---- the event writer ------------------------------------------------------------------------------------ *)
Definition ew_ok (e : estate) : Prop := es_map e <> None.

Lemma ew_step_total e c : ew_ok e -> exists e', ew_step e c = Ok (e', true) /\ ew_ok e'.
Proof.
  unfold ew_ok. intro H. destruct (es_map e) as [m|] eqn:Em; [|congruence].
  destruct c; cbn [ew_step]; try (eexists; split; [reflexivity|cbn; congruence]).
  all: unfold ew_begin, ew_end, ew_map_set; cbn; rewrite ?Em; cbn; eexists; (split; [reflexivity|cbn; congruence]).
Qed.

Lemma ew_step_total' e c : ew_ok e -> exists e' ok, ew_step e c = Ok (e', ok) /\ ew_ok e'.
Proof. intro H. destruct (ew_step_total e c H) as (e' & E & H'). exists e', true. split; assumption. Qed.

Definition est (d : Z) (m : list (Z * bool)) (out : list event) : estate :=
  {| es_depth := d; es_field := None; es_annots := []; es_map := Some m; es_out := out |}.

Lemma ew_head d m out f a :
  drive ew_step (est d m out) (head_calls f a) =
  Ok ({| es_depth := d; es_field := option_map field_text_of f; es_annots := a; es_map := Some m; es_out := out |}, true).
Proof.
  unfold head_calls, est. destruct f as [t|]; destruct a as [|x r]; reflexivity.
Qed.

Lemma ew_events_value v : forall d m out,
  snd (calls_upto v) = false ->
  exists m', drive ew_step (est d m out) (fst (calls_upto v)) = Ok (est d m' (rev (events_of d v) ++ out), true).
Proof.
  induction v as [f a s|f a k l IH|] using oval_ind'; intros d m out Hf.
  - exists m. cbn [calls_upto fst]. rewrite drive_app, ew_head. cbn [bind drive].
    destruct s as [t|b|[z|z]|b|dd|ll b|t|t|b|b]; reflexivity.
  - rewrite calls_upto_cont in *.
    assert (Hl : forall d1 m1 out1, snd (calls_upto_forest l) = false ->
              exists m', drive ew_step (est d1 m1 out1) (fst (calls_upto_forest l)) =
                         Ok (est d1 m' (rev (flat_map (events_of d1) l) ++ out1), true)).
    { clear Hf. induction IH as [|x r Hx _ IHr]; intros d1 m1 out1 Hf1.
      - exists m1. reflexivity.
      - cbn [calls_upto_forest] in *. specialize (Hx d1 m1 out1).
        destruct (calls_upto x) as [c1 f1]. destruct f1; [discriminate|]. cbn [snd fst] in *.
        destruct (Hx eq_refl) as (m2 & E2).
        specialize (IHr d1 m2 (rev (events_of d1 x) ++ out1)).
        destruct (calls_upto_forest r) as [c2 f2]. cbn [snd fst] in *.
        destruct (IHr Hf1) as (m3 & E3). exists m3.
        rewrite drive_app, E2. cbn [bind]. rewrite E3. cbn [flat_map]. rewrite rev_app_distr, <- app_assoc. reflexivity. }
    destruct (calls_upto_forest l) as [cs fl]. destruct fl; [discriminate|]. cbn [snd fst] in *.
    rewrite drive_app, ew_head. cbn [bind].
    change (begin_call k :: cs ++ [end_call k]) with ([begin_call k] ++ cs ++ [end_call k]).
    rewrite drive_app.
    assert (Eb : exists mb, drive ew_step
               {| es_depth := d; es_field := option_map field_text_of f; es_annots := a; es_map := Some m; es_out := out |}
               [begin_call k] =
             Ok (est (d + 1) mb (mk_event EvContainerStart (ion_of_kind k) f a None d :: out), true)).
    { destruct k; cbn; eexists; reflexivity. }
    destruct Eb as (mb & Eb). rewrite Eb. cbn [bind].
    destruct (Hl (d + 1)%Z mb (mk_event EvContainerStart (ion_of_kind k) f a None d :: out) eq_refl) as (mc & Ec).
    rewrite drive_app, Ec. cbn [bind].
    assert (Ee : exists me, drive ew_step
               (est (d + 1) mc (rev (flat_map (events_of (d + 1)) l) ++ mk_event EvContainerStart (ion_of_kind k) f a None d :: out))
               [end_call k] =
             Ok (est d me (mk_event EvContainerEnd (ion_of_kind k) None [] None d ::
                           rev (flat_map (events_of (d + 1)) l) ++ mk_event EvContainerStart (ion_of_kind k) f a None d :: out), true)).
    { destruct k; cbn; replace (d + 1 - 1)%Z with d by lia; eexists; reflexivity. }
    destruct Ee as (me & Ee). exists me. rewrite Ee.
    cbn [events_of rev]. rewrite rev_app_distr. cbn [rev app]. rewrite <- !app_assoc. reflexivity.
  - discriminate.
Qed.

Lemma ew_events_forest vs : forall m out,
  snd (calls_upto_forest vs) = false ->
  exists m', drive ew_step (est 0 m out) (fst (calls_upto_forest vs)) =
             Ok (est 0 m' (rev (flat_map (events_of 0) vs) ++ out), true).
Proof.
  induction vs as [|x r IH]; intros m out Hf.
  - exists m. reflexivity.
  - cbn [calls_upto_forest] in *. pose proof (ew_events_value x 0%Z m out) as Hx.
    destruct (calls_upto x) as [c1 f1]. destruct f1; [discriminate|]. cbn [snd fst] in *.
    destruct (Hx eq_refl) as (m2 & E2).
    specialize (IH m2 (rev (events_of 0 x) ++ out)).
    destruct (calls_upto_forest r) as [c2 f2]. cbn [snd fst] in *.
    destruct (IH Hf) as (m3 & E3). exists m3.
    rewrite drive_app, E2. cbn [bind]. rewrite E3. cbn [flat_map]. rewrite rev_app_distr, <- app_assoc. reflexivity.
Qed.

Theorem events_fixed_spec vs :
  snd (calls_upto_forest vs) = false -> events_fixed vs = Ok (events_of_forest vs, []).
Proof.
  intro Hf. unfold events_fixed, process_fixed.
  pose proof (sim_flatten_fixed_forest vs 0) as S. unfold sim_spec_l in S.
  destruct (ew_events_forest vs [] [] Hf) as (m' & E).
  destruct (calls_upto_forest vs) as [cs failed]. cbn [snd fst] in *. subst failed.
  assert (D : drive ew_step ew_init_fixed (cs ++ [CFinish]) =
              Ok (est 0 m' (stream_end :: rev (flat_map (events_of 0) vs) ++ []), true)).
  { rewrite drive_app. change ew_init_fixed with (est 0 [] []). rewrite E. reflexivity. }
  rewrite (process_actions_accept estate ew_step (flatten_fixed vs) ew_init_fixed _ cs _ _ S D).
  cbn [bind oc_w oc_reports]. unfold events_of_state, events_of_forest, est. cbn [es_out].
  rewrite app_nil_r. cbn [rev]. rewrite rev_involutive. reflexivity.
Qed.

Theorem events_fixed_no_panic vs : exists r, events_fixed vs = Ok r.
Proof.
  unfold events_fixed.
  destruct (process_fixed_no_panic estate ew_step ew_ok ew_step_total' ew_init_fixed vs) as (o & E).
  { unfold ew_ok. discriminate. }
  rewrite E. eexists. reflexivity.
Qed.

(* count *)
Lemma events_count_v v : forall d, length (events_of d v) = count_events v.
Proof.
  induction v as [f a s|f a k l IH|] using oval_ind'; intro d; [reflexivity| |reflexivity].
  cbn [events_of count_events length]. rewrite app_length. cbn [length].
  assert (E : forall d1, length (flat_map (events_of d1) l) = fold_right (fun x n => (count_events x + n)%nat) O l).
  { induction IH as [|x r Hx _ IHr]; intro d1; [reflexivity|]. cbn [flat_map fold_right]. rewrite app_length, Hx, IHr. reflexivity. }
  rewrite E. lia.
Qed.
Theorem events_count vs : length (events_of_forest vs) = count_forest vs.
Proof.
  unfold events_of_forest, count_forest. rewrite app_length. cbn [length].
  assert (E : length (flat_map (events_of 0) vs) = fold_right (fun x n => (count_events x + n)%nat) O vs).
  { induction vs as [|x r IH]; [reflexivity|]. cbn [flat_map fold_right]. rewrite app_length, events_count_v, IH. reflexivity. }
  rewrite E. lia.
Qed.

(* well-formedness of each event *)
Lemma ion_of_scalar_call s : ion_of_call (scalar_call s) = ion_of_scalar s.
Proof. destruct s as [t|b|[z|z]|b|d|l b|t|t|b|b]; reflexivity. Qed.
Lemma ion_of_scalar_range s : scalar_ok s = true -> (1 <=? ion_of_scalar s) && (ion_of_scalar s <=? 13) = true.
Proof. destruct s; cbn; try reflexivity. intro H; exact H. Qed.

Lemma events_wf_v v : forall b d, (0 <= d)%Z -> obs_ok b v = true -> Forall (fun e => event_wf e = true) (events_of d v).
Proof.
  induction v as [f a s|f a k l IH|] using oval_ind'; intros b d Hd Hok.
  - cbn [obs_ok] in Hok. apply andb_prop in Hok. destruct Hok as [_ Hs].
    constructor; [|constructor]. unfold event_wf, mk_event. cbn [ev_binary ev_depth ev_type ev_ion ev_value list_is_nil].
    change (EvScalar =? EvScalar) with true. cbn iota.
    rewrite (ion_of_scalar_range s Hs), ion_of_scalar_call, N.eqb_refl, (value_of_scalar_call s Hs).
    cbn [opt_is_some andb]. rewrite andb_true_r. apply Z.leb_le. exact Hd.
  - cbn [obs_ok] in Hok. apply andb_prop in Hok. destruct Hok as [_ Hl].
    cbn [events_of]. constructor.
    + unfold event_wf, mk_event. cbn. replace (0 <=? d)%Z with true by (symmetry; apply Z.leb_le; exact Hd).
      destruct k; reflexivity.
    + apply Forall_app. split.
      * clear - IH Hl Hd. induction IH as [|x r Hx _ IHr]; [constructor|].
        cbn [forallb] in Hl. apply andb_prop in Hl. destruct Hl as [H1 H2]. cbn [flat_map].
        apply Forall_app. split; [eapply Hx; [lia|exact H1]|exact (IHr H2)].
      * constructor; [|constructor]. unfold event_wf, mk_event. cbn.
        replace (0 <=? d)%Z with true by (symmetry; apply Z.leb_le; exact Hd). destruct k; reflexivity.
  - discriminate.
Qed.

Theorem events_wf vs : forest_ok vs = true -> Forall (fun e => event_wf e = true) (events_of_forest vs).
Proof.
  unfold forest_ok, events_of_forest. intro H. apply Forall_app. split.
  - induction vs as [|x r IH]; [constructor|]. cbn [forallb] in H. apply andb_prop in H. destruct H as [H1 H2].
    cbn [flat_map]. apply Forall_app. split; [eapply events_wf_v; [lia|exact H1]|exact (IH H2)].
  - constructor; [reflexivity|constructor].
Qed.

(* bracketing *)
Lemma field_some_ok b f : field_ok b f = true -> opt_is_some (option_map field_text_of f) = b.
Proof. destruct f, b; cbn; intro H; try reflexivity; discriminate. Qed.

Lemma bracketed_scalar ion f a v d r stack :
  bracketed (mk_event EvScalar ion f a v d :: r) stack =
  (d =? Z.of_nat (length stack))%Z && Bool.eqb (opt_is_some (option_map field_text_of f)) (top_is_struct stack) &&
  bracketed r stack.
Proof. reflexivity. Qed.
Lemma bracketed_start ion f a v d r stack :
  bracketed (mk_event EvContainerStart ion f a v d :: r) stack =
  (d =? Z.of_nat (length stack))%Z && Bool.eqb (opt_is_some (option_map field_text_of f)) (top_is_struct stack) &&
  bracketed r (ion :: stack).
Proof. reflexivity. Qed.
Lemma bracketed_end ion f a v d r t s' :
  bracketed (mk_event EvContainerEnd ion f a v d :: r) (t :: s') =
  (t =? ion) && (d =? Z.of_nat (length s'))%Z && bracketed r s'.
Proof. reflexivity. Qed.

Lemma bracketed_v v : forall stack rest,
  obs_ok (top_is_struct stack) v = true ->
  bracketed (events_of (Z.of_nat (length stack)) v ++ rest) stack = bracketed rest stack.
Proof.
  induction v as [f a s|f a k l IH|] using oval_ind'; intros stack rest Hok.
  - cbn [obs_ok] in Hok. apply andb_prop in Hok. destruct Hok as [Hf _].
    cbn [events_of app]. rewrite bracketed_scalar, Z.eqb_refl, (field_some_ok _ _ Hf), eqb_reflx. reflexivity.
  - cbn [obs_ok] in Hok. apply andb_prop in Hok. destruct Hok as [Hf Hl].
    cbn [events_of app]. rewrite bracketed_start, Z.eqb_refl, (field_some_ok _ _ Hf), eqb_reflx.
    cbn [andb]. rewrite <- app_assoc.
    assert (Hin : forall rest1, bracketed (flat_map (events_of (Z.of_nat (length stack) + 1)) l ++ rest1) (ion_of_kind k :: stack)
                               = bracketed rest1 (ion_of_kind k :: stack)).
    { assert (Ek : top_is_struct (ion_of_kind k :: stack) = match k with KStruct => true | _ => false end)
        by (destruct k; reflexivity).
      rewrite <- Ek in Hl.
      replace (Z.of_nat (length stack) + 1)%Z with (Z.of_nat (length (ion_of_kind k :: stack))) by (cbn [length]; lia).
      clear - IH Hl. induction IH as [|x r Hx _ IHr]; intro rest1; [reflexivity|].
      cbn [forallb] in Hl. apply andb_prop in Hl. destruct Hl as [H1 H2]. cbn [flat_map]. rewrite <- app_assoc.
      rewrite (Hx _ _ H1). apply IHr. exact H2. }
    rewrite Hin. cbn [app]. rewrite bracketed_end, N.eqb_refl, Z.eqb_refl. reflexivity.
  - discriminate.
Qed.

Theorem events_bracketed vs : forest_ok vs = true -> bracketed (events_of_forest vs) [] = true.
Proof.
  unfold forest_ok, events_of_forest. intro H.
  assert (E : forall rest, bracketed (flat_map (events_of 0) vs ++ rest) [] = bracketed rest []).
  { induction vs as [|x r IH]; intro rest; [reflexivity|]. cbn [forallb] in H. apply andb_prop in H. destruct H as [H1 H2].
    cbn [flat_map]. rewrite <- app_assoc. rewrite (bracketed_v x [] _ H1). apply IH. exact H2. }
  rewrite E. reflexivity.
Qed.

(* ---- the pinned transcription: where it does not panic ----------------------------------------------------- *)
(* the typed nulls whose case dereferences nil or panics outright *)
Definition null_panics (t : N) : bool :=
  negb ((t =? TNull) || (t =? TDecimal) || (t =? TSymbol) || (t =? TString) || (t =? TClob) || (t =? TBlob) ||
        (t =? TList) || (t =? TSexp) || (t =? TStruct)).
Fixpoint panic_free (v : oval) : bool :=
  match v with
  | OScalar _ _ (SNull t) => negb (null_panics t)
  | OScalar _ _ _ => true
  | OCont _ _ _ l => forallb panic_free l
  | OFail => true
  end.
Fixpoint struct_free (v : oval) : bool :=
  match v with
  | OScalar _ _ _ => true
  | OCont _ _ k l => negb (is_struct k) && forallb struct_free l
  | OFail => true
  end.

Lemma flatten_pinned_no_panic_v v : panic_free v = true -> ~ In APanic (flatten scalar_actions_pinned v).
Proof.
  induction v as [f a s|f a k l IH|] using oval_ind'; cbn [flatten]; intros Hp H.
  - apply in_app_or in H. destruct H as [H|H]; [exact (no_panic_head _ _ H)|].
    destruct s as [t|b|[z|z]|b|d|ll b|t|t|b|b]; cbn [scalar_actions_pinned] in H;
      try (destruct H as [H|[]]; discriminate).
    cbn [panic_free] in Hp. unfold null_panics in Hp. rewrite negb_involutive in Hp.
    unfold null_actions_pinned in H.
    destruct (t =? TNull); [destruct H as [H|[]]; discriminate|].
    destruct (t =? TBool) eqn:E2; [apply N.eqb_eq in E2; subst t; discriminate|].
    destruct (t =? TInt) eqn:E3; [apply N.eqb_eq in E3; subst t; discriminate|].
    destruct (t =? TFloat) eqn:E4; [apply N.eqb_eq in E4; subst t; discriminate|].
    destruct (t =? TDecimal); [destruct H as [H|[]]; discriminate|].
    destruct (t =? TTimestamp) eqn:E6; [apply N.eqb_eq in E6; subst t; discriminate|].
    destruct (t =? TSymbol); [destruct H|].
    destruct (t =? TString); [destruct H|].
    destruct (t =? TClob); [destruct H as [H|[]]; discriminate|].
    destruct (t =? TBlob); [destruct H as [H|[]]; discriminate|].
    cbn [orb] in Hp. rewrite Hp in H. destruct H as [H|[]]; discriminate.
  - cbn [panic_free] in Hp.
    apply in_app_or in H. destruct H as [H|H]; [exact (no_panic_head _ _ H)|].
    cbn [app] in H. destruct H as [H|H]; [discriminate|].
    apply in_app_or in H. destruct H as [H|H].
    + apply in_flat_map in H. destruct H as (x & Hx & Hpx). rewrite Forall_forall in IH.
      rewrite forallb_forall in Hp. exact (IH x Hx (Hp x Hx) Hpx).
    + destruct H as [H|[H|[]]]; discriminate.
  - destruct H as [H|[]]. discriminate.
Qed.

Theorem process_pinned_no_panic (W : Type) (wstep : W -> wcall -> res (W * bool)) (Inv : W -> Prop) :
  (forall w c, Inv w -> exists w' ok, wstep w c = Ok (w', ok) /\ Inv w') ->
  forall w vs, Inv w -> forallb panic_free vs = true -> exists o, process_pinned wstep w vs = Ok o.
Proof.
  intros Ht w vs Hw Hp.
  assert (Hn : ~ In APanic (flatten_pinned vs)).
  { unfold flatten_pinned, flatten_forest. intro H. apply in_flat_map in H. destruct H as (x & Hx & Hpx).
    rewrite forallb_forall in Hp. exact (flatten_pinned_no_panic_v x (Hp x Hx) Hpx). }
  destruct (process_actions_total W wstep Inv Ht (flatten_pinned vs) w Hw Hn) as (o & E & _).
  exists o. exact E.
Qed.

(* the pinned event writer (nil map) survives exactly as long as no struct begins *)
Definition ew_flat (e : estate) : Prop := True.
Lemma ew_step_nostruct e c :
  c <> CBeginStruct -> c <> CEndStruct -> exists e', ew_step e c = Ok (e', true).
Proof.
  intros H1 H2. destruct c; cbn [ew_step]; try (eexists; reflexivity); try congruence.
  all: unfold ew_begin, ew_end; cbn; eexists; reflexivity.
Qed.

Fixpoint no_struct_calls (acts : list action) : Prop :=
  match acts with
  | [] => True
  | ACall c :: r | ACallIgn c :: r => c <> CBeginStruct /\ c <> CEndStruct /\ no_struct_calls r
  | _ :: r => no_struct_calls r
  end.

Lemma no_struct_calls_app a b : no_struct_calls a -> no_struct_calls b -> no_struct_calls (a ++ b).
Proof.
  induction a as [|x r IH]; intros Ha Hb; [exact Hb|].
  destruct x; cbn [app no_struct_calls] in *; try (apply IH; assumption);
    destruct Ha as (H1 & H2 & H3); repeat split; try assumption; apply IH; assumption.
Qed.

Lemma no_struct_head f a : no_struct_calls (head_actions f a).
Proof.
  unfold head_actions, head_calls. destruct f, a; cbn; repeat split; discriminate.
Qed.

Lemma no_struct_flatten_pinned v : struct_free v = true -> no_struct_calls (flatten scalar_actions_pinned v).
Proof.
  induction v as [f a s|f a k l IH|] using oval_ind'; cbn [flatten]; intro Hs.
  - apply no_struct_calls_app; [apply no_struct_head|].
    destruct s as [t|b|[z|z]|b|d|ll b|t|t|b|b]; cbn; repeat split; try discriminate.
    unfold null_actions_pinned.
    repeat match goal with |- context [if ?c then _ else _] => destruct c end; cbn; repeat split; discriminate.
  - cbn [struct_free] in Hs. apply andb_prop in Hs. destruct Hs as [Hk Hl].
    apply no_struct_calls_app; [apply no_struct_head|].
    cbn [app no_struct_calls]. repeat split; try (destruct k; cbn in *; discriminate).
    apply no_struct_calls_app.
    + clear - IH Hl. induction IH as [|x r Hx _ IHr]; [exact I|]. cbn [forallb] in Hl. apply andb_prop in Hl.
      destruct Hl as [H1 H2]. cbn [flat_map]. apply no_struct_calls_app; [exact (Hx H1)|exact (IHr H2)].
    + cbn. repeat split; destruct k; cbn in *; discriminate.
  - cbn. exact I.
Qed.

Lemma run_actions_ew_nostruct acts : forall e idx calls,
  no_struct_calls acts -> ~ In APanic acts ->
  exists r, run_actions ew_step acts e idx calls = Ok r.
Proof.
  induction acts as [|x r IH]; intros e idx calls Hs Hn.
  - eexists. reflexivity.
  - assert (Hr : ~ In APanic r) by (intro; apply Hn; right; assumption).
    destruct x; cbn [run_actions no_struct_calls] in *.
    + apply IH; assumption.
    + destruct Hs as (H1 & H2 & H3). destruct (ew_step_nostruct e c H1 H2) as (e' & E). rewrite E. cbn [bind].
      apply IH; assumption.
    + destruct Hs as (H1 & H2 & H3). destruct (ew_step_nostruct e c H1 H2) as (e' & E). rewrite E. cbn [bind].
      apply IH; assumption.
    + exfalso. apply Hn. left. reflexivity.
    + eexists. reflexivity.
Qed.

Theorem events_pinned_no_panic vs :
  forallb panic_free vs = true -> forallb struct_free vs = true -> exists r, events_pinned vs = Ok r.
Proof.
  intros Hp Hs. unfold events_pinned, process_pinned, process_actions.
  assert (Hn : ~ In APanic (flatten_pinned vs)).
  { unfold flatten_pinned, flatten_forest. intro H. apply in_flat_map in H. destruct H as (x & Hx & Hpx).
    rewrite forallb_forall in Hp. exact (flatten_pinned_no_panic_v x (Hp x Hx) Hpx). }
  assert (Hc : no_struct_calls (flatten_pinned vs)).
  { unfold flatten_pinned, flatten_forest. clear Hn Hp. induction vs as [|x r IH]; [exact I|].
    cbn [forallb] in Hs. apply andb_prop in Hs. destruct Hs as [H1 H2]. cbn [flat_map].
    apply no_struct_calls_app; [exact (no_struct_flatten_pinned x H1)|exact (IH H2)]. }
  destruct (run_actions_ew_nostruct (flatten_pinned vs) ew_init_pinned 0 [] Hc Hn) as ([[[w1 i] cs] rep] & E).
  rewrite E. cbn [bind]. eexists. reflexivity.
Qed.

(* ---- the statements of Props/C20.v ---------------------------------------------------------------------- *)
Theorem transcode_nop vs : forest_ok vs = true ->
  exists o, process_fixed nop_step tt vs = Ok o /\ oc_reports o = [] /\
            values_of_calls (oc_calls o) = Some (map value_of vs).
Proof.
  intro H. eexists. split; [apply process_fixed_nop|].
  cbn [oc_reports oc_calls]. rewrite (forest_ok_no_fail vs H). split; [reflexivity|].
  exact (calls_denote_forest vs H).
Qed.

Theorem transcode_any_writer (W : Type) (wstep : W -> wcall -> res (W * bool)) (w w2 : W) vs :
  forest_ok vs = true ->
  drive wstep w (fst (calls_upto_forest vs) ++ [CFinish]) = Ok (w2, true) ->
  process_fixed wstep w vs =
    Ok {| oc_w := w2; oc_calls := fst (calls_upto_forest vs) ++ [CFinish]; oc_reports := [] |} /\
  values_of_calls (fst (calls_upto_forest vs) ++ [CFinish]) = Some (map value_of vs).
Proof.
  intros H D. split; [|exact (calls_denote_forest vs H)].
  pose proof (sim_flatten_fixed_forest vs 0) as S. unfold sim_spec_l in S.
  pose proof (forest_ok_no_fail vs H) as F.
  destruct (calls_upto_forest vs) as [cs failed]. cbn [fst snd] in *. subst failed.
  exact (process_actions_accept W wstep (flatten_fixed vs) w _ cs _ w2 S D).
Qed.

Theorem events_fixed_valid vs : forest_ok vs = true -> events_fixed vs = Ok (events_of_forest vs, []).
Proof. intro H. exact (events_fixed_spec vs (forest_ok_no_fail vs H)). Qed.

Theorem events_wf_bracketed vs : forest_ok vs = true ->
  Forall (fun e => event_wf e = true) (events_of_forest vs) /\ bracketed (events_of_forest vs) [] = true.
Proof. intro H. split; [exact (events_wf vs H)|exact (events_bracketed vs H)]. Qed.

Theorem pinned_no_panic_except_known :
  (forall (W : Type) (wstep : W -> wcall -> res (W * bool)) (Inv : W -> Prop),
     (forall w c, Inv w -> exists w' ok, wstep w c = Ok (w', ok) /\ Inv w') ->
     forall w vs, Inv w -> forallb panic_free vs = true -> exists o, process_pinned wstep w vs = Ok o) /\
  (forall vs, forallb panic_free vs = true -> forallb struct_free vs = true -> exists r, events_pinned vs = Ok r).
Proof. split; [exact process_pinned_no_panic|exact events_pinned_no_panic]. Qed.

(* ---- fix_cli_sids: tokens handed over by text ---------------------------------------------------------- *)
Lemma symv_text_only t : symv_of_tok (text_only t) = symv_of_tok t.
Proof. unfold text_only, symv_of_tok. destruct (tk_text t) eqn:E; [reflexivity|]. rewrite E. reflexivity. Qed.
Lemma tok_normal_text_only t : tok_normal (text_only t) = true.
Proof. unfold text_only, tok_normal. destruct (tk_text t) eqn:E; [reflexivity|]. rewrite E. reflexivity. Qed.

Lemma wrap_ann_norm a v : wrap_ann (map text_only a) v = wrap_ann a v.
Proof.
  destruct a as [|x r]; [reflexivity|]. cbn [map wrap_ann]. f_equal. cbn [map]. rewrite symv_text_only. f_equal.
  rewrite map_map. apply map_ext. intro t. apply symv_text_only.
Qed.

Lemma field_of_norm v : field_of (norm_oval v) = option_map text_only (field_of v).
Proof. destruct v; reflexivity. Qed.
Lemma field_sym_norm f : field_sym (option_map text_only f) = field_sym f.
Proof. destruct f; [apply symv_text_only|reflexivity]. Qed.

Lemma value_of_norm v : value_of (norm_oval v) = value_of v.
Proof.
  induction v as [f a s|f a k l IH|] using oval_ind'; [| |reflexivity].
  - cbn [norm_oval value_of]. rewrite wrap_ann_norm. f_equal.
    destruct s; cbn [norm_scalar value_of_scalar]; try reflexivity. rewrite symv_text_only. reflexivity.
  - cbn [norm_oval value_of]. rewrite wrap_ann_norm. f_equal.
    assert (E1 : map value_of (map norm_oval l) = map value_of l).
    { rewrite map_map. induction IH as [|x r Hx _ IHr]; [reflexivity|]. cbn [map]. rewrite Hx, IHr. reflexivity. }
    assert (E2 : map (fun x => (field_sym (field_of x), value_of x)) (map norm_oval l) =
                 map (fun x => (field_sym (field_of x), value_of x)) l).
    { clear E1. rewrite map_map. induction IH as [|x r Hx _ IHr]; [reflexivity|]. cbn [map].
      rewrite Hx, IHr, field_of_norm, field_sym_norm. reflexivity. }
    destruct k; rewrite ?E1, ?E2; reflexivity.
Qed.

Lemma obs_ok_norm v : forall b, obs_ok b (norm_oval v) = obs_ok b v.
Proof.
  induction v as [f a s|f a k l IH|] using oval_ind'; intro b; [| |reflexivity].
  - cbn [norm_oval obs_ok]. f_equal; [destruct f; reflexivity|destruct s; reflexivity].
  - cbn [norm_oval obs_ok]. f_equal; [destruct f; reflexivity|].
    induction IH as [|x r Hx _ IHr]; [reflexivity|]. cbn [map forallb]. rewrite Hx, IHr. reflexivity.
Qed.

Lemma forest_ok_norm vs : forest_ok (map norm_oval vs) = forest_ok vs.
Proof.
  unfold forest_ok. induction vs as [|x r IH]; [reflexivity|]. cbn [map forallb]. rewrite obs_ok_norm, IH. reflexivity.
Qed.

Lemma head_calls_normal f a : Forall (fun c => call_normal c = true) (head_calls (option_map text_only f) (map text_only a)).
Proof.
  unfold head_calls. apply Forall_app. split.
  - destruct f; [|constructor]. constructor; [apply tok_normal_text_only|constructor].
  - destruct a as [|x r]; [constructor|]. constructor; [|constructor]. cbn [call_normal].
    apply forallb_forall. intros t Ht. apply in_map_iff in Ht. destruct Ht as (t0 & <- & _). apply tok_normal_text_only.
Qed.

Lemma calls_normal_v v : Forall (fun c => call_normal c = true) (fst (calls_upto (norm_oval v))).
Proof.
  induction v as [f a s|f a k l IH|] using oval_ind'; [| |constructor].
  - cbn [norm_oval calls_upto fst]. apply Forall_app. split; [apply head_calls_normal|].
    constructor; [|constructor]. destruct s as [t|b|[z|z]|b|d|ll b|t|t|b|b]; cbn; try reflexivity. apply tok_normal_text_only.
  - cbn [norm_oval]. rewrite calls_upto_cont.
    assert (E : Forall (fun c => call_normal c = true) (fst (calls_upto_forest (map norm_oval l)))).
    { induction IH as [|x r Hx _ IHr]; [constructor|]. cbn [map calls_upto_forest].
      destruct (calls_upto (norm_oval x)) as [c1 f1]. cbn [fst] in Hx. destruct f1; [exact Hx|].
      destruct (calls_upto_forest (map norm_oval r)) as [c2 f2]. cbn [fst] in *. apply Forall_app. split; assumption. }
    destruct (calls_upto_forest (map norm_oval l)) as [cs fl]. cbn [fst] in E.
    destruct fl; cbn [fst]; apply Forall_app; (split; [apply head_calls_normal|]); constructor;
      try (destruct k; reflexivity); try exact E.
    apply Forall_app. split; [exact E|]. constructor; [destruct k; reflexivity|constructor].
Qed.

Theorem calls_normal_forest vs :
  Forall (fun c => call_normal c = true) (fst (calls_upto_forest (map norm_oval vs)) ++ [CFinish]).
Proof.
  apply Forall_app. split; [|constructor; [reflexivity|constructor]].
  induction vs as [|x r IH]; [constructor|]. cbn [map calls_upto_forest].
  pose proof (calls_normal_v x) as Hx.
  destruct (calls_upto (norm_oval x)) as [c1 f1]. cbn [fst] in Hx. destruct f1; [exact Hx|].
  destruct (calls_upto_forest (map norm_oval r)) as [c2 f2]. cbn [fst] in *. apply Forall_app. split; assumption.
Qed.

Theorem transcode_sids vs : forest_ok vs = true ->
  exists o, process_fixed_sids nop_step tt vs = Ok o /\ oc_reports o = [] /\
            values_of_calls (oc_calls o) = Some (map value_of vs) /\
            Forall (fun c => call_normal c = true) (oc_calls o).
Proof.
  intro H. unfold process_fixed_sids. eexists. split; [apply process_fixed_nop|].
  cbn [oc_reports oc_calls]. rewrite <- forest_ok_norm in H. rewrite (forest_ok_no_fail _ H).
  split; [reflexivity|]. split; [|apply calls_normal_forest].
  rewrite (calls_denote_forest _ H), map_map. f_equal. apply map_ext. intro v. apply value_of_norm.
Qed.

Theorem process_fixed_sids_no_panic (W : Type) (wstep : W -> wcall -> res (W * bool)) (Inv : W -> Prop) :
  (forall w c, Inv w -> exists w' ok, wstep w c = Ok (w', ok) /\ Inv w') ->
  forall w vs, Inv w -> exists o, process_fixed_sids wstep w vs = Ok o.
Proof. intros Ht w vs Hw. exact (process_fixed_no_panic W wstep Inv Ht w (map norm_oval vs) Hw). Qed.
