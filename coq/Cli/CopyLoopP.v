(* CopyLoopP.v — lemmas for the end-to-end statements of C05 (Props/C05e2e.v). *)
From Coq Require Import String List NArith ZArith Bool Lia ZifyBool ZifyN ZifyNat.
From IonV Require Import Base.Wire Base.Utf8 Bin.Bits Data.Ion Num.Float Bin.BitStream Bin.BinReader Bin.BinWriter Bin.BinWriterP
  Bin.SpecBin Bin.RoundTripBin Bin.RoundTripBinS Bin.RoundTripBinP Bin.SpecLim Bin.SpecAgreeP Bin.SpecAgreeStreamP
  Cli.Process Cli.ProcessP Cli.CopyLoop.
Import ListNotations.
Open Scope N_scope.

(* ================================================================================================== *)
(* 1. the binary Writer model resolves tokens by text: a simulation up to the symbol IDs of known-text   *)
(*    tokens (pending field name / annotations included)                                                 *)
(* ================================================================================================== *)
Definition Weq (w1 w2 : wstate) : Prop := wnorm w1 = wnorm w2.

Lemma Weq_inv w1 w2 : Weq w1 w2 ->
  w_out w1 = w_out w2 /\ w_ctx w1 = w_ctx w2 /\ w_err w1 = w_err w2 /\ w_bufs w1 = w_bufs w2 /\
  w_lst w1 = w_lst w2 /\ w_lstb w1 = w_lstb w2 /\ w_wrote_lst w1 = w_wrote_lst w2 /\
  option_map text_only (w_field w1) = option_map text_only (w_field w2) /\
  map text_only (w_annots w1) = map text_only (w_annots w2).
Proof.
  destruct w1, w2. unfold Weq, wnorm, set_pending. cbn [BinWriter.w_out BinWriter.w_ctx BinWriter.w_err BinWriter.w_field BinWriter.w_annots BinWriter.w_bufs BinWriter.w_lst BinWriter.w_lstb BinWriter.w_wrote_lst].
  intros H. injection H. intros. repeat split; assumption.
Qed.
Lemma Weq_intro w1 w2 :
  w_out w1 = w_out w2 -> w_ctx w1 = w_ctx w2 -> w_err w1 = w_err w2 -> w_bufs w1 = w_bufs w2 ->
  w_lst w1 = w_lst w2 -> w_lstb w1 = w_lstb w2 -> w_wrote_lst w1 = w_wrote_lst w2 ->
  option_map text_only (w_field w1) = option_map text_only (w_field w2) ->
  map text_only (w_annots w1) = map text_only (w_annots w2) -> Weq w1 w2.
Proof.
  destruct w1, w2. unfold Weq, wnorm, set_pending. cbn [BinWriter.w_out BinWriter.w_ctx BinWriter.w_err BinWriter.w_field BinWriter.w_annots BinWriter.w_bufs BinWriter.w_lst BinWriter.w_lstb BinWriter.w_wrote_lst].
  intros. subst. f_equal; assumption.
Qed.
Lemma Weq_refl w : Weq w w.
Proof. reflexivity. Qed.

Ltac weq_inv H := destruct (Weq_inv _ _ H) as (?Ho & ?Hc & ?He & ?Hb & ?Hl & ?Hlb & ?Hwl & ?Hf & ?Ha).
Ltac weq_setter := intros H; weq_inv H; apply Weq_intro;
  cbn [set_err set_out set_ctx set_pending set_bufs set_lstb set_wrote clear
       BinWriter.w_out BinWriter.w_ctx BinWriter.w_err BinWriter.w_field BinWriter.w_annots BinWriter.w_bufs BinWriter.w_lst BinWriter.w_lstb BinWriter.w_wrote_lst]; try assumption; try reflexivity.

Lemma Weq_set_err w1 w2 e : Weq w1 w2 -> Weq (set_err w1 e) (set_err w2 e).
Proof. weq_setter. Qed.
Lemma Weq_set_out w1 w2 k : Weq w1 w2 -> Weq (set_out w1 k) (set_out w2 k).
Proof. weq_setter. Qed.
Lemma Weq_set_bufs w1 w2 b : Weq w1 w2 -> Weq (set_bufs w1 b) (set_bufs w2 b).
Proof. weq_setter. Qed.
Lemma Weq_set_lstb w1 w2 l : Weq w1 w2 -> Weq (set_lstb w1 l) (set_lstb w2 l).
Proof. weq_setter. Qed.
Lemma Weq_clear w1 w2 : Weq w1 w2 -> clear w1 = clear w2.
Proof.
  intros H. weq_inv H. destruct w1, w2. unfold clear, set_pending.
  cbn [BinWriter.w_out BinWriter.w_ctx BinWriter.w_err BinWriter.w_field BinWriter.w_annots BinWriter.w_bufs BinWriter.w_lst BinWriter.w_lstb BinWriter.w_wrote_lst] in *. subst. reflexivity.
Qed.

Lemma text_only_idem t : text_only (text_only t) = text_only t.
Proof. unfold text_only. destruct (tk_text t) eqn:E; [reflexivity|]. rewrite E. reflexivity. Qed.

(* related results of a step *)
Definition simrel (r1 r2 : res ret) : Prop :=
  match r1, r2 with
  | Ok (a, ok1), Ok (b, ok2) => ok1 = ok2 /\ Weq a b
  | Err, Err | Panic, Panic | OutOfFuel, OutOfFuel => True
  | _, _ => False
  end.
Lemma simrel_refl r : simrel r r.
Proof. destruct r as [[a ok]| | |]; cbn; auto using Weq_refl. Qed.
Lemma simrel_eq r1 r2 : r1 = r2 -> simrel r1 r2.
Proof. intros ->. apply simrel_refl. Qed.

(* beginValue reads the pending tokens only through the by-text resolution *)
Lemma id_field_text_only w t : id_of_tok_field w (text_only t) = id_of_tok_field w t.
Proof.
  unfold text_only. destruct (tk_text t) eqn:E; [|reflexivity]. symmetry. apply field_by_text. exact E.
Qed.
Lemma id_annot_text_only w t : id_of_tok_annot w (text_only t) = id_of_tok_annot w t.
Proof.
  unfold text_only. destruct (tk_text t) eqn:E; [|reflexivity]. symmetry. apply annot_by_text. exact E.
Qed.
Lemma annot_ids_text_only ts : forall w, annot_ids w (map text_only ts) = annot_ids w ts.
Proof.
  induction ts as [|t r IH]; intros w; [reflexivity|]. cbn [map annot_ids]. rewrite id_annot_text_only.
  destruct (id_of_tok_annot w t) as [[w' id]|]; [|reflexivity]. rewrite IH. reflexivity.
Qed.

Definition bv_body (run : wstate -> list wcall -> res ret) (w : wstate) (name : option tok) (annots : list tok) : res ret :=
  do '(w, ok) <- (match w_lst w with
                  | Some locals =>
                    if negb (w_wrote_lst w) then write_lst run (set_wrote w true) locals else Ok (w, true)
                  | None => Ok (w, true)
                  end);
  if negb ok then Ok (w, false) else
  do '(w, ok) <- (if in_struct w then
                    match name with
                    | None => Ok (w, false)
                    | Some nm =>
                      match id_of_tok_field w nm with
                      | None => Ok (w, false)
                      | Some (w', id) => Ok (write w' (append_varuint [] id))
                      end
                    end
                  else Ok (w, true));
  if negb ok then Ok (w, false) else
  match annots with
  | [] => Ok (w, true)
  | _ =>
    match annot_ids w annots with
    | (w', None) => Ok (w', false)
    | (w', Some ids) =>
      let idlen := fold_left (fun a id => a + varuint_len id) ids 0 in
      let buf := fold_left (fun b id => append_varuint b id) ids (append_varuint [] idlen) in
      Ok (write (set_bufs w' (new_seq (Some 224) :: w_bufs w')) buf)
    end
  end.
Lemma begin_value_body run w : begin_value run w = bv_body run (clear w) (w_field w) (w_annots w).
Proof. reflexivity. Qed.
Lemma bv_body_text_only run w name annots :
  bv_body run w (option_map text_only name) (map text_only annots) = bv_body run w name annots.
Proof.
  unfold bv_body.
  destruct (match w_lst w with Some locals => if negb (w_wrote_lst w) then write_lst run (set_wrote w true) locals else Ok (w, true)
            | None => Ok (w, true) end) as [[w1 ok1]| | |]; cbn [bind]; try reflexivity.
  destruct (negb ok1); [reflexivity|].
  assert (E : (if in_struct w1 then match option_map text_only name with
                 | None => Ok (w1, false)
                 | Some nm => match id_of_tok_field w1 nm with None => Ok (w1, false)
                              | Some (w', id) => Ok (write w' (append_varuint [] id)) end end else Ok (w1, true)) =
              (if in_struct w1 then match name with
                 | None => Ok (w1, false)
                 | Some nm => match id_of_tok_field w1 nm with None => Ok (w1, false)
                              | Some (w', id) => Ok (write w' (append_varuint [] id)) end end else @Ok ret (w1, true))).
  { destruct (in_struct w1); [|reflexivity]. destruct name as [nm|]; [|reflexivity]. cbn [option_map].
    rewrite id_field_text_only. reflexivity. }
  rewrite E. clear E.
  destruct (if in_struct w1 then _ else _) as [[w2 ok2]| | |]; cbn [bind]; try reflexivity.
  destruct (negb ok2); [reflexivity|].
  destruct annots as [|t r]; [reflexivity|]. cbn [map].
  change (text_only t :: map text_only r) with (map text_only (t :: r)). rewrite annot_ids_text_only. reflexivity.
Qed.
Lemma begin_value_Weq run w1 w2 : Weq w1 w2 -> begin_value run w1 = begin_value run w2.
Proof.
  intros H. rewrite !begin_value_body. rewrite (Weq_clear _ _ H). weq_inv H.
  rewrite <- (bv_body_text_only run (clear w2) (w_field w1)), <- (bv_body_text_only run (clear w2) (w_field w2)).
  rewrite Hf, Ha. reflexivity.
Qed.

Lemma write_value_sim run w1 w2 val : Weq w1 w2 -> simrel (write_value run w1 val) (write_value run w2 val).
Proof.
  intros H. unfold write_value. weq_inv H. rewrite He. destruct (w_err w2) eqn:Ee; [cbn; auto|].
  rewrite (begin_value_Weq run _ _ H). apply simrel_refl.
Qed.
Lemma write_value_chunks_sim run w1 w2 val : Weq w1 w2 ->
  simrel (write_value_chunks run w1 val) (write_value_chunks run w2 val).
Proof.
  intros H. unfold write_value_chunks. weq_inv H. rewrite He. destruct (w_err w2) eqn:Ee; [cbn; auto|].
  rewrite (begin_value_Weq run _ _ H). apply simrel_refl.
Qed.
Lemma begin_container_sim run w1 w2 t code : Weq w1 w2 ->
  simrel (begin_container run w1 t code) (begin_container run w2 t code).
Proof.
  intros H. unfold begin_container. weq_inv H. rewrite He. destruct (w_err w2) eqn:Ee; [cbn; auto|].
  rewrite (begin_value_Weq run _ _ H). apply simrel_refl.
Qed.

Lemma emit_sim w1 w2 n : Weq w1 w2 -> snd (emit w1 n) = snd (emit w2 n) /\ Weq (fst (emit w1 n)) (fst (emit w2 n)).
Proof.
  intros H. unfold emit. weq_inv H. rewrite Hb, Ho. destruct (w_bufs w2) as [|q rest].
  - destruct (sink_write_all (w_out w2) (nd_chunks n)) as [k ok]. cbn [fst snd]. split; [reflexivity|].
    apply Weq_set_out. exact H.
  - cbn [fst snd]. split; [reflexivity|]. apply Weq_set_bufs. exact H.
Qed.

Lemma end_container_sim w1 w2 t : Weq w1 w2 -> simrel (end_container w1 t) (end_container w2 t).
Proof.
  intros H. unfold end_container. weq_inv H. rewrite He. destruct (w_err w2) eqn:Ee; [cbn; auto|].
  unfold ctx_peek. rewrite Hc. destruct (negb (match w_ctx w2 with [] => 0 | c :: _ => c end =? t)).
  { cbn [simrel]. split; [reflexivity|]. apply Weq_set_err. exact H. }
  rewrite Hb. destruct (w_bufs w2) as [|q rest].
  - cbn [negb]. rewrite (Weq_clear _ _ H). apply simrel_refl.
  - pose proof (emit_sim (set_bufs w1 rest) (set_bufs w2 rest) (node_of_seq q) (Weq_set_bufs _ _ rest H)) as [E1 E2].
    destruct (emit (set_bufs w1 rest) (node_of_seq q)) as [a1 ok1], (emit (set_bufs w2 rest) (node_of_seq q)) as [a2 ok2].
    cbn [fst snd] in E1, E2. subst ok2. destruct (negb ok1).
    + cbn [simrel]. split; [reflexivity|]. apply Weq_set_err. exact E2.
    + rewrite (Weq_clear _ _ E2). apply simrel_refl.
Qed.

Lemma resolve_from_table_sim w1 w2 x : Weq w1 w2 ->
  snd (resolve_from_table w1 x) = snd (resolve_from_table w2 x) /\
  snd (fst (resolve_from_table w1 x)) = snd (fst (resolve_from_table w2 x)) /\
  Weq (fst (fst (resolve_from_table w1 x))) (fst (fst (resolve_from_table w2 x))).
Proof.
  intros H. unfold resolve_from_table. weq_inv H. rewrite Hl, Hlb. destruct (w_lst w2) as [locals|].
  - destruct (find_by_name locals true x); cbn [fst snd]; auto.
  - destruct (find_by_name (w_lstb w2) false x); cbn [fst snd]; auto.
    repeat split. apply Weq_set_lstb. exact H.
Qed.

Lemma write_symbol_id_sim run w1 w2 id : Weq w1 w2 -> simrel (write_symbol_id run w1 id) (write_symbol_id run w2 id).
Proof. intros H. unfold write_symbol_id. apply write_value_sim. exact H. Qed.

Lemma step_sim run w1 w2 c : Weq w1 w2 -> simrel (step run w1 c) (step run w2 (norm_call c)).
Proof.
  intros H. pose proof H as H'. weq_inv H'.
  destruct c as [t|t|ts| |t|b|z|n|z|bits|d|len body|t|x|x|b|b| | | | | | |]; cbn [step norm_call];
    try (apply write_value_sim; exact H); try (apply write_value_chunks_sim; exact H);
    try (apply begin_container_sim; exact H); try (apply end_container_sim; exact H).
  - (* FieldName *)
    rewrite He. destruct (w_err w2) eqn:Ee; [cbn; auto|]. unfold in_struct, ctx_peek. rewrite Hc.
    destruct (negb (match w_ctx w2 with [] => 0 | c :: _ => c end =? ctxStruct)).
    + cbn [simrel]. split; [reflexivity|]. apply Weq_set_err. exact H.
    + cbn [simrel]. split; [reflexivity|]. apply Weq_intro; cbn [set_pending BinWriter.w_out BinWriter.w_ctx BinWriter.w_err BinWriter.w_field BinWriter.w_annots BinWriter.w_bufs BinWriter.w_lst BinWriter.w_lstb BinWriter.w_wrote_lst]; try (timeout 10 congruence);
        try assumption. cbn [option_map]. rewrite text_only_idem. reflexivity.
  - (* Annotation *)
    rewrite He. destruct (w_err w2) eqn:Ee; [cbn; auto|]. cbn [simrel]. split; [reflexivity|].
    apply Weq_intro; cbn [set_pending BinWriter.w_out BinWriter.w_ctx BinWriter.w_err BinWriter.w_field BinWriter.w_annots BinWriter.w_bufs BinWriter.w_lst BinWriter.w_lstb BinWriter.w_wrote_lst]; try assumption; try (timeout 10 congruence).
    rewrite !map_app, Ha. cbn [map]. rewrite text_only_idem. reflexivity.
  - (* Annotations *)
    rewrite He. destruct (w_err w2) eqn:Ee; [cbn; auto|]. cbn [simrel]. split; [reflexivity|].
    apply Weq_intro; cbn [set_pending BinWriter.w_out BinWriter.w_ctx BinWriter.w_err BinWriter.w_field BinWriter.w_annots BinWriter.w_bufs BinWriter.w_lst BinWriter.w_lstb BinWriter.w_wrote_lst]; try assumption; try (timeout 10 congruence).
    rewrite !map_app, Ha, map_map. f_equal. apply map_ext. intros t. rewrite text_only_idem. reflexivity.
  - (* NullType *)
    rewrite He. destruct (w_err w2) eqn:Ee; [cbn; auto|]. destruct (14 <=? t).
    + cbn [simrel]. split; [reflexivity|]. apply Weq_set_err. exact H.
    + destruct (binary_null t); cbn [bind]; try exact I. apply write_value_sim. exact H.
  - (* Int *)
    destruct (z =? 0)%Z; apply write_value_sim; exact H.
  - (* Uint *)
    destruct (n =? 0); apply write_value_sim; exact H.
  - (* BigInt *)
    rewrite He. destruct (w_err w2) eqn:Ee; [cbn; auto|]. destruct z as [z|].
    + destruct (z =? 0)%Z; apply write_value_chunks_sim; exact H.
    + cbn [simrel]. split; [reflexivity|]. apply Weq_set_err. exact H.
  - (* Float *)
    destruct (f64_pos_zero bits); [apply write_value_sim; exact H|].
    destruct (f64_is_nan bits); [apply write_value_sim; exact H|].
    destruct (uses_f32 bits); apply write_value_sim; exact H.
  - (* Decimal *)
    rewrite He. destruct (w_err w2) eqn:Ee; [cbn; auto|]. destruct d as [d|].
    + destruct ((d_coef d =? 0)%Z && (d_exp d =? 0)%Z && negb (d_negzero d)); apply write_value_sim; exact H.
    + cbn [simrel]. split; [reflexivity|]. apply Weq_set_err. exact H.
  - (* Symbol *)
    rewrite He. destruct (w_err w2) eqn:Ee; [cbn; auto|].
    assert (Hs : forall x, simrel
       (let '(w', id, ok) := resolve_from_table w1 x in let w' := set_err w' (negb ok) in
        if negb ok then Ok (w', false) else write_symbol_id run w' id)
       (let '(w', id, ok) := resolve_from_table w2 x in let w' := set_err w' (negb ok) in
        if negb ok then Ok (w', false) else write_symbol_id run w' id)).
    { intros x. destruct (resolve_from_table_sim w1 w2 x H) as (E1 & E2 & E3).
      destruct (resolve_from_table w1 x) as [[a1 i1] o1], (resolve_from_table w2 x) as [[a2 i2] o2].
      cbn [fst snd] in *. subst o2 i2. cbn zeta. destruct (negb o1).
      - cbn [simrel]. split; [reflexivity|]. apply Weq_set_err. exact E3.
      - apply write_symbol_id_sim. apply Weq_set_err. exact E3. }
    unfold text_only. destruct (tk_text t) as [x|] eqn:Et.
    + cbn [tok_text tk_text]. apply Hs.
    + rewrite Et. destruct (negb (tk_sid t =? -1)%Z).
      * apply write_symbol_id_sim. exact H.
      * cbn [simrel]. split; [reflexivity|]. apply Weq_set_err. exact H.
  - (* SymbolFromString *)
    rewrite He. destruct (w_err w2) eqn:Ee; [cbn; auto|]. unfold resolve. destruct (symbol_identifier x) as [sid|].
    + cbn [negb]. cbn zeta. apply write_symbol_id_sim. apply Weq_set_err. exact H.
    + destruct (resolve_from_table_sim w1 w2 x H) as (E1 & E2 & E3).
      destruct (resolve_from_table w1 x) as [[a1 i1] o1], (resolve_from_table w2 x) as [[a2 i2] o2].
      cbn [fst snd] in *. subst o2 i2. cbn zeta. destruct (negb o1).
      * cbn [simrel]. split; [reflexivity|]. apply Weq_set_err. exact E3.
      * apply write_symbol_id_sim. apply Weq_set_err. exact E3.
  - (* String *)
    destruct x; apply write_value_sim; exact H.
  - (* Finish *)
    rewrite He. destruct (w_err w2) eqn:Ee; [cbn; auto|]. unfold ctx_peek. rewrite Hc.
    destruct (negb (match w_ctx w2 with [] => 0 | c :: _ => c end =? 0)); [cbn; auto|].
    rewrite (Weq_clear _ _ H). apply simrel_refl.
Qed.

(* the Writer driven the way the copy loop drives it *)
Lemma drive_sim cs : forall w1 w2, Weq w1 w2 ->
  match drive bin_step w1 cs, drive bin_step w2 (map norm_call cs) with
  | Ok (a, ok1), Ok (b, ok2) => ok1 = ok2 /\ Weq a b
  | Err, Err | Panic, Panic | OutOfFuel, OutOfFuel => True
  | _, _ => False
  end.
Proof.
  induction cs as [|c r IH]; intros w1 w2 H; cbn [drive map]; [auto|].
  pose proof (step_sim (run_calls 2) w1 w2 c H) as S. unfold bin_step, wstep.
  destruct (step (run_calls 2) w1 c) as [[a1 o1]| | |], (step (run_calls 2) w2 (norm_call c)) as [[a2 o2]| | |];
    cbn [simrel] in S; try contradiction; cbn [bind]; try exact I.
  destruct S as [<- S]. destruct o1; [apply IH; exact S|auto].
Qed.

(* ================================================================================================== *)
(* 2. the calls of the copy loop                                                                         *)
(* ================================================================================================== *)
Lemma calls_upto_forest_app_ok l : forall cs, 
  Forall2 (fun x c => calls_upto x = (c, false)) l cs -> calls_upto_forest l = (concat cs, false).
Proof.
  induction l as [|x r IH]; intros cs H; inversion H as [|? c ? cs' Hx Hr]; subst; [reflexivity|].
  cbn [calls_upto_forest concat]. rewrite Hx, (IH cs' Hr). reflexivity.
Qed.

(* normalising the observation normalises the calls *)
Lemma head_calls_norm f a : map norm_call (head_calls f a) = head_calls (option_map text_only f) (map text_only a).
Proof. destruct f, a; reflexivity. Qed.
Lemma scalar_call_norm s : norm_call (scalar_call s) = scalar_call (norm_scalar s).
Proof. destruct s as [t|b|[z|z]|b|d|l b|t|t|b|b]; reflexivity. Qed.
Lemma norm_begin k : norm_call (begin_call k) = begin_call k.
Proof. destruct k; reflexivity. Qed.
Lemma norm_end k : norm_call (end_call k) = end_call k.
Proof. destruct k; reflexivity. Qed.

Lemma calls_upto_norm v :
  calls_upto (norm_oval v) = (map norm_call (fst (calls_upto v)), snd (calls_upto v)).
Proof.
  induction v as [f a s|f a k l IH|] using oval_ind'; [| |reflexivity].
  - cbn [norm_oval calls_upto fst snd]. rewrite map_app, head_calls_norm. cbn [map]. rewrite scalar_call_norm. reflexivity.
  - cbn [norm_oval]. rewrite !calls_upto_cont.
    assert (E : calls_upto_forest (map norm_oval l) = (map norm_call (fst (calls_upto_forest l)), snd (calls_upto_forest l))).
    { induction IH as [|x r Hx _ IHr]; [reflexivity|]. cbn [map calls_upto_forest]. rewrite Hx.
      destruct (calls_upto x) as [c1 f1]. cbn [fst snd]. destruct f1; [reflexivity|].
      rewrite IHr. destruct (calls_upto_forest r) as [c2 f2]. cbn [fst snd]. rewrite map_app. reflexivity. }
    rewrite E. destruct (calls_upto_forest l) as [cs fl]. cbn [fst snd]. destruct fl; cbn [fst snd].
    + rewrite map_app, head_calls_norm. cbn [map]. rewrite norm_begin. reflexivity.
    + rewrite map_app, head_calls_norm. cbn [map]. rewrite norm_begin, map_app. cbn [map]. rewrite norm_end. reflexivity.
Qed.
Lemma calls_upto_forest_norm l :
  calls_upto_forest (map norm_oval l) = (map norm_call (fst (calls_upto_forest l)), snd (calls_upto_forest l)).
Proof.
  induction l as [|x r IH]; [reflexivity|]. cbn [map calls_upto_forest]. rewrite calls_upto_norm.
  destruct (calls_upto x) as [c1 f1]. cbn [fst snd]. destruct f1; [reflexivity|].
  rewrite IH. destruct (calls_upto_forest r) as [c2 f2]. cbn [fst snd]. rewrite map_app. reflexivity.
Qed.

(* the observation of a forest of values: its calls are the canonical calls of Bin/RoundTripBin.v, ints that
   fit an int64 through WriteInt *)
Definition fld_calls (fld : option symv) : list wcall :=
  match fld with Some n => [CFieldName (tok_of n)] | None => [] end.
Definition ann_calls (a : list symv) : list wcall :=
  match a with [] => [] | _ => [CAnnotations (map tok_of a)] end.
Lemma head_calls_obs fld a : head_calls (option_map tok_of fld) (map tok_of a) = fld_calls fld ++ ann_calls a.
Proof. destruct fld, a; reflexivity. Qed.

Definition calls_spec (a : list symv) (v : value) : list wcall :=
  map narrow_call (match v with VAnn _ _ => calls_body v | _ => ann_calls a ++ calls_body v end).

Lemma narrow_ann_calls a : map narrow_call (ann_calls a) = ann_calls a.
Proof. destruct a; reflexivity. Qed.
Lemma calls_spec_nil x : calls_spec [] x = map narrow_call (calls_body x).
Proof. destruct x; reflexivity. Qed.

Lemma calls_obs v : wf_value v -> forall fld a,
  calls_upto (obs_of_value fld a v) = (fld_calls fld ++ calls_spec a v, false).
Proof.
  induction v as [v Hsc|l IH|l IH|fs IH|a' x IH] using value_ind'; intros Hw fld a.
  - unfold calls_spec. destruct v; try destruct Hsc; cbn [obs_of_value calls_upto calls_body];
      rewrite head_calls_obs, map_app, narrow_ann_calls, <- app_assoc; try reflexivity.
    cbn [map scalar_call narrow_call]. unfold int_of_Z. destruct (in_i64 z); reflexivity.
  - cbn [obs_of_value]. rewrite calls_upto_cont. inversion Hw as [| | | | | | | | | |? Hl| | |]; subst.
    assert (E : calls_upto_forest (map (obs_of_value None []) l) = (map narrow_call (flat_map calls_body l), false)).
    { clear Hw. induction l as [|x r IHr]; [reflexivity|]. inversion IH as [|? ? Hx Hr]; subst. inversion Hl as [|? ? Hwx Hwr]; subst.
      cbn [map calls_upto_forest flat_map]. rewrite (Hx Hwx None []), (IHr Hr Hwr). cbn [fld_calls app].
      rewrite calls_spec_nil, map_app. reflexivity. }
    rewrite E. rewrite head_calls_obs. unfold calls_spec. rewrite map_app, narrow_ann_calls, <- !app_assoc.
    cbn [calls_body map begin_call end_call narrow_call app]. rewrite map_app. reflexivity.
  - cbn [obs_of_value]. rewrite calls_upto_cont. inversion Hw as [| | | | | | | | | | |? Hl| |]; subst.
    assert (E : calls_upto_forest (map (obs_of_value None []) l) = (map narrow_call (flat_map calls_body l), false)).
    { clear Hw. induction l as [|x r IHr]; [reflexivity|]. inversion IH as [|? ? Hx Hr]; subst. inversion Hl as [|? ? Hwx Hwr]; subst.
      cbn [map calls_upto_forest flat_map]. rewrite (Hx Hwx None []), (IHr Hr Hwr). cbn [fld_calls app].
      rewrite calls_spec_nil, map_app. reflexivity. }
    rewrite E. rewrite head_calls_obs. unfold calls_spec. rewrite map_app, narrow_ann_calls, <- !app_assoc.
    cbn [calls_body map begin_call end_call narrow_call app]. rewrite map_app. reflexivity.
  - cbn [obs_of_value]. rewrite calls_upto_cont. inversion Hw as [| | | | | | | | | | | |? Hl|]; subst.
    assert (E : calls_upto_forest (map (fun p => obs_of_value (Some (fst p)) [] (snd p)) fs) =
                (map narrow_call (flat_map (fun '(n, x) => CFieldName (tok_of n) :: calls_body x) fs), false)).
    { clear Hw. induction fs as [|[n x] r IHr]; [reflexivity|]. inversion IH as [|? ? Hx Hr]; subst. inversion Hl as [|? ? Hwx Hwr]; subst.
      cbn [fst snd] in *. cbn [map calls_upto_forest flat_map fst snd]. rewrite (Hx (proj2 Hwx) (Some n) []), (IHr Hr Hwr).
      cbn [fld_calls app]. rewrite calls_spec_nil. cbn [map app narrow_call]. rewrite map_app. reflexivity. }
    rewrite E. rewrite head_calls_obs. unfold calls_spec. rewrite map_app, narrow_ann_calls, <- !app_assoc.
    cbn [calls_body map begin_call end_call narrow_call app]. rewrite map_app. reflexivity.
  - cbn [obs_of_value]. inversion Hw as [| | | | | | | | | | | | |? ? Hne Hsy Hna Hx]; subst.
    rewrite (IH Hx fld a'). f_equal. f_equal. unfold calls_spec. destruct x; try destruct Hna;
      (destruct a' as [|y0 r0]; [congruence|reflexivity]).
Qed.

Lemma calls_obs_forest vs : Forall wf_value vs ->
  calls_upto_forest (obs_of_values vs) = (map narrow_call (flat_map calls_body vs), false).
Proof.
  induction vs as [|v r IH]; intros H; [reflexivity|]. inversion H as [|? ? Hv Hr]; subst.
  unfold obs_of_values in *. cbn [map calls_upto_forest flat_map]. rewrite (calls_obs v Hv None []), (IH Hr).
  cbn [fld_calls app]. rewrite calls_spec_nil, map_app. reflexivity.
Qed.
Lemma calls_obs_finish vs : Forall wf_value vs ->
  fst (calls_upto_forest (obs_of_values vs)) ++ [CFinish] = calls_of_forest64 vs.
Proof.
  intros H. rewrite (calls_obs_forest vs H). cbn [fst]. unfold calls_of_forest64, calls_of_forest. rewrite map_app. reflexivity.
Qed.

(* ================================================================================================== *)
(* 3. the observation of a forest of values: well formed, normal, and its trace                          *)
(* ================================================================================================== *)
Lemma text_only_tok_of y : text_only (tok_of y) = tok_of y.
Proof. destruct y; reflexivity. Qed.
Lemma map_text_only_tok_of a : map text_only (map tok_of a) = map tok_of a.
Proof. rewrite map_map. apply map_ext. intros y. apply text_only_tok_of. Qed.
Lemma option_text_only_tok_of fld : option_map text_only (option_map tok_of fld) = option_map tok_of fld.
Proof. destruct fld; [cbn [option_map]; rewrite text_only_tok_of|]; reflexivity. Qed.

Lemma norm_obs v : forall fld a, norm_oval (obs_of_value fld a v) = obs_of_value fld a v.
Proof.
  induction v as [v Hsc|l IH|l IH|fs IH|a' x IH] using value_ind'; intros fld a.
  - destruct v; try destruct Hsc; cbn [obs_of_value norm_oval norm_scalar];
      rewrite option_text_only_tok_of, map_text_only_tok_of, ?text_only_tok_of; reflexivity.
  - cbn [obs_of_value norm_oval]. rewrite option_text_only_tok_of, map_text_only_tok_of. f_equal.
    rewrite map_map. induction IH as [|x r Hx _ IHr]; [reflexivity|]. cbn [map]. rewrite Hx, IHr. reflexivity.
  - cbn [obs_of_value norm_oval]. rewrite option_text_only_tok_of, map_text_only_tok_of. f_equal.
    rewrite map_map. induction IH as [|x r Hx _ IHr]; [reflexivity|]. cbn [map]. rewrite Hx, IHr. reflexivity.
  - cbn [obs_of_value norm_oval]. rewrite option_text_only_tok_of, map_text_only_tok_of. f_equal.
    rewrite map_map. induction IH as [|x r Hx _ IHr]; [reflexivity|]. cbn [map]. rewrite Hx, IHr. reflexivity.
  - cbn [obs_of_value]. apply IH.
Qed.
Lemma norm_obs_of_values vs : map norm_oval (obs_of_values vs) = obs_of_values vs.
Proof. unfold obs_of_values. rewrite map_map. apply map_ext. intros v. apply norm_obs. Qed.

Definition fld_in (b : bool) (fld : option symv) : Prop := match fld with Some _ => b = true | None => b = false end.
Lemma obs_ok_obs v : wf_value v -> forall b fld a, fld_in b fld -> obs_ok b (obs_of_value fld a v) = true.
Proof.
  induction v as [v Hsc|l IH|l IH|fs IH|a' x IH] using value_ind'; intros Hw b fld a Hf.
  - assert (F : field_ok b (option_map tok_of fld) = true).
    { destruct fld; cbn [option_map field_ok fld_in] in *; subst; reflexivity. }
    destruct v; try destruct Hsc; cbn [obs_of_value obs_ok scalar_ok]; rewrite F; try reflexivity.
    inversion Hw; subst. cbn [andb]. lia.
  - cbn [obs_of_value obs_ok]. inversion Hw as [| | | | | | | | | |? Hl| | |]; subst.
    apply andb_true_intro. split; [destruct fld; cbn [option_map field_ok fld_in] in *; subst; reflexivity|].
    clear Hw. induction l as [|x r IHr]; [reflexivity|]. inversion IH as [|? ? Hx Hr]; subst. inversion Hl as [|? ? Hwx Hwr]; subst.
    cbn [map forallb]. rewrite (Hx Hwx false None [] eq_refl), (IHr Hr Hwr). reflexivity.
  - cbn [obs_of_value obs_ok]. inversion Hw as [| | | | | | | | | | |? Hl| |]; subst.
    apply andb_true_intro. split; [destruct fld; cbn [option_map field_ok fld_in] in *; subst; reflexivity|].
    clear Hw. induction l as [|x r IHr]; [reflexivity|]. inversion IH as [|? ? Hx Hr]; subst. inversion Hl as [|? ? Hwx Hwr]; subst.
    cbn [map forallb]. rewrite (Hx Hwx false None [] eq_refl), (IHr Hr Hwr). reflexivity.
  - cbn [obs_of_value obs_ok]. inversion Hw as [| | | | | | | | | | | |? Hl|]; subst.
    apply andb_true_intro. split; [destruct fld; cbn [option_map field_ok fld_in] in *; subst; reflexivity|].
    clear Hw. induction fs as [|[n x] r IHr]; [reflexivity|]. inversion IH as [|? ? Hx Hr]; subst. inversion Hl as [|? ? Hwx Hwr]; subst.
    cbn [fst snd] in *. cbn [map forallb fst snd]. rewrite (Hx (proj2 Hwx) true (Some n) [] eq_refl), (IHr Hr Hwr). reflexivity.
  - cbn [obs_of_value]. inversion Hw; subst. apply IH; assumption.
Qed.
Lemma forest_ok_obs vs : Forall wf_value vs -> forest_ok (obs_of_values vs) = true.
Proof.
  intros H. unfold forest_ok, obs_of_values. induction H as [|v r Hv _ IH]; [reflexivity|].
  cbn [map forallb]. rewrite (obs_ok_obs v Hv false None [] eq_refl), IH. reflexivity.
Qed.

(* ---- the trace up to the symbol IDs of known-text tokens ---------------------------------------------- *)
Definition ptok (t : tok) : list N :=
  match tk_text t with Some x => 107 :: hex_of_bytes x | None => 117 :: 46 :: dec_of_Z (tk_sid t) end.
Lemma proj_show_tok' t : proj_tok (show_tok t) = ptok t.
Proof.
  unfold show_tok, ptok. destruct (tk_text t) as [x|]; cbn [proj_tok]; [|reflexivity]. rewrite upto_dot_hex. reflexivity.
Qed.
Lemma proj_piece' t r : proj_pieces 0 (show_tok t ++ 59 :: r) = ptok t ++ 59 :: proj_pieces 0 r.
Proof.
  unfold show_tok, ptok. destruct (tk_text t) as [x|]; cbn [app proj_pieces].
  - cbn [N.eqb Pos.eqb]. rewrite <- app_assoc. cbn [app]. rewrite proj_copy1_hex by apply dec_of_Z_ne. reflexivity.
  - cbn [N.eqb Pos.eqb]. rewrite proj_copy3 by apply dec_of_Z_ne. reflexivity.
Qed.
Definition pannots (a : list tok) : list N := 97 :: 91 :: concat (map (fun t => ptok t ++ [59]) a) ++ [93].
Lemma proj_annots' a : proj_tok (otr_annots a) = pannots a.
Proof.
  unfold otr_annots, pannots. cbn [proj_tok]. do 2 f_equal.
  induction a as [|t r IH]; cbn [map concat app]; [reflexivity|].
  rewrite <- !app_assoc. cbn [app]. rewrite proj_piece', IH. reflexivity.
Qed.
Lemma ptok_text_only t : ptok (text_only t) = ptok t.
Proof. unfold text_only, ptok. destruct (tk_text t) eqn:E; [reflexivity|]. rewrite E. reflexivity. Qed.
Lemma pannots_text_only a : pannots (map text_only a) = pannots a.
Proof. unfold pannots. do 4 f_equal. rewrite map_map. apply map_ext. intros t. rewrite ptok_text_only. reflexivity. Qed.
Lemma ptok_tok_of y : ptok (tok_of y) = tsp_sym y.
Proof. destruct y; reflexivity. Qed.
Lemma pannots_tok_of a : pannots (map tok_of a) = tsp_annots a.
Proof. unfold pannots, tsp_annots. do 4 f_equal. rewrite map_map. apply map_ext. intros y. rewrite ptok_tok_of. reflexivity. Qed.

Definition pfield (f : option tok) : list N := match f with None => t_nil | Some t => ptok t end.
Definition phead (f : option tok) (a : list tok) (ty : N) (isnull : bool) : list (list N) :=
  [ [84]; pfield f; pannots a; 121 :: dec_of_N ty; [110; if isnull then 49 else 48] ].
Lemma proj_head f a ty b : map proj_tok (otr_head f a ty b) = phead f a ty b.
Proof.
  unfold otr_head, phead. cbn [map]. rewrite proj_annots'.
  assert (E1 : proj_tok (otr_field f) = pfield f) by (destruct f as [t|]; [apply proj_show_tok'|reflexivity]).
  assert (E2 : proj_tok [110; if b then 49 else 48] = [110; if b then 49 else 48]) by (destruct b; reflexivity).
  rewrite E1, E2. reflexivity.
Qed.
Definition pscalar (s : oscalar) : list N :=
  match s with SSymbol t => ptok t | _ => snd (otr_scalar s) end.
Lemma proj_scalar s : proj_tok (snd (otr_scalar s)) = pscalar s.
Proof.
  destruct s as [t|b|i|b|d|l b|t|t|b|b]; cbn [otr_scalar snd pscalar]; try reflexivity.
  apply proj_show_tok'.
Qed.

Fixpoint ptr_value (v : oval) : list (list N) :=
  match v with
  | OScalar f a (SNull t) => phead f a t true
  | OScalar f a s => phead f a (fst (otr_scalar s)) false ++ [pscalar s]
  | OCont f a k l => phead f a (kind_type k) false ++ [s "ok"%string] ++ flat_map ptr_value l ++ [[70]; s "ok"%string]
  | OFail => [t_err]
  end.

Lemma proj_otr_value v : map proj_tok (otr_value v) = ptr_value v.
Proof.
  induction v as [f a sc|f a k l IH|] using oval_ind'; [| |reflexivity].
  - destruct sc; cbn [otr_value ptr_value]; rewrite ?map_app, proj_head; try reflexivity;
      cbn [map]; rewrite proj_scalar; reflexivity.
  - cbn [otr_value ptr_value]. rewrite !map_app, proj_head. f_equal. f_equal. f_equal.
    induction IH as [|x r Hx _ IHr]; [reflexivity|]. cbn [flat_map]. rewrite map_app, Hx, IHr. reflexivity.
Qed.
Lemma proj_obs_trace obs : map proj_tok (obs_trace obs) = flat_map ptr_value obs ++ otr_tail.
Proof.
  unfold obs_trace. rewrite map_app. f_equal.
  induction obs as [|x r IH]; [reflexivity|]. cbn [flat_map]. rewrite map_app, proj_otr_value, IH. reflexivity.
Qed.

Lemma phead_norm f a ty b : phead (option_map text_only f) (map text_only a) ty b = phead f a ty b.
Proof. unfold phead. rewrite pannots_text_only. destruct f as [t|]; cbn [option_map pfield]; rewrite ?ptok_text_only; reflexivity. Qed.
Lemma ptr_value_norm v : ptr_value (norm_oval v) = ptr_value v.
Proof.
  induction v as [f a sc|f a k l IH|] using oval_ind'; [| |reflexivity].
  - destruct sc; cbn [norm_oval norm_scalar ptr_value otr_scalar fst pscalar]; rewrite phead_norm, ?ptok_text_only; reflexivity.
  - cbn [norm_oval ptr_value]. rewrite phead_norm. f_equal. f_equal. f_equal.
    induction IH as [|x r Hx _ IHr]; [reflexivity|]. cbn [map flat_map]. rewrite Hx, IHr. reflexivity.
Qed.
Lemma proj_obs_trace_norm obs : map proj_tok (obs_trace (map norm_oval obs)) = map proj_tok (obs_trace obs).
Proof.
  rewrite !proj_obs_trace. f_equal. induction obs as [|x r IH]; [reflexivity|]. cbn [map flat_map]. rewrite ptr_value_norm, IH. reflexivity.
Qed.

Lemma phead_obs fld a ty b : phead (option_map tok_of fld) (map tok_of a) ty b = tsp_head fld a ty b.
Proof. unfold phead, tsp_head. rewrite pannots_tok_of. destruct fld; cbn [option_map pfield tsp_field]; rewrite ?ptok_tok_of; reflexivity. Qed.

Lemma ptr_obs v : wf_value v -> forall fld a, ptr_value (obs_of_value fld a v) = tsp_value fld a v.
Proof.
  induction v as [v Hsc|l IH|l IH|fs IH|a' x IH] using value_ind'; intros Hw fld a.
  - destruct v; try destruct Hsc; cbn [obs_of_value ptr_value tsp_value otr_scalar fst snd pscalar]; rewrite phead_obs;
      try reflexivity.
    + unfold int_of_Z. destruct (in_i64 z); reflexivity.
    + inversion Hw as [| | |? [_ Hn]| | | | | | | | | |]; subst. unfold canon_float.
      match goal with |- context [f64_is_nan ?bb] => destruct (f64_is_nan bb) eqn:E end;
        [rewrite (Hn eq_refl) at 1|]; reflexivity.
    + rewrite ptok_tok_of. reflexivity.
  - cbn [obs_of_value ptr_value tsp_value kind_type]. rewrite phead_obs. inversion Hw as [| | | | | | | | | |? Hl| | |]; subst.
    f_equal. f_equal. f_equal. clear Hw.
    induction l as [|x r IHr]; [reflexivity|]. inversion IH as [|? ? Hx Hr]; subst. inversion Hl as [|? ? Hwx Hwr]; subst.
    cbn [map flat_map]. rewrite (Hx Hwx), (IHr Hr Hwr). reflexivity.
  - cbn [obs_of_value ptr_value tsp_value kind_type]. rewrite phead_obs. inversion Hw as [| | | | | | | | | | |? Hl| |]; subst.
    f_equal. f_equal. f_equal. clear Hw.
    induction l as [|x r IHr]; [reflexivity|]. inversion IH as [|? ? Hx Hr]; subst. inversion Hl as [|? ? Hwx Hwr]; subst.
    cbn [map flat_map]. rewrite (Hx Hwx), (IHr Hr Hwr). reflexivity.
  - cbn [obs_of_value ptr_value tsp_value kind_type]. rewrite phead_obs. inversion Hw as [| | | | | | | | | | | |? Hl|]; subst.
    f_equal. f_equal. f_equal. clear Hw.
    induction fs as [|[n x] r IHr]; [reflexivity|]. inversion IH as [|? ? Hx Hr]; subst. inversion Hl as [|? ? Hwx Hwr]; subst.
    cbn [fst snd] in *. cbn [map flat_map fst snd]. rewrite (Hx (proj2 Hwx)), (IHr Hr Hwr). reflexivity.
  - cbn [obs_of_value tsp_value]. inversion Hw; subst. apply IH. assumption.
Qed.

(* the printed observation of a forest of values is, up to symbol IDs, the trace the specification prescribes *)
Lemma proj_obs_trace_values vs : Forall wf_value vs -> map proj_tok (obs_trace (obs_of_values vs)) = trace_of_spec vs.
Proof.
  intros H. rewrite proj_obs_trace. unfold trace_of_spec, otr_tail. f_equal. unfold obs_of_values.
  induction H as [|v r Hv _ IH]; [reflexivity|]. cbn [map flat_map]. rewrite (ptr_obs v Hv), IH. reflexivity.
Qed.

(* ================================================================================================== *)
(* 4. compositions                                                                                       *)
(* ================================================================================================== *)
Lemma drive_all_ok cs : forall w w' oks,
  drive_results w cs = Ok (w', oks) -> Forall (eq true) oks -> drive bin_step w cs = Ok (w', true).
Proof.
  induction cs as [|c r IH]; intros w w' oks H Hok; cbn [drive_results drive] in *.
  - inversion H; subst. reflexivity.
  - unfold bin_step. destruct (wstep w c) as [[w1 ok]| | |]; cbn [bind] in *; try discriminate.
    destruct (drive_results w1 r) as [[w2 oks2]| | |] eqn:E; cbn [bind] in H; try discriminate.
    inversion H; subst. inversion Hok as [|? ? Hb Hr]; subst. apply (IH _ _ _ E Hr).
Qed.

(* WRITE half, binary: the copy loop over ANY observation that equals [obs_of_values vs] up to the symbol IDs of
   known-text tokens drives a fresh binary Writer without error; the bytes are [enc_forest vs] *)
Theorem copy_to_binary_writer vs obs : wf_values vs -> map norm_oval obs = obs_of_values vs ->
  exists w, process_fixed bin_step (new_writer None) obs =
              Ok {| oc_w := w; oc_calls := fst (calls_upto_forest obs) ++ [CFinish]; oc_reports := [] |} /\
            values_of_calls (fst (calls_upto_forest obs) ++ [CFinish]) = Some (map value_of obs) /\
            sink_bytes (w_out w) = enc_forest vs /\
            (N.of_nat (length (enc_forest vs)) < two63 -> sdecode (sink_bytes (w_out w)) = Some vs).
Proof.
  intros Hw Hn.
  assert (Hwv : Forall wf_value vs) by (eapply Forall_impl; [|exact Hw]; intros v [H _]; exact H).
  destruct (roundtrip_binary64 vs Hw) as (w' & oks & out & E & Hok & Hb & Ho & Hd).
  pose proof (drive_all_ok _ _ _ _ E Hok) as D.
  assert (Hc : map norm_call (fst (calls_upto_forest obs) ++ [CFinish]) = calls_of_forest64 vs).
  { rewrite map_app. cbn [map norm_call]. rewrite <- (calls_obs_finish vs Hwv), <- Hn, calls_upto_forest_norm. reflexivity. }
  pose proof (drive_sim (fst (calls_upto_forest obs) ++ [CFinish]) (new_writer None) (new_writer None) (Weq_refl _)) as S.
  rewrite Hc, D in S.
  destruct (drive bin_step (new_writer None) (fst (calls_upto_forest obs) ++ [CFinish])) as [[w ok]| | |] eqn:Ed; try contradiction.
  destruct S as [-> S]. destruct (Weq_inv _ _ S) as (Hout & _).
  assert (Hf : forest_ok obs = true) by (rewrite <- forest_ok_norm, Hn; apply forest_ok_obs; exact Hwv).
  destruct (transcode_any_writer wstate bin_step (new_writer None) w obs Hf Ed) as [P V].
  exists w. split; [exact P|]. split; [exact V|]. rewrite Hout, Hb, Ho. split; [reflexivity|].
  intros Hlen. rewrite <- Ho. apply Hd. rewrite Ho. exact Hlen.
Qed.

(* the values of an observation that equals [obs_of_values vs] up to symbol IDs are [vs] *)
Lemma wrap_ann_tok_of a v : a <> [] -> wrap_ann (map tok_of a) v = VAnn a v.
Proof.
  intros H. destruct a as [|y r]; [congruence|]. cbn [map wrap_ann]. f_equal.
  change (symv_of_tok (tok_of y) :: map symv_of_tok (map tok_of r)) with (map symv_of_tok (map tok_of (y :: r))).
  rewrite map_map. rewrite <- (map_id (y :: r)) at 2. apply map_ext. intros [t|n]; cbn; [reflexivity|].
  rewrite N2Z.id. reflexivity.
Qed.

(* END TO END, binary -> binary *)
Theorem copy_binary_to_binary ts src vs :
  (forall bs, ts bs <> Panic /\ ts bs <> OutOfFuel) -> sdecode src = Some vs -> within_limits ts src ->
  Forall (fun c => c < 256) src -> N.of_nat (length src) < two63 -> wf_values vs ->
  map proj_tok (fst (traverse ts src false)) = map proj_tok (obs_trace (obs_of_values vs)) /\
  forall obs, map norm_oval obs = obs_of_values vs ->
    map proj_tok (obs_trace obs) = map proj_tok (fst (traverse ts src false)) /\
    exists w, process_fixed bin_step (new_writer None) obs =
                Ok {| oc_w := w; oc_calls := fst (calls_upto_forest obs) ++ [CFinish]; oc_reports := [] |} /\
              sink_bytes (w_out w) = enc_forest vs /\
              (N.of_nat (length (enc_forest vs)) < two63 -> sdecode (sink_bytes (w_out w)) = Some vs).
Proof.
  intros Hts Hd Hl Hb Hlen Hw.
  assert (Hwv : Forall wf_value vs) by (eapply Forall_impl; [|exact Hw]; intros v [H _]; exact H).
  pose proof (agree_C03 ts src vs Hts Hd Hl Hb Hlen) as R.
  split; [rewrite R; symmetry; apply proj_obs_trace_values; exact Hwv|].
  intros obs Hn. split.
  - rewrite R, <- proj_obs_trace_norm, Hn. apply proj_obs_trace_values. exact Hwv.
  - destruct (copy_to_binary_writer vs obs Hw Hn) as (w & P & _ & B & D). exists w. auto.
Qed.
