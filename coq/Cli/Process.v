(* Process.v — executable model of cmd/ion-go/process.go: processor.process (the
   per-value switch between an ion.Reader and an ion.Writer), processStdin /
   processFiles (the final Finish) and processor.error (the error report).

   The input of the model is what the Reader REPORTS for a document, not the
   bytes: a forest of observed values ([oval]) whose symbols are the tokens
   {text option, sid} of FieldName / Annotations / SymbolValue, and a pseudo
   value [OFail] standing for "Next returned false here and Err() is non-nil"
   (a reader error can surface at any depth; whatever follows it is never seen).
   The Writer is abstract: a state and a step function answering each call with
   "returned nil" / "returned an error" / panic, so that the same transcription
   is composed with the no-op writer, the event writer (Cli/Events.v) and the
   binary writer model (Bin/BinWriter.v).

   Two transcriptions are given: [flatten_pinned] is process.go as it stood on
   the pinned tree (no null check before the per-type switch), [flatten_fixed]
   is process.go after fix_cli_nulls.diff (IsNull => WriteNullType); [process_fixed_sids]
   is the fixed loop after the optional fix_cli_sids.diff (tokens handed over by text).
   Not modelled: argument parsing, opening/closing files, exit status.
   No proofs in this file. *)
From Coq Require Import String List NArith ZArith Bool.
From IonV Require Import Base.Wire Data.Ion Bin.BitStream Bin.BinWriter.
Import ListNotations.
Open Scope N_scope.

(* ---- observed values ------------------------------------------------------------------ *)
(* a scalar as the accessors return it; [SNull t] is any value with IsNull() (t = Type(),
   1..13: null.list / null.sexp / null.struct are not stepped into, they are leaves) *)
Inductive oscalar :=
| SNull (t : N)
| SBool (b : bool)
| SInt (i : intval)                       (* int64 or *big.Int, as IntSize distinguishes them *)
| SFloat (bits : N)
| SDecimal (d : dec)
| STimestamp (len : N) (body : list N)    (* carried as its binary body, like CTimestamp *)
| SSymbol (t : tok)
| SString (t : text)
| SClob (b : list N)
| SBlob (b : list N).

Inductive ckind := KList | KSexp | KStruct.

Inductive oval :=
| OScalar (f : option tok) (a : list tok) (s : oscalar)
| OCont (f : option tok) (a : list tok) (k : ckind) (l : list oval)
| OFail.                                   (* Next() = false with Err() != nil *)

(* ---- error report ----------------------------------------------------------------------- *)
Inductive etype := ERead | EWrite.
(* errordescription{error_type, message, location, event_index}: the message is not
   modelled; location is p.loc: the input name while a reader is processed, "" afterwards *)
Record report := { rp_type : etype; rp_in_input : bool; rp_idx : N }.

(* ---- the body of the for-loop, flattened ------------------------------------------------- *)
Inductive action :=
| ATick                     (* p.idx++ *)
| ACall (c : wcall)         (* "if err := w.X(); err != nil { return p.error(write, err) }" *)
| ACallIgn (c : wcall)      (* "val, err := in.XValue(); ...; err = w.X(val)": the assignment goes to
                               the err declared by := in the case clause, the check after the switch
                               reads the outer one, so the result is never looked at *)
| APanic                    (* nil dereference / panic(...) *)
| AReadErr.                 (* return p.error(read, err) *)

Definition begin_call (k : ckind) : wcall :=
  match k with KList => CBeginList | KSexp => CBeginSexp | KStruct => CBeginStruct end.
Definition end_call (k : ckind) : wcall :=
  match k with KList => CEndList | KSexp => CEndSexp | KStruct => CEndStruct end.

(* Next() returned true: idx++, FieldName if non-nil, Annotations if non-empty *)
Definition head_calls (f : option tok) (a : list tok) : list wcall :=
  (match f with Some t => [CFieldName t] | None => [] end) ++
  (match a with [] => [] | _ => [CAnnotations a] end).
Definition head_actions (f : option tok) (a : list tok) : list action :=
  ATick :: map ACall (head_calls f a).

Definition fits_i32 (z : Z) : bool := ((-2147483648 <=? z) && (z <=? 2147483647))%Z.

(* the switch for a non-null scalar *)
Definition scalar_call (s : oscalar) : wcall :=
  match s with
  | SNull t => CNullType t                 (* not used for nulls by the pinned switch, see below *)
  | SBool b => CBool b
  | SInt (I64 z) => CInt z                 (* Int32: WriteInt(int64( *IntValue)); Int64: WriteInt( *Int64Value) *)
  | SInt (IBig z) => CBigInt (Some z)
  | SFloat b => CFloat b
  | SDecimal d => CDecimal (Some d)
  | STimestamp l b => CTimestamp l b
  | SSymbol t => CSymbol t
  | SString t => CString t
  | SClob b => CClob b
  | SBlob b => CBlob b
  end.

(* the pinned switch on a value with IsNull(): what each case does with the nil it gets *)
Definition null_actions_pinned (t : N) : list action :=
  if t =? TNull then [ACall CNull]                      (* case NullType: err = WriteNull(), checked *)
  else if t =? TBool then [APanic]                      (* WriteBool( *val), val == nil *)
  else if t =? TInt then [APanic]                       (* IntSize = NullInt: panic("bad int size") *)
  else if t =? TFloat then [APanic]                     (* WriteFloat( *val) *)
  else if t =? TDecimal then [ACallIgn (CDecimal None)] (* WriteDecimal(nil) *)
  else if t =? TTimestamp then [APanic]                 (* WriteTimestamp( *val) *)
  else if t =? TSymbol then []                          (* if val != nil {...}: dropped *)
  else if t =? TString then []                          (* dropped *)
  else if t =? TClob then [ACallIgn (CClob [])]         (* WriteClob(nil): an empty clob *)
  else if t =? TBlob then [ACallIgn (CBlob [])]         (* WriteBlob(nil): an empty blob *)
  else if (t =? TList) || (t =? TSexp) || (t =? TStruct) then [AReadErr]   (* StepIn refuses a null container *)
  else [APanic].                                        (* default: panic("bad ion type") *)

Definition scalar_actions_pinned (s : oscalar) : list action :=
  match s with
  | SNull t => null_actions_pinned t
  | _ => [ACallIgn (scalar_call s)]
  end.

(* after fix_cli_nulls.diff: "if in.IsNull() { if err = WriteNullType(Type()); err != nil {return ...}; continue }" *)
Definition scalar_actions_fixed (s : oscalar) : list action :=
  match s with
  | SNull t => [ACall (CNullType t)]
  | _ => [ACallIgn (scalar_call s)]
  end.

Section Flatten.
Variable scalar_actions : oscalar -> list action.

(* one iteration of "for in.Next()" per value; a container: StepIn, Begin (checked), the recursive
   call, idx++, StepOut, End (checked); the reader failing: in.Err() != nil after the loop *)
Fixpoint flatten (v : oval) : list action :=
  match v with
  | OScalar f a s => head_actions f a ++ scalar_actions s
  | OCont f a k l =>
    head_actions f a ++ [ACall (begin_call k)] ++ flat_map flatten l ++ [ATick; ACall (end_call k)]
  | OFail => [AReadErr]
  end.
Definition flatten_forest (vs : list oval) : list action := flat_map flatten vs.
End Flatten.

Definition flatten_pinned := flatten_forest scalar_actions_pinned.
Definition flatten_fixed := flatten_forest scalar_actions_fixed.

(* ---- running the actions against a Writer -------------------------------------------------- *)
(* what a run of "ion-go process" leaves behind (when it does not panic) *)
Record outcome (W : Type) := {
  oc_w : W;                       (* the Writer after Finish *)
  oc_calls : list wcall;          (* every Writer call made, in order, Finish included *)
  oc_reports : list report        (* the entries appended to the error report *)
}.
Arguments oc_w {W}. Arguments oc_calls {W}. Arguments oc_reports {W}.

Section Run.
Variable W : Type.
Variable wstep : W -> wcall -> res (W * bool).     (* Ok (w', true) = the call returned nil *)

(* returns the writer, idx, the calls made (newest first) and the report entry of the early return *)
Fixpoint run_actions (acts : list action) (w : W) (idx : N) (calls : list wcall)
  : res (W * N * list wcall * option report) :=
  match acts with
  | [] => Ok (w, idx, calls, None)
  | ATick :: r => run_actions r w (idx + 1) calls
  | ACall c :: r =>
    do '(w', ok) <- wstep w c;
    if ok then run_actions r w' idx (c :: calls)
    else Ok (w', idx, c :: calls, Some {| rp_type := EWrite; rp_in_input := true; rp_idx := idx |})
  | ACallIgn c :: r =>
    do '(w', _) <- wstep w c;
    run_actions r w' idx (c :: calls)
  | APanic :: _ => Panic
  | AReadErr :: _ => Ok (w, idx, calls, Some {| rp_type := ERead; rp_in_input := true; rp_idx := idx |})
  end.

(* processStdin / processFiles with one input: process, then Finish; a Finish error is reported
   with location "" *)
Definition process_actions (acts : list action) (w : W) : res (outcome W) :=
  do '(w1, idx, calls, rep) <- run_actions acts w 0 [];
  do '(w2, ok) <- wstep w1 CFinish;
  let reps := (match rep with Some r => [r] | None => [] end) ++
              (if ok then [] else [{| rp_type := EWrite; rp_in_input := false; rp_idx := idx |}]) in
  Ok {| oc_w := w2; oc_calls := rev (CFinish :: calls); oc_reports := reps |}.

(* the Writer driven through a call list the way WriteTo-style code does: stop at the first error *)
Fixpoint drive (w : W) (cs : list wcall) : res (W * bool) :=
  match cs with
  | [] => Ok (w, true)
  | c :: r => do '(w', ok) <- wstep w c; if ok then drive w' r else Ok (w', false)
  end.

Definition process_pinned (w : W) (vs : list oval) : res (outcome W) :=
  process_actions (flatten_pinned vs) w.
Definition process_fixed (w : W) (vs : list oval) : res (outcome W) :=
  process_actions (flatten_fixed vs) w.
End Run.
Arguments run_actions {W}. Arguments process_actions {W}. Arguments drive {W}.
Arguments process_pinned {W}. Arguments process_fixed {W}.

(* the same loop against a Writer that accepts every call: (idx, calls in order, early-return entry);
   None = panic *)
Fixpoint sim (acts : list action) (idx : N) : option (N * list wcall * option report) :=
  match acts with
  | [] => Some (idx, [], None)
  | ATick :: r => sim r (idx + 1)
  | ACall c :: r | ACallIgn c :: r =>
    match sim r idx with
    | Some (i, cs, rep) => Some (i, c :: cs, rep)
    | None => None
    end
  | APanic :: _ => None
  | AReadErr :: _ => Some (idx, [], Some {| rp_type := ERead; rp_in_input := true; rp_idx := idx |})
  end.

(* ---- fix_cli_sids.diff (optional third patch) -------------------------------------------------- *)
(* textOnly: a token whose text is known is handed to the Writer without the source's symbol ID, at
   the three places a token is handed over (FieldName, Annotations, WriteSymbol).  That is the fixed
   loop run on the observation with those tokens normalised. *)
Definition text_only (t : tok) : tok :=
  match tk_text t with Some x => tok_text x | None => t end.
Definition norm_scalar (s : oscalar) : oscalar :=
  match s with SSymbol t => SSymbol (text_only t) | _ => s end.
Fixpoint norm_oval (v : oval) : oval :=
  match v with
  | OScalar f a s => OScalar (option_map text_only f) (map text_only a) (norm_scalar s)
  | OCont f a k l => OCont (option_map text_only f) (map text_only a) k (map norm_oval l)
  | OFail => OFail
  end.
Definition process_fixed_sids {W : Type} (wstep : W -> wcall -> res (W * bool)) (w : W) (vs : list oval)
  : res (outcome W) := process_fixed wstep w (map norm_oval vs).

(* a token the Writer can only resolve by its text *)
Definition tok_normal (t : tok) : bool :=
  match tk_text t with Some _ => (tk_sid t =? -1)%Z | None => true end.
Definition call_normal (c : wcall) : bool :=
  match c with
  | CFieldName t | CAnnotation t | CSymbol t => tok_normal t
  | CAnnotations ts => forallb tok_normal ts
  | _ => true
  end.

(* ---- the writers of the formats whose behaviour is decided here ---------------------------- *)
(* -f none: nopwriter, every method returns nil *)
Definition nop_step (w : unit) (c : wcall) : res (unit * bool) := Ok (tt, true).

(* -f binary: ion.NewBinaryWriter(out) *)
Definition bin_step (w : wstate) (c : wcall) : res (wstate * bool) := wstep w c.

(* ---- what a call sequence denotes ---------------------------------------------------------- *)
(* symbols are compared by text whenever the token has one *)
Definition symv_of_tok (t : tok) : symv :=
  match tk_text t with
  | Some x => SymText x
  | None => SymSid (Z.to_N (tk_sid t))
  end.

Definition wrap_ann (a : list tok) (v : value) : value :=
  match a with [] => v | _ => VAnn (map symv_of_tok a) v end.

(* the value written by a scalar call; None for a call that writes no value (nil argument) *)
Definition value_of_call (c : wcall) : option value :=
  match c with
  | CNull => Some (VNull TNull)
  | CNullType t => if (1 <=? t) && (t <=? 13) then Some (VNull t) else None
  | CBool b => Some (VBool b)
  | CInt z => Some (VInt z)
  | CUint n => Some (VInt (Z.of_N n))
  | CBigInt (Some z) => Some (VInt z)
  | CFloat b => Some (VFloat b)
  | CDecimal (Some d) => Some (VDecimal d)
  | CTimestamp _ body => Some (VTimestamp body)
  | CSymbol t => Some (VSymbol (symv_of_tok t))
  | CSymbolFromString x => Some (VSymbol (SymText x))
  | CString x => Some (VString x)
  | CClob b => Some (VClob b)
  | CBlob b => Some (VBlob b)
  | _ => None
  end.

(* an open container: its kind, the field name and annotations pending when it was begun, and
   the items completed so far (newest first) *)
Record frame := { fr_kind : ckind; fr_field : option tok; fr_annots : list tok;
                  fr_items : list (option tok * value) }.
Record vstate := { vs_stack : list frame;                     (* innermost first *)
                   vs_top : list (option tok * value);        (* top-level items, newest first *)
                   vs_field : option tok; vs_annots : list tok }.
Definition vinit : vstate := {| vs_stack := []; vs_top := []; vs_field := None; vs_annots := [] |}.

Definition add_item (st : vstate) (f : option tok) (v : value) : vstate :=
  match vs_stack st with
  | [] => {| vs_stack := []; vs_top := (f, v) :: vs_top st; vs_field := None; vs_annots := [] |}
  | fr :: r => {| vs_stack := {| fr_kind := fr_kind fr; fr_field := fr_field fr; fr_annots := fr_annots fr;
                                 fr_items := (f, v) :: fr_items fr |} :: r;
                  vs_top := vs_top st; vs_field := None; vs_annots := [] |}
  end.

(* list / sexp children carry no field name, struct children carry one *)
Fixpoint plain_items (l : list (option tok * value)) : option (list value) :=
  match l with
  | [] => Some []
  | (None, v) :: r => option_map (cons v) (plain_items r)
  | (Some _, _) :: _ => None
  end.
Fixpoint field_items (l : list (option tok * value)) : option (list (symv * value)) :=
  match l with
  | [] => Some []
  | (Some f, v) :: r => option_map (cons (symv_of_tok f, v)) (field_items r)
  | (None, _) :: _ => None
  end.
Definition container_value (k : ckind) (items : list (option tok * value)) : option value :=
  match k with
  | KList => option_map VList (plain_items items)
  | KSexp => option_map VSexp (plain_items items)
  | KStruct => option_map VStruct (field_items items)
  end.
Definition ckind_eqb (a b : ckind) : bool :=
  match a, b with KList, KList | KSexp, KSexp | KStruct, KStruct => true | _, _ => false end.

Definition vbegin (st : vstate) (k : ckind) : vstate :=
  {| vs_stack := {| fr_kind := k; fr_field := vs_field st; fr_annots := vs_annots st; fr_items := [] |} :: vs_stack st;
     vs_top := vs_top st; vs_field := None; vs_annots := [] |}.
Definition vend (st : vstate) (k : ckind) : option vstate :=
  match vs_stack st with
  | [] => None
  | fr :: r =>
    if negb (ckind_eqb (fr_kind fr) k) then None else
    match vs_field st, vs_annots st with
    | None, [] =>
      match container_value k (rev (fr_items fr)) with
      | Some v => Some (add_item {| vs_stack := r; vs_top := vs_top st; vs_field := None; vs_annots := [] |}
                                 (fr_field fr) (wrap_ann (fr_annots fr) v))
      | None => None
      end
    | _, _ => None                                   (* dangling field name / annotations *)
    end
  end.

Definition vstep (st : vstate) (c : wcall) : option vstate :=
  match c with
  | CFieldName t =>
    match vs_stack st with
    | fr :: _ => match fr_kind fr with
                 | KStruct => Some {| vs_stack := vs_stack st; vs_top := vs_top st; vs_field := Some t; vs_annots := vs_annots st |}
                 | _ => None
                 end
    | [] => None
    end
  | CAnnotation t => Some {| vs_stack := vs_stack st; vs_top := vs_top st; vs_field := vs_field st; vs_annots := vs_annots st ++ [t] |}
  | CAnnotations ts => Some {| vs_stack := vs_stack st; vs_top := vs_top st; vs_field := vs_field st; vs_annots := vs_annots st ++ ts |}
  | CBeginList => Some (vbegin st KList)
  | CBeginSexp => Some (vbegin st KSexp)
  | CBeginStruct => Some (vbegin st KStruct)
  | CEndList => vend st KList
  | CEndSexp => vend st KSexp
  | CEndStruct => vend st KStruct
  | CFinish => None                                  (* handled by values_of_calls *)
  | _ => match value_of_call c with
         | Some v => Some (add_item st (vs_field st) (wrap_ann (vs_annots st) v))
         | None => None
         end
  end.

Fixpoint vrun (st : vstate) (cs : list wcall) : option vstate :=
  match cs with
  | [] => Some st
  | c :: r => match vstep st c with Some st' => vrun st' r | None => None end
  end.

(* the top-level values of a complete call sequence "... Finish" *)
Definition finished (st : vstate) : option (list value) :=
  match vs_stack st, vs_field st, vs_annots st with
  | [], None, [] => plain_items (rev (vs_top st))
  | _, _, _ => None
  end.
Fixpoint split_last (cs : list wcall) : option (list wcall * wcall) :=
  match cs with
  | [] => None
  | [c] => Some ([], c)
  | c :: r => option_map (fun '(i, l) => (c :: i, l)) (split_last r)
  end.
Definition values_of_calls (cs : list wcall) : option (list value) :=
  match split_last cs with
  | Some (body, CFinish) => match vrun vinit body with Some st => finished st | None => None end
  | _ => None
  end.

(* ---- the values an observed forest denotes --------------------------------------------------- *)
Definition value_of_scalar (s : oscalar) : value :=
  match s with
  | SNull t => VNull t
  | SBool b => VBool b
  | SInt (I64 z) => VInt z
  | SInt (IBig z) => VInt z
  | SFloat b => VFloat b
  | SDecimal d => VDecimal d
  | STimestamp _ body => VTimestamp body
  | SSymbol t => VSymbol (symv_of_tok t)
  | SString t => VString t
  | SClob b => VClob b
  | SBlob b => VBlob b
  end.

Definition field_sym (f : option tok) : symv :=
  match f with Some t => symv_of_tok t | None => SymSid 0 end.
Definition field_of (v : oval) : option tok :=
  match v with OScalar f _ _ => f | OCont f _ _ _ => f | OFail => None end.

Fixpoint value_of (v : oval) : value :=
  match v with
  | OScalar _ a s => wrap_ann a (value_of_scalar s)
  | OCont _ a k l =>
    wrap_ann a (match k with
                | KList => VList (map value_of l)
                | KSexp => VSexp (map value_of l)
                | KStruct => VStruct (map (fun x => (field_sym (field_of x), value_of x)) l)
                end)
  | OFail => VNull TNull
  end.

(* a forest the Reader can report for a valid document: no failure, null types in range, a field
   name exactly on the children of structs *)
Definition scalar_ok (s : oscalar) : bool :=
  match s with SNull t => (1 <=? t) && (t <=? 13) | _ => true end.
Definition field_ok (in_struct : bool) (f : option tok) : bool :=
  match f with Some _ => in_struct | None => negb in_struct end.
Fixpoint obs_ok (in_struct : bool) (v : oval) : bool :=
  match v with
  | OScalar f _ s => field_ok in_struct f && scalar_ok s
  | OCont f _ k l =>
    field_ok in_struct f && forallb (obs_ok (match k with KStruct => true | _ => false end)) l
  | OFail => false
  end.
Definition forest_ok (vs : list oval) : bool := forallb (obs_ok false) vs.

(* ---- the calls made before a reader failure (specification side) ----------------------------- *)
(* (calls, failed): the Writer calls a faithful transcoder makes for the values the Reader delivered
   before it failed; a container cut short is begun and never ended *)
Fixpoint calls_upto (v : oval) : list wcall * bool :=
  match v with
  | OScalar f a s => (head_calls f a ++ [scalar_call s], false)
  | OCont f a k l =>
    let '(cs, failed) :=
      (fix go (l : list oval) : list wcall * bool :=
         match l with
         | [] => ([], false)
         | x :: r => let '(c1, f1) := calls_upto x in
                     if f1 then (c1, true) else let '(c2, f2) := go r in (c1 ++ c2, f2)
         end) l in
    if failed then (head_calls f a ++ begin_call k :: cs, true)
    else (head_calls f a ++ begin_call k :: cs ++ [end_call k], false)
  | OFail => ([], true)
  end.
Fixpoint calls_upto_forest (l : list oval) : list wcall * bool :=
  match l with
  | [] => ([], false)
  | x :: r => let '(c1, f1) := calls_upto x in
              if f1 then (c1, true) else let '(c2, f2) := calls_upto_forest r in (c1 ++ c2, f2)
  end.

(* the number of idx++ executed before the stop: one per delivered value, one per completed container *)
Fixpoint ticks_upto (v : oval) : N * bool :=
  match v with
  | OScalar _ _ _ => (1, false)
  | OCont _ _ _ l =>
    let '(n, failed) :=
      (fix go (l : list oval) : N * bool :=
         match l with
         | [] => (0, false)
         | x :: r => let '(n1, f1) := ticks_upto x in
                     if f1 then (n1, true) else let '(n2, f2) := go r in (n1 + n2, f2)
         end) l in
    if failed then (1 + n, true) else (1 + n + 1, false)
  | OFail => (0, true)
  end.
Fixpoint ticks_upto_forest (l : list oval) : N * bool :=
  match l with
  | [] => (0, false)
  | x :: r => let '(n1, f1) := ticks_upto x in
              if f1 then (n1, true) else let '(n2, f2) := ticks_upto_forest r in (n1 + n2, f2)
  end.
